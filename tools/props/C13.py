"""C13 — dynamics attach to the right decay with the right variables and defaults.

Proof (Lean, Props/C13.lean) about the executable selector / formulation model Model/C13Selector.lean,
tied to the working tree by two T2 correspondences (Drivers/C13.lean):
* assignment histories: the full choice map of the real `DynamicsSelector` after EVERY operation;
* formulated models: which builder was called with which resonance, mass symbols, angles and L
  (recording builders, incl. custom ones) and the collected parameter defaults (bit patterns).
Independent oracle on the real code: every chain amplitude with dynamics equals the amplitude without
dynamics times the builders' marker expressions on that node's own variables; Breit-Wigner defaults
equal the particle table.
"""

from __future__ import annotations

import json
import random
import time
import traceback

from tools.lib import common

PROP_ID = "C13"
DRIVER = "Ampverif/Drivers/C13.lean"
SOURCES = ["src/ampform/helicity/__init__.py", "src/ampform/helicity/decay.py", "src/ampform/dynamics/builder.py",
           "src/ampform/helicity/naming.py", "src/ampform/kinematics/lorentz.py"]
N_CASES = {"quick": {"corpus_rounds": 3, "synthetic": 200, "oracle_synthetic": 70, "max_ops": 8, "form2": 40},
           "thorough": {"corpus_rounds": 25, "synthetic": 1500, "oracle_synthetic": 400, "max_ops": 14, "form2": 500}}
HIST_BUILDERS = [0, 1, 2, 3, 4, 5]
MARKERS = [0, 4, 5, 6]


def make_case(R1, R, corpus, kind: str, mode: str, case_seed: int, max_ops: int, corpus_name: str | None = None,
              option_index: int | None = None) -> dict:
    rng = random.Random(case_seed)
    reaction = corpus[corpus_name] if kind == "corpus" else R1.synthetic_reaction(rng, max_transitions=10)
    tb = R1.Tables(reaction)
    ids = {"hist": HIST_BUILDERS, "form": R.FORM_BUILDERS, "oracle": MARKERS, "form2": [0, 4, 5, 6], "oracle2": MARKERS,
           "all_parents": MARKERS, "reassign": MARKERS}[mode]
    pre = None
    if mode in {"all_parents", "reassign"}:
        ops = R.forced_ops(rng, reaction, tb, mode)
    else:
        ops = R.random_ops(rng, reaction, tb, rng.randint(1, max_ops), ids, allow_bad=(mode not in {"oracle", "oracle2"}))
    if mode in {"form2", "oracle2"}:  # assign -> formulate -> re-assign -> formulate on one builder
        pre = R.random_ops(rng, reaction, tb, rng.randint(1, max(1, max_ops // 2)), ids, allow_bad=False)
    cfg = None
    if mode != "hist":  # public builder options are a dimension of EVERY formulated-model / oracle case
        cfg = R.option_cfg(random.Random(case_seed ^ 0x5EED), reaction, option_index if option_index is not None else case_seed)
    return {"kind": kind, "mode": mode, "case_seed": case_seed, "corpus": corpus_name, "reaction": reaction, "tb": tb, "ops": ops,
            "pre": pre, "cfg": cfg, "option_index": option_index}


def case_id(R, c: dict) -> dict:
    return {"kind": c["kind"], "mode": c["mode"], "case_seed": c["case_seed"], "corpus": c["corpus"], "ops": R.describe_ops(c["ops"]),
            "pre_ops": R.describe_ops(c["pre"]) if c.get("pre") else None, "config": R.describe_cfg(c.get("cfg")),
            "option_index": c.get("option_index")}


def infer_covers(R1, R, corpus, chk) -> tuple[bool, list[dict]]:
    """Does the selection by name reach the chains of the identical-particle combinatorics (fix e918528)?"""
    r = corpus["jpsi_pi0pi0g_omega_hel"]
    tb = R1.Tables(r)
    ops = [{"kind": "name", "obj": "omega(782)", "b": 4, "tokens": ["name", R1.enc_name("omega(782)"), "4"], "repr": "omega(782)"}]
    real, _ = R.real_form(r, tb, ops)
    covers = True
    if "calls" in real:
        swapped = [k for k in real["calls"] if R1.enc_name("m_02") in k.split(":")]
        covers = bool(swapped)
    chk.info("variant_probe", {"omega_swapped_chain_has_dynamics": covers})
    failures = []
    for f in R.oracle_ratio(r, tb, ops):
        failures.append({"input": {"probe": "J/psi -> pi0 pi0 gamma via omega(782) (corpus jpsi_pi0pi0g_omega_hel); dynamics.assign('omega(782)', marker builder)"},
                         "failure": f, "class": "identical-particle combinatorics chain not covered by the dynamics selection"})
    return covers, failures


class C13Property:
    prop_id = PROP_ID
    prop_modules = ["Ampverif.Props.C13"]

    def run(self, tier: str, seed: int) -> int:
        common.use_repo_source()
        from tools.corr import C01_real as R1
        from tools.corr import C13_real as R

        chk = common.Check(PROP_ID, tier, seed)
        n = N_CASES[tier]
        chk.info("source_blobs", common.source_blob_hashes(SOURCES))

        res = common.prove(PROP_ID, self.prop_modules)
        chk.record_proof(res, "cd lean && lake build Ampverif.Props.C13 && lake env lean Ampverif/Audit/C13.lean (#print axioms)")
        if tier == "thorough" and res["build_ok"]:
            import subprocess

            try:
                p = subprocess.run(["lake", "env", "leanchecker", *self.prop_modules], cwd=common.LEAN, capture_output=True,
                                   text=True, timeout=900)
                chk.info("leanchecker", "ok" if p.returncode == 0 else (p.stdout + p.stderr)[-400:])
                if p.returncode != 0:
                    chk.broken.append({"kind": "proof", "theorem": "<leanchecker>", "detail": (p.stdout + p.stderr)[-400:]})
            except subprocess.TimeoutExpired as e:
                raise common.InfraError("leanchecker timed out") from e
        ok, log = common.lake_build(["Ampverif.Drivers.C01Parse", "Ampverif.Model.C13Selector"])
        if not ok:
            chk.broken_correspondence("lean driver modules do not build", log[-600:])

        corpus = R.load_corpus()
        failures: list[dict] = []
        try:
            covers, probe_failures = infer_covers(R1, R, corpus, chk)
        except Exception as e:  # noqa: BLE001
            chk.broken_correspondence("variant probe", "".join(traceback.format_exception_only(type(e), e))[-600:])
            covers, probe_failures = True, []
        failures += probe_failures
        chk.info("inferred_variant", {"selCoversComb": covers})
        if not covers:
            chk.note("the selector does not cover the combinatorics chains: Lean witness C13_witness_swapped_chain applies")

        rng = common.rng_for(PROP_ID, seed, "cases")
        plan = []
        for _ in range(n["corpus_rounds"]):
            for name in corpus:
                for mode in ("hist", "form"):
                    plan.append(("corpus", mode, rng.getrandbits(48), name))
        for _ in range(n["synthetic"]):
            for mode in ("hist", "form"):
                plan.append(("synthetic", mode, rng.getrandbits(48), None))
        for name in corpus:  # forced shapes on every corpus reaction
            for mode in ("all_parents", "reassign", "form2"):
                plan.append(("corpus", mode, rng.getrandbits(48), name))
        for k in range(n["form2"]):
            plan.append(("synthetic", ("form2", "all_parents", "reassign")[k % 3], rng.getrandbits(48), None))
        cases = []
        rejected = 0
        opt_counter: dict = {}
        for kind, mode, cs, name in plan:
            # option index: cycles use_helicity_couplings x {no alignment, axis-angle} per (kind, mode, reaction)
            okey = (kind, mode, name)
            oi = opt_counter.get(okey, len(opt_counter) if kind == "corpus" else 0)
            opt_counter[okey] = oi + 1
            try:
                cases.append(make_case(R1, R, corpus, kind, mode, cs, n["max_ops"], name, option_index=oi))
            except Exception:  # noqa: BLE001
                rejected += 1
        chk.info("generator_rejections", rejected)

        lines = []
        for c in cases:
            if c["mode"] == "hist":
                lines.append(R.hist_line(covers, c["reaction"], c["tb"], c["ops"]))
            elif c["mode"] == "form2":
                # two requests joined by a tab marker are not possible on one line: the first formulate is request k,
                # the second (all operations so far) is sent as a separate line right after it
                lines.append(R.form_line(covers, c["reaction"], c["tb"], c["pre"], c["cfg"]))
            else:
                lines.append(R.form_line(covers, c["reaction"], c["tb"], c["ops"], c["cfg"]))
        second = {i: R.form_line(covers, c["reaction"], c["tb"], [*c["pre"], *c["ops"]], c["cfg"]) for i, c in enumerate(cases) if c["mode"] == "form2"}
        second_idx = sorted(second)
        lines_all = lines + [second[i] for i in second_idx]
        lean_out: list[str] = []
        second_out: dict = {}
        try:
            t0 = time.time()
            all_out = common.lean_run(DRIVER, "\n".join(lines_all) + "\n", timeout=1800).strip().split("\n")
            chk.info("lean_driver_seconds", round(time.time() - t0, 1))
            if len(all_out) == len(lines_all):
                lean_out = all_out[:len(lines)]
                second_out = dict(zip(second_idx, all_out[len(lines):]))
            else:
                lean_out = all_out
        except common.LeanRunError as e:
            chk.broken_correspondence("lean driver", str(e)[-800:])
        if lean_out and len(lean_out) != len(cases):
            chk.broken_correspondence("lean driver", f"{len(lean_out)} replies for {len(cases)} requests")
            lean_out = []

        dist = {"mode": {}, "kind": {}, "op_kinds": {}, "n_ops": {}, "form_outcome": {}, "options": {}, "skeletons_compared": 0,
                "skeletons_with_dynamics_factor": 0, "inexpr_compared": 0, "identical_final": 0,
                "multi_topology": 0, "selector_steps_compared": 0, "builder_calls_compared": 0, "defaults_compared": 0}
        mism = 0
        for idx, c in enumerate(cases):
            r, tb, ops = c["reaction"], c["tb"], c["ops"]
            d = R1.describe(r)
            dist["mode"][c["mode"]] = dist["mode"].get(c["mode"], 0) + 1
            dist["kind"][c["kind"]] = dist["kind"].get(c["kind"], 0) + 1
            dist["n_ops"][str(len(ops))] = dist["n_ops"].get(str(len(ops)), 0) + 1
            for o in ops:
                dist["op_kinds"][o["kind"]] = dist["op_kinds"].get(o["kind"], 0) + 1
            dist["identical_final"] += int(d["identical_final"])
            dist["multi_topology"] += int(d["n_topologies"] > 1)
            try:
                if c["mode"] == "hist":
                    real = R.real_hist(r, tb, ops)
                    dist["selector_steps_compared"] += len(real)
                    nontrivial = len(ops) >= 2 and d["n_transitions"] >= 2
                elif c["mode"] == "form2":
                    with R1.time_limit(CASE_CAP):
                        both = R.real_form2(r, tb, c["pre"], ops, c["cfg"])
                    real, real_second = both[0], both[1]
                    dist["second_formulate_compared"] = dist.get("second_formulate_compared", 0) + 1
                    nontrivial = bool(real_second.get("calls"))
                    if lean_out and idx in second_out:
                        lean2 = R.parse_form(second_out[idx])
                        if not R.form_agree(real_second, lean2):
                            mism += 1
                            if mism <= 3:
                                chk.broken_correspondence("second formulate() on one builder after re-assignment vs model of all operations",
                                                          {"case": case_id(R, c), "reaction": d, "diff": short_diff(real_second, lean2)})
                else:
                    with R1.time_limit(CASE_CAP):
                        real, _ = R.real_form(r, tb, ops, c["cfg"])
                    dist["form_outcome"][real.get("error", "ok")] = dist["form_outcome"].get(real.get("error", "ok"), 0) + 1
                    dist["builder_calls_compared"] += sum(real.get("calls", {}).values())
                    dist["defaults_compared"] += len(real.get("defaults", {}))
                    nontrivial = bool(real.get("calls"))
                if c["mode"] != "hist":
                    tally_options(dist, c["cfg"], real if isinstance(real, dict) else {})
            except R1.CaseTimeout:
                real, nontrivial = {"error": "Timeout"}, False
                chk.broken_correspondence("formulate() under a builder configuration exceeded the per-case cap",
                                          {"case": case_id(R, c), "reaction": d, "cap_seconds": CASE_CAP})
            except Exception as e:  # noqa: BLE001
                real, nontrivial = {"error": "Other:" + type(e).__name__ + ":" + str(e)[:200]}, False
            chk.count((lines[idx],) if nontrivial else None)
            if idx % 41 == 0:
                chk.sample({"case": case_id(R, c), "reaction": d,
                            "real": (real[-1][:300] if isinstance(real, list) else {k: (len(v) if isinstance(v, dict) else v) for k, v in real.items()})})
            if lean_out:
                lean = R.parse_hist(lean_out[idx]) if c["mode"] == "hist" else R.parse_form(lean_out[idx])
                if (lean != real) if c["mode"] == "hist" else not R.form_agree(real, lean):
                    mism += 1
                    if mism <= 3:
                        chk.broken_correspondence("selector / formulation model vs real code",
                                                  {"case": case_id(R, c), "reaction": d, "diff": short_diff(real, lean)})
        chk.info("correspondence_mismatches", mism)

        # ---- oracle (always): ratio with / without dynamics, defaults vs particle table
        orng = common.rng_for(PROP_ID, seed, "oracle")
        n_or = n["oracle_synthetic"] * (4 if chk.broken else 1)
        oracle_plan = [("corpus", orng.getrandbits(48), name) for name in corpus] + [("synthetic", orng.getrandbits(48), None) for _ in range(n_or)]
        oracle_runs = 0
        for o_idx, (kind, cs, name) in enumerate(oracle_plan):
            try:
                c = make_case(R1, R, corpus, kind, "oracle2" if cs % 2 else "oracle", cs, n["max_ops"], name, option_index=o_idx + seed)
            except Exception:  # noqa: BLE001
                continue
            try:
                with R1.time_limit(120):
                    bad = R.oracle_ratio(c["reaction"], c["tb"], c["ops"], pre_ops=c.get("pre"), cfg=c["cfg"])
                    bad += R.oracle_defaults(c["reaction"], c["cfg"], c["tb"]) if kind == "corpus" or oracle_runs % 5 == 0 else []
            except R1.CaseTimeout:
                continue
            except R1.ERRS:
                continue  # builder refused the configuration (e.g. missing L): not a C13 statement
            oracle_runs += 1
            ocfg = c["cfg"]
            okey = f"oracle hc={int(ocfg['hc'])} align={ocfg['align']} {'canonical' if c['reaction'].formalism.startswith('canonical') else 'helicity'}"
            dist["options"][okey] = dist["options"].get(okey, 0) + 1
            chk.count(("oracle", cs) if len(c["ops"]) >= 1 else None)
            for f in bad:
                failures.append({"input": case_id(R, c), "reaction": R1.describe(c["reaction"]), "failure": f,
                                 "class": classify(f, c)})
        dist["oracle_runs"] = oracle_runs
        chk.info("input_distribution", dist)

        seen = set()
        for f in failures:
            if f["class"] in seen:
                continue
            seen.add(f["class"])
            if len(seen) > 4:
                break
            chk.failing_input({"class": f["class"]}, {
                "input": f["input"], "reaction": f.get("reaction"), "observed": f["failure"],
                "expected": "chain amplitude with dynamics = amplitude without dynamics x builder(parent particle, own mass symbols, L) for exactly the nodes the LAST matching assignment denotes; m/Gamma defaults = particle table",
                "inferred_variant": {"selCoversComb": covers}, "broken": chk.broken})
        if chk.broken and not failures:
            for b in chk.broken:
                chk.unexplained(b.get("theorem") or b.get("what"), b)
        chk.coverage["rule"] = (
            "evaluations = histories / formulated models compared between the real code and the Lean model + oracle runs on the "
            "real code; non-trivial: a history with >= 2 operations on a reaction with >= 2 transitions, a formulated model "
            "with >= 1 recorded builder call, an oracle run with >= 1 assignment; distinct = distinct protocol lines / oracle seeds")
        chk.coverage["trusted_base"] = [
            "Lean 4.33 kernel (axioms: see axioms_reported); Model/C13Selector.lean and Model/C01Builder.lean are import-free",
            "tools/corr/C13_real.py, tools/corr/C01_real.py (encoding, recording builders, canonical forms)",
            "executed, not modelled: qrules (combinatorics, TwoBodyDecay hashing via attrs/Particle.__eq__), SymPy Mul/Add canonical forms (oracle ratio)",
        ]
        chk.assumptions += [
            "distinct particle names differ in a quantum number (qrules Particle.__eq__ ignores the name)",
            "l_projection / s_projection of an interaction are functions of the helicities (not part of the modelled decay key)",
            "C13_defaults needs the hypothesis that `latex or name` identifies mass and width; reactions violating it are compared for last-writer-wins order only",
        ]
        return chk.finish()


CASE_CAP = 90  # seconds per formulated-model case (a stuck case = broken correspondence)


def tally_options(dist: dict, cfg: dict, real: dict) -> None:
    key = f"form hc={int(cfg['hc'])} align={cfg['align']} naming={int(cfg['parent'])}{int(cfg['child'])}{int(cfg['ls'])}"
    dist["options"][key] = dist["options"].get(key, 0) + 1
    if cfg["stable"] is not None:
        dist["options"]["stable_final_state_ids set"] = dist["options"].get("stable_final_state_ids set", 0) + 1
    if cfg["scalar"]:
        dist["options"]["scalar_initial_state_mass"] = dist["options"].get("scalar_initial_state_mass", 0) + 1
    sk = real.get("skel") or {}
    dist["skeletons_compared"] += len(sk)
    dist["skeletons_with_dynamics_factor"] += sum(1 for _n, s in sk.values() if not s.endswith("|-"))
    dist["inexpr_compared"] += int("inexpr" in real)


def short_diff(real, lean):
    if isinstance(real, dict) and isinstance(lean, dict) and "skel" in real and "skel" in lean:
        rest_r = {k: v for k, v in real.items() if k not in {"skel", "inexpr"}}
        rest_l = {k: v for k, v in lean.items() if k not in {"skel", "inexpr"}}
        if rest_r == rest_l:
            out = {"inexpr_real": real.get("inexpr"), "inexpr_model": lean.get("inexpr")} if real.get("inexpr", lean.get("inexpr")) != lean.get("inexpr") else {}
            for key, (name, sk) in real["skel"].items():
                if lean["skel"].get(key) != sk:
                    fields = ("coefficient", "couplings", "wigner angles", "dynamics factors")
                    ra, la = sk.split("|"), str(lean["skel"].get(key)).split("|")
                    out["amplitude skeleton"] = {"chain": key, "component": name[:160], "differs_in": {
                        f: {"real": a[:300], "model": b[:300]} for f, a, b in zip(fields, ra, la) if a != b}}
                    break
            return out
    if isinstance(real, list) and isinstance(lean, list):
        for i, (a, b) in enumerate(zip(real, lean)):
            if a != b:
                sa, sb = set(a.split(",")), set(b.split(","))
                return {"step": i, "real_only": sorted(sa - sb)[:5], "lean_only": sorted(sb - sa)[:5]}
        return {"lengths": [len(real), len(lean)]}
    return {"real": json.dumps(real, default=str)[:500], "lean": json.dumps(lean, default=str)[:500]}


def classify(f: dict, c: dict) -> str:
    what = f.get("what", "")
    if "chain amplitude" in what:
        d = c["reaction"]
        names = [p.name for p in d.final_state.values()]
        if len(names) != len(set(names)):
            return "identical-particle combinatorics chain not covered by the dynamics selection"
        return "chain amplitude with dynamics != amplitude without dynamics x builder expression on the node's own variables"
    return what


def _find_case(obj):
    if isinstance(obj, dict):
        if "case_seed" in obj and "mode" in obj:
            return obj
        for v in obj.values():
            r = _find_case(v)
            if r is not None:
                return r
    elif isinstance(obj, list):
        for v in obj:
            r = _find_case(v)
            if r is not None:
                return r
    return None


def replay(rep: dict) -> int:
    """./check C13 --replay FILE : rebuild the stored case; show what the real code and the model do on it."""
    common.use_repo_source()
    from tools.corr import C01_real as R1
    from tools.corr import C13_real as R

    print(json.dumps(rep, indent=1, default=str)[:3000])
    inp = _find_case(rep)
    if inp is None:
        return PROP.run("quick", int(rep.get("seed", 0)))
    corpus = R.load_corpus()
    c = None
    for tier in ("quick", "thorough"):
        c = make_case(R1, R, corpus, inp["kind"], inp["mode"], inp["case_seed"], N_CASES[tier]["max_ops"], inp.get("corpus"),
                      option_index=inp.get("option_index"))
        if R.describe_ops(c["ops"]) == [list(o) for o in inp.get("ops", R.describe_ops(c["ops"]))]:
            break
    covers = (rep.get("inferred_variant") or {}).get("selCoversComb", True)
    out = {"ops": R.describe_ops(c["ops"]), "reaction": R1.describe(c["reaction"])}
    code = 0
    if inp["mode"] in {"oracle", "oracle2"}:
        bad = R.oracle_ratio(c["reaction"], c["tb"], c["ops"], pre_ops=c.get("pre"), cfg=c["cfg"]) + R.oracle_defaults(c["reaction"], c["cfg"], c["tb"])
        out["oracle_failures"] = bad[:4]
        code = 1 if bad else 0
    else:
        line = (R.hist_line(covers, c["reaction"], c["tb"], c["ops"]) if inp["mode"] == "hist"
                else R.form_line(covers, c["reaction"], c["tb"], c["ops"], c["cfg"]))
        reply = common.lean_run(DRIVER, line + "\n").strip().split("\n")[0]
        if inp["mode"] == "hist":
            real, lean = R.real_hist(c["reaction"], c["tb"], c["ops"]), R.parse_hist(reply)
        elif inp["mode"] == "form2":
            real = R.real_form2(c["reaction"], c["tb"], c["pre"], c["ops"], c["cfg"])
            l1 = common.lean_run(DRIVER, R.form_line(covers, c["reaction"], c["tb"], c["pre"], c["cfg"]) + "\n").strip().split("\n")[0]
            l2 = common.lean_run(DRIVER, R.form_line(covers, c["reaction"], c["tb"], [*c["pre"], *c["ops"]], c["cfg"]) + "\n").strip().split("\n")[0]
            lean = [R.parse_form(l1), R.parse_form(l2)]
        else:
            real, lean = R.real_form(c["reaction"], c["tb"], c["ops"], c["cfg"])[0], R.parse_form(reply)
        if inp["mode"] == "hist":
            agree = real == lean
        elif inp["mode"] == "form2":
            agree = all(R.form_agree(a, b) for a, b in zip(real, lean))
        else:
            agree = R.form_agree(real, lean)
        out["model_vs_real"] = "agree" if agree else (short_diff(real, lean) if not isinstance(real, list) or inp["mode"] == "hist" else [short_diff(a, b) for a, b in zip(real, lean)])
        code = 0 if agree else 1
    print("replayed:", json.dumps(out, indent=1, default=str))
    return code


PROP = C13Property()

MANIFEST = {
    "technique": "Lean 4 theorems about an executable model of DynamicsSelector / __formulate_dynamics / the chain amplitude as a product (both coefficient modes) / default collection; T2 correspondence on assignment histories (choice map after every operation), on formulated models with recording builders (incl. a builder on every decaying particle, re-assignment of one decay after a by-name assignment, assign -> formulate -> re-assign -> formulate on ONE builder) under varied public builder options (use_helicity_couplings x alignment x naming flags x stable ids x scalar initial mass): recorded calls, defaults, the amplitude skeleton of every chain component and the dynamics parameters occurring in model.expression; independent ratio oracle on the real code (first and second model of a builder) under the same option combinations",
    "design_ref": "DESIGN.md §3 C13",
    "text": (
        "Proof. C13_selector: for EVERY history of assignments (by name, particle, decay, (transition,node), unsupported selections; "
        "any order and length, induction over the history) the builder of a decay of the reaction is the builder of the last operation "
        "denoting it, else create_non_dynamic; C13_selector_absent: foreign decays stay outside unless selected directly; C13_exact: "
        "with the selector covering the combinatorics chains (fix e918528) every node of every chain of every transition gets exactly "
        "the call builder(parent particle, this node's variable set) of that last operation (so a history changes exactly the chains "
        "containing a denoted node), C13_unselected (factor 1); C13_exact_amplitude / C13_amplitude_factors: for EVERY builder "
        "configuration (use_helicity_couplings on or off, naming flags, alignment, stable ids, scalar initial mass) the dynamics "
        "factors multiplied INTO a chain amplitude are node by node exactly those calls (none dropped, none added), "
        "C13_mode_independent (the two coefficient modes differ in the C / H symbols only), C13_mode_shape (one C per chain vs one "
        "H per node); C13_L: invariant-mass symbol of the decaying edge, child masses in "
        "helicity-child order, L = l_magnitude whenever present, integer-spin fallback otherwise; C13_defaults: last-writer-wins "
        "collection gives every dynamics parameter the value any writer wrote, mass/width = particle table tokens, under the explicit "
        "hypothesis that `latex or name` identifies the particle. Witness (decide): C13_witness_swapped_chain for the selector before "
        "fix e918528. Unbounded in reactions, histories, builders. The builder expressions themselves (Breit-Wigner formulas) are C12."
    ),
    "level_note": (
        "Trusted: Lean kernel; the harnesses tools/corr/C13_real.py + C01_real.py; the model is tied to the source by sampled "
        "correspondence (corpus of 10 qrules reactions incl. a four-body cascade and identical-particle reactions + synthetic reactions "
        "x random histories per run, each formulated model under a builder configuration cycling use_helicity_couplings x "
        "{no alignment, axis-angle where the unfolded intensity is small} with random naming flags / stable ids / scalar mass), not "
        "by translation. The amplitude skeleton read from model.components covers coefficient, couplings, Wigner-D angles and the "
        "tagged dynamics factors; Clebsch-Gordan factors and the parity prefactor are C02/C03. Library builders are wrapped with a "
        "tag factor Dyn_k(resonance, m, m1, m2, L) so that their expression can be located inside a chain amplitude. 'Parameter "
        "occurs in model.expression' is demanded for chains whose amplitude symbol the intensity sums over (partial helicity sets "
        "with identical particles leave some swapped chains unreferenced: C01). Executed, not modelled: qrules combinatorics and hashing of TwoBodyDecay, "
        "SymPy canonical forms in the ratio oracle. Parameter defaults other than those written by dynamics builders (coefficients, "
        "moved masses) are C01/C02 territory."
    ),
}
