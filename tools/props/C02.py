"""C02 — model intensity equals the helicity formula evaluated on the transitions.

Proof (Lean 4): the IMPL skeleton produced by a line-by-line model of the amplitude builder
(`lean/Ampverif/Model/C02Skeleton.lean`) denotes the same value as the SPEC skeleton of the
helicity formula for EVERY interpretation of D, CG, parameters and |.|^2 (`Props/C02.lean`).
Tie (T2): skeleton extraction from the real `model.amplitudes`, `model.components`,
`model.intensity` (Add of Mul of WignerD / CG / symbols / numbers) compared with the Lean impl
skeleton for corpus + seeded synthetic reactions, both formalisms, coefficient and
helicity-coupling mode, naming flags; qrules' identical-particle combinatorics compared with
the model's symmetrisation. Oracle: numpy evaluation of the helicity formula (own Wigner-d,
own symmetrisation) against the lambdified `model.expression` at random angles.

Round 5: reactions with >= 4 final-state particles on SEVERAL topologies (real J/psi -> pi+ pi- pi0 gamma via
omega, f0(980), b1(1235)+ from qrules, stored under corpus/C02; deterministic shapes and a seeded stream from
`tools/corr/C02_multi.py`) in which an equal `TwoBodyDecay` sits below different ancestors: the angle symbols of
every node of every chain are compared with the model's prediction for the chain's OWN boost chain
(`C02_node_angles`, `C02_witness_shared_subdecay`, `C02_memo_harmless`); the oracle evaluates these expression
trees atom by atom (`evaluate_tree`).
"""

from __future__ import annotations

import math
import traceback
from collections import defaultdict

from tools.corr import C02_lib as M
from tools.corr import C02_multi as X
from tools.corr import C02_oracle as O
from tools.corr import C03_lib as L
from tools.lib import common

PROP_ID = "C02"
SOURCES = ["src/ampform/helicity/__init__.py", "src/ampform/helicity/naming.py", "src/ampform/helicity/decay.py",
           "src/ampform/helicity/align/__init__.py"]
PROP_MODULES = ["Ampverif.Props.C02"]
DRIVER = "Ampverif/Drivers/C02.lean"
KNOWN_CLASS = "identical final-state particles with unequal helicities are summed coherently"
PROBE = "psi2s_gamma_gamma_jpsi.hel.json"
QUICK_ORACLE = ["jpsi_gamma_pi0_pi0_omega_f0.hel.json", "lambdac_p_k_pi.hel.json", "jpsi_sigma1750.can.json",
                "psi2s_gamma_gamma_jpsi.hel.json", "shape_L0_spin1.can", "shape_two_resonances_identical.hel",
                "jpsi_sigma1750.hel.json", "jpsi_n1520.hel.json", "chic1_n1440.hel.json"]
# always in the quick oracle: >= 2-node helicity reactions with unlike eta along the chain, (mapped eta, other eta) = (-1, +1)
# and (+1, -1) (J/psi -> Sigma~ Sigma+ and J/psi -> N~(1520) p), and eta = (-1, -1) (chi_c1 -> N~(1440) p)
UNLIKE_ETA = ["jpsi_sigma1750.hel.json", "jpsi_n1520.hel.json", "chic1_n1440.hel.json"]
QUICK_PLAIN = ["jpsi_sigma1750.can.json", "psi2s_gamma_gamma_jpsi.hel.json", *UNLIKE_ETA]
QUICK_LINESHAPES = ["jpsi_gamma_pi0_pi0_omega_f0.hel.json", "lambdac_p_k_pi.hel.json", "shape_L0_spin1.can",
                    "shape_two_resonances_identical.hel"]
# round 5: >= 4 final states, SEVERAL topologies (or identical-particle graphs) that contain the same two-body sub-decay
# -- equal edge ids, particles, helicities, interaction -- below different ancestors (angles `_2^23` vs `_2^23,023`);
# real qrules reactions (stored, thinned to the outer projections J/psi +1, gamma +1) and deterministic shapes
MULTI_REAL = ["jpsi_pip_pim_pi0_gamma.hel.json", "jpsi_pip_pim_pi0_gamma.can.json"]
MULTI_SHAPES = ["multi_4body_two_res_vs_cascades.hel", "multi_4body_two_res_vs_cascades.can", "multi_5body_depth3.hel",
                "multi_identical_cascade.hel", "multi_4body_per_topology_ids.can", "multi_4body_sorting_tie.hel"]
# quick oracle on them: (name, with marker lineshapes)
QUICK_MULTI_ORACLE = [("jpsi_pip_pim_pi0_gamma.hel.json", True), ("jpsi_pip_pim_pi0_gamma.can.json", False),
                      ("multi_4body_two_res_vs_cascades.can", True), ("multi_5body_depth3.hel", True),
                      ("multi_identical_cascade.hel", False), ("multi_4body_per_topology_ids.can", False)]
MIN_SHARED_CASES = 8


def load_corpus(big: bool = False):
    import qrules

    out = {}
    for d in M.CORPUS:
        for f in sorted(d.glob("*.json")):
            out[f.name] = qrules.io.load(f)
    # deterministic rare shapes (HARDENING rule 5): explicit L = 0 under an integer-spin resonance, spins 3/2 and 2,
    # both child orderings, two resonances at the top node, identical particles in different branches with unequal
    # helicities, unlike parity factors along a chain
    out.update(L.shaped_reactions(big))
    out.update(X.shaped_multi_reactions(big))
    return out


def is_multi_name(name: str) -> bool:
    """cases of the round-5 class: the numeric oracle evaluates the real expression tree atom by atom
    (`numeric_compare(fast=True)`; SymPy's `Abs` makes the symbolic route take minutes on them)."""
    return name.startswith(("multi", "jpsi_pip_pim_pi0_gamma"))


def has_explicit_l0(reaction) -> bool:
    """some resonance with non-zero integer spin decays with an explicit L = 0."""
    for t in reaction.transitions:
        for n in t.topology.nodes:
            (pin,) = t.topology.get_edge_ids_ingoing_to_node(n)
            if t.topology.edges[pin].originating_node_id is None:
                continue
            sp_ = t.states[pin].particle.spin
            if t.interactions[n].l_magnitude == 0 and float(sp_) == int(sp_) and int(sp_) > 0:
                return True
    return False


def has_unequal_identical(reaction) -> bool:
    for t in reaction.transitions:
        seen: dict[str, set] = {}
        for e in t.topology.outgoing_edge_ids:
            s = t.states[e]
            seen.setdefault(s.particle.name, set()).add(float(s.spin_projection))
        if any(len(v) > 1 for v in seen.values()):
            return True
    return False


# --------------------------------------------------------------------------- T2


def default_flags(canonical):
    return (False, False, True) if canonical else (False, True, None)


def infer_own(chk: common.Check, corpus) -> bool:
    """Does the builder register every graph under its own per-id projections (repaired) or
    under the first transition's (up to 043d8fb)? Probe: psi(2S) -> gamma gamma J/psi."""
    r = corpus.get(PROBE)
    if r is None:
        return True
    obs = M.observe(r, False, (False, True, None))
    nonzero = {k for k, v in obs["amplitudes"].items() if v}
    mixed = [k for k in nonzero if k[1][1] != k[1][2]]  # unequal photon helicities
    mirrored = [k for k in mixed if (k[0], (k[1][0], k[1][2], k[1][1], *k[1][3:])) in nonzero]
    own = bool(mixed) and len(mirrored) == len(mixed)
    chk.info("inferred_amplitude_registration", "own per-id projections" if own else "first transition of the cell")
    return own


def correspondence(chk: common.Check, corpus, variant, own, rng, n_synth: int, thorough: bool, n_multi: int = 0):
    cases = []
    text = f"variant {variant[0]} {variant[1]} {int(own)}\n"
    dist = defaultdict(int)

    def add(label, reaction, couplings, flags, kind, desc=None, dyn=()):
        nonlocal text
        can = reaction.formalism.startswith("canonical")
        obs = M.observe(reaction, couplings, flags, dyn)
        text += M.lean_block(can, couplings, flags, reaction.transitions, dyn)
        cases.append({"label": label, "reaction": reaction, "couplings": couplings, "flags": flags, "obs": obs,
                      "kind": kind, "desc": desc, "dyn": dyn})
        dist[f"{kind}:{reaction.formalism}:{'couplings' if couplings else 'coefficients'}"] += 1
        if dyn:
            dist["cases-with-lineshapes"] += 1

    def dyn_for(reaction, r):
        """assign a library builder (or the marker) to every resonance; sometimes leave one out."""
        can = reaction.formalism.startswith("canonical")
        names = sorted({t.states[e].particle.name for t in reaction.transitions for e in t.topology.intermediate_edge_ids})
        out = []
        for i, n in enumerate(names):
            u = r.random()
            if u < 0.15 and len(names) > 1:
                continue
            out.append((n, "marker" if u < 0.45 else ("bwff" if can else "bw")))
        if can and out and r.random() < 0.3:
            out.append((out[0][0], "ff"))  # a later assign() overrides the earlier one
        return tuple(out)

    for name, reaction in corpus.items():
        can = reaction.formalism.startswith("canonical")
        if len(reaction.transitions) > 60 and not thorough:
            continue
        add(name, reaction, False, default_flags(can), "corpus")
        extra = L.flag_combinations(can)
        if not thorough:
            extra = [f for f in extra if f != default_flags(can)]
            extra = [extra[rng.randrange(len(extra))]]
        if is_multi_name(name) and not thorough:
            # the round-5 class, three cases each: coefficients; couplings under a non-default naming flag; lineshapes
            add(name, reaction, True, extra[0], "corpus-flags")
            add(name, reaction, False, default_flags(can), "corpus-lineshapes", dyn=dyn_for(reaction, rng))
            continue
        add(name, reaction, True, default_flags(can), "corpus")
        add(name, reaction, False, default_flags(can), "corpus-lineshapes", dyn=dyn_for(reaction, rng))
        for fl in extra:
            if fl != default_flags(can):
                add(name, reaction, False, fl, "corpus-flags")
    # HARDENING rule 3: the same configuration reached through a history on ONE builder object
    hist_names = [n for n in corpus if n.startswith(("jpsi_sigma1750.hel", "jpsi_gamma_pi0_pi0_omega_f0.can", "shape_two",
                                                        "multi_4body_two_res_vs_cascades.hel"))]
    if thorough:
        hist_names = [n for n in corpus if len(corpus[n].transitions) <= 60]
    for name in hist_names:
        reaction = corpus[name]
        can = reaction.formalism.startswith("canonical")
        couplings = rng.random() < 0.5
        obs = M.observe_after_history(reaction, couplings, default_flags(can), rng)
        text += M.lean_block(can, couplings, default_flags(can), reaction.transitions)
        cases.append({"label": name + "@history", "reaction": reaction, "couplings": couplings, "flags": default_flags(can),
                      "obs": obs, "kind": "history", "desc": None, "dyn": ()})
        dist["history"] += 1
        if not all(obs["history_equal"].values()):
            chk.broken_correspondence("history", {"case": name, "steps": obs["history"], **obs["history_equal"]})
    n_ok = tries = 0
    while n_ok < n_synth and tries < 10 * n_synth:
        tries += 1
        can = rng.random() < 0.35
        ident = rng.random() < 0.4
        reaction, desc = L.synthetic_reaction(rng, canonical=can, identical=ident, max_chains=12)
        if reaction is None or len(reaction.transitions) > 40:
            continue
        n_ok += 1
        couplings = rng.random() < 0.4
        fl = default_flags(can) if rng.random() < 0.6 else rng.choice(L.flag_combinations(can))
        add(f"synthetic#{tries}", reaction, couplings, fl, "synthetic-identical" if ident else "synthetic", desc,
            dyn=dyn_for(reaction, rng) if rng.random() < 0.5 else ())
        dist[f"topology:{len(desc['particles'])}-edges"] += 1
    # round 5: seeded multi-topology reactions (4-5 final states, 2-4 topologies with a common subsystem below different
    # ancestors, one particle per subsystem, qrules-like / global / per-topology edge ids, permuted node ids)
    n_ok = tries = 0
    while n_ok < n_multi and tries < 12 * n_multi:
        tries += 1
        can = rng.random() < 0.4
        reaction, desc = X.random_multi_reaction(rng, canonical=can, max_transitions=20)
        if reaction is None:
            continue
        n_ok += 1
        couplings = rng.random() < 0.4
        fl = default_flags(can) if rng.random() < 0.6 else rng.choice(L.flag_combinations(can))
        add(f"multi#{tries}", reaction, couplings, fl, "multi-topology", desc,
            dyn=dyn_for(reaction, rng) if rng.random() < 0.6 else ())
        dist[f"multi-topology:{desc['final_states']}-final-states:{len(desc['trees'])}-topologies:{desc['id_mode']}"] += 1
    shared_cases = 0
    deepest = 0
    seen_shared: dict = {}
    for c in cases:
        r = c["reaction"]
        if len(r.final_state) < 4:
            continue
        if id(r) not in seen_shared:
            seen_shared[id(r)] = X.shared_subdecays(r)
        sh = seen_shared[id(r)]
        c["shared"] = sh
        if sh["equal_decay_keys_with_different_boost_chains"]:
            shared_cases += 1
            deepest = max(deepest, sh["max_chain_depth"])
            dist[f"shared-sub-decay:{sh['final_states']}-final-states:{sh['topologies']}-topologies"] += 1
        elif sh["equal_particles_and_helicities_with_different_boost_chains"]:
            dist["shared-sub-decay-with-different-edge-ids"] += 1
    chk.info("cases_with_an_equal_two_body_decay_below_different_ancestors", shared_cases)
    chk.info("deepest_boost_chain_of_a_shared_sub_decay", deepest)
    if shared_cases < MIN_SHARED_CASES:
        chk.broken_correspondence("corpus", f"only {shared_cases} correspondence cases contain an equal TwoBodyDecay below different "
                                            f"ancestors (>= {MIN_SHARED_CASES} expected: {MULTI_REAL + MULTI_SHAPES})")
    M.RECON["dyn_tuples"] = set()
    blocks = M.parse_lean_blocks(common.lean_run(DRIVER, text), [M.particles_of(c["reaction"]) for c in cases])
    chk.info("distinct_lineshape_calls_reconstructed", len(M.RECON["dyn_tuples"]))
    if len(blocks) != len(cases):
        chk.broken_correspondence("driver", f"{len(blocks)} blocks for {len(cases)} cases")
        return cases
    n_bad = wf_false = contradictions = 0
    for case, blk in zip(cases, blocks):
        d = M.diff(case["obs"], blk)
        case["wf"], case["agree"] = blk["wf"], blk["agree"]
        n_terms = sum(sum(abs(v) for v in t.values()) for t in case["obs"]["amplitudes"].values())
        multi = sum(1 for s in case["obs"]["sym"] if len(s) > 1)
        chk.count((case["label"], case["couplings"], case["flags"]) if n_terms >= 2 else None)
        if multi:
            dist["cases-with-identical-particle-permutations"] += 1
        if not blk["wf"]:
            wf_false += 1
        if blk["wf"] and not blk["agree"]:
            contradictions += 1
            chk.broken_correspondence("theorem-vs-model", {"case": case["label"], "detail": "the hypothesis of C02_intensity holds but impl and spec skeletons differ"})
        dist["I-components-rewritten-by-sympy-Abs(skipped)"] += case["obs"].get("unparsed_I", 0)
        if d is not None:
            n_bad += 1
            if n_bad <= 3:
                chk.broken_correspondence("model-vs-code", {"case": case["label"], "couplings": case["couplings"],
                                                            "flags": case["flags"], "lineshapes": case["dyn"],
                                                            **{k: str(v)[:400] for k, v in d.items()}})
    chk.info("correspondence_cases", len(cases))
    chk.info("correspondence_mismatches", n_bad)
    chk.info("cases_where_the_theorem_hypothesis_is_false", wf_false)
    chk.info("cases_where_the_hypothesis_holds_but_skeletons_differ", contradictions)
    chk.info("input_distribution", dict(dist))
    for case in cases[:1] + cases[-1:]:
        amps = case["obs"]["amplitudes"]
        k = next(iter(amps), None)
        chk.sample({"case": case["label"], "couplings": case["couplings"], "flags": case["flags"],
                    "n_amplitude_symbols": len(amps), "first_symbol": str(k),
                    "first_symbol_terms": [str(t)[:200] for t in list(amps.get(k, {}))[:2]]})
    return cases


# --------------------------------------------------------------------------- oracle


def _lineshape_symbol_name(parent_name, m_parent, m1, m2, phi, theta, ell):
    return f"X[{parent_name};{m_parent};{m1};{m2};{phi};{theta};{ell}]"


def _assign_marker_lineshapes(builder, reaction):
    """Every resonance gets an opaque 'lineshape' symbol that records the particle and the complete
    variable set it was built with (an arbitrary interpretation of the lineshape)."""
    import sympy as sp

    def marker(particle, vs):
        return sp.Symbol(_lineshape_symbol_name(
            particle.name, vs.incoming_state_mass.name, vs.outgoing_state_mass1.name, vs.outgoing_state_mass2.name,
            vs.helicity_phi.name, vs.helicity_theta.name, vs.angular_momentum)), {}

    names = {t.states[e].particle.name for t in reaction.transitions for e in t.topology.intermediate_edge_ids}
    for n in sorted(names):
        builder.dynamics.assign(n, marker)


_D_FUNCTIONS: dict = {}


def _sympy_wigner_D(j, m, mp):
    """SymPy's own D^j_{m mp}(alpha, beta, gamma), unfolded once per (j, m, mp) and compiled."""
    import sympy as sp
    from sympy.physics.quantum.spin import WignerD

    key = (j, m, mp)
    if key not in _D_FUNCTIONS:
        a, b, c = sp.symbols("alpha beta gamma", real=True)
        _D_FUNCTIONS[key] = sp.lambdify((a, b, c), WignerD(j, m, mp, a, b, c).doit(), "numpy")
    return _D_FUNCTIONS[key]


def evaluate_tree(expr, rules, angles):
    """Value of a real expression tree at one point: every WignerD / CG atom is replaced by the value SymPy itself
    gives it (D unfolded per (j, m, m'), CG by doit()), parameters and lineshape symbols by `rules`, then the remaining
    arithmetic (products, sums, |.|^2) is SymPy's. Returns complex, or raises ValueError naming what is left over."""
    import sympy as sp
    from sympy.physics.quantum.cg import CG
    from sympy.physics.quantum.spin import WignerD

    rep = dict(rules)
    for a in expr.atoms(WignerD):
        j, m, mp, *euler = a.args
        vals = []
        for x in euler:
            unknown = [s_.name for s_ in x.free_symbols if s_.name not in angles]
            if unknown:
                raise ValueError(f"angle symbols without a value: {unknown}")
            vals.append(float(x.xreplace({s_: angles[s_.name] for s_ in x.free_symbols})))
        v = complex(_sympy_wigner_D(j, m, mp)(*vals))
        rep[a] = sp.Float(v.real) + sp.I * sp.Float(v.imag)
    for a in expr.atoms(CG):
        rep[a] = sp.Float(float(a.doit()))
    out = expr.xreplace(rep)
    if out.free_symbols:
        raise ValueError(f"free symbols left: {sorted(s_.name for s_ in out.free_symbols)[:6]}")
    return complex(out)


def numeric_compare(reaction, couplings, flags, rng, n_points, lineshapes=False, fast=False):
    """real expression (lambdified; `fast`: evaluated atom by atom) vs the helicity formula;
    returns (failure dict | None, evaluations)."""
    import numpy as np
    import sympy as sp

    if lineshapes:
        builder = L.make_builder(reaction, flags, use_helicity_couplings=couplings)
        _assign_marker_lineshapes(builder, reaction)
        obs = {"model": builder.formulate(), "builder": builder}
    else:
        obs = M.observe(reaction, couplings, flags)
    model, builder = obs["model"], obs["builder"]
    naming = builder.naming
    xvals: dict[str, complex] = {}
    values = {p.name: complex(rng.uniform(-1, 1), rng.uniform(-1, 1)) for p in model.parameter_defaults
              if p.name.startswith(("C_{", "H_{"))}
    for i_v, k_v in enumerate(sorted(values)):  # complex, purely real and purely imaginary values
        if i_v % 4 == 1:
            values[k_v] = complex(values[k_v].real, 0.0)
        elif i_v % 4 == 2:
            values[k_v] = complex(0.0, values[k_v].imag)

    mapping = naming.parity_partner_coefficient_mapping

    def coefficient_of(g):
        """coefficient x parity sign of a chain, WITHOUT the builder's prefactor function: the chain borrows the coefficient
        of its parity partner at exactly the nodes whose own suffix is mapped to another one; the amplitudes of partner
        chains differ by the product of eta over exactly those nodes (C03's statement)."""
        sign = 1
        v = 1.0 + 0j
        for n in g.topology.nodes:
            raw = naming.generate_two_body_decay_suffix(g, n)
            if mapping.get(raw, raw) != raw:
                eta = g.interactions[n].parity_prefactor
                if eta is not None:
                    sign *= int(eta)
            if couplings:
                v *= values["H_{" + raw + "}"]
        if not couplings:
            v = values["C_{" + naming.generate_sequential_amplitude_suffix(g) + "}"]
        return v * sign

    def lineshape_of(topo, states, interactions, n, pin, c1, c2):
        """independent prediction of which lineshape symbol a node carries, with which variables."""
        if topo.edges[pin].originating_node_id is None:
            return 1.0
        ell = interactions[n].l_magnitude
        spin = states[pin].particle.spin
        if ell is None and float(spin) == int(spin):
            ell = int(spin)
        suf = O.angle_suffix(topo, c1)
        name = _lineshape_symbol_name(
            states[pin].particle.name, "m_" + "".join(map(str, O.attached(topo, pin))),
            "m_" + "".join(map(str, O.attached(topo, c1))), "m_" + "".join(map(str, O.attached(topo, c2))),
            "phi" + suf, "theta" + suf, ell)
        if name not in xvals:
            xvals[name] = complex(rng.uniform(0.5, 1.5), rng.uniform(-1, 1))
        return xvals[name]

    if fast:
        return _numeric_compare_fast(reaction, model, values, xvals, coefficient_of, lineshape_of if lineshapes else None,
                                     rng, n_points)
    expr = model.expression.xreplace({p: values[p.name] for p in model.parameter_defaults if p.name in values})
    if lineshapes:
        # fix the interpretation of every lineshape symbol the real model contains
        xs = [s_ for s_ in expr.free_symbols if s_.name.startswith("X[")]
        for s_ in xs:
            if s_.name not in xvals:
                xvals[s_.name] = complex(rng.uniform(0.5, 1.5), rng.uniform(-1, 1))
        expr = expr.xreplace({s_: xvals[s_.name] for s_ in xs})
    expr = expr.doit()
    syms = sorted(expr.free_symbols, key=lambda s: s.name)
    names = set(O.all_angle_names(reaction)) | {s.name for s in syms}
    odd = [s.name for s in syms if not s.name.startswith(("phi", "theta"))]
    if odd:
        return {"what": "unexpected free symbols in the model expression", "symbols": odd}, 0
    f = sp.lambdify(syms, expr, "numpy")
    worst = None
    for i_pt in range(n_points + 2):
        ang = {n: (rng.uniform(0.1, math.pi - 0.1) if n.startswith("theta") else rng.uniform(-math.pi, math.pi))
               for n in sorted(names)}
        if i_pt >= n_points:  # boundaries of the angular domain: every theta on 0 / pi (mixed in the last point)
            for j, n in enumerate(sorted(names)):
                if n.startswith("theta"):
                    ang[n] = [0.0, math.pi][(i_pt + (j if i_pt > n_points else 0)) % 2]
        real = float(np.real(complex(f(*[ang[s.name] for s in syms]))))
        spec, n_terms, n_conf = O.spec_intensity(reaction, coefficient_of, ang, lineshape_of if lineshapes else None)
        scale = max(abs(spec), abs(real), 1e-300)
        # the intensity can vanish exactly on the boundary: absolute floor relative to the size of the terms (O(1) each)
        if abs(real - spec) > 1e-9 * scale + 1e-11 * max(1, n_terms) and (worst is None or abs(real - spec) / scale > worst["relative_difference"]):
            worst = {"angles": ang, "model_expression": real, "helicity_formula": spec,
                     "relative_difference": abs(real - spec) / scale, "terms": n_terms, "outer_configurations": n_conf,
                     "parameters": {k: [v.real, v.imag] for k, v in list(values.items())[:6]}}
    # components: the I_ components add up to the intensity
    comp_sum_fail = None
    try:
        total = sum(v for k, v in model.components.items() if k.startswith("I_{"))
        total = total.xreplace({p: values[p.name] for p in model.parameter_defaults if p.name in values})
        total = total.xreplace({s_: xvals[s_.name] for s_ in total.free_symbols if s_.name in xvals}).doit()
        fs = sorted(total.free_symbols, key=lambda s: s.name)
        g = sp.lambdify(fs, total, "numpy")
        ang = {n: (rng.uniform(0.1, math.pi - 0.1) if n.startswith("theta") else rng.uniform(-math.pi, math.pi))
               for n in sorted(names | {s.name for s in fs})}
        a = float(np.real(complex(g(*[ang[s.name] for s in fs]))))
        b = float(np.real(complex(f(*[ang[s.name] for s in syms]))))
        if abs(a - b) > 1e-9 * max(abs(a), abs(b), 1e-300):
            comp_sum_fail = {"sum_of_I_components": a, "intensity": b, "angles": ang}
    except Exception as e:  # noqa: BLE001
        comp_sum_fail = {"error": "".join(traceback.format_exception_only(type(e), e))[-300:]}
    if worst is not None:
        return {"what": "model expression differs from the helicity formula", **worst}, n_points
    if comp_sum_fail is not None:
        return {"what": "the I_ components do not add up to the intensity", **comp_sum_fail}, n_points
    return None, n_points


def _numeric_compare_fast(reaction, model, values, xvals, coefficient_of, lineshape_of, rng, n_points):
    """`numeric_compare` without lambdify: the unfolded `model.expression` (and the sum of the I_ components) evaluated
    at every point by `evaluate_tree`."""
    import sympy as sp

    expr = model.expression
    rules = {p: sp.sympify(values[p.name]) for p in model.parameter_defaults if p.name in values}
    for s_ in sorted(expr.free_symbols, key=lambda x: x.name):
        if s_.name.startswith("X["):
            if s_.name not in xvals:
                xvals[s_.name] = complex(rng.uniform(0.5, 1.5), rng.uniform(-1, 1))
            rules[s_] = sp.sympify(xvals[s_.name])
    odd = [s_.name for s_ in expr.free_symbols if s_ not in rules and not s_.name.startswith(("phi", "theta"))]
    if odd:
        return {"what": "unexpected free symbols in the model expression", "symbols": sorted(odd)[:8]}, 0
    names = set(O.all_angle_names(reaction)) | {s_.name for s_ in expr.free_symbols if s_ not in rules}
    total = sum(v for k, v in model.components.items() if k.startswith("I_{"))
    names |= {s_.name for s_ in total.free_symbols if s_.name.startswith(("phi", "theta"))}
    worst = comp_sum_fail = None
    for i_pt in range(n_points + 2):
        ang = {n: (rng.uniform(0.1, math.pi - 0.1) if n.startswith("theta") else rng.uniform(-math.pi, math.pi))
               for n in sorted(names)}
        if i_pt >= n_points:
            for j, n in enumerate(sorted(names)):
                if n.startswith("theta"):
                    ang[n] = [0.0, math.pi][(i_pt + (j if i_pt > n_points else 0)) % 2]
        try:
            real = evaluate_tree(expr, rules, ang).real
        except ValueError as e:
            return {"what": "model expression does not evaluate to a number", "detail": str(e), "angles": ang}, i_pt
        spec, n_terms, n_conf = O.spec_intensity(reaction, coefficient_of, ang, lineshape_of)
        scale = max(abs(spec), abs(real), 1e-300)
        if abs(real - spec) > 1e-9 * scale + 1e-11 * max(1, n_terms) and (worst is None or abs(real - spec) / scale > worst["relative_difference"]):
            worst = {"angles": ang, "model_expression": real, "helicity_formula": spec,
                     "relative_difference": abs(real - spec) / scale, "terms": n_terms, "outer_configurations": n_conf,
                     "parameters": {k: [v.real, v.imag] for k, v in list(values.items())[:6]}}
        if i_pt == 0:
            try:
                a = evaluate_tree(total, {k: v for k, v in rules.items()}, ang).real
                if abs(a - real) > 1e-9 * max(abs(a), abs(real), 1e-300):
                    comp_sum_fail = {"sum_of_I_components": a, "intensity": real, "angles": ang}
            except Exception as e:  # noqa: BLE001
                comp_sum_fail = {"error": "".join(traceback.format_exception_only(type(e), e))[-300:]}
    if worst is not None:
        return {"what": "model expression differs from the helicity formula", **worst}, n_points
    if comp_sum_fail is not None:
        return {"what": "the I_ components do not add up to the intensity", **comp_sum_fail}, n_points
    return None, n_points


def oracle(chk: common.Check, corpus, cases, rng, thorough: bool, broken: bool):
    found = []
    todo = []
    names = list(corpus) if thorough else [n for n in QUICK_ORACLE if n in corpus]
    for n in names:
        r = corpus[n]
        if len(r.transitions) > 80 or is_multi_name(n):
            continue
        can = r.formalism.startswith("canonical")
        if thorough or n in QUICK_PLAIN:
            todo.append((n, r, False, default_flags(can)))
        if thorough or n.startswith("jpsi_sigma1750"):
            todo.append((n, r, True, default_flags(can)))
        if thorough or n in QUICK_LINESHAPES:
            todo.append((n + "+lineshapes", r, False, default_flags(can)))
    # round 5: the multi-topology class, evaluated atom by atom (see `is_multi_name`)
    multi = QUICK_MULTI_ORACLE
    if thorough:
        multi = [(n, ls) for n in corpus if is_multi_name(n) for ls in (False, True)]
    for n, ls in multi:
        if n in corpus and len(corpus[n].transitions) <= 80:
            can = corpus[n].formalism.startswith("canonical")
            todo.append((n + ("+lineshapes" if ls else ""), corpus[n], False, default_flags(can)))
            if thorough and ls:
                todo.append((n, corpus[n], True, default_flags(can)))
    mc = [c for c in cases if c["kind"] == "multi-topology"]
    mc.sort(key=lambda c: 0 if c.get("shared", {}).get("equal_decay_keys_with_different_boost_chains") else 1)
    for c in mc[: (8 if thorough else 2) * (2 if broken else 1)]:
        todo.append((c["label"] + "+lineshapes", c["reaction"], c["couplings"], c["flags"]))
    synth = [c for c in cases if c["kind"].startswith("synthetic") and len(c["reaction"].transitions) <= 24]
    # cases where the theorem's hypothesis fails are the interesting ones: always look at some; then canonical cases with an
    # explicit L = 0 under an integer-spin resonance (the lineshape's angular momentum must not fall back to the spin)
    hyp = [c for c in synth if c.get("wf") is False]
    rest = [c for c in synth if c.get("wf") is not False]
    rest.sort(key=lambda c: 0 if has_explicit_l0(c["reaction"]) else 1)
    k = (12 if thorough else 3) * (3 if broken else 1)
    for c in hyp[: (6 if thorough else 2)] + rest[:k]:
        todo.append((c["label"] + "+lineshapes", c["reaction"], c["couplings"], c["flags"]))
    n_done = 0
    not_closed = []
    for label, r, couplings, flags in todo:
        with_ls = label.endswith("+lineshapes")
        if not X.exchange_closed(r):
            # a transition list that is not closed under the exchange of identical final-state particles (qrules never
            # produces one; random subsets of chains can be): some identical-particle graph has outer projections outside the
            # pools of the outer PoolSum, "the sum over the outer projections" is ambiguous. Observation, not a verdict.
            not_closed.append(label)
            continue
        try:
            fail, n = numeric_compare(r, couplings, flags, rng, 3 if not thorough else 6, lineshapes=with_ls,
                                      fast=is_multi_name(label))
        except Exception as e:  # noqa: BLE001
            fail, n = {"what": "the real code raised while the property was evaluated",
                       "error": "".join(traceback.format_exception(type(e), e, e.__traceback__))[-1200:]}, 0
        n_done += 1
        chk.count(("oracle", label, couplings, flags), max(n, 1))
        if fail is not None:
            fail.update({"case": label, "couplings": couplings, "flags": flags, "formalism": r.formalism,
                         "identical_particles_with_unequal_helicities": has_unequal_identical(r)})
            desc = next((c.get("desc") for c in cases if c["label"] == label.replace("+lineshapes", "")), None)
            if desc:
                fail["description"] = desc
            found.append(fail)
    chk.info("oracle_reactions", n_done)
    chk.info("observations", {"reactions_not_closed_under_exchange_of_identical_particles_(kept_out_of_the_numeric_verdict)":
                              not_closed})
    return found


# --------------------------------------------------------------------------- the property object


class C02Property:
    prop_id = PROP_ID

    def run(self, tier: str, seed: int) -> int:
        chk = common.Check(PROP_ID, tier, seed)
        common.use_repo_source()
        chk.info("source_blobs", common.source_blob_hashes(SOURCES))
        thorough = tier == "thorough"

        res = common.prove(PROP_ID, PROP_MODULES)
        chk.record_proof(res, "cd lean && lake build " + " ".join(PROP_MODULES) + f" && lake env lean Ampverif/Audit/{PROP_ID}.lean")
        if res["failed"]:
            chk.note("proof obligations not discharged: " + "; ".join(f"{k}: {v[:160]}" for k, v in list(res["failed"].items())[:5]))

        cases, corpus = [], {}
        try:
            corpus = load_corpus(thorough)
            from tools.props import C03 as c03

            c03_corpus = {k: v for k, v in corpus.items() if k in c03.PROBES}
            if any(k not in c03_corpus for k in c03.PROBES):  # probes C03 keeps outside the shared corpus directories
                import qrules

                for k in c03.PROBES:
                    hits = sorted((common.ROOT / "corpus" / "C03").rglob(k))
                    if k not in c03_corpus and hits:
                        c03_corpus[k] = qrules.io.load(hits[0])
                if any(k not in c03_corpus for k in c03.PROBES):
                    c03_all = c03.load_corpus(False)
                    c03_corpus.update({k: c03_all[k] for k in c03.PROBES if k in c03_all})
            vname, variant = c03.infer_variant(chk, c03_corpus)
            if vname != "sound":
                chk.broken_correspondence(
                    "variant", f"the builder implements the unsound parity-prefactor rule '{vname}': the impl skeleton is run "
                    "under it, but the intensity then differs from the helicity formula wherever partner chains interfere")
            missing = [n for n in UNLIKE_ETA if n not in corpus]
            if missing:
                chk.broken_correspondence("corpus", f"reactions with unlike eta missing from the corpus: {missing}")
            own = infer_own(chk, corpus)
            if not own:
                chk.broken_correspondence(
                    "variant", "the builder registers all graphs of a (spin group, topology) cell under the first "
                    "transition's amplitude symbol (C02_intensity needs own-projection registration; witness "
                    "C02_witness_unequal_identical)")
            cases = correspondence(chk, corpus, variant, own, common.rng_for(PROP_ID, seed, "synthetic"),
                                   n_synth=60 if thorough else 14, thorough=thorough, n_multi=16 if thorough else 4)
        except common.LeanRunError as e:
            chk.broken_correspondence("driver", f"Lean driver failed: {e}"[:800])
        except common.InfraError:
            raise
        except Exception as e:  # noqa: BLE001
            chk.broken_correspondence("real-code", "".join(traceback.format_exception(type(e), e, e.__traceback__))[-1200:])

        own_inferred = bool(chk.coverage.get("inferred_amplitude_registration", "own").startswith("own"))
        # HARDENING rule 6: nothing may depend on the hash seed (fresh processes)
        try:
            files = [M.CORPUS[1] / "jpsi_sigma1750.hel.json", M.CORPUS[0] / "jpsi_gamma_pi0_pi0_omega_f0.hel.json",
                     M.CORPUS[0] / "psi2s_gamma_gamma_jpsi.hel.json"]
            runs = L.hashseed_runs(files, [1, 2, 3] if not thorough else [1, 2, 3, 4, 5, 6])
            for b in L.compare_hashseed_runs(chk, runs, ["amplitude_order", "amplitude_terms", "component_order", "intensity",
                                                         "pools", "combinatorics", "parameter_order"], "C02")[:3]:
                chk.broken_correspondence("hash-seed", b)
        except common.InfraError:
            raise
        except Exception as e:  # noqa: BLE001
            chk.broken_correspondence("hash-seed", "".join(traceback.format_exception_only(type(e), e))[-400:])

        found = []
        try:
            found = oracle(chk, corpus, cases, common.rng_for(PROP_ID, seed, "oracle"), thorough, bool(chk.broken))
        except Exception as e:  # noqa: BLE001
            found = [{"what": "the real code raised while the property was evaluated",
                      "error": "".join(traceback.format_exception(type(e), e, e.__traceback__))[-1500:]}]
        seen = set()
        for f in found:
            if (not own_inferred and f.get("identical_particles_with_unequal_helicities")
                    and f["what"].startswith("model expression differs")):
                sig = {"class": KNOWN_CLASS}
            else:
                sig = {"what": f["what"]}
            key = str(sig)
            if key in seen:
                continue
            seen.add(key)
            chk.failing_input(sig, {"input": f, "broken": chk.broken})
        if chk.broken and not found:
            for b in chk.broken:
                chk.unexplained(b.get("theorem") or b.get("what"), b)

        chk.coverage["rule"] = (
            "evaluations = correspondence cases (reaction x formalism x coefficient/coupling mode x naming flags; every "
            "amplitude definition, component and the PoolSum structure parsed from the real sympy objects vs the Lean impl "
            "skeleton; qrules combinatorics vs the model's symmetrisation) + numeric points of the independent helicity-formula "
            "oracle. distinct_nontrivial counts distinct cases whose amplitudes contain at least 2 terms, and distinct "
            "(reaction, mode, flags) triples evaluated by the oracle; cases_with_an_equal_two_body_decay_below_different_ancestors "
            "counts the correspondence cases of the round-5 class (equal edge ids, particles, helicities, interaction; different "
            "boost chain)")
        chk.coverage["trusted_base"] = [
            "Lean 4.33 kernel + Mathlib v4.33 (axioms: see axioms_reported)",
            "skeleton extraction tools/corr/C02_lib.py (closed set of factor types; anything else is reported as 'other')",
            "Lean interpreter running Drivers/C02.lean",
            "SymPy: Add/Mul flattening, WignerD/CG classes and their doit() (interpretation of D and CG), lambdify + numpy, "
            "numeric xreplace/Abs on the unfolded expression tree (multi-topology cases)",
            "qrules: transitions, identical-particle combinatorics (compared with the model's symmetrisation, not trusted)",
        ]
        chk.assumptions += [
            "numeric oracle: reactions closed under the exchange of identical final-state particles (every identical-particle graph "
            "has outer projections inside the per-state pools of the transitions; true for every qrules reaction); others are listed "
            "under observations",
            "C02_intensity assumes the decidable condition wellFormed (isobar graphs, amplitude bases name topologies injectively, "
            "graphs of different spin groups have different outer projections), evaluated by the Lean model on every case; for "
            "the builder up to 043d8fb it additionally needs wellGrouped (false for identical final-state particles with unequal "
            "helicities: witness theorem)",
            "lineshapes: library builders (relativistic BW with/without form factor, form factor only) and an opaque marker are "
            "assigned by particle name; the inside of the lineshape expressions is C09-C12's business",
            "aligned intensities: C05's wiring theorem + C02 for the unaligned amplitudes",
        ]
        return chk.finish()


PROP = C02Property()

MANIFEST = {
    "technique": "Lean 4 proof about an executable line-by-line model of the amplitude builder (T2: skeleton extraction from the "
                 "real sympy objects) + independent numeric helicity-formula oracle",
    "design_ref": "DESIGN.md §3 C02",
    "text": (
        "Proof. For every reaction (any number of transitions, nodes, spins; both formalisms; coefficient or coupling mode; all "
        "naming flags) satisfying the decidable condition wellFormed (evaluated on every case), and for EVERY interpretation of D, CG, "
        "parameters and |.|^2 in any commutative ring: C02_intensity (denotation of the impl skeleton = denotation of the "
        "helicity-formula spec skeleton: incoherent over per-state outer projections, coherent over all symmetrised graphs with "
        "those projections), C02_term (each graph's impl term = spec term: D^J_{m,l1-l2}(phi,theta of the first child), the two "
        "CG factors), C02_components (the I_ component of a spin group denotes the partial sum of its outer configuration; "
        "A_ components are single graph terms), C02_symmetrised + C02_cell_total (the graphs of a transition are exactly its "
        "relabelings by permutations of identical final-state particles, one per attachment; the writes of a cell add up to all "
        "of them, nothing dropped or doubled). C02_node_angles: for every graph and node the D-function and the lineshape "
        "variable set carry the helicity angles of the boost chain of the node's first child IN THAT GRAPH and the masses of "
        "that graph's edges; C02_witness_shared_subdecay (kernel-checked, J/psi -> f0 omega | pi- b1+[pi+ omega], omega = edge 5 -> "
        "(2,3) in both): equal TwoBodyDecays (ids, particles, helicities, interaction) have DIFFERENT factors (phi_2^23 vs "
        "phi_2^23,023), the library's skeleton agrees with the formula there, a builder memoising node factors by TwoBodyDecay "
        "does not (either order); C02_memo_harmless: such memoisation reproduces the library's terms on every list of graphs "
        "on which the key determines the factor (decidable; all three-body reactions without identical particles). "
        "Kernel-checked witness C02_witness_unequal_identical: with the builder up to "
        "043d8fb two identical final-state particles with unequal helicities were summed coherently (impl != spec; replayed on "
        "psi(2S) -> gamma gamma J/psi; repaired as f1f7ff8, the variant is inferred by a probe on every run). "
        "Lineshapes are part of the skeleton: every node term carries (builder id, particle, m_parent, m_child1, m_child2, L, "
        "phi, theta) as the builder receives them (`__formulate_dynamics`, `_generate_kinematic_variable_set`, DynamicsSelector "
        "keys incl. the identical-particle chains: C02_selector_covers), interpreted by an arbitrary function; the real "
        "lineshape sub-trees are compared node by node by calling the library's own builders on the model's variable sets. "
        "Aligned intensities (AxisAngleAlignment, DalitzPlotDecomposition) are NOT modelled here: they are covered by C05's "
        "wiring theorem for the top-level structure together with C02 for the unaligned amplitudes it refers to. "
        "Special functions are uninterpreted (no Wigner-D/CG theory needed); numeric agreement of the real lambdified "
        "expression with an independent numpy evaluation of the formula is checked on every run (oracle), not proved. "
        "Input classes of the quick tier include >= 4 final states on 2-4 topologies (and identical-particle graphs of one "
        "topology) that share a two-body sub-decay below different ancestors, depth <= 3, 4 and 5 final states, qrules-like / "
        "global / per-topology edge ids: real J/psi -> pi+ pi- pi0 gamma (omega, f0(980), b1(1235)+), 5 deterministic shapes, "
        "a seeded stream; the run reports how many cases contain the class and flags a stream without it. On these the oracle "
        "evaluates the unfolded real expression tree atom by atom (SymPy's own value of every WignerD/CG atom, then SymPy "
        "arithmetic) instead of lambdifying it."
    ),
    "level_note": (
        "Trusted: Lean kernel + Mathlib; the skeleton extraction (parses Add/Mul/WignerD/CG/Symbol/Number, everything else "
        "is flagged); SymPy's flattening and evaluation of WignerD/CG; qrules objects. Modelled line by line: grouping by spin "
        "projection and topology, amplitude symbols, last-writer-wins dict, child ordering, angle symbol names, D/CG "
        "arguments, coefficient/coupling names, prefactor (C03 model), lineshape attachment and variable sets, components, "
        "PoolSum pools. Not modelled: the inside of the lineshape expressions (C09-C12), spin alignment other than NoAlignment "
        "(C05's wiring theorem + C02 for the unaligned amplitudes), kinematic variables (C07)."
    ),
}
