"""C15 — pickle round trip of a model is the identity.

Theorems (`Ampverif.Props.C15`): deserialise (serialise t) = t for every well-formed term and model
record over every well-formed class table, shallow `__getnewargs__`; witness for the recursive
variant. Tie: the class table regenerated from the package (shared with C14), real `pickle`
round trips of an instance of every table class and of formulated HelicityModels (dynamics with
non-SymPy attributes, DalitzPlotDecomposition alignment) compared with the model's round trip;
thorough tier loads in a fresh interpreter and compares srepr per attribute and a numeric value.
"""

from __future__ import annotations

import json
import pickle  # noqa: S403
import traceback

from tools.lib import common

PROP_MODULES = ["Ampverif.Props.C15"]
N_INST = {"quick": 2, "thorough": 20}
RULE = ("distinct pickled objects that hold a nested @unevaluated argument or a non-default non-SymPy attribute "
        "(class instances), plus distinct model expressions containing an @unevaluated instance, plus distinct objects of the "
        "array/sum helper classes (one per constructor-argument-kind combination that the constructor accepts)")


def witness_pickle():
    """The replayable input of `C15.witness_recursive_getnewargs` on the real code."""
    import sympy as sp

    from ampform.kinematics.lorentz import ArraySize, BoostZMatrix, EuclideanNorm, FourMomentumSymbol, ThreeMomentum

    p = FourMomentumSymbol("p", shape=[])
    b = sp.Symbol("b")
    out = []
    for e, py in ((EuclideanNorm(ThreeMomentum(p)), "EuclideanNorm(ThreeMomentum(p))"),
                  (BoostZMatrix(b, ArraySize(p)), "BoostZMatrix(b, ArraySize(p))")):
        try:
            got = pickle.loads(pickle.dumps(e))  # noqa: S301
        except Exception as exc:  # noqa: BLE001
            got = f"{type(exc).__name__}: {exc}"
        if got != e:
            out.append({"class": "pickle round trip does not reproduce an expression", "expr": sp.srepr(e),
                        "loaded": sp.srepr(got) if isinstance(got, sp.Basic) else str(got), "python": f"pickle.loads(pickle.dumps({py}))"})
    return out


class C15Property:
    prop_id = "C15"

    def regenerate(self):
        from tools.corr import C14 as c14
        from tools.corr import C15arrays as arr

        common.use_repo_source()
        entries, _, _ = c14.regenerate()
        arr.regenerate_hooks([e.cls for e in entries])

    def run(self, tier: str, seed: int) -> int:  # noqa: C901, PLR0912, PLR0915
        import sympy as sp

        from tools.corr import C14 as c14
        from tools.corr import C15 as corr
        from tools.corr import C18m1 as m1
        from tools.props.C18 import infer_variant

        chk = common.Check("C15", tier, seed)
        common.use_repo_source()
        corr.quiet()
        chk.coverage["rule"] = RULE
        sources = ["src/ampform/sympy/_decorator.py", "src/ampform/helicity/__init__.py", "src/ampform/kinematics/lorentz.py",
                   "src/ampform/sympy/__init__.py", "src/ampform/sympy/deprecated.py"]
        chk.info("source_blobs", common.source_blob_hashes(sources))
        chk.coverage["trusted_base"] = [
            "Lean 4.33 kernel, Mathlib",
            "tools/corr/C14.py class-table extractor, tools/corr/C18m1.py converter",
            "pickle's byte format, SymPy's __reduce_ex__/__getnewargs__ protocol, attrs' pickling of HelicityModel, qrules objects: executed, not modelled",
        ]
        chk.assumptions += ["every node of a pickled term is an instance of a class of the regenerated table with the right arity (checked by the model's wfTerm on every case)"]
        failing: list[dict] = []
        entries = helpers = ctx = None
        try:
            entries, helpers, ctx = c14.regenerate()
            chk.info("class_table", {"decorated_classes": len(entries), "helper_classes": len(helpers)})
        except Exception as e:  # noqa: BLE001
            chk.broken_correspondence("class table", "".join(traceback.format_exception_only(type(e), e))[-800:])
        # pickling hooks of every class of the package -> Gen/C15Hooks.lean (theorem hooks_as_modelled)
        try:
            from tools.corr import C15arrays as arr

            hooks = arr.regenerate_hooks([e.cls for e in entries] if entries else ())
            chk.info("pickling_hooks", {"classes_inspected": hooks["classes"], "decorator_getnewargs": len(hooks["decorator"]),
                                        "attrs_getstate_setstate": hooks["attrs"], "other": [list(h) for h in hooks["other"]]})
        except Exception as e:  # noqa: BLE001
            chk.broken_correspondence("pickling hooks", "".join(traceback.format_exception_only(type(e), e))[-800:])
        res = common.prove("C15", PROP_MODULES)
        chk.record_proof(res, "cd lean && lake build " + " ".join(PROP_MODULES) + " && lake env lean Ampverif/Audit/C15.lean")
        if res["failed"]:
            chk.note("proof obligations not discharged: " + "; ".join(f"{k}: {v[:160]}" for k, v in list(res["failed"].items())[:5]))
        try:
            variant = infer_variant()
        except Exception as e:  # noqa: BLE001
            variant = {"getArgsRecursive": 0, "poolSumProtectsBound": 1}
            chk.broken_correspondence("variant probes", f"{type(e).__name__}: {e}")
        chk.info("inferred_variant", variant)
        if variant["getArgsRecursive"]:
            chk.broken_correspondence("variant", "__getnewargs__ is recursive (dataclasses.astuple): the theorem assumes the shallow "
                                      "variant; Lean witness C15.witness_recursive_getnewargs")
        failing += witness_pickle()
        if entries is None:
            return self.verdict(chk, failing)
        rng = common.rng_for("C15", seed, "instances")
        pools = c14.Pools(entries, picklable_only=True)
        # ---------------- class instances
        objs = []
        for entry in entries:
            for _ in range(N_INST[tier]):
                objs.append((entry.key, pools.instance_of(entry, rng, 2)))
            # every admissible value of every non-SymPy attribute at least once (classes, None, strings, module-level function)
            for i, dom in enumerate(entry.attr_domain):
                for v in dom:
                    if c14.is_picklable_attr(v):
                        attrs = [d[0] for d in entry.attr_domain]
                        attrs[i] = v
                        objs.append((entry.key, entry.build(*[pools.arg_for(f.name, rng, 1) for f in entry.sympy_fields], attrs=tuple(attrs))))
            # every combination of given / defaulted non-SymPy attributes, the defaulted ones OMITTED from the call
            import itertools

            names = [f.name for f in entry.fields]
            for mask in itertools.product((False, True), repeat=len(entry.attr_fields)):
                if not any(mask) and not entry.attr_fields:
                    continue
                kwargs = {f.name: pools.arg_for(f.name, rng, 1) for f in entry.sympy_fields}
                ok = True
                for given, f, dom in zip(mask, entry.attr_fields, entry.attr_domain):
                    alts = [v for v in dom[1:] if c14.is_picklable_attr(v)]
                    if given and alts:
                        kwargs[f.name] = rng.choice(alts)
                    elif f.default is __import__("dataclasses").MISSING:
                        ok = False
                if ok and set(kwargs) <= set(names):
                    try:
                        objs.append((entry.key, entry.cls(**kwargs)))
                    except Exception as e:  # noqa: BLE001
                        failing.append({"class": "constructor with omitted default attributes raises", "cls": entry.key, "error": f"{type(e).__name__}: {e}"})
        for name, o in pools.helper_instances(rng).items():
            objs.append(("helper:" + name, o))
        stats = {"class_instances": len(objs), "with_nested_unevaluated_argument": 0, "with_non_default_attribute": 0,
                 "models": [], "model_expressions": 0, "fresh_process_objects": 0}
        loaded = []
        for key, o in objs:
            nested = any(m1.is_unevaluated_class(type(a)) for a in o.args)
            nondefault = False
            if m1.is_unevaluated_class(type(o)):
                import dataclasses

                nondefault = any(not f.metadata.get("sympify") and getattr(o, f.name) is not f.default and getattr(o, f.name) != f.default
                                 for f in dataclasses.fields(type(o)))
            stats["with_nested_unevaluated_argument"] += int(nested)
            stats["with_non_default_attribute"] += int(nondefault)
            chk.count(("instance", key, str(o)) if (nested or nondefault) else None)
            try:
                back = pickle.loads(pickle.dumps(o))  # noqa: S301
            except Exception as e:  # noqa: BLE001
                back = e
            loaded.append(back)
            if isinstance(back, Exception):
                failing.append({"class": "pickle round trip raises", "cls": key, "expr": sp.srepr(o)[:1500], "error": f"{type(back).__name__}: {back}"})
            elif back != o or sp.srepr(back) != sp.srepr(o) or type(back) is not type(o) or hash(back) != hash(o):
                failing.append({"class": "pickle round trip does not reproduce an expression", "cls": key, "expr": sp.srepr(o)[:1500],
                                "loaded": sp.srepr(back)[:1500]})
            else:
                # other routes through the same protocol: every pickle protocol, copy.copy, copy.deepcopy
                for how, fn in corr.other_round_trips():
                    try:
                        alt = fn(o)
                    except Exception as e:  # noqa: BLE001
                        alt = e
                    if isinstance(alt, Exception) or alt != o or type(alt) is not type(o) or sp.srepr(alt) != sp.srepr(o) or corr.attribute_differences(o, alt):
                        failing.append({"class": "round trip does not reproduce an expression", "how": how, "cls": key, "expr": sp.srepr(o)[:1200],
                                        "result": str(alt)[:300], "attributes": corr.attribute_differences(o, alt)[:3] if not isinstance(alt, Exception) else None})
                        break
                stats["other_round_trips"] = stats.get("other_round_trips", 0) + len(corr.other_round_trips())
                # == goes through _hashable_content: look at the attribute VALUES and at what the loaded object unfolds to
                ad = corr.attribute_differences(o, back)
                if ad:
                    failing.append({"class": "loaded expression has different non-SymPy attribute values", "cls": key,
                                    "expr": sp.srepr(o)[:1200], "attributes": ad[:4],
                                    "python": "loaded = pickle.loads(pickle.dumps(expr)); compare getattr(loaded, field) with getattr(expr, field)"})
                elif not corr.digests_agree(corr.unfold_digest(o), corr.unfold_digest(back)):
                    failing.append({"class": "loaded expression unfolds differently", "cls": key, "expr": sp.srepr(o)[:1200],
                                    "evaluate_original": corr.unfold_digest(o)[:3], "evaluate_loaded": corr.unfold_digest(back)[:3]})
        # T2: the model's round trip on the same instances
        try:
            rts = corr.lean_roundtrips([o for _, o in objs], ctx)
            n_bad = 0
            for (key, o), back, (_, wf, rt) in zip(objs, loaded, rts):
                if wf != "true":
                    chk.broken_correspondence("pickle vs model", {"cls": key, "expr": str(o)[:300], "why": f"wfTerm = {wf}"})
                    n_bad += 1
                    continue
                model_back = m1.read_reply(rt) if not rt.startswith("err") else None
                real_ok = not isinstance(back, Exception) and back == o
                model_ok = model_back is not None and m1.same(o, model_back, ctx)
                if real_ok != model_ok or (not isinstance(back, Exception) and model_back is not None and not m1.same(back, model_back, ctx)):
                    n_bad += 1
                    if n_bad <= 6:
                        chk.broken_correspondence("pickle vs model", {"cls": key, "expr": str(o)[:300], "real_loaded": str(back)[:300],
                                                                      "model_loaded": rt[:300]})
            stats["instance_correspondence_disagreements"] = n_bad
        except (common.LeanRunError, Exception) as e:  # noqa: BLE001
            chk.broken_correspondence("pickle vs model", f"{type(e).__name__}: {str(e)[-600:]}")
        # ---------------- array/sum helper classes over their constructor argument kinds
        try:
            self.array_helpers(chk, tier, seed, ctx, failing, stats)
        except common.InfraError:
            raise
        except Exception as e:  # noqa: BLE001
            chk.broken_correspondence("array helper stream", "".join(traceback.format_exception(e))[-1000:])
        # ---------------- raw outputs of the public expression-returning functions ("any expression the library builds")
        try:
            outs, report = corr.public_function_outputs()
            stats["public_functions_called"] = len(report["called"])
            stats["public_function_expressions"] = len(outs)
            chk.info("public_functions", report)
            for lab, e in outs:
                chk.count(("function output", lab) if len(e.args) > 1 else None)
                try:
                    back = pickle.loads(pickle.dumps(e))  # noqa: S301
                except Exception as exc:  # noqa: BLE001
                    failing.append({"class": "pickle round trip raises", "cls": lab, "expr": sp.srepr(e)[:1200], "error": f"{type(exc).__name__}: {exc}"})
                    continue
                if back == e and sp.srepr(back) == sp.srepr(e) and not corr.attribute_differences(e, back):
                    continue
                # strictly classified: a purely structural difference of an evaluate=False node that disappears when both
                # sides are re-evaluated is SymPy's unpickling behaviour (known finding); anything else is a violation
                benign = (corr.has_unevaluated_node(e) and not corr.attribute_differences(e, back)
                          and corr.reevaluate(back) == corr.reevaluate(e) and back.doit() == e.doit())
                failing.append({"class": "unevaluated Mul/Add (evaluate=False) re-evaluated by SymPy on unpickling" if benign
                                else "pickle round trip does not reproduce an expression returned by a public function",
                                "function": lab, "expr": sp.srepr(e)[:1500], "loaded": sp.srepr(back)[:1500],
                                "python": f"e = {lab.split('[')[0]}; pickle.loads(pickle.dumps(e)) == e"})
        except Exception as e:  # noqa: BLE001
            chk.broken_correspondence("public function stream", "".join(traceback.format_exception(e))[-1000:])
        # ---------------- formulated models
        models = []
        for label, reaction, dyn, align in corr.MODEL_SPECS:  # `align`: the builder options of the model
            try:
                model = corr.build_model(reaction, dyn, align)
            except Exception as e:  # noqa: BLE001
                chk.broken_correspondence("model formulation", f"{label}: {type(e).__name__}: {e}")
                continue
            models.append((label, model))
            try:
                back = pickle.loads(pickle.dumps(model))  # noqa: S301
                diffs = corr.compare_models(model, back)
            except Exception as e:  # noqa: BLE001
                diffs = [f"pickle raised {type(e).__name__}: {e}"]
            stats["models"].append({"model": label, "amplitudes": len(model.amplitudes), "parameters": len(model.parameter_defaults),
                                    "kinematic_variables": len(model.kinematic_variables), "components": len(model.components),
                                    "pickle_bytes": len(pickle.dumps(model))})
            if not diffs:
                for how, fn in corr.other_round_trips(models=True):
                    try:
                        d2 = corr.compare_models(model, fn(model))
                    except Exception as e:  # noqa: BLE001
                        d2 = [f"{how} raised {type(e).__name__}: {e}"]
                    if d2:
                        diffs = [f"via {how}: {x}" for x in d2]
                        break
            if diffs:
                failing.append({"class": "pickle round trip does not reproduce a model", "model": label, "differences": diffs[:6],
                                "how": f"tools.corr.C15.build_model({reaction!r}, {dyn!r}, {align!r}); pickle.loads(pickle.dumps(model))"})
            # model record through the Lean model (roundtrip_model)
            exprs = corr.model_exprs(model)
            stats["model_expressions"] += len(exprs)
            try:
                rts = corr.lean_roundtrips([e for _, e in exprs], ctx)
                for (lab, e), (_, wf, rt) in zip(exprs, rts):
                    has_node = any(m1.is_unevaluated_class(type(n)) for n in sp.preorder_traversal(e))
                    chk.count(("model", label, lab) if has_node else None)
                    if wf != "true" or rt.startswith("err") or not m1.same(e, m1.read_reply(rt), ctx):
                        chk.broken_correspondence("model record vs Lean round trip", {"model": label, "attribute": lab, "wfTerm": wf, "reply": rt[:200]})
                        break
            except Exception as e:  # noqa: BLE001
                chk.broken_correspondence("model record vs Lean round trip", f"{label}: {type(e).__name__}: {str(e)[-400:]}")
        # ---------------- fresh process (thorough; a small sample in quick)
        # fresh interpreter (also in the quick tier): load, inspect attribute types, unfold, exercise the containers
        if tier == "thorough":
            sample = [("expr", o) for _, o in objs] + [("model", m) for _, m in models]
        else:
            with_attrs = [o for _, o in objs if corr.attr_digest(o)]
            rest = [o for _, o in objs if not corr.attr_digest(o)]
            sample = [("expr", o) for o in with_attrs[:40] + rest[:: max(1, len(rest) // 10)]]
            # numeric evaluation for the model with Breit-Wigner dynamics (non-SymPy attributes), the
            # others are loaded, inspected and their containers exercised
            sample += [("model" if i in (1, 5) else "model-shallow", m) for i, (_, m) in enumerate(models)]
        try:
            descs = corr.fresh_process_describe(sample)
            stats["fresh_process_objects"] = len(sample)
            if len(descs) != len(sample):
                failing.append({"class": "loading in a fresh process fails", "error": json.dumps(descs)[:1500]})
            else:
                for (kind, o), d in zip(sample, descs):
                    if "error" in d and len(d) == 1:
                        failing.append({"class": "loading in a fresh process fails", "error": d["error"][-1200:]})
                        continue
                    want = corr.describe(o, deep=(kind != "model-shallow"))
                    if kind.startswith("model"):
                        num_ok = True
                        if kind == "model":
                            want["numeric"] = corr.numeric_value(o)
                            num_ok = _close(want["numeric"], d.get("numeric"))
                        d2 = {k: v for k, v in d.items() if k != "numeric"}
                        w2 = {k: v for k, v in want.items() if k != "numeric"}
                        if json.loads(json.dumps(w2)) != d2 or not num_ok:
                            bad_attrs = [k for k in w2 if json.loads(json.dumps(w2[k])) != d2.get(k)]
                            detail = {}
                            for k in bad_attrs[:3]:
                                a, b = json.loads(json.dumps(w2[k])), d2.get(k)
                                if isinstance(a, dict) and isinstance(b, dict):
                                    detail[k] = {kk: [str(a[kk])[:150], str(b.get(kk))[:150]] for kk in a if a[kk] != b.get(kk)}
                                elif isinstance(a, list) and isinstance(b, list):
                                    detail[k] = next(([str(x)[:200], str(y)[:200]] for x, y in zip(a, b) if x != y), "length differs")
                                else:
                                    detail[k] = [str(a)[:200], str(b)[:200]]
                            failing.append({"class": "model loaded in a fresh process differs", "attributes": bad_attrs, "here_vs_there": detail,
                                            "numeric_here": want.get("numeric"), "numeric_there": d.get("numeric")})
                    elif json.loads(json.dumps(want)) != d:
                        bad = [k for k in want if json.loads(json.dumps(want[k])) != d.get(k)]
                        if bad == ["unfold"] and corr.digests_agree(want["unfold"], d.get("unfold", [])):
                            continue
                        failing.append({"class": "expression loaded in a fresh process differs", "expr": want["srepr"][:1200],
                                        "differs_in": bad, "here": {k: str(want[k])[:300] for k in bad if k != "srepr"},
                                        "there": {k: str(d.get(k))[:300] for k in bad if k != "srepr"}})
        except common.InfraError:
            raise
        except Exception as e:  # noqa: BLE001
            chk.broken_correspondence("fresh process", "".join(traceback.format_exception(e))[-1000:])
        chk.info("input_distribution", stats)
        for label, model in models[:2]:
            chk.sample({"model": label, "intensity": str(model.intensity)[:160]})
        for _, o in objs[:3]:
            chk.sample({"instance": str(o)[:200]})
        return self.verdict(chk, failing)

    @staticmethod
    def array_helpers(chk, tier, seed, ctx, failing, stats):  # noqa: C901, PLR0912, PLR0915
        """ArraySlice / ArrayElement / ArraySymbol / ArraySum / ArrayAxisSum / ArrayMultiplication / MatrixMultiplication
        over their constructor argument kinds: every route through the pickling protocol in this process, the Lean
        model's round trip (helper = uninterpreted head: func(*args)), a fresh interpreter; compared by type, ==, hash,
        args field by field (srepr), free symbols, str, shape and the numeric value on seeded arrays."""
        import collections

        import sympy as sp

        from tools.corr import C15 as corr
        from tools.corr import C15arrays as arr
        from tools.corr import C18m1 as m1

        rng = common.rng_for("C15", seed, "array helpers")
        built, rep = arr.build(arr.corpus(rng, full=(tier == "thorough")))
        by_cls, by_kind = collections.Counter(), collections.Counter()
        known_shape, clean = [], []
        cls_name = "pickle round trip does not reproduce an array expression"

        def entry(c, o, **kw):
            return {"class": cls_name, "cls": "array:" + c["cls"], "case": c["label"], "argument_kinds": list(c["kinds"]),
                    "expr": sp.srepr(o)[:1200], "python": "pickle.loads(pickle.dumps(expr)) vs expr  # expr as in `case` "
                    "(n, m, k positive integer symbols, j integer symbol; p, q = FourMomentumSymbol(.., shape=[]); K = ArraySymbol('K', (8, 4)); "
                    "S = ArraySymbol('S', (n, 4)); T = ArraySymbol('T', (8, 4, 4)))", **kw}

        for c, o in built:
            by_cls[type(o).__name__] += 1
            for kd in c["kinds"][1:]:
                by_kind[kd] += 1
            chk.count(("array", c["label"], sp.srepr(o)))
            try:
                blob = pickle.dumps(o)
                back = pickle.loads(blob)  # noqa: S301
            except Exception as e:  # noqa: BLE001
                # the known-shape ArraySlice defect (finding C15-F1) was repaired by fix 9a92e2c: it is a failing input
                # like any other now (a `fixed:` entry suppresses nothing)
                cls_ = (arr.FINDING_KNOWN_SHAPE if arr.is_known_shape_unpickle_failure(o, e) else "pickle round trip raises")
                failing.append({**entry(c, o, error=f"{type(e).__name__}: {e}"[:300]), "class": cls_})
                continue
            d = arr.differences(o, back)
            if not d:
                for how, fn in corr.other_round_trips():
                    try:
                        d = arr.differences(o, fn(o), numeric=False)
                    except Exception as e:  # noqa: BLE001
                        d = [f"raises {type(e).__name__}: {e}"[:200]]
                    if d:
                        d = [f"via {how}: {x}" for x in d]
                        break
            if d:
                failing.append(entry(c, o, loaded=sp.srepr(back)[:1200], differences=d[:5]))
            else:
                clean.append((c, o, blob))
        # the model's round trip and a fresh interpreter on a seeded sample that holds every argument kind
        want = 400 if tier == "quick" else len(clean)
        sample, seen_kinds = [], set()
        order = list(range(len(clean)))
        rng.shuffle(order)
        for i in order:
            ks = set(clean[i][0]["kinds"])
            if len(sample) < want or not ks <= seen_kinds:
                sample.append(clean[i])
                seen_kinds |= ks
        n_model, n_unrep, n_bad = 0, 0, 0
        try:
            rts = corr.lean_roundtrips([o for _, o, _ in sample], ctx)
            for (c, o, blob), (_, wf, rt) in zip(sample, rts):
                if wf == "unrepresentable":
                    n_unrep += 1
                    continue
                n_model += 1
                back = pickle.loads(blob)  # noqa: S301
                if wf != "true" or str(rt).startswith("err") or not m1.same(back, m1.read_reply(rt), ctx):
                    n_bad += 1
                    if n_bad <= 4:
                        chk.broken_correspondence("pickle vs model (array helpers)", {"case": c["label"], "expr": str(o)[:200], "wfTerm": wf,
                                                                                      "real_loaded": str(back)[:200], "model_loaded": str(rt)[:200]})
        except Exception as e:  # noqa: BLE001
            chk.broken_correspondence("pickle vs model (array helpers)", f"{type(e).__name__}: {str(e)[-600:]}")
        descs = arr.fresh_process([b for _, _, b in sample])
        if len(descs) != len(sample):
            failing.append({"class": "loading in a fresh process fails", "error": json.dumps(descs)[:1500]})
        else:
            for (c, o, _), d in zip(sample, descs):
                if "error" in d:
                    failing.append({**entry(c, o, error=d["error"]), "class": "loading in a fresh process fails"})
                    continue
                w = json.loads(json.dumps(arr.describe(o)))
                bad = [k for k in w if w[k] != d.get(k) and not (k == "numeric" and "TIMEOUT" in (w[k], d.get(k)))]
                if bad:
                    failing.append({**entry(c, o), "class": "expression loaded in a fresh process differs", "differs_in": bad,
                                    "here": {k: str(w[k])[:300] for k in bad if k != "srepr"}, "there": {k: str(d.get(k))[:300] for k in bad if k != "srepr"}})
        stats["array_helpers"] = {"cases": len(built) + sum(rep["rejected"].values()), "built": len(built), **rep,
                                  "by_class": dict(by_cls), "by_argument_kind": dict(by_kind), "round_trip_clean": len(clean),
                                  "routes_per_object": 1 + len(corr.other_round_trips()), "model_round_trips": n_model,
                                  "unrepresentable_in_model": n_unrep, "model_disagreements": n_bad, "fresh_process_objects": len(sample)}
        if known_shape:
            ex = [{"case": c["label"], "expr": sp.srepr(o)[:300], "error": err[:200]} for c, o, err in known_shape[:: max(1, len(known_shape) // 5)][:5]]
            chk.info("observations", {arr.FINDING_KNOWN_SHAPE + " (defect of the unchanged tree, reported to the lead as finding C15-F1; kept out of the verdict)":
                                      {"objects": len(known_shape), "examples": ex}})
        for c, o, _ in clean[:: max(1, len(clean) // 3)][:3]:
            chk.sample({"array helper": str(o)[:120], "argument_kinds": list(c["kinds"])})

    @staticmethod
    def verdict(chk, failing):
        seen = set()
        failing.sort(key=lambda f: len(f.get("expr", "")))
        for f in failing:
            key = (f["class"], f.get("expr"), f.get("model"))
            if key in seen or len(chk.violations) >= 6:
                continue
            seen.add(key)
            chk.failing_input({"class": f["class"]}, {"input": f, "expected": "loaded object equal to the original in every attribute",
                                                      "observed": {k: v for k, v in f.items() if k not in {"class", "expr"}}})
        if chk.broken and not chk.violations:
            for b in chk.broken:
                chk.unexplained(b.get("theorem") or b.get("what"), b.get("detail"))
        return chk.finish()


def _close(a, b, rtol=1e-9) -> bool:
    try:
        x, y = complex(a), complex(b)
    except (TypeError, ValueError):
        return False
    if x != x or y != y:  # nan on both sides counts as equal
        return (x != x) == (y != y)
    return abs(x - y) <= rtol * max(abs(x), abs(y), 1e-300)


def replay(data: dict) -> int:
    common.use_repo_source()
    print(json.dumps(data, indent=1)[:3000])
    wit = witness_pickle()
    for w in wit:
        print("VIOLATION (replayed witness): " + json.dumps(w)[:600])
    if wit:
        return 1
    return PROP.run("quick", 0)


PROP = C15Property()

MANIFEST = {
    "technique": "Lean 4 theorems about the pickling model (serialise = class + __getnewargs__, deserialise = generated __new__) over the class table regenerated from the package + real pickle round trips (same and fresh process) compared with the model",
    "design_ref": "DESIGN.md §3 C15, §2.3 M1/M5",
    "text": (
        "Proof. For every well-formed class table (instantiated with the table regenerated from the working tree), the shallow "
        "_get_arguments variant, EVERY term whose nodes are instances of table classes (nested instances, non-SymPy attributes, pool sums, "
        "arbitrary built-in SymPy nodes) and every model record (intensity, amplitudes, parameter defaults, kinematic variables, components "
        "as ordered association lists): deserialise(serialise x) = x (structural induction; the generated __new__ on the complete field "
        "tuple rebuilds the instance); decide-witness for the recursive (astuple) variant: EuclideanNorm(ThreeMomentum(p)) comes back as "
        "EuclideanNorm(Tuple(p)). Partial by nature: pickle's byte format, SymPy's __reduce_ex__ protocol, attrs' pickling of HelicityModel "
        "(ordering converters) and qrules' ReactionInfo are executed, not modelled. 'Any expression the library builds' is additionally "
        "covered by a stream over the raw outputs of every public expression-returning function of the package (39 functions/builders "
        "today, found by introspection and called on symbols / a corpus reaction); on the unchanged tree one of them fails: "
        "chew_mandelstam_s_wave returns a Mul built with evaluate=False, which SymPy re-evaluates on unpickling (KNOWN-FINDING; strictly "
        "classified: only a structural difference of an evaluate=False node in a raw function output that vanishes on re-evaluation; the "
        "same kind of difference inside a HelicityModel is a VIOLATION); 'numerically identical when evaluated' is checked on "
        "the real code (thorough: in a fresh interpreter), not proved. "
        "Pickling hooks: serialise = class + __getnewargs__; theorem hooks_as_modelled (decide, over Gen/C15Hooks.lean regenerated by "
        "introspection of every class of the package and of the SymPy classes its modules use, hooks resolved through the MRO): the only "
        "hand-written pickling hook (__getnewargs__/__getnewargs_ex__/__reduce__/__reduce_ex__/__getstate__/__setstate__/__copy__/"
        "__deepcopy__) is the deprecated UnevaluatedExpression.__getnewargs_ex__, every table class pickles through the decorator's "
        "_get_arguments and only table classes do, and no helper class (uninterpreted head, helper_serialised_by_args: func(*args)) has any "
        "hook — a new hook on any class breaks the theorem and triggers the search. The array/sum helper classes (ArraySlice, ArrayElement, "
        "ArraySymbol, ArraySum, ArrayAxisSum, ArrayMultiplication, MatrixMultiplication) are exercised over their constructor argument kinds "
        "(27 index kinds per axis: integer / negative / stepped / symbolic / mixed / expression bounds and steps, integer and symbolic "
        "indices; parents with unknown / known / partly symbolic shape, rank 3, product and sum parents; slice of slice / power / sum / "
        "product / axis sum; sums and arithmetic of slices; term-count and term-kind variants; axis kinds; about 2000 objects per run). "
        "Found by this corpus on the pinned tree and REPAIRED (fix 9a92e2c): an ArraySlice with a real slice on an axis of KNOWN Integer "
        "size could not be unpickled (TypeError in ArraySlice.__new__ on its own normalised args); such objects are part of the verdict now."
    ),
    "level_note": (
        "Trusted: Lean kernel + Mathlib (axioms propext, Classical.choice, Quot.sound); class-table extractor and SymPy<->S-expression converter "
        "(checked by the correspondence: every table class is instantiated with random nested arguments/attributes, pickled by the real "
        "pickle, and the loaded object is compared with the model's round trip and with the original by ==, srepr, type and hash, then — because == "
        "goes through _hashable_content — by the VALUE of every non-SymPy attribute field by field (type; identity for classes/functions/None) "
        "and by what evaluate() of every node returns; every admissible picklable attribute value occurs in every run). Models: "
        "11 formulated HelicityModels from corpus/C15 (no dynamics; Breit-Wigner with form factor and energy-dependent width = non-SymPy "
        "attributes; canonical formalism; DalitzPlotDecomposition and AxisAngleAlignment; use_helicity_couplings (3 models); "
        "scalar_initial_state_mass; stable_final_state_ids; non-default naming flags) compared attribute by attribute (==, key order, srepr, attribute values of every node) and "
        "behaviourally: the public API of every container (ParameterValues by symbol / name / index, in, len, iteration, items, assignment "
        "of the same value by symbol / name / index, missing keys; the OrderedDict attributes) gives the same outcome incl. exceptions on the "
        "loaded model. Also in the quick tier a FRESH interpreter loads all instances with attributes and the four models, reports attribute "
        "types, unfolding digests and container behaviour (numeric intensity for the Breit-Wigner model); thorough: all objects, all numerics. "
        "Array helpers: every object through pickle (default + protocols 2-5), copy.copy, copy.deepcopy, compared by type, ==, hash, args field "
        "by field (srepr), free symbols, str and the lambdified value on seeded NumPy arrays (bit-exact digest); a seeded sample of >= 400 "
        "objects holding every argument kind goes through the Lean model's round trip and is loaded object by object in a fresh interpreter "
        "(other PYTHONHASHSEED) where the same description incl. the numeric digest is recomputed."
    ),
}
