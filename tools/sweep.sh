#!/bin/bash
# tools/sweep.sh <tier> <seeds...> : every check once per seed on the current /repo; summary lines only.
# Used (through `vp run`) to look for false alarms and to measure run times; not a registered check.
tier=$1; shift
cd "$(dirname "$0")/.."
[ -d lean/.lake ] || ./setup.sh > /dev/null 2>&1
for seed in "$@"; do
  for p in C01 C02 C03 C04 C05 C06 C07 C08 C09 C10 C11 C12 C13 C14 C15 C16 C17 C18 C19 C20; do
    t0=$(date +%s)
    out=$(VERIF_SEED=$seed timeout 3600 ./check $p --tier $tier 2>&1); code=$?
    t1=$(date +%s)
    echo "SWEEP tier=$tier seed=$seed prop=$p exit=$code secs=$((t1-t0))"
    echo "$out" | grep -E "^VIOLATION|^\[$p\] tier=" | head -5
  done
done
