#!/bin/bash
# Build the framework from files on disk only (offline): regenerate the Lean definitions from
# /repo's working tree, then compile every model, lemma, property file and driver.
set -u
cd "$(dirname "$0")"
/venv/bin/python tools/regen.py
cd lean
# the whole library in one go (fast path) ...
lake build Ampverif 2>&1 | tail -3 || true
# ... then module by module, so that one failing module does not prevent the others from being built
for dir in Model Lemmas Gen GenFloat Props Drivers; do
  for f in Ampverif/$dir/*.lean; do
    [ -e "$f" ] || continue
    m=$(echo "${f%.lean}" | tr '/' '.')
    lake build "$m" >/dev/null 2>&1 || echo "setup: $m does not build (its check will report it)"
  done
done
exit 0
