#!/bin/bash
# Build the framework from files on disk only (offline): regenerate the Lean definitions from
# /repo's working tree, then compile every model, lemma and property file.
set -u
cd "$(dirname "$0")"
/venv/bin/python tools/regen.py
cd lean
# a failing property module must not prevent the others from being built: build them one by one
status=0
lake build Ampverif 2>&1 | tail -5 || true
for f in Ampverif/Props/*.lean; do
  m=$(echo "${f%.lean}" | tr '/' '.')
  lake build "$m" >/dev/null 2>&1 || { echo "setup: $m does not build (its check will report it)"; }
done
exit 0
