/-
C12 — the Breit–Wigner constructors over a HISTORY of calls in one process, with the phase-space
FACTOR OBJECT as part of the call (import-free, executable; the line-protocol entry point is
`Ampverif/Drivers/C12Factor.lean`). Mirrors `Model/C10History.lean`.

`RelativisticBreitWignerBuilder(ff, edw, phsp_factor)(resonance, pool)`,
`relativistic_breit_wigner_with_ff(…, phsp_factor)` and `EnergyDependentWidth(…, phsp_factor)` are
documented as pure functions of their arguments — the factor OBJECT included (any callable
`ρ(s, m_a, m_b)`: `PhaseSpaceFactorProtocol`). In the real code the product `Γ(s)·m_R·i` of the
denominator goes through SymPy's process-global constructor cache, keyed on the HASHABLE CONTENT of
the `EnergyDependentWidth`: its sympified arguments (resonance symbols, pool symbols, `L`) and a key
computed from the factor object by `ampform.sympy._decorator._get_hashable_object`.

The model keeps exactly that: a call that contains the cached product looks the width up in a cache
keyed on `(resonance, pool, L, κ factor)` and re-uses the stored width — which carries the factor
OBJECT of the call that stored it. `κ` is the key function:

* `κ = id` (the object itself: the clean tree for functions, partials, callable instances, bound
  methods) — the cache is transparent (`Props/C12Factor.lean: factor_history_pure`);
* `κ = Factor.qual` (the qualified name) — not injective: two lambdas of one scope / two closures of
  one factory share it and the second call returns the width of the FIRST (`qualname_key_witness`).

A result's skeleton: which public lineshape it is, for which resonance / pool / `L`, and which factor
object its `EnergyDependentWidth` carries. Tied to the real objects by `tools/corr/C12_factor.py` on
every run; the algebraic content is `Props/C12.lean` (regenerated definitions, generic in `ρ`).
-/
namespace Ampverif.C12Factor

/-- A phase-space factor OBJECT passed by the caller. -/
structure Factor where
  /-- which Python object (identity) -/
  ident : Nat
  /-- its `__module__.__qualname__` (that of its type for objects without one) -/
  qual : Nat
  deriving DecidableEq, Repr

/-- Which public entry point is called. -/
inductive Api where
  /-- `RelativisticBreitWignerBuilder(form_factor, energy_dependent_width, phsp_factor)(res, pool)`
  (a new builder object or a module-level one) -/
  | builder (ff edw : Bool)
  /-- `EnergyDependentWidth(s, m_R, Γ_R, m_a, m_b, L, d_R, phsp_factor)` -/
  | width
  /-- `relativistic_breit_wigner_with_ff(s, m_R, Γ_R, m_a, m_b, L, d_R, phsp_factor)` -/
  | function
  deriving DecidableEq, Repr

inductive Shape where
  | plain | ffOnly | edwOnly | full | widthNode
  deriving DecidableEq, Repr

def Api.shape : Api → Shape
  | .builder false false => .plain
  | .builder true false => .ffOnly
  | .builder false true => .edwOnly
  | .builder true true => .full
  | .width => .widthNode
  | .function => .full

/-- The result contains an `EnergyDependentWidth`. -/
def Api.hasWidth : Api → Bool
  | .builder _ edw => edw
  | _ => true

/-- The result contains the product `Γ(s)·m_R·i` built by a cached constructor (the bare
`EnergyDependentWidth(...)` is a new object every time). -/
def Api.cached : Api → Bool
  | .builder _ edw => edw
  | .width => false
  | .function => true

structure Args where
  api : Api
  phsp : Factor
  res : Nat
  pool : Nat
  angMom : Nat
  deriving DecidableEq, Repr

structure Out where
  shape : Shape
  res : Nat
  pool : Nat
  angMom : Nat
  /-- the `phsp_factor` attribute of the result's `EnergyDependentWidth` -/
  carried : Option Factor
  deriving DecidableEq, Repr

/-- The result of `a` whose width carries the factor object `w`. -/
def out (a : Args) (w : Factor) : Out :=
  { shape := a.api.shape, res := a.res, pool := a.pool, angMom := a.angMom,
    carried := if a.api.hasWidth then some w else none }

/-- The call as the pure function of its arguments (= the first call of a fresh process). -/
def freshOut (a : Args) : Out := out a a.phsp

structure Entry (α : Type) where
  res : Nat
  pool : Nat
  angMom : Nat
  key : α
  stored : Factor

def lookup {α : Type} [DecidableEq α] : List (Entry α) → Nat → Nat → Nat → α → Option Factor
  | [], _, _, _, _ => none
  | e :: rest, r, p, l, k =>
    if e.res = r ∧ e.pool = p ∧ e.angMom = l ∧ e.key = k then some e.stored else lookup rest r p l k

/-- One call in a process whose cache is `c`: (result, cache afterwards). -/
def call {α : Type} [DecidableEq α] (κ : Factor → α) (c : List (Entry α)) (a : Args) :
    Out × List (Entry α) :=
  if a.api.cached then
    match lookup c a.res a.pool a.angMom (κ a.phsp) with
    | some g => (out a g, c)
    | none => (out a a.phsp, ⟨a.res, a.pool, a.angMom, κ a.phsp, a.phsp⟩ :: c)
  else (out a a.phsp, c)

/-- A history of calls in ONE process. -/
def run {α : Type} [DecidableEq α] (κ : Factor → α) :
    List (Entry α) → List Args → List Out × List (Entry α)
  | c, [] => ([], c)
  | c, a :: rest =>
    let r := call κ c a
    let rs := run κ r.2 rest
    (r.1 :: rs.1, rs.2)

/-- The same calls, each as the first call of a fresh process. -/
def fresh (hist : List Args) : List Out := hist.map freshOut

/-- The result honours the factor argument of `a`. -/
def Out.honours (o : Out) (a : Args) : Bool :=
  o.carried == (if a.api.hasWidth then some a.phsp else none)

-- ---------------------------------------------------------------- line protocol

def Shape.render : Shape → String
  | .plain => "plain" | .ffOnly => "ff" | .edwOnly => "edw" | .full => "full" | .widthNode => "width"

def Out.render (o : Out) : String :=
  s!"{o.shape.render} res={o.res} pool={o.pool} L={o.angMom} carried="
    ++ (match o.carried with | some f => s!"f{f.ident}" | none => "-")

def parseApi : String → Option Api
  | "b00" => some (.builder false false)
  | "b10" => some (.builder true false)
  | "b01" => some (.builder false true)
  | "b11" => some (.builder true true)
  | "width" => some .width
  | "function" => some .function
  | _ => none

/-- Protocol: `process` (a fresh process: empty cache) · `variant qualname|identity` ·
`call <api> <ident> <qual> <res> <pool> <L>` → one line, the rendered result. -/
partial def loop (h : IO.FS.Stream) (byQual : Bool) (cId : List (Entry Factor))
    (cQ : List (Entry Nat)) : IO Unit := do
  let line ← h.getLine
  if line.isEmpty then return ()
  let toks := (line.trimAscii.toString.splitOn " ").filter (· ≠ "")
  match toks with
  | ["variant", x] => loop h (x == "qualname") [] []
  | ["process"] => loop h byQual [] []
  | ["call", api, ident, qual, r, p, l] =>
    match parseApi api with
    | none =>
      IO.println "bad-op"
      loop h byQual cId cQ
    | some ap =>
      let a : Args := { api := ap, phsp := ⟨ident.toNat!, qual.toNat!⟩, res := r.toNat!,
                        pool := p.toNat!, angMom := l.toNat! }
      if byQual then
        let res := call Factor.qual cQ a
        IO.println res.1.render
        loop h byQual cId res.2
      else
        let res := call id cId a
        IO.println res.1.render
        loop h byQual res.2 cQ
  | [] => loop h byQual cId cQ
  | _ =>
    IO.println "bad-op"
    loop h byQual cId cQ

end Ampverif.C12Factor
