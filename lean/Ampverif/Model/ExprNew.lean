/-
M1, constructor layer — `PoolSum.__new__` (src/ampform/sympy/__init__.py), line by line.

Kept in a file of its own (core Lean + `Model/Expr.lean` only) so that the term model's dependants
are not rebuilt.  The rest of M1 builds `.psum b ixs` directly (`subst1`, `xreplace`, `cleanup`):
SymPy REBUILDS a `PoolSum` through `__new__` (`func(*args)`) in `subs`, `xreplace`, `cleanup`,
unpickling, so that is sound only if `__new__` stores exactly what it is given.  This file models
the constructor with its INPUT as a dimension (`Pool`: what iterating the Python object yields, and
whether the object is a one-shot iterator), `Lemmas/C18New.lean` proves that the constructor of the
current source stores the given values (order, duplicates) for every input kind and that
`func(*args)` is the identity, and the correspondence run constructs the real object from the
ORIGINAL iterable of each kind.

```
    def __new__(cls, expression, *indices, evaluate=False, **hints):
        converted_indices = []
        for idx_symbol, values in indices:
            values = tuple(values)                                   -- `Pool.iterate`, once
            if len(values) == 0:
                raise ValueError(f"No values provided for index {idx_symbol}")
            converted_indices.append((idx_symbol, values))
        args = sp.sympify((expression, *converted_indices))          -- Python numbers → SymPy numbers: done by the
        expr = sp.Expr.__new__(cls, *args, **hints)                  --   harness' conversion; args stored as given
        if evaluate:
            return expr.evaluate()
        return expr
```
-/
import Ampverif.Model.Expr

namespace Ampverif.Model

/-- A Python iterable handed to `PoolSum.__new__` as the value pool of an index. -/
structure Pool where
  /-- what ONE full iteration of the object yields, in iteration order (for a `set`: its iteration
  order in the running process; for a `dict`: insertion order of keys/values) -/
  items : List Expr
  /-- the object is an iterator (generator, `map`/`filter`/`zip` object, `iter(...)`,
  `itertools` object): iterating it a second time yields nothing.  `false`: list, tuple, range,
  set, frozenset, dict and its views, `sympy.Tuple`, str-free sequences. -/
  oneShot : Bool
deriving Repr, Inhabited

/-- `tuple(values)`: the values and the state of the object afterwards. -/
def Pool.iterate (p : Pool) : List Expr × Pool :=
  (p.items, if p.oneShot then { p with items := [] } else p)

/-- a pool given as a tuple (what `self.args` holds: `func(*args)` passes these). -/
def Pool.ofTuple (vs : List Expr) : Pool := ⟨vs, false⟩

/-- defect sites of the constructor (the current source is `NewVariant.current`). -/
structure NewVariant where
  /-- the non-empty check runs in a pass of its own that materialises each pool, the conversion
  `tuple(values)` runs a second time afterwards -/
  validateInOwnPass : Bool
  /-- repeated values of a pool are dropped (`tuple(dict.fromkeys(values))`, `set`, `sorted(set)`) -/
  dropsRepeated : Bool
deriving DecidableEq, Repr, Inhabited

def NewVariant.current : NewVariant := ⟨false, false⟩
def NewVariant.sound (nv : NewVariant) : Prop := nv.validateInOwnPass = false ∧ nv.dropsRepeated = false
instance (nv : NewVariant) : Decidable nv.sound := by unfold NewVariant.sound; exact inferInstance

/-- `dict.fromkeys(values)`: first occurrences, in order (`==`/`hash` of SymPy terms). -/
def dedupTerms : List Expr → List Expr
  | [] => []
  | e :: es => e :: (dedupTerms es).filter (fun x => !Expr.eqv x e)

inductive NewResult where
  /-- the constructed object (or, with `evaluate=True`, what `evaluate()` returned) -/
  | ok (e : Expr)
  /-- `ValueError("No values provided for index …")` -/
  | noValues (idx : Sym)
deriving Repr, Inhabited

/-- the loop of `__new__` over `indices`: `Except` = the `ValueError` of the first empty pool. -/
def convertIndices (nv : NewVariant) : List (Sym × Pool) → Except Sym (List Binder)
  | [] => .ok []
  | (i, p) :: rest =>
      -- `values = tuple(values)`
      let values := if nv.dropsRepeated then dedupTerms p.iterate.1 else p.iterate.1
      if values.isEmpty then .error i
      else match convertIndices nv rest with
        | .error j => .error j
        | .ok bs => .ok ((i, values) :: bs)

/-- the unsound two-pass shape: validation pass (`len(tuple(values))`), then conversion of what the
objects yield when iterated AGAIN. -/
def convertIndicesTwoPass (nv : NewVariant) (ixs : List (Sym × Pool)) : Except Sym (List Binder) :=
  match convertIndices nv ixs with
  | .error j => .error j
  | .ok _ =>
      .ok (ixs.map (fun p =>
        let again := p.2.iterate.2.iterate.1
        (p.1, if nv.dropsRepeated then dedupTerms again else again)))

/-- `PoolSum.__new__(cls, expression, *indices, evaluate=…)`. -/
def psumNew (v : Variant) (nv : NewVariant) (expression : Expr) (indices : List (Sym × Pool))
    (evaluateFlag : Bool) : NewResult :=
  match (if nv.validateInOwnPass then convertIndicesTwoPass nv indices else convertIndices nv indices) with
  | .error j => .noValues j
  | .ok converted =>
      let expr := Expr.psum expression converted      -- `sp.Expr.__new__(cls, *args)`
      if evaluateFlag then .ok (evaluate v expr) else .ok expr

/-- the pools as `self.args[1:]` presents them. -/
def argPools (ixs : List Binder) : List (Sym × Pool) := ixs.map (fun p => (p.1, Pool.ofTuple p.2))

/-- `expr.func(*expr.args)` for a `PoolSum` (what `subs`, `xreplace`, unpickling and `cleanup` call
after they have rewritten the arguments). -/
def psumRebuild (v : Variant) (nv : NewVariant) : Expr → NewResult
  | .psum b ixs => psumNew v nv b (argPools ixs) false
  | e => .ok e

/-- `e.subs(x, a)` of a `PoolSum` as SymPy performs it: `_eval_subs` (bound index → `self`), else
the fallback rewrites the ARGUMENTS and calls `self.func(*args)`, i.e. `__new__` again. -/
def subst1ViaNew (v : Variant) (nv : NewVariant) (x : Sym) (a : Expr) : Expr → NewResult
  | .psum b ixs =>
      if (names ixs).contains x then .ok (.psum b ixs)
      else psumNew v nv (subst1 v x a b) (argPools (subst1Binders v x a ixs)) false
  | e => .ok (subst1 v x a e)

/-- `e.xreplace(σ)` of a `PoolSum`: bound keys dropped, arguments rewritten, `func(*args)`. -/
def xreplaceViaNew (v : Variant) (nv : NewVariant) (σ : List (Sym × Expr)) : Expr → NewResult
  | .psum b ixs =>
      let σ' := σ.filter (fun p => !(names ixs).contains p.1)
      psumNew v nv (xreplace v b σ') (argPools (xreplaceBinders v ixs σ')) false
  | e => .ok (xreplace v e σ)

def NewResult.get? : NewResult → Option Expr
  | .ok e => some e
  | .noValues _ => none

end Ampverif.Model
