/-
C05 — model of `ampform.helicity.align._spin.create_spin_range` (import-free, executable).

Spins are DOUBLED: the Python float/Decimal value `x` is the integer `2·x` here, so the loop
increment `projection += 1` is `p + 2`. The model follows the source statement by statement:

    projection = Decimal(-spin_magnitude_float)
    while projection <= spin_magnitude_float:
        if projection == -0.0: projection = Decimal("0.0")     -- no-op on integers
        spin_projections.append(float(projection))
        projection += 1
    if no_zero_spin and len(spin_projections) > 1 and 0.0 in spin_projections:   -- (*)
        spin_projections.remove(0.0)                                              -- list.remove
    return spin_projections

(*) The membership test was added by commit 6cd7ef9; before it `remove(0.0)` raised `ValueError`
for every half-integer spin with `no_zero_spin=True`. `Variant.checksZeroMember` switches
between the two.

The `while` loop is modelled with fuel (`|s2| + 1` iterations are always enough); running out of
fuel is a distinct result so that "the loop ends by its own condition" is part of the theorem.
Decimal/float arithmetic on half-integers of this size is exact, which is what the
correspondence run checks against the real function for s = 0, 1/2, …, 10.
-/

namespace Ampverif.Model.C05Spin

structure Variant where
  /-- `and 0.0 in spin_projections` is part of the guard of `remove(0.0)` (6cd7ef9) -/
  checksZeroMember : Bool
  deriving DecidableEq, Repr

def Variant.sound (v : Variant) : Prop := v.checksZeroMember = true

def fixed : Variant := ⟨true⟩
def pinned : Variant := ⟨false⟩

/-- result of a call: the returned list, or the exception class -/
inductive Res where
  | ok (l : List Int)
  | valueError
  | outOfFuel
  deriving DecidableEq, Repr

/-- the `while projection <= s: append; projection += 1` loop on doubled values -/
def loop : Nat → Int → Int → List Int → Option (List Int)
  | 0, s2, p, acc => if p ≤ s2 then none else some acc
  | fuel + 1, s2, p, acc =>
    if p ≤ s2 then
      let p' : Int := if p = 0 then 0 else p      -- `if projection == -0.0: projection = Decimal("0.0")`
      loop fuel s2 (p' + 2) (acc ++ [p'])
    else some acc

/-- Python `list.remove(x)`: drops the first occurrence, `ValueError` if there is none -/
def pyRemove (x : Int) : List Int → Option (List Int)
  | [] => none
  | y :: ys => if y = x then some ys else (pyRemove x ys).map (y :: ·)

/-- `create_spin_range(s2/2, no_zero_spin)` with doubled projections -/
def spinRange (v : Variant) (s2 : Int) (noZero : Bool) : Res :=
  match loop (s2.toNat + 1) s2 (-s2) [] with
  | none => .outOfFuel
  | some l =>
    if noZero && decide (l.length > 1) && (!v.checksZeroMember || l.contains 0) then
      match pyRemove 0 l with
      | some l' => .ok l'
      | none => .valueError
    else .ok l

/-- the specification: `-s, -s+1, …, s` (doubled: step 2) -/
def fullRange (s2 : Nat) : List Int := (List.range (s2 + 1)).map (fun (k : Nat) => -(s2 : Int) + 2 * (k : Int))

/-- … minus `0` iff `no_zero_spin` and the spin is a positive integer -/
def specRange (s2 : Nat) (noZero : Bool) : List Int :=
  if noZero && s2 % 2 == 0 && decide (0 < s2) then (fullRange s2).filter (· ≠ 0) else fullRange s2

/-! ## line protocol: `<variant 0|1> <s2> <flag 0|1>`  →  `ok a b c …` | `ValueError` | `OutOfFuel` -/

def Res.render : Res → String
  | .ok l => " ".intercalate ("ok" :: l.map toString)
  | .valueError => "ValueError"
  | .outOfFuel => "OutOfFuel"

def answer (line : String) : String :=
  match (line.splitOn " ").filter (· ≠ "") with
  | [v, s, f] =>
    match v.toNat?, s.toInt?, f.toNat? with
    | some v, some s, some f => (spinRange ⟨v != 0⟩ s (f != 0)).render
    | _, _, _ => "bad-request"
  | _ => "bad-request"

end Ampverif.Model.C05Spin
