/-
C08 — model of `ArrayMultiplication._create_einsum_subscripts` and
`MatrixMultiplication._create_einsum_subscripts` (src/ampform/sympy/_array_expressions.py), and a
tiny interpreter of einsum subscripts. Import-free (core Lean only); `main` speaks the line
protocol `A n` / `M n` → the subscripts string (T2 tie: compared with the real functions).

The model follows the source line by line:

    letters = string.ascii_lowercase[8 : 8 + n_arrays]            # A    (slice: silently truncated)
    for i, j in zip_longest(letters, letters[1:]):
        contraction += f"...{i}{j}," if j is not None else f"...{i}"
    contraction += "->...i"

    letters = string.ascii_lowercase[8 : 8 + n_arrays + 1]        # M
    groups = [f"...{i}{j}" for i, j in zip(letters, letters[1:])]
    return f"{','.join(groups)}->...i{letters[-1]}"

Because the alphabet ends at `z`, only 18 letters are available: the generated subscripts are a
well-formed chain exactly for `n ≤ 18` (A) resp. `n ≤ 17` (M); this bound is part of the theorems.
-/

namespace Ampverif.Model.C08Einsum

/-- `string.ascii_lowercase` -/
def alphabet : List Char := "abcdefghijklmnopqrstuvwxyz".toList

/-- Python slice `s[a : a + k]` on a list (truncating). -/
def pySlice (s : List Char) (a k : Nat) : List Char := (s.drop a).take k

/-- Structured subscripts: index letters of every operand, and of the output. -/
structure Subs where
  operands : List (List Char)
  out : List Char
deriving Repr, DecidableEq

/-- `zip_longest(letters, letters[1:])` mapped to the index group of each operand:
`[i, j]` while a successor exists, `[i]` for the last letter. -/
def groupsA : List Char → List (List Char)
  | [] => []
  | [i] => [[i]]
  | i :: j :: rest => [i, j] :: groupsA (j :: rest)

/-- `zip(letters, letters[1:])` mapped to `[i, j]`. -/
def groupsM : List Char → List (List Char)
  | [] => []
  | [_] => []
  | i :: j :: rest => [i, j] :: groupsM (j :: rest)

/-- `ArrayMultiplication._create_einsum_subscripts(n)`, structured. The output is the literal
`"->...i"` of the source. -/
def subsA (n : Nat) : Subs :=
  { operands := groupsA (pySlice alphabet 8 n), out := ['i'] }

/-- `MatrixMultiplication._create_einsum_subscripts(n)`, structured (`letters[-1]` raises
`IndexError` on an empty string: impossible here since `8 + n + 1 > 8`). -/
def subsM (n : Nat) : Subs :=
  let letters := pySlice alphabet 8 (n + 1)
  { operands := groupsM letters, out := ['i', letters.getLast?.getD 'i'] }

def renderGroup (g : List Char) : String := "..." ++ String.ofList g

/-- The string the source builds for A: every group but the last is followed by a comma. -/
def renderA (s : Subs) : String :=
  String.intercalate "," (s.operands.map renderGroup) ++ "->" ++ renderGroup s.out

def renderM (s : Subs) : String :=
  String.intercalate "," (s.operands.map renderGroup) ++ "->" ++ renderGroup s.out

def createA (n : Nat) : String := renderA (subsA n)
def createM (n : Nat) : String := renderM (subsM n)

/-! ### A tiny einsum interpreter

Tensors are functions from index lists to values; every index letter ranges over `0 … d−1`.
`einsum d s ops outIdx = Σ_{summed letters} Π_k ops[k](letters of operand k)`, where the summed
letters are those occurring in an operand but not in the output — numpy's explicit-mode semantics
for one event (the leading `...` axes are the batch, treated pointwise). -/

abbrev Env := Char → Nat

def Env.set (e : Env) (c : Char) (v : Nat) : Env := fun x => if x = c then v else e x

def Env.setMany (e : Env) : List Char → List Nat → Env
  | c :: cs, v :: vs => (e.set c v).setMany cs vs
  | _, _ => e

section
variable {α : Type} [Add α] [Mul α] [OfNat α 0] [OfNat α 1]

/-- `Σ_{k<d} f k` -/
def sumRange (d : Nat) (f : Nat → α) : α := (List.range d).foldr (fun k acc => f k + acc) 0

/-- nested sums over the listed letters -/
def sumOver (d : Nat) : List Char → (Env → α) → Env → α
  | [], f, e => f e
  | c :: cs, f, e => sumRange d (fun k => sumOver d cs f (e.set c k))

/-- product of the operand entries under an assignment of the letters -/
def prodOps : List (List Nat → α) → List (List Char) → Env → α
  | T :: Ts, g :: gs, e => T (g.map e) * prodOps Ts gs e
  | _, _, _ => 1

/-- first occurrences only -/
def dedup : List Char → List Char
  | [] => []
  | c :: cs => c :: (dedup cs).filter (fun x => x != c)

/-- letters to be summed: those of the operands, deduplicated, minus the output letters -/
def summed (s : Subs) : List Char :=
  (dedup s.operands.flatten).filter (fun c => !s.out.contains c)

def einsum (d : Nat) (s : Subs) (ops : List (List Nat → α)) (outIdx : List Nat) : α :=
  sumOver d (summed s) (prodOps ops s.operands) (Env.setMany (fun _ => 0) s.out outIdx)

/-- Specification: the chain `M₁·(M₂·(…(M_{n−1}·v)))` in index form,
`(M·w)_a = Σ_{k<d} M[a,k]·w_k`. -/
def chainVec (d : Nat) : List (List Nat → α) → (List Nat → α) → Nat → α
  | [], v, a => v [a]
  | M :: Ms, v, a => sumRange d (fun k => M [a, k] * chainVec d Ms v k)

/-- Specification: the matrix product `M₁·M₂·…·M_n` in index form (`1` for the empty list is
never used: the generators are applied to `n ≥ 1` arrays). -/
def chainMat (d : Nat) : List (List Nat → α) → Nat → Nat → α
  | [], a, b => if a = b then 1 else 0
  | [M], a, b => M [a, b]
  | M :: Ms, a, b => sumRange d (fun k => M [a, k] * chainMat d Ms k b)

end

end Ampverif.Model.C08Einsum

open Ampverif.Model.C08Einsum in
partial def c08EinsumLoop (h : IO.FS.Stream) : IO Unit := do
  let line ← h.getLine
  if line.isEmpty then return ()
  let toks := (line.trimAscii.toString.splitOn " ").filter (· ≠ "")
  match toks with
  | ["A", n] => IO.println (createA n.toNat!)
  | ["M", n] => IO.println (createM n.toNat!)
  | [] => pure ()
  | _ => IO.println "bad-op"
  c08EinsumLoop h

-- `main` (line-protocol entry point) lives in Ampverif/Drivers/C08Einsum.lean
