/-
C02 — executable model of the amplitude builder (`helicity/__init__.py`
`__formulate_top_expression … __formulate_sequential_decay`, `formulate_isobar_wigner_d`,
`formulate_isobar_cg_coefficients`; `helicity/decay.py` `TwoBodyDecay.from_transition`,
`is_opposite_helicity_state`, `determine_attached_final_state`, `group_by_spin_projection`,
`group_by_topology`; `helicity/naming.py` amplitude names, labels, angle symbols, topology
identifier; `helicity/align/__init__.py` `NoAlignment`) producing the IMPL skeleton, and of the
helicity formula of the property statement producing the SPEC skeleton.

Core Lean only (no Mathlib); coefficient names and parity prefactors come from the C03 model.
Tied to the working tree by `tools/props/C02.py` through `Drivers/C02.lean`.
-/
import Ampverif.Model.C03Parity

namespace Ampverif.Model.C02
open Ampverif.Model.C03

/-! ### reactions -/

structure Edge where
  id : Int
  orig : Option Nat
  dest : Option Nat
deriving Repr, BEq, DecidableEq, Inhabited

structure EState where
  name : String
  label : String
  spin2 : Nat
  hel2 : Int
deriving Repr, BEq, DecidableEq, Inhabited

structure Inter where
  eta : Option Int
  ls : Option (Nat × Nat)
deriving Repr, BEq, DecidableEq, Inhabited

/-- a transition (or one graph of its identical-particle combinatorics). -/
structure Transition where
  nodes : List Nat
  edges : List Edge
  states : List (Int × EState)
  inters : List (Nat × Inter)
deriving Repr, BEq, DecidableEq, Inhabited

structure Config where
  canonical : Bool
  couplings : Bool
  flags : Flags
  /-- the calls `dynamics.assign(particle_name, builder)` in order: (particle name, builder id). -/
  dyn : List (String × String) := []
deriving Repr, BEq, DecidableEq, Inhabited

/-! ### small list utilities (kept elementary so that the lemmas are easy) -/

/-- distinct elements in order of first appearance (a Python dict's keys). -/
def dedupFirst {α} [DecidableEq α] : List α → List α
  | [] => []
  | x :: xs => x :: (dedupFirst xs).filter (· ≠ x)

def insertSorted {α} (lt : α → α → Bool) (x : α) : List α → List α
  | [] => [x]
  | y :: ys => if lt y x then y :: insertSorted lt x ys else x :: y :: ys

/-- stable insertion sort (`sorted(...)`). -/
def sortBy {α} (lt : α → α → Bool) (l : List α) : List α :=
  l.foldr (fun x acc => insertSorted (fun a b => lt a b) x acc) []

def lexLt : List Int → List Int → Bool
  | [], [] => false
  | [], _ :: _ => true
  | _ :: _, [] => false
  | a :: as, b :: bs => a < b || (a == b && lexLt as bs)

def sumInt (l : List Int) : Int := l.foldl (· + ·) 0

/-! ### topology functions -/

def Transition.edge? (t : Transition) (e : Int) : Option Edge := t.edges.find? (·.id == e)

def Transition.state (t : Transition) (e : Int) : EState :=
  match t.states.find? (·.1 == e) with
  | some p => p.2
  | none => default

def Transition.inter (t : Transition) (n : Nat) : Inter :=
  match t.inters.find? (·.1 == n) with
  | some p => p.2
  | none => ⟨none, none⟩

/-- ids of the edges leaving node `n`, ascending (iteration order of a small-int `set`). -/
def Transition.outEdges (t : Transition) (n : Nat) : List Int :=
  sortBy (· < ·) ((t.edges.filter (·.orig == some n)).map (·.id))

def Transition.inEdges (t : Transition) (n : Nat) : List Int :=
  sortBy (· < ·) ((t.edges.filter (·.dest == some n)).map (·.id))

def Transition.initialIds (t : Transition) : List Int :=
  sortBy (· < ·) ((t.edges.filter (·.orig == none)).map (·.id))

def Transition.finalIds (t : Transition) : List Int :=
  sortBy (· < ·) ((t.edges.filter (·.dest == none)).map (·.id))

/-- `topology.intermediate_edge_ids` is a `frozenset` of small ints: iterated in ascending order, whatever the order
of the `edges` mapping (matters only for ties of `natural_sorting`, "023" vs "23"). -/
def Transition.intermediateIds (t : Transition) : List Int :=
  sortBy (· < ·) ((t.edges.filter (fun e => e.orig != none && e.dest != none)).map (·.id))

/-- `get_outer_state_ids`. -/
def Transition.outerIds (t : Transition) : List Int := t.initialIds ++ t.finalIds

/-- per-state-id outer projections (doubled). -/
def Transition.outer (t : Transition) : List Int := t.outerIds.map fun e => (t.state e).hel2

/-- `determine_attached_final_state` (sorted final-state ids below the edge). -/
def Transition.attachedFuel (t : Transition) : Nat → Int → List Int
  | 0, e => [e]
  | fuel + 1, e =>
    match t.edge? e with
    | none => [e]
    | some ed =>
      match ed.dest with
      | none => [e]
      | some n => sortBy (· < ·) ((t.outEdges n).flatMap (t.attachedFuel fuel))

def Transition.attached (t : Transition) (e : Int) : List Int := t.attachedFuel t.edges.length e

def joinIds (l : List Int) : String := String.join (l.map toString)

/-- `is_opposite_helicity_state` for a child `e` with sibling `s`. -/
def Transition.isOpposite (t : Transition) (e s : Int) : Bool := lexLt (t.attached s) (t.attached e)

/-- `TwoBodyDecay.from_transition`: (parent, child1, child2). -/
def Transition.decay (t : Transition) (n : Nat) : Int × Int × Int :=
  let p := (t.inEdges n).headD 0
  match t.outEdges n with
  | [a, b] => if t.isOpposite a b then (p, b, a) else (p, a, b)
  | _ => (p, 0, 0)

def Transition.parentEdge? (t : Transition) (e : Int) : Option Int :=
  match t.edge? e with
  | some ed => match ed.orig with
    | some n => (t.inEdges n).head?
    | none => none
  | none => none

/-- the comma separated groups of `get_boost_chain_suffix`'s recursive label. -/
def Transition.labelGroups (t : Transition) : Nat → Int → List String
  | 0, e => [joinIds (t.attached e)]
  | fuel + 1, e =>
    let own := joinIds (t.attached e)
    match t.parentEdge? e with
    | none => [own]
    | some p =>
      if t.initialIds.contains p then [own] else own :: t.labelGroups fuel p

/-- `get_boost_chain_suffix`. -/
def Transition.boostSuffix (t : Transition) (e : Int) : String :=
  match t.labelGroups t.edges.length e with
  | [] => "_"
  | [s] => "_" ++ s
  | s :: rest => "_" ++ s ++ "^" ++ ",".intercalate rest

/-- numeric value of a digit string (the key `natural_sorting` gives a run of digits). -/
def digitsVal (s : String) : Nat := s.toList.foldl (fun acc c => acc * 10 + (c.toNat - '0'.toNat)) 0

/-- `get_topology_identifier`: resonance names sorted naturally, comma separated. -/
def Transition.topologyId (t : Transition) : String :=
  let names := t.intermediateIds.map fun e => joinIds (t.attached e)
  ",".intercalate (sortBy (fun a b => digitsVal a < digitsVal b) names)

def Transition.baseName (t : Transition) : String := "A^" ++ t.topologyId

/-- the topology proper (what `group_by_topology` compares). -/
def Transition.topo (t : Transition) : List Nat × List Edge :=
  (sortBy (· < ·) t.nodes, sortBy (fun a b => a.id < b.id) t.edges)

/-! ### naming through the C03 model -/

def toSt (s : EState) : St := ⟨s.name, s.label, s.hel2⟩

def Transition.c03Node (t : Transition) (n : Nat) : Node :=
  let p := (t.inEdges n).headD 0
  match t.outEdges n with
  | [a, b] => ⟨toSt (t.state p), toSt (t.state a), toSt (t.state b), (t.inter n).eta, (t.inter n).ls⟩
  | _ => default

def Transition.chain (t : Transition) : Chain := t.nodes.map t.c03Node

/-- `generate_amplitude_name` for the whole transition. -/
def Transition.amplitudeName (cfg : Config) (t : Transition) : String :=
  "; ".intercalate (t.chain.map fun nd =>
    let (c1, c2) := sortedChildren nd
    stateToStr nd.parent true ++ (if cfg.canonical then lsArrowStr nd else plainArrow)
      ++ stateToStr c1 true ++ " " ++ stateToStr c2 true)

def sortStates (l : List EState) : List EState := sortBy (fun a b => a.name < b.name) l

/-- `generate_transition_label`. -/
def Transition.label (t : Transition) : String :=
  let ini := sortStates (t.initialIds.map t.state)
  let fin := sortStates (t.finalIds.map t.state)
  stateToStr (toSt (ini.headD default)) true ++ plainArrow
    ++ " ".intercalate (fin.map fun s => stateToStr (toSt s) true)

/-- key of `group_by_spin_projection`: sorted `(name, projection)` of initial and final states. -/
def Transition.spinKey (t : Transition) : List (String × Int) × List (String × Int) :=
  let k (ids : List Int) := sortBy (fun (a b : String × Int) => a.1 < b.1 || (a.1 == b.1 && a.2 < b.2))
    (ids.map fun e => ((t.state e).name, (t.state e).hel2))
  (k t.initialIds, k t.finalIds)

/-! ### skeleton terms -/

structure DArgs where
  j2 : Int
  m2 : Int
  mu2 : Int
  phi : String
  theta : String
deriving Repr, BEq, DecidableEq, Inhabited

structure CGArgs where
  j1 : Int
  m1 : Int
  j2 : Int
  m2 : Int
  J : Int
  M : Int
deriving Repr, BEq, DecidableEq, Inhabited

/-- one call `builder(decay.parent.particle, variable_set)`: which builder, for which particle,
with which `TwoBodyKinematicVariableSet` (mass symbols of the decaying edge and of the two children
in helicity-child order, angular momentum, angle symbols). -/
structure DynArgs where
  builder : String
  particle : String
  mParent : String
  m1 : String
  m2 : String
  ell : Option Int
  phi : String
  theta : String
deriving Repr, BEq, DecidableEq, Inhabited

structure NodeFactor where
  d : DArgs
  cg : List CGArgs
  coupling : Option String
  dyn : Option DynArgs
deriving Repr, BEq, DecidableEq, Inhabited

/-- a `TwoBodyDecay` (the key of the `DynamicsSelector`): parent and children with their ids, and
the interaction. -/
structure DecayKey where
  parent : Int × EState
  child1 : Int × EState
  child2 : Int × EState
  inter : Inter
deriving Repr, DecidableEq, Inhabited

structure Term where
  prefactor : Int
  coeff : Option String
  nodes : List NodeFactor
deriving Repr, BEq, DecidableEq, Inhabited

/-- `TwoBodyDecay.from_transition` as a dictionary key. -/
def Transition.decayKey (t : Transition) (n : Nat) : DecayKey :=
  let (p, c1, c2) := t.decay n
  ⟨(p, t.state p), (c1, t.state c1), (c2, t.state c2), t.inter n⟩

/-- `get_invariant_mass_symbol`. -/
def Transition.massName (t : Transition) (e : Int) : String := "m_" ++ joinIds (t.attached e)

/-- the builder assigned to a particle name: the last `assign(name, builder)` wins; `none` is the
initial `create_non_dynamic` (factor 1). -/
def assignedBuilder (cfg : Config) (name : String) : Option String :=
  match cfg.dyn.reverse.find? (·.1 == name) with
  | some p => some p.2
  | none => none

/-- `_generate_kinematic_variable_set` + the builder call, for an assigned builder `b`. -/
def Transition.dynArgs (t : Transition) (n : Nat) (b : String) : DynArgs :=
  let (p, c1, c2) := t.decay n
  let sp := t.state p
  let suffix := t.boostSuffix c1
  let ell : Option Int :=
    match (t.inter n).ls with
    | some (l2, _) => some (Int.ofNat (l2 / 2))
    | none => if sp.spin2 % 2 == 0 then some (Int.ofNat (sp.spin2 / 2)) else none
  ⟨b, sp.name, t.massName p, t.massName c1, t.massName c2, ell, "phi" ++ suffix, "theta" ++ suffix⟩

/-- `__formulate_dynamics`: `1` when the decay is not a key of the selector, else the assigned
builder applied to the particle and the variable set. -/
def Transition.dynFactor (cfg : Config) (sel : List DecayKey) (t : Transition) (n : Nat) : Option DynArgs :=
  if t.decayKey n ∈ sel then
    (assignedBuilder cfg (t.state (t.decay n).1).name).map (t.dynArgs n)
  else none

/-- `formulate_isobar_wigner_d`, `formulate_isobar_cg_coefficients`, coupling symbol, dynamics for
one node. -/
def Transition.nodeFactor (cfg : Config) (sel : List DecayKey) (t : Transition) (n : Nat) : NodeFactor :=
  let (p, c1, c2) := t.decay n
  let sp := t.state p
  let s1 := t.state c1
  let s2 := t.state c2
  let suffix := t.boostSuffix c1
  let lam := s1.hel2 - s2.hel2
  let d : DArgs := ⟨sp.spin2, sp.hel2, lam, "phi" ++ suffix, "theta" ++ suffix⟩
  let cg : List CGArgs :=
    if cfg.canonical then
      match (t.inter n).ls with
      | some (l2, sc2) =>
        [⟨l2, 0, sc2, lam, sp.spin2, lam⟩, ⟨s1.spin2, s1.hel2, s2.spin2, -s2.hel2, sc2, lam⟩]
      | none => []
    else []
  let coupling := if cfg.couplings then some (couplingName cfg.flags (t.c03Node n)) else none
  ⟨d, cg, coupling, t.dynFactor cfg sel n⟩

/-- `__formulate_sequential_decay` for one graph, given the parity mapping, the prefactor rule and
the keys of the dynamics selector. -/
def Transition.term (v : Variant) (cfg : Config) (m : Mapping) (sel : List DecayKey) (t : Transition) : Term :=
  { prefactor := prefactorVal v cfg.flags m t.chain
    coeff := if cfg.couplings then none else some (coefficientName cfg.flags m t.chain)
    nodes := t.nodes.map (t.nodeFactor cfg sel) }

/-! ### identical-particle symmetrisation (qrules' combinatorics re-stated; compared, not trusted) -/

def insertEverywhere {α} (x : α) : List α → List (List α)
  | [] => [[x]]
  | y :: ys => (x :: y :: ys) :: (insertEverywhere x ys).map (y :: ·)

def perms {α} : List α → List (List α)
  | [] => [[]]
  | x :: xs => (perms xs).flatMap (insertEverywhere x)

def applyMap (σ : List (Int × Int)) (e : Int) : Int :=
  match σ.find? (·.1 == e) with
  | some p => p.2
  | none => e

/-- relabel the edges (and move the states along) by `σ`. -/
def Transition.relabel (t : Transition) (σ : List (Int × Int)) : Transition :=
  { t with edges := t.edges.map (fun e => { e with id := applyMap σ e.id })
           states := t.states.map (fun p => (applyMap σ p.1, p.2)) }

/-- all simultaneous relabelings of identical (same name) final-state edges. -/
def Transition.relabelings (t : Transition) : List (List (Int × Int)) :=
  let names := dedupFirst (t.finalIds.map fun e => (t.state e).name)
  names.foldl (fun acc nm =>
    let ids := t.finalIds.filter fun e => (t.state e).name == nm
    acc.flatMap fun σ => (perms ids).map fun p => σ ++ ids.zip p) [[]]

/-- which node each final-state id hangs on. -/
def Transition.attachment (t : Transition) : List (Int × Option Nat) :=
  t.finalIds.map fun e => (e, (t.edge? e).bind (·.orig))

/-- the graphs summed for one transition: one per distinct attachment of the ids. -/
def Transition.symmetrise (t : Transition) : List Transition :=
  let all := t.relabelings.map t.relabel
  let sigs := dedupFirst (all.map (·.attachment))
  sigs.filterMap fun s => all.find? (·.attachment == s)

/-! ### IMPL skeleton (line by line) -/

structure AmpDef where
  base : String
  idx : List Int
  terms : List Term
deriving Repr, BEq, DecidableEq, Inhabited

structure Skeleton where
  /-- the writes `amplitudes[symbol] = expression`, in order. -/
  writes : List AmpDef
  /-- `components["A_{…}"] = expression`. -/
  compA : List (String × Term)
  /-- `components["I_{…}"] = Σ |Σ …|²` (one coherent sum per outer projection tuple). -/
  compI : List (String × List (List Term))
  /-- bases of the amplitude symbols summed in the intensity (`NoAlignment.formulate_amplitude`). -/
  bases : List String
  /-- pools of the outer `PoolSum`: one per outer state id (symbol name, sorted doubled values). -/
  pools : List (String × List Int)
deriving Repr, BEq, DecidableEq, Inhabited

def groupByFirst {α κ} [DecidableEq κ] (key : α → κ) (l : List α) : List (List α) :=
  (dedupFirst (l.map key)).map fun k => l.filter fun x => key x = k

/-- cells: (spin group, topology) in the order the builder visits them. -/
def cellsOf (ts : List Transition) : List (List (List Transition)) :=
  (groupByFirst Transition.spinKey ts).map fun g => groupByFirst Transition.topo g

def cellTerms (v : Variant) (cfg : Config) (m : Mapping) (sel : List DecayKey) (c : List Transition) : List Term :=
  c.flatMap fun t => t.symmetrise.map (Transition.term v cfg m sel)

def poolName (initial : List Int) (e : Int) : String :=
  if initial.contains e then "m_A" else "m" ++ toString e

/-- `collect_spin_projections` + sorting of the pools. -/
def poolsOf (ts : List Transition) : List (String × List Int) :=
  match ts with
  | [] => []
  | t0 :: _ =>
    t0.outerIds.map fun e =>
      (poolName t0.initialIds e, sortBy (· < ·) (dedupFirst (ts.map fun t => (t.state e).hel2)))

/-- keys of `DynamicsSelector.__init__`: every node of every identical-particle combinatorics graph
of every transition (e918528). -/
def selectorKeys (ts : List Transition) : List DecayKey :=
  ts.flatMap fun t => t.symmetrise.flatMap fun g => g.nodes.map g.decayKey

/-- all graphs of a list of transitions, in the order the builder visits them. -/
def graphsOf (c : List Transition) : List Transition := c.flatMap Transition.symmetrise

/-- the coherent sums of a list of graphs: one per distinct per-id outer projection tuple, in
order of first appearance (the `expressions` dict of the repaired builder). -/
def byProjection (v : Variant) (cfg : Config) (m : Mapping) (sel : List DecayKey) (gs : List Transition) :
    List (List Int × List Term) :=
  (dedupFirst (gs.map Transition.outer)).map fun h =>
    (h, (gs.filter fun g => g.outer = h).map (Transition.term v cfg m sel))

/-- the writes `amplitudes[symbol] = …` of one (spin group, topology) cell.
`own = true`: every graph is registered under the amplitude symbol of ITS OWN per-id outer
projections (repaired builder). `own = false`: all graphs of the cell go under the symbol of the
cell's first transition (the builder up to 043d8fb). -/
def cellWrites (v : Variant) (own : Bool) (cfg : Config) (m : Mapping) (sel : List DecayKey)
    (c : List Transition) :
    List AmpDef :=
  if own then (byProjection v cfg m sel (graphsOf c)).map fun e =>
    { base := (c.headD default).baseName, idx := e.1, terms := e.2 }
  else [{ base := (c.headD default).baseName, idx := (c.headD default).outer, terms := cellTerms v cfg m sel c }]

def impl (v : Variant) (own : Bool) (cfg : Config) (ts : List Transition) : Skeleton :=
  let m := registerAll cfg.flags (ts.map Transition.chain)
  let sel := selectorKeys ts
  let groups := cellsOf ts
  let writes := groups.flatMap fun g => g.flatMap (cellWrites v own cfg m sel)
  let compA := groups.flatMap fun g => g.flatMap fun c => c.flatMap fun t =>
    t.symmetrise.map fun gr => ("A_{" ++ gr.amplitudeName cfg ++ "}", gr.term v cfg m sel)
  let compI := groups.map fun g =>
    ("I_{" ++ ((g.headD []).headD default).label ++ "}",
      if own then (byProjection v cfg m sel (g.flatMap graphsOf)).map (·.2)
      else [g.flatMap (cellTerms v cfg m sel)])
  { writes := writes, compA := compA, compI := compI
    bases := (groupByFirst Transition.topo ts).map fun c => (c.headD default).baseName
    pools := poolsOf ts }

/-- last write wins (`dict.__setitem__`). -/
def lookupLast (ws : List AmpDef) (b : String) (h : List Int) : List Term :=
  match (ws.reverse.find? fun w => w.base = b ∧ w.idx = h) with
  | some w => w.terms
  | none => []

/-- cartesian product of the pools (the index tuples of the outer `PoolSum`). -/
def product : List (List Int) → List (List Int)
  | [] => [[]]
  | p :: ps => p.flatMap fun x => (product ps).map (x :: ·)

def Skeleton.configs (s : Skeleton) : List (List Int) := product (s.pools.map (·.2))

/-! ### SPEC skeleton (the helicity formula of the property statement) -/

/-- child ordering as documented: the first child is the one whose attached final-state ids come
first; D-function and CG arguments as in the statement. -/
def Transition.specNode (cfg : Config) (t : Transition) (n : Nat) : NodeFactor :=
  let p := (t.inEdges n).headD 0
  let kids := sortBy (fun a b => lexLt (t.attached a) (t.attached b)) (t.outEdges n)
  let c1 := kids.headD 0
  let c2 := (kids.drop 1).headD 0
  let J := (t.state p).spin2
  let mP := (t.state p).hel2
  let l1 := (t.state c1).hel2
  let l2 := (t.state c2).hel2
  let ang := t.boostSuffix c1
  { d := ⟨J, mP, l1 - l2, "phi" ++ ang, "theta" ++ ang⟩
    cg := if cfg.canonical then
        match (t.inter n).ls with
        | some (L, S) => [⟨L, 0, S, l1 - l2, J, l1 - l2⟩,
                          ⟨(t.state c1).spin2, l1, (t.state c2).spin2, -l2, S, l1 - l2⟩]
        | none => []
      else []
    coupling := if cfg.couplings then some (couplingName cfg.flags (t.c03Node n)) else none
    -- "× the assigned lineshape": the builder assigned to the decaying particle, as a function of the
    -- invariant masses of the decaying state and of its two children, L and the helicity angles
    dyn := (assignedBuilder cfg (t.state p).name).map fun b =>
      ⟨b, (t.state p).name, t.massName p, t.massName c1, t.massName c2,
        (match (t.inter n).ls with
          | some (L, _) => some (Int.ofNat (L / 2))
          | none => if J % 2 == 0 then some (Int.ofNat (J / 2)) else none),
        "phi" ++ ang, "theta" ++ ang⟩ }

def Transition.specTerm (v : Variant) (cfg : Config) (m : Mapping) (t : Transition) : Term :=
  { prefactor := prefactorVal v cfg.flags m t.chain
    coeff := if cfg.couplings then none else some (coefficientName cfg.flags m t.chain)
    nodes := t.nodes.map (t.specNode cfg) }

structure Spec where
  /-- the outer projection tuples summed incoherently. -/
  configs : List (List Int)
  /-- every symmetrised graph of every transition with its own outer projections. -/
  graphs : List (List Int × Term)
deriving Repr, BEq, DecidableEq, Inhabited

def spec (v : Variant) (cfg : Config) (ts : List Transition) : Spec :=
  let m := registerAll cfg.flags (ts.map Transition.chain)
  { configs := product ((poolsOf ts).map (·.2))
    graphs := ts.flatMap fun t => t.symmetrise.map fun g => (g.outer, g.specTerm v cfg m) }

/-! ### the decidable side conditions of `C02_intensity` -/

/-- every node of the graph is a two-body decay. -/
def Transition.isobar (t : Transition) : Bool := t.nodes.all fun n => (t.outEdges n).length == 2

/-- side condition for the repaired builder (`own = true`):
    * every symmetrised graph is an isobar graph,
    * two transitions have the same amplitude base exactly when they have the same topology,
    * graphs of transitions of different spin groups have different per-id outer projections. -/
def wellFormed (ts : List Transition) : Bool :=
  ts.all (fun t => t.symmetrise.all Transition.isobar)
  && ts.all (fun a => ts.all fun b =>
      (decide (a.baseName = b.baseName) == decide (a.topo = b.topo))
      && (decide (a.spinKey = b.spinKey)
          || a.symmetrise.all fun g => b.symmetrise.all fun g' => !decide (g.outer = g'.outer)))

/-- additional condition under which the OLD builder (`own = false`) is right as well:
    * every symmetrised graph keeps the per-id outer projections of its transition,
    * transitions of one spin group have the same per-id outer projections. -/
def wellGrouped (ts : List Transition) : Bool :=
  ts.all (fun t => t.symmetrise.all fun g => g.outer == t.outer)
  && ts.all (fun a => ts.all fun b =>
      !decide (a.spinKey = b.spinKey) || decide (a.outer = b.outer))

/-! ### skeleton-level comparison (executable; used by the driver and by the witness) -/

def countIn (l : List Term) (x : Term) : Nat := (l.filter (· == x)).length

/-- per outer configuration the impl terms (over all bases) and the spec terms coincide as
multisets. -/
def skeletonsAgree (s : Skeleton) (p : Spec) : Bool :=
  s.configs == p.configs && s.configs.all fun h =>
    let a := s.bases.flatMap fun b => lookupLast s.writes b h
    let b := (p.graphs.filter (·.1 == h)).map (·.2)
    a.length == b.length && a.all fun x => countIn a x == countIn b x

end Ampverif.Model.C02
