/-
C05 — skeleton model of the aligned amplitude (no Mathlib; executable).

What `AxisAngleAlignment.formulate_amplitude` (helicity/align/axisangle.py),
`DalitzPlotDecomposition.formulate_amplitude` (helicity/align/dpd.py, `_formulate_aligned_amplitude`)
and `NoAlignment.formulate_amplitude` build for ONE topology, together with the outer
`PoolSum(|amplitude|², …)` of `HelicityAmplitudeBuilder.__formulate_top_expression`, reduced to
its wiring:

* `amp`     — the index list of the amplitude symbol `A[…]`, each entry an index variable with a sign
              (the `get_opposite_helicity_sign` factor of axis-angle),
* `factors` — one entry per Wigner-D/d factor: spin, row index `m`, column index `m'`, and WHICH
              rotation it is (helicity angles of an edge, Wigner rotation of a final state, DPD ζ angle),
* `sums`    — the summed index variables of the inner `PoolSum` with their pools, in order,
* `outer`   — the index variables of the outer incoherent sum with their pools.

A skeleton is produced in two steps: a per-state description (`Spec`: how the amplitude index of
one outer state is connected to the outer spin projection of that state) and `flatten`, which
invents the index variables. The theorems in `Lemmas/C05Wiring.lean` are about `flatten` of ANY
list of specs; `axisSpecs`/`dpdSpecs`/`noneSpecs` below say which specs the three alignments
use, and are what the correspondence run compares with the real expressions.
-/
import Ampverif.Model.C05Spin

namespace Ampverif.Model.C05Align
open Ampverif.Model

/-! ## index variables, rotations, skeletons -/

/-- `outer e` is the spin-projection symbol `m_e` of outer state `e` (`m_A` for the initial state
of an unrelabelled reaction); `inner k e` is the `k`-th summation index attached to state `e`
(axis-angle: `lambda_e^T, mu_e^T, nu_e^T, …`; DPD: `\lambda_e^`). -/
inductive Var where
  | outer (e : Int)
  | inner (level : Nat) (e : Int)
  deriving DecidableEq, Repr

/-- which rotation a Wigner factor performs (the angles themselves never matter for C05) -/
inductive Angle where
  | hel (e : Int)            -- `D(φ_e, θ_e, 0)`: helicity angles of edge `e`
  | wig (e : Int)            -- `D(α_e, β_e, γ_e)`: Wigner rotation of final state `e`
  | zeta (i j k : Int)       -- `d(ζ^i_{j(k)})`: DPD alignment angle
  deriving DecidableEq, Repr

structure Factor where
  j2 : Nat
  row : Var
  col : Var
  angle : Angle
  deriving DecidableEq, Repr

structure Skeleton where
  amp : List (Bool × Var)            -- (negated?, index variable)
  factors : List Factor
  sums : List (Var × List Int)
  outer : List (Var × List Int)
  deriving DecidableEq, Repr

/-- one rotation in the chain of a state. `transposed = false`: the factor is
`D(upper index, lower index)`; `true`: `D(lower index, upper index)` (DPD final states). -/
structure Link where
  j2 : Nat
  angle : Angle
  transposed : Bool
  deriving DecidableEq, Repr

/-- how one outer state enters the aligned amplitude -/
inductive Spec where
  /-- the amplitude index IS the outer spin projection (no rotation) -/
  | direct (e : Int) (opool : List Int)
  /-- the amplitude index `inner 0 e` (negated if `neg`) is summed over `pool` and connected to
  `outer e` through the chain of rotations `links` (innermost first); every intermediate index is
  summed over `pool`. `links = []` is the DPD spin-0 case: the index is summed and the factor is `1`. -/
  | chain (e : Int) (opool pool : List Int) (neg : Bool) (links : List Link)
  deriving Repr

def mkFactor (l : Link) (upper lower : Var) : Factor :=
  if l.transposed then ⟨l.j2, lower, upper, l.angle⟩ else ⟨l.j2, upper, lower, l.angle⟩

/-- factors of a chain whose lowest index is `inner k e`; the last link ends at `outer e` -/
def linkFactors (e : Int) : Nat → List Link → List Factor
  | _, [] => []
  | k, [l] => [mkFactor l (.outer e) (.inner k e)]
  | k, l :: l' :: rest => mkFactor l (.inner (k + 1) e) (.inner k e) :: linkFactors e (k + 1) (l' :: rest)

/-- the summed indices ABOVE level `k` of a chain -/
def linkSums (e : Int) (pool : List Int) : Nat → List Link → List (Var × List Int)
  | _, [] => []
  | _, [_] => []
  | k, _ :: l' :: rest => (.inner (k + 1) e, pool) :: linkSums e pool (k + 1) (l' :: rest)

def Spec.amp : Spec → Bool × Var
  | .direct e _ => (false, .outer e)
  | .chain e _ _ neg _ => (neg, .inner 0 e)

def Spec.factors : Spec → List Factor
  | .chain e _ _ _ links => linkFactors e 0 links
  | _ => []

def Spec.sums : Spec → List (Var × List Int)
  | .direct _ _ => []
  | .chain e _ pool _ links => (.inner 0 e, pool) :: linkSums e pool 0 links

def Spec.outer : Spec → Var × List Int
  | .direct e op => (.outer e, op)
  | .chain e op _ _ _ => (.outer e, op)

def Spec.state : Spec → Int
  | .direct e _ => e
  | .chain e _ _ _ _ => e

def flatten : List Spec → Skeleton
  | [] => ⟨[], [], [], []⟩
  | s :: rest =>
    let r := flatten rest
    ⟨s.amp :: r.amp, s.factors ++ r.factors, s.sums ++ r.sums, s.outer :: r.outer⟩

/-! ## topologies (qrules isobar topologies read as binary trees of edges) -/

inductive Tree where
  | leaf (id : Int)
  | node (id : Int) (a b : Tree)
  deriving Repr, Inhabited

namespace Tree
def id : Tree → Int
  | leaf i => i
  | node i _ _ => i

def leaves : Tree → List Int
  | leaf i => [i]
  | node _ a b => a.leaves ++ b.leaves
end Tree

def insertSorted (x : Int) : List Int → List Int
  | [] => [x]
  | y :: ys => if x ≤ y then x :: y :: ys else y :: insertSorted x ys

def sortInts : List Int → List Int
  | [] => []
  | x :: xs => insertSorted x (sortInts xs)

/-- Python `tuple(a) > tuple(b)` -/
def lexGt : List Int → List Int → Bool
  | [], _ => false
  | _ :: _, [] => true
  | x :: xs, y :: ys => if x > y then true else if x < y then false else lexGt xs ys

/-- `determine_attached_final_state` -/
def Tree.attached (t : Tree) : List Int := sortInts t.leaves

/-- the subtrees from the initial edge down to edge `e`, both included -/
def pathTo : Tree → Int → Option (List Tree)
  | .leaf i, e => if i = e then some [.leaf i] else none
  | .node i a b, e =>
    if i = e then some [.node i a b]
    else match pathTo a e with
      | some p => some (.node i a b :: p)
      | none => match pathTo b e with
        | some p => some (.node i a b :: p)
        | none => none

/-- One step of `get_helicity_rotation`: for edge `t` with decaying parent `p`, the edge whose
helicity angles are used: the sibling if `t` is the opposite-helicity state
(`is_opposite_helicity_state`: `attached(t) > attached(sibling)` as tuples), else `t` itself. -/
def angleEdge (p t : Tree) : Int × Bool :=
  match p with
  | .leaf _ => (t.id, false)
  | .node _ a b =>
    let sib := if a.id = t.id then b else a
    let opp := lexGt t.attached sib.attached
    (if opp then sib.id else t.id, opp)

/-- walk from the edge at the END of the path up to the child of the initial edge: for each edge
(innermost first) the edge whose helicity angles are used and whether it is an opposite-helicity state -/
def rotationsAlong : List Tree → List (Int × Bool)
  | [] => []
  | [_] => []
  | p :: t :: rest => rotationsAlong (t :: rest) ++ [angleEdge p t]

/-! ## the three alignments -/

/-- an outer state as the harness describes it: edge id, doubled spin, mass == 0, and the sorted
list of doubled spin projections that occur in the reaction's transitions -/
structure StateInfo where
  e : Int
  s2 : Nat
  massless : Bool
  observed : List Int
  deriving Repr

/-- `NoAlignment`: `A[m_A, m_0, m_1, …]` -/
def noneSpecs (states : List StateInfo) : List Spec :=
  states.map fun s => .direct s.e s.observed

/-- `formulate_rotation_chain` for final state `s`. `none` = the real code raises
(`ValueError` out of `create_spin_range`), or `s` is not an edge below the initial edge. -/
def axisChain (v : C05Spin.Variant) (t : Tree) (s : StateInfo) : Option Spec :=
  match pathTo t s.e with
  | none => none
  | some path =>
    match C05Spin.spinRange v s.s2 s.massless with
    | .ok pool =>
      match rotationsAlong path with
      | [] => none
      | (a, opp) :: more =>
        let rots := (a, opp) :: more
        let hel : List Link := rots.map fun r => ⟨s.s2, .hel r.1, false⟩
        let links := if rots.length ≥ 2 then hel ++ [⟨s.s2, .wig s.e, false⟩] else hel
        some (.chain s.e s.observed pool opp links)
    | _ => none

/-- one outer state of `AxisAngleAlignment.formulate_amplitude`: the initial state keeps its
projection symbol, every final state gets its rotation chain -/
def axisOne (v : C05Spin.Variant) (t : Tree) (s : StateInfo) : Option Spec :=
  if s.e = t.id then some (.direct s.e s.observed) else axisChain v t s

/-- `AxisAngleAlignment.formulate_amplitude` for one topology -/
def axisSpecs (v : C05Spin.Variant) (t : Tree) : List StateInfo → Option (List Spec)
  | [] => some []
  | s :: rest =>
    match axisOne v t s, axisSpecs v t rest with
    | some sp, some sps => some (sp :: sps)
    | _, _ => none

/-- `get_spectator_id`: the final state that is a direct child of the initial edge -/
def spectator : Tree → Option Int
  | .node _ (.leaf i) (.node _ _ _) => some i
  | .node _ (.node _ _ _) (.leaf i) => some i
  | _ => none

/-- one outer state of `_formulate_aligned_amplitude`: `1` for spin 0, else one Wigner-d,
`d(j0, m0, λ0')` for the initial state and `d(ji, λi', mi)` for final states; pools = observed -/
def dpdOne (ref sp : Int) (t : Tree) (s : StateInfo) : Spec :=
  if s.s2 = 0 then .chain s.e s.observed s.observed false []
  else .chain s.e s.observed s.observed false [⟨s.s2, .zeta s.e sp ref, s.e != t.id⟩]

/-- `_formulate_aligned_amplitude` (edge ids relabelled 0..3) for one topology -/
def dpdSpecs (ref : Int) (t : Tree) (states : List StateInfo) : Option (List Spec) :=
  match spectator t with
  | none => none
  | some sp => some (states.map (dpdOne ref sp t))

/-! ## rendering for the line protocol -/

def Var.render : Var → String
  | .outer e => s!"m:{e}"
  | .inner k e => s!"g{k}:{e}"

def Angle.render : Angle → String
  | .hel e => s!"hel:{e}"
  | .wig e => s!"wig:{e}"
  | .zeta i j k => s!"zeta:{i}:{j}:{k}"

def renderPool (p : List Int) : String := " ".intercalate (p.map toString)

def Skeleton.render (s : Skeleton) : List String :=
  ["amp " ++ " ".intercalate (s.amp.map fun (n, x) => (if n then "-" else "+") ++ x.render)]
  ++ s.factors.map (fun f => s!"factor {f.j2} {f.row.render} {f.col.render} {f.angle.render}")
  ++ s.sums.map (fun (x, p) => s!"sum {x.render} {renderPool p}")
  ++ s.outer.map (fun (x, p) => s!"outer {x.render} {renderPool p}")

/-! ## parsing of requests

`skel <none|axis|dpd1|dpd2|dpd3> <variant 0|1> <tree> <state>*`
tree  : `l<id>` | `n<id>(<tree>,<tree>)`        e.g. `n-1(l0,n3(l1,l2))`
state : `<edge>:<2·spin>:<massless 0|1>:<p>,<p>,…` (doubled observed projections)
-/

def takeInt (cs : List Char) : String × List Char :=
  let d := cs.takeWhile (fun c => c.isDigit || c == '-')
  (String.ofList d, cs.drop d.length)

def parseTree : Nat → List Char → Option (Tree × List Char)
  | 0, _ => none
  | fuel + 1, cs =>
    match cs with
    | 'l' :: rest =>
      let (d, rest) := takeInt rest
      d.toInt?.map fun i => (.leaf i, rest)
    | 'n' :: rest =>
      let (d, rest) := takeInt rest
      match d.toInt?, rest with
      | some i, '(' :: rest =>
        match parseTree fuel rest with
        | some (a, ',' :: rest) =>
          match parseTree fuel rest with
          | some (b, ')' :: rest) => some (.node i a b, rest)
          | _ => none
        | _ => none
      | _, _ => none
    | _ => none

def parseState (s : String) : Option StateInfo :=
  match s.splitOn ":" with
  | [e, s2, ml, pool] =>
    match e.toInt?, s2.toNat?, ml.toNat?, (pool.splitOn ",").mapM (·.toInt?) with
    | some e, some s2, some ml, some pool => some ⟨e, s2, ml != 0, pool⟩
    | _, _, _, _ => none
  | _ => none

def answer (line : String) : List String :=
  match (line.splitOn " ").filter (· ≠ "") with
  | "skel" :: align :: v :: tree :: states =>
    match v.toNat?, parseTree (tree.length + 1) tree.toList, states.mapM parseState with
    | some v, some (t, []), some sts =>
      let specs : Option (List Spec) :=
        match align with
        | "none" => some (noneSpecs sts)
        | "axis" => axisSpecs ⟨v != 0⟩ t sts
        | "dpd1" => dpdSpecs 1 t sts
        | "dpd2" => dpdSpecs 2 t sts
        | "dpd3" => dpdSpecs 3 t sts
        | _ => none
      match specs with
      | some sp => (flatten sp).render ++ ["done"]
      | none => ["error", "done"]
    | _, _, _ => ["bad-request", "done"]
  | _ => ["bad-request", "done"]

end Ampverif.Model.C05Align
