/-
C03 — executable, import-free model of the parity-partner machinery of ampform
(`helicity/naming.py`: `_state_to_str`, `_render_float`, `_get_coefficient_components`,
`generate_two_body_decay_suffix`, `__generate_amplitude_coefficient_couple`,
`__register_amplitude_coefficient_name`, `generate_sequential_amplitude_suffix`;
`helicity/decay.py`: `get_sorted_states`, `get_prefactor`;
`helicity/__init__.py`: `__generate_amplitude_coefficient`, `__generate_amplitude_prefactor`).

The model follows the source line by line (strings included). It is tied to the working tree
by the correspondence harness `tools/props/C03.py` through `Drivers/C03.lean`.
-/

namespace Ampverif.Model.C03

/-- A state as the name generator sees it: `particle.name` (sort key of `get_sorted_states`),
the printed label (`particle.latex` if present, else the name) and twice the spin projection. -/
structure St where
  name : String
  label : String
  hel2 : Int
deriving Repr, BEq, DecidableEq, Inhabited

/-- One decay node of one transition. `childA`, `childB` are in the iteration order of
`topology.get_edge_ids_outgoing_from_node`; `eta` is `interaction.parity_prefactor`
(`none` = `None`); `ls` is `(2·l_magnitude, 2·s_magnitude)` when present. -/
structure Node where
  parent : St
  childA : St
  childB : St
  eta : Option Int
  ls : Option (Nat × Nat)
deriving Repr, BEq, DecidableEq, Inhabited

/-- A decay chain: the nodes of a transition in the iteration order of `topology.nodes`. -/
abbrev Chain := List Node

/-- Naming flags. `lsArrow = true` is the canonical name generator with
`insert_ls_combinations = True`; `false` is the helicity generator (or the canonical one with
the flag switched off): both print the plain arrow. -/
structure Flags where
  parentHel : Bool
  childHel : Bool
  lsArrow : Bool
deriving Repr, BEq, DecidableEq, Inhabited

/-- The two places where the prefactor rule has been wrong.
`perFlippedNode = false` is the rule of the tree before ef9564d (product over ALL nodes as soon
as one node is a mapped partner). `guardOnFlipped = false` is the guard of ef9564d itself
(`get_prefactor(transition) != 1.0`, i.e. again the all-node product). -/
structure Variant where
  perFlippedNode : Bool
  guardOnFlipped : Bool
deriving Repr, BEq, DecidableEq, Inhabited

def Variant.sound (v : Variant) : Prop := v.perFlippedNode = true ∧ v.guardOnFlipped = true

instance (v : Variant) : Decidable v.sound := by unfold Variant.sound; exact inferInstance

/-! ### strings -/

/-- `str(sp.Rational(n/2))`. -/
def renderHalf (n : Int) : String :=
  if n % 2 == 0 then toString (n / 2) else toString n ++ "/2"

/-- `_render_float(n/2)`. -/
def renderHel (n : Int) : String :=
  if n > 0 then "+" ++ renderHalf n else renderHalf n

/-- `_state_to_str`. -/
def stateToStr (s : St) (useHel : Bool) (partner : Bool := false) : String :=
  if useHel then
    let h := if partner then -s.hel2 else s.hel2
    let base := if s.label.toList.any (· == '_') then "{" ++ s.label ++ "}" else s.label
    base ++ "_{" ++ renderHel h ++ "}"
  else s.label

/-- `get_sorted_states` on the two children: stable sort by `particle.name`. -/
def sortedChildren (n : Node) : St × St :=
  if n.childB.name < n.childA.name then (n.childB, n.childA) else (n.childA, n.childB)

def plainArrow : String := " \\to "

/-- `CanonicalAmplitudeNameGenerator.__generate_ls_arrow`. -/
def lsArrowStr (n : Node) : String :=
  match n.ls with
  | some (l2, s2) =>
    " \\xrightarrow[S=" ++ renderHalf (Int.ofNat s2) ++ "]{L=" ++ renderHalf (Int.ofNat l2) ++ "} "
  | none => " \\xrightarrow[S=None]{L=None} "

/-- `generate_two_body_decay_suffix`. -/
def rawSuffix (f : Flags) (n : Node) : String :=
  let (c1, c2) := sortedChildren n
  stateToStr n.parent f.parentHel
    ++ (if f.lsArrow then lsArrowStr n else plainArrow)
    ++ stateToStr c1 f.childHel ++ " " ++ stateToStr c2 f.childHel

/-- `pp_par_name_suffix` of `__generate_amplitude_coefficient_couple`. -/
def ppSuffix (n : Node) : String :=
  let (c1, c2) := sortedChildren n
  stateToStr n.parent false ++ plainArrow
    ++ stateToStr c1 true true ++ " " ++ stateToStr c2 true true

/-- the priority test of `__generate_amplitude_coefficient_couple`. -/
def partnerHasPriority (n : Node) : Bool :=
  let (c1, c2) := sortedChildren n
  c1.hel2 < 0 || (c1.hel2 == 0 && c2.hel2 < 0)

def prioritySuffix (f : Flags) (n : Node) : String :=
  if partnerHasPriority n then ppSuffix n else rawSuffix f n

/-! ### the mapping (a Python `dict[str, str]`, insertion ordered) -/

abbrev Mapping := List (String × String)

def Mapping.get? (m : Mapping) (k : String) : Option String :=
  match m with
  | [] => none
  | (a, b) :: rest => if a = k then some b else Mapping.get? rest k

def Mapping.has (m : Mapping) (k : String) : Bool := (m.get? k).isSome

/-- `m[k] = v`. -/
def Mapping.set (m : Mapping) (k v : String) : Mapping :=
  match m with
  | [] => [(k, v)]
  | (a, b) :: rest => if a = k then (a, v) :: rest else (a, b) :: Mapping.set rest k v

/-- `mapping.get(s, s)`. -/
def Mapping.mapped (m : Mapping) (s : String) : String := (m.get? s).getD s

/-- body of the loop of `__register_amplitude_coefficient_name` for one node. -/
def registerNode (f : Flags) (m : Mapping) (n : Node) : Mapping :=
  let coef := rawSuffix f n
  let pp := ppSuffix n
  let prio := prioritySuffix f n
  if n.eta.isNone then m
  else if m.has coef then m
  else if m.has pp then
    if pp = prio then m.set coef pp
    else (m.set pp coef).set coef coef
  else m.set coef coef

def registerChain (f : Flags) (m : Mapping) (c : Chain) : Mapping := c.foldl (registerNode f) m

/-- `_register_amplitude_coefficients`. -/
def registerAll (f : Flags) (ts : List Chain) : Mapping := ts.foldl (registerChain f) []

/-! ### coefficient name and prefactor -/

def mappedSuffixes (f : Flags) (m : Mapping) (c : Chain) : List String :=
  c.map fun n => m.mapped (rawSuffix f n)

/-- `generate_sequential_amplitude_suffix`. -/
def sequentialSuffix (f : Flags) (m : Mapping) (c : Chain) : String :=
  "; ".intercalate (mappedSuffixes f m c)

/-- name of the symbol made by `__generate_amplitude_coefficient`. -/
def coefficientName (f : Flags) (m : Mapping) (c : Chain) : String :=
  "C_{" ++ sequentialSuffix f m c ++ "}"

/-- name of the symbol made by `__generate_helicity_coupling`. -/
def couplingName (f : Flags) (n : Node) : String := "H_{" ++ rawSuffix f n ++ "}"

def etaVal (n : Node) : Int := n.eta.getD 1

/-- `get_prefactor`: product over ALL nodes. -/
def allProduct : Chain → Int
  | [] => 1
  | n :: rest => etaVal n * allProduct rest

/-- the node's raw suffix is mapped to a different suffix. -/
def isFlipped (f : Flags) (m : Mapping) (n : Node) : Bool :=
  m.mapped (rawSuffix f n) != rawSuffix f n

/-- product of `η` over the nodes that are mapped partners. -/
def flippedProduct (f : Flags) (m : Mapping) : Chain → Int
  | [] => 1
  | n :: rest => (if isFlipped f m n then etaVal n else 1) * flippedProduct f m rest

def anyFlipped (f : Flags) (m : Mapping) (c : Chain) : Bool := c.any (isFlipped f m)

/-- `__generate_amplitude_prefactor` (`none` = `None`). -/
def prefactor (v : Variant) (f : Flags) (m : Mapping) (c : Chain) : Option Int :=
  if v.perFlippedNode then
    let p := flippedProduct f m c
    let guard := if v.guardOnFlipped then p != 1 else allProduct c != 1
    if anyFlipped f m c && guard then some p else none
  else
    let p := allProduct c
    if p != 1 && anyFlipped f m c then some p else none

/-- the factor the chain's amplitude is multiplied with. -/
def prefactorVal (v : Variant) (f : Flags) (m : Mapping) (c : Chain) : Int :=
  (prefactor v f m c).getD 1

/-! ### the relation between two chains that the property talks about -/

/-- the chains get the same coefficient symbol (their per-node mapped suffixes coincide). -/
def sameCoefficient (f : Flags) (m : Mapping) (c₁ c₂ : Chain) : Bool :=
  mappedSuffixes f m c₁ == mappedSuffixes f m c₂

/-- product of `η` over the nodes at which the two chains differ (as the naming sees them). -/
def differingProduct (f : Flags) : Chain → Chain → Int
  | n₁ :: r₁, n₂ :: r₂ =>
    (if rawSuffix f n₁ != rawSuffix f n₂ then etaVal n₁ else 1) * differingProduct f r₁ r₂
  | _, _ => 1

/-- per-node side conditions: same length, same `η ∈ {+1, −1}` at corresponding nodes. -/
def compatible : Chain → Chain → Bool
  | n₁ :: r₁, n₂ :: r₂ =>
    etaVal n₁ == etaVal n₂ && (etaVal n₁ == 1 || etaVal n₁ == -1) && compatible r₁ r₂
  | [], [] => true
  | _, _ => false

/-- The hypothesis under which the registration loop yields a mapping in which every suffix
has at most one non-trivially mapped partner: whenever two nodes of the reaction have the same
partner suffix, and that suffix is the own suffix of some node, they have the same own suffix, and whenever a node's own suffix is another node's
partner suffix the converse holds as well. (Decidable; evaluated by the harness for every
reaction × flags. It holds whenever the printed names determine the helicities.) -/
def partnerInjective (f : Flags) (nodes : List Node) : Bool :=
  nodes.all fun a =>
    let ppa := ppSuffix a
    let isRaw := nodes.any fun c => rawSuffix f c == ppa
    nodes.all fun b =>
      (!(ppa == ppSuffix b) || !isRaw || rawSuffix f a == rawSuffix f b)
      && (!(rawSuffix f a == ppSuffix b) || ppa == rawSuffix f b)

end Ampverif.Model.C03
