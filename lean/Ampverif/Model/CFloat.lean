/-
Executable complex numbers over `Float` (import-free), used ONLY to validate the translator:
the `GenFloat/*.lean` twins of complex-valued generated definitions are evaluated with `CF`
and compared with numpy's complex128 evaluation of the real lambdified code.

The elementary functions follow numpy / C99 Annex G (principal branches, signed zeros):
* `sqrt`  — branch cut on the negative real axis, `sqrt(-x + 0i) = +i√x`, `sqrt(-x - 0i) = -i√x`;
* `log`   — `log|z| + i·atan2(im, re)`, so `log(-x + 0i) = log x + iπ`, `log(-x - 0i) = log x - iπ`;
* `div`   — Smith's algorithm in the form used by numpy's `complex128` loops;
* `powi`  — integer powers by binary powering, negative exponents as `1 / z^|n|`.
Never used in a theorem.
-/
namespace Ampverif

structure CF where
  re : Float
  im : Float

namespace CF

/-- IEEE sign bit (true for `-0.0` as well). -/
@[inline] def signbit (x : Float) : Bool := (x.toBits >>> 63) == 1

@[inline] def copysign (mag sgn : Float) : Float :=
  let a := Float.abs mag
  if signbit sgn then -a else a

@[inline] def hypot (a b : Float) : Float :=
  let x := Float.abs a
  let y := Float.abs b
  let big := if x ≥ y then x else y
  let small := if x ≥ y then y else x
  if big == 0.0 then 0.0
  else if big.isInf then big
  else
    let r := small / big
    big * Float.sqrt (1.0 + r * r)

def ofFloat (x : Float) : CF := ⟨x, 0.0⟩
def I : CF := ⟨0.0, 1.0⟩
def zero : CF := ⟨0.0, 0.0⟩
def one : CF := ⟨1.0, 0.0⟩

instance : Inhabited CF := ⟨zero⟩
instance : Add CF := ⟨fun a b => ⟨a.re + b.re, a.im + b.im⟩⟩
instance : Sub CF := ⟨fun a b => ⟨a.re - b.re, a.im - b.im⟩⟩
instance : Neg CF := ⟨fun a => ⟨-a.re, -a.im⟩⟩
instance : Mul CF := ⟨fun a b => ⟨a.re * b.re - a.im * b.im, a.re * b.im + a.im * b.re⟩⟩

/-- numpy's complex128 division. -/
def div (a b : CF) : CF :=
  let br := Float.abs b.re
  let bi := Float.abs b.im
  if br ≥ bi then
    if br == 0.0 && bi == 0.0 then ⟨a.re / br, a.im / br⟩
    else
      let rat := b.im / b.re
      let scl := 1.0 / (b.re + b.im * rat)
      ⟨(a.re + a.im * rat) * scl, (a.im - a.re * rat) * scl⟩
  else
    let rat := b.re / b.im
    let scl := 1.0 / (b.im + b.re * rat)
    ⟨(a.re * rat + a.im) * scl, (a.im * rat - a.re) * scl⟩

instance : Div CF := ⟨div⟩

def conj (a : CF) : CF := ⟨a.re, -a.im⟩
def abs (a : CF) : Float := hypot a.re a.im
def smul (x : Float) (a : CF) : CF := ⟨x * a.re, x * a.im⟩

/-- Principal square root (C99 `csqrt`, the algorithm of numpy's `npy_csqrt`). -/
def sqrt (z : CF) : CF :=
  let a := z.re
  let b := z.im
  if a == 0.0 && b == 0.0 then ⟨0.0, b⟩
  else if b.isInf then ⟨Float.abs b, b⟩
  else if a.isNaN then ⟨a, (b - b) / (b - b)⟩
  else if a.isInf then
    if signbit a then ⟨Float.abs (b - b), copysign a b⟩ else ⟨a, copysign (b - b) b⟩
  else if a ≥ 0.0 then
    let t := Float.sqrt ((a + hypot a b) * 0.5)
    ⟨t, b / (2.0 * t)⟩
  else
    let t := Float.sqrt ((-a + hypot a b) * 0.5)
    ⟨Float.abs b / (2.0 * t), copysign t b⟩

/-- Principal logarithm: `log|z| + i·atan2(im, re)` (signed zeros select the side of the cut). -/
def log (z : CF) : CF := ⟨Float.log (hypot z.re z.im), Float.atan2 z.im z.re⟩

def exp (z : CF) : CF :=
  let e := Float.exp z.re
  if z.im == 0.0 then ⟨e, z.im⟩ else ⟨e * Float.cos z.im, e * Float.sin z.im⟩

def cos (z : CF) : CF :=
  ⟨Float.cos z.re * Float.cosh z.im, -(Float.sin z.re * Float.sinh z.im)⟩

def sin (z : CF) : CF :=
  ⟨Float.sin z.re * Float.cosh z.im, Float.cos z.re * Float.sinh z.im⟩

/-- Integer power by binary powering (`z^0 = 1`), negative exponents as `1 / z^|n|`. -/
def powNat (z : CF) (n : Nat) : CF := Id.run do
  let mut r : CF := one
  let mut p : CF := z
  let mut k := n
  let mut first := true
  while k > 0 do
    if k % 2 == 1 then
      r := if first then p else r * p
      first := false
    k := k / 2
    if k > 0 then p := p * p
  return r

def powi (z : CF) (n : Int) : CF :=
  if n ≥ 0 then powNat z n.toNat else one / powNat z (-n).toNat

def isFinite (z : CF) : Bool := z.re.isFinite && z.im.isFinite

end CF
end Ampverif
