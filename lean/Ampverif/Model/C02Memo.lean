/-
C02 — a builder that formulates every two-body decay node only once per model, memoised by its
`TwoBodyDecay` (parent and children with their edge ids, particles, helicities; the interaction).

This is NOT what the library does (`__formulate_sequential_decay` formulates every node of every
graph on the graph's own topology); it is the model of a tempting "optimisation".  The key contains
everything about the node itself but not its ancestors, whereas the helicity angles of the node are
named after the whole boost chain above it (`get_boost_chain_suffix`: `phi_2^23` below the initial
state, `phi_2^23,023` below (023), `phi_2^23,023,0123` …).  `Props/C02.lean` proves on a concrete
four-body reaction with two topologies that the key does not determine the node factor
(`C02_witness_shared_subdecay`), and for all reactions that the library's node factor carries the
angles of the graph's own chain (`C02_node_angles`).

Core Lean only.
-/
import Ampverif.Model.C02Skeleton

namespace Ampverif.Model.C02
open Ampverif.Model.C03

/-- the cache of the memoising builder: first writer wins. -/
abbrev NodeCache := List (DecayKey × NodeFactor)

def NodeCache.lookup (c : NodeCache) (k : DecayKey) : Option NodeFactor :=
  match c.find? (fun p => decide (p.1 = k)) with
  | some p => some p.2
  | none => none

/-- node factors of one graph, every node looked up in / added to the cache. -/
def Transition.nodeFactorsMemo (cfg : Config) (sel : List DecayKey) (t : Transition) :
    List Nat → NodeCache → List NodeFactor × NodeCache
  | [], c => ([], c)
  | n :: ns, c =>
    match c.lookup (t.decayKey n) with
    | some f =>
      let r := t.nodeFactorsMemo cfg sel ns c
      (f :: r.1, r.2)
    | none =>
      let f := t.nodeFactor cfg sel n
      let r := t.nodeFactorsMemo cfg sel ns (c ++ [(t.decayKey n, f)])
      (f :: r.1, r.2)

/-- the terms of a list of graphs in the order the builder visits them, with ONE cache for the whole
`formulate()` call. -/
def termsMemo (v : Variant) (cfg : Config) (m : Mapping) (sel : List DecayKey) :
    List Transition → NodeCache → List Term
  | [], _ => []
  | g :: gs, c =>
    let r := g.nodeFactorsMemo cfg sel g.nodes c
    { g.term v cfg m sel with nodes := r.1 } :: termsMemo v cfg m sel gs r.2

/-- the library: every graph on its own topology. -/
def termsOwn (v : Variant) (cfg : Config) (m : Mapping) (sel : List DecayKey) (gs : List Transition) : List Term :=
  gs.map (Transition.term v cfg m sel)

/-- all graphs of a reaction in the order the builder visits them (spin groups, topologies,
transitions, identical-particle graphs). -/
def visitedGraphs (ts : List Transition) : List Transition :=
  (cellsOf ts).flatMap fun g => g.flatMap graphsOf

/-- the decidable condition under which memoising by `TwoBodyDecay` is harmless on a list of graphs:
equal keys have equal node factors (true for every three-body reaction without identical
particles, where the edge ids of a node fix its boost chain). -/
def keyDeterminesFactor (cfg : Config) (sel : List DecayKey) (gs : List Transition) : Bool :=
  gs.all fun g => g.nodes.all fun n => gs.all fun g' => g'.nodes.all fun n' =>
    !decide (g.decayKey n = g'.decayKey n') || decide (g.nodeFactor cfg sel n = g'.nodeFactor cfg sel n')

end Ampverif.Model.C02
