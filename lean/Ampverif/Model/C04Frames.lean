/-
C04 — executable model (import-free) of the helicity-frame recursion and of the Wigner-D call.

It follows `ampform.kinematics.angles.compute_helicity_angles`, `helicity.decay`
(`determine_attached_final_state`, `is_opposite_helicity_state`, `get_sibling_state_id`),
`helicity.naming.get_boost_chain_suffix` and `helicity.formulate_isobar_wigner_d` line by line,
including the opposite-helicity branch that fills the helicity state's angle symbols with the
momentum of the DECAYING opposite-helicity child (the C04/C07 known finding): the model describes
what the code does, `oppdecay` reports whether a topology contains that situation.

Frame-chain descriptors (S-expressions, no floats):
  mom   ::= p<i> | (sum mom …) | (amul (Bz (beta S)) (Ry (neg (Theta S))) (Rz (neg (Phi S))) mom)
  angle ::= (Phi mom) | (Theta mom)
`amul` lists the factors in the order of `ArrayMultiplication`; `(beta S)` stands for
`|p⃗(S)| / E(S)`.

Line protocol (stdin → stdout):
  topo e:o:t …          set the topology (edge id : originating node : ending node, `-` = none)
  angles                `A name=descriptor` for every symbol (sorted by name), then `end`
  wigner 2J 2M e:2λ e:2λ   the D-function of the node whose children are the two edges:
                        `D 2J 2M 2μ alpha=-phi… beta=theta… gamma=0`
  oppdecay              `oppdecay true|false`
  oppsign id            `sign ±1`: the sign with which the helicity of state `id` enters the aligned amplitude
                        symbol (`get_opposite_helicity_sign`)
  chain id 2s sfx       the Wigner-D functions of the axis-angle alignment sum of final state `id`
                        (`formulate_rotation_chain`), one `D 2s m=… mp=… alpha=… beta=… gamma=…` per line
                        (sorted), then `end`
  wchain id             `W n descr`: `compute_wigner_rotation_matrix(topology, momenta, id)` as
                        `(mmul (B (negp p<id>)) B₁ … B_n)` with `B_k = (B mom)` and the momenta boosted as
                        `(amul B_k mom)` after every step (`compute_boost_chain`); n = chain length
-/
namespace Ampverif.Model.C04Frames

structure Edge where
  id : Int
  orig : Option Nat
  dest : Option Nat
deriving Repr

abbrev Topo := List Edge

def insertSorted (x : Int) : List Int → List Int
  | [] => [x]
  | y :: ys => if x ≤ y then x :: y :: ys else y :: insertSorted x ys

def sortInts (l : List Int) : List Int := l.foldl (fun acc x => insertSorted x acc) []

def findEdge (t : Topo) (id : Int) : Option Edge := t.find? (fun e => e.id == id)

/-- ids of the edges leaving a node, ascending (`sorted(get_edge_ids_outgoing_from_node)`) -/
def childrenOf (t : Topo) (node : Nat) : List Int :=
  sortInts ((t.filter (fun e => e.orig == some node)).map (·.id))

/-- `determine_attached_final_state`: final-state ids below an edge, ascending -/
def attachedAux (t : Topo) : Nat → Int → List Int
  | 0, _ => []
  | fuel + 1, id =>
    match findEdge t id with
    | none => []
    | some e =>
      match e.dest with
      | none => [id]
      | some n => sortInts ((childrenOf t n).foldl (fun acc c => acc ++ attachedAux t fuel c) [])

def attached (t : Topo) (id : Int) : List Int := attachedAux t (t.length + 1) id

def siblingOf (t : Topo) (id : Int) : Option Int :=
  match findEdge t id with
  | none => none
  | some e =>
    match e.orig with
    | none => none
    | some n => (childrenOf t n).find? (fun c => c != id)

/-- Python tuple comparison `a > b` (lexicographic, then by length) -/
def tupleGt : List Int → List Int → Bool
  | [], _ => false
  | _ :: _, [] => true
  | a :: as, b :: bs => if a > b then true else if a < b then false else tupleGt as bs

/-- `is_opposite_helicity_state` -/
def isOpposite (t : Topo) (id : Int) : Bool :=
  match siblingOf t id with
  | none => false
  | some s => tupleGt (attached t id) (attached t s)

def isFinal (t : Topo) (id : Int) : Bool :=
  match findEdge t id with
  | some e => e.dest.isNone
  | none => true

def joinInts (l : List Int) : String := String.join (l.map toString)

/-- `get_boost_chain_suffix.recursive_label` -/
def labelAux (t : Topo) : Nat → Int → String
  | 0, _ => ""
  | fuel + 1, id =>
    match findEdge t id with
    | none => ""
    | some e =>
      let label := if e.dest.isNone then toString id else joinInts (attached t id)
      match e.orig with
      | none => label
      | some n =>
        match t.find? (fun p => p.dest == some n) with
        | none => label
        | some p => if p.orig.isNone then label else label ++ "," ++ labelAux t fuel p.id

def suffix (t : Topo) (id : Int) : String :=
  let label := labelAux t (t.length + 1) id
  match label.splitOn "," with
  | [] => "_"
  | [s] => "_" ++ s
  | s :: rest => "_" ++ s ++ "^" ++ ",".intercalate rest

abbrev Pool := List (Int × String)

def poolGet (p : Pool) (id : Int) : String :=
  match p.find? (fun kv => kv.1 == id) with
  | some kv => kv.2
  | none => "?"

abbrev Dict := List (String × String)

/-- `d[k] = v` (keeps the position of an existing key, like a Python dict) -/
def dictSet (d : Dict) (k v : String) : Dict :=
  if d.any (fun kv => kv.1 == k) then d.map (fun kv => if kv.1 == k then (k, v) else kv)
  else d ++ [(k, v)]

def dictUpdate (d e : Dict) : Dict := e.foldl (fun acc kv => dictSet acc kv.1 kv.2) d

def sumOf (ms : List String) : String := "(sum " ++ " ".intercalate ms ++ ")"

/-! ### the Wigner rotation matrix of the axis-angle alignment
(`kinematics/angles.py: compute_wigner_rotation_matrix`, `kinematics/lorentz.py: compute_boost_chain`,
`__get_boost_chain_ids`, `get_four_momentum_sum`; `helicity/decay.py: list_decay_chain_ids`, `get_parent_id`) -/

/-- `get_parent_id` -/
def parentId (t : Topo) (id : Int) : Option Int :=
  match findEdge t id with
  | none => none
  | some e =>
    match e.orig with
    | none => none
    | some n => (t.find? (fun p => p.dest == some n)).map (·.id)

/-- `list_decay_chain_ids`: the state, its parent, …, the initial state -/
def decayChainIds (t : Topo) : Nat → Int → List Int
  | 0, _ => []
  | fuel + 1, id =>
    id :: (match parentId t id with
      | none => []
      | some p => decayChainIds t fuel p)

/-- `next(iter(topology.incoming_edge_ids))` -/
def initialId (t : Topo) : Option Int :=
  (t.find? (fun e => e.orig.isNone && e.dest.isSome)).map (·.id)

/-- `__get_boost_chain_ids`: from the first resonance down to the state (initial state removed) -/
def boostChainIds (t : Topo) (id : Int) : List Int :=
  let ids := (decayChainIds t (t.length + 1) id).reverse
  match initialId t with
  | some i => ids.erase i
  | none => ids

/-- `get_four_momentum_sum` -/
def momentumSum (t : Topo) (id : Int) : String :=
  if isFinal t id then s!"p{id}" else sumOf ((attached t id).map (fun i => s!"p{i}"))

/-- `compute_boost_chain`: after every boost ALL momenta of the pool are boosted -/
def boostChainDescr (t : Topo) (id : Int) : List String :=
  let ids := boostChainIds t id
  let pool0 : Pool := ids.map (fun i => (i, momentumSum t i))
  let step := fun (st : Pool × List String) (cur : Int) =>
    let b := "(B " ++ poolGet st.1 cur ++ ")"
    (st.1.map (fun kv => (kv.1, "(amul " ++ b ++ " " ++ kv.2 ++ ")")), st.2 ++ [b])
  (ids.foldl step (pool0, [])).2

/-- `compute_wigner_rotation_matrix` -/
def wignerMatrixDescr (t : Topo) (id : Int) : String :=
  "(mmul (B (negp p" ++ toString id ++ ")) " ++ " ".intercalate (boostChainDescr t id) ++ ")"

/-- number of boosts in the chain (= depth of the state) -/
def wignerChainLength (t : Topo) (id : Int) : Nat := (boostChainIds t id).length

def chain (s inner : String) : String :=
  "(amul (Bz (beta " ++ s ++ ")) (Ry (neg (Theta " ++ s ++ "))) (Rz (neg (Phi " ++ s ++ "))) " ++ inner ++ ")"

/-- `__recursive_helicity_angles(four_momenta, node_id)` -/
def anglesAux (t : Topo) : Nat → Pool → Nat → Dict
  | 0, _, _ => []
  | fuel + 1, pool, node =>
    let cs := childrenOf t node
    let d0 : Dict :=
      if cs.all (isFinal t) then
        match cs with
        | c0 :: c1 :: _ =>
          let sid := if isOpposite t c0 then c1 else c0
          let m := poolGet pool sid
          let sfx := suffix t sid
          dictSet (dictSet [] ("phi" ++ sfx) ("(Phi " ++ m ++ ")")) ("theta" ++ sfx) ("(Theta " ++ m ++ ")")
        | _ => []
      else []
    cs.foldl (fun d sid =>
      match findEdge t sid with
      | none => d
      | some e =>
        match e.dest with
        | none => d
        | some n =>
          let sub := attached t sid
          if sub.length > 1 then
            let s := sumOf (sub.map (poolGet pool))
            let newPool : Pool := (pool.filter (fun kv => sub.contains kv.1)).map (fun kv => (kv.1, chain s kv.2))
            let nameId := if isOpposite t sid then (siblingOf t sid).getD sid else sid
            let sfx := suffix t nameId
            let d1 := dictSet (dictSet d ("phi" ++ sfx) ("(Phi " ++ s ++ ")")) ("theta" ++ sfx) ("(Theta " ++ s ++ ")")
            dictUpdate d1 (anglesAux t fuel newPool n)
          else d) d0

def finalIds (t : Topo) : List Int := sortInts ((t.filter (fun e => e.dest.isNone)).map (·.id))

def rootNode (t : Topo) : Option Nat :=
  match t.find? (fun e => e.orig.isNone) with
  | some e => e.dest
  | none => none

def helicityAngles (t : Topo) : Dict :=
  match rootNode t with
  | none => []
  | some n => anglesAux t (t.length + 1) ((finalIds t).map (fun i => (i, "p" ++ toString i))) n

/-- a decaying opposite-helicity child exists somewhere in the topology -/
def hasDecayingOpposite (t : Topo) : Bool :=
  t.any (fun e => e.orig.isSome && e.dest.isSome && isOpposite t e.id)

/-- `formulate_isobar_wigner_d`: children sorted so that the helicity state comes first; the
angle symbols are named after it; μ = λ(child 0) − λ(child 1); alpha = −phi, gamma = 0. -/
def wignerD (t : Topo) (twoJ twoM : Int) (c1 : Int × Int) (c2 : Int × Int) : String :=
  let (a, b) := if isOpposite t c1.1 then (c2, c1) else (c1, c2)
  let sfx := suffix t a.1
  s!"D {twoJ} {twoM} {a.2 - b.2} alpha=-phi{sfx} beta=theta{sfx} gamma=0"

/-- `__GREEK_INDEX_NAMES` of `helicity/align/axisangle.py` -/
def greek : List String := ["lambda", "mu", "nu", "xi", "alpha", "beta", "gamma"]

/-- the helicity rotations of `formulate_helicity_rotation_chain`: walking from the rotated state
up to the initial state, level k uses the angle symbols of the CURRENT state (of its sibling if
the current state is the opposite-helicity one) -/
def chainLevels (t : Topo) : Nat → Int → List (String × String)
  | 0, _ => []
  | fuel + 1, cur =>
    match findEdge t cur with
    | none => []
    | some e =>
      match e.orig with
      | none => []
      | some n =>
        let nameId := if isOpposite t cur then (siblingOf t cur).getD cur else cur
        let sfx := suffix t nameId
        let rest := match t.find? (fun p => p.dest == some n) with
          | none => []
          | some p => chainLevels t fuel p.id
        ("phi" ++ sfx, "theta" ++ sfx) :: rest

/-- `formulate_rotation_chain(transition, rotated_state_id)`: every Wigner-D of the alignment sum
of one final state (helicity rotations, plus the Wigner rotation when there are ≥ 2 of them);
`sfx` is the helicity suffix `_{id}^{topology identifier}` (given by the caller). -/
def rotationChain (t : Topo) (id twoS : Int) (sfx : String) : List String :=
  let lv := chainLevels t (t.length + 1) id
  let n := lv.length
  let hel := "m" ++ toString id
  let g (k : Nat) : String := greek.getD k "?"
  if n == 1 then
    lv.map (fun a => s!"D {twoS} m={hel} mp={g 0}{sfx} alpha={a.1} beta={a.2} gamma=0")
  else
    ((List.range n).zip lv).map (fun (k, a) =>
        s!"D {twoS} m={g (k + 1)}{sfx} mp={g k}{sfx} alpha={a.1} beta={a.2} gamma=0")
      ++ [s!"D {twoS} m={hel} mp={g n}{sfx} alpha=alpha{sfx} beta=beta{sfx} gamma=gamma{sfx}"]

def insertStr (x : String) : List String → List String
  | [] => [x]
  | y :: ys => if x < y then x :: y :: ys else y :: insertStr x ys

def sortStrs (l : List String) : List String := l.foldl (fun acc x => insertStr x acc) []

/-! ### line protocol -/

def parseOptNat (s : String) : Option Nat := if s == "-" then none else s.toNat?

def parseEdge (s : String) : Option Edge :=
  match s.splitOn ":" with
  | [a, b, c] => match a.toInt? with
    | some id => some ⟨id, parseOptNat b, parseOptNat c⟩
    | none => none
  | _ => none

def parsePair (s : String) : Option (Int × Int) :=
  match s.splitOn ":" with
  | [a, b] => match a.toInt?, b.toInt? with
    | some x, some y => some (x, y)
    | _, _ => none
  | _ => none

def strLt (a b : String) : Bool := a < b

def insertKV (x : String × String) : Dict → Dict
  | [] => [x]
  | y :: ys => if strLt x.1 y.1 then x :: y :: ys else y :: insertKV x ys

def sortDict (d : Dict) : Dict := d.foldl (fun acc x => insertKV x acc) []

def handle (t : Topo) (toks : List String) : Topo × List String :=
  match toks with
  | "topo" :: rest =>
    let es := rest.filterMap parseEdge
    if es.length == rest.length then (es, [s!"ok {es.length}"]) else (t, ["bad-topo"])
  | ["angles"] =>
    (t, (sortDict (helicityAngles t)).map (fun kv => "A " ++ kv.1 ++ "=" ++ kv.2) ++ ["end"])
  | ["oppdecay"] => (t, [s!"oppdecay {hasDecayingOpposite t}"])
  | ["oppsign", id] =>
    -- `get_opposite_helicity_sign`: −1 for an opposite-helicity state, +1 otherwise (incl. the initial state)
    match id.toInt? with
    | some id => (t, [s!"sign {if id != -1 && isOpposite t id then (-1 : Int) else 1}"])
    | none => (t, ["bad-oppsign"])
  | ["chain", id, twoS, sfx] =>
    match id.toInt?, twoS.toInt? with
    | some id, some twoS => (t, sortStrs (rotationChain t id twoS sfx) ++ ["end"])
    | _, _ => (t, ["bad-chain"])
  | ["wchain", id] =>
    match id.toInt? with
    | some id => (t, [s!"W {wignerChainLength t id} " ++ wignerMatrixDescr t id])
    | none => (t, ["bad-wchain"])
  | ["wigner", j, m, c1, c2] =>
    match j.toInt?, m.toInt?, parsePair c1, parsePair c2 with
    | some j, some m, some c1, some c2 => (t, [wignerD t j m c1 c2])
    | _, _, _, _ => (t, ["bad-wigner"])
  | _ => (t, ["bad-op"])

partial def loop (h : IO.FS.Stream) (t : Topo) : IO Unit := do
  let line ← h.getLine
  if line.isEmpty then return ()
  let toks := (line.trimAscii.toString.splitOn " ").filter (· ≠ "")
  if toks.isEmpty then loop h t
  else
    let (t', out) := handle t toks
    for o in out do IO.println o
    loop h t'

end Ampverif.Model.C04Frames

-- `main` (line-protocol entry point) lives in Ampverif/Drivers/C04Frames.lean
