/-
M5 / C16 — executable small-step model of `ampform.sympy.perform_cached_doit`
(src/ampform/sympy/__init__.py) over a POSIX-like directory, with crash points and
interleaved processes.  Import-free (core Lean only), total, computable.

What is modelled, line by line of the source:

    cache_directory.mkdir(exist_ok=True, parents=True)      -- no observable effect
    h = get_readable_hash(expr); filename = dir / f"{h}.pkl" -- `World.key mode expr`
    if filename.exists():                                    -- pc `started`  → `willOpen` | `willCompute`
        try:
            with open(filename, "rb") as f:                  -- pc `willOpen`  → `willLoad h` (h = inode held)
                cached_key, cached_expr = pickle.load(f)     -- pc `willLoad`
            if cached_key == expr: return cached_expr
        except Exception: warn                               -- `tolerant`
    unfolded = expr.doit()
    tmp = filename.with_name(f"{filename.name}.{os.getpid()}.tmp")
    with open(tmp, "wb") as f:                               -- pc `willCompute` → `writing h 0`
        pickle.dump((expr, unfolded), f)                     -- pc `writing h k`, one token per step
                                                             -- (k = length: close)
    os.replace(tmp, filename)                                -- pc `willRename`
    return unfolded

The file system has names, inodes and contents: `open(..., "wb")` truncates the inode the name
points to (or creates a fresh one); `os.replace` re-points the final name to the temp inode in
one step; a reader that has opened a file holds the *inode* and reads whatever that inode
contains when it loads.  Bytes are abstract tokens; a record is four tokens and `load` needs all
of them, so every strict prefix fails to load (probed on real pickles by the harness).
Expressions and values are ids; `World.key` is an ARBITRARY function (the two real ones,
`sha256 ∘ str` with a non-injective `str`, and the seeded `hash`, are instances: `World.ofHashes`).

Variant switches (one per defect site): `storesKey` (record = (expr, result) instead of the bare
result), `checksKey` (compare the stored expression with `World.keyEq`, the code's own `==`), `atomic` (temp file + os.replace),
`tolerant` (any load failure is a miss), `tempPerCaller` (temp name contains an id that is
unique among the concurrently running callers: `os.getpid()`).
-/
namespace Ampverif.Model.C16

abbrev Expr := Nat
abbrev Val := Nat

/-! ### bytes -/

inductive Tok where
  | hdr | key (e : Expr) | val (v : Val) | stop | zero | junk (n : Nat)
  deriving DecidableEq, Repr

abbrev Bytes := List Tok

/-- `pickle.dumps((expr, result))` -/
def serNew (e : Expr) (v : Val) : Bytes := [.hdr, .key e, .val v, .stop]
/-- `pickle.dumps(result)` (format written before commit 6f553a3) -/
def serOld (v : Val) : Bytes := [.hdr, .val v, .stop]

inductive Loaded where
  | pair (e : Expr) (v : Val) | bare (v : Val) | fail
  deriving DecidableEq, Repr

/-- `pickle.load`: reads up to the STOP token (bytes after it are ignored), fails otherwise. -/
def load : Bytes → Loaded
  | .hdr :: .key e :: .val v :: .stop :: _ => .pair e v
  | .hdr :: .val v :: .stop :: _ => .bare v
  | _ => .fail

/-- `write` of one token at offset `k` of a file (holes are zero-filled as on POSIX). -/
def writeAt : Bytes → Nat → Tok → Bytes
  | [], 0, t => [t]
  | [], k + 1, t => .zero :: writeAt [] k t
  | _ :: bs, 0, t => t :: bs
  | b :: bs, k + 1, t => b :: writeAt bs k t

/-! ### names, world, variant -/

/-- How the file name is derived: `PYTHONHASHSEED` unset (sha256 of `str`) or set to `s`. -/
inductive Mode where
  | sha | seeded (s : Nat)
  deriving DecidableEq, Repr

inductive Name where
  | final (m : Mode) (h : Nat)
  | temp (m : Mode) (h : Nat) (pid : Nat)
  | other (n : Nat)
  deriving DecidableEq, Repr

structure World where
  key : Mode → Expr → Nat
  doit : Expr → Val
  /-- `cached_key == expr` as the code evaluates it (`keyEq stored requested`): SymPy `==` of two
  `@unevaluated` expressions is decided by `_hashable_content`, i.e. by how the decorator represents
  non-SymPy attributes (`_get_hashable_object`).  It is a PARAMETER: it need be neither reflexive
  (a bound method unpickled from the record is not `==` to the one in the request) nor injective
  (classes are represented by their qualified name).  Default: identity of expressions. -/
  keyEq : Expr → Expr → Bool := fun a b => a == b

/-- The premise under which a key comparison may serve a stored record: it identifies two
expressions only when their unfoldings agree. -/
def World.KeyOk (w : World) : Prop := ∀ a b, w.keyEq a b = true → w.doit a = w.doit b

/-- The two real key functions: `sha256(str(expr))` and `hash(expr)` under a fixed seed. -/
def World.ofHashes (str : Expr → Nat) (sha : Nat → Nat) (pyhash : Nat → Expr → Nat)
    (doit : Expr → Val) : World :=
  { key := fun m e => match m with
      | .sha => sha (str e)
      | .seeded s => pyhash s e
    doit := doit }

structure Variant where
  storesKey : Bool
  checksKey : Bool
  atomic : Bool
  tolerant : Bool
  tempPerCaller : Bool
  deriving DecidableEq, Repr

def Variant.fixed : Variant := ⟨true, true, true, true, true⟩
/-- the code before commit 6f553a3 -/
def Variant.legacy : Variant := ⟨false, false, false, false, true⟩

def Variant.sound (v : Variant) : Prop := v = Variant.fixed

instance (v : Variant) : Decidable v.sound := inferInstanceAs (Decidable (v = _))

/-! ### state -/

structure FS where
  dir : Name → Option Nat
  ino : Nat → Bytes
  next : Nat

inductive PC where
  | idle
  | started (m : Mode) (e : Expr)
  | willOpen (m : Mode) (e : Expr)
  | willLoad (m : Mode) (e : Expr) (h : Nat)
  | willCompute (m : Mode) (e : Expr)
  | writing (m : Mode) (e : Expr) (h : Nat) (k : Nat)
  | willRename (m : Mode) (e : Expr)
  deriving DecidableEq, Repr

structure State where
  fs : FS
  pc : Nat → PC

inductive Outcome where
  | value (v : Val) | tuple | raised
  deriving DecidableEq, Repr

structure Event where
  p : Nat
  e : Expr
  out : Outcome
  deriving DecidableEq, Repr

inductive Op where
  | call (p : Nat) (m : Mode) (e : Expr)
  | step (p : Nat)
  | crash (p : Nat)
  deriving DecidableEq, Repr

def updDir (d : Name → Option Nat) (n : Name) (x : Option Nat) : Name → Option Nat :=
  fun n' => if n' = n then x else d n'

def updIno (f : Nat → Bytes) (h : Nat) (b : Bytes) : Nat → Bytes :=
  fun h' => if h' = h then b else f h'

def setPc (s : State) (p : Nat) (c : PC) : State :=
  { s with pc := fun q => if q = p then c else s.pc q }

def finalName (w : World) (m : Mode) (e : Expr) : Name := .final m (w.key m e)

def tempName (w : World) (v : Variant) (m : Mode) (e : Expr) (p : Nat) : Name :=
  .temp m (w.key m e) (if v.tempPerCaller then p else 0)

def payload (w : World) (v : Variant) (e : Expr) : Bytes :=
  if v.storesKey then serNew e (w.doit e) else serOld (w.doit e)

def target (w : World) (v : Variant) (m : Mode) (e : Expr) (p : Nat) : Name :=
  if v.atomic then tempName w v m e p else finalName w m e

def ret (s : State) (p : Nat) (e : Expr) (o : Outcome) : State × Option Event :=
  (setPc s p .idle, some ⟨p, e, o⟩)

def goto (s : State) (p : Nat) (c : PC) : State × Option Event :=
  (setPc s p c, none)

/-- what the load step does with the object it got -/
def afterLoad (w : World) (v : Variant) (s : State) (p : Nat) (m : Mode) (e : Expr) :
    Loaded → State × Option Event
  | .pair e' x =>
      if v.storesKey then
        if v.checksKey then
          if w.keyEq e' e then ret s p e (.value x) else goto s p (.willCompute m e)
        else ret s p e (.value x)
      else ret s p e .tuple
  | .bare x =>
      if v.storesKey then
        if v.tolerant then goto s p (.willCompute m e) else ret s p e .raised
      else ret s p e (.value x)
  | .fail => if v.tolerant then goto s p (.willCompute m e) else ret s p e .raised

/-- `open(name, "wb")`: truncate the inode behind an existing name, else create a fresh one. -/
def openTrunc (fs : FS) (n : Name) : FS × Nat :=
  match fs.dir n with
  | some h => ({ fs with ino := updIno fs.ino h [] }, h)
  | none => ({ dir := updDir fs.dir n (some fs.next), ino := updIno fs.ino fs.next [],
               next := fs.next + 1 }, fs.next)

/-- `os.replace(tmp, fin)` when `tmp` points to inode `h`. -/
def replace (fs : FS) (tmp fin : Name) (h : Nat) : FS :=
  { fs with dir := updDir (updDir fs.dir tmp none) fin (some h) }

/-- One step of process `p`. -/
def stepProc (w : World) (v : Variant) (s : State) (p : Nat) : State × Option Event :=
  match s.pc p with
  | .idle => (s, none)
  | .started m e =>
      match s.fs.dir (finalName w m e) with
      | some _ => goto s p (.willOpen m e)
      | none => goto s p (.willCompute m e)
  | .willOpen m e =>
      match s.fs.dir (finalName w m e) with
      | some h => goto s p (.willLoad m e h)
      | none => if v.tolerant then goto s p (.willCompute m e) else ret s p e .raised
  | .willLoad m e h => afterLoad w v s p m e (load (s.fs.ino h))
  | .willCompute m e =>
      let r := openTrunc s.fs (target w v m e p)
      (setPc { s with fs := r.1 } p (.writing m e r.2 0), none)
  | .writing m e h k =>
      match (payload w v e)[k]? with
      | some t =>
          (setPc { s with fs := { s.fs with ino := updIno s.fs.ino h (writeAt (s.fs.ino h) k t) } }
            p (.writing m e h (k + 1)), none)
      | none =>
          if v.atomic then goto s p (.willRename m e) else ret s p e (.value (w.doit e))
  | .willRename m e =>
      match s.fs.dir (tempName w v m e p) with
      | some h =>
          ret { s with fs := replace s.fs (tempName w v m e p) (finalName w m e) h } p e
            (.value (w.doit e))
      | none => ret s p e .raised

def applyOp (w : World) (v : Variant) (s : State) : Op → State × Option Event
  | .call p m e =>
      match s.pc p with
      | .idle => (setPc s p (.started m e), none)
      | _ => (s, none)
  | .step p => stepProc w v s p
  | .crash p => (setPc s p .idle, none)

/-- Run a history; returns the final state and the calls that returned/raised, in order. -/
def run (w : World) (v : Variant) : State → List Op → State × List Event
  | s, [] => (s, [])
  | s, op :: ops =>
      let r := applyOp w v s op
      let r' := run w v r.1 ops
      (r'.1, r.2.toList ++ r'.2)

def events (w : World) (v : Variant) (s : State) (ops : List Op) : List Event :=
  (run w v s ops).2

/-! ### initial directories -/

def emptyFS : FS := { dir := fun _ => none, ino := fun _ => [], next := 0 }

/-- add a file (used to describe what the directory held before) -/
def FS.addFile (fs : FS) (n : Name) (b : Bytes) : FS :=
  { dir := updDir fs.dir n (some fs.next), ino := updIno fs.ino fs.next b, next := fs.next + 1 }

def mkState (fs : FS) : State := { fs := fs, pc := fun _ => .idle }

def initState (files : List (Name × Bytes)) : State :=
  mkState (files.foldl (fun fs nb => if (fs.dir nb.1).isSome then fs else fs.addFile nb.1 nb.2) emptyFS)

/-- `n` steps of process `p` -/
def steps (p : Nat) (n : Nat) : List Op := List.replicate n (.step p)

end Ampverif.Model.C16
