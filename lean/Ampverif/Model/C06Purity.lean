/-
C06 — `formulate()` is a pure function of (reaction, configuration).

Hand-written, import-free, executable model of everything in ampform that can carry state
from one `HelicityAmplitudeBuilder.formulate()` call to the next:

* the process-global heap: the entries of every `functools.cache` / `lru_cache` of the package
  (`CacheId`), which hold their results BY REFERENCE (`Heap.objs`, addresses);
* the per-builder scratch state `_HelicityModelIngredients` and its `reset()`;
* the per-builder `BuilderConfiguration`, `DynamicsSelector`, name generator flags and the
  `HelicityAdapter` topology *set* (iteration order = explicit permutation, `Builder.iterOrder`);
* `formulate()` itself, line by line for the part that touches shared state
  (src/ampform/helicity/__init__.py, `formulate`): stable masses, scalar initial mass, the
  alignment-symbol loop with its IN-PLACE update `alignment_symbols[angle_symbol] = angle_expr`
  of the dict it got from `spin_alignment.define_symbols`, the final `update` and the sorting
  converters of `HelicityModel`.

Everything that is a pure function of its arguments in the source (amplitude generation,
Wigner-D products, topology angle formulas, …) is a field of `World`; the theorems quantify over
all worlds.  Defects / mutants are switches of `Variant`.

Identifiers of states are shifted by one (`model id = ampform id + 1`) so that the initial state
`-1` of an un-relabelled qrules reaction is `0`.
-/

namespace Ampverif.C06

/-! ## Insertion-ordered dictionaries (CPython `dict`) -/

section Dict
variable {κ : Type} {β : Type} [DecidableEq κ]

/-- `d[k]` (`none` = KeyError). -/
def dget : List (κ × β) → κ → Option β
  | [], _ => none
  | (k', v) :: t, k => if k' = k then some v else dget t k

/-- `d[k] = v`: an existing key keeps its position, a new key is appended. -/
def dset : List (κ × β) → κ → β → List (κ × β)
  | [], k, v => [(k, v)]
  | (k', v') :: t, k, v => if k' = k then (k', v) :: t else (k', v') :: dset t k v

/-- `del d[k]` (all occurrences; a dict has at most one). -/
def ddel : List (κ × β) → κ → List (κ × β)
  | [], _ => []
  | (k', v') :: t, k => if k' = k then ddel t k else (k', v') :: ddel t k

/-- `d.update(e)`. -/
def dupdate (d e : List (κ × β)) : List (κ × β) :=
  e.foldl (fun acc p => dset acc p.1 p.2) d

/-- `out = {}; for m in ms: out.update(m)` (HelicityAdapter.create_expressions). -/
def dmerge (ms : List (List (κ × β))) : List (κ × β) :=
  ms.foldl dupdate []

def dkeys (d : List (κ × β)) : List κ := d.map (·.1)

end Dict

/-! ## Sorting (Python's `sorted`: stable) and lexicographic comparison -/

/-- Lexicographic `≤` of Python lists/strings: first differing element decides, a proper prefix
is smaller. -/
def lexLe {α : Type} [DecidableEq α] (le : α → α → Bool) : List α → List α → Bool
  | [], _ => true
  | _ :: _, [] => false
  | a :: as, b :: bs => if a = b then lexLe le as bs else le a b

def insertBy {α : Type} (le : α → α → Bool) (a : α) : List α → List α
  | [] => [a]
  | b :: l => if le a b then a :: b :: l else b :: insertBy le a l

/-- Stable insertion sort: among elements that compare equal the earlier one stays first. -/
def isort {α : Type} (le : α → α → Bool) : List α → List α
  | [] => []
  | a :: l => insertBy le a (isort le l)

def natLe (a b : Nat) : Bool := Nat.ble a b

/-- remove later duplicates -/
def dedup {α : Type} [DecidableEq α] : List α → List α
  | [] => []
  | a :: l => a :: (dedup l).filter (fun b => !decide (b = a))

/-- canonical form of a set of naturals: sorted, no duplicates -/
def canonSet (l : List Nat) : List Nat := isort natLe (dedup l)

/-! ## The modelled `natural_sorting` (src/ampform/helicity/naming.py)

`re.split(r"[+-]?([0-9]+(?:[.][0-9]*)?|[.][0-9]+)", text)` followed by `float(...)` on the
captured pieces.  Characters are code points.  A number is kept exactly as
(integer part, fraction digits without trailing zeros), so that structural equality is numeric
equality and the order is the order of the `float`s (for ≤ 15 significant digits). -/

inductive Tok
  | txt (cs : List Nat)
  | num (ip : Nat) (frac : List Nat)
deriving DecidableEq, Repr

inductive ScanMode
  | text (rev : List Nat)
  | start                       -- directly after a dropped sign: a number starts here
  | int (ip : Nat)
  | frac (ip : Nat) (rev : List Nat)

def isDigit (c : Nat) : Bool := Nat.ble 48 c && Nat.ble c 57

def stripZerosRev : List Nat → List Nat
  | 0 :: t => stripZerosRev t
  | l => l

def mkNum (ip : Nat) (fracRev : List Nat) : Tok := .num ip (stripZerosRev fracRev).reverse

def headIsDigit : List Nat → Bool
  | c :: _ => isDigit c
  | [] => false

/-- does a number (without sign) start at the head of `cs`? -/
def numberStarts : List Nat → Bool
  | c :: cs => isDigit c || (c == 46 && headIsDigit cs)
  | [] => false

/-- the scanner; `fuel` bounds the (at most one per character) re-scans -/
def scan : Nat → ScanMode → List Nat → List Tok
  | 0, _, _ => []
  | _ + 1, .text rev, [] => [.txt rev.reverse]
  | _ + 1, .start, [] => [.txt []]
  | _ + 1, .int ip, [] => [.num ip [], .txt []]
  | _ + 1, .frac ip fr, [] => [mkNum ip fr, .txt []]
  | fuel + 1, .text rev, c :: cs =>
      if isDigit c then .txt rev.reverse :: scan fuel (.int (c - 48)) cs
      else if c == 46 && headIsDigit cs then
        .txt rev.reverse :: scan fuel (.frac 0 []) cs
      else if (c == 43 || c == 45) && numberStarts cs then
        .txt rev.reverse :: scan fuel .start cs
      else scan fuel (.text (c :: rev)) cs
  | fuel + 1, .start, c :: cs =>
      if isDigit c then scan fuel (.int (c - 48)) cs
      else scan fuel (.frac 0 []) cs          -- c = '.', followed by a digit
  | fuel + 1, .int ip, c :: cs =>
      if isDigit c then scan fuel (.int (ip * 10 + (c - 48))) cs
      else if c == 46 then scan fuel (.frac ip []) cs
      else .num ip [] :: scan fuel (.text []) (c :: cs)
  | fuel + 1, .frac ip fr, c :: cs =>
      if isDigit c then scan fuel (.frac ip ((c - 48) :: fr)) cs
      else mkNum ip fr :: scan fuel (.text []) (c :: cs)

/-- `natural_sorting(text)` -/
def natKey (text : List Nat) : List Tok := scan (2 * text.length + 2) (.text []) text

def tokLe : Tok → Tok → Bool
  | .txt a, .txt b => lexLe natLe a b
  | .num i f, .num j g => if i = j then lexLe natLe f g else natLe i j
  | .txt _, .num _ _ => true      -- never compared by Python on keys of this shape (TypeError)
  | .num _ _, .txt _ => false

def natKeyLe (a b : List Tok) : Bool := lexLe tokLe a b

/-- `≤` of the keys `(natural_sorting(name), name)` used by `_order_symbol_mapping` since 043d8fb:
ties of the natural sort are broken by the name itself -/
def nameLe (a b : List Nat) : Bool :=
  if natKey a = natKey b then lexLe natLe a b else natKeyLe (natKey a) (natKey b)

/-- `sorted(names, key=natural_sorting)` -/
def naturalSort (names : List (List Nat)) : List (List Nat) :=
  isort (fun a b => natKeyLe (natKey a) (natKey b)) names

/-! ## Symbols and expressions

Only what `formulate` inspects is kept: mass symbols `m_<ids>` (`kind = 0`), other symbols, and
for an expression the ordered list of its leaves.  `xreplace` with a dict of symbol definitions is
then leaf-wise. -/

structure Sym where
  kind : Nat
  ids : List Nat
deriving DecidableEq, Repr

def massSym (ids : List Nat) : Sym := ⟨0, ids⟩

inductive Atom
  | sym (s : Sym)
  | invMass (ids : List Nat)     -- InvariantMass(ArraySum(p_i, …)), ids sorted
  | other (tag : List Nat)       -- any other leaf
deriving DecidableEq, Repr

abbrev Expr := List Atom
abbrev SymDict := List (Sym × Expr)

/-- `expr.xreplace(defs)` (simultaneous, not repeated) -/
def xreplace (defs : SymDict) (e : Expr) : Expr :=
  e.flatMap (fun a => match a with
    | .sym s => (dget defs s).getD [a]
    | _ => [a])

/-- sorted, duplicate-free list of the mass symbols still free in `e`
(`sorted(free_symbols, key=str)` filtered on the `m_` prefix and nonnegativity) -/
def massSymsOf (e : Expr) : List (List Nat) :=
  isort (lexLe natLe) (dedup (e.filterMap (fun a => match a with
    | .sym ⟨0, ids⟩ => some ids
    | _ => none)))

/-! ## Configuration -/

inductive Align
  | none
  | axisAngle
  | dpd (k : Nat)
deriving DecidableEq, Repr

/-- the user-visible configuration of one builder -/
structure Cfg where
  align : Align := .none
  scalarInitial : Bool := false
  stable : Option (List Nat) := none     -- `_to_optional_set`: canonical set
  helCouplings : Bool := false
  dynamics : List (Nat × Nat) := []      -- particle ↦ dynamics builder (0 = create_non_dynamic = default, omitted)
  naming : Nat := 2                      -- bit 0: insert_parent_helicities, bit 1: insert_child_helicities (default: child only)
  topos : List Nat := []                 -- the adapter's registered topologies as a canonical set
deriving DecidableEq, Repr

inductive Field
  | align (a : Align)
  | scalarInitial (b : Bool)
  | stable (ids : Option (List Nat))
  | helCouplings (b : Bool)
  | dynamics (particle builder : Nat)
  | naming (flags : Nat)
deriving DecidableEq, Repr

def canonDyn (d : List (Nat × Nat)) : List (Nat × Nat) :=
  isort (fun a b => natLe a.1 b.1) (d.filter (fun p => p.2 != 0))

def Cfg.apply (c : Cfg) : Field → Cfg
  | .align a => { c with align := a }
  | .scalarInitial b => { c with scalarInitial := b }
  | .stable ids => { c with stable := ids.map canonSet }
  | .helCouplings b => { c with helCouplings := b }
  | .dynamics p b => { c with dynamics := canonDyn (dset c.dynamics p b) }
  | .naming f => { c with naming := f % 4 }

/-! ## The pure part of the library (`World`) -/

/-- every memoising function of the package (grep `functools.cache|lru_cache` in src/ampform) -/
inductive CacheId
  | dpdAligned          -- helicity/align/dpd.py  _formulate_aligned_amplitude(reaction, subsystem) → (Expr, dict)  MUTABLE dict
  | oppositeHelicity    -- helicity/decay.py      is_opposite_helicity_state(topology, state_id) → bool
  | spectatorId         -- helicity/decay.py      get_spectator_id(topology) → int
  | decayProductIds     -- helicity/decay.py      get_decay_product_ids(topology) → tuple
  | assertThreeBody     -- helicity/decay.py      assert_three_body_decay(topology) → None
  | boostChainSuffix    -- helicity/naming.py     get_boost_chain_suffix(topology, state_id) → str
  | blattWeisskopfPoly  -- dynamics/form_factor.py _get_polynomial_blatt_weisskopf(ell)  lru_cache(20) → function
  | sumIndices          -- dynamics/form_factor.py _get_indices(expr) → set (mutable, only tested for truth)
  | kmatrixCreate       -- dynamics/kmatrix.py    *._create_matrices(n_channels, …) → tuple of MutableDenseMatrix (not on the formulate path)
  | qrulesVersion       -- _qrules.py             get_qrules_version()  lru_cache(1) → tuple
deriving DecidableEq, Repr

/-- a heap object: an immutable payload and a mutable mapping payload -/
structure Obj where
  imm : List Nat
  dict : SymDict
deriving DecidableEq, Repr

inductive IngEntry
  | param (s : Sym) (v : List Nat)
  | amp (k v : List Nat)
  | comp (k v : List Nat)
deriving DecidableEq, Repr

structure World where
  /-- the value a memoised function computes for a key -/
  pureVal : CacheId → List Nat → Obj
  /-- the read-only memoised calls made while formulating `(reaction, cfg)` -/
  roCalls : Nat → Cfg → List (CacheId × List Nat)
  /-- registrations of `__formulate_top_expression` (amplitudes, components, coefficient /
  coupling / dynamics parameters) in source order -/
  topEntries : Nat → Cfg → List (List Nat) → List IngEntry
  /-- the top `PoolSum(|amplitude|², …)` -/
  intensity : Nat → Cfg → List Nat → List (List Nat) → List Nat
  /-- `formulate_amplitude` of the alignments that are not memoised (0 none, 1 axis-angle) -/
  alignAmp : Nat → Nat → List Nat
  /-- `AxisAngleAlignment.define_symbols(reaction)` (a new dict on every call) -/
  axisSyms : Nat → SymDict
  /-- error raised by `formulate_amplitude` for this reaction/alignment, if any -/
  alignError : Nat → Align → Option Nat
  /-- `compute_helicity_angles ∪ compute_invariant_masses` of one topology -/
  topoMap : Nat → Nat → SymDict
  ownTopos : Nat → List Nat
  /-- topologies of the identical-particle combinatorics, which `formulate` itself registers in
  the adapter (`__formulate_topology_amplitude`) before the kinematic variables are created -/
  combTopos : Nat → List Nat
  initialIds : Nat → List Nat
  finalIds : Nat → List Nat            -- sorted
  finalMass : Nat → Nat → List Nat
  initialMass : Nat → List Nat
  symName : Sym → List Nat             -- the name of a symbol (code points)
  ampKey : List Nat → List Nat         -- natural-sort key of `str(amplitude)`; ties happen (±)
  /-- the `sp.Indexed` atoms of the unfolded intensity (`__define_missing_amplitudes`), as a set in
  some canonical enumeration -/
  intensityAtoms : Nat → Cfg → List Nat → List (List Nat) → List (List Nat)
  ampStr : List Nat → List Nat         -- `str(amplitude symbol)` (code points)
  compKey : List Nat → List Nat

/-! ## Heap, builders, state -/

structure Heap where
  objs : List Obj := []
  cache : List ((CacheId × List Nat) × Nat) := []
deriving DecidableEq, Repr

def Heap.alloc (h : Heap) (o : Obj) : Heap × Nat :=
  ({ h with objs := h.objs ++ [o] }, h.objs.length)

/-- a call of a memoised function: hit → the stored reference, miss → compute, store, return -/
def Heap.call (w : World) (h : Heap) (cid : CacheId) (key : List Nat) : Heap × Nat :=
  match dget h.cache (cid, key) with
  | some a => (h, a)
  | none =>
    ({ objs := h.objs ++ [w.pureVal cid key], cache := h.cache ++ [((cid, key), h.objs.length)] },
     h.objs.length)

def Heap.obj (h : Heap) (a : Nat) : Obj := (h.objs[a]?).getD ⟨[], []⟩

def Heap.callAll (w : World) : Heap → List (CacheId × List Nat) → Heap × List (List Nat)
  | h, [] => (h, [])
  | h, ck :: rest =>
    let c := h.call w ck.1 ck.2
    let r := Heap.callAll w c.1 rest
    (r.1, (c.1.obj c.2).imm :: r.2)

/-- `_HelicityModelIngredients` (the `kinematic_variables` field is never used) -/
structure Ingr where
  params : List (Sym × List Nat) := []
  amps : List (List Nat × List Nat) := []
  comps : List (List Nat × List Nat) := []
deriving DecidableEq, Repr

def Ingr.add (g : Ingr) : IngEntry → Ingr
  | .param s v => { g with params := dset g.params s v }
  | .amp k v => { g with amps := dset g.amps k v }
  | .comp k v => { g with comps := dset g.comps k v }

structure Builder where
  reaction : Nat
  cfg : Cfg                 -- the builder's own BuilderConfiguration object
  user : Cfg                -- ghost: what the user configured on THIS builder
  ing : Ingr
  iterOrder : List Nat      -- the adapter's topology set in its current iteration order
deriving DecidableEq, Repr

structure Variant where
  /-- `define_symbols` hands out the memoised dict itself (pinned tree before b218b43) -/
  dpdSymbolsAliased : Bool
  /-- `formulate` starts with `ingredients.reset()` -/
  resetsIngredients : Bool
  /-- all builders use one module-level configuration object -/
  configShared : Bool
  /-- `_order_symbol_mapping` sorts by `(natural_sorting(name), name)` (since 043d8fb); before, by
  `natural_sorting(name)` alone, and ties (`m_1` / `m_01`) kept the merge order -/
  sortBreaksTies : Bool
  /-- `__define_missing_amplitudes` walks over `sorted(atoms, key=str)` (e6c0bd9); otherwise over the
  raw set, and the zero definitions enter the ingredients in set-iteration order -/
  missingSorted : Bool
deriving DecidableEq, Repr

def Variant.sound (v : Variant) : Prop :=
  v.dpdSymbolsAliased = false ∧ v.resetsIngredients = true ∧ v.configShared = false ∧
    v.sortBreaksTies = true ∧ v.missingSorted = true

instance (v : Variant) : Decidable v.sound := by unfold Variant.sound; exact inferInstance

def soundVariant : Variant := ⟨false, true, false, true, true⟩

structure State where
  heap : Heap := {}
  builders : List Builder := []
  globalCfg : Cfg := {}     -- the module-level default object (used when `configShared`)
deriving DecidableEq, Repr

def State.init : State := {}

/-! ## The model value -/

structure Model where
  intensity : List Nat
  amplitudes : List (List Nat × List Nat)
  params : List (Sym × List Nat)
  kin : SymDict
  components : List (List Nat × List Nat)
  reaction : Nat
deriving DecidableEq, Repr

inductive Output
  | ok (m : Model)
  | error (code : Nat)       -- 1 ValueError (alignment), 2 KeyError (stable id / missing mass symbol)
deriving DecidableEq, Repr

/-! ## `formulate`, the part after `__formulate_top_expression` -/

structure LoopState where
  ing : Ingr
  kin : SymDict
  syms : SymDict

/-- one mass symbol left in an alignment angle after the first `xreplace` -/
def massStep (w : World) (r : Nat) (cfg : Cfg) (st : Ingr × SymDict) (ids : List Nat) : Ingr × SymDict :=
  let isInitial := decide (canonSet ids = canonSet (w.initialIds r))
  if isInitial && cfg.scalarInitial then
    ({ st.1 with params := dset st.1.params (massSym ids) (w.initialMass r) }, st.2)
  else
    let ids' := if isInitial then w.finalIds r else ids
    let skip := match ids', cfg.stable with
      | [i], some s => s.contains i
      | _, _ => false
    if skip then st
    else (st.1, dset st.2 (massSym ids) [.invMass (canonSet ids')])

/-- body of `for angle_symbol, angle_expr in alignment_symbols.items()` -/
def alignStep (w : World) (r : Nat) (cfg : Cfg) (st : LoopState) (entry : Sym × Expr) : LoopState :=
  let e1 := xreplace st.kin entry.2
  let p := (massSymsOf e1).foldl (massStep w r cfg) (st.ing, st.kin)
  let e2 := xreplace p.2 e1
  { ing := p.1, kin := p.2, syms := dset st.syms entry.1 e2 }

/-- `for k in order: if k not in d: d[k] = zero` -/
def ddefaults {κ β : Type} [DecidableEq κ] (d : List (κ × β)) (zero : β) (order : List κ) : List (κ × β) :=
  order.foldl (fun acc k => if (dget acc k).isNone then dset acc k zero else acc) d

/-- `str(a) <= str(b)` for amplitude symbols -/
def strLe (w : World) (a b : List Nat) : Bool := lexLe natLe (w.ampStr a) (w.ampStr b)

/-- a proposed iteration order of the atoms set is accepted iff it enumerates the same set -/
def atomsOrderOf (w : World) (proposed atoms : List (List Nat)) : List (List Nat) :=
  if isort (strLe w) proposed = isort (strLe w) atoms then proposed else atoms

/-- the order in which `__define_missing_amplitudes` visits the atoms -/
def missingOrder (sorted : Bool) (w : World) (iter : List (List Nat)) : List (List Nat) :=
  if sorted then isort (strLe w) iter else iter

/-- `__define_missing_amplitudes`: amplitudes without transition are defined as zero -/
def defineMissing (g : Ingr) (order : List (List Nat)) : Ingr :=
  { g with amps := ddefaults g.amps [] order }

structure CoreResult where
  out : Output
  ing : Ingr
  syms : SymDict

def symLe (tieBreak : Bool) (w : World) (a b : Sym × Expr) : Bool :=
  if tieBreak then nameLe (w.symName a.1) (w.symName b.1)
  else natKeyLe (natKey (w.symName a.1)) (natKey (w.symName b.1))
def ampLe (w : World) (a b : List Nat × List Nat) : Bool := lexLe natLe (w.ampKey a.1) (w.ampKey b.1)
def compLe (w : World) (a b : List Nat × List Nat) : Bool := lexLe natLe (w.compKey a.1) (w.compKey b.1)

/-- the alignment-symbol loop, the final `update` and the `HelicityModel` converters -/
def coreTail (tieBreak : Bool) (w : World) (r : Nat) (cfg : Cfg) (amp : List Nat)
    (obs : List (List Nat)) (ing3 : Ingr) (syms : SymDict) (kin2 : SymDict) : CoreResult :=
  let st := syms.foldl (alignStep w r cfg) { ing := ing3, kin := kin2, syms := syms }
  let kin4 := dupdate st.kin st.syms
  { out := .ok
      { intensity := w.intensity r cfg amp obs
        amplitudes := isort (ampLe w) st.ing.amps
        params := st.ing.params
        kin := isort (symLe tieBreak w) kin4
        components := isort (compLe w) st.ing.comps
        reaction := r }
    ing := st.ing
    syms := st.syms }

/-- `formulate()` from the point where the alignment amplitude and symbol dict are in hand.
`syms` is the dict object that `define_symbols` returned (its final content is `CoreResult.syms`
— the caller decides which heap object that is). -/
def core (tieBreak : Bool) (w : World) (r : Nat) (cfg : Cfg) (ing0 : Ingr) (amp : List Nat)
    (obs : List (List Nat)) (zeroOrder : List (List Nat)) (syms : SymDict) (kin0 : SymDict) : CoreResult :=
  let ing1 := defineMissing ((w.topEntries r cfg obs).foldl Ingr.add ing0) zeroOrder
  let stableIds := cfg.stable.getD []
  if stableIds.any (fun i => !(w.finalIds r).contains i) then
    { out := .error 2, ing := ing1, syms := syms }
  else if stableIds.any (fun i => (dget kin0 (massSym [i])).isNone) then
    { out := .error 2, ing := ing1, syms := syms }
  else
  let ing2 := stableIds.foldl
    (fun g i => { g with params := dset g.params (massSym [i]) (w.finalMass r i) }) ing1
  let kin1 := stableIds.foldl (fun k i => ddel k (massSym [i])) kin0
  let all := w.finalIds r
  if cfg.scalarInitial && (dget kin1 (massSym all)).isNone then
    { out := .error 2, ing := ing2, syms := syms }
  else
  let ing3 : Ingr := if cfg.scalarInitial then
      { ing2 with params := dset ing2.params (massSym all) (w.initialMass r) } else ing2
  let kin2 := if cfg.scalarInitial then ddel kin1 (massSym all) else kin1
  coreTail tieBreak w r cfg amp obs ing3 syms kin2

def kinMerge (w : World) (r : Nat) (order : List Nat) : SymDict :=
  dmerge (order.map (w.topoMap r))

/-! ## The specification: the model as a function of (reaction, configuration) only -/

def pureObs (w : World) (r : Nat) (cfg : Cfg) : List (List Nat) :=
  (w.roCalls r cfg).map (fun ck => (w.pureVal ck.1 ck.2).imm)

def pureAmp (w : World) (r : Nat) : Align → List Nat
  | .none => w.alignAmp r 0
  | .axisAngle => w.alignAmp r 1
  | .dpd k => (w.pureVal .dpdAligned [r, k]).imm

def pureSyms (w : World) (r : Nat) : Align → SymDict
  | .none => []
  | .axisAngle => w.axisSyms r
  | .dpd k => (w.pureVal .dpdAligned [r, k]).dict

/-- `formulate` registers the topologies of the identical-particle combinatorics in the adapter
before anything else looks at the adapter -/
def closeCfg (w : World) (r : Nat) (cfg : Cfg) : Cfg :=
  { cfg with topos := canonSet (cfg.topos ++ w.combTopos r) }

/-- the model of `(reaction, configuration)`: no heap, no builder, no history -/
def F (w : World) (r : Nat) (cfg0 : Cfg) : Output :=
  let cfg := closeCfg w r cfg0
  match w.alignError r cfg.align with
  | some e => .error e
  | none =>
    (core true w r cfg {} (pureAmp w r cfg.align) (pureObs w r cfg)
      (isort (strLe w) (w.intensityAtoms r cfg (pureAmp w r cfg.align) (pureObs w r cfg)))
      (pureSyms w r cfg.align) (kinMerge w r cfg.topos)).out

/-! ## The state machine -/

inductive Op
  | newBuilder (r : Nat) (order : List Nat)
  | configure (b : Nat) (f : Field)
  | configureBad (b : Nat) (code : Nat)          -- rejected by a validator: TypeError/ValueError, no change
  | register (b : Nat) (topo : Nat) (order : List Nat)   -- adapter.register_topology; new iteration order
  /-- `order`: iteration order of the adapter set after formulate's own registrations;
  `atoms`: iteration order of the set `atoms(sp.Indexed)` of the unfolded intensity -/
  | formulate (b : Nat) (order : List Nat) (atoms : List (List Nat))
  | evict (n : Nat)                              -- lru_cache eviction / cache_clear of one entry
deriving DecidableEq, Repr

/-- a proposed iteration order is accepted iff it enumerates exactly the set -/
def orderOf (proposed set : List Nat) : List Nat :=
  if isort natLe proposed = set then proposed else set

def effCfg (v : Variant) (s : State) (b : Builder) : Cfg :=
  if v.configShared then { s.globalCfg with topos := b.cfg.topos } else b.cfg

/-- `spin_alignment.formulate_amplitude(reaction)` and `.define_symbols(reaction)`:
the amplitude and the ADDRESS of the symbol dict that formulate will update in place -/
def alignPhase (v : Variant) (w : World) (h : Heap) (r : Nat) : Align → Heap × List Nat × Nat
  | .none => ((h.alloc ⟨[], []⟩).1, w.alignAmp r 0, (h.alloc ⟨[], []⟩).2)
  | .axisAngle => ((h.alloc ⟨[], w.axisSyms r⟩).1, w.alignAmp r 1, (h.alloc ⟨[], w.axisSyms r⟩).2)
  | .dpd k =>
    let c := h.call w .dpdAligned [r, k]
    if v.dpdSymbolsAliased then (c.1, (c.1.obj c.2).imm, c.2)
    else ((c.1.alloc ⟨[], (c.1.obj c.2).dict⟩).1, (c.1.obj c.2).imm,
          (c.1.alloc ⟨[], (c.1.obj c.2).dict⟩).2)

def formulate (v : Variant) (w : World) (s : State) (i : Nat) (b0 : Builder) (order : List Nat)
    (atomPerm : List (List Nat)) : State × Output :=
  let r := b0.reaction
  -- `self.__adapter.register_topology(first_transition.topology)` for every combinatorics graph
  let b : Builder :=
    { b0 with user := closeCfg w r b0.user
              cfg := closeCfg w r b0.cfg
              iterOrder := orderOf order (closeCfg w r b0.cfg).topos }
  let cfg := effCfg v s b
  let ing0 : Ingr := if v.resetsIngredients then {} else b.ing
  let hobs := Heap.callAll w s.heap (w.roCalls r cfg)
  match w.alignError r cfg.align with
  | some e =>
    -- `__register_amplitudes` has run, `formulate_amplitude` raised
    let ing1 := (w.topEntries r cfg hobs.2).foldl Ingr.add ing0
    ({ s with heap := hobs.1, builders := s.builders.set i { b with ing := ing1 } }, .error e)
  | none =>
    let ph := alignPhase v w hobs.1 r cfg.align
    let h2 := ph.1
    let addr := ph.2.2
    let zeroOrder := missingOrder v.missingSorted w
      (atomsOrderOf w atomPerm (w.intensityAtoms r cfg ph.2.1 hobs.2))
    let res := core v.sortBreaksTies w r cfg ing0 ph.2.1 hobs.2 zeroOrder (h2.obj addr).dict
      (kinMerge w r b.iterOrder)
    let h3 : Heap := { h2 with objs := h2.objs.set addr { h2.obj addr with dict := res.syms } }
    ({ s with heap := h3, builders := s.builders.set i { b with ing := res.ing } }, res.out)

def step (v : Variant) (w : World) (s : State) : Op → State × Option Output
  | .newBuilder r order =>
    let set := canonSet (w.ownTopos r)
    let c : Cfg := { topos := set }
    ({ s with builders := s.builders ++ [⟨r, c, c, {}, orderOf order set⟩] }, none)
  | .configure i f =>
    match s.builders[i]? with
    | none => (s, none)
    | some b =>
      let b' : Builder := { b with user := b.user.apply f }
      if v.configShared then
        ({ s with globalCfg := s.globalCfg.apply f, builders := s.builders.set i b' }, none)
      else
        ({ s with builders := s.builders.set i { b' with cfg := b.cfg.apply f } }, none)
  | .configureBad _ _ => (s, none)
  | .register i t order =>
    match s.builders[i]? with
    | none => (s, none)
    | some b =>
      let set := canonSet (t :: b.user.topos)
      let b' : Builder :=
        { b with user := { b.user with topos := set }, cfg := { b.cfg with topos := set }
                 iterOrder := orderOf order set }
      ({ s with builders := s.builders.set i b' }, none)
  | .formulate i order atoms =>
    match s.builders[i]? with
    | none => (s, none)
    | some b => let (s', o) := formulate v w s i b order atoms; (s', some o)
  | .evict n => ({ s with heap := { s.heap with cache := s.heap.cache.eraseIdx n } }, none)

/-- run a history; the outputs of its formulate operations in order -/
def run (v : Variant) (w : World) : State → List Op → List (Option Output)
  | _, [] => []
  | s, op :: rest => let (s', o) := step v w s op; o :: run v w s' rest

/-- "every formulate operation of the history returns the model of (its builder's reaction, what
the user configured on that builder at that time)" -/
def OutputsPure (v : Variant) (w : World) : State → List Op → Prop
  | _, [] => True
  | s, op :: rest =>
    (match op with
      | .formulate i _ _ => ∀ b, s.builders[i]? = some b →
          (step v w s op).2 = some (F w b.reaction b.user)
      | _ => True) ∧ OutputsPure v w (step v w s op).1 rest

end Ampverif.C06
