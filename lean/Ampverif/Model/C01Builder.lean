/-
C01 — executable, import-free model of `HelicityAmplitudeBuilder.formulate` on SYMBOL SETS.

Follows /repo/src/ampform/helicity/__init__.py (formulate, __formulate_top_expression,
__define_missing_amplitudes, __register_amplitudes, __formulate_topology_amplitude,
__formulate_sequential_decay, __formulate_dynamics, _generate_kinematic_variable_set),
helicity/naming.py (name generators incl. the parity-partner registration loop,
get_boost_chain_suffix, get_topology_identifier, collect_spin_projections), helicity/decay.py
(TwoBodyDecay.from_transition, is_opposite_helicity_state, group_by_*), helicity/align/*
(index wiring of the three alignments, zeta / Wigner angle symbols), kinematics/__init__.py
(HelicityAdapter.create_expressions), kinematics/angles.py (which symbols
compute_helicity_angles registers; which mass symbols each zeta expression mentions),
kinematics/lorentz.py (compute_invariant_masses, get_invariant_mass_symbol) and
dynamics/builder.py (free symbols / parameters of the library's builders).

What is NOT modelled but taken as input (executed by the harness, see DESIGN 2.8): qrules'
identical-particle combinatorics (every transition comes with its list of `chains`), the
iteration order of small-int sets (ascending), SymPy's `free_symbols`.

Names are lists of code points (`List Nat`) so that every function is kernel-reducible
(`decide` witnesses) and prefix reasoning is elementary.
-/

namespace Ampverif.Model.C01

abbrev Name := List Nat

open Lean in
/-- `n!"abc"` = the list of code points of the literal. -/
macro:max "n!" s:str : term => do
  let cs : Array (TSyntax `term) :=
    (s.getString.toList.map (fun c => (⟨Syntax.mkNumLit (toString c.toNat)⟩ : TSyntax `term))).toArray
  `(([$cs,*] : List Nat))

/-! ## Variants (one switch per defect site) -/

/-- which amplitude symbols without a transition get the definition 0 -/
inductive ZeroMode where
  /-- before fix 5659807: none -/
  | none
  /-- fix 5659807: the product of the OBSERVED projections per topology -/
  | product
  /-- fix e6c0bd9: every Indexed atom of the fully unfolded intensity -/
  | refs
deriving Repr, DecidableEq

structure Variant where
  zeroDefs : ZeroMode
  /-- fix 2671c82 (finding F1): topologies of the identical-particle combinatorics chains are registered in the adapter -/
  regCombTopos : Bool
  /-- fix e918528 (finding F3): the dynamics selector also knows the decays of the combinatorics chains -/
  selCoversComb : Bool
  /-- fix f1f7ff8: every combinatorics chain is registered under the amplitude symbol of ITS OWN outer
  projections (before: everything of a group x topology under the symbol of the first transition) -/
  perChainSyms : Bool := true
deriving Repr, DecidableEq

/-- the variant under which C01 holds for every alignment -/
def Variant.sound (v : Variant) : Prop := v.zeroDefs = .refs ∧ v.regCombTopos = true

instance (v : Variant) : Decidable v.sound := by unfold Variant.sound; infer_instance

/-! ## Generic list helpers (structural, so that the kernel can evaluate them) -/

def insertBy {α} (lt : α → α → Bool) (x : α) : List α → List α
  | [] => [x]
  | y :: ys => if lt y x then y :: insertBy lt x ys else x :: y :: ys

/-- stable insertion sort (Python's `sorted` is stable) -/
def sortBy {α} (lt : α → α → Bool) : List α → List α
  | [] => []
  | x :: xs => insertBy lt x (sortBy lt xs)

def dedup {α} [DecidableEq α] : List α → List α
  | [] => []
  | x :: xs => let r := dedup xs; if x ∈ r then r else x :: r

/-- order-preserving dedup keeping the FIRST occurrence (dict / set insertion order) -/
def dedupFirst {α} [DecidableEq α] (xs : List α) : List α :=
  (xs.foldl (fun acc x => if x ∈ acc then acc else x :: acc) []).reverse

def joinNames (sep : Name) : List Name → Name
  | [] => []
  | [x] => x
  | x :: y :: rest => x ++ sep ++ joinNames sep (y :: rest)

/-- dict update: overwrite in place, else append -/
def dictSet {κ ν} [DecidableEq κ] (k : κ) (v : ν) : List (κ × ν) → List (κ × ν)
  | [] => [(k, v)]
  | (k', v') :: rest => if k' = k then (k, v) :: rest else (k', v') :: dictSet k v rest

def dictGet? {κ ν} [DecidableEq κ] (k : κ) : List (κ × ν) → Option ν
  | [] => none
  | (k', v') :: rest => if k' = k then some v' else dictGet? k rest

def dictHas {κ ν} [DecidableEq κ] (k : κ) (d : List (κ × ν)) : Bool := (dictGet? k d).isSome

/-- `collections.defaultdict(list)` grouping, keys in first-occurrence order -/
def groupByKey {α κ} [DecidableEq κ] (key : α → κ) : List α → List (κ × List α)
  | [] => []
  | x :: xs =>
    let rest := groupByKey key xs
    -- prepend x to its group; a new group goes to the FRONT (x is the earliest element)
    match dictGet? (key x) rest with
    | some g => (key x, x :: g) :: rest.filter (fun kv => kv.1 ≠ key x)
    | none => (key x, [x]) :: rest

def cartesian {α} : List (List α) → List (List α)
  | [] => [[]]
  | p :: ps => p.flatMap (fun x => (cartesian ps).map (fun t => x :: t))

/-! ## Numbers as names -/

def natDigitsF : Nat → Nat → Name
  | 0, _ => [48]
  | f + 1, n => if n < 10 then [48 + n] else natDigitsF f (n / 10) ++ [48 + n % 10]

def natName (n : Nat) : Name := natDigitsF (n + 1) n

def intName : Int → Name
  | .ofNat n => natName n
  | .negSucc n => 45 :: natName (n + 1)

/-- `"".join(map(str, ids))` -/
def digitsOf : List Int → Name
  | [] => []
  | i :: is => intName i ++ digitsOf is

/-- `str(sp.Rational(x))` for x = x2/2 -/
def ratName2 (x2 : Int) : Name :=
  if x2 % 2 = 0 then intName (x2 / 2) else intName x2 ++ n!"/2"

/-- naming._render_float -/
def renderFloat2 (x2 : Int) : Name := if x2 > 0 then 43 :: ratName2 x2 else ratName2 x2

def isDigit (c : Nat) : Bool := decide (48 ≤ c) && decide (c ≤ 57)

def intLt (a b : Int) : Bool := decide (a < b)
def natLt (a b : Nat) : Bool := decide (a < b)

/-- Python tuple / str comparison `<` (lexicographic) -/
def lexLtInt : List Int → List Int → Bool
  | [], [] => false
  | [], _ :: _ => true
  | _ :: _, [] => false
  | a :: as, b :: bs => if a < b then true else if b < a then false else lexLtInt as bs

def nameLt : Name → Name → Bool
  | [], [] => false
  | [], _ :: _ => true
  | _ :: _, [] => false
  | a :: as, b :: bs => if a < b then true else if b < a then false else nameLt as bs

/-! ## Topologies as isobar trees -/

inductive Tree where
  | leaf (edge : Int)
  | node (edge : Int) (nid : Nat) (l r : Tree)
deriving Repr, DecidableEq, Inhabited

namespace Tree
def edge : Tree → Int
  | leaf e => e
  | node e _ _ _ => e
def isLeaf : Tree → Bool
  | leaf _ => true
  | node .. => false
def leaves : Tree → List Int
  | leaf e => [e]
  | node _ _ l r => l.leaves ++ r.leaves
def nodeIds : Tree → List Nat
  | leaf _ => []
  | node _ n l r => n :: (l.nodeIds ++ r.nodeIds)
/-- all sub-trees (= all edges), root first -/
def subtrees : Tree → List Tree
  | leaf e => [leaf e]
  | node e n l r => node e n l r :: (l.subtrees ++ r.subtrees)
end Tree

/-- decay.determine_attached_final_state -/
def attached (t : Tree) : List Int := sortBy intLt t.leaves

def label (t : Tree) : Name := digitsOf (attached t)

/-- decay.is_opposite_helicity_state for child `c` with sibling `s` -/
def opposite (c s : Tree) : Bool := lexLtInt (attached s) (attached c)

/-- naming.get_boost_chain_suffix: `_own` or `_own^parent,grandparent,…` -/
def suffixOf (c : Tree) (anc : List Name) : Name :=
  95 :: label c ++ (match anc with | [] => [] | _ => 94 :: joinNames [44] anc)

def phiSym (c : Tree) (anc : List Name) : Name := n!"phi" ++ suffixOf c anc
def thetaSym (c : Tree) (anc : List Name) : Name := n!"theta" ++ suffixOf c anc
/-- lorentz.get_invariant_mass_symbol -/
def massSym (t : Tree) : Name := n!"m_" ++ label t

structure NodeInfo where
  nid : Nat
  self : Tree
  l : Tree
  r : Tree
  /-- labels of the ancestors of the CHILDREN (nearest first, initial state excluded) -/
  anc : List Name
deriving Repr

def nodeInfos : Tree → Bool → List Name → List NodeInfo
  | .leaf _, _, _ => []
  | .node e n l r, isRoot, anc =>
    let anc' := if isRoot then [] else label (.node e n l r) :: anc
    ⟨n, .node e n l r, l, r, anc'⟩ :: (nodeInfos l false anc' ++ nodeInfos r false anc')

def Tree.infos (t : Tree) : List NodeInfo := nodeInfos t true []

/-- nodes in the iteration order of `topology.nodes` (ascending ids) -/
def Tree.infosSorted (t : Tree) : List NodeInfo := sortBy (fun a b => natLt a.nid b.nid) t.infos

/-- TwoBodyDecay.from_transition: children[0] is the one that is NOT the opposite-helicity state -/
def NodeInfo.c1 (ni : NodeInfo) : Tree := if opposite ni.l ni.r then ni.r else ni.l
def NodeInfo.c2 (ni : NodeInfo) : Tree := if opposite ni.l ni.r then ni.l else ni.r

/-- states whose angle symbols `compute_helicity_angles` registers at this node -/
def NodeInfo.walkStates (ni : NodeInfo) : List Tree :=
  (if ni.l.isLeaf && ni.r.isLeaf then [if opposite ni.l ni.r then ni.r else ni.l] else [])
  ++ (if ni.l.isLeaf then [] else [if opposite ni.l ni.r then ni.r else ni.l])
  ++ (if ni.r.isLeaf then [] else [if opposite ni.r ni.l then ni.l else ni.r])

def adapterAngles (t : Tree) : List Name :=
  t.infos.flatMap (fun ni => ni.walkStates.flatMap (fun s => [phiSym s ni.anc, thetaSym s ni.anc]))

/-- lorentz.compute_invariant_masses: one symbol per edge -/
def adapterMasses (t : Tree) : List Name := t.subtrees.map massSym

def adapterKeysOf (t : Tree) : List Name := adapterAngles t ++ adapterMasses t

/-- value of a digit string (naming.natural_sorting casts to float) -/
def digitsValue (n : Name) : Nat := n.foldl (fun acc c => 10 * acc + (c - 48)) 0

/-- naming.get_topology_identifier -/
def topoIdent (t : Tree) : Name :=
  -- intermediate edges = non-root internal nodes, in ascending edge-id order
  let inter := (t.subtrees.drop 1).filter (fun s => !s.isLeaf)
  let inter := sortBy (fun a b => intLt a.edge b.edge) inter
  let names := inter.map label
  joinNames [44] (sortBy (fun a b => natLt (digitsValue a) (digitsValue b)) names)

def ampBase (t : Tree) : Name := n!"A^" ++ topoIdent t

/-- naming.get_helicity_suffix -/
def helicitySuffix (t : Tree) (stateId : Int) : Name := 95 :: intName stateId ++ 94 :: topoIdent t

/-! ## Reactions -/

structure Particle where
  name : Name
  latex : Option Name
  spin2 : Nat
  massless : Bool
deriving Repr, DecidableEq, Inhabited

structure State where
  edge : Int
  pidx : Nat
  proj2 : Int
deriving Repr, DecidableEq, Inhabited

structure Inter where
  node : Nat
  l : Option Nat
  s2 : Option Nat
  pf : Option Int
deriving Repr, DecidableEq, Inhabited

structure Chain where
  topo : Nat
  states : List State
deriving Repr, DecidableEq

structure Transition where
  topo : Nat
  states : List State
  inters : List Inter
  /-- result of qrules' identical-particle combinatorics (includes the transition itself) -/
  chains : List Chain
deriving Repr, DecidableEq

structure Reaction where
  canonical : Bool
  particles : List Particle
  topos : List Tree
  transitions : List Transition
deriving Repr

inductive Align where
  | none
  | axis
  | dpd (ref : Nat)
deriving Repr, DecidableEq

inductive Kind where
  | nd | bw | bwff | ff | custom
deriving Repr, DecidableEq

structure Config where
  align : Align
  stable : Option (List Int)
  scalarInitial : Bool
  helicityCouplings : Bool
  parentHel : Bool
  childHel : Bool
  insertLS : Bool
  /-- `dynamics.assign(name of particle pidx, builder)` in this order -/
  dyn : List (Nat × Kind)
  /-- `builder.adapter.permutate_registered_topologies()` was called before `formulate()` -/
  permute : Bool := false
deriving Repr

namespace Reaction
def particle (r : Reaction) (i : Nat) : Particle := r.particles.getD i default
def tree (r : Reaction) (i : Nat) : Tree := r.topos.getD i default
end Reaction

def stateAt (ss : List State) (e : Int) : State :=
  match ss.find? (fun s => s.edge = e) with
  | some s => s
  | none => ⟨e, 0, 0⟩

def interAt (is : List Inter) (n : Nat) : Inter :=
  match is.find? (fun i => i.node = n) with
  | some i => i
  | none => ⟨n, none, none, none⟩

/-- `latex or name` (dynamics/builder.py) -/
def Particle.ident (p : Particle) : Name :=
  match p.latex with
  | some [] => p.name
  | some l => l
  | none => p.name

/-! ## Name generators (helicity/naming.py) -/

/-- naming._state_to_str -/
def stateToStr (p : Particle) (proj2 : Int) (useHel partner : Bool) : Name :=
  let base := match p.latex with | some l => l | none => p.name
  if useHel then
    let h := if partner then -proj2 else proj2
    let base' := if base.contains 95 then 123 :: base ++ [125] else base
    base' ++ n!"_{" ++ renderFloat2 h ++ [125]
  else base

def arrowTo : Name := n!" \\to "

def lsArrow (i : Inter) : Name :=
  n!" \\xrightarrow[S=" ++ ratName2 (Int.ofNat (i.s2.getD 0)) ++ n!"]{L=" ++ natName (i.l.getD 0) ++ n!"} "

/-- decay.get_helicity_info: the two outgoing states sorted by particle NAME (stable) -/
def sortedOut (r : Reaction) (sl sr : State) : State × State :=
  if nameLt (r.particle sr.pidx).name (r.particle sl.pidx).name then (sr, sl) else (sl, sr)

structure NameCtx where
  r : Reaction
  cfg : Config

def nodeStates (ss : List State) (ni : NodeInfo) : State × State × State :=
  (stateAt ss ni.self.edge, stateAt ss ni.l.edge, stateAt ss ni.r.edge)

/-- generate_two_body_decay_suffix (helicity or canonical generator) -/
def decaySuffix (c : NameCtx) (ss : List State) (is : List Inter) (ni : NodeInfo) : Name :=
  let (p, sl, sr) := nodeStates ss ni
  let (o1, o2) := sortedOut c.r sl sr
  let arrow := if c.r.canonical && c.cfg.insertLS then lsArrow (interAt is ni.nid) else arrowTo
  stateToStr (c.r.particle p.pidx) p.proj2 c.cfg.parentHel false ++ arrow
    ++ stateToStr (c.r.particle o1.pidx) o1.proj2 c.cfg.childHel false ++ [32]
    ++ stateToStr (c.r.particle o2.pidx) o2.proj2 c.cfg.childHel false

/-- __generate_amplitude_coefficient_couple: (suffix, parity-partner suffix, priority suffix) -/
def coefficientCouple (c : NameCtx) (ss : List State) (is : List Inter) (ni : NodeInfo) : Name × Name × Name :=
  let (p, sl, sr) := nodeStates ss ni
  let (o1, o2) := sortedOut c.r sl sr
  let par := decaySuffix c ss is ni
  let pp := stateToStr (c.r.particle p.pidx) p.proj2 false false ++ arrowTo
    ++ stateToStr (c.r.particle o1.pidx) o1.proj2 true true ++ [32]
    ++ stateToStr (c.r.particle o2.pidx) o2.proj2 true true
  let prio := if o1.proj2 < 0 || (o1.proj2 = 0 && o2.proj2 < 0) then pp else par
  (par, pp, prio)

/-- one step of __register_amplitude_coefficient_name -/
def registerNode (m : List (Name × Name)) (par pp prio : Name) (hasPf : Bool) : List (Name × Name) :=
  if !hasPf then m
  else if dictHas par m then m
  else if dictHas pp m then
    (if pp = prio then dictSet par pp m else dictSet par par (dictSet pp par m))
  else dictSet par par m

/-- _register_amplitude_coefficients: over reaction.transitions, nodes in ascending id order -/
def parityMapping (c : NameCtx) : List (Name × Name) :=
  c.r.transitions.foldl (fun m t =>
    (c.r.tree t.topo).infosSorted.foldl (fun m ni =>
      let (par, pp, prio) := coefficientCouple c t.states t.inters ni
      registerNode m par pp prio (interAt t.inters ni.nid).pf.isSome) m) []

/-- generate_sequential_amplitude_suffix -/
def sequentialSuffix (c : NameCtx) (m : List (Name × Name)) (tree : Tree) (ss : List State) (is : List Inter) : Name :=
  joinNames n!"; " (tree.infosSorted.map (fun ni =>
    let s := decaySuffix c ss is ni
    (dictGet? s m).getD s))

def coefficientName (suffix : Name) : Name := n!"C_{" ++ suffix ++ [125]
def couplingName (suffix : Name) : Name := n!"H_{" ++ suffix ++ [125]

/-! ## Dynamics (dynamics/builder.py): free symbols and parameters of each builder kind -/

def resMass (p : Particle) : Name := n!"m_{" ++ p.ident ++ [125]
def resWidth (p : Particle) : Name := n!"\\Gamma_{" ++ p.ident ++ [125]
def resRadius (p : Particle) : Name := n!"d_{" ++ p.ident ++ [125]
def customPar (p : Particle) : Name := n!"c_{" ++ p.ident ++ [125]

structure VarSet where
  inv : Name
  m1 : Name
  m2 : Name
  phi : Name
  theta : Name
  l : Option Nat
deriving Repr, DecidableEq

def Kind.params (k : Kind) (p : Particle) : List Name :=
  match k with
  | .nd => []
  | .bw => [resMass p, resWidth p]
  | .bwff => [resMass p, resWidth p, resRadius p]
  | .ff => [resRadius p]
  | .custom => [customPar p]

/-- symbols of the variable set that the builder's expression mentions -/
def Kind.vars (k : Kind) (v : VarSet) : List Name :=
  match k with
  | .nd => []
  | .bw => [v.inv]
  | .bwff => [v.inv, v.m1, v.m2]
  | .ff => [v.inv, v.m1, v.m2]
  | .custom => [v.inv, v.m1, v.m2, v.phi, v.theta]

def Kind.needsL : Kind → Bool
  | .bwff => true
  | .ff => true
  | _ => false

/-- _generate_kinematic_variable_set -/
def varSet (r : Reaction) (ss : List State) (is : List Inter) (ni : NodeInfo) : VarSet :=
  let parent := r.particle (stateAt ss ni.self.edge).pidx
  let l := match (interAt is ni.nid).l with
    | some l => some l
    | none => if parent.spin2 % 2 = 0 then some (parent.spin2 / 2) else none
  { inv := massSym ni.self, m1 := massSym ni.c1, m2 := massSym ni.c2,
    phi := phiSym ni.c1 ni.anc, theta := thetaSym ni.c1 ni.anc, l := l }

/-- the hashable TwoBodyDecay (parent, ordered children, interaction) -/
def decayKey (ss : List State) (is : List Inter) (ni : NodeInfo) : State × State × State × Inter :=
  (stateAt ss ni.self.edge, stateAt ss ni.c1.edge, stateAt ss ni.c2.edge, interAt is ni.nid)

/-- keys of DynamicsSelector after construction -/
def selectorKeys (v : Variant) (r : Reaction) : List (State × State × State × Inter) :=
  r.transitions.flatMap (fun t =>
    ((r.tree t.topo).infos.map (decayKey t.states t.inters))
    ++ (if v.selCoversComb then
          t.chains.flatMap (fun ch => (r.tree ch.topo).infos.map (decayKey ch.states t.inters))
        else []))

/-- `dynamics.assign(name, builder)` in order: the last assignment whose NAME matches wins -/
def kindFor (r : Reaction) (cfg : Config) (pidx : Nat) : Kind :=
  cfg.dyn.foldl (fun k a => if (r.particle a.1).name = (r.particle pidx).name then a.2 else k) .nd

/-! ## Chains: parameters and free symbols of one sequential amplitude -/

structure SymOut where
  params : List Name
  free : List Name
deriving Repr

def SymOut.append (a b : SymOut) : SymOut := ⟨a.params ++ b.params, a.free ++ b.free⟩
def SymOut.empty : SymOut := ⟨[], []⟩

def nodeOut (v : Variant) (c : NameCtx) (keys : List (State × State × State × Inter))
    (ss : List State) (is : List Inter) (ni : NodeInfo) : SymOut :=
  let coupling := if c.cfg.helicityCouplings then [couplingName (decaySuffix c ss is ni)] else []
  let angles := [phiSym ni.c1 ni.anc, thetaSym ni.c1 ni.anc]
  let parent := c.r.particle (stateAt ss ni.self.edge).pidx
  let kind := if decayKey ss is ni ∈ keys then kindFor c.r c.cfg (stateAt ss ni.self.edge).pidx else .nd
  let _ := v
  let vs := varSet c.r ss is ni
  ⟨coupling ++ kind.params parent, coupling ++ angles ++ kind.params parent ++ kind.vars vs⟩

def chainOut (v : Variant) (c : NameCtx) (m : List (Name × Name)) (keys : List (State × State × State × Inter))
    (is : List Inter) (ch : Chain) : SymOut :=
  let tree := c.r.tree ch.topo
  let coef := if c.cfg.helicityCouplings then [] else [coefficientName (sequentialSuffix c m tree ch.states is)]
  let nodes := tree.infosSorted.foldl (fun acc ni => acc.append (nodeOut v c keys ch.states is ni)) SymOut.empty
  ⟨coef ++ nodes.params, coef ++ nodes.free⟩

/-! ## Grouping, amplitude symbols, projections -/

def rootEdge (r : Reaction) (t : Transition) : Int := (r.tree t.topo).edge
def finalIds (r : Reaction) (t : Transition) : List Int := attached (r.tree t.topo)

/-- decay.get_outer_state_ids of the first transition: initial id, then the sorted final ids -/
def outerIds (r : Reaction) : List Int :=
  match r.transitions with
  | [] => []
  | t :: _ => rootEdge r t :: finalIds r t

def namedProj (r : Reaction) (t : Transition) (e : Int) : Name × Int :=
  let s := stateAt t.states e
  ((r.particle s.pidx).name, s.proj2)

def pairLt (a b : Name × Int) : Bool :=
  if nameLt a.1 b.1 then true else if nameLt b.1 a.1 then false else intLt a.2 b.2

/-- key of decay.group_by_spin_projection -/
def spinKey (r : Reaction) (t : Transition) : List (Name × Int) × List (Name × Int) :=
  ([namedProj r t (rootEdge r t)], sortBy pairLt ((finalIds r t).map (namedProj r t)))

def spinGroups (r : Reaction) : List (List Transition) := (groupByKey (spinKey r) r.transitions).map (·.2)

/-- decay.group_by_topology (topologies are compared by value: equal trees = equal topology) -/
def topoGroups (r : Reaction) (ts : List Transition) : List (Tree × List Transition) :=
  groupByKey (fun t => r.tree t.topo) ts

abbrev AmpKey := Name × List Int

/-- naming.create_amplitude_symbol -/
def ampSymbol (r : Reaction) (t : Transition) : AmpKey :=
  (ampBase (r.tree t.topo), (rootEdge r t :: finalIds r t).map (fun e => (stateAt t.states e).proj2))

/-- naming.collect_spin_projections / dpd._collect_outer_state_helicities: per outer state the observed projections -/
def pools (r : Reaction) : List (List Int) :=
  (outerIds r).map (fun e => dedup (r.transitions.map (fun t => (stateAt t.states e).proj2)))

/-- align/_spin.create_spin_range as twice-projections -/
def spinRange2 (spin2 : Nat) (noZero : Bool) : List Int :=
  let all := (List.range (spin2 + 1)).map (fun (k : Nat) => (2 * (k : Int)) - (spin2 : Int))
  if noZero && decide (all.length > 1) && all.contains 0 then all.filter (· ≠ 0) else all

structure AmpDef where
  key : AmpKey
  zero : Bool
  free : List Name
deriving Repr

abbrev COut := Chain × SymOut
abbrev TOut := Transition × List COut

def TOut.params (o : TOut) : List Name := o.2.flatMap (·.2.params)
def TOut.free (o : TOut) : List Name := o.2.flatMap (·.2.free)

/-- every transition with the parameters / free symbols of each of its chains (computed once) -/
def transOuts (v : Variant) (r : Reaction) (cfg : Config) : List TOut :=
  let c : NameCtx := ⟨r, cfg⟩
  let m := parityMapping c
  let keys := selectorKeys v r
  r.transitions.map (fun t => (t, t.chains.map (fun ch => (ch, chainOut v c m keys t.inters ch))))

/-- outer projections of a combinatorics chain (create_amplitude_symbol(graph).indices) -/
def chainHel (r : Reaction) (ch : Chain) : List Int :=
  let t := r.tree ch.topo
  (t.edge :: attached t).map (fun e => (stateAt ch.states e).proj2)

/-- `expressions[helicities] = expressions.get(helicities, 0) + expression` over all chains of a topology group -/
def topoExpressions (r : Reaction) (ts : List TOut) : List (List Int × List Name) :=
  ts.foldl (fun d o => o.2.foldl (fun d co =>
    dictSet (chainHel r co.1) ((dictGet? (chainHel r co.1) d).getD [] ++ co.2.free) d) d) []

/-- __register_amplitudes / __formulate_topology_amplitude for all spin groups; later writes win -/
def registeredOf (v : Variant) (r : Reaction) (outs : List TOut) : List (AmpKey × AmpDef) :=
  ((groupByKey (fun (o : TOut) => spinKey r o.1) outs).map (·.2)).foldl (fun acc g =>
    (groupByKey (fun (o : TOut) => r.tree o.1.topo) g).foldl (fun acc tg =>
      match tg.2 with
      | [] => acc
      | first :: _ =>
        if v.perChainSyms then
          (topoExpressions r tg.2).foldl (fun acc e =>
            let k : AmpKey := (ampBase (r.tree first.1.topo), e.1)
            dictSet k ⟨k, false, e.2⟩ acc) acc
        else
          let k := ampSymbol r first.1
          dictSet k ⟨k, false, tg.2.flatMap TOut.free⟩ acc) acc) []

def productKeys (r : Reaction) (ps : List (List Int)) : List AmpKey :=
  (topoGroups r r.transitions).flatMap (fun tg => (cartesian ps).map (fun h => (ampBase tg.1, h)))

def addMissing (ks : List AmpKey) (d : List (AmpKey × AmpDef)) : List (AmpKey × AmpDef) :=
  ks.foldl (fun d k => if dictHas k d then d else d ++ [(k, ⟨k, true, []⟩)]) d

/-! ## Alignment: which amplitude symbols the intensity sums over, and the extra symbols -/

/-- opposite-helicity sign of an outer FINAL state inside a tree (axisangle.get_opposite_helicity_sign) -/
def oppositeSign (t : Tree) (e : Int) : Int :=
  match t.infos.find? (fun ni => ni.l.edge = e || ni.r.edge = e) with
  | some ni => if (if ni.l.edge = e then opposite ni.l ni.r else opposite ni.r ni.l) then -1 else 1
  | none => 1

def refs (_v : Variant) (r : Reaction) (cfg : Config) : List AmpKey :=
  match cfg.align with
  | .none => productKeys r (pools r)
  | .dpd _ => productKeys r (pools r)
  | .axis =>
    (topoGroups r r.transitions).flatMap (fun tg =>
      match tg.2, outerIds r, pools r with
      | first :: _, root :: finals, rootPool :: _ =>
        let ranges := finals.map (fun e =>
          let p := r.particle (stateAt first.states e).pidx
          (spinRange2 p.spin2 p.massless).map (fun x => oppositeSign tg.1 e * x))
        let _ := root
        (cartesian (rootPool :: ranges)).map (fun h => (ampBase tg.1, h))
      | _, _, _ => [])

/-- depth of a leaf below the root (number of helicity rotations of its chain) and the angle symbols on the way -/
def pathAngles : Tree → Bool → List Name → Int → Option (List Name × Nat)
  | .leaf e, _, _, target => if e = target then some ([], 0) else none
  | .node e n l r, isRoot, anc, target =>
    let anc' := if isRoot then [] else label (.node e n l r) :: anc
    let ni : NodeInfo := ⟨n, .node e n l r, l, r, anc'⟩
    let here := [phiSym ni.c1 anc', thetaSym ni.c1 anc']
    match pathAngles l false anc' target with
    | some (a, d) => some (here ++ a, d + 1)
    | none =>
      match pathAngles r false anc' target with
      | some (a, d) => some (here ++ a, d + 1)
      | none => none

def wignerAngleNames (t : Tree) (e : Int) : List Name :=
  let s := helicitySuffix t e
  [n!"alpha" ++ s, n!"beta" ++ s, n!"gamma" ++ s]

/-- free symbols that AxisAngleAlignment.formulate_amplitude adds (besides the amplitude symbols) -/
def axisFree (r : Reaction) : List Name :=
  (topoGroups r r.transitions).flatMap (fun tg =>
    (attached tg.1).flatMap (fun e =>
      match pathAngles tg.1 true [] e with
      | some (a, d) => a ++ (if d ≥ 2 then wignerAngleNames tg.1 e else [])
      | none => []))

/-- AxisAngleAlignment.define_symbols: final states whose parent is not the initial state -/
def axisKeys (r : Reaction) : List Name :=
  (topoGroups r r.transitions).flatMap (fun tg =>
    (attached tg.1).flatMap (fun e =>
      match pathAngles tg.1 true [] e with
      | some (_, d) => if d ≥ 2 then wignerAngleNames tg.1 e else []
      | none => []))

/-- decay.get_spectator_id: the final state that is not a child of node 1 -/
def spectator (t : Tree) : Option Int :=
  match t.infos.find? (fun ni => ni.nid = 1) with
  | some ni => (([1, 2, 3] : List Int).filter (fun i => i ≠ ni.l.edge ∧ i ≠ ni.r.edge)).head?
  | none => none

def zetaName (rot : Nat) (aligned : Int) (ref : Nat) : Name :=
  n!"\\zeta^" ++ natName rot ++ n!"_{" ++ intName aligned ++ [40] ++ natName ref ++ n!")}"

def mN (i : Nat) : Name := n!"m_" ++ natName i
def pairMasses : List Name := [n!"m_12", n!"m_13", n!"m_23"]

/-- mass symbols mentioned by kinematics.angles.formulate_zeta_angle(rot, aligned, ref) -/
def zetaMasses (rot aligned ref : Nat) : List Name :=
  if aligned = ref then []
  else if rot = 0 then [mN 0, mN aligned, mN ref] ++ pairMasses
  else
    -- Eq (A10) and its mirrored cases: all three final-state masses, no m_0
    let third := 6 - aligned - ref
    if rot = third then [mN 1, mN 2, mN 3] ++ pairMasses
    else
      -- remaining cases: m_0, m_rot and the mass of the state that is neither `rot` nor … (see source table)
      let other := if rot = aligned then (6 - rot - ref) else (6 - rot - aligned)
      let _ := other
      -- (1,1,3)->{0,1,2}; (1,2,1)->{0,1,3}; (2,2,1)->{0,2,3}; (2,3,2)->{0,1,2}; (3,3,2)->{0,1,3}; (3,1,3)->{0,2,3}
      -- i.e. m_0, m_rot and m_k with k the index different from both `aligned` and `ref`… for rot ∈ {aligned, ref}:
      [mN 0, mN rot, mN (6 - aligned - ref)] ++ pairMasses

/-- DalitzPlotDecomposition: (zeta symbol, masses it mentions) for every topology and spinful outer state -/
def dpdZetas (r : Reaction) (ref : Nat) : List (Name × List Name) :=
  match r.transitions with
  | [] => []
  | t0 :: _ =>
    (topoGroups r r.transitions).flatMap (fun tg =>
      match spectator tg.1 with
      | none => []
      | some sp =>
        ((List.range 4).filter (fun i =>
          (r.particle (stateAt t0.states ((outerIds r).getD i 0)).pidx).spin2 ≠ 0)).map (fun i =>
            (zetaName i sp ref, zetaMasses i sp.toNat ref)))

/-! ## The three dictionaries -/

def insertAll {α} (x : α) : List α → List (List α)
  | [] => [[x]]
  | y :: ys => (x :: y :: ys) :: (insertAll x ys).map (y :: ·)

def perms {α} : List α → List (List α)
  | [] => [[]]
  | x :: xs => (perms xs).flatMap (insertAll x)

/-- relabel the final-state edges; children stay in ascending edge-id order -/
def Tree.relabel (m : List (Int × Int)) : Tree → Tree
  | .leaf e => .leaf ((dictGet? e m).getD e)
  | .node e n l r =>
    let l' := l.relabel m
    let r' := r.relabel m
    if r'.edge < l'.edge then .node e n r' l' else .node e n l' r'

/-- HelicityAdapter.permutate_registered_topologies: all relabelings of the final-state ids -/
def permutedTopos (t : Tree) : List Tree :=
  let ids := attached t
  (perms ids).map (fun p => t.relabel (List.zip ids p))

/-- the topologies the adapter knows when `create_expressions()` is called -/
def registeredTopos (v : Variant) (r : Reaction) (cfg : Config) : List Tree :=
  let own := r.transitions.map (fun t => r.tree t.topo)
  dedup ((if cfg.permute then own ++ own.flatMap permutedTopos else own)
    ++ (if v.regCombTopos then r.transitions.flatMap (fun t => t.chains.map (fun ch => r.tree ch.topo)) else []))

def adapterKeys (v : Variant) (r : Reaction) (cfg : Config) : List Name :=
  (registeredTopos v r cfg).flatMap adapterKeysOf

def stableMasses (cfg : Config) : List Name :=
  match cfg.stable with
  | none => []
  | some ids => ids.map (fun i => n!"m_" ++ intName i)

def scalarMass (r : Reaction) (cfg : Config) : List Name :=
  if cfg.scalarInitial then
    match r.transitions with
    | [] => []
    | t :: _ => [n!"m_" ++ digitsOf (finalIds r t)]
  else []

def movedMasses (r : Reaction) (cfg : Config) : List Name := stableMasses cfg ++ scalarMass r cfg

/-- DPD back-substitution loop of formulate(): mass symbols that remain in the zeta expressions -/
def dpdRemaining (present : List Name) (zetas : List (Name × List Name)) : List Name :=
  dedup ((zetas.flatMap (·.2)).filter (fun m => m ∉ present))

def dpdParamMasses (cfg : Config) (remaining : List Name) : List Name :=
  remaining.filter (fun m => m = mN 0 && cfg.scalarInitial)

def dpdReadded (cfg : Config) (remaining : List Name) : List Name :=
  remaining.filter (fun m => if m = mN 0 then !cfg.scalarInitial else !(m ∈ stableMasses cfg))

/-- masses of a zeta expression that survive the back-substitution: not a kinematic variable
(neither registered nor re-added by the loop) -/
def zetaDeps (cfg : Config) (present : List Name) (masses : List Name) : List Name :=
  masses.filter (fun m => m ∉ present && !(if m = mN 0 then !cfg.scalarInitial else !(m ∈ stableMasses cfg)))

structure Result where
  /-- model.amplitudes -/
  defs : List (AmpKey × AmpDef)
  /-- amplitude symbols of the unfolded intensity -/
  refs : List AmpKey
  /-- parameter_defaults keys -/
  params : List Name
  /-- kinematic_variables keys, each with the non-four-momentum symbols its expression mentions -/
  kin : List (Name × List Name)
  /-- free symbols (names) of model.expression; undefined amplitude symbols are `undefined` -/
  free : List Name
  undefined : List AmpKey
deriving Repr

def zeroDefsOf (v : Variant) (r : Reaction) (rf : List AmpKey) (reg : List (AmpKey × AmpDef)) : List (AmpKey × AmpDef) :=
  match v.zeroDefs with
  | .none => reg
  | .product => addMissing (productKeys r (pools r)) reg
  | .refs => addMissing rf reg

def alignParams (cfg : Config) (remaining : List Name) : List Name :=
  match cfg.align with
  | .dpd _ => dpdParamMasses cfg remaining
  | _ => []

def result (v : Variant) (r : Reaction) (cfg : Config) : Result :=
  let outs := transOuts v r cfg
  let rf := refs v r cfg
  let d := zeroDefsOf v r rf (registeredOf v r outs)
  let moved := movedMasses r cfg
  let present := (adapterKeys v r cfg).filter (fun k => k ∉ moved)
  let zetas := match cfg.align with | .dpd ref => dpdZetas r ref | _ => []
  let remaining := dpdRemaining present zetas
  let pars := outs.flatMap TOut.params ++ moved ++ alignParams cfg remaining
  let base := present.map (fun k => (k, ([] : List Name)))
  let kin := match cfg.align with
    | .none => base
    | .axis => base ++ (axisKeys r).map (fun k => (k, []))
    | .dpd _ => base ++ (dpdReadded cfg remaining).map (fun k => (k, []))
        ++ zetas.map (fun z => (z.1, zetaDeps cfg present z.2))
  let fromAmps := rf.flatMap (fun k => match dictGet? k d with | some a => a.free | none => [])
  let alignFree := match cfg.align with
    | .none => []
    | .axis => axisFree r
    | .dpd _ => zetas.map (·.1)
  { defs := d, refs := rf, params := pars, kin := kin, free := fromAmps ++ alignFree,
    undefined := rf.filter (fun k => !dictHas k d) }

def defs (v : Variant) (r : Reaction) (cfg : Config) : List (AmpKey × AmpDef) := (result v r cfg).defs
def params (v : Variant) (r : Reaction) (cfg : Config) : List Name := (result v r cfg).params
def kinvarsDeps (v : Variant) (r : Reaction) (cfg : Config) : List (Name × List Name) := (result v r cfg).kin
def kinvars (v : Variant) (r : Reaction) (cfg : Config) : List Name := (kinvarsDeps v r cfg).map (·.1)
def freeSyms (v : Variant) (r : Reaction) (cfg : Config) : List Name := (result v r cfg).free
def undefinedRefs (v : Variant) (r : Reaction) (cfg : Config) : List AmpKey := (result v r cfg).undefined

/-! ## Which exception the real code raises (small enum); `none` = formulate succeeds -/

inductive Err where
  | valueError | keyError | typeError
deriving Repr, DecidableEq

def needsLFails (v : Variant) (r : Reaction) (cfg : Config) : Bool :=
  let keys := selectorKeys v r
  r.transitions.any (fun t => t.chains.any (fun ch =>
    (r.tree ch.topo).infos.any (fun ni =>
      let kind := if decayKey ch.states t.inters ni ∈ keys then kindFor r cfg (stateAt ch.states ni.self.edge).pidx else .nd
      kind.needsL && (varSet r ch.states t.inters ni).l.isNone)))

/-- DalitzPlotDecomposition refuses the reaction (not relabelled / not three-body / bad reference) -/
def dpdBad (r : Reaction) (cfg : Config) : Bool :=
  match cfg.align with
  | .dpd ref => decide (outerIds r ≠ [0, 1, 2, 3]) || (topoGroups r r.transitions).any (fun tg => (spectator tg.1).isNone)
      || !(ref = 1 || ref = 2 || ref = 3)
  | _ => false

/-- a stable id that is not a final-state id: KeyError -/
def stableBad (r : Reaction) (cfg : Config) : Bool :=
  match cfg.stable, r.transitions with
  | some ids, t0 :: _ => ids.any (fun i => i ∉ finalIds r t0)
  | _, _ => false

def errorOf (v : Variant) (r : Reaction) (cfg : Config) : Option Err :=
  match r.transitions with
  | [] => some .valueError
  | _ :: _ =>
    if r.canonical && r.transitions.any (fun t => t.inters.any (fun i => i.l.isNone || i.s2.isNone)) then some .typeError
    else if needsLFails v r cfg then some .valueError
    else if dpdBad r cfg then some .valueError
    else if stableBad r cfg then some .keyError
    else none

/-! ## Name classes and well-formed trees (used by the theorems, not by the driver) -/

/-- names the builder gives to PARAMETERS: `C_{…} H_{…} m_{…} \Gamma_{…} d_{…}` (and `c_{…}` of the custom builder) -/
def isParamName : Name → Bool
  | 67 :: 95 :: 123 :: _ => true
  | 72 :: 95 :: 123 :: _ => true
  | 109 :: 95 :: 123 :: _ => true
  | 100 :: 95 :: 123 :: _ => true
  | 99 :: 95 :: 123 :: _ => true
  | 92 :: 71 :: 97 :: 109 :: 109 :: 97 :: 95 :: 123 :: _ => true
  | _ => false

/-- names of KINEMATIC VARIABLES: `phi_… theta_… m_<digit>… alpha_… beta_… gamma_… \zeta^…` -/
def isKinName : Name → Bool
  | 112 :: 104 :: 105 :: 95 :: _ => true
  | 116 :: 104 :: 101 :: 116 :: 97 :: 95 :: _ => true
  | 109 :: 95 :: c :: _ => isDigit c
  | 97 :: 108 :: 112 :: 104 :: 97 :: 95 :: _ => true
  | 98 :: 101 :: 116 :: 97 :: 95 :: _ => true
  | 103 :: 97 :: 109 :: 109 :: 97 :: 95 :: _ => true
  | 92 :: 122 :: 101 :: 116 :: 97 :: 94 :: _ => true
  | _ => false

/-- final-state ids are non-negative and the two children of every node carry different final states -/
def Tree.wf : Tree → Bool
  | .leaf e => decide (0 ≤ e)
  | .node _ _ l r => l.wf && r.wf && decide (attached l ≠ attached r)

/-- the kinematic symbols of one node: helicity angles of the helicity child, masses of parent and children -/
def NodeInfo.kinSyms (ni : NodeInfo) : List Name :=
  [phiSym ni.c1 ni.anc, thetaSym ni.c1 ni.anc, massSym ni.self, massSym ni.c1, massSym ni.c2]

end Ampverif.Model.C01
