/-
C13 — executable, import-free model of `DynamicsSelector` (helicity/__init__.py), of
`__formulate_dynamics` / `_generate_kinematic_variable_set` and of the collection of parameter
defaults.  Shares the reaction / topology / naming layer with the C01 builder model.

Source lines followed:
* `DynamicsSelector.__init__`  : every `TwoBodyDecay` of every transition (after fix e918528 also of
  every identical-particle combinatorics chain) ↦ `create_non_dynamic`;
* `assign` (singledispatch)    : `TwoBodyDecay` → `choices[decay] = b` (adds the key if new);
  `tuple (transition, node)` → the decay of that node; `str` → every key whose parent particle NAME
  matches; `Particle` → `assign(particle.name)`; anything else → NotImplementedError;
* `__formulate_dynamics`       : `decay not in dynamics → 1`, else `builder(decay.parent.particle,
  _generate_kinematic_variable_set(transition, node))`, parameters written into one dict
  (last writer wins, a warning when the value differs).

Assumptions (stated in the evidence): `Particle.__eq__` ignores the name, the wire format
identifies particles by name, so distinct names must differ in some quantum number (mass);
`l_projection` / `s_projection` of an interaction are determined by the helicities and are not
part of the modelled key.
-/
import Ampverif.Model.C01Builder

namespace Ampverif.Model.C13
open Ampverif.Model.C01

/-- the hashable `TwoBodyDecay`: parent and ordered children (each with id, particle, projection), interaction -/
abbrev Decay := State × State × State × Inter

/-- `TwoBodyDecay.from_transition`; the node id is not part of the real key (the states carry their edge ids) -/
def dkey (ss : List State) (is : List Inter) (ni : NodeInfo) : Decay :=
  let k := decayKey ss is ni
  (k.1, k.2.1, k.2.2.1, { k.2.2.2 with node := 0 })

abbrev BuilderId := Nat

/-- `create_non_dynamic` -/
def nonDynamic : BuilderId := 0

inductive Sel where
  | byName (s : Name)
  | byParticle (p : Nat)
  | byDecay (d : Decay)
  | byNode (t n : Nat)
  /-- unsupported selection type (int, list, malformed tuple …): NotImplementedError, no change -/
  | unsupported
deriving Repr, DecidableEq

structure Op where
  sel : Sel
  b : BuilderId
deriving Repr, DecidableEq

/-- what the selector needs to know about the reaction -/
structure Ctx where
  /-- particle index ↦ name -/
  pname : Nat → Name
  /-- (transition index, node id) ↦ TwoBodyDecay.from_transition -/
  decayAt : Nat → Nat → Option Decay

abbrev Choices := List (Decay × BuilderId)

/-- DynamicsSelector.__init__ -/
def init (ds : List Decay) : Choices := ds.foldl (fun m d => dictSet d nonDynamic m) []

def setByName (ctx : Ctx) (s : Name) (b : BuilderId) (m : Choices) : Choices :=
  m.map (fun kv => if ctx.pname kv.1.1.pidx = s then (kv.1, b) else kv)

/-- DynamicsSelector.assign -/
def assign (ctx : Ctx) (m : Choices) (op : Op) : Choices :=
  match op.sel with
  | .byDecay d => dictSet d op.b m
  | .byNode t n =>
    match ctx.decayAt t n with
    | some d => dictSet d op.b m
    | none => m
  | .byName s => setByName ctx s op.b m
  | .byParticle p => setByName ctx (ctx.pname p) op.b m
  | .unsupported => m

def run (ctx : Ctx) (ds : List Decay) (ops : List Op) : Choices := ops.foldl (assign ctx) (init ds)

/-- DynamicsSelector.__getitem__ (none = KeyError / `decay not in dynamics`) -/
def choice (m : Choices) (d : Decay) : Option BuilderId := dictGet? d m

/-! ### the one-line specification -/

/-- the decays a selection denotes -/
def denotes (ctx : Ctx) (sel : Sel) (d : Decay) : Bool :=
  match sel with
  | .byName s => decide (ctx.pname d.1.pidx = s)
  | .byParticle p => decide (ctx.pname d.1.pidx = ctx.pname p)
  | .byDecay d' => decide (d' = d)
  | .byNode t n => decide (ctx.decayAt t n = some d)
  | .unsupported => false

/-- builder of the LAST operation of the history whose selection denotes `d` -/
def lastDenoting (ctx : Ctx) : List Op → Decay → Option BuilderId
  | [], _ => none
  | op :: rest, d =>
    match lastDenoting ctx rest d with
    | some b => some b
    | none => if denotes ctx op.sel d then some op.b else none

/-- … else the non-dynamic default -/
def spec (ctx : Ctx) (ops : List Op) (d : Decay) : BuilderId := (lastDenoting ctx ops d).getD nonDynamic

/-! ### formulation: which builder is called on which variables -/

/-- one call `builder(decay.parent.particle, variable_set)` -/
structure DynCall where
  builder : BuilderId
  /-- particle index of the decaying state -/
  parent : Nat
  vars : VarSet
deriving Repr, DecidableEq

/-- __formulate_dynamics for one node of one chain: `none` = factor 1 because the decay is not a key -/
def nodeDyn (m : Choices) (r : Reaction) (ss : List State) (is : List Inter) (ni : NodeInfo) : Option DynCall :=
  match choice m (dkey ss is ni) with
  | none => none
  | some b => some ⟨b, (stateAt ss ni.self.edge).pidx, varSet r ss is ni⟩

/-- all decays of the reaction's own transitions, and of the combinatorics chains -/
def ownDecays (r : Reaction) : List Decay :=
  r.transitions.flatMap (fun t => (r.tree t.topo).infos.map (dkey t.states t.inters))

def chainDecays (r : Reaction) : List Decay :=
  r.transitions.flatMap (fun t => t.chains.flatMap (fun ch => (r.tree ch.topo).infos.map (dkey ch.states t.inters)))

/-- keys of a fresh selector; `covers` = fix e918528 -/
def initialDecays (covers : Bool) (r : Reaction) : List Decay :=
  if covers then chainDecays r else ownDecays r

def ctxOf (r : Reaction) : Ctx :=
  { pname := fun i => (r.particle i).name,
    decayAt := fun t n =>
      match r.transitions[t]? with
      | none => none
      | some tr =>
        match (r.tree tr.topo).infos.find? (fun ni => ni.nid = n) with
        | none => none
        | some ni => some (dkey tr.states tr.inters ni) }

/-- every builder call made while formulating the amplitudes, in the order of the real loops: spin groups,
topology groups, transitions, combinatorics chains, nodes (ascending ids) -/
def allCalls (m : Choices) (r : Reaction) : List DynCall :=
  (spinGroups r).flatMap (fun g => (topoGroups r g).flatMap (fun tg => tg.2.flatMap (fun t =>
    t.chains.flatMap (fun ch =>
      (r.tree ch.topo).infosSorted.filterMap (fun ni => nodeDyn m r ch.states t.inters ni)))))

/-! ### the chain amplitude as a product (both coefficient modes, all naming flags)

`__formulate_sequential_decay` / `_formulate_partial_decay`: a chain amplitude is
  (amplitude-coefficient mode)  C_{sequential suffix} · Π_nodes  D(φ,θ) · dynamics(node)
  (helicity-coupling mode)                              Π_nodes  H_{decay suffix} · D(φ,θ) · dynamics(node)
(the canonical builder multiplies Clebsch-Gordan factors per node, the parity prefactor is C03).  The
dynamics factor of a node is the SAME call in both modes; alignment, stable final-state ids and the scalar
initial-state mass do not enter a chain amplitude at all (`Config` fields that `chainSkel` never reads). -/

structure NodeSkel where
  /-- `H_{…}` of `__generate_helicity_coupling` (coupling mode only) -/
  coupling : Option Name
  /-- angles of the Wigner-D function of the node (helicity child) -/
  phi : Name
  theta : Name
  /-- `__formulate_dynamics`: `none` = factor 1 because the decay is not a key of the selector -/
  dyn : Option DynCall
deriving Repr, DecidableEq

structure ChainSkel where
  /-- `C_{…}` of `__generate_amplitude_coefficient` (amplitude-coefficient mode only) -/
  coef : Option Name
  nodes : List NodeSkel
deriving Repr, DecidableEq

def nodeSkel (cfg : Config) (m : Choices) (r : Reaction) (ss : List State) (is : List Inter) (ni : NodeInfo) : NodeSkel :=
  { coupling := if cfg.helicityCouplings then some (couplingName (decaySuffix ⟨r, cfg⟩ ss is ni)) else none,
    phi := phiSym ni.c1 ni.anc, theta := thetaSym ni.c1 ni.anc,
    dyn := nodeDyn m r ss is ni }

/-- `pm` = naming.parity_partner_coefficient_mapping (`parityMapping ⟨r, cfg⟩`) -/
def chainSkel (cfg : Config) (m : Choices) (r : Reaction) (pm : List (Name × Name)) (t : Transition) (ch : Chain) : ChainSkel :=
  let tree := r.tree ch.topo
  { coef := if cfg.helicityCouplings then none
            else some (coefficientName (sequentialSuffix ⟨r, cfg⟩ pm tree ch.states t.inters)),
    nodes := tree.infosSorted.map (nodeSkel cfg m r ch.states t.inters) }

/-- the dynamics factors that are multiplied INTO the chain amplitude (builder 0 = `create_non_dynamic` = 1) -/
def ChainSkel.dynFactors (s : ChainSkel) : List DynCall := s.nodes.filterMap (·.dyn)

def enumFrom {α} : Nat → List α → List (Nat × α)
  | _, [] => []
  | k, x :: xs => (k, x) :: enumFrom (k + 1) xs

/-- (transition index, chain index) ↦ skeleton of that chain amplitude -/
def allSkels (cfg : Config) (m : Choices) (r : Reaction) : List (Nat × Nat × ChainSkel) :=
  let pm := parityMapping ⟨r, cfg⟩
  (enumFrom 0 r.transitions).flatMap (fun kt =>
    (enumFrom 0 kt.2.chains).map (fun jc => (kt.1, jc.1, chainSkel cfg m r pm kt.2 jc.2)))

/-! ### parameter defaults -/

/-- values are opaque tokens (bit patterns of the real part; never compared as floats) -/
abbrev Val := Nat

structure PInfo where
  ident : Name
  mass : Val
  width : Val

/-- what a builder returns as `parameters`; `one` = the token of 1.0 -/
def builderDefaults (one : Val) (k : Kind) (p : Particle) (pi : PInfo) : List (Name × Val) :=
  match k with
  | .nd => []
  | .bw => [(resMass p, pi.mass), (resWidth p, pi.width)]
  | .bwff => [(resMass p, pi.mass), (resWidth p, pi.width), (resRadius p, one)]
  | .ff => [(resRadius p, one)]
  | .custom => [(customPar p, one)]

/-- `parameter_defaults[par] = value` for every returned parameter, in call order: last writer wins -/
def collect (writes : List (Name × Val)) : List (Name × Val) :=
  writes.foldl (fun d kv => dictSet kv.1 kv.2 d) []

/-- BuilderId ↦ kind for the library builders used in formulated models (ids ≥ 4: custom markers) -/
def kindOfId : BuilderId → Kind
  | 0 => .nd
  | 1 => .bw
  | 2 => .bwff
  | 3 => .ff
  | _ => .custom

def callWrites (one : Val) (r : Reaction) (pinfo : Nat → PInfo) (calls : List DynCall) : List (Name × Val) :=
  calls.flatMap (fun c => builderDefaults one (kindOfId c.builder) (r.particle c.parent) (pinfo c.parent))

/-- is the amplitude symbol this chain is added to (`base[helicities]`, base of the transition's topology group,
helicities of the chain) one the intensity sums over?  (Reactions with partial helicity sets and identical
particles can have swapped chains whose helicity tuple is outside the summation pools: C01 territory.) -/
def chainReferenced (rf : List AmpKey) (r : Reaction) (t : Transition) (ch : Chain) : Bool :=
  rf.contains (ampBase (r.tree t.topo), chainHel r ch)

/-- two topology groups whose amplitude base NAME coincides although the topologies differ (isomorphic topologies
with other node ids, e.g. in synthetic four-body reactions): `amplitudes[base[helicities]] = …` of the later group
overwrites the earlier one.  Which amplitude survives is C01's subject; the C13 clause on `model.expression` is
stated for reactions without such a collision. -/
def baseCollision (r : Reaction) : Bool :=
  r.transitions.any (fun t => r.transitions.any (fun t' =>
    decide (r.tree t.topo ≠ r.tree t'.topo) && decide (ampBase (r.tree t.topo) = ampBase (r.tree t'.topo))))

/-- the dynamics parameters that must occur in `model.expression`: every parameter returned by a builder call is
a factor of the chain amplitude it was called for, so it occurs in the expression as soon as the intensity
refers to that chain's amplitude symbol -/
def dynParamsInExpression (cfg : Config) (m : Choices) (r : Reaction) : List Name :=
  let pm := parityMapping ⟨r, cfg⟩
  let rf := refs ⟨.refs, true, true, true⟩ r cfg
  r.transitions.flatMap (fun t => t.chains.flatMap (fun ch =>
    if chainReferenced rf r t ch then
      (chainSkel cfg m r pm t ch).dynFactors.flatMap (fun c => (kindOfId c.builder).params (r.particle c.parent))
    else []))

end Ampverif.Model.C13
