/-
C03 — data model of an exact Clebsch–Gordan table (import-free).

All angular momenta are stored DOUBLED (`j1 = 2·j₁` …). A coefficient is stored as
`sign · √(num/den)` with `sign ∈ {−1, 0, 1}`. The table itself (`Gen/C03CG.lean`) is regenerated
from the installed SymPy on every run.
-/

namespace Ampverif.Model.C03CG

/-- key of a coefficient `⟨j₁ m₁; j₂ m₂ | J M⟩` (everything doubled). -/
structure Key where
  j1 : Nat
  m1 : Int
  j2 : Nat
  m2 : Int
  J : Nat
  M : Int
deriving Repr, BEq, DecidableEq, Inhabited

/-- value `sign · √(num/den)`. -/
structure Val where
  sign : Int
  num : Nat
  den : Nat
deriving Repr, BEq, DecidableEq, Inhabited

abbrev Block := List (Key × Val)

/-- the table: one block per `(2j₁, 2j₂)`. -/
abbrev Table := List ((Nat × Nat) × Block)

def zero : Val := ⟨0, 0, 1⟩

def Block.get? : Block → Key → Option Val
  | [], _ => none
  | (k, v) :: rest, q => if k = q then some v else Block.get? rest q

def Table.block? : Table → Nat × Nat → Option Block
  | [], _ => none
  | (p, b) :: rest, q => if p = q then some b else Table.block? rest q

/-- lookup; a coefficient that is not in the table reads as `0`. -/
def Table.get (t : Table) (k : Key) : Val :=
  match t.block? (k.j1, k.j2) with
  | some b => (b.get? k).getD zero
  | none => zero

/-- `(−1)^(n/2)` for an even doubled exponent `n`. -/
def phase (n : Int) : Int := if n % 4 = 0 then 1 else -1

/-- `m₁, m₂, M ↦ −m₁, −m₂, −M`. -/
def Key.flip (k : Key) : Key := { k with m1 := -k.m1, m2 := -k.m2, M := -k.M }

/-- doubled exponent of the parity phase: `2(j₁ + j₂ − J)`. -/
def Key.expo (k : Key) : Int := (k.j1 : Int) + (k.j2 : Int) - (k.J : Int)

def Val.scale (s : Int) (v : Val) : Val := { v with sign := s * v.sign }

/-- every entry's mirror entry is in the same block and carries the parity phase; moreover the
phase exponent of every stored entry is even and the signs are in `{−1,0,1}`. -/
def Block.symmetric (b : Block) : Bool :=
  b.all fun (k, v) =>
    decide (b.get? k.flip = some (v.scale (phase k.expo)))
    && k.expo % 2 == 0
    && (v.sign == 1 || v.sign == -1 || v.sign == 0)
    && v.den != 0

def Table.symmetric (t : Table) : Bool :=
  t.all fun (p, b) => b.symmetric && b.all fun (k, _) => (k.j1, k.j2) == p

/-- number of stored coefficients. -/
def Table.size (t : Table) : Nat := (t.map fun (_, b) => b.length).foldl (· + ·) 0

end Ampverif.Model.C03CG
