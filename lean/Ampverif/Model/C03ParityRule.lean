/-
C03 — third switch of the prefactor rule: is the product of `η` taken over the flipped NODES of
a chain (a list: a two-body decay that occurs at two nodes contributes twice), or over the
distinct coefficient SUFFIXES of the flipped nodes (factors first collected in a Python
`dict[str, float]` keyed by `generate_two_body_decay_suffix`, then multiplied)?

Core Lean only; extends `Model/C03Parity.lean` without changing it (the C02 model imports that
file). Driven by `Drivers/C03.lean`, compared with the working tree by `tools/props/C03.py`.
-/
import Ampverif.Model.C03Parity

namespace Ampverif.Model.C03

/-- The prefactor rule with all three switches. `perNode = true`: one factor per flipped node
(with multiplicity; this is `prefactor v`). `perNode = false`: the factors of the flipped nodes
are stored under the node's raw suffix (`d[raw_suffix] = eta`, later nodes overwrite) and the
values of the dict are multiplied: equal decays at several nodes of one chain count once. -/
structure Rule where
  v : Variant
  perNode : Bool
deriving Repr, BEq, DecidableEq, Inhabited

def Rule.sound (r : Rule) : Prop := r.v.sound ∧ r.perNode = true

instance (r : Rule) : Decidable r.sound := by unfold Rule.sound; exact inferInstance

/-- a Python `dict[str, float]` with values `±1` (insertion ordered). -/
abbrev Factors := List (String × Int)

/-- `d[k] = x`. -/
def Factors.set (d : Factors) (k : String) (x : Int) : Factors :=
  match d with
  | [] => [(k, x)]
  | (a, b) :: rest => if a = k then (a, x) :: rest else (a, b) :: Factors.set rest k x

/-- `reduce(operator.mul, d.values(), 1)`. -/
def Factors.product : Factors → Int
  | [] => 1
  | (_, x) :: rest => x * Factors.product rest

/-- loop body: a flipped node with `parity_prefactor is not None` stores its factor under its raw suffix. -/
def collectNode (f : Flags) (m : Mapping) (d : Factors) (n : Node) : Factors :=
  if isFlipped f m n then
    match n.eta with
    | some e => d.set (rawSuffix f n) e
    | none => d
  else d

/-- the dict of one chain. -/
def suffixFactors (f : Flags) (m : Mapping) (c : Chain) : Factors := c.foldl (collectNode f m) []

/-- product over the distinct suffixes of the flipped nodes. -/
def suffixKeyedProduct (f : Flags) (m : Mapping) (c : Chain) : Int := (suffixFactors f m c).product

/-- `__generate_amplitude_prefactor` under rule `r` (`none` = `None`). -/
def prefactorR (r : Rule) (f : Flags) (m : Mapping) (c : Chain) : Option Int :=
  if r.perNode then prefactor r.v f m c
  else if r.v.perFlippedNode then
    let p := suffixKeyedProduct f m c
    let guard := if r.v.guardOnFlipped then p != 1 else allProduct c != 1
    if anyFlipped f m c && guard then some p else none
  else prefactor r.v f m c

def prefactorValR (r : Rule) (f : Flags) (m : Mapping) (c : Chain) : Int :=
  (prefactorR r f m c).getD 1

/-- number of flipped nodes of the chain whose raw suffix already occurred at an earlier flipped node
(the input class on which the two readings of "product over the flipped nodes" can differ). -/
def repeatedFlipped (f : Flags) (m : Mapping) : Chain → List String → Nat
  | [], _ => 0
  | n :: rest, seen =>
    if isFlipped f m n then
      (if seen.contains (rawSuffix f n) then 1 else 0) + repeatedFlipped f m rest (rawSuffix f n :: seen)
    else repeatedFlipped f m rest seen

end Ampverif.Model.C03
