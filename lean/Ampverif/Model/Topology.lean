/-
M2 — the topology model (import-free, total, executable).

Isobar decay topologies as qrules has them (`Topo`: edges with an id, an originating and an
ending node id; final-state edges 0..n−1, initial edge −1, intermediate edges ≥ n), their
reading as binary decay trees (`Tree`), and line-by-line mirrors of

* `ampform/helicity/decay.py`:   `determine_attached_final_state`, `get_sibling_state_id`,
  `is_opposite_helicity_state`, `get_parent_id`, `list_decay_chain_ids`;
* `ampform/helicity/naming.py`:  `get_boost_chain_suffix`, `get_helicity_angle_symbols`,
  `natural_sorting`;
* `ampform/kinematics/lorentz.py`: `get_invariant_mass_symbol`, `compute_invariant_masses`,
  `__get_boost_chain_ids` (the id list `compute_boost_chain` walks through);
* `ampform/kinematics/angles.py`: the `compute_helicity_angles` recursion, including the
  opposite-helicity branch;
* `ampform/kinematics/__init__.py`: `HelicityAdapter` registration,
  `permutate_registered_topologies`, `create_expressions` (dict merge in iteration order).

What the model produces for every kinematic-variable symbol is a DESCRIPTOR of what the symbol
is computed from, not a number:

* mass name  ↦ the list of final-state ids whose four-momenta are summed;
* angle name ↦ (chain of subsystems boosted into — each a list of final-state ids —,
                 list of final-state ids whose (boosted) momenta are summed and measured).
  `phi…` and `theta…` always come as a pair with the same descriptor.

The one place where the pinned source is known to deviate from its documentation is a field of
`Variant`: `angleSource = decaying` (pinned: in the opposite-helicity branch the angle symbols of
the helicity state are filled with the momentum of the DECAYING opposite-helicity child) vs
`angleSource = helicityState` (documented: the angles are those of the helicity state).
-/

namespace Ampverif.Model.Topology

/-! ## Trees -/

/-- A decay tree: every (sub)tree is an edge of the topology (its `id`) together with what the
edge decays into. The whole topology is the tree of the initial edge (id −1 in qrules). -/
inductive Tree where
  | leaf (id : Int)
  | node (id : Int) (a b : Tree)
  deriving Repr, DecidableEq, Inhabited

namespace Tree

def id : Tree → Int
  | leaf i => i
  | node i _ _ => i

def isLeaf : Tree → Bool
  | leaf _ => true
  | node _ _ _ => false

/-- final-state edge ids below (or at) this edge, in tree order -/
def leaves : Tree → List Int
  | leaf i => [i]
  | node _ a b => a.leaves ++ b.leaves

/-- all edge ids of the tree (pre-order) -/
def ids : Tree → List Int
  | leaf i => [i]
  | node i a b => i :: (a.ids ++ b.ids)

/-- all subtrees (pre-order) -/
def subtrees : Tree → List Tree
  | leaf i => [leaf i]
  | node i a b => node i a b :: (a.subtrees ++ b.subtrees)

end Tree

/-! ## Sorting and tuple comparison (Python `sorted`, `tuple.__gt__`) -/

def insertSorted (x : Int) : List Int → List Int
  | [] => [x]
  | y :: ys => if x ≤ y then x :: y :: ys else y :: insertSorted x ys

def sortInts : List Int → List Int
  | [] => []
  | x :: xs => insertSorted x (sortInts xs)

/-- Python `tuple(a) > tuple(b)` -/
def lexGt : List Int → List Int → Bool
  | [], _ => false
  | _ :: _, [] => true
  | x :: xs, y :: ys => if x > y then true else if x < y then false else lexGt xs ys

/-- `determine_attached_final_state` of the edge at the root of `s`:
`[state_id]` for a final state, else `sorted(get_originating_final_state_edge_ids(node))`. -/
def Tree.attached (s : Tree) : List Int := sortInts s.leaves

/-! ## Lookups by edge id (the code addresses everything through `topology.edges[state_id]`) -/

/-- the edges from the initial edge down to edge `e`, both included -/
def pathTo : Tree → Int → Option (List Tree)
  | .leaf i, e => if i = e then some [.leaf i] else none
  | .node i a b, e =>
    if i = e then some [.node i a b]
    else match pathTo a e with
      | some p => some (.node i a b :: p)
      | none => match pathTo b e with
        | some p => some (.node i a b :: p)
        | none => none

/-- `topology.edges[e]` together with what hangs below it -/
def find? (t : Tree) (e : Int) : Option Tree :=
  match pathTo t e with
  | some p => p.getLast?
  | none => none

/-- the decaying edge whose decay products include edge `e` (`none` for the initial edge) -/
def parentNode? (t : Tree) (e : Int) : Option Tree :=
  match pathTo t e with
  | some p => p.dropLast.getLast?
  | none => none

/-- Errors of the real code mapped to a small enum. -/
inductive Err where
  | keyError | valueError | notIsobar | malformed
  deriving Repr, DecidableEq

def Err.toString : Err → String
  | .keyError => "KeyError"
  | .valueError => "ValueError"
  | .notIsobar => "ValueError"
  | .malformed => "Malformed"

/-- `determine_attached_final_state(topology, state_id)` -/
def determineAttached (t : Tree) (e : Int) : Except Err (List Int) :=
  match find? t e with
  | some s => .ok s.attached
  | none => .error .keyError

/-- attached final states, `[]` for an unknown edge (used inside the recursion where the edge is
known to exist) -/
def attachedE (t : Tree) (e : Int) : List Int :=
  match find? t e with
  | some s => s.attached
  | none => []

/-- `get_parent_id(topology, state_id)`: `ok none` for the initial edge -/
def getParentId (t : Tree) (e : Int) : Except Err (Option Int) :=
  match pathTo t e with
  | none => .error .keyError
  | some _ => match parentNode? t e with
    | some p => .ok (some p.id)
    | none => .ok none

/-- `get_sibling_state_id(topology, state_id)` (ValueError for the initial edge) -/
def getSiblingId (t : Tree) (e : Int) : Except Err Int :=
  match pathTo t e with
  | none => .error .keyError
  | some _ => match parentNode? t e with
    | some (.node _ a b) => .ok (if a.id = e then b.id else a.id)
    | _ => .error .valueError

def siblingE (t : Tree) (e : Int) : Int :=
  match getSiblingId t e with
  | .ok s => s
  | .error _ => e

/-- `is_opposite_helicity_state(topology, state_id)`:
`tuple(attached(state)) > tuple(attached(sibling))` -/
def isOpposite (t : Tree) (e : Int) : Except Err Bool :=
  match getSiblingId t e with
  | .error x => .error x
  | .ok s => .ok (lexGt (attachedE t e) (attachedE t s))

def isOppositeE (t : Tree) (e : Int) : Bool :=
  lexGt (attachedE t e) (attachedE t (siblingE t e))

/-- `list_decay_chain_ids(topology, state_id)`: the edge, its parent, …, the initial edge -/
def listDecayChainIds (t : Tree) (e : Int) : Except Err (List Int) :=
  match pathTo t e with
  | some p => .ok (p.reverse.map Tree.id)
  | none => .error .keyError

/-- `__get_boost_chain_ids`: from the first resonance down to the state (initial edge removed);
these are the states `compute_boost_chain` boosts into, in that order. Removing the initial
edge from the chain of the initial edge itself leaves the empty list. -/
def boostChainIds (t : Tree) (e : Int) : Except Err (List Int) :=
  match pathTo t e with
  | some p => .ok ((p.drop 1).map Tree.id)
  | none => .error .keyError

/-! ## Names -/

/-- Python `str(int)` -/
def digitsOf (i : Int) : List Char := (toString i).toList

/-- `"".join(map(str, ids))` -/
def concatDigits (ids : List Int) : List Char := (ids.map digitsOf).flatten

/-- `recursive_label`'s own part: the state id for a final state, else the concatenated
attached final-state ids. (For a final state both coincide.) -/
def labelOf (s : Tree) : List Char :=
  match s with
  | .leaf i => digitsOf i
  | .node _ _ _ => concatDigits s.attached

def intercalateChars (sep : List Char) : List (List Char) → List Char
  | [] => []
  | [g] => g
  | g :: gs => g ++ sep ++ intercalateChars sep gs

/-- `_{subscript}` or `_{subscript}^{g1,g2,…}` from the index groups -/
def renderGroups : List (List Char) → List Char
  | [] => ['_']
  | [g] => '_' :: g
  | g :: gs => '_' :: g ++ '^' :: intercalateChars [','] gs

/-- the index groups of `get_boost_chain_suffix`: own label, then the labels of the decaying
states above it from the nearest to the farthest, the initial state left out (except when the
state IS the initial state) -/
def suffixGroups (t : Tree) (e : Int) : Except Err (List (List Char)) :=
  match pathTo t e with
  | none => .error .keyError
  | some p =>
    match p with
    | [r] => .ok [labelOf r]
    | _ => .ok ((p.drop 1).reverse.map labelOf)

/-- `get_boost_chain_suffix(topology, state_id)` -/
def boostChainSuffix (t : Tree) (e : Int) : Except Err (List Char) :=
  match suffixGroups t e with
  | .ok g => .ok (renderGroups g)
  | .error x => .error x

def suffixE (t : Tree) (e : Int) : List Char :=
  match boostChainSuffix t e with
  | .ok s => s
  | .error _ => []

/-- `get_invariant_mass_symbol(topology, state_id).name` -/
def massName (t : Tree) (e : Int) : Except Err (List Char) :=
  match determineAttached t e with
  | .ok ids => .ok (['m', '_'] ++ concatDigits (sortInts ids))
  | .error x => .error x

/-! ## `natural_sorting`

`re.split(r"[+-]?([0-9]+(?:[.][0-9]*)?|[.][0-9]+)", text)` with every piece cast to a float when
possible. For the names that occur here (letters, `_ ^ ,` and digit runs without `+ - .`) the key
is the alternating list text, number, text, … starting and ending with a text piece. -/

inductive NatKey where
  | text (s : List Char)
  | num (n : Nat)
  deriving Repr, DecidableEq

def digitVal (c : Char) : Nat := c.toNat - '0'.toNat

def naturalKeyAux : List Char → List Char → Option Nat → List NatKey
  | [], txt, none => [.text txt.reverse]
  | [], _, some n => [.num n, .text []]
  | c :: cs, txt, none =>
    if c.isDigit then .text txt.reverse :: naturalKeyAux cs [] (some (digitVal c))
    else naturalKeyAux cs (c :: txt) none
  | c :: cs, _, some n =>
    if c.isDigit then naturalKeyAux cs [] (some (10 * n + digitVal c))
    else .num n :: naturalKeyAux cs [c] none

def naturalKey (s : List Char) : List NatKey := naturalKeyAux s [] none

def charsLt : List Char → List Char → Bool
  | [], [] => false
  | [], _ :: _ => true
  | _ :: _, [] => false
  | x :: xs, y :: ys => if x < y then true else if y < x then false else charsLt xs ys

/-- comparison of two keys of the same shape (text/number alternate, so Python never has to
compare a float with a str) -/
def natKeyLt : List NatKey → List NatKey → Bool
  | [], [] => false
  | [], _ :: _ => true
  | _ :: _, [] => false
  | .text a :: xs, .text b :: ys => if charsLt a b then true else if charsLt b a then false else natKeyLt xs ys
  | .num a :: xs, .num b :: ys => if a < b then true else if b < a then false else natKeyLt xs ys
  | .text _ :: _, .num _ :: _ => false
  | .num _ :: _, .text _ :: _ => true

def insertNatural (x : List Char) : List (List Char) → List (List Char)
  | [] => [x]
  | y :: ys => if natKeyLt (naturalKey y) (naturalKey x) || (naturalKey y == naturalKey x)
               then y :: insertNatural x ys else x :: y :: ys

/-- `sorted(names, key=natural_sorting)` (stable) -/
def naturalSort (l : List (List Char)) : List (List Char) :=
  l.foldl (fun acc x => insertNatural x acc) []

/-! ## Descriptors and the `compute_helicity_angles` recursion -/

inductive AngleSource where
  | decaying        -- pinned source: Phi/Theta of the decaying (possibly opposite-helicity) child
  | helicityState   -- documented: Phi/Theta of the helicity state the symbol is named after
  deriving Repr, DecidableEq

structure Variant where
  angleSource : AngleSource
  deriving Repr, DecidableEq

def Variant.pinned : Variant := ⟨.decaying⟩
def Variant.documented : Variant := ⟨.helicityState⟩

/-- What an angle pair `phi<suffix>`, `theta<suffix>` is computed from: the momenta of the final
states in `target` are boosted successively into the subsystems of `chain` (each time
`Bz(β) · Ry(−θ) · Rz(−φ)` of the subsystem's summed momentum in the previous frame), summed, and
`Phi`/`Theta` are taken of that sum. -/
structure Desc where
  chain : List (List Int)
  target : List Int
  deriving Repr, DecidableEq

/-- one assignment `helicity_angles[phi], helicity_angles[theta] = Phi(..), Theta(..)` -/
structure Write where
  suffix : List Char
  desc : Desc
  deriving Repr, DecidableEq

/-- the assignment made for a decaying child `c` of the current node (loop body of
`__recursive_helicity_angles`), followed by the writes of the recursion into `c` -/
def childWrites (v : Variant) (top : Tree) (chain : List (List Int)) (c : Tree)
    (sub : List Write) : List Write :=
  match c with
  | .leaf _ => []
  | .node _ _ _ =>
    let ids := attachedE top c.id            -- sub_momenta_ids
    let s := if isOppositeE top c.id then siblingE top c.id else c.id
    let target := match v.angleSource with
      | .decaying => ids                     -- Phi(four_momentum) of the decaying child
      | .helicityState => attachedE top s    -- momentum of the state the symbol is named after
    ⟨suffixE top s, ⟨chain, target⟩⟩ :: sub

/-- the writes of `__recursive_helicity_angles(four_momenta, node)` in program order, where the
node is the one edge `s` ends in and `chain` lists the subsystems the momentum pool has been
boosted into so far -/
def recAngles (v : Variant) (top : Tree) : List (List Int) → Tree → List Write
  | _, .leaf _ => []
  | chain, .node _ a b =>
    let c0 := if a.id ≤ b.id then a else b          -- child_state_ids = sorted(...)
    let c1 := if a.id ≤ b.id then b else a
    let first : List Write :=
      if a.isLeaf && b.isLeaf then
        let s := if isOppositeE top c0.id then c1.id else c0.id
        [⟨suffixE top s, ⟨chain, [s]⟩⟩]
      else []
    let ra := recAngles v top (chain ++ [attachedE top a.id]) a
    let rb := recAngles v top (chain ++ [attachedE top b.id]) b
    let wa := childWrites v top chain a ra
    let wb := childWrites v top chain b rb
    first ++ (if a.id ≤ b.id then wa ++ wb else wb ++ wa)

/-- `compute_helicity_angles(four_momenta, topology)` as the list of dict assignments -/
def angleWrites (v : Variant) (top : Tree) : List Write := recAngles v top [] top

/-! ## Dictionaries (Python `dict`: assignment keeps the first insertion position) -/

def dictSet {β : Type} (d : List (List Char × β)) (k : List Char) (x : β) : List (List Char × β) :=
  match d with
  | [] => [(k, x)]
  | (k', y) :: rest => if k' = k then (k', x) :: rest else (k', y) :: dictSet rest k x

def dictUpdate {β : Type} (d : List (List Char × β)) (ws : List (List Char × β)) :
    List (List Char × β) :=
  ws.foldl (fun acc w => dictSet acc w.1 w.2) d

def dictGet? {β : Type} (d : List (List Char × β)) (k : List Char) : Option β :=
  match d with
  | [] => none
  | (k', y) :: rest => if k' = k then some y else dictGet? rest k

/-- a symbol's definition: a mass (ids summed) or an angle of kind phi/theta -/
inductive Def where
  | mass (ids : List Int)
  | phi (d : Desc)
  | theta (d : Desc)
  deriving Repr, DecidableEq

def Write.entries (w : Write) : List (List Char × Def) :=
  [(['p', 'h', 'i'] ++ w.suffix, .phi w.desc), (['t', 'h', 'e', 't', 'a'] ++ w.suffix, .theta w.desc)]

/-- `compute_helicity_angles` as a dict -/
def helicityAngles (v : Variant) (top : Tree) : List (List Char × Def) :=
  dictUpdate [] ((angleWrites v top).flatMap Write.entries)

/-- the assignments of `compute_invariant_masses`: one per edge, in the order of
`topology.edges` as given (`order`) -/
def massWrites (top : Tree) (order : List Int) : List (List Char × Def) :=
  order.filterMap fun e =>
    match determineAttached top e, massName top e with
    | .ok ids, .ok nm => some (nm, .mass ids)
    | _, _ => none

def invariantMasses (top : Tree) (order : List Int) : List (List Char × Def) :=
  dictUpdate [] (massWrites top order)

/-- one topology's contribution to `create_expressions`: angles, then masses -/
def topologyWrites (v : Variant) (top : Tree) (order : List Int) : List (List Char × Def) :=
  helicityAngles v top ++ invariantMasses top order

/-- `HelicityAdapter.create_expressions()` for the registered topologies in iteration order -/
def createExpressions (v : Variant) (tops : List (Tree × List Int)) : List (List Char × Def) :=
  tops.foldl (fun acc t => dictUpdate acc (topologyWrites v t.1 t.2)) []

/-- names that receive two different definitions while merging (with both definitions) -/
def collisions (v : Variant) (tops : List (Tree × List Int)) :
    List (List Char × Def × Def) :=
  let all := tops.flatMap fun t => topologyWrites v t.1 t.2
  let rec go (ws : List (List Char × Def)) (seen : List (List Char × Def))
      (acc : List (List Char × Def × Def)) : List (List Char × Def × Def) :=
    match ws with
    | [] => acc.reverse
    | (k, x) :: rest =>
      match dictGet? seen k with
      | none => go rest ((k, x) :: seen) acc
      | some y =>
        if x = y then go rest seen acc
        else if acc.any (fun c => c.1 = k) then go rest seen acc
        else go rest seen ((k, y, x) :: acc)
  go all [] []

/-! ## qrules topologies (edge lists) and their reading as trees -/

structure Edge where
  id : Int
  orig : Option Nat      -- originating_node_id
  dest : Option Nat      -- ending_node_id
  deriving Repr, DecidableEq

/-- a `qrules.topology.Topology`: the node set is implied by the edges; `edges` is kept sorted by
id so that equality of topologies is equality of lists -/
structure Topo where
  edges : List Edge
  deriving Repr, DecidableEq

def insertEdge (x : Edge) : List Edge → List Edge
  | [] => [x]
  | y :: ys => if x.id ≤ y.id then x :: y :: ys else y :: insertEdge x ys

def Topo.normalize (t : Topo) : Topo := ⟨t.edges.foldr insertEdge []⟩

def Topo.edgeIds (t : Topo) : List Int := t.edges.map Edge.id

/-- `topology.outgoing_edge_ids` -/
def Topo.outgoing (t : Topo) : List Int := (t.edges.filter (·.dest.isNone)).map Edge.id

/-- `topology.incoming_edge_ids` -/
def Topo.incoming (t : Topo) : List Int := (t.edges.filter (·.orig.isNone)).map Edge.id

def buildTree (t : Topo) : Nat → Edge → Except Err Tree
  | 0, _ => .error .malformed
  | fuel + 1, e =>
    match e.dest with
    | none => .ok (.leaf e.id)
    | some n =>
      match t.edges.filter (·.orig == some n) with
      | [c1, c2] =>
        match buildTree t fuel c1, buildTree t fuel c2 with
        | .ok a, .ok b => .ok (.node e.id a b)
        | .error x, _ => .error x
        | _, .error x => .error x
      | _ => .error .notIsobar        -- assert_two_body_decay

def hasDup : List Int → Bool
  | [] => false
  | x :: xs => xs.contains x || hasDup xs

/-- the decay tree of a 1-to-n isobar topology; `notIsobar` mirrors `assert_isobar_topology`
(every node has one ingoing and two outgoing edges), `malformed` everything qrules itself would
refuse (no or several initial edges, duplicate ids, unreachable edges, cycles) -/
def Topo.toTree (t : Topo) : Except Err Tree :=
  if hasDup t.edgeIds then .error .malformed else
  match t.edges.filter (·.orig.isNone) with
  | [r] =>
    -- every node must have exactly one ingoing edge
    let dests := t.edges.filterMap (·.dest)
    if hasDup (dests.map Int.ofNat) then .error .notIsobar else
    match buildTree t (t.edges.length + 1) r with
    | .ok tree => if tree.ids.length = t.edges.length then .ok tree else .error .malformed
    | .error x => .error x
  | _ => .error .malformed

/-- relabel edge ids (`attrs.evolve(topology, edges={mapping.get(i, i): edge …})`) -/
def Topo.relabel (t : Topo) (m : List (Int × Int)) : Topo :=
  Topo.normalize ⟨t.edges.map fun e =>
    match m.lookup e.id with
    | some j => { e with id := j }
    | none => e⟩

def insertAll (x : Int) : List Int → List (List Int)
  | [] => [[x]]
  | y :: ys => (x :: y :: ys) :: (insertAll x ys).map (y :: ·)

/-- all permutations of a list (order irrelevant: the result is used as a set) -/
def permutations : List Int → List (List Int)
  | [] => [[]]
  | x :: xs => (permutations xs).flatMap (insertAll x)

def addTopo (s : List Topo) (t : Topo) : List Topo := if s.contains t then s else s ++ [t]

/-- `HelicityAdapter.permutate_registered_topologies`: for every registered topology and every
permutation of its final-state ids, the relabelled topology is added to the set -/
def permutateRegistered (reg : List Topo) : List Topo :=
  reg.foldl (fun acc t =>
    let fs := t.outgoing
    (permutations fs).foldl (fun acc' p => addTopo acc' (t.relabel (fs.zip p))) acc) reg

/-- `HelicityAdapter.register_topology`: isobar check, then initial/final ids must match those of
the topologies already registered -/
def registerTopology (reg : List Topo) (t : Topo) : Except Err (List Topo) :=
  match t.toTree with
  | .error .notIsobar => .error .notIsobar
  | .error x => .error x
  | .ok _ =>
    match reg with
    | [] => .ok [t.normalize]
    | r :: _ =>
      if sortInts t.incoming != sortInts r.incoming then .error .valueError
      else if sortInts t.outgoing != sortInts r.outgoing then .error .valueError
      else .ok (addTopo reg t.normalize)

/-- a HISTORY of `register_topology` calls on one adapter: a rejected call (any error) leaves the
registered set unchanged and is counted; returns (registered set, number of rejected calls) -/
def registerHistory (ts : List Topo) : List Topo × Nat :=
  ts.foldl (fun acc t => match registerTopology acc.1 t with
    | .ok reg => (reg, acc.2)
    | .error _ => (acc.1, acc.2 + 1)) ([], 0)

end Ampverif.Model.Topology
