/-
C12 — `RelativisticBreitWignerBuilder` as a state machine over a HISTORY of calls (import-free,
executable; `main` below is the line-protocol driver of the history correspondence).

A builder object is a configuration `(form_factor, energy_dependent_width, phsp_factor)`. A call
receives a resonance, a variable pool and that pool's angular momentum (`none` when the helicity
formalism provides no L). The model returns WHICH public lineshape the expression is (its skeleton)
together with the builder state after the call.

`Variant.soundV` is what `ampform/dynamics/builder.py` does on the clean tree: the state is never
written; with `L = none` a builder that needs L raises `ValueError`, the plain builder (no form
factor, no energy-dependent width) returns the plain Breit–Wigner. `Variant.stickyV` is the defect
class "a call rewrites the builder's flags" (a fallback for `L = none` stored on the instance): the
theorems in `Props/C12.lean` show purity for `soundV` and give a kernel-checked witness history for
`stickyV`.
-/
namespace Ampverif.C12Builder

structure Config where
  ff : Bool
  edw : Bool
  phsp : Nat
  deriving DecidableEq, Repr

structure Args where
  res : Nat
  L : Option Nat
  pool : Nat
  deriving DecidableEq, Repr

/-- Skeleton of the returned expression (each is a regenerated definition of `Gen/C12.lean`). -/
inductive Out where
  | valueError
  /-- `relativistic_breit_wigner(m², m_R, Γ_R)`; defaults `{m_R, Γ_R}` -/
  | plain (res pool : Nat)
  /-- `FormFactor(m², m_a, m_b, L, d_R) · relativistic_breit_wigner(…)`; defaults `{m_R, Γ_R, d_R}` -/
  | ffOnly (res pool L : Nat)
  /-- Breit–Wigner with `EnergyDependentWidth(…, L, d_R, phsp)`; defaults `{m_R, Γ_R, d_R}` -/
  | edwOnly (res pool L phsp : Nat)
  /-- `relativistic_breit_wigner_with_ff(m², m_R, Γ_R, m_a, m_b, L, d_R, phsp)` -/
  | full (res pool L phsp : Nat)
  deriving DecidableEq, Repr

inductive Variant where
  | soundV
  | stickyV
  deriving DecidableEq, Repr

/-- What a builder with flags `c` formulates for arguments with a defined angular momentum. -/
def formulate (c : Config) (res pool l : Nat) : Out :=
  match c.ff, c.edw with
  | false, false => Out.plain res pool
  | true, false => Out.ffOnly res pool l
  | false, true => Out.edwOnly res pool l c.phsp
  | true, true => Out.full res pool l c.phsp

/-- One call: (result, builder state afterwards). -/
def call (v : Variant) (c : Config) (a : Args) : Out × Config :=
  match a.L with
  | some l => (formulate c a.res a.pool l, c)
  | none =>
    match v with
    | Variant.soundV =>
      if c.ff || c.edw then (Out.valueError, c) else (Out.plain a.res a.pool, c)
    | Variant.stickyV =>
      (Out.plain a.res a.pool, { c with ff := false, edw := false })

/-- A history on ONE builder object: outputs in order and the final state. -/
def run (v : Variant) : Config → List Args → List Out × Config
  | c, [] => ([], c)
  | c, a :: rest =>
    let (o, c') := call v c a
    let (os, c'') := run v c' rest
    (o :: os, c'')

/-- The same calls, each on a FRESH builder of configuration `c`. -/
def fresh (v : Variant) (c : Config) (hist : List Args) : List Out :=
  hist.map (fun a => (call v c a).1)

-- ---------------------------------------------------------------- line protocol

def Out.render : Out → String
  | .valueError => "ValueError"
  | .plain r p => s!"plain res={r} pool={p}"
  | .ffOnly r p l => s!"ff res={r} pool={p} L={l}"
  | .edwOnly r p l f => s!"edw res={r} pool={p} L={l} phsp={f}"
  | .full r p l f => s!"full res={r} pool={p} L={l} phsp={f}"

def Config.render (c : Config) : String :=
  s!"attrs ff={if c.ff then 1 else 0} edw={if c.edw then 1 else 0} phsp={c.phsp}"

def parseVariant : String → Variant
  | "sticky" => Variant.stickyV
  | _ => Variant.soundV

/-- Protocol: `variant sound|sticky` · `builder <ff> <edw> <phsp>` (a new builder object) ·
`call <res> <L|-> <pool>` → one line `<output> | attrs …`. -/
partial def loop (h : IO.FS.Stream) (v : Variant) (c : Config) : IO Unit := do
  let line ← h.getLine
  if line.isEmpty then return ()
  let toks := (line.trimAscii.toString.splitOn " ").filter (· ≠ "")
  match toks with
  | ["variant", x] => loop h (parseVariant x) c
  | ["builder", f, e, p] =>
    loop h v { ff := f == "1", edw := e == "1", phsp := p.toNat! }
  | ["call", r, l, p] =>
    let a : Args := { res := r.toNat!, L := if l == "-" then none else some l.toNat!, pool := p.toNat! }
    let (o, c') := call v c a
    IO.println s!"{o.render} | {c'.render}"
    loop h v c'
  | [] => loop h v c
  | _ =>
    IO.println "bad-op"
    loop h v c

end Ampverif.C12Builder

-- `main` (line-protocol entry point) lives in Ampverif/Drivers/C12Builder.lean
