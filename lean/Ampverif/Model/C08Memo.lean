/-
C08 — `evaluate()` of the four matrix expression classes (`BoostMatrix`, `BoostZMatrix`,
`RotationYMatrix`, `RotationZMatrix`) over a HISTORY of calls in one process (import-free,
executable; the line-protocol entry point is `Ampverif/Drivers/C08Memo.lean`).

The property quantifies over matrix EXPRESSIONS: what `evaluate()` / `doit()` / `lambdify` make of an
expression must be a function of that expression alone. On the clean tree `evaluate()` builds a new
implementation object from the expression's own arguments on every call. Any memoisation of that
step (a decorator with a dict, `functools.cache`, a module-level table, an attribute on the class)
turns it into a state machine: a call looks the expression's KEY up in a process-global memo and
returns the stored implementation if the key is present. `key` is the key function:

* `key = id` (the expression itself) — the memo is transparent, which is also what "no memo at all"
  amounts to (`Props/C08Memo.lean: memo_pure`);
* `key = hashKey` (the integer `hash(expr)`): CPython has `hash(-1) == hash(-2)`, so two expressions
  that differ only in an integer `-1` vs `-2` (a coefficient, an exponent, the number itself,
  numerator of a rational, mantissa sign pattern of a float) share the key and the second call
  returns the implementation of the FIRST expression (`hash_key_witness`);
* `key = argKey` (arguments without the class: one table shared by the four classes) and
  `key = noEventsKey` (the `n_events` argument left out) are the neighbouring non-injective keys.

An expression is `(class, shape, coeff, nEvents)`: `shape` is the code of the argument expression
with one integer position left open, `coeff` the integer in that position, `nEvents` the code of the
`n_events` argument. An implementation object carries the data of the expression it was built FROM;
`tools/corr/C08_history.py` canonicalises every real result (`evaluate()`, `doit()`, generated code,
explicit matrix, LaTeX) to the expression whose fresh-process result it equals and compares it with
this model call by call.
-/
namespace Ampverif.C08Memo

inductive Cls where
  | boost
  | boostZ
  | rotY
  | rotZ
  deriving DecidableEq, Repr

structure MExpr where
  cls : Cls
  shape : Nat
  coeff : Int
  nEvents : Nat
  deriving DecidableEq, Repr

/-- The implementation object built from an expression (`_…MatrixImplementation`): it carries the
argument (angle / beta / momentum with everything computed from it) and `n_events` of its source. -/
structure Impl where
  cls : Cls
  shape : Nat
  coeff : Int
  nEvents : Nat
  deriving DecidableEq, Repr

/-- What the un-memoised `evaluate()` body returns: a function of the expression alone. -/
def build (e : MExpr) : Impl := ⟨e.cls, e.shape, e.coeff, e.nEvents⟩

def lookup {κ : Type} [DecidableEq κ] (k : κ) : List (κ × Impl) → Option Impl
  | [] => none
  | kv :: rest => if kv.1 = k then some kv.2 else lookup k rest

/-- One `evaluate()` call through a memo keyed by `key`: (result, memo afterwards). -/
def call {κ : Type} [DecidableEq κ] (key : MExpr → κ) (m : List (κ × Impl)) (e : MExpr) :
    Impl × List (κ × Impl) :=
  match lookup (key e) m with
  | some v => (v, m)
  | none => (build e, (key e, build e) :: m)

/-- A history of calls in ONE process: results in order and the final memo. -/
def run {κ : Type} [DecidableEq κ] (key : MExpr → κ) :
    List (κ × Impl) → List MExpr → List Impl × List (κ × Impl)
  | m, [] => ([], m)
  | m, e :: rest =>
    let r := call key m e
    let rs := run key r.2 rest
    (r.1 :: rs.1, rs.2)

/-- The same calls, each in a FRESH process. -/
def fresh (hist : List MExpr) : List Impl := hist.map build

-- ---------------------------------------------------------------- key functions

/-- CPython's `hash` on small integers: the identity except `hash(-1) = -2` (`-1` is the error
return value of the C-level hash slot). Tied to the running interpreter and to
`hash(sympy.Integer(n))`-collisions by `tools/corr/C08_history.py` on every run. -/
def pyHash (n : Int) : Int := if n = -1 then -2 else n

structure HKey where
  cls : Cls
  shape : Nat
  coeffHash : Int
  nEvents : Nat
  deriving DecidableEq, Repr

/-- `hash(expr)`: everything enters injectively except the integer, which enters through `pyHash`. -/
def hashKey (e : MExpr) : HKey := ⟨e.cls, e.shape, pyHash e.coeff, e.nEvents⟩

/-- one table for all classes, keyed by the arguments only -/
def argKey (e : MExpr) : Nat × Int × Nat := (e.shape, e.coeff, e.nEvents)

/-- keyed by class and argument, `n_events` left out -/
def noEventsKey (e : MExpr) : Cls × Nat × Int := (e.cls, e.shape, e.coeff)

-- ---------------------------------------------------------------- line protocol

def Cls.render : Cls → String
  | .boost => "boost"
  | .boostZ => "boostZ"
  | .rotY => "rotY"
  | .rotZ => "rotZ"

def parseCls : String → Option Cls
  | "boost" => some .boost
  | "boostZ" => some .boostZ
  | "rotY" => some .rotY
  | "rotZ" => some .rotZ
  | _ => none

def Impl.render (i : Impl) : String := s!"{i.cls.render} {i.shape} {i.coeff} {i.nEvents}"

inductive KeyKind where
  | ident
  | hash
  | arg
  | noEvents
  deriving DecidableEq, Repr

def parseKey : String → KeyKind
  | "hash" => .hash
  | "arg" => .arg
  | "noev" => .noEvents
  | _ => .ident

/-- result of the LAST call of a history -/
def lastOf (kind : KeyKind) (hist : List MExpr) : Option Impl :=
  match kind with
  | .ident => (run id [] hist).1.getLast?
  | .hash => (run hashKey [] hist).1.getLast?
  | .arg => (run argKey [] hist).1.getLast?
  | .noEvents => (run noEventsKey [] hist).1.getLast?

/-- Protocol: `key id|hash|arg|noev` (also starts a new process) · `reset` (a new process) ·
`eval <cls> <shape> <coeff> <nEvents>` → the implementation returned, rendered like an expression ·
`pyhash <n>` → `pyHash n`. -/
partial def loop (h : IO.FS.Stream) (kind : KeyKind) (hist : List MExpr) : IO Unit := do
  let line ← h.getLine
  if line.isEmpty then return ()
  let toks := (line.trimAscii.toString.splitOn " ").filter (· ≠ "")
  match toks with
  | ["key", x] => loop h (parseKey x) []
  | ["reset"] => loop h kind []
  | ["pyhash", n] =>
    match n.toInt? with
    | some v => IO.println s!"{pyHash v}"
    | none => IO.println "bad-op"
    loop h kind hist
  | ["eval", c, s, k, n] =>
    match parseCls c, s.toNat?, k.toInt?, n.toNat? with
    | some cls, some shape, some coeff, some nev =>
      let hist' := hist ++ [⟨cls, shape, coeff, nev⟩]
      match lastOf kind hist' with
      | some i => IO.println i.render
      | none => IO.println "bad-op"
      loop h kind hist'
    | _, _, _, _ =>
      IO.println "bad-op"
      loop h kind hist
  | [] => loop h kind hist
  | _ =>
    IO.println "bad-op"
    loop h kind hist

end Ampverif.C08Memo

-- `main` (line-protocol entry point) lives in Ampverif/Drivers/C08Memo.lean
