/-
C17 — executable, import-free model of `HelicityModel.rename_symbols`
(`/repo/src/ampform/helicity/__init__.py`, `rename_symbols` + `__collect_symbols` + the
ordering converters of the `HelicityModel` attrs class + `naming.natural_sorting`).

* names are lists of code points (`List Nat`), so that every function below reduces in the
  kernel (`decide`) and no `String` primitive is involved in a theorem;
* a symbol is `(name, assumption declaration)` — two symbols are the same SymPy object iff both agree.
  The declaration is the COMPLETE `assumptions0` dict (every True- and every False-valued fact), written
  as a ternary numeral (see "assumption declarations" below), not an opaque id: a rename that rebuilds a
  symbol from only part of the facts (e.g. only the ones that hold) produces a different `Sym`;
* expressions are trees over symbols, opaque constants and uninterpreted operators
  (`app classId args`): `xreplace` with a symbol→symbol rule is purely structural on such trees.
  What SymPy's constructors do when a node is rebuilt (`Add`/`Mul` flattening, sorting of
  arguments) is executed on the Python side, not modelled;
* the model record carries `expr` = the value of the `expression` property (it is only used
  through its free symbols by `rename`; `PoolSum.evaluate` belongs to C18);
* `Variant` = the two switches of fix 137fbcb and the switch of fix c9b6eb9.

The `main` at the end is the line-protocol driver (`lake env lean --run`); parser and printer
are `partial` driver code and are validated on every run by an echo round trip.
-/

namespace Ampverif.Model.C17

abbrev Name := List Nat

structure Sym where
  name : Name
  /-- the complete assumption declaration `assumptions0`, as a ternary numeral (`declFacts` decodes it) -/
  asm : Nat
deriving DecidableEq, Repr, Inhabited

/-! ### assumption declarations

`Sym.asm` IS the symbol's assumption declaration: the dict `s.assumptions0`, i.e. every fact SymPy holds
about the symbol — the ones declared or derived True AND the ones declared or derived False — and
`Symbol(name, **assumptions0)` is that symbol again (the harness checks this fixed-point property for
every declaration of a run). It is written as a numeral of `factWidth` ternary digits; digit `i` (most
significant first) belongs to the `i`-th of SymPy's 31 fact names in alphabetical order
(`sorted(sympy.core.assumptions._assume_defined)`: 0 algebraic, 1 antihermitian, 2 commutative, 3 complex,
…, 28 real, 29 transcendental, 30 zero):

    0 = in `assumptions0` with value False     1 = with value True     2 = not in `assumptions0`

With this digit assignment the numeric order of two declarations is the order of the strings
`str(sorted(s.assumptions0.items()))` (second component of the sort key of c9b6eb9): at the first fact
where two declarations differ, `'…', False` < `'…', True` < a later fact name or the closing bracket.
The harness re-checks that on all pairs of declarations of a run. -/

def factWidth : Nat := 31

/-- digit of fact `i` in a declaration -/
def factDigit (i asm : Nat) : Nat := (asm / 3 ^ (factWidth - 1 - i)) % 3

/-- the empty `assumptions0` (no such symbol exists: `commutative` is always there) -/
def noFacts : Nat := 3 ^ factWidth - 1

/-- add fact `i` with value `b` to a declaration that does not mention it -/
def declare (asm i : Nat) (b : Bool) : Nat := asm - (if b then 1 else 2) * 3 ^ (factWidth - 1 - i)

/-- the declaration with exactly the given facts (distinct fact numbers `< factWidth`) -/
def mkDecl (facts : List (Nat × Bool)) : Nat := facts.foldl (fun a f => declare a f.1 f.2) noFacts

/-- `sorted(assumptions0.items())` with fact numbers for fact names -/
def declFacts (asm : Nat) : List (Nat × Bool) :=
  (List.range factWidth).filterMap (fun i =>
    match factDigit i asm with
    | 0 => some (i, false)
    | 1 => some (i, true)
    | _ => none)

/-- The keyword arguments `{k: v for k, v in assumptions0.items() if v}`: only the facts that hold.
NOT what `rename_symbols` passes to `Symbol(new_name, **…)` — it passes all of `assumptions0` — but what a
"the derived facts are implied by the ones that hold" rebuild would pass; it drops every False-valued fact
(SymPy re-derives those implied by the remaining True facts; a fact like `zero=False` on a complex
coupling is implied by none). -/
def truthyOnly (asm : Nat) : Nat := mkDecl ((declFacts asm).filter (·.2))

inductive Expr where
  | sym (s : Sym)
  | const (c : Nat)
  | app (f : Nat) (args : List Expr)
deriving Repr, Inhabited

structure Variant where
  /-- `__collect_symbols` also collects the keys of `parameter_defaults` (137fbcb, part 1). -/
  collectsParams : Bool
  /-- a target name that already exists maps onto the existing symbol (137fbcb, part 2). -/
  reusesExisting : Bool
  /-- the collected symbols are looked through in sorted order and ONE new symbol is made per new name,
  with the assumptions of the first source (c9b6eb9); before that: set order, one new symbol per source. -/
  oneSymbolPerNewName : Bool
deriving DecidableEq, Repr

def Variant.sound (v : Variant) : Prop :=
  v.collectsParams = true ∧ v.reusesExisting = true ∧ v.oneSymbolPerNewName = true

instance (v : Variant) : Decidable v.sound := by unfold Variant.sound; exact inferInstance

/-- The variant of the tree after 137fbcb and c9b6eb9. -/
def Variant.fixed : Variant := ⟨true, true, true⟩

/-! ### expressions -/

mutual
/-- `Basic.xreplace` with a Symbol→Symbol rule (total function: identity off the rule). -/
def Expr.xreplace (σ : Sym → Sym) : Expr → Expr
  | .sym s => .sym (σ s)
  | .const c => .const c
  | .app f as => .app f (Expr.xreplaceL σ as)
def Expr.xreplaceL (σ : Sym → Sym) : List Expr → List Expr
  | [] => []
  | a :: as => a.xreplace σ :: Expr.xreplaceL σ as
end

mutual
/-- all symbol leaves (= `free_symbols` for trees without binders), with repetitions -/
def Expr.syms : Expr → List Sym
  | .sym s => [s]
  | .const _ => []
  | .app _ as => Expr.symsL as
def Expr.symsL : List Expr → List Sym
  | [] => []
  | a :: as => a.syms ++ Expr.symsL as
end

/-- Interpretation of constants, parameter values and operators in an arbitrary carrier. -/
structure Interp (α : Type) where
  const : Nat → α
  val : Nat → α
  op : Nat → List α → α

mutual
def Expr.eval {α : Type} (I : Interp α) (env : Sym → α) : Expr → α
  | .sym s => env s
  | .const c => I.const c
  | .app f as => I.op f (Expr.evalL I env as)
def Expr.evalL {α : Type} (I : Interp α) (env : Sym → α) : List Expr → List α
  | [] => []
  | a :: as => a.eval I env :: Expr.evalL I env as
end

/-! ### association lists with Python `dict` semantics -/

/-- first value stored under `k` -/
def alookup {κ β : Type} [DecidableEq κ] (k : κ) : List (κ × β) → Option β
  | [] => none
  | (k', v) :: rest => if k' = k then some v else alookup k rest

/-- `d[k] = v` on an insertion-ordered dict: an existing key keeps its position -/
def dictInsert {κ β : Type} [DecidableEq κ] (k : κ) (v : β) : List (κ × β) → List (κ × β)
  | [] => [(k, v)]
  | (k', v') :: rest => if k' = k then (k', v) :: rest else (k', v') :: dictInsert k v rest

/-- `{k: v for k, v in items}` -/
def dictOfList {κ β : Type} [DecidableEq κ] (items : List (κ × β)) : List (κ × β) :=
  items.foldl (fun d kv => dictInsert kv.1 kv.2 d) []

/-! ### `natural_sorting`

`re.split(r"[+-]?([0-9]+(?:[.][0-9]*)?|[.][0-9]+)", text)` followed by `float(...)` on every
chunk. The result alternates text, number, text, …, text. Numbers are kept as exact decimals
`n / 10^k` (the harness refuses names with more than 15 significant digits in one number and
text chunks that `float()` would accept, e.g. `inf`, `nan`). -/

inductive Chunk where
  | text (t : List Nat)
  | num (n : Nat) (k : Nat)
deriving DecidableEq, Repr

def isDigit (c : Nat) : Bool := 48 ≤ c && c ≤ 57
def isSign (c : Nat) : Bool := c == 43 || c == 45
def isDot (c : Nat) : Bool := c == 46

/-- does a number (`[0-9]+…` or `[.][0-9]+`) start at the head of the list? -/
def startsNumber : List Nat → Bool
  | c :: rest => isDigit c || (isDot c && (match rest with | d :: _ => isDigit d | [] => false))
  | [] => false

inductive TokState where
  | text (rev : List Nat)            -- inside a text chunk (reversed)
  | start                            -- sign consumed, number begins at the next character
  | num (n : Nat) (k : Nat) (dot : Bool)
deriving Repr

/-- one character in text state; `rest` is the look-ahead -/
def stepText (t : List Nat) (c : Nat) (rest : List Nat) (acc : List Chunk) : TokState × List Chunk :=
  if isDigit c then (.num (c - 48) 0 false, .text t.reverse :: acc)
  else if isDot c && startsNumber (c :: rest) then (.num 0 0 true, .text t.reverse :: acc)
  else if isSign c && startsNumber rest then (.start, .text t.reverse :: acc)
  else (.text (c :: t), acc)

def tokStep (st : TokState) (c : Nat) (rest : List Nat) (acc : List Chunk) : TokState × List Chunk :=
  match st with
  | .text t => stepText t c rest acc
  | .start => if isDigit c then (.num (c - 48) 0 false, acc) else (.num 0 0 true, acc)
  | .num n k dot =>
      if isDigit c then (.num (10 * n + (c - 48)) (if dot then k + 1 else 0) dot, acc)
      else if isDot c && !dot then (.num n 0 true, acc)
      else stepText [] c rest (.num n k :: acc)

def tokLoop : List Nat → TokState → List Chunk → List Chunk
  | [], .text t, acc => (Chunk.text t.reverse :: acc).reverse
  | [], .start, acc => acc.reverse   -- unreachable (a sign is only consumed before a number)
  | [], .num n k _, acc => (Chunk.text [] :: Chunk.num n k :: acc).reverse
  | c :: rest, st, acc =>
      let r := tokStep st c rest acc
      tokLoop rest r.1 r.2

def naturalKey (s : Name) : List Chunk := tokLoop s (.text []) []

def natListCmp : List Nat → List Nat → Ordering
  | [], [] => .eq
  | [], _ :: _ => .lt
  | _ :: _, [] => .gt
  | a :: as, b :: bs => if a < b then .lt else if b < a then .gt else natListCmp as bs

def chunkCmp : Chunk → Chunk → Ordering
  | .text a, .text b => natListCmp a b
  | .num n k, .num n' k' =>
      let l := n * 10 ^ k'
      let r := n' * 10 ^ k
      if l < r then .lt else if r < l then .gt else .eq
  | .text _, .num _ _ => .gt   -- never compared by Python (positions alternate); `str` vs `float`
  | .num _ _, .text _ => .lt

def keyCmp : List Chunk → List Chunk → Ordering
  | [], [] => .eq
  | [], _ :: _ => .lt
  | _ :: _, [] => .gt
  | a :: as, b :: bs => match chunkCmp a b with
      | .lt => .lt
      | .gt => .gt
      | .eq => keyCmp as bs

def nameLt (a b : Name) : Bool := keyCmp (naturalKey a) (naturalKey b) == .lt

/-- `(natural_sorting(a), a) < (natural_sorting(b), b)`: ties of the natural key are broken by the
name itself (code-point order) — the key of `_order_symbol_mapping` since 043d8fb -/
def nameLtTie (a b : Name) : Bool :=
  match keyCmp (naturalKey a) (naturalKey b) with
  | .lt => true
  | .gt => false
  | .eq => natListCmp a b == .lt

/-- stable insertion: `x` (earlier in the input) goes before the first `y` with `¬ y < x` -/
def insertBy {α : Type} (lt : α → α → Bool) (x : α) : List α → List α
  | [] => [x]
  | y :: ys => if lt y x then y :: insertBy lt x ys else x :: y :: ys

/-- `sorted(…, key=…)` (stable) -/
def isort {α : Type} (lt : α → α → Bool) : List α → List α
  | [] => []
  | x :: xs => insertBy lt x (isort lt xs)

/-! ### the model record and its converters -/

structure AmpEntry where
  keyStr : Name      -- `str(key)`, what `_order_amplitudes` sorts by
  key : Expr         -- the `Indexed` key (never renamed by `rename_symbols`)
  defn : Expr
deriving Repr

structure Model where
  /-- value of the `expression` property -/
  expr : Expr
  intensity : Expr
  amplitudes : List AmpEntry
  /-- `parameter_defaults`: symbol → opaque value id, insertion ordered -/
  params : List (Sym × Nat)
  kinvars : List (Sym × Expr)
  components : List (Name × Expr)
deriving Repr

def orderAmplitudes (l : List AmpEntry) : List AmpEntry :=
  isort (fun a b => nameLt a.keyStr b.keyStr) l

def orderSymbolMapping (l : List (Sym × Expr)) : List (Sym × Expr) :=
  isort (fun a b => nameLtTie a.1.name b.1.name) l

def orderComponentMapping (l : List (Name × Expr)) : List (Name × Expr) :=
  isort (fun a b => nameLt a.1 b.1) l

/-! ### `rename_symbols` -/

/-- `dict(renames)[name]` (a later pair overrides an earlier one) -/
def renameOf (ρ : List (Name × Name)) (n : Name) : Option Name :=
  alookup n ρ.reverse

/-- list → set (first occurrences kept) -/
def dedup {α : Type} [DecidableEq α] : List α → List α
  | [] => []
  | a :: l => a :: (dedup l).filter (fun b => decide (b ≠ a))

/-- `__collect_symbols` (a set in the source; here a duplicate-free list) -/
def collect (v : Variant) (m : Model) : List Sym :=
  dedup (m.expr.syms
    ++ m.kinvars.map (·.1)
    ++ (if v.collectsParams then m.params.map (·.1) else [])
    ++ (m.kinvars.map (fun kv => kv.2.syms)).flatten)

def natCmp (a b : Nat) : Ordering := if a < b then .lt else if b < a then .gt else .eq

/-- the sort key of c9b6eb9: `(s.name, str(sorted(s.assumptions0.items())))`. Names compare as Python
strings (code points); the numeric order of the ternary declarations is the order of the second
component (see "assumption declarations"; re-checked by the harness on all pairs of a run). -/
def symCmp (a b : Sym) : Ordering :=
  match natListCmp a.name b.name with
  | .eq => natCmp a.asm b.asm
  | o => o

def symLt (a b : Sym) : Bool := symCmp a b == .lt

/-- the order in which the collected symbols are looked through: `sorted(symbols, key=…)` since c9b6eb9,
before that the iteration order of the set (here: the order of `collect`; the harness does not generate
inputs on which that order matters for the old variant) -/
def lookupOrder (v : Variant) (symbols : List Sym) : List Sym :=
  if v.oneSymbolPerNewName then isort symLt symbols else symbols

/-- the unrenamed symbol that already has the name `n`: first loop of c9b6eb9
(`targets.setdefault(s.name, s)` for `s.name not in renames`), `existing_symbols` before -/
def existingNamed (ρ : List (Name × Name)) (ordered : List Sym) (n : Name) : Option Sym :=
  ordered.find? (fun s => (renameOf ρ s.name).isNone && s.name == n)

/-- the first symbol (in lookup order) that is renamed to `n'`: second loop of c9b6eb9 -/
def firstSource (ρ : List (Name × Name)) (ordered : List Sym) (n' : Name) : Option Sym :=
  ordered.find? (fun s => renameOf ρ s.name == some n')

/-- the new symbol made for `s ↦ n'` when no unrenamed symbol is called `n'`:
`sp.Symbol(new_name, **s.assumptions0)` — the COMPLETE declaration of the (first) source is passed on -/
def freshTarget (v : Variant) (ρ : List (Name × Name)) (ordered : List Sym) (s : Sym) (n' : Name) : Sym :=
  if v.oneSymbolPerNewName then
    match firstSource ρ ordered n' with
    | some a₀ => ⟨n', a₀.asm⟩
    | none => ⟨n', s.asm⟩          -- unreachable for `s ∈ ordered`
  else ⟨n', s.asm⟩

/-- image of one collected symbol; `ordered = lookupOrder v symbols` -/
def target (v : Variant) (ρ : List (Name × Name)) (ordered : List Sym) (s : Sym) : Sym :=
  match renameOf ρ s.name with
  | none => s
  | some n' =>
      if v.reusesExisting then
        match existingNamed ρ ordered n' with
        | some t => t
        | none => freshTarget v ρ ordered s n'
      else freshTarget v ρ ordered s n'

/-- `symbol_mapping` -/
def symbolMapping (v : Variant) (m : Model) (ρ : List (Name × Name)) : List (Sym × Sym) :=
  let symbols := collect v m
  let ordered := lookupOrder v symbols
  symbols.map (fun s => (s, target v ρ ordered s))

/-- the rule as a total function (`xreplace` / `symbol_mapping.get(s, s)`) -/
def applyMap (mp : List (Sym × Sym)) (s : Sym) : Sym :=
  match alookup s mp with
  | some t => t
  | none => s

def sigma (v : Variant) (m : Model) (ρ : List (Name × Name)) : Sym → Sym :=
  applyMap (symbolMapping v m ρ)

def rename (v : Variant) (m : Model) (ρ : List (Name × Name)) : Model :=
  if ρ.isEmpty then m
  else
    -- (the mapping is built once; `applyMap mp` is definitionally `sigma v m ρ`)
    let mp := symbolMapping v m ρ
    let σ := applyMap mp
    { expr := m.expr.xreplace σ
      intensity := m.intensity.xreplace σ
      amplitudes := orderAmplitudes (m.amplitudes.map (fun a => { a with defn := a.defn.xreplace σ }))
      params := dictOfList (m.params.map (fun kv => (σ kv.1, kv.2)))
      components := orderComponentMapping (m.components.map (fun c => (c.1, c.2.xreplace σ)))
      kinvars := orderSymbolMapping (dictOfList (m.kinvars.map (fun kv => (σ kv.1, kv.2.xreplace σ)))) }

/-! ### denotation of a model -/

def paramEnv {α : Type} (I : Interp α) (m : Model) (data : Sym → α) : Sym → α :=
  fun s => match alookup s m.params with
    | some v => I.val v
    | none => data s

def fullEnv {α : Type} (I : Interp α) (m : Model) (data : Sym → α) : Sym → α :=
  fun s => match alookup s m.kinvars with
    | some e => e.eval I (paramEnv I m data)
    | none => paramEnv I m data s

/-- intensity of the model on `data` (values of everything that is neither a parameter with a
default nor a defined kinematic variable, e.g. the four-momentum symbols) -/
def Model.value {α : Type} (I : Interp α) (m : Model) (data : Sym → α) : α :=
  m.expr.eval I (fullEnv I m data)

/-! ### C01 closure -/

def Model.paramKeys (m : Model) : List Sym := m.params.map (·.1)
def Model.kinKeys (m : Model) : List Sym := m.kinvars.map (·.1)

/-- every symbol of `expression` is a parameter or a kinematic variable, never both -/
def Model.closed (m : Model) : Prop :=
  (∀ s, s ∈ m.expr.syms → s ∈ m.paramKeys ∨ s ∈ m.kinKeys) ∧
  (∀ s, s ∈ m.paramKeys → s ∉ m.kinKeys)

def Model.closedB (m : Model) : Bool :=
  m.expr.syms.all (fun s => m.paramKeys.contains s || m.kinKeys.contains s) &&
  m.paramKeys.all (fun s => !m.kinKeys.contains s)

end Ampverif.Model.C17

/-! ## line-protocol driver (not part of any theorem)

Requests (one per line):
* `variant <collectsParams 0|1> <reusesExisting 0|1> <oneSymbolPerNewName 0|1>`
* `expr E` · `intensity E` · `amp NAME E E` · `param SYM VALUEID` · `kin SYM E` · `comp NAME E`
  — extend the model under construction; `reset` clears it
* `echo` — print the model under construction
* `key NAME` — the natural-sorting key
* `facts ASM` — the decoded declaration `declFacts` and `truthyOnly` of it
* `rename OLD:NEW …` — apply `rename` to the model under construction and print
  `collect`, `map`, `closed` and the resulting model
Syntax: `NAME` = decimal code points joined by `.` (`-` for the empty name),
`SYM` = `NAME/ASM` (`ASM` = the ternary declaration in decimal), `E` = `(s SYM)` | `(c ID)` | `(a CLS E…)`.
-/

open Ampverif.Model.C17

namespace Ampverif.Model.C17.Driver

def parseName (t : String) : Name :=
  if t == "-" then [] else (t.splitOn ".").map String.toNat!

def showName (n : Name) : String :=
  if n.isEmpty then "-" else ".".intercalate (n.map toString)

def parseSym (t : String) : Sym :=
  match t.splitOn "/" with
  | [n, a] => ⟨parseName n, a.toNat!⟩
  | _ => ⟨[], 0⟩

def showSym (s : Sym) : String := showName s.name ++ "/" ++ toString s.asm

partial def showExpr : Expr → String
  | .sym s => "(s " ++ showSym s ++ ")"
  | .const c => "(c " ++ toString c ++ ")"
  | .app f as => "(a " ++ toString f ++ String.join (as.map (fun a => " " ++ showExpr a)) ++ ")"

/-- tokens: `(`, `)`, and maximal runs of other non-space characters -/
def tokenize (s : String) : Array String := Id.run do
  let mut out : Array String := #[]
  let mut cur : String := ""
  for c in s.toList do
    if c == '(' || c == ')' || c == ' ' || c == '\n' || c == '\r' then
      if cur != "" then
        out := out.push cur
        cur := ""
      if c == '(' || c == ')' then out := out.push (String.singleton c)
    else
      cur := cur.push c
  if cur != "" then out := out.push cur
  return out

/-- parse one expression starting at token `i`; returns the expression and the next index -/
partial def parseExpr (toks : Array String) (i : Nat) : Except String (Expr × Nat) := do
  if toks[i]? != some "(" then throw s!"expected ( at token {i}"
  match toks[i + 1]? with
  | some "s" => return (.sym (parseSym (toks[i + 2]?.getD "")), i + 4)
  | some "c" => return (.const ((toks[i + 2]?.getD "0").toNat!), i + 4)
  | some "a" =>
      let f := (toks[i + 2]?.getD "0").toNat!
      let mut j := i + 3
      let mut args : Array Expr := #[]
      while toks[j]? == some "(" do
        let (e, j') ← parseExpr toks j
        args := args.push e
        j := j'
      if toks[j]? != some ")" then throw s!"expected ) at token {j}"
      return (.app f args.toList, j + 1)
  | _ => throw s!"bad head at token {i + 1}"

def emptyModel : Model :=
  { expr := .const 0, intensity := .const 0, amplitudes := [], params := [], kinvars := [], components := [] }

def showModel (m : Model) : List String :=
  [ "expr " ++ showExpr m.expr, "intensity " ++ showExpr m.intensity ]
  ++ m.amplitudes.map (fun a => "amp " ++ showName a.keyStr ++ " " ++ showExpr a.key ++ " " ++ showExpr a.defn)
  ++ m.params.map (fun kv => "param " ++ showSym kv.1 ++ " " ++ toString kv.2)
  ++ m.kinvars.map (fun kv => "kin " ++ showSym kv.1 ++ " " ++ showExpr kv.2)
  ++ m.components.map (fun c => "comp " ++ showName c.1 ++ " " ++ showExpr c.2)

def showChunk : Chunk → String
  | .text t => "t:" ++ showName t
  | .num n k => "n:" ++ toString n ++ "e-" ++ toString k

structure St where
  v : Variant := Variant.fixed
  m : Model := emptyModel

def handle (st : St) (line : String) : Except String (St × List String) := do
  let toks := tokenize line
  match toks[0]? with
  | none => return (st, [])
  | some "variant" =>
      return ({ st with v := ⟨toks[1]? == some "1", toks[2]? == some "1", toks[3]? == some "1"⟩ }, ["ok"])
  | some "reset" => return ({ st with m := emptyModel }, ["ok"])
  | some "expr" =>
      let (e, _) ← parseExpr toks 1
      return ({ st with m := { st.m with expr := e } }, [])
  | some "intensity" =>
      let (e, _) ← parseExpr toks 1
      return ({ st with m := { st.m with intensity := e } }, [])
  | some "amp" =>
      let (k, j) ← parseExpr toks 2
      let (d, _) ← parseExpr toks j
      let a : AmpEntry := { keyStr := parseName (toks[1]?.getD "-"), key := k, defn := d }
      return ({ st with m := { st.m with amplitudes := st.m.amplitudes ++ [a] } }, [])
  | some "param" =>
      let kv := (parseSym (toks[1]?.getD ""), (toks[2]?.getD "0").toNat!)
      return ({ st with m := { st.m with params := st.m.params ++ [kv] } }, [])
  | some "kin" =>
      let (e, _) ← parseExpr toks 2
      return ({ st with m := { st.m with kinvars := st.m.kinvars ++ [(parseSym (toks[1]?.getD ""), e)] } }, [])
  | some "comp" =>
      let (e, _) ← parseExpr toks 2
      return ({ st with m := { st.m with components := st.m.components ++ [(parseName (toks[1]?.getD "-"), e)] } }, [])
  | some "echo" => return (st, showModel st.m ++ ["end"])
  | some "key" =>
      return (st, ["key " ++ " ".intercalate ((naturalKey (parseName (toks[1]?.getD "-"))).map showChunk)])
  | some "facts" =>
      let a := (toks[1]?.getD "0").toNat!
      return (st, ["facts " ++ " ".intercalate ((declFacts a).map (fun f => toString f.1 ++ ":" ++ (if f.2 then "1" else "0")))
                   ++ " | " ++ toString (truthyOnly a)])
  | some "rename" =>
      let ρ : List (Name × Name) := (toks.toList.drop 1).filterMap (fun t =>
        match t.splitOn ":" with
        | [a, b] => some (parseName a, parseName b)
        | _ => none)
      let r := rename st.v st.m ρ
      let coll := collect st.v st.m
      let mp := (symbolMapping st.v st.m ρ).filter (fun p => p.1 != p.2)
      return (st,
        [ "collect " ++ " ".intercalate (coll.map showSym),
          "map " ++ " ".intercalate (mp.map (fun p => showSym p.1 ++ ">" ++ showSym p.2)),
          "closed " ++ (if st.m.closedB then "1" else "0") ++ " " ++ (if r.closedB then "1" else "0") ]
        ++ showModel r ++ ["end"])
  | some other => throw s!"unknown request {other}"

partial def loop (h : IO.FS.Stream) (out : IO.FS.Stream) (st : St) : IO Unit := do
  let line ← h.getLine
  if line.isEmpty then return
  match handle st line with
  | .ok (st', replies) =>
      for r in replies do out.putStrLn r
      loop h out st'
  | .error e =>
      out.putStrLn ("error " ++ e)
      loop h out st

end Ampverif.Model.C17.Driver

-- `main` (line-protocol entry point) lives in Ampverif/Drivers/C17Rename.lean
