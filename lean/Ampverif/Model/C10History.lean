/-
C10 — `formulate` of the four K-matrix / P-vector classes over a HISTORY of calls in one process
(import-free, executable; the line-protocol entry point is `Ampverif/Drivers/C10History.lean`).

`formulate` is documented as a pure function of its arguments. In the real code it is not written as
one: the expressions it builds go through process-global caches (SymPy's cached `Mul` / `Pow`
constructors, `functools.cache` on `_create_matrices`), and these caches are keyed on the HASHABLE
CONTENT of the sub-expressions — for an `EnergyDependentWidth` that content contains a key computed
from the caller's phase-space factor object by `ampform.sympy._decorator._get_hashable_object`.

The model keeps exactly that: a call looks the energy-dependent widths it needs up in a cache keyed
on `(angular momentum, meson radius, κ factor)` (pole / channel symbols are the same in every call)
and re-uses the stored widths — which carry the factor OBJECT of the call that stored them — if the
key is present. The phase-space nodes `ρ_i` and the form factors of the P-vector are built from the
call's own arguments. `κ` is the key function:

* `κ = id` (the factor object itself: what the clean tree does for functions and other hashable
  objects) — the cache is transparent (`Props/C10History.lean: history_pure`);
* `κ = Factor.qual` (the object's qualified name) — not injective: two closures of one factory or two
  lambdas of one scope share it, and the second call returns widths carrying the FIRST factor
  (`qualname_key_witness`).

What a result IS in this model (its skeleton): its shape, the families of free symbols and the
itemised occurrences — which factor object / angular momentum / radius every energy-dependent width
of pole `R` in channel `i` carries, the node class of every `ρ_i`, the `L` / radius of every form
factor. The algebraic content of the entries is the subject of `Props/C10.lean` (regenerated
definitions); the skeleton is tied to the real objects by the history correspondence of
`tools/corr/C10_history.py` on every run.
-/
namespace Ampverif.C10History

/-- A phase-space factor OBJECT passed by the caller (`PhaseSpaceFactorProtocol`: a class, a
function, a lambda, a `functools.partial`, a callable instance, a bound method). -/
structure Factor where
  /-- which Python object (identity) -/
  ident : Nat
  /-- its `__module__.__qualname__` (that of its type for objects without a qualified name) -/
  qual : Nat
  /-- class of the node that `factor(s, m_a, m_b)` IS (a class-valued factor: the class itself),
  `none` if the call expands to a plain expression -/
  node : Option Nat
  deriving DecidableEq, Repr

inductive Cls where
  | nrK
  | relK
  | nrP
  | relP
  deriving DecidableEq, Repr

def Cls.relativistic : Cls → Bool
  | .relK => true
  | .relP => true
  | _ => false

def Cls.vector : Cls → Bool
  | .nrP => true
  | .relP => true
  | _ => false

structure Args where
  cls : Cls
  nChannels : Nat
  nPoles : Nat
  parametrize : Bool
  hat : Bool
  phsp : Factor
  angMom : Nat
  radius : Nat
  deriving DecidableEq, Repr

/-- Families of free symbols of a result. -/
inductive Sym where
  | s | m | Gamma | gamma | beta | m_a | m_b | K | P | rho
  deriving DecidableEq, Repr

inductive Item where
  /-- `EnergyDependentWidth` of pole `R` in channel `i`: its `phsp_factor` attribute (an object),
  its angular momentum and its meson radius -/
  | width (pole channel : Nat) (phsp : Factor) (angMom radius : Nat)
  /-- `FormFactor` of channel `i` at `s` -/
  | formFactor (channel angMom radius : Nat)
  /-- phase-space node `ρ_i(s)` of class `node` -/
  | rho (channel node : Nat)
  deriving DecidableEq, Repr

structure Out where
  rows : Nat
  cols : Nat
  syms : List Sym
  items : List Item
  deriving DecidableEq, Repr

def symsOf (a : Args) : List Sym :=
  match a.parametrize, a.cls with
  | false, .nrK => [.K]
  | false, .relK => [.K, .rho]
  | false, .nrP => [.K, .P]
  | false, .relP => [.K, .P, .rho]
  | true, .nrK => [.s, .m, .Gamma, .gamma]
  | true, .relK => [.s, .m, .Gamma, .gamma, .m_a, .m_b]
  | true, .nrP => [.s, .m, .Gamma, .gamma, .beta]
  | true, .relP => [.s, .m, .Gamma, .gamma, .beta, .m_a, .m_b]

def widthItems (a : Args) (w : Factor) : List Item :=
  (List.range a.nPoles).flatMap fun r =>
    (List.range a.nChannels).map fun i => Item.width (r + 1) i w a.angMom a.radius

def rhoItems (a : Args) : List Item :=
  match a.phsp.node with
  | none => []
  | some n => (List.range a.nChannels).map fun i => Item.rho i n

def ffItems (a : Args) : List Item :=
  match a.cls with
  | .relP => (List.range a.nChannels).map fun i => Item.formFactor i a.angMom a.radius
  | _ => []

/-- The result of `a` in which the energy-dependent widths carry the factor object `w`. -/
def out (a : Args) (w : Factor) : Out :=
  { rows := a.nChannels
    cols := if a.cls.vector then 1 else a.nChannels
    syms := symsOf a
    items := if a.cls.relativistic && a.parametrize then widthItems a w ++ rhoItems a ++ ffItems a else [] }

/-- `formulate` as the pure function of its arguments that the documentation describes
(= the first call of a fresh process). -/
def freshOut (a : Args) : Out := out a a.phsp

/-- One entry of the process-global expression cache: the widths built for `(L, d, key)` carry the
factor object `stored`. -/
structure Entry (α : Type) where
  angMom : Nat
  radius : Nat
  key : α
  stored : Factor

def lookup {α : Type} [DecidableEq α] : List (Entry α) → Nat → Nat → α → Option Factor
  | [], _, _, _ => none
  | e :: rest, l, d, k =>
    if e.angMom = l ∧ e.radius = d ∧ e.key = k then some e.stored else lookup rest l d k

/-- One call in a process whose cache is `c`: (result, cache afterwards). -/
def call {α : Type} [DecidableEq α] (κ : Factor → α) (c : List (Entry α)) (a : Args) :
    Out × List (Entry α) :=
  if a.cls.relativistic && a.parametrize then
    match lookup c a.angMom a.radius (κ a.phsp) with
    | some g => (out a g, c)
    | none => (out a a.phsp, ⟨a.angMom, a.radius, κ a.phsp, a.phsp⟩ :: c)
  else (out a a.phsp, c)

/-- A history of calls in ONE process. -/
def run {α : Type} [DecidableEq α] (κ : Factor → α) :
    List (Entry α) → List Args → List Out × List (Entry α)
  | c, [] => ([], c)
  | c, a :: rest =>
    let r := call κ c a
    let rs := run κ r.2 rest
    (r.1 :: rs.1, rs.2)

/-- The same calls, each as the first call of a fresh process. -/
def fresh (hist : List Args) : List Out := hist.map freshOut

/-- The argument-honouring statement on one item of the result of `a`. -/
def Item.honours (a : Args) : Item → Bool
  | .width _ _ f l d => f == a.phsp && l == a.angMom && d == a.radius
  | .formFactor _ l d => l == a.angMom && d == a.radius
  | .rho _ n => a.phsp.node == some n

-- ---------------------------------------------------------------- line protocol

def Sym.render : Sym → String
  | .s => "s" | .m => "m" | .Gamma => "Gamma" | .gamma => "gamma" | .beta => "beta"
  | .m_a => "m_a" | .m_b => "m_b" | .K => "K" | .P => "P" | .rho => "rho"

def Item.render : Item → String
  | .width r i f l d => s!"W {r} {i} f{f.ident} L{l} d{d}"
  | .formFactor i l d => s!"F {i} L{l} d{d}"
  | .rho i n => s!"R {i} n{n}"

def Out.render (o : Out) : String :=
  s!"shape={o.rows}x{o.cols} | syms " ++ " ".intercalate (o.syms.map Sym.render) ++ " | "
    ++ "; ".intercalate (o.items.map Item.render)

def parseCls : String → Option Cls
  | "nrK" => some .nrK
  | "relK" => some .relK
  | "nrP" => some .nrP
  | "relP" => some .relP
  | _ => none

/-- Protocol: `process` (a fresh process: empty cache) ·
`call <cls> <n_channels> <n_poles> <parametrize 0|1> <hat 0|1> <ident> <qual> <node|-> <L> <d>`
→ one line, the rendered result. `variant qualname` switches the key function (used only to show
what the defect class does; the correspondence runs with the object itself as key). -/
partial def loop (h : IO.FS.Stream) (byQual : Bool) (cId : List (Entry Factor))
    (cQ : List (Entry Nat)) : IO Unit := do
  let line ← h.getLine
  if line.isEmpty then return ()
  let toks := (line.trimAscii.toString.splitOn " ").filter (· ≠ "")
  match toks with
  | ["variant", x] => loop h (x == "qualname") [] []
  | ["process"] => loop h byQual [] []
  | ["call", c, nc, np, pa, ha, ident, qual, node, l, d] =>
    match parseCls c with
    | none =>
      IO.println "bad-op"
      loop h byQual cId cQ
    | some cls =>
      let f : Factor := { ident := ident.toNat!, qual := qual.toNat!,
                          node := if node == "-" then none else some node.toNat! }
      let a : Args := { cls := cls, nChannels := nc.toNat!, nPoles := np.toNat!, parametrize := pa == "1",
                        hat := ha == "1", phsp := f, angMom := l.toNat!, radius := d.toNat! }
      if byQual then
        let r := call Factor.qual cQ a
        IO.println r.1.render
        loop h byQual cId r.2
      else
        let r := call id cId a
        IO.println r.1.render
        loop h byQual r.2 cQ
  | [] => loop h byQual cId cQ
  | _ =>
    IO.println "bad-op"
    loop h byQual cId cQ

end Ampverif.C10History
