/-
C12 — lineshape normalisations hold and builder API equals function API.

All theorems are about `Ampverif.Gen.C12.*`, REGENERATED from `ampform/dynamics/{__init__,
form_factor,builder,phasespace}.py` on every run. `EnergyDependentWidth`, the Breit–Wigner
functions and the four builder flag combinations are translated with the phase-space factor
`rho` and the form factor `ff` as ARBITRARY function parameters; the concrete instances
(`EDW_PhaseSpaceFactor`, …) plug in the regenerated classes. The Blatt–Weisskopf clauses are
table-bounded: `L = 0..10` (`bwTable`, regenerated; generic table theorems in
`Lemmas/C12Table.lean`, per-L helper lemmas from one template in `Lemmas/C12Hankel.lean`).
Only property theorems and non-vacuity examples live here.
-/
import Ampverif.Gen.C12
import Ampverif.Lemmas.C12Hankel
import Ampverif.Model.C12Builder
import Ampverif.Lemmas.C11Branch
import Mathlib.Tactic.Ring
import Mathlib.Tactic.FieldSimp
import Mathlib.Tactic.IntervalCases
import Mathlib.Tactic.LinearCombination
import Mathlib.Tactic.Positivity

namespace Ampverif.Props.C12
open Ampverif.Gen.C12 Ampverif.Lemmas.C12 Ampverif.C12Builder Ampverif.Lemmas.C11

/-! ### Energy-dependent width -/

/-- The width has the PDG form `Γ₀ (F(s)/F(m₀²))² ρ(s)/ρ(m₀²)` for any `ff`, `rho`. -/
theorem width_form (ff : ℝ → ℝ → ℝ → ℕ → ℝ → ℂ) (rho : ℝ → ℝ → ℝ → ℂ)
    (s m0 Gamma0 m1 m2 : ℝ) (L : ℕ) (d : ℝ) :
    EnergyDependentWidth ff rho s m0 Gamma0 m1 m2 L d
      = (Gamma0 : ℂ) * (ff s m1 m2 L d / ff (m0 ^ 2) m1 m2 L d) ^ 2
          * (rho s m1 m2 / rho (m0 ^ 2) m1 m2) := by
  unfold EnergyDependentWidth
  ring

/-- `Γ(m₀²) = Γ₀` for ANY phase-space factor `rho` and ANY form factor `ff` that do not vanish at
the pole. -/
theorem width_at_pole (ff : ℝ → ℝ → ℝ → ℕ → ℝ → ℂ) (rho : ℝ → ℝ → ℝ → ℂ)
    (m0 Gamma0 m1 m2 : ℝ) (L : ℕ) (d : ℝ)
    (hrho : rho (m0 ^ 2) m1 m2 ≠ 0) (hff : ff (m0 ^ 2) m1 m2 L d ≠ 0) :
    EnergyDependentWidth ff rho (m0 ^ 2) m0 Gamma0 m1 m2 L d = (Gamma0 : ℂ) := by
  unfold EnergyDependentWidth
  field_simp

/-! …instantiated with the regenerated `FormFactor` and each of the five phase-space classes. -/

theorem width_at_pole_PhaseSpaceFactor (m0 Gamma0 m1 m2 : ℝ) (L : ℕ) (d : ℝ)
    (hrho : PhaseSpaceFactor (m0 ^ 2) m1 m2 ≠ 0) (hff : FormFactor (m0 ^ 2) m1 m2 L d ≠ 0) :
    EDW_PhaseSpaceFactor (m0 ^ 2) m0 Gamma0 m1 m2 L d = (Gamma0 : ℂ) :=
  width_at_pole _ _ m0 Gamma0 m1 m2 L d hrho hff

theorem width_at_pole_PhaseSpaceFactorAbs (m0 Gamma0 m1 m2 : ℝ) (L : ℕ) (d : ℝ)
    (hrho : PhaseSpaceFactorAbs (m0 ^ 2) m1 m2 ≠ 0) (hff : FormFactor (m0 ^ 2) m1 m2 L d ≠ 0) :
    EDW_PhaseSpaceFactorAbs (m0 ^ 2) m0 Gamma0 m1 m2 L d = (Gamma0 : ℂ) :=
  width_at_pole _ _ m0 Gamma0 m1 m2 L d (by exact_mod_cast hrho) hff

theorem width_at_pole_PhaseSpaceFactorComplex (m0 Gamma0 m1 m2 : ℝ) (L : ℕ) (d : ℝ)
    (hrho : PhaseSpaceFactorComplex (m0 ^ 2) m1 m2 ≠ 0) (hff : FormFactor (m0 ^ 2) m1 m2 L d ≠ 0) :
    EDW_PhaseSpaceFactorComplex (m0 ^ 2) m0 Gamma0 m1 m2 L d = (Gamma0 : ℂ) :=
  width_at_pole _ _ m0 Gamma0 m1 m2 L d hrho hff

theorem width_at_pole_PhaseSpaceFactorSWave (m0 Gamma0 m1 m2 : ℝ) (L : ℕ) (d : ℝ)
    (hrho : PhaseSpaceFactorSWave (m0 ^ 2) m1 m2 ≠ 0) (hff : FormFactor (m0 ^ 2) m1 m2 L d ≠ 0) :
    EDW_PhaseSpaceFactorSWave (m0 ^ 2) m0 Gamma0 m1 m2 L d = (Gamma0 : ℂ) :=
  width_at_pole _ _ m0 Gamma0 m1 m2 L d hrho hff

theorem width_at_pole_EqualMassPhaseSpaceFactor (m0 Gamma0 m1 m2 : ℝ) (L : ℕ) (d : ℝ)
    (hrho : EqualMassPhaseSpaceFactor (m0 ^ 2) m1 m2 ≠ 0) (hff : FormFactor (m0 ^ 2) m1 m2 L d ≠ 0) :
    EDW_EqualMassPhaseSpaceFactor (m0 ^ 2) m0 Gamma0 m1 m2 L d = (Gamma0 : ℂ) :=
  width_at_pole _ _ m0 Gamma0 m1 m2 L d hrho hff

/-! ### Builder API = function API (for every `ff`, `rho`, `L`) -/

/-- `RelativisticBreitWignerBuilder()` = `relativistic_breit_wigner(m², m_R, Γ_R)`. -/
theorem builder_plain_eq_function (ff : ℝ → ℝ → ℝ → ℕ → ℝ → ℂ) (rho : ℝ → ℝ → ℝ → ℂ)
    (m m_a m_b : ℝ) (L : ℕ) (m_R Gamma_R d_R : ℝ) :
    builder_ff0_edw0 ff rho m m_a m_b L m_R Gamma_R d_R
      = relativisticBreitWigner (m ^ 2) m_R Gamma_R := by
  unfold builder_ff0_edw0 relativisticBreitWigner
  push_cast; ring

/-- `RelativisticBreitWignerBuilder(form_factor=True, energy_dependent_width=True, phsp_factor=ρ)`
= `relativistic_breit_wigner_with_ff(m², m_R, Γ_R, m_a, m_b, L, d_R, ρ)`. -/
theorem builder_full_eq_function (ff : ℝ → ℝ → ℝ → ℕ → ℝ → ℂ) (rho : ℝ → ℝ → ℝ → ℂ)
    (m m_a m_b : ℝ) (L : ℕ) (m_R Gamma_R d_R : ℝ) :
    builder_ff1_edw1 ff rho m m_a m_b L m_R Gamma_R d_R
      = relativisticBreitWignerWithFF ff rho (m ^ 2) m_R Gamma_R m_a m_b L d_R := by
  unfold builder_ff1_edw1 relativisticBreitWignerWithFF
  push_cast; ring

/-- `form_factor=True` only: form factor × simple Breit–Wigner. -/
theorem builder_ff_only (ff : ℝ → ℝ → ℝ → ℕ → ℝ → ℂ) (rho : ℝ → ℝ → ℝ → ℂ)
    (m m_a m_b : ℝ) (L : ℕ) (m_R Gamma_R d_R : ℝ) :
    builder_ff1_edw0 ff rho m m_a m_b L m_R Gamma_R d_R
      = ff (m ^ 2) m_a m_b L d_R * relativisticBreitWigner (m ^ 2) m_R Gamma_R := by
  unfold builder_ff1_edw0 relativisticBreitWigner
  push_cast; ring

/-- `energy_dependent_width=True` only: Breit–Wigner with the energy-dependent width of the
resonance (`m_R`, `Γ_R`, decay masses `m_a`, `m_b`, `L`, `d_R`, the phase-space factor passed in). -/
theorem builder_edw_only (ff : ℝ → ℝ → ℝ → ℕ → ℝ → ℂ) (rho : ℝ → ℝ → ℝ → ℂ)
    (m m_a m_b : ℝ) (L : ℕ) (m_R Gamma_R d_R : ℝ) :
    builder_ff0_edw1 ff rho m m_a m_b L m_R Gamma_R d_R
      = (m_R : ℂ) * (Gamma_R : ℂ)
          / ((m_R : ℂ) ^ 2 - (m : ℂ) ^ 2
              - EnergyDependentWidth ff rho (m ^ 2) m_R Gamma_R m_a m_b L d_R * (m_R : ℂ) * Complex.I) := by
  unfold builder_ff0_edw1
  push_cast; ring

/-- With the energy-dependent width the full lineshape is the form factor times the
`energy_dependent_width`-only lineshape. -/
theorem builder_full_eq_ff_mul (ff : ℝ → ℝ → ℝ → ℕ → ℝ → ℂ) (rho : ℝ → ℝ → ℝ → ℂ)
    (m m_a m_b : ℝ) (L : ℕ) (m_R Gamma_R d_R : ℝ) :
    builder_ff1_edw1 ff rho m m_a m_b L m_R Gamma_R d_R
      = ff (m ^ 2) m_a m_b L d_R * builder_ff0_edw1 ff rho m m_a m_b L m_R Gamma_R d_R := by
  unfold builder_ff1_edw1 builder_ff0_edw1
  ring

/-- At the pole `m = m_R` the full Breit–Wigner is `i·F(m_R²)` (for `ρ`, `F` non-vanishing there
and `m_R Γ_R ≠ 0`): the normalisation of the width makes the lineshape purely imaginary × form factor. -/
theorem builder_full_at_pole (ff : ℝ → ℝ → ℝ → ℕ → ℝ → ℂ) (rho : ℝ → ℝ → ℝ → ℂ)
    (m_a m_b : ℝ) (L : ℕ) (m_R Gamma_R d_R : ℝ)
    (hrho : rho (m_R ^ 2) m_a m_b ≠ 0) (hff : ff (m_R ^ 2) m_a m_b L d_R ≠ 0)
    (hm : m_R ≠ 0) (hG : Gamma_R ≠ 0) :
    builder_ff1_edw1 ff rho m_R m_a m_b L m_R Gamma_R d_R
      = Complex.I * ff (m_R ^ 2) m_a m_b L d_R := by
  unfold builder_ff1_edw1
  rw [width_at_pole ff rho m_R Gamma_R m_a m_b L d_R hrho hff]
  have h1 : (m_R : ℂ) ≠ 0 := by exact_mod_cast hm
  have h2 : (Gamma_R : ℂ) ≠ 0 := by exact_mod_cast hG
  have hI : Complex.I ≠ 0 := Complex.I_ne_zero
  push_cast
  have : ((m_R : ℂ) ^ 2 + -1 * (m_R : ℂ) ^ 2 + -1 * Complex.I * (m_R : ℂ) * (Gamma_R : ℂ))
      = -(Complex.I * (m_R : ℂ) * (Gamma_R : ℂ)) := by ring
  rw [this]
  generalize ff (m_R ^ 2) m_a m_b L d_R = f
  field_simp
  linear_combination (-f) * Complex.I_sq

/-! ### Histories of calls on one builder object (`Model/C12Builder.lean`)

The builder is a configuration `(form_factor, energy_dependent_width, phsp_factor)`; `Out` names
which of the regenerated lineshapes above a call returns. The model is tied to the real class on
every run by the history correspondence (`tools/corr/C12_history.py`: the same call sequences —
mixing pools with `L = None`, `0`, `1`, `2`, several resonances, fresh and module-level builder
objects — are run on the real code and on the model's driver and compared line by line). -/

/-- On the clean tree's builder a call never changes the builder's state. -/
theorem builder_call_state (c : Config) (a : Args) : (call Variant.soundV c a).2 = c := by
  unfold call
  cases a.L <;> simp <;> split <;> rfl

/-- **Purity of `__call__`**: for every configuration and every history of calls on ONE builder
object, the outputs are exactly what a FRESH builder of that configuration returns for each call,
and the builder's attributes are unchanged at the end. -/
theorem builder_history_pure (c : Config) (hist : List Args) :
    run Variant.soundV c hist = (fresh Variant.soundV c hist, c) := by
  induction hist with
  | nil => rfl
  | cons a rest ih =>
    have hs := builder_call_state c a
    simp only [run, fresh, List.map_cons]
    rw [hs, ih]
    rfl

/-- …so the output of call `k` depends only on `(configuration, arguments of call k)`. -/
theorem builder_call_k (c : Config) (hist : List Args) (k : Nat) (hk : k < hist.length) :
    (run Variant.soundV c hist).1[k]? = some (call Variant.soundV c hist[k]).1 := by
  rw [builder_history_pure]
  simp [fresh, hk]

/-- What a call without angular momentum does (pinned on the clean tree as a fact on every run):
the plain builder returns the plain Breit–Wigner, every other flag combination raises. -/
theorem builder_call_none (c : Config) (res pool : Nat) :
    (call Variant.soundV c ⟨res, none, pool⟩).1
      = if c.ff || c.edw then Out.valueError else Out.plain res pool := by
  unfold call; simp; split <;> simp_all

/-- With a defined `L` the four flag combinations are the four regenerated lineshapes. -/
theorem builder_call_some (v : Variant) (c : Config) (res pool l : Nat) :
    call v c ⟨res, some l, pool⟩ = (formulate c res pool l, c) := rfl

/-- Witness for the defect class "a call stores a fallback on the instance": one call with
`L = none` followed by a call with `L = 1` on a full builder gives the plain Breit–Wigner, which a
fresh builder does not. (Replayable on the real code: see the purity oracle of C12.) -/
theorem builder_sticky_witness :
    (run Variant.stickyV ⟨true, true, 0⟩ [⟨0, none, 0⟩, ⟨1, some 1, 0⟩]).1
      ≠ fresh Variant.soundV ⟨true, true, 0⟩ [⟨0, none, 0⟩, ⟨1, some 1, 0⟩] := by decide

example : run Variant.soundV ⟨true, true, 4⟩ [⟨0, none, 0⟩, ⟨1, some 2, 1⟩]
    = ([Out.valueError, Out.full 1 1 2 4], ⟨true, true, 4⟩) := by decide

/-! ### Blatt–Weisskopf factors: regenerated table (L = 0..10) and generic table theorems

`bwTable` is regenerated from `_get_polynomial_blatt_weisskopf(L)`; `BWEntry.WF` is decidable
(`Lemmas/C12Table.lean`). The statements below are for EVERY `L` in the table and every real `z ≥ 0`;
angular momenta beyond the table are outside the property's quantifier (L ≤ 10). -/

/-- Every regenerated entry is well-formed: `c > 0`, `L+1` non-negative coefficients, positive
constant term, monic, `Σ aₖ = c`. -/
theorem bwTable_wf : ∀ e ∈ bwTable, e.wf = true := by decide +kernel

/-- The entry at position `L` is the one for angular momentum `L`. -/
theorem bwTable_index : ∀ i : Fin bwTable.length, (bwTable.get i).L = i := by decide

theorem bwTable_WF (L : ℕ) (hL : L < bwTable.length) : (bwTable[L]).WF :=
  (BWEntry.wf_iff _).mp (bwTable_wf _ (List.getElem_mem hL))

/-- The polynomial path of `BlattWeisskopfSquared(z, L)` is the table entry, for every `L` of the table. -/
theorem bw_eq_table (L : ℕ) (hL : L < bwTable.length) (z : ℝ) :
    BlattWeisskopfSquared z L = (bwTable[L]).eval z := by
  have hlen : bwTable.length = 11 := rfl
  rw [hlen] at hL
  interval_cases L
  · exact bw_0_eq_table z
  · exact bw_1_eq_table z
  · exact bw_2_eq_table z
  · exact bw_3_eq_table z
  · exact bw_4_eq_table z
  · exact bw_5_eq_table z
  · exact bw_6_eq_table z
  · exact bw_7_eq_table z
  · exact bw_8_eq_table z
  · exact bw_9_eq_table z
  · exact bw_10_eq_table z

/-- `B_L²(1) = 1`. -/
theorem bw_normalised (L : ℕ) (hL : L < bwTable.length) : BlattWeisskopfSquared 1 L = 1 := by
  rw [bw_eq_table L hL]; exact BWEntry.eval_one (bwTable_WF L hL)

/-- Threshold behaviour: `B_L²(z) = z^L · (c_L / P_L(z))` with `c_L > 0` and `P_L(0) > 0`
(so `B_L²(z)/z^L → c_L/P_L(0) > 0` as `z → 0`). -/
theorem bw_threshold (L : ℕ) (hL : L < bwTable.length) (z : ℝ) :
    BlattWeisskopfSquared z L
        = z ^ L * (((bwTable[L]).c : ℝ) / polyEval (bwTable[L]).den z)
      ∧ (0 : ℝ) < ((bwTable[L]).c : ℝ) ∧ 0 < polyEval (bwTable[L]).den 0 := by
  have hwf := bwTable_WF L hL
  have hidx : (bwTable[L]).L = L := bwTable_index ⟨L, hL⟩
  refine ⟨?_, by exact_mod_cast hwf.c_pos, BWEntry.den_zero_pos hwf⟩
  rw [bw_eq_table L hL, BWEntry.eval_threshold, hidx]

/-- Boundedness: `0 ≤ B_L²(z) ≤ c_L` for `z ≥ 0`. -/
theorem bw_bounded (L : ℕ) (hL : L < bwTable.length) (z : ℝ) (hz : 0 ≤ z) :
    0 ≤ BlattWeisskopfSquared z L ∧ BlattWeisskopfSquared z L ≤ ((bwTable[L]).c : ℝ) := by
  have hwf := bwTable_WF L hL
  rw [bw_eq_table L hL]
  exact ⟨BWEntry.eval_nonneg hwf hz, BWEntry.eval_le hwf hz⟩

/-! ### Polynomial path = Hankel definition `|h_L(1)|² / (|h_L(√z)|² z)` for `z > 0`, per L (one template)

The hypothesis `0 < z` is necessary: see `bw_paths_differ_below_zero` (known finding). -/

theorem bw_hankel_0 (z : ℝ) (hz : 0 < z) : BlattWeisskopfHankel_0 z = BlattWeisskopfSquared_0 z := by
  have hwf : bwEntry_0.WF := bwTable_WF 0 (by decide)
  rw [bw_0_eq_table, ← hankel_eq_of_norm bwEntry_0 hwf SphericalHankel1_0 hankel_norm_0 z hz]
  unfold BlattWeisskopfHankel_0
  ring

theorem bw_hankel_1 (z : ℝ) (hz : 0 < z) : BlattWeisskopfHankel_1 z = BlattWeisskopfSquared_1 z := by
  have hwf : bwEntry_1.WF := bwTable_WF 1 (by decide)
  rw [bw_1_eq_table, ← hankel_eq_of_norm bwEntry_1 hwf SphericalHankel1_1 hankel_norm_1 z hz]
  unfold BlattWeisskopfHankel_1
  ring

theorem bw_hankel_2 (z : ℝ) (hz : 0 < z) : BlattWeisskopfHankel_2 z = BlattWeisskopfSquared_2 z := by
  have hwf : bwEntry_2.WF := bwTable_WF 2 (by decide)
  rw [bw_2_eq_table, ← hankel_eq_of_norm bwEntry_2 hwf SphericalHankel1_2 hankel_norm_2 z hz]
  unfold BlattWeisskopfHankel_2
  ring

theorem bw_hankel_3 (z : ℝ) (hz : 0 < z) : BlattWeisskopfHankel_3 z = BlattWeisskopfSquared_3 z := by
  have hwf : bwEntry_3.WF := bwTable_WF 3 (by decide)
  rw [bw_3_eq_table, ← hankel_eq_of_norm bwEntry_3 hwf SphericalHankel1_3 hankel_norm_3 z hz]
  unfold BlattWeisskopfHankel_3
  ring

theorem bw_hankel_4 (z : ℝ) (hz : 0 < z) : BlattWeisskopfHankel_4 z = BlattWeisskopfSquared_4 z := by
  have hwf : bwEntry_4.WF := bwTable_WF 4 (by decide)
  rw [bw_4_eq_table, ← hankel_eq_of_norm bwEntry_4 hwf SphericalHankel1_4 hankel_norm_4 z hz]
  unfold BlattWeisskopfHankel_4
  ring

theorem bw_hankel_5 (z : ℝ) (hz : 0 < z) : BlattWeisskopfHankel_5 z = BlattWeisskopfSquared_5 z := by
  have hwf : bwEntry_5.WF := bwTable_WF 5 (by decide)
  rw [bw_5_eq_table, ← hankel_eq_of_norm bwEntry_5 hwf SphericalHankel1_5 hankel_norm_5 z hz]
  unfold BlattWeisskopfHankel_5
  ring

theorem bw_hankel_6 (z : ℝ) (hz : 0 < z) : BlattWeisskopfHankel_6 z = BlattWeisskopfSquared_6 z := by
  have hwf : bwEntry_6.WF := bwTable_WF 6 (by decide)
  rw [bw_6_eq_table, ← hankel_eq_of_norm bwEntry_6 hwf SphericalHankel1_6 hankel_norm_6 z hz]
  unfold BlattWeisskopfHankel_6
  ring

theorem bw_hankel_7 (z : ℝ) (hz : 0 < z) : BlattWeisskopfHankel_7 z = BlattWeisskopfSquared_7 z := by
  have hwf : bwEntry_7.WF := bwTable_WF 7 (by decide)
  rw [bw_7_eq_table, ← hankel_eq_of_norm bwEntry_7 hwf SphericalHankel1_7 hankel_norm_7 z hz]
  unfold BlattWeisskopfHankel_7
  ring

theorem bw_hankel_8 (z : ℝ) (hz : 0 < z) : BlattWeisskopfHankel_8 z = BlattWeisskopfSquared_8 z := by
  have hwf : bwEntry_8.WF := bwTable_WF 8 (by decide)
  rw [bw_8_eq_table, ← hankel_eq_of_norm bwEntry_8 hwf SphericalHankel1_8 hankel_norm_8 z hz]
  unfold BlattWeisskopfHankel_8
  ring

theorem bw_hankel_9 (z : ℝ) (hz : 0 < z) : BlattWeisskopfHankel_9 z = BlattWeisskopfSquared_9 z := by
  have hwf : bwEntry_9.WF := bwTable_WF 9 (by decide)
  rw [bw_9_eq_table, ← hankel_eq_of_norm bwEntry_9 hwf SphericalHankel1_9 hankel_norm_9 z hz]
  unfold BlattWeisskopfHankel_9
  ring

theorem bw_hankel_10 (z : ℝ) (hz : 0 < z) : BlattWeisskopfHankel_10 z = BlattWeisskopfSquared_10 z := by
  have hwf : bwEntry_10.WF := bwTable_WF 10 (by decide)
  rw [bw_10_eq_table, ← hankel_eq_of_norm bwEntry_10 hwf SphericalHankel1_10 hankel_norm_10 z hz]
  unfold BlattWeisskopfHankel_10
  ring

/-- …hence for the dispatcher: for every `L` of the table and `z > 0`, `BlattWeisskopfSquared(z, L)`
equals the Hankel expression built from the regenerated `SphericalHankel1_L`. -/
theorem bw_hankel_all (z : ℝ) (hz : 0 < z) :
    BlattWeisskopfSquared z 0 = BlattWeisskopfHankel_0 z ∧
    BlattWeisskopfSquared z 1 = BlattWeisskopfHankel_1 z ∧
    BlattWeisskopfSquared z 2 = BlattWeisskopfHankel_2 z ∧
    BlattWeisskopfSquared z 3 = BlattWeisskopfHankel_3 z ∧
    BlattWeisskopfSquared z 4 = BlattWeisskopfHankel_4 z ∧
    BlattWeisskopfSquared z 5 = BlattWeisskopfHankel_5 z ∧
    BlattWeisskopfSquared z 6 = BlattWeisskopfHankel_6 z ∧
    BlattWeisskopfSquared z 7 = BlattWeisskopfHankel_7 z ∧
    BlattWeisskopfSquared z 8 = BlattWeisskopfHankel_8 z ∧
    BlattWeisskopfSquared z 9 = BlattWeisskopfHankel_9 z ∧
    BlattWeisskopfSquared z 10 = BlattWeisskopfHankel_10 z :=
  ⟨(bw_hankel_0 z hz).symm, (bw_hankel_1 z hz).symm, (bw_hankel_2 z hz).symm, (bw_hankel_3 z hz).symm, (bw_hankel_4 z hz).symm, (bw_hankel_5 z hz).symm, (bw_hankel_6 z hz).symm, (bw_hankel_7 z hz).symm, (bw_hankel_8 z hz).symm, (bw_hankel_9 z hz).symm, (bw_hankel_10 z hz).symm⟩

/-! ### Known finding: below `z = 0` the two paths are different functions (L = 0) -/

/-- `bw_hankel_L` needs `z > 0`: for EVERY `z < 0` the defining Hankel expression with the principal
`sqrt z` (what a symbolic `L` gives after `L := 0`) is NEGATIVE, while the cached polynomial path is `1`.
(`known_findings.json`: "symbolic-L Hankel path vs integer-L polynomial path, z <= 0".) -/
theorem bw_paths_differ_below_zero (z : ℝ) (hz : z < 0) :
    BlattWeisskopfHankelC_0 z < 0 ∧ BlattWeisskopfSquared_0 z = 1 := by
  refine ⟨?_, by unfold BlattWeisskopfSquared_0; rfl⟩
  have hroot : (((z : ℝ) : ℂ) ^ ((1 : ℂ) / 2)) ≠ 0 := by
    rw [csqrt_ofReal_of_neg hz]
    have : Real.sqrt (-z) ≠ 0 := (Real.sqrt_pos.mpr (by linarith)).ne'
    simp [Complex.I_ne_zero, this]
  have hne : ∀ w : ℂ, w ≠ 0 → 0 < ‖SphericalHankel1C_0 w‖ ^ 2 := by
    intro w hw
    have : SphericalHankel1C_0 w ≠ 0 := by
      unfold SphericalHankel1C_0
      simp [Complex.I_ne_zero, hw, Complex.exp_ne_zero]
    positivity
  unfold BlattWeisskopfHankelC_0
  have h1 := hne (((1 : ℝ) : ℝ) : ℂ) (by simp)
  have h2 := hne _ hroot
  exact mul_neg_of_neg_of_pos (mul_neg_of_neg_of_pos (inv_lt_zero.mpr hz) h1) (inv_pos.mpr h2)

example : BlattWeisskopfHankelC_0 (-1) ≠ BlattWeisskopfSquared_0 (-1) := by
  obtain ⟨h1, h2⟩ := bw_paths_differ_below_zero (-1) (by norm_num)
  rw [h2]; linarith

/-! ### Non-vacuity -/

/-- the hypotheses of `width_at_pole_*` hold at a concrete point (`m₀ = 2`, `m₁ = m₂ = ½`, `L = 0`) -/
example (Gamma0 : ℝ) : EDW_PhaseSpaceFactorAbs (2 ^ 2) 2 Gamma0 (1 / 2) (1 / 2) 0 1 = (Gamma0 : ℂ) := by
  apply width_at_pole_PhaseSpaceFactorAbs
  · have h : BreakupMomentumSquared (2 ^ 2) (1 / 2) (1 / 2) = 3 / 4 := by
      unfold BreakupMomentumSquared; norm_num
    unfold PhaseSpaceFactorAbs
    rw [h]
    positivity
  · unfold FormFactor BlattWeisskopfSquared BlattWeisskopfSquared_0
    simp

example : BlattWeisskopfSquared 1 2 = 1 := bw_normalised 2 (by decide)

/-- the bound of `bw_bounded` spelled out for `L = 2`: `0 ≤ 13z²/(z²+3z+9) ≤ 13` -/
example (z : ℝ) (hz : 0 ≤ z) : 0 ≤ BlattWeisskopfSquared z 2 ∧ BlattWeisskopfSquared z 2 ≤ 13 := by
  have h := bw_bounded 2 (by decide) z hz
  have hc : (((bwTable[2]).c : ℚ) : ℝ) = 13 := by
    show ((bwEntry_2.c : ℚ) : ℝ) = 13
    unfold bwEntry_2; norm_num
  rwa [hc] at h

/-- generic `ff`, `rho`: constant functions satisfy the hypotheses of `width_at_pole` -/
example (m0 Gamma0 m1 m2 d : ℝ) (L : ℕ) :
    EnergyDependentWidth (fun _ _ _ _ _ => 1) (fun _ _ _ => 1) (m0 ^ 2) m0 Gamma0 m1 m2 L d = (Gamma0 : ℂ) :=
  width_at_pole _ _ m0 Gamma0 m1 m2 L d one_ne_zero one_ne_zero

end Ampverif.Props.C12
