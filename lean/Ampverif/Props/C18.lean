/-
C18 — PoolSum denotes the finite sum over its index pools.

Theorems about the hand-written executable model `Ampverif.Model` (M1), which follows
`ampform.sympy.PoolSum` line by line and is tied to the working tree by the correspondence run
of `tools/props/C18.py`.  `v.sound` = the source protects bound indices in `subs/xreplace`
(0f745db) and collects field values without recursion (1c47dce); the harness infers `v` from
the real code.  `eval I e ρ` is the value of `e` in ℚ for EVERY environment `ρ` and EVERY
interpretation `I` of uninterpreted function applications.

Pool VALUES are terms (numbers, symbols, sums, outer summation indices): they are arguments of the
pool sum, so `free_symbols`, `subs` and `xreplace` reach them, and the value of a pool sum is the
sum over the product of the pool values EVALUATED IN THE ENVIRONMENT (for a nested sum: in the
environment extended by the outer indices).  `wfSums e` (decidable; `Model/Expr.lean`) is the
standing hypothesis: every pool sum inside `e` has pairwise distinct index symbols, non-empty
pools, pool values without pool sums that mention neither an index of the same sum nor a symbol
bound inside its summand.  What it excludes is run on the real code and recorded.
Only property theorems and non-vacuity examples live here.
-/
import Ampverif.Lemmas.C18New

namespace Ampverif.Props.C18
open Ampverif.Model Ampverif.Lemmas.C18

/-! ### 1. evaluation = explicit sum over the cartesian product of the pools -/

/-- `PoolSum.evaluate()` (cartesian product, sequential `subs` of the pool values for the indices,
`Add`) has the value of the nested finite sum `Σ_{i₁∈⟦pool₁⟧ρ} … Σ_{iₙ∈⟦poolₙ⟧ρ} summand`, for every
summand (nested pool sums included, also ones whose pools mention `i₁…iₙ`), any number of
indices, pools with duplicates, singletons, symbols and compound terms. -/
theorem evaluate_denotes (I : Interp) (v : Variant) (hv : v.sound) (b : Expr) (ixs : List Binder)
    (hw : wfSums (.psum b ixs) = true) (ρ : Env) :
    eval I (evaluate v (.psum b ixs)) ρ
      = evalSum (evalBinders I ixs ρ) ρ (fun ρ' => eval I b ρ') := by
  obtain ⟨hnd, _, hnp, hown, hwb⟩ := wfSums_psum hw
  simp only [evaluate, eval]
  rw [dictOf_nodup ixs hnd, evalList_eq_map, List.map_map]
  exact sum_evaluate_terms I v hv ixs b ρ hnd hnp hown hwb

/-- … which is the flat sum over `itertools.product(*pools)` — the pool VALUES evaluated in the
environment — of the summand evaluated with the indices bound to the combination. -/
theorem evaluate_is_sum_over_product (I : Interp) (v : Variant) (hv : v.sound) (b : Expr)
    (ixs : List Binder) (hw : wfSums (.psum b ixs) = true) (ρ : Env) :
    eval I (evaluate v (.psum b ixs)) ρ
      = ((assignments (evalBinders I ixs ρ)).map (fun c => eval I b (updAll ρ c))).sum := by
  rw [evaluate_denotes I v hv b ixs hw ρ, evalSum_flat]

/-- `evaluate` does not change the value of the pool sum. -/
theorem evaluate_preserves_value (I : Interp) (v : Variant) (hv : v.sound) (b : Expr)
    (ixs : List Binder) (hw : wfSums (.psum b ixs) = true) (ρ : Env) :
    eval I (evaluate v (.psum b ixs)) ρ = eval I (.psum b ixs) ρ := by
  rw [evaluate_denotes I v hv b ixs hw ρ]; simp [eval]

/-- `doit()` (deep: pool sums at any nesting depth, inside sums, products, powers and function
arguments; inner pools that mention outer indices) does not change the value, for every amount
of recursion fuel. -/
theorem doit_preserves_value (I : Interp) (v : Variant) (hv : v.sound) :
    ∀ (n : Nat) (e : Expr) (ρ : Env), wfSums e = true → eval I (doit v n e) ρ = eval I e ρ := by
  intro n
  induction n with
  | zero => intro e ρ _; rfl
  | succ n ih =>
    intro e ρ h
    simp only [doit]
    apply eval_doitPass I v hv (doit v n) ih _ e ρ h
    intro b ixs ρ' hw
    exact evaluate_preserves_value I v hv b ixs hw ρ'

/-- a directly nested sum whose INNER pools mention the OUTER indices: `doit` has the value of
the iterated sum in which the inner pool values are evaluated with the outer indices bound. -/
theorem doit_nested_dependent_pools (I : Interp) (v : Variant) (hv : v.sound) (n : Nat) (g : Expr)
    (inner outer : List Binder) (hw : wfSums (.psum (.psum g inner) outer) = true) (ρ : Env) :
    eval I (doit v n (.psum (.psum g inner) outer)) ρ
      = evalSum (evalBinders I outer ρ) ρ
          (fun ρ' => evalSum (evalBinders I inner ρ') ρ' (fun ρ'' => eval I g ρ'')) := by
  rw [doit_preserves_value I v hv n _ ρ hw]
  simp only [eval]

/-- …and with fuel ≥ nesting depth the result is explicit: no pool sum is left anywhere. -/
theorem doit_leaves_no_pool_sum (v : Variant) (hv : v.sound) :
    ∀ (n : Nat) (e : Expr), wfSums e = true → psumDepth e ≤ n → noPsum (doit v n e) = true := by
  have key : ∀ (n : Nat) (e : Expr), wfSums e = true → psumDepth e ≤ n → psumDepth (doit v n e) = 0 := by
    intro n
    induction n with
    | zero => intro e _ h; simpa [doit] using h
    | succ n ih =>
      intro e hw h
      simp only [doit]
      exact psumDepth_doitPass v hv (doit v n) n ih e hw h
  intro n e hw h
  exact noPsum_of_psumDepth_zero _ (key n e hw h)

/-! ### 2. free symbols -/

/-- `free_symbols` of a pool sum = free symbols of the summand AND of the pool values, minus the
indices (`super().free_symbols` is the union over all arguments). -/
theorem free_symbols (b : Expr) (ixs : List Binder) (s : Sym) :
    s ∈ free (.psum b ixs) ↔ (s ∈ free b ∨ s ∈ freeBinders ixs) ∧ s ∉ names ixs := by
  simp [free, List.mem_filter, or_and_right]

/-- …and that is semantically right: the value of any term depends on its free symbols only
(in particular never on the value an environment gives to a summation index, but it does depend
on a symbol that occurs only in a pool). -/
theorem value_depends_on_free_symbols_only (I : Interp) (e : Expr) (hw : wfSums e = true) (ρ ρ' : Env)
    (h : ∀ s ∈ free e, ρ s = ρ' s) : eval I e ρ = eval I e ρ' :=
  eval_agree I e ρ ρ' hw h

/-! ### 3. cleanup -/

/-- What `cleanup()` really does to the value: it divides by the product of the pool sizes of the
indices that do not occur in the summand (those are dropped without compensation). -/
theorem cleanup_value (I : Interp) (v : Variant) (hv : v.sound) (b : Expr) (ixs : List Binder)
    (hw : wfSums (.psum b ixs) = true) (ρ : Env) :
    eval I (.psum b ixs) ρ
      = (cleanupMultiplicity (.psum b ixs) : Q) * eval I (cleanup v (.psum b ixs)) ρ := by
  obtain ⟨hnd, hne, hnp, hown, hwb⟩ := wfSums_psum hw
  have key := evalSum_cleanup (free b) (fun ρ' => eval I b ρ')
    (fun ρ1 ρ2 h => eval_agree I b ρ1 ρ2 hwb h) (evalBinders I ixs ρ) ρ
    (by rw [names_evalBinders]; exact hnd) (evalBinders_nonempty I ρ ixs hne)
  simp only [eval, cleanupMultiplicity, cleanup]
  rw [key, cleanupMult_evalBinders, cleanupKept_evalBinders, cleanupSingles_evalBinders, evalPairs_reverse]
  congr 1
  -- the inserted values are pool values: pool-sum-free, no index of this sum, nothing bound in `b`
  have hσ : ∀ p ∈ (cleanupSingles (free b) ixs).reverse,
      wfSums p.2 = true ∧ ∀ s ∈ syms p.2, s ∉ names ixs ∧ s ∉ bound b := by
    intro p hp
    have := cleanupSingles_vals (free b) ixs hnp p (List.mem_reverse.mp hp)
    exact ⟨wfSums_of_noPsum p.2 this.1, fun s hs => hown s (this.2 s hs)⟩
  by_cases hk : (cleanupKept (free b) ixs).isEmpty = true
  · have : cleanupKept (free b) ixs = [] := by simpa using hk
    simp only [this, List.isEmpty_nil, if_true, evalSum, evalBinders]
    rw [eval_xreplace I v hv b _ ρ hwb (fun p hp => ⟨(hσ p hp).1, fun s hs => ((hσ p hp).2 s hs).2⟩)]
  · simp only [hk]
    apply evalSum_congr_agree
    intro ρ' hρ'
    rw [eval_xreplace I v hv b _ ρ' hwb (fun p hp => ⟨(hσ p hp).1, fun s hs => ((hσ p hp).2 s hs).2⟩)]
    rw [evalPairs_congr I _ ρ ρ']
    intro p hp
    apply eval_agree I p.2 ρ' ρ (hσ p hp).1
    intro s hs
    apply hρ' s
    rw [names_evalBinders]
    exact not_mem_names_kept (free b) ixs s ((hσ p hp).2 s (mem_syms_of_mem_free p.2 s hs)).1

/-- `cleanup()` never changes the value PROVIDED every index that does not occur in the summand
has exactly one value. (Without the proviso the clause fails on the real code:
`cleanup_changes_value_witness`, known finding.) -/
theorem cleanup_preserves_value (I : Interp) (v : Variant) (hv : v.sound) (b : Expr)
    (ixs : List Binder) (hw : wfSums (.psum b ixs) = true)
    (hunused : ∀ p ∈ ixs, p.1 ∉ free b → p.2.length = 1) (ρ : Env) :
    eval I (cleanup v (.psum b ixs)) ρ = eval I (.psum b ixs) ρ := by
  rw [cleanup_value I v hv b ixs hw ρ]
  simp [cleanupMultiplicity, cleanupMult_eq_one (free b) ixs hunused]

/-! ### 4. substitution laws -/

/-- Substituting a symbol that is not an index by a term that mentions no index commutes with
evaluation — as an equality of terms, hence of values — ALSO when the symbol occurs in a pool
(or only in a pool): `subs` rewrites the pool values, `evaluate` inserts the rewritten values. -/
theorem subs_free_commutes_with_evaluate (v : Variant) (hv : v.sound) (x : Sym) (a b : Expr)
    (ixs : List Binder) (hw : wfSums (.psum b ixs) = true) (hx : x ∉ names ixs)
    (ha : ∀ i ∈ names ixs, i ∉ syms a) :
    evaluate v (subst1 v x a (.psum b ixs)) = subst1 v x a (evaluate v (.psum b ixs)) := by
  obtain ⟨hnd, _, hnp, hown, _⟩ := wfSums_psum hw
  rw [subst1_psum_not_mem v hv x a b ixs hx]
  simp only [evaluate, subst1]
  rw [dictOf_nodup ixs hnd, dictOf_nodup _ (by rw [names_subst1Binders]; exact hnd),
    assignments_subst1Binders, List.map_map, subst1List_map]
  congr 1
  apply List.map_congr_left
  intro c hc
  simp only [Function.comp]
  apply substSeq_comm v hv x a c b
  intro p hp
  have hm := assignments_keys ixs c hc p hp
  have hv' := assignments_vals ixs hnp c hc p hp
  exact ⟨fun h => hx (h ▸ hm), ha _ hm, hv'.1, fun hxb hxs => (hown x (hv'.2 x hxs)).2 hxb⟩

/-- `subs(x, a)` is the update `x ↦ ⟦a⟧ρ` of the environment, for every term — nested pool sums,
`x` in summands, in pools, in both or nowhere — provided `a` mentions no bound symbol. -/
theorem subs_is_environment_update (I : Interp) (v : Variant) (hv : v.sound) (x : Sym) (a e : Expr)
    (ha : wfSums a = true) (hw : wfSums e = true) (hc : ∀ s ∈ syms a, s ∉ bound e) (ρ : Env) :
    eval I (subst1 v x a e) ρ = eval I e (upd ρ x (eval I a ρ)) :=
  eval_subst1 I v hv x a ha e ρ hw hc

/-- …hence substituting and then unfolding has the value of unfolding in the updated environment
(= unfolding and then substituting), whatever the fuel. -/
theorem subs_commutes_with_doit_value (I : Interp) (v : Variant) (hv : v.sound) (x : Sym) (a e : Expr)
    (ha : noPsum a = true) (hw : wfSums e = true) (hc : ∀ s ∈ syms a, s ∉ bound e) (n : Nat) (ρ : Env) :
    eval I (doit v n (subst1 v x a e)) ρ = eval I (doit v n e) (upd ρ x (eval I a ρ)) := by
  rw [doit_preserves_value I v hv n _ ρ (wfSums_subst1 v hv x a ha e hw hc),
    doit_preserves_value I v hv n e _ hw]
  exact eval_subst1 I v hv x a (wfSums_of_noPsum a ha) e ρ hw hc

/-- `xreplace(σ)` is the simultaneous update of the environment (pools included). -/
theorem xreplace_is_simultaneous_update (I : Interp) (v : Variant) (hv : v.sound) (e : Expr)
    (σ : List (Sym × Expr)) (hw : wfSums e = true)
    (hσ : ∀ p ∈ σ, wfSums p.2 = true ∧ ∀ s ∈ syms p.2, s ∉ bound e) (ρ : Env) :
    eval I (xreplace v e σ) ρ = eval I e (qEnv (evalPairs I σ ρ) ρ) :=
  eval_xreplace I v hv e σ ρ hw hσ

/-- A substitution for a summation index leaves the sum unchanged (`subs`). -/
theorem subs_index_is_identity (v : Variant) (hv : v.sound) (x : Sym) (a b : Expr)
    (ixs : List Binder) (hx : x ∈ names ixs) : subst1 v x a (.psum b ixs) = .psum b ixs :=
  subst1_psum_mem v hv x a b ixs hx

/-- A replacement map whose keys are all summation indices leaves the sum unchanged (`xreplace`). -/
theorem xreplace_index_is_identity (v : Variant) (hv : v.sound) (σ : List (Sym × Expr)) (b : Expr)
    (ixs : List Binder) (hσ : ∀ p ∈ σ, p.1 ∈ names ixs) : xreplace v (.psum b ixs) σ = .psum b ixs := by
  have hp : v.poolSumProtectsBound = true := hv.2
  have : σ.filter (fun p => !(names ixs).contains p.1) = [] := by
    apply List.filter_eq_nil_iff.mpr
    intro p hp'
    simpa using hσ p hp'
  simp only [xreplace, hp, if_true, this]
  rw [xreplace_nil v hv, xreplaceBinders_nil v hv]

/-! ### 4b. the constructor `PoolSum.__new__` (`Model/ExprNew.lean`)

`Pool` = what iterating the Python object handed over as a value pool yields + whether the object is
a one-shot iterator (generator, `map`/`filter`/`zip` object, `iter(…)`) or re-iterable (list, tuple,
range, set, dict view, `sympy.Tuple`).  `nv.sound`: the constructor iterates each pool once and drops
nothing (the current source; the harness infers `nv` by probes and compares construction from every
input kind with `psumNew`). -/

/-- The constructor stores the summand and, for every index, exactly the values the pool object
yields — same order, same multiplicity (duplicates included) — for EVERY kind of iterable. -/
theorem new_stores_given_values (v : Variant) (nv : NewVariant) (hn : nv.sound) (b : Expr)
    (ixs : List (Sym × Pool)) (h : ∀ p ∈ ixs, p.2.items ≠ []) :
    psumNew v nv b ixs false = .ok (.psum b (ixs.map (fun p => (p.1, p.2.items)))) := by
  rw [psumNew_sound v nv hn, convertIndices_ok nv hn.2 ixs h]; simp

/-- `PoolSum(…, evaluate=True)` built from any kinds of iterables has the value of the explicit
nested sum over the values the pools yield. -/
theorem new_evaluate_denotes (I : Interp) (v : Variant) (hv : v.sound) (nv : NewVariant) (hn : nv.sound)
    (b : Expr) (ixs : List (Sym × Pool))
    (hw : wfSums (.psum b (ixs.map (fun p => (p.1, p.2.items)))) = true) (ρ : Env) :
    ∃ e, psumNew v nv b ixs true = .ok e ∧
      eval I e ρ = evalSum (evalBinders I (ixs.map (fun p => (p.1, p.2.items))) ρ) ρ (fun ρ' => eval I b ρ') := by
  have hne : ∀ p ∈ ixs, p.2.items ≠ [] := by
    intro p hp
    have := (wfSums_psum hw).2.1 (p.1, p.2.items) (List.mem_map.mpr ⟨p, hp, rfl⟩)
    exact this
  refine ⟨evaluate v (.psum b (ixs.map (fun p => (p.1, p.2.items)))), ?_, evaluate_denotes I v hv b _ hw ρ⟩
  rw [psumNew_sound v nv hn, convertIndices_ok nv hn.2 ixs hne]; simp

/-- An index whose pool yields nothing (an empty list, an exhausted iterator) is rejected
(`ValueError`): no `PoolSum` with an empty pool is ever constructed. -/
theorem new_rejects_empty_pool (v : Variant) (nv : NewVariant) (hn : nv.sound) (b : Expr)
    (ixs : List (Sym × Pool)) (ev : Bool) (h : ∃ p ∈ ixs, p.2.items = []) :
    ∃ j ∈ names ixs, psumNew v nv b ixs ev = .noValues j := by
  obtain ⟨j, hj, hm⟩ := convertIndices_error nv hn.2 ixs h
  exact ⟨j, hm, by rw [psumNew_sound v nv hn, hj]⟩

/-- `expr.func(*expr.args)` is the identity on pool sums. -/
theorem rebuild_is_identity (v : Variant) (nv : NewVariant) (hn : nv.sound) (b : Expr) (ixs : List Binder)
    (h : poolsNonempty ixs = true) : psumRebuild v nv (.psum b ixs) = .ok (.psum b ixs) := by
  simp only [psumRebuild]
  rw [psumNew_sound v nv hn, convertIndices_argPools nv hn.2 ixs h]; simp

/-- `subs` rebuilds the pool sum through `__new__`; the result is the `subst1` of the term model:
in particular every pool keeps its length, ALSO when the substitution makes pool entries equal. -/
theorem subs_through_constructor (v : Variant) (hv : v.sound) (nv : NewVariant) (hn : nv.sound)
    (x : Sym) (a b : Expr) (ixs : List Binder) (h : poolsNonempty ixs = true) :
    subst1ViaNew v nv x a (.psum b ixs) = .ok (subst1 v x a (.psum b ixs)) := by
  by_cases hx : x ∈ names ixs
  · rw [subst1_psum_mem v hv x a b ixs hx]
    simp [subst1ViaNew, hx]
  · rw [subst1_psum_not_mem v hv x a b ixs hx]
    have hc : (names ixs).contains x = false := by simpa using hx
    simp only [subst1ViaNew, hc]
    rw [psumNew_sound v nv hn, convertIndices_argPools nv hn.2 _
      (poolsNonempty_of_sizes (subst1Binders_sizes v x a ixs) h)]
    simp

/-- the same for `xreplace`. -/
theorem xreplace_through_constructor (v : Variant) (hv : v.sound) (nv : NewVariant) (hn : nv.sound)
    (σ : List (Sym × Expr)) (b : Expr) (ixs : List Binder) (h : poolsNonempty ixs = true) :
    xreplaceViaNew v nv σ (.psum b ixs) = .ok (xreplace v (.psum b ixs) σ) := by
  have hp : v.poolSumProtectsBound = true := hv.2
  simp only [xreplaceViaNew, xreplace, hp, if_true]
  rw [psumNew_sound v nv hn, convertIndices_argPools nv hn.2 _
    (poolsNonempty_of_sizes (xreplaceBinders_sizes v _ ixs) h)]
  simp

/-- multiplicity: a substitution never changes the number of values of a pool. -/
theorem subs_keeps_pool_sizes (v : Variant) (x : Sym) (a : Expr) (σ : List (Sym × Expr)) (ixs : List Binder) :
    (subst1Binders v x a ixs).map (fun p => p.2.length) = ixs.map (fun p => p.2.length) ∧
    (xreplaceBinders v ixs σ).map (fun p => p.2.length) = ixs.map (fun p => p.2.length) :=
  ⟨subst1Binders_sizes v x a ixs, xreplaceBinders_sizes v σ ixs⟩

/-- `subs` through the constructor, then `doit` = `doit`, then the substitution (as values) — for
every pool, in particular when `x ↦ a` makes two pool entries equal: both are summed. -/
theorem subs_through_constructor_then_doit (I : Interp) (v : Variant) (hv : v.sound) (nv : NewVariant)
    (hn : nv.sound) (x : Sym) (a b : Expr) (ixs : List Binder) (ha : noPsum a = true)
    (hw : wfSums (.psum b ixs) = true) (hc : ∀ s ∈ syms a, s ∉ bound (.psum b ixs)) (n : Nat) (ρ : Env) :
    ∃ e', subst1ViaNew v nv x a (.psum b ixs) = .ok e' ∧
      eval I (doit v n e') ρ = eval I (doit v n (.psum b ixs)) (upd ρ x (eval I a ρ)) :=
  ⟨_, subs_through_constructor v hv nv hn x a b ixs (poolsNonempty_of_wfSums hw),
    subs_commutes_with_doit_value I v hv x a _ ha hw hc n ρ⟩

/-- … and for `xreplace` (simultaneous; e.g. `{a: 2, b: 2}` on the pool `(a, b)`). -/
theorem xreplace_through_constructor_value (I : Interp) (v : Variant) (hv : v.sound) (nv : NewVariant)
    (hn : nv.sound) (σ : List (Sym × Expr)) (b : Expr) (ixs : List Binder)
    (hw : wfSums (.psum b ixs) = true)
    (hσ : ∀ p ∈ σ, wfSums p.2 = true ∧ ∀ s ∈ syms p.2, s ∉ bound (.psum b ixs)) (ρ : Env) :
    ∃ e', xreplaceViaNew v nv σ (.psum b ixs) = .ok e' ∧
      eval I e' ρ = eval I (.psum b ixs) (qEnv (evalPairs I σ ρ) ρ) :=
  ⟨_, xreplace_through_constructor v hv nv hn σ b ixs (poolsNonempty_of_wfSums hw),
    xreplace_is_simultaneous_update I v hv _ σ hw hσ ρ⟩

/-! ### 5. witnesses: what the hypotheses exclude really fails -/

def wi : Sym := ⟨"i", []⟩
def wj : Sym := ⟨"j", []⟩
def wk : Sym := ⟨"k", []⟩
def wx : Sym := ⟨"x", []⟩
def wn : Sym := ⟨"n", []⟩
/-- `PoolSum(f(i, j), (i, (1, 2)))` -/
def wBound : Expr := .psum (.app "f:f" [.sym wi, .sym wj]) [(wi, [.rat 1, .rat 2])]
/-- the pinned tree before 0f745db: bound indices are rewritten -/
def vUnprotected : Variant := ⟨false, false⟩
def wI : Interp := fun _ args => args.sum + 1

/-- unsound variant `poolSumProtectsBound = false`: `PoolSum(f(i,j),(i,(1,2))).subs(i,5)` is not
the original sum, and its value differs. -/
theorem witness_bound :
    Expr.beq (subst1 vUnprotected wi (.rat 5) wBound) wBound = false ∧
    eval wI (subst1 vUnprotected wi (.rat 5) wBound) (fun _ => 0) ≠ eval wI wBound (fun _ => 0) := by
  decide +kernel

/-- the sound variant on the same input: identity. -/
example : Expr.beq (subst1 Variant.current wi (.rat 5) wBound) wBound = true := by decide +kernel

/-- `PoolSum(x, (i, (0, 1, 2)))`: `doit` gives `3x`, `cleanup` gives `x` (known finding). -/
theorem cleanup_changes_value_witness :
    eval wI (cleanup Variant.current (.psum (.sym wx) [(wi, [.rat 0, .rat 1, .rat 2])])) (fun _ => 1)
      ≠ eval wI (.psum (.sym wx) [(wi, [.rat 0, .rat 1, .rat 2])]) (fun _ => 1) := by
  decide +kernel

/-- a repeated index symbol (excluded by `Nodup`): `dict(self.indices)` keeps the last pool, so
`PoolSum(f(i),(i,(1,2)),(i,(3,4)))` evaluates to `f(3)+f(4)`, not to the nested sum. -/
theorem repeated_index_witness :
    eval wI (evaluate Variant.current
        (.psum (.app "f:f" [.sym wi]) [(wi, [.rat 1, .rat 2]), (wi, [.rat 3, .rat 4])])) (fun _ => 0)
      ≠ eval wI (.psum (.app "f:f" [.sym wi]) [(wi, [.rat 1, .rat 2]), (wi, [.rat 3, .rat 4])]) (fun _ => 0) := by
  decide +kernel

/-- a pool value that mentions a LATER index of the same sum (excluded by `wfSums`): `evaluate`
substitutes sequentially, so `PoolSum(f(i,j),(i,(j,2)),(j,(3,4)))` gives `f(3,3)+…`, which is not
the sum over the product of the pool values in the environment. -/
theorem sibling_index_in_pool_witness :
    eval wI (evaluate Variant.current
        (.psum (.app "f:f" [.sym wi, .sym wj]) [(wi, [.sym wj, .rat 2]), (wj, [.rat 3, .rat 4])])) (fun _ => 0)
      ≠ eval wI (.psum (.app "f:f" [.sym wi, .sym wj]) [(wi, [.sym wj, .rat 2]), (wj, [.rat 3, .rat 4])]) (fun _ => 0) := by
  decide +kernel

/-! ### non-vacuity: the hypotheses hold on nested sums with a shadowed index and symbolic pools -/

/-- `PoolSum(PoolSum(f(i,x), (i,(1,2))) + i*g(j), (i,(3,4,4)), (j,(1/2,)))` -/
def wNested : Expr :=
  .psum (.add [.psum (.app "f:f" [.sym wi, .sym wx]) [(wi, [.rat 1, .rat 2])],
               .mul [.sym wi, .app "f:g" [.sym wj]]])
        [(wi, [.rat 3, .rat 4, .rat 4]), (wj, [.rat ((1 : Q) / 2)])]

example : Variant.current.sound := by decide
example : wfSums wNested = true := by decide +kernel
example : eval wI (doit Variant.current 2 wNested) (fun _ => 7) = eval wI wNested (fun _ => 7) :=
  doit_preserves_value wI _ (by decide) 2 wNested _ (by decide +kernel)
example : noPsum (doit Variant.current 2 wNested) = true := by decide +kernel
example : eval wI wNested (fun _ => 7) = 147 / 2 := by decide +kernel

/-- `PoolSum(f(k)*x, (k, (0, 1, n)))`: the symbol `n` occurs in a pool only. -/
def wPoolOnly : Expr :=
  .psum (.mul [.app "f:f" [.sym wk], .sym wx]) [(wk, [.rat 0, .rat 1, .sym wn])]

example : wfSums wPoolOnly = true := by decide +kernel
/-- `n` is a free symbol, `k` is not. -/
example : free wPoolOnly = [wx, wn] := by decide +kernel
/-- `.subs(n, 5)` rewrites the pool (it is NOT the identity)… -/
example :
    Expr.beq (subst1 Variant.current wn (.rat 5) wPoolOnly)
      (.psum (.mul [.app "f:f" [.sym wk], .sym wx]) [(wk, [.rat 0, .rat 1, .rat 5])]) = true := by
  decide +kernel
/-- …and commutes with evaluation, as terms and as values. -/
example :
    evaluate Variant.current (subst1 Variant.current wn (.rat 5) wPoolOnly)
      = subst1 Variant.current wn (.rat 5) (evaluate Variant.current wPoolOnly) :=
  subs_free_commutes_with_evaluate _ (by decide) wn _ _ _ (by decide +kernel) (by decide +kernel)
    (by decide +kernel)
example : eval wI (subst1 Variant.current wn (.rat 5) wPoolOnly) (fun _ => 2)
    ≠ eval wI wPoolOnly (fun _ => 2) := by decide +kernel

/-- `PoolSum(PoolSum(g(j), (j, (i, i + 10))), (i, (1, 2)))`: the inner pool mentions the outer
index, the inner summand does not. -/
def wDependent : Expr :=
  .psum (.psum (.app "f:g" [.sym wj]) [(wj, [.sym wi, .add [.sym wi, .rat 10]])])
        [(wi, [.rat 1, .rat 2])]

example : wfSums wDependent = true := by decide +kernel
example : free wDependent = [] := by decide +kernel
/-- `doit()` = `g(1) + g(11) + g(2) + g(12)` -/
example :
    eval wI (doit Variant.current 2 wDependent) (fun _ => 0)
      = eval wI (.add [.app "f:g" [.rat 1], .app "f:g" [.rat 11], .app "f:g" [.rat 2], .app "f:g" [.rat 12]])
          (fun _ => 0) := by decide +kernel
example : eval wI (doit Variant.current 2 wDependent) (fun _ => 0) = eval wI wDependent (fun _ => 0) :=
  doit_preserves_value wI _ (by decide) 2 wDependent _ (by decide +kernel)

/-! ### 6. constructor witnesses: each unsound constructor variant breaks the property -/

def wp : Sym := ⟨"p", []⟩
def wq : Sym := ⟨"q", []⟩
def wBody : Expr := .mul [.sym wx, .sym wi]
def vTwoPass : NewVariant := ⟨true, false⟩
def vDedup : NewVariant := ⟨false, true⟩
def valueOf (r : NewResult) (ρ : Env) : Option Q := r.get?.map (fun e => eval wI (doit Variant.current 2 e) ρ)

/-- a constructor that validates in a pass of its own builds an EMPTY sum from a one-shot iterator
(value 0 instead of x·(1+2+3)); from a list it builds the right sum. -/
theorem two_pass_constructor_witness :
    valueOf (psumNew Variant.current vTwoPass wBody [(wi, ⟨[.rat 1, .rat 2, .rat 3], true⟩)] false) (fun _ => 5) = some 0
    ∧ valueOf (psumNew Variant.current NewVariant.current wBody [(wi, ⟨[.rat 1, .rat 2, .rat 3], true⟩)] false) (fun _ => 5) = some 30
    ∧ valueOf (psumNew Variant.current vTwoPass wBody [(wi, ⟨[.rat 1, .rat 2, .rat 3], false⟩)] false) (fun _ => 5) = some 30 := by
  decide +kernel

/-- a constructor that drops repeated pool values breaks `subs/xreplace ∘ doit = doit ∘ subs/xreplace`
when the substitution identifies two pool entries, and sums literal duplicates once. -/
theorem dedup_constructor_witness :
    valueOf (xreplaceViaNew Variant.current vDedup [(wp, .rat 2), (wq, .rat 2)] (.psum wBody [(wi, [.sym wp, .sym wq])])) (fun _ => 5) = some 10
    ∧ valueOf (xreplaceViaNew Variant.current NewVariant.current [(wp, .rat 2), (wq, .rat 2)] (.psum wBody [(wi, [.sym wp, .sym wq])])) (fun _ => 5) = some 20
    ∧ valueOf (psumNew Variant.current vDedup wBody [(wi, ⟨[.rat 1, .rat 1], false⟩)] false) (fun _ => 5) = some 5 := by
  decide +kernel

example : NewVariant.current.sound := by decide
example : poolsNonempty [(wi, [.sym wp, .sym wq])] = true := by decide

end Ampverif.Props.C18
