/-
C18 — PoolSum denotes the finite sum over its index pools.

Theorems about the hand-written executable model `Ampverif.Model` (M1), which follows
`ampform.sympy.PoolSum` line by line and is tied to the working tree by the correspondence run
of `tools/props/C18.py`.  `v.sound` = the source protects bound indices in `subs/xreplace`
(0f745db) and collects field values without recursion (1c47dce); the harness infers `v` from
the real code.  `eval I e ρ` is the value of `e` in ℚ for EVERY environment `ρ` and EVERY
interpretation `I` of uninterpreted function applications.
Only property theorems and non-vacuity examples live here.
-/
import Ampverif.Lemmas.C18Depth

namespace Ampverif.Props.C18
open Ampverif.Model Ampverif.Lemmas.C18

/-! ### 1. evaluation = explicit sum over the cartesian product of the pools -/

/-- `PoolSum.evaluate()` (cartesian product, sequential `subs` of the index values, `Add`) has the
value of the nested finite sum `Σ_{i₁∈pool₁} … Σ_{iₙ∈poolₙ} summand`, for every summand (nested
pool sums included), any number of indices, pools with duplicates and singletons. Hypothesis:
the index symbols are pairwise distinct. -/
theorem evaluate_denotes (I : Interp) (v : Variant) (hv : v.sound) (b : Expr) (ixs : List Binder)
    (hnd : (names ixs).Nodup) (ρ : Env) :
    eval I (evaluate v (.psum b ixs)) ρ = evalSum ixs ρ (fun ρ' => eval I b ρ') := by
  simp only [evaluate, eval]
  rw [dictOf_nodup ixs hnd, evalList_eq_map, List.map_map]
  exact sum_evaluate_terms I v hv ixs b ρ hnd

/-- … which is the flat sum over `itertools.product(*pools)` of the summand evaluated with the
indices bound to the combination. -/
theorem evaluate_is_sum_over_product (I : Interp) (v : Variant) (hv : v.sound) (b : Expr)
    (ixs : List Binder) (hnd : (names ixs).Nodup) (ρ : Env) :
    eval I (evaluate v (.psum b ixs)) ρ
      = ((assignments ixs).map (fun c => eval I b (updAll ρ c))).sum := by
  rw [evaluate_denotes I v hv b ixs hnd ρ, evalSum_flat]

/-- `evaluate` does not change the value of the pool sum. -/
theorem evaluate_preserves_value (I : Interp) (v : Variant) (hv : v.sound) (b : Expr)
    (ixs : List Binder) (hnd : (names ixs).Nodup) (ρ : Env) :
    eval I (evaluate v (.psum b ixs)) ρ = eval I (.psum b ixs) ρ := by
  rw [evaluate_denotes I v hv b ixs hnd ρ]; simp [eval]

/-- `doit()` (deep: pool sums at any nesting depth, inside sums, products, powers and function
arguments) does not change the value, for every amount of recursion fuel. -/
theorem doit_preserves_value (I : Interp) (v : Variant) (hv : v.sound) :
    ∀ (n : Nat) (e : Expr) (ρ : Env), wfSums e = true → eval I (doit v n e) ρ = eval I e ρ := by
  intro n
  induction n with
  | zero => intro e ρ _; rfl
  | succ n ih =>
    intro e ρ h
    simp only [doit]
    apply eval_doitPass I v hv (doit v n) ih _ e ρ h
    intro b ixs ρ' hw
    have hnd : (names ixs).Nodup := by
      simp only [wfSums, Bool.and_eq_true, decide_eq_true_eq] at hw; exact hw.1.1
    exact evaluate_preserves_value I v hv b ixs hnd ρ'

/-- …and with fuel ≥ nesting depth the result is explicit: no pool sum is left anywhere. -/
theorem doit_leaves_no_pool_sum (v : Variant) (hv : v.sound) :
    ∀ (n : Nat) (e : Expr), psumDepth e ≤ n → psumDepth (doit v n e) = 0 := by
  intro n
  induction n with
  | zero => intro e h; simpa [doit] using h
  | succ n ih =>
    intro e h
    simp only [doit]
    exact psumDepth_doitPass v hv (doit v n) n ih e h

/-! ### 2. free symbols -/

/-- `free_symbols` of a pool sum = free symbols of the summand minus the indices. -/
theorem free_symbols (b : Expr) (ixs : List Binder) (s : Sym) :
    s ∈ free (.psum b ixs) ↔ s ∈ free b ∧ s ∉ names ixs := by
  simp [free, List.mem_filter]

/-- …and that is semantically right: the value of any term depends on its free symbols only
(in particular never on the value an environment gives to a summation index). -/
theorem value_depends_on_free_symbols_only (I : Interp) (e : Expr) (ρ ρ' : Env)
    (h : ∀ s ∈ free e, ρ s = ρ' s) : eval I e ρ = eval I e ρ' :=
  eval_agree I e ρ ρ' h

/-! ### 3. cleanup -/

/-- What `cleanup()` really does to the value: it divides by the product of the pool sizes of the
indices that do not occur in the summand (those are dropped without compensation). -/
theorem cleanup_value (I : Interp) (v : Variant) (hv : v.sound) (b : Expr) (ixs : List Binder)
    (hw : wfSums (.psum b ixs) = true) (ρ : Env) :
    eval I (.psum b ixs) ρ
      = (cleanupMultiplicity (.psum b ixs) : Q) * eval I (cleanup v (.psum b ixs)) ρ := by
  have hnd : (names ixs).Nodup := by
    simp only [wfSums, Bool.and_eq_true, decide_eq_true_eq] at hw; exact hw.1.1
  have hne : ∀ p ∈ ixs, p.2 ≠ [] := by
    simp only [wfSums, Bool.and_eq_true, List.all_eq_true] at hw
    intro p hp h
    have := hw.1.2 p hp
    simp [h] at this
  have key := evalSum_cleanup (free b) (fun ρ' => eval I b ρ')
    (fun ρ1 ρ2 h => eval_agree I b ρ1 ρ2 h) ixs ρ hnd hne
  simp only [eval, cleanupMultiplicity, cleanup]
  rw [key]
  congr 1
  by_cases hk : (cleanupKept (free b) ixs).isEmpty = true
  · have : cleanupKept (free b) ixs = [] := by simpa using hk
    simp only [this, List.isEmpty_nil, if_true, evalSum]
    rw [eval_xreplace_lit I v hv]
  · simp only [hk, eval]
    apply evalSum_congr
    intro ρ'
    rw [eval_xreplace_lit I v hv]

/-- `cleanup()` never changes the value PROVIDED every index that does not occur in the summand
has exactly one value. (Without the proviso the clause fails on the real code:
`cleanup_changes_value_witness`, known finding.) -/
theorem cleanup_preserves_value (I : Interp) (v : Variant) (hv : v.sound) (b : Expr)
    (ixs : List Binder) (hw : wfSums (.psum b ixs) = true)
    (hunused : ∀ p ∈ ixs, p.1 ∉ free b → p.2.length = 1) (ρ : Env) :
    eval I (cleanup v (.psum b ixs)) ρ = eval I (.psum b ixs) ρ := by
  rw [cleanup_value I v hv b ixs hw ρ]
  simp [cleanupMultiplicity, cleanupMult_eq_one (free b) ixs hunused]

/-! ### 4. substitution laws -/

/-- Substituting a symbol that is not an index by a term that mentions no index commutes with
evaluation — as an equality of terms, hence of values. -/
theorem subs_free_commutes_with_evaluate (v : Variant) (hv : v.sound) (x : Sym) (a b : Expr)
    (ixs : List Binder) (hnd : (names ixs).Nodup) (hx : x ∉ names ixs)
    (ha : ∀ i ∈ names ixs, i ∉ syms a) :
    evaluate v (subst1 v x a (.psum b ixs)) = subst1 v x a (evaluate v (.psum b ixs)) := by
  rw [subst1_psum_not_mem v hv x a b ixs hx]
  simp only [evaluate, subst1, dictOf_nodup ixs hnd]
  rw [subst1List_map]
  congr 1
  apply List.map_congr_left
  intro c hc
  apply substSeq_comm v hv x a c b
  intro p hp
  have hm := assignments_keys ixs c hc p hp
  exact ⟨fun h => hx (h ▸ hm), ha _ hm⟩

/-- A substitution for a summation index leaves the sum unchanged (`subs`). -/
theorem subs_index_is_identity (v : Variant) (hv : v.sound) (x : Sym) (a b : Expr)
    (ixs : List Binder) (hx : x ∈ names ixs) : subst1 v x a (.psum b ixs) = .psum b ixs :=
  subst1_psum_mem v hv x a b ixs hx

/-- A replacement map whose keys are all summation indices leaves the sum unchanged (`xreplace`). -/
theorem xreplace_index_is_identity (v : Variant) (hv : v.sound) (σ : List (Sym × Expr)) (b : Expr)
    (ixs : List Binder) (hσ : ∀ p ∈ σ, p.1 ∈ names ixs) : xreplace v (.psum b ixs) σ = .psum b ixs := by
  have hp : v.poolSumProtectsBound = true := hv.2
  have : σ.filter (fun p => !(names ixs).contains p.1) = [] := by
    apply List.filter_eq_nil_iff.mpr
    intro p hp'
    simpa using hσ p hp'
  simp only [xreplace, hp, if_true, this]
  rw [xreplace_nil v hv]

/-! ### 5. witnesses: what the hypotheses exclude really fails -/

def wi : Sym := ⟨"i", []⟩
def wj : Sym := ⟨"j", []⟩
def wx : Sym := ⟨"x", []⟩
/-- `PoolSum(f(i, j), (i, (1, 2)))` -/
def wBound : Expr := .psum (.app "f:f" [.sym wi, .sym wj]) [(wi, [1, 2])]
/-- the pinned tree before 0f745db: bound indices are rewritten -/
def vUnprotected : Variant := ⟨false, false⟩
def wI : Interp := fun _ args => args.sum + 1

/-- unsound variant `poolSumProtectsBound = false`: `PoolSum(f(i,j),(i,(1,2))).subs(i,5)` is not
the original sum, and its value differs. -/
theorem witness_bound :
    Expr.beq (subst1 vUnprotected wi (.rat 5) wBound) wBound = false ∧
    eval wI (subst1 vUnprotected wi (.rat 5) wBound) (fun _ => 0) ≠ eval wI wBound (fun _ => 0) := by
  decide +kernel

/-- the sound variant on the same input: identity. -/
example : Expr.beq (subst1 Variant.current wi (.rat 5) wBound) wBound = true := by decide +kernel

/-- `PoolSum(x, (i, (0, 1, 2)))`: `doit` gives `3x`, `cleanup` gives `x` (known finding). -/
theorem cleanup_changes_value_witness :
    eval wI (cleanup Variant.current (.psum (.sym wx) [(wi, [0, 1, 2])])) (fun _ => 1)
      ≠ eval wI (.psum (.sym wx) [(wi, [0, 1, 2])]) (fun _ => 1) := by
  decide +kernel

/-- a repeated index symbol (excluded by `Nodup`): `dict(self.indices)` keeps the last pool, so
`PoolSum(f(i),(i,(1,2)),(i,(3,4)))` evaluates to `f(3)+f(4)`, not to the nested sum. -/
theorem repeated_index_witness :
    eval wI (evaluate Variant.current (.psum (.app "f:f" [.sym wi]) [(wi, [1, 2]), (wi, [3, 4])])) (fun _ => 0)
      ≠ eval wI (.psum (.app "f:f" [.sym wi]) [(wi, [1, 2]), (wi, [3, 4])]) (fun _ => 0) := by
  decide +kernel

/-! ### non-vacuity: the hypotheses hold on a nested sum with a shadowed index -/

/-- `PoolSum(PoolSum(f(i,x), (i,(1,2))) + i*g(j), (i,(3,4,4)), (j,(1/2,)))` -/
def wNested : Expr :=
  .psum (.add [.psum (.app "f:f" [.sym wi, .sym wx]) [(wi, [1, 2])],
               .mul [.sym wi, .app "f:g" [.sym wj]]])
        [(wi, [3, 4, 4]), (wj, [(1 : Q) / 2])]

example : Variant.current.sound := by decide
example : wfSums wNested = true := by decide +kernel
example : eval wI (doit Variant.current 2 wNested) (fun _ => 7) = eval wI wNested (fun _ => 7) :=
  doit_preserves_value wI _ (by decide) 2 wNested _ (by decide +kernel)
example : psumDepth (doit Variant.current 2 wNested) = 0 := by decide +kernel
example : eval wI wNested (fun _ => 7) = 147 / 2 := by decide +kernel

end Ampverif.Props.C18
