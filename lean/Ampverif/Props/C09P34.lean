/-
C09, three and four poles (thorough tier) — the full `formulate(n, n_R)` of both K-matrix classes for
n ∈ {1,2}, n_R ∈ {3,4} (`Ampverif.Gen.C09P34.*`, regenerated from the working tree) is the symbolic
matrix expression of `Ampverif.Gen.C09` composed with the regenerated parametrisation, hence unitary
and symmetric for real parameters (relativistic: under the guard that the phase-space factors at
`s` and at every pole mass are positive).
-/
import Ampverif.Gen.C09P34
import Ampverif.Props.C09

set_option linter.unusedVariables false
set_option linter.unusedSectionVars false
set_option linter.unusedTactic false
set_option linter.unreachableTactic false
set_option linter.unusedSimpArgs false

namespace Ampverif.Props.C09P34
open Ampverif.Gen.C09P34 Ampverif.Lemmas.C09 Matrix
open Ampverif.Gen.C09 (nrT1_00 nrT1_den1 nrT2_00 nrT2_01 nrT2_10 nrT2_11 nrT2_den1 nrT2_den2
  relT1_00 relTh1_00 relT1_den1 relT2_00 relT2_01 relT2_10 relT2_11 relTh2_00 relTh2_01 relTh2_10
  relTh2_11 relT2_den1)
open Ampverif.Props.C09 (nrT1M nrT2M relT1M relT2M nrT1M_unitary_symmetric nrT2M_unitary_symmetric
  relT1M_unitary_symmetric relT2M_unitary_symmetric)

section NR13
variable (s m_1 m_2 m_3 Gamma_1_0 Gamma_2_0 Gamma_3_0 gamma_1_0 gamma_2_0 gamma_3_0 : ℝ)

local notation "K00" => nrK13_00 s m_1 m_2 m_3 Gamma_1_0 Gamma_2_0 Gamma_3_0 gamma_1_0 gamma_2_0 gamma_3_0
local notation "F00" => nrForm13_00 s m_1 m_2 m_3 Gamma_1_0 Gamma_2_0 Gamma_3_0 gamma_1_0 gamma_2_0 gamma_3_0

/-- `nrK13`: every entry is real for non-negative widths. -/
theorem nrK13_real (hGamma_1_0 : 0 ≤ Gamma_1_0) (hGamma_2_0 : 0 ≤ Gamma_2_0) (hGamma_3_0 : 0 ≤ Gamma_3_0) :
    IsRe K00 := by
  simp only [nrK13_00]; real_closure

/-- `formulate(1, 3)` is the symbolic matrix expression with the parametrisation substituted. -/
theorem nrForm13_eq :
    F00 = nrT1_00 K00 := by
  simp only [nrForm13_00, nrT1_00, nrT1_den1]; try ring

/-- **`formulate(1, 3)`, non-relativistic: unitary and symmetric** for real parameters. -/
theorem nrForm13_unitary_symmetric (hGamma_1_0 : 0 ≤ Gamma_1_0) (hGamma_2_0 : 0 ≤ Gamma_2_0) (hGamma_3_0 : 0 ≤ Gamma_3_0) :
    (1 + (2 * Complex.I) • (!![F00] : Matrix (Fin 1) (Fin 1) ℂ))ᴴ * (1 + (2 * Complex.I) • (!![F00] : Matrix (Fin 1) (Fin 1) ℂ)) = 1
      ∧ (!![F00] : Matrix (Fin 1) (Fin 1) ℂ)ᵀ = (!![F00] : Matrix (Fin 1) (Fin 1) ℂ) := by
  have r00 := nrK13_real s m_1 m_2 m_3 Gamma_1_0 Gamma_2_0 Gamma_3_0 gamma_1_0 gamma_2_0 gamma_3_0 hGamma_1_0 hGamma_2_0 hGamma_3_0
  obtain ⟨hH, hT⟩ := herm1 r00
  have e00 := nrForm13_eq s m_1 m_2 m_3 Gamma_1_0 Gamma_2_0 Gamma_3_0 gamma_1_0 gamma_2_0 gamma_3_0
  have hM : (!![F00] : Matrix (Fin 1) (Fin 1) ℂ) = nrT1M !![K00] := by
    rw [e00]; ext i j; fin_cases i; fin_cases j; simp [nrT1M]
  rw [hM]
  exact nrT1M_unitary_symmetric _ hH

end NR13

section NR14
variable (s m_1 m_2 m_3 m_4 Gamma_1_0 Gamma_2_0 Gamma_3_0 Gamma_4_0 gamma_1_0 gamma_2_0 gamma_3_0 gamma_4_0 : ℝ)

local notation "K00" => nrK14_00 s m_1 m_2 m_3 m_4 Gamma_1_0 Gamma_2_0 Gamma_3_0 Gamma_4_0 gamma_1_0 gamma_2_0 gamma_3_0 gamma_4_0
local notation "F00" => nrForm14_00 s m_1 m_2 m_3 m_4 Gamma_1_0 Gamma_2_0 Gamma_3_0 Gamma_4_0 gamma_1_0 gamma_2_0 gamma_3_0 gamma_4_0

/-- `nrK14`: every entry is real for non-negative widths. -/
theorem nrK14_real (hGamma_1_0 : 0 ≤ Gamma_1_0) (hGamma_2_0 : 0 ≤ Gamma_2_0) (hGamma_3_0 : 0 ≤ Gamma_3_0) (hGamma_4_0 : 0 ≤ Gamma_4_0) :
    IsRe K00 := by
  simp only [nrK14_00]; real_closure

/-- `formulate(1, 4)` is the symbolic matrix expression with the parametrisation substituted. -/
theorem nrForm14_eq :
    F00 = nrT1_00 K00 := by
  simp only [nrForm14_00, nrT1_00, nrT1_den1]; try ring

/-- **`formulate(1, 4)`, non-relativistic: unitary and symmetric** for real parameters. -/
theorem nrForm14_unitary_symmetric (hGamma_1_0 : 0 ≤ Gamma_1_0) (hGamma_2_0 : 0 ≤ Gamma_2_0) (hGamma_3_0 : 0 ≤ Gamma_3_0) (hGamma_4_0 : 0 ≤ Gamma_4_0) :
    (1 + (2 * Complex.I) • (!![F00] : Matrix (Fin 1) (Fin 1) ℂ))ᴴ * (1 + (2 * Complex.I) • (!![F00] : Matrix (Fin 1) (Fin 1) ℂ)) = 1
      ∧ (!![F00] : Matrix (Fin 1) (Fin 1) ℂ)ᵀ = (!![F00] : Matrix (Fin 1) (Fin 1) ℂ) := by
  have r00 := nrK14_real s m_1 m_2 m_3 m_4 Gamma_1_0 Gamma_2_0 Gamma_3_0 Gamma_4_0 gamma_1_0 gamma_2_0 gamma_3_0 gamma_4_0 hGamma_1_0 hGamma_2_0 hGamma_3_0 hGamma_4_0
  obtain ⟨hH, hT⟩ := herm1 r00
  have e00 := nrForm14_eq s m_1 m_2 m_3 m_4 Gamma_1_0 Gamma_2_0 Gamma_3_0 Gamma_4_0 gamma_1_0 gamma_2_0 gamma_3_0 gamma_4_0
  have hM : (!![F00] : Matrix (Fin 1) (Fin 1) ℂ) = nrT1M !![K00] := by
    rw [e00]; ext i j; fin_cases i; fin_cases j; simp [nrT1M]
  rw [hM]
  exact nrT1M_unitary_symmetric _ hH

end NR14

section NR23
variable (s m_1 m_2 m_3 Gamma_1_0 Gamma_1_1 Gamma_2_0 Gamma_2_1 Gamma_3_0 Gamma_3_1 gamma_1_0 gamma_1_1 gamma_2_0 gamma_2_1 gamma_3_0 gamma_3_1 : ℝ)

local notation "K00" => nrK23_00 s m_1 m_2 m_3 Gamma_1_0 Gamma_1_1 Gamma_2_0 Gamma_2_1 Gamma_3_0 Gamma_3_1 gamma_1_0 gamma_1_1 gamma_2_0 gamma_2_1 gamma_3_0 gamma_3_1
local notation "K01" => nrK23_01 s m_1 m_2 m_3 Gamma_1_0 Gamma_1_1 Gamma_2_0 Gamma_2_1 Gamma_3_0 Gamma_3_1 gamma_1_0 gamma_1_1 gamma_2_0 gamma_2_1 gamma_3_0 gamma_3_1
local notation "K10" => nrK23_10 s m_1 m_2 m_3 Gamma_1_0 Gamma_1_1 Gamma_2_0 Gamma_2_1 Gamma_3_0 Gamma_3_1 gamma_1_0 gamma_1_1 gamma_2_0 gamma_2_1 gamma_3_0 gamma_3_1
local notation "K11" => nrK23_11 s m_1 m_2 m_3 Gamma_1_0 Gamma_1_1 Gamma_2_0 Gamma_2_1 Gamma_3_0 Gamma_3_1 gamma_1_0 gamma_1_1 gamma_2_0 gamma_2_1 gamma_3_0 gamma_3_1
local notation "F00" => nrForm23_00 s m_1 m_2 m_3 Gamma_1_0 Gamma_1_1 Gamma_2_0 Gamma_2_1 Gamma_3_0 Gamma_3_1 gamma_1_0 gamma_1_1 gamma_2_0 gamma_2_1 gamma_3_0 gamma_3_1
local notation "F01" => nrForm23_01 s m_1 m_2 m_3 Gamma_1_0 Gamma_1_1 Gamma_2_0 Gamma_2_1 Gamma_3_0 Gamma_3_1 gamma_1_0 gamma_1_1 gamma_2_0 gamma_2_1 gamma_3_0 gamma_3_1
local notation "F10" => nrForm23_10 s m_1 m_2 m_3 Gamma_1_0 Gamma_1_1 Gamma_2_0 Gamma_2_1 Gamma_3_0 Gamma_3_1 gamma_1_0 gamma_1_1 gamma_2_0 gamma_2_1 gamma_3_0 gamma_3_1
local notation "F11" => nrForm23_11 s m_1 m_2 m_3 Gamma_1_0 Gamma_1_1 Gamma_2_0 Gamma_2_1 Gamma_3_0 Gamma_3_1 gamma_1_0 gamma_1_1 gamma_2_0 gamma_2_1 gamma_3_0 gamma_3_1

/-- `nrK23`: the regenerated parametrisation is symmetric in the channel indices. -/
theorem nrK23_symm : K01 = K10 := by
  simp only [nrK23_01, nrK23_10]; try ring

/-- `nrK23`: every entry is real for non-negative widths. -/
theorem nrK23_real (hGamma_1_0 : 0 ≤ Gamma_1_0) (hGamma_1_1 : 0 ≤ Gamma_1_1) (hGamma_2_0 : 0 ≤ Gamma_2_0) (hGamma_2_1 : 0 ≤ Gamma_2_1) (hGamma_3_0 : 0 ≤ Gamma_3_0) (hGamma_3_1 : 0 ≤ Gamma_3_1) :
    IsRe K00 ∧ IsRe K01 ∧ IsRe K10 ∧ IsRe K11 := by
  refine ⟨?_, ?_, ?_, ?_⟩ <;> simp only [nrK23_00, nrK23_01, nrK23_10, nrK23_11] <;> real_closure

/-- `formulate(2, 3)` is the symbolic matrix expression with the parametrisation substituted. -/
theorem nrForm23_eq :
    F00 = nrT2_00 K00 K01 K10 K11 ∧ F01 = nrT2_01 K00 K01 K10 K11 ∧ F10 = nrT2_10 K00 K01 K10 K11 ∧ F11 = nrT2_11 K00 K01 K10 K11 := by
  have hs := nrK23_symm s m_1 m_2 m_3 Gamma_1_0 Gamma_1_1 Gamma_2_0 Gamma_2_1 Gamma_3_0 Gamma_3_1 gamma_1_0 gamma_1_1 gamma_2_0 gamma_2_1 gamma_3_0 gamma_3_1
  refine ⟨?_, ?_, ?_, ?_⟩ <;>
  · simp only [nrForm23_00, nrForm23_01, nrForm23_10, nrForm23_11, nrT2_00, nrT2_01, nrT2_10, nrT2_11, nrT2_den1, nrT2_den2]
    rw [hs]
    try ring

/-- **`formulate(2, 3)`, non-relativistic: unitary and symmetric** for real parameters. -/
theorem nrForm23_unitary_symmetric (hGamma_1_0 : 0 ≤ Gamma_1_0) (hGamma_1_1 : 0 ≤ Gamma_1_1) (hGamma_2_0 : 0 ≤ Gamma_2_0) (hGamma_2_1 : 0 ≤ Gamma_2_1) (hGamma_3_0 : 0 ≤ Gamma_3_0) (hGamma_3_1 : 0 ≤ Gamma_3_1) :
    (1 + (2 * Complex.I) • (!![F00, F01; F10, F11] : Matrix (Fin 2) (Fin 2) ℂ))ᴴ * (1 + (2 * Complex.I) • (!![F00, F01; F10, F11] : Matrix (Fin 2) (Fin 2) ℂ)) = 1
      ∧ (!![F00, F01; F10, F11] : Matrix (Fin 2) (Fin 2) ℂ)ᵀ = (!![F00, F01; F10, F11] : Matrix (Fin 2) (Fin 2) ℂ) := by
  obtain ⟨r00, r01, r10, r11⟩ := nrK23_real s m_1 m_2 m_3 Gamma_1_0 Gamma_1_1 Gamma_2_0 Gamma_2_1 Gamma_3_0 Gamma_3_1 gamma_1_0 gamma_1_1 gamma_2_0 gamma_2_1 gamma_3_0 gamma_3_1 hGamma_1_0 hGamma_1_1 hGamma_2_0 hGamma_2_1 hGamma_3_0 hGamma_3_1
  have hs := nrK23_symm s m_1 m_2 m_3 Gamma_1_0 Gamma_1_1 Gamma_2_0 Gamma_2_1 Gamma_3_0 Gamma_3_1 gamma_1_0 gamma_1_1 gamma_2_0 gamma_2_1 gamma_3_0 gamma_3_1
  obtain ⟨hH, hT⟩ := herm2 r00 r01 r11 hs
  obtain ⟨e00, e01, e10, e11⟩ := nrForm23_eq s m_1 m_2 m_3 Gamma_1_0 Gamma_1_1 Gamma_2_0 Gamma_2_1 Gamma_3_0 Gamma_3_1 gamma_1_0 gamma_1_1 gamma_2_0 gamma_2_1 gamma_3_0 gamma_3_1
  have hM : (!![F00, F01; F10, F11] : Matrix (Fin 2) (Fin 2) ℂ) = nrT2M !![K00, K01; K10, K11] := by
    rw [e00, e01, e10, e11]
    ext i j; fin_cases i <;> fin_cases j <;> simp [nrT2M]
  rw [hM]
  exact nrT2M_unitary_symmetric _ hH hT

end NR23

section NR24
variable (s m_1 m_2 m_3 m_4 Gamma_1_0 Gamma_1_1 Gamma_2_0 Gamma_2_1 Gamma_3_0 Gamma_3_1 Gamma_4_0 Gamma_4_1 gamma_1_0 gamma_1_1 gamma_2_0 gamma_2_1 gamma_3_0 gamma_3_1 gamma_4_0 gamma_4_1 : ℝ)

local notation "K00" => nrK24_00 s m_1 m_2 m_3 m_4 Gamma_1_0 Gamma_1_1 Gamma_2_0 Gamma_2_1 Gamma_3_0 Gamma_3_1 Gamma_4_0 Gamma_4_1 gamma_1_0 gamma_1_1 gamma_2_0 gamma_2_1 gamma_3_0 gamma_3_1 gamma_4_0 gamma_4_1
local notation "K01" => nrK24_01 s m_1 m_2 m_3 m_4 Gamma_1_0 Gamma_1_1 Gamma_2_0 Gamma_2_1 Gamma_3_0 Gamma_3_1 Gamma_4_0 Gamma_4_1 gamma_1_0 gamma_1_1 gamma_2_0 gamma_2_1 gamma_3_0 gamma_3_1 gamma_4_0 gamma_4_1
local notation "K10" => nrK24_10 s m_1 m_2 m_3 m_4 Gamma_1_0 Gamma_1_1 Gamma_2_0 Gamma_2_1 Gamma_3_0 Gamma_3_1 Gamma_4_0 Gamma_4_1 gamma_1_0 gamma_1_1 gamma_2_0 gamma_2_1 gamma_3_0 gamma_3_1 gamma_4_0 gamma_4_1
local notation "K11" => nrK24_11 s m_1 m_2 m_3 m_4 Gamma_1_0 Gamma_1_1 Gamma_2_0 Gamma_2_1 Gamma_3_0 Gamma_3_1 Gamma_4_0 Gamma_4_1 gamma_1_0 gamma_1_1 gamma_2_0 gamma_2_1 gamma_3_0 gamma_3_1 gamma_4_0 gamma_4_1
local notation "F00" => nrForm24_00 s m_1 m_2 m_3 m_4 Gamma_1_0 Gamma_1_1 Gamma_2_0 Gamma_2_1 Gamma_3_0 Gamma_3_1 Gamma_4_0 Gamma_4_1 gamma_1_0 gamma_1_1 gamma_2_0 gamma_2_1 gamma_3_0 gamma_3_1 gamma_4_0 gamma_4_1
local notation "F01" => nrForm24_01 s m_1 m_2 m_3 m_4 Gamma_1_0 Gamma_1_1 Gamma_2_0 Gamma_2_1 Gamma_3_0 Gamma_3_1 Gamma_4_0 Gamma_4_1 gamma_1_0 gamma_1_1 gamma_2_0 gamma_2_1 gamma_3_0 gamma_3_1 gamma_4_0 gamma_4_1
local notation "F10" => nrForm24_10 s m_1 m_2 m_3 m_4 Gamma_1_0 Gamma_1_1 Gamma_2_0 Gamma_2_1 Gamma_3_0 Gamma_3_1 Gamma_4_0 Gamma_4_1 gamma_1_0 gamma_1_1 gamma_2_0 gamma_2_1 gamma_3_0 gamma_3_1 gamma_4_0 gamma_4_1
local notation "F11" => nrForm24_11 s m_1 m_2 m_3 m_4 Gamma_1_0 Gamma_1_1 Gamma_2_0 Gamma_2_1 Gamma_3_0 Gamma_3_1 Gamma_4_0 Gamma_4_1 gamma_1_0 gamma_1_1 gamma_2_0 gamma_2_1 gamma_3_0 gamma_3_1 gamma_4_0 gamma_4_1

/-- `nrK24`: the regenerated parametrisation is symmetric in the channel indices. -/
theorem nrK24_symm : K01 = K10 := by
  simp only [nrK24_01, nrK24_10]; try ring

/-- `nrK24`: every entry is real for non-negative widths. -/
theorem nrK24_real (hGamma_1_0 : 0 ≤ Gamma_1_0) (hGamma_1_1 : 0 ≤ Gamma_1_1) (hGamma_2_0 : 0 ≤ Gamma_2_0) (hGamma_2_1 : 0 ≤ Gamma_2_1) (hGamma_3_0 : 0 ≤ Gamma_3_0) (hGamma_3_1 : 0 ≤ Gamma_3_1) (hGamma_4_0 : 0 ≤ Gamma_4_0) (hGamma_4_1 : 0 ≤ Gamma_4_1) :
    IsRe K00 ∧ IsRe K01 ∧ IsRe K10 ∧ IsRe K11 := by
  refine ⟨?_, ?_, ?_, ?_⟩ <;> simp only [nrK24_00, nrK24_01, nrK24_10, nrK24_11] <;> real_closure

/-- `formulate(2, 4)` is the symbolic matrix expression with the parametrisation substituted. -/
theorem nrForm24_eq :
    F00 = nrT2_00 K00 K01 K10 K11 ∧ F01 = nrT2_01 K00 K01 K10 K11 ∧ F10 = nrT2_10 K00 K01 K10 K11 ∧ F11 = nrT2_11 K00 K01 K10 K11 := by
  have hs := nrK24_symm s m_1 m_2 m_3 m_4 Gamma_1_0 Gamma_1_1 Gamma_2_0 Gamma_2_1 Gamma_3_0 Gamma_3_1 Gamma_4_0 Gamma_4_1 gamma_1_0 gamma_1_1 gamma_2_0 gamma_2_1 gamma_3_0 gamma_3_1 gamma_4_0 gamma_4_1
  refine ⟨?_, ?_, ?_, ?_⟩ <;>
  · simp only [nrForm24_00, nrForm24_01, nrForm24_10, nrForm24_11, nrT2_00, nrT2_01, nrT2_10, nrT2_11, nrT2_den1, nrT2_den2]
    rw [hs]
    try ring

/-- **`formulate(2, 4)`, non-relativistic: unitary and symmetric** for real parameters. -/
theorem nrForm24_unitary_symmetric (hGamma_1_0 : 0 ≤ Gamma_1_0) (hGamma_1_1 : 0 ≤ Gamma_1_1) (hGamma_2_0 : 0 ≤ Gamma_2_0) (hGamma_2_1 : 0 ≤ Gamma_2_1) (hGamma_3_0 : 0 ≤ Gamma_3_0) (hGamma_3_1 : 0 ≤ Gamma_3_1) (hGamma_4_0 : 0 ≤ Gamma_4_0) (hGamma_4_1 : 0 ≤ Gamma_4_1) :
    (1 + (2 * Complex.I) • (!![F00, F01; F10, F11] : Matrix (Fin 2) (Fin 2) ℂ))ᴴ * (1 + (2 * Complex.I) • (!![F00, F01; F10, F11] : Matrix (Fin 2) (Fin 2) ℂ)) = 1
      ∧ (!![F00, F01; F10, F11] : Matrix (Fin 2) (Fin 2) ℂ)ᵀ = (!![F00, F01; F10, F11] : Matrix (Fin 2) (Fin 2) ℂ) := by
  obtain ⟨r00, r01, r10, r11⟩ := nrK24_real s m_1 m_2 m_3 m_4 Gamma_1_0 Gamma_1_1 Gamma_2_0 Gamma_2_1 Gamma_3_0 Gamma_3_1 Gamma_4_0 Gamma_4_1 gamma_1_0 gamma_1_1 gamma_2_0 gamma_2_1 gamma_3_0 gamma_3_1 gamma_4_0 gamma_4_1 hGamma_1_0 hGamma_1_1 hGamma_2_0 hGamma_2_1 hGamma_3_0 hGamma_3_1 hGamma_4_0 hGamma_4_1
  have hs := nrK24_symm s m_1 m_2 m_3 m_4 Gamma_1_0 Gamma_1_1 Gamma_2_0 Gamma_2_1 Gamma_3_0 Gamma_3_1 Gamma_4_0 Gamma_4_1 gamma_1_0 gamma_1_1 gamma_2_0 gamma_2_1 gamma_3_0 gamma_3_1 gamma_4_0 gamma_4_1
  obtain ⟨hH, hT⟩ := herm2 r00 r01 r11 hs
  obtain ⟨e00, e01, e10, e11⟩ := nrForm24_eq s m_1 m_2 m_3 m_4 Gamma_1_0 Gamma_1_1 Gamma_2_0 Gamma_2_1 Gamma_3_0 Gamma_3_1 Gamma_4_0 Gamma_4_1 gamma_1_0 gamma_1_1 gamma_2_0 gamma_2_1 gamma_3_0 gamma_3_1 gamma_4_0 gamma_4_1
  have hM : (!![F00, F01; F10, F11] : Matrix (Fin 2) (Fin 2) ℂ) = nrT2M !![K00, K01; K10, K11] := by
    rw [e00, e01, e10, e11]
    ext i j; fin_cases i <;> fin_cases j <;> simp [nrT2M]
  rw [hM]
  exact nrT2M_unitary_symmetric _ hH hT

end NR24

section REL13
variable (s m_1 m_2 m_3 Gamma_1_0 Gamma_2_0 Gamma_3_0 gamma_1_0 gamma_2_0 gamma_3_0 rho0 rhoR_1_0 rhoR_2_0 rhoR_3_0 ff_0 ff0_1_0 ff0_2_0 ff0_3_0 : ℝ)

local notation "K00" => relK13_00 s m_1 m_2 m_3 Gamma_1_0 Gamma_2_0 Gamma_3_0 gamma_1_0 gamma_2_0 gamma_3_0 (rho0 : ℂ) (rhoR_1_0 : ℂ) (rhoR_2_0 : ℂ) (rhoR_3_0 : ℂ) (ff_0 : ℂ) (ff0_1_0 : ℂ) (ff0_2_0 : ℂ) (ff0_3_0 : ℂ)
local notation "F00" => relForm13_00 s m_1 m_2 m_3 Gamma_1_0 Gamma_2_0 Gamma_3_0 gamma_1_0 gamma_2_0 gamma_3_0 (rho0 : ℂ) (rhoR_1_0 : ℂ) (rhoR_2_0 : ℂ) (rhoR_3_0 : ℂ) (ff_0 : ℂ) (ff0_1_0 : ℂ) (ff0_2_0 : ℂ) (ff0_3_0 : ℂ)
local notation "H00" => relFormHat13_00 s m_1 m_2 m_3 Gamma_1_0 Gamma_2_0 Gamma_3_0 gamma_1_0 gamma_2_0 gamma_3_0 (rho0 : ℂ) (rhoR_1_0 : ℂ) (rhoR_2_0 : ℂ) (rhoR_3_0 : ℂ) (ff_0 : ℂ) (ff0_1_0 : ℂ) (ff0_2_0 : ℂ) (ff0_3_0 : ℂ)

/-- `relK13`: every entry is real for non-negative widths and (the guard) positive phase-space factors at `s` and at the pole masses. -/
theorem relK13_real (hGamma_1_0 : 0 ≤ Gamma_1_0) (hGamma_2_0 : 0 ≤ Gamma_2_0) (hGamma_3_0 : 0 ≤ Gamma_3_0) (hrho0 : 0 < rho0) (hrhoR_1_0 : 0 < rhoR_1_0) (hrhoR_2_0 : 0 < rhoR_2_0) (hrhoR_3_0 : 0 < rhoR_3_0) :
    IsRe K00 := by
  simp only [relK13_00]; real_closure

/-- `formulate(1, 3)` is the symbolic matrix expression with the parametrisation substituted. -/
theorem relForm13_eq :
    F00 = relT1_00 (rho0 : ℂ) K00 := by
  simp only [relForm13_00, relT1_00, relT1_den1]; try ring

/-- `formulate(1, 3, return_t_hat=True)` is the symbolic matrix expression with the parametrisation substituted. -/
theorem relFormHat13_eq :
    H00 = relTh1_00 (rho0 : ℂ) K00 := by
  simp only [relFormHat13_00, relTh1_00, relT1_den1]; try ring

/-- **`formulate(1, 3)`, relativistic: unitary and symmetric** for real parameters, under the guard that all phase-space factors (at `s` and at every pole mass) are real and positive. -/
theorem relForm13_unitary_symmetric (hGamma_1_0 : 0 ≤ Gamma_1_0) (hGamma_2_0 : 0 ≤ Gamma_2_0) (hGamma_3_0 : 0 ≤ Gamma_3_0) (hrho0 : 0 < rho0) (hrhoR_1_0 : 0 < rhoR_1_0) (hrhoR_2_0 : 0 < rhoR_2_0) (hrhoR_3_0 : 0 < rhoR_3_0) :
    (1 + (2 * Complex.I) • (!![F00] : Matrix (Fin 1) (Fin 1) ℂ))ᴴ * (1 + (2 * Complex.I) • (!![F00] : Matrix (Fin 1) (Fin 1) ℂ)) = 1
      ∧ (!![F00] : Matrix (Fin 1) (Fin 1) ℂ)ᵀ = (!![F00] : Matrix (Fin 1) (Fin 1) ℂ) := by
  have r00 := relK13_real s m_1 m_2 m_3 Gamma_1_0 Gamma_2_0 Gamma_3_0 gamma_1_0 gamma_2_0 gamma_3_0 rho0 rhoR_1_0 rhoR_2_0 rhoR_3_0 ff_0 ff0_1_0 ff0_2_0 ff0_3_0 hGamma_1_0 hGamma_2_0 hGamma_3_0 hrho0 hrhoR_1_0 hrhoR_2_0 hrhoR_3_0
  obtain ⟨hH, hT⟩ := herm1 r00
  have e00 := relForm13_eq s m_1 m_2 m_3 Gamma_1_0 Gamma_2_0 Gamma_3_0 gamma_1_0 gamma_2_0 gamma_3_0 rho0 rhoR_1_0 rhoR_2_0 rhoR_3_0 ff_0 ff0_1_0 ff0_2_0 ff0_3_0
  have hM : (!![F00] : Matrix (Fin 1) (Fin 1) ℂ) = relT1M (fun i => (((![rho0] : Fin 1 → ℝ) i : ℝ) : ℂ)) !![K00] := by
    rw [e00]; ext i j; fin_cases i; fin_cases j; simp [relT1M]
  rw [hM]
  exact relT1M_unitary_symmetric _ (by intro i; fin_cases i; simpa using hrho0) _ hH

end REL13

section REL14
variable (s m_1 m_2 m_3 m_4 Gamma_1_0 Gamma_2_0 Gamma_3_0 Gamma_4_0 gamma_1_0 gamma_2_0 gamma_3_0 gamma_4_0 rho0 rhoR_1_0 rhoR_2_0 rhoR_3_0 rhoR_4_0 ff_0 ff0_1_0 ff0_2_0 ff0_3_0 ff0_4_0 : ℝ)

local notation "K00" => relK14_00 s m_1 m_2 m_3 m_4 Gamma_1_0 Gamma_2_0 Gamma_3_0 Gamma_4_0 gamma_1_0 gamma_2_0 gamma_3_0 gamma_4_0 (rho0 : ℂ) (rhoR_1_0 : ℂ) (rhoR_2_0 : ℂ) (rhoR_3_0 : ℂ) (rhoR_4_0 : ℂ) (ff_0 : ℂ) (ff0_1_0 : ℂ) (ff0_2_0 : ℂ) (ff0_3_0 : ℂ) (ff0_4_0 : ℂ)
local notation "F00" => relForm14_00 s m_1 m_2 m_3 m_4 Gamma_1_0 Gamma_2_0 Gamma_3_0 Gamma_4_0 gamma_1_0 gamma_2_0 gamma_3_0 gamma_4_0 (rho0 : ℂ) (rhoR_1_0 : ℂ) (rhoR_2_0 : ℂ) (rhoR_3_0 : ℂ) (rhoR_4_0 : ℂ) (ff_0 : ℂ) (ff0_1_0 : ℂ) (ff0_2_0 : ℂ) (ff0_3_0 : ℂ) (ff0_4_0 : ℂ)
local notation "H00" => relFormHat14_00 s m_1 m_2 m_3 m_4 Gamma_1_0 Gamma_2_0 Gamma_3_0 Gamma_4_0 gamma_1_0 gamma_2_0 gamma_3_0 gamma_4_0 (rho0 : ℂ) (rhoR_1_0 : ℂ) (rhoR_2_0 : ℂ) (rhoR_3_0 : ℂ) (rhoR_4_0 : ℂ) (ff_0 : ℂ) (ff0_1_0 : ℂ) (ff0_2_0 : ℂ) (ff0_3_0 : ℂ) (ff0_4_0 : ℂ)

/-- `relK14`: every entry is real for non-negative widths and (the guard) positive phase-space factors at `s` and at the pole masses. -/
theorem relK14_real (hGamma_1_0 : 0 ≤ Gamma_1_0) (hGamma_2_0 : 0 ≤ Gamma_2_0) (hGamma_3_0 : 0 ≤ Gamma_3_0) (hGamma_4_0 : 0 ≤ Gamma_4_0) (hrho0 : 0 < rho0) (hrhoR_1_0 : 0 < rhoR_1_0) (hrhoR_2_0 : 0 < rhoR_2_0) (hrhoR_3_0 : 0 < rhoR_3_0) (hrhoR_4_0 : 0 < rhoR_4_0) :
    IsRe K00 := by
  simp only [relK14_00]; real_closure

/-- `formulate(1, 4)` is the symbolic matrix expression with the parametrisation substituted. -/
theorem relForm14_eq :
    F00 = relT1_00 (rho0 : ℂ) K00 := by
  simp only [relForm14_00, relT1_00, relT1_den1]; try ring

/-- `formulate(1, 4, return_t_hat=True)` is the symbolic matrix expression with the parametrisation substituted. -/
theorem relFormHat14_eq :
    H00 = relTh1_00 (rho0 : ℂ) K00 := by
  simp only [relFormHat14_00, relTh1_00, relT1_den1]; try ring

/-- **`formulate(1, 4)`, relativistic: unitary and symmetric** for real parameters, under the guard that all phase-space factors (at `s` and at every pole mass) are real and positive. -/
theorem relForm14_unitary_symmetric (hGamma_1_0 : 0 ≤ Gamma_1_0) (hGamma_2_0 : 0 ≤ Gamma_2_0) (hGamma_3_0 : 0 ≤ Gamma_3_0) (hGamma_4_0 : 0 ≤ Gamma_4_0) (hrho0 : 0 < rho0) (hrhoR_1_0 : 0 < rhoR_1_0) (hrhoR_2_0 : 0 < rhoR_2_0) (hrhoR_3_0 : 0 < rhoR_3_0) (hrhoR_4_0 : 0 < rhoR_4_0) :
    (1 + (2 * Complex.I) • (!![F00] : Matrix (Fin 1) (Fin 1) ℂ))ᴴ * (1 + (2 * Complex.I) • (!![F00] : Matrix (Fin 1) (Fin 1) ℂ)) = 1
      ∧ (!![F00] : Matrix (Fin 1) (Fin 1) ℂ)ᵀ = (!![F00] : Matrix (Fin 1) (Fin 1) ℂ) := by
  have r00 := relK14_real s m_1 m_2 m_3 m_4 Gamma_1_0 Gamma_2_0 Gamma_3_0 Gamma_4_0 gamma_1_0 gamma_2_0 gamma_3_0 gamma_4_0 rho0 rhoR_1_0 rhoR_2_0 rhoR_3_0 rhoR_4_0 ff_0 ff0_1_0 ff0_2_0 ff0_3_0 ff0_4_0 hGamma_1_0 hGamma_2_0 hGamma_3_0 hGamma_4_0 hrho0 hrhoR_1_0 hrhoR_2_0 hrhoR_3_0 hrhoR_4_0
  obtain ⟨hH, hT⟩ := herm1 r00
  have e00 := relForm14_eq s m_1 m_2 m_3 m_4 Gamma_1_0 Gamma_2_0 Gamma_3_0 Gamma_4_0 gamma_1_0 gamma_2_0 gamma_3_0 gamma_4_0 rho0 rhoR_1_0 rhoR_2_0 rhoR_3_0 rhoR_4_0 ff_0 ff0_1_0 ff0_2_0 ff0_3_0 ff0_4_0
  have hM : (!![F00] : Matrix (Fin 1) (Fin 1) ℂ) = relT1M (fun i => (((![rho0] : Fin 1 → ℝ) i : ℝ) : ℂ)) !![K00] := by
    rw [e00]; ext i j; fin_cases i; fin_cases j; simp [relT1M]
  rw [hM]
  exact relT1M_unitary_symmetric _ (by intro i; fin_cases i; simpa using hrho0) _ hH

end REL14

section REL23
variable (s m_1 m_2 m_3 Gamma_1_0 Gamma_1_1 Gamma_2_0 Gamma_2_1 Gamma_3_0 Gamma_3_1 gamma_1_0 gamma_1_1 gamma_2_0 gamma_2_1 gamma_3_0 gamma_3_1 rho0 rho1 rhoR_1_0 rhoR_1_1 rhoR_2_0 rhoR_2_1 rhoR_3_0 rhoR_3_1 ff_0 ff_1 ff0_1_0 ff0_1_1 ff0_2_0 ff0_2_1 ff0_3_0 ff0_3_1 : ℝ)

local notation "K00" => relK23_00 s m_1 m_2 m_3 Gamma_1_0 Gamma_1_1 Gamma_2_0 Gamma_2_1 Gamma_3_0 Gamma_3_1 gamma_1_0 gamma_1_1 gamma_2_0 gamma_2_1 gamma_3_0 gamma_3_1 (rho0 : ℂ) (rho1 : ℂ) (rhoR_1_0 : ℂ) (rhoR_1_1 : ℂ) (rhoR_2_0 : ℂ) (rhoR_2_1 : ℂ) (rhoR_3_0 : ℂ) (rhoR_3_1 : ℂ) (ff_0 : ℂ) (ff_1 : ℂ) (ff0_1_0 : ℂ) (ff0_1_1 : ℂ) (ff0_2_0 : ℂ) (ff0_2_1 : ℂ) (ff0_3_0 : ℂ) (ff0_3_1 : ℂ)
local notation "K01" => relK23_01 s m_1 m_2 m_3 Gamma_1_0 Gamma_1_1 Gamma_2_0 Gamma_2_1 Gamma_3_0 Gamma_3_1 gamma_1_0 gamma_1_1 gamma_2_0 gamma_2_1 gamma_3_0 gamma_3_1 (rho0 : ℂ) (rho1 : ℂ) (rhoR_1_0 : ℂ) (rhoR_1_1 : ℂ) (rhoR_2_0 : ℂ) (rhoR_2_1 : ℂ) (rhoR_3_0 : ℂ) (rhoR_3_1 : ℂ) (ff_0 : ℂ) (ff_1 : ℂ) (ff0_1_0 : ℂ) (ff0_1_1 : ℂ) (ff0_2_0 : ℂ) (ff0_2_1 : ℂ) (ff0_3_0 : ℂ) (ff0_3_1 : ℂ)
local notation "K10" => relK23_10 s m_1 m_2 m_3 Gamma_1_0 Gamma_1_1 Gamma_2_0 Gamma_2_1 Gamma_3_0 Gamma_3_1 gamma_1_0 gamma_1_1 gamma_2_0 gamma_2_1 gamma_3_0 gamma_3_1 (rho0 : ℂ) (rho1 : ℂ) (rhoR_1_0 : ℂ) (rhoR_1_1 : ℂ) (rhoR_2_0 : ℂ) (rhoR_2_1 : ℂ) (rhoR_3_0 : ℂ) (rhoR_3_1 : ℂ) (ff_0 : ℂ) (ff_1 : ℂ) (ff0_1_0 : ℂ) (ff0_1_1 : ℂ) (ff0_2_0 : ℂ) (ff0_2_1 : ℂ) (ff0_3_0 : ℂ) (ff0_3_1 : ℂ)
local notation "K11" => relK23_11 s m_1 m_2 m_3 Gamma_1_0 Gamma_1_1 Gamma_2_0 Gamma_2_1 Gamma_3_0 Gamma_3_1 gamma_1_0 gamma_1_1 gamma_2_0 gamma_2_1 gamma_3_0 gamma_3_1 (rho0 : ℂ) (rho1 : ℂ) (rhoR_1_0 : ℂ) (rhoR_1_1 : ℂ) (rhoR_2_0 : ℂ) (rhoR_2_1 : ℂ) (rhoR_3_0 : ℂ) (rhoR_3_1 : ℂ) (ff_0 : ℂ) (ff_1 : ℂ) (ff0_1_0 : ℂ) (ff0_1_1 : ℂ) (ff0_2_0 : ℂ) (ff0_2_1 : ℂ) (ff0_3_0 : ℂ) (ff0_3_1 : ℂ)
local notation "F00" => relForm23_00 s m_1 m_2 m_3 Gamma_1_0 Gamma_1_1 Gamma_2_0 Gamma_2_1 Gamma_3_0 Gamma_3_1 gamma_1_0 gamma_1_1 gamma_2_0 gamma_2_1 gamma_3_0 gamma_3_1 (rho0 : ℂ) (rho1 : ℂ) (rhoR_1_0 : ℂ) (rhoR_1_1 : ℂ) (rhoR_2_0 : ℂ) (rhoR_2_1 : ℂ) (rhoR_3_0 : ℂ) (rhoR_3_1 : ℂ) (ff_0 : ℂ) (ff_1 : ℂ) (ff0_1_0 : ℂ) (ff0_1_1 : ℂ) (ff0_2_0 : ℂ) (ff0_2_1 : ℂ) (ff0_3_0 : ℂ) (ff0_3_1 : ℂ)
local notation "F01" => relForm23_01 s m_1 m_2 m_3 Gamma_1_0 Gamma_1_1 Gamma_2_0 Gamma_2_1 Gamma_3_0 Gamma_3_1 gamma_1_0 gamma_1_1 gamma_2_0 gamma_2_1 gamma_3_0 gamma_3_1 (rho0 : ℂ) (rho1 : ℂ) (rhoR_1_0 : ℂ) (rhoR_1_1 : ℂ) (rhoR_2_0 : ℂ) (rhoR_2_1 : ℂ) (rhoR_3_0 : ℂ) (rhoR_3_1 : ℂ) (ff_0 : ℂ) (ff_1 : ℂ) (ff0_1_0 : ℂ) (ff0_1_1 : ℂ) (ff0_2_0 : ℂ) (ff0_2_1 : ℂ) (ff0_3_0 : ℂ) (ff0_3_1 : ℂ)
local notation "F10" => relForm23_10 s m_1 m_2 m_3 Gamma_1_0 Gamma_1_1 Gamma_2_0 Gamma_2_1 Gamma_3_0 Gamma_3_1 gamma_1_0 gamma_1_1 gamma_2_0 gamma_2_1 gamma_3_0 gamma_3_1 (rho0 : ℂ) (rho1 : ℂ) (rhoR_1_0 : ℂ) (rhoR_1_1 : ℂ) (rhoR_2_0 : ℂ) (rhoR_2_1 : ℂ) (rhoR_3_0 : ℂ) (rhoR_3_1 : ℂ) (ff_0 : ℂ) (ff_1 : ℂ) (ff0_1_0 : ℂ) (ff0_1_1 : ℂ) (ff0_2_0 : ℂ) (ff0_2_1 : ℂ) (ff0_3_0 : ℂ) (ff0_3_1 : ℂ)
local notation "F11" => relForm23_11 s m_1 m_2 m_3 Gamma_1_0 Gamma_1_1 Gamma_2_0 Gamma_2_1 Gamma_3_0 Gamma_3_1 gamma_1_0 gamma_1_1 gamma_2_0 gamma_2_1 gamma_3_0 gamma_3_1 (rho0 : ℂ) (rho1 : ℂ) (rhoR_1_0 : ℂ) (rhoR_1_1 : ℂ) (rhoR_2_0 : ℂ) (rhoR_2_1 : ℂ) (rhoR_3_0 : ℂ) (rhoR_3_1 : ℂ) (ff_0 : ℂ) (ff_1 : ℂ) (ff0_1_0 : ℂ) (ff0_1_1 : ℂ) (ff0_2_0 : ℂ) (ff0_2_1 : ℂ) (ff0_3_0 : ℂ) (ff0_3_1 : ℂ)
local notation "H00" => relFormHat23_00 s m_1 m_2 m_3 Gamma_1_0 Gamma_1_1 Gamma_2_0 Gamma_2_1 Gamma_3_0 Gamma_3_1 gamma_1_0 gamma_1_1 gamma_2_0 gamma_2_1 gamma_3_0 gamma_3_1 (rho0 : ℂ) (rho1 : ℂ) (rhoR_1_0 : ℂ) (rhoR_1_1 : ℂ) (rhoR_2_0 : ℂ) (rhoR_2_1 : ℂ) (rhoR_3_0 : ℂ) (rhoR_3_1 : ℂ) (ff_0 : ℂ) (ff_1 : ℂ) (ff0_1_0 : ℂ) (ff0_1_1 : ℂ) (ff0_2_0 : ℂ) (ff0_2_1 : ℂ) (ff0_3_0 : ℂ) (ff0_3_1 : ℂ)
local notation "H01" => relFormHat23_01 s m_1 m_2 m_3 Gamma_1_0 Gamma_1_1 Gamma_2_0 Gamma_2_1 Gamma_3_0 Gamma_3_1 gamma_1_0 gamma_1_1 gamma_2_0 gamma_2_1 gamma_3_0 gamma_3_1 (rho0 : ℂ) (rho1 : ℂ) (rhoR_1_0 : ℂ) (rhoR_1_1 : ℂ) (rhoR_2_0 : ℂ) (rhoR_2_1 : ℂ) (rhoR_3_0 : ℂ) (rhoR_3_1 : ℂ) (ff_0 : ℂ) (ff_1 : ℂ) (ff0_1_0 : ℂ) (ff0_1_1 : ℂ) (ff0_2_0 : ℂ) (ff0_2_1 : ℂ) (ff0_3_0 : ℂ) (ff0_3_1 : ℂ)
local notation "H10" => relFormHat23_10 s m_1 m_2 m_3 Gamma_1_0 Gamma_1_1 Gamma_2_0 Gamma_2_1 Gamma_3_0 Gamma_3_1 gamma_1_0 gamma_1_1 gamma_2_0 gamma_2_1 gamma_3_0 gamma_3_1 (rho0 : ℂ) (rho1 : ℂ) (rhoR_1_0 : ℂ) (rhoR_1_1 : ℂ) (rhoR_2_0 : ℂ) (rhoR_2_1 : ℂ) (rhoR_3_0 : ℂ) (rhoR_3_1 : ℂ) (ff_0 : ℂ) (ff_1 : ℂ) (ff0_1_0 : ℂ) (ff0_1_1 : ℂ) (ff0_2_0 : ℂ) (ff0_2_1 : ℂ) (ff0_3_0 : ℂ) (ff0_3_1 : ℂ)
local notation "H11" => relFormHat23_11 s m_1 m_2 m_3 Gamma_1_0 Gamma_1_1 Gamma_2_0 Gamma_2_1 Gamma_3_0 Gamma_3_1 gamma_1_0 gamma_1_1 gamma_2_0 gamma_2_1 gamma_3_0 gamma_3_1 (rho0 : ℂ) (rho1 : ℂ) (rhoR_1_0 : ℂ) (rhoR_1_1 : ℂ) (rhoR_2_0 : ℂ) (rhoR_2_1 : ℂ) (rhoR_3_0 : ℂ) (rhoR_3_1 : ℂ) (ff_0 : ℂ) (ff_1 : ℂ) (ff0_1_0 : ℂ) (ff0_1_1 : ℂ) (ff0_2_0 : ℂ) (ff0_2_1 : ℂ) (ff0_3_0 : ℂ) (ff0_3_1 : ℂ)

/-- `relK23`: the regenerated parametrisation is symmetric in the channel indices. -/
theorem relK23_symm : K01 = K10 := by
  simp only [relK23_01, relK23_10]; try ring

/-- `relK23`: every entry is real for non-negative widths and (the guard) positive phase-space factors at `s` and at the pole masses. -/
theorem relK23_real (hGamma_1_0 : 0 ≤ Gamma_1_0) (hGamma_1_1 : 0 ≤ Gamma_1_1) (hGamma_2_0 : 0 ≤ Gamma_2_0) (hGamma_2_1 : 0 ≤ Gamma_2_1) (hGamma_3_0 : 0 ≤ Gamma_3_0) (hGamma_3_1 : 0 ≤ Gamma_3_1) (hrho0 : 0 < rho0) (hrho1 : 0 < rho1) (hrhoR_1_0 : 0 < rhoR_1_0) (hrhoR_1_1 : 0 < rhoR_1_1) (hrhoR_2_0 : 0 < rhoR_2_0) (hrhoR_2_1 : 0 < rhoR_2_1) (hrhoR_3_0 : 0 < rhoR_3_0) (hrhoR_3_1 : 0 < rhoR_3_1) :
    IsRe K00 ∧ IsRe K01 ∧ IsRe K10 ∧ IsRe K11 := by
  refine ⟨?_, ?_, ?_, ?_⟩ <;> simp only [relK23_00, relK23_01, relK23_10, relK23_11] <;> real_closure

/-- `formulate(2, 3)` is the symbolic matrix expression with the parametrisation substituted. -/
theorem relForm23_eq :
    F00 = relT2_00 (rho0 : ℂ) (rho1 : ℂ) K00 K01 K10 K11 ∧ F01 = relT2_01 (rho0 : ℂ) (rho1 : ℂ) K00 K01 K10 K11 ∧ F10 = relT2_10 (rho0 : ℂ) (rho1 : ℂ) K00 K01 K10 K11 ∧ F11 = relT2_11 (rho0 : ℂ) (rho1 : ℂ) K00 K01 K10 K11 := by
  have hs := relK23_symm s m_1 m_2 m_3 Gamma_1_0 Gamma_1_1 Gamma_2_0 Gamma_2_1 Gamma_3_0 Gamma_3_1 gamma_1_0 gamma_1_1 gamma_2_0 gamma_2_1 gamma_3_0 gamma_3_1 rho0 rho1 rhoR_1_0 rhoR_1_1 rhoR_2_0 rhoR_2_1 rhoR_3_0 rhoR_3_1 ff_0 ff_1 ff0_1_0 ff0_1_1 ff0_2_0 ff0_2_1 ff0_3_0 ff0_3_1
  refine ⟨?_, ?_, ?_, ?_⟩ <;>
  · simp only [relForm23_00, relForm23_01, relForm23_10, relForm23_11, relT2_00, relT2_01, relT2_10, relT2_11, relT2_den1]
    rw [hs]
    try ring

/-- `formulate(2, 3, return_t_hat=True)` is the symbolic matrix expression with the parametrisation substituted. -/
theorem relFormHat23_eq :
    H00 = relTh2_00 (rho0 : ℂ) (rho1 : ℂ) K00 K01 K10 K11 ∧ H01 = relTh2_01 (rho0 : ℂ) (rho1 : ℂ) K00 K01 K10 K11 ∧ H10 = relTh2_10 (rho0 : ℂ) (rho1 : ℂ) K00 K01 K10 K11 ∧ H11 = relTh2_11 (rho0 : ℂ) (rho1 : ℂ) K00 K01 K10 K11 := by
  have hs := relK23_symm s m_1 m_2 m_3 Gamma_1_0 Gamma_1_1 Gamma_2_0 Gamma_2_1 Gamma_3_0 Gamma_3_1 gamma_1_0 gamma_1_1 gamma_2_0 gamma_2_1 gamma_3_0 gamma_3_1 rho0 rho1 rhoR_1_0 rhoR_1_1 rhoR_2_0 rhoR_2_1 rhoR_3_0 rhoR_3_1 ff_0 ff_1 ff0_1_0 ff0_1_1 ff0_2_0 ff0_2_1 ff0_3_0 ff0_3_1
  refine ⟨?_, ?_, ?_, ?_⟩ <;>
  · simp only [relFormHat23_00, relFormHat23_01, relFormHat23_10, relFormHat23_11, relTh2_00, relTh2_01, relTh2_10, relTh2_11, relT2_den1]
    rw [hs]
    try ring

/-- **`formulate(2, 3)`, relativistic: unitary and symmetric** for real parameters, under the guard that all phase-space factors (at `s` and at every pole mass) are real and positive. -/
theorem relForm23_unitary_symmetric (hGamma_1_0 : 0 ≤ Gamma_1_0) (hGamma_1_1 : 0 ≤ Gamma_1_1) (hGamma_2_0 : 0 ≤ Gamma_2_0) (hGamma_2_1 : 0 ≤ Gamma_2_1) (hGamma_3_0 : 0 ≤ Gamma_3_0) (hGamma_3_1 : 0 ≤ Gamma_3_1) (hrho0 : 0 < rho0) (hrho1 : 0 < rho1) (hrhoR_1_0 : 0 < rhoR_1_0) (hrhoR_1_1 : 0 < rhoR_1_1) (hrhoR_2_0 : 0 < rhoR_2_0) (hrhoR_2_1 : 0 < rhoR_2_1) (hrhoR_3_0 : 0 < rhoR_3_0) (hrhoR_3_1 : 0 < rhoR_3_1) :
    (1 + (2 * Complex.I) • (!![F00, F01; F10, F11] : Matrix (Fin 2) (Fin 2) ℂ))ᴴ * (1 + (2 * Complex.I) • (!![F00, F01; F10, F11] : Matrix (Fin 2) (Fin 2) ℂ)) = 1
      ∧ (!![F00, F01; F10, F11] : Matrix (Fin 2) (Fin 2) ℂ)ᵀ = (!![F00, F01; F10, F11] : Matrix (Fin 2) (Fin 2) ℂ) := by
  obtain ⟨r00, r01, r10, r11⟩ := relK23_real s m_1 m_2 m_3 Gamma_1_0 Gamma_1_1 Gamma_2_0 Gamma_2_1 Gamma_3_0 Gamma_3_1 gamma_1_0 gamma_1_1 gamma_2_0 gamma_2_1 gamma_3_0 gamma_3_1 rho0 rho1 rhoR_1_0 rhoR_1_1 rhoR_2_0 rhoR_2_1 rhoR_3_0 rhoR_3_1 ff_0 ff_1 ff0_1_0 ff0_1_1 ff0_2_0 ff0_2_1 ff0_3_0 ff0_3_1 hGamma_1_0 hGamma_1_1 hGamma_2_0 hGamma_2_1 hGamma_3_0 hGamma_3_1 hrho0 hrho1 hrhoR_1_0 hrhoR_1_1 hrhoR_2_0 hrhoR_2_1 hrhoR_3_0 hrhoR_3_1
  have hs := relK23_symm s m_1 m_2 m_3 Gamma_1_0 Gamma_1_1 Gamma_2_0 Gamma_2_1 Gamma_3_0 Gamma_3_1 gamma_1_0 gamma_1_1 gamma_2_0 gamma_2_1 gamma_3_0 gamma_3_1 rho0 rho1 rhoR_1_0 rhoR_1_1 rhoR_2_0 rhoR_2_1 rhoR_3_0 rhoR_3_1 ff_0 ff_1 ff0_1_0 ff0_1_1 ff0_2_0 ff0_2_1 ff0_3_0 ff0_3_1
  obtain ⟨hH, hT⟩ := herm2 r00 r01 r11 hs
  obtain ⟨e00, e01, e10, e11⟩ := relForm23_eq s m_1 m_2 m_3 Gamma_1_0 Gamma_1_1 Gamma_2_0 Gamma_2_1 Gamma_3_0 Gamma_3_1 gamma_1_0 gamma_1_1 gamma_2_0 gamma_2_1 gamma_3_0 gamma_3_1 rho0 rho1 rhoR_1_0 rhoR_1_1 rhoR_2_0 rhoR_2_1 rhoR_3_0 rhoR_3_1 ff_0 ff_1 ff0_1_0 ff0_1_1 ff0_2_0 ff0_2_1 ff0_3_0 ff0_3_1
  have hM : (!![F00, F01; F10, F11] : Matrix (Fin 2) (Fin 2) ℂ) = relT2M (fun i => (((![rho0, rho1] : Fin 2 → ℝ) i : ℝ) : ℂ)) !![K00, K01; K10, K11] := by
    rw [e00, e01, e10, e11]
    ext i j; fin_cases i <;> fin_cases j <;> simp [relT2M]
  rw [hM]
  exact relT2M_unitary_symmetric _ (by intro i; fin_cases i <;> simpa) _ hH hT

end REL23

section REL24
variable (s m_1 m_2 m_3 m_4 Gamma_1_0 Gamma_1_1 Gamma_2_0 Gamma_2_1 Gamma_3_0 Gamma_3_1 Gamma_4_0 Gamma_4_1 gamma_1_0 gamma_1_1 gamma_2_0 gamma_2_1 gamma_3_0 gamma_3_1 gamma_4_0 gamma_4_1 rho0 rho1 rhoR_1_0 rhoR_1_1 rhoR_2_0 rhoR_2_1 rhoR_3_0 rhoR_3_1 rhoR_4_0 rhoR_4_1 ff_0 ff_1 ff0_1_0 ff0_1_1 ff0_2_0 ff0_2_1 ff0_3_0 ff0_3_1 ff0_4_0 ff0_4_1 : ℝ)

local notation "K00" => relK24_00 s m_1 m_2 m_3 m_4 Gamma_1_0 Gamma_1_1 Gamma_2_0 Gamma_2_1 Gamma_3_0 Gamma_3_1 Gamma_4_0 Gamma_4_1 gamma_1_0 gamma_1_1 gamma_2_0 gamma_2_1 gamma_3_0 gamma_3_1 gamma_4_0 gamma_4_1 (rho0 : ℂ) (rho1 : ℂ) (rhoR_1_0 : ℂ) (rhoR_1_1 : ℂ) (rhoR_2_0 : ℂ) (rhoR_2_1 : ℂ) (rhoR_3_0 : ℂ) (rhoR_3_1 : ℂ) (rhoR_4_0 : ℂ) (rhoR_4_1 : ℂ) (ff_0 : ℂ) (ff_1 : ℂ) (ff0_1_0 : ℂ) (ff0_1_1 : ℂ) (ff0_2_0 : ℂ) (ff0_2_1 : ℂ) (ff0_3_0 : ℂ) (ff0_3_1 : ℂ) (ff0_4_0 : ℂ) (ff0_4_1 : ℂ)
local notation "K01" => relK24_01 s m_1 m_2 m_3 m_4 Gamma_1_0 Gamma_1_1 Gamma_2_0 Gamma_2_1 Gamma_3_0 Gamma_3_1 Gamma_4_0 Gamma_4_1 gamma_1_0 gamma_1_1 gamma_2_0 gamma_2_1 gamma_3_0 gamma_3_1 gamma_4_0 gamma_4_1 (rho0 : ℂ) (rho1 : ℂ) (rhoR_1_0 : ℂ) (rhoR_1_1 : ℂ) (rhoR_2_0 : ℂ) (rhoR_2_1 : ℂ) (rhoR_3_0 : ℂ) (rhoR_3_1 : ℂ) (rhoR_4_0 : ℂ) (rhoR_4_1 : ℂ) (ff_0 : ℂ) (ff_1 : ℂ) (ff0_1_0 : ℂ) (ff0_1_1 : ℂ) (ff0_2_0 : ℂ) (ff0_2_1 : ℂ) (ff0_3_0 : ℂ) (ff0_3_1 : ℂ) (ff0_4_0 : ℂ) (ff0_4_1 : ℂ)
local notation "K10" => relK24_10 s m_1 m_2 m_3 m_4 Gamma_1_0 Gamma_1_1 Gamma_2_0 Gamma_2_1 Gamma_3_0 Gamma_3_1 Gamma_4_0 Gamma_4_1 gamma_1_0 gamma_1_1 gamma_2_0 gamma_2_1 gamma_3_0 gamma_3_1 gamma_4_0 gamma_4_1 (rho0 : ℂ) (rho1 : ℂ) (rhoR_1_0 : ℂ) (rhoR_1_1 : ℂ) (rhoR_2_0 : ℂ) (rhoR_2_1 : ℂ) (rhoR_3_0 : ℂ) (rhoR_3_1 : ℂ) (rhoR_4_0 : ℂ) (rhoR_4_1 : ℂ) (ff_0 : ℂ) (ff_1 : ℂ) (ff0_1_0 : ℂ) (ff0_1_1 : ℂ) (ff0_2_0 : ℂ) (ff0_2_1 : ℂ) (ff0_3_0 : ℂ) (ff0_3_1 : ℂ) (ff0_4_0 : ℂ) (ff0_4_1 : ℂ)
local notation "K11" => relK24_11 s m_1 m_2 m_3 m_4 Gamma_1_0 Gamma_1_1 Gamma_2_0 Gamma_2_1 Gamma_3_0 Gamma_3_1 Gamma_4_0 Gamma_4_1 gamma_1_0 gamma_1_1 gamma_2_0 gamma_2_1 gamma_3_0 gamma_3_1 gamma_4_0 gamma_4_1 (rho0 : ℂ) (rho1 : ℂ) (rhoR_1_0 : ℂ) (rhoR_1_1 : ℂ) (rhoR_2_0 : ℂ) (rhoR_2_1 : ℂ) (rhoR_3_0 : ℂ) (rhoR_3_1 : ℂ) (rhoR_4_0 : ℂ) (rhoR_4_1 : ℂ) (ff_0 : ℂ) (ff_1 : ℂ) (ff0_1_0 : ℂ) (ff0_1_1 : ℂ) (ff0_2_0 : ℂ) (ff0_2_1 : ℂ) (ff0_3_0 : ℂ) (ff0_3_1 : ℂ) (ff0_4_0 : ℂ) (ff0_4_1 : ℂ)
local notation "F00" => relForm24_00 s m_1 m_2 m_3 m_4 Gamma_1_0 Gamma_1_1 Gamma_2_0 Gamma_2_1 Gamma_3_0 Gamma_3_1 Gamma_4_0 Gamma_4_1 gamma_1_0 gamma_1_1 gamma_2_0 gamma_2_1 gamma_3_0 gamma_3_1 gamma_4_0 gamma_4_1 (rho0 : ℂ) (rho1 : ℂ) (rhoR_1_0 : ℂ) (rhoR_1_1 : ℂ) (rhoR_2_0 : ℂ) (rhoR_2_1 : ℂ) (rhoR_3_0 : ℂ) (rhoR_3_1 : ℂ) (rhoR_4_0 : ℂ) (rhoR_4_1 : ℂ) (ff_0 : ℂ) (ff_1 : ℂ) (ff0_1_0 : ℂ) (ff0_1_1 : ℂ) (ff0_2_0 : ℂ) (ff0_2_1 : ℂ) (ff0_3_0 : ℂ) (ff0_3_1 : ℂ) (ff0_4_0 : ℂ) (ff0_4_1 : ℂ)
local notation "F01" => relForm24_01 s m_1 m_2 m_3 m_4 Gamma_1_0 Gamma_1_1 Gamma_2_0 Gamma_2_1 Gamma_3_0 Gamma_3_1 Gamma_4_0 Gamma_4_1 gamma_1_0 gamma_1_1 gamma_2_0 gamma_2_1 gamma_3_0 gamma_3_1 gamma_4_0 gamma_4_1 (rho0 : ℂ) (rho1 : ℂ) (rhoR_1_0 : ℂ) (rhoR_1_1 : ℂ) (rhoR_2_0 : ℂ) (rhoR_2_1 : ℂ) (rhoR_3_0 : ℂ) (rhoR_3_1 : ℂ) (rhoR_4_0 : ℂ) (rhoR_4_1 : ℂ) (ff_0 : ℂ) (ff_1 : ℂ) (ff0_1_0 : ℂ) (ff0_1_1 : ℂ) (ff0_2_0 : ℂ) (ff0_2_1 : ℂ) (ff0_3_0 : ℂ) (ff0_3_1 : ℂ) (ff0_4_0 : ℂ) (ff0_4_1 : ℂ)
local notation "F10" => relForm24_10 s m_1 m_2 m_3 m_4 Gamma_1_0 Gamma_1_1 Gamma_2_0 Gamma_2_1 Gamma_3_0 Gamma_3_1 Gamma_4_0 Gamma_4_1 gamma_1_0 gamma_1_1 gamma_2_0 gamma_2_1 gamma_3_0 gamma_3_1 gamma_4_0 gamma_4_1 (rho0 : ℂ) (rho1 : ℂ) (rhoR_1_0 : ℂ) (rhoR_1_1 : ℂ) (rhoR_2_0 : ℂ) (rhoR_2_1 : ℂ) (rhoR_3_0 : ℂ) (rhoR_3_1 : ℂ) (rhoR_4_0 : ℂ) (rhoR_4_1 : ℂ) (ff_0 : ℂ) (ff_1 : ℂ) (ff0_1_0 : ℂ) (ff0_1_1 : ℂ) (ff0_2_0 : ℂ) (ff0_2_1 : ℂ) (ff0_3_0 : ℂ) (ff0_3_1 : ℂ) (ff0_4_0 : ℂ) (ff0_4_1 : ℂ)
local notation "F11" => relForm24_11 s m_1 m_2 m_3 m_4 Gamma_1_0 Gamma_1_1 Gamma_2_0 Gamma_2_1 Gamma_3_0 Gamma_3_1 Gamma_4_0 Gamma_4_1 gamma_1_0 gamma_1_1 gamma_2_0 gamma_2_1 gamma_3_0 gamma_3_1 gamma_4_0 gamma_4_1 (rho0 : ℂ) (rho1 : ℂ) (rhoR_1_0 : ℂ) (rhoR_1_1 : ℂ) (rhoR_2_0 : ℂ) (rhoR_2_1 : ℂ) (rhoR_3_0 : ℂ) (rhoR_3_1 : ℂ) (rhoR_4_0 : ℂ) (rhoR_4_1 : ℂ) (ff_0 : ℂ) (ff_1 : ℂ) (ff0_1_0 : ℂ) (ff0_1_1 : ℂ) (ff0_2_0 : ℂ) (ff0_2_1 : ℂ) (ff0_3_0 : ℂ) (ff0_3_1 : ℂ) (ff0_4_0 : ℂ) (ff0_4_1 : ℂ)
local notation "H00" => relFormHat24_00 s m_1 m_2 m_3 m_4 Gamma_1_0 Gamma_1_1 Gamma_2_0 Gamma_2_1 Gamma_3_0 Gamma_3_1 Gamma_4_0 Gamma_4_1 gamma_1_0 gamma_1_1 gamma_2_0 gamma_2_1 gamma_3_0 gamma_3_1 gamma_4_0 gamma_4_1 (rho0 : ℂ) (rho1 : ℂ) (rhoR_1_0 : ℂ) (rhoR_1_1 : ℂ) (rhoR_2_0 : ℂ) (rhoR_2_1 : ℂ) (rhoR_3_0 : ℂ) (rhoR_3_1 : ℂ) (rhoR_4_0 : ℂ) (rhoR_4_1 : ℂ) (ff_0 : ℂ) (ff_1 : ℂ) (ff0_1_0 : ℂ) (ff0_1_1 : ℂ) (ff0_2_0 : ℂ) (ff0_2_1 : ℂ) (ff0_3_0 : ℂ) (ff0_3_1 : ℂ) (ff0_4_0 : ℂ) (ff0_4_1 : ℂ)
local notation "H01" => relFormHat24_01 s m_1 m_2 m_3 m_4 Gamma_1_0 Gamma_1_1 Gamma_2_0 Gamma_2_1 Gamma_3_0 Gamma_3_1 Gamma_4_0 Gamma_4_1 gamma_1_0 gamma_1_1 gamma_2_0 gamma_2_1 gamma_3_0 gamma_3_1 gamma_4_0 gamma_4_1 (rho0 : ℂ) (rho1 : ℂ) (rhoR_1_0 : ℂ) (rhoR_1_1 : ℂ) (rhoR_2_0 : ℂ) (rhoR_2_1 : ℂ) (rhoR_3_0 : ℂ) (rhoR_3_1 : ℂ) (rhoR_4_0 : ℂ) (rhoR_4_1 : ℂ) (ff_0 : ℂ) (ff_1 : ℂ) (ff0_1_0 : ℂ) (ff0_1_1 : ℂ) (ff0_2_0 : ℂ) (ff0_2_1 : ℂ) (ff0_3_0 : ℂ) (ff0_3_1 : ℂ) (ff0_4_0 : ℂ) (ff0_4_1 : ℂ)
local notation "H10" => relFormHat24_10 s m_1 m_2 m_3 m_4 Gamma_1_0 Gamma_1_1 Gamma_2_0 Gamma_2_1 Gamma_3_0 Gamma_3_1 Gamma_4_0 Gamma_4_1 gamma_1_0 gamma_1_1 gamma_2_0 gamma_2_1 gamma_3_0 gamma_3_1 gamma_4_0 gamma_4_1 (rho0 : ℂ) (rho1 : ℂ) (rhoR_1_0 : ℂ) (rhoR_1_1 : ℂ) (rhoR_2_0 : ℂ) (rhoR_2_1 : ℂ) (rhoR_3_0 : ℂ) (rhoR_3_1 : ℂ) (rhoR_4_0 : ℂ) (rhoR_4_1 : ℂ) (ff_0 : ℂ) (ff_1 : ℂ) (ff0_1_0 : ℂ) (ff0_1_1 : ℂ) (ff0_2_0 : ℂ) (ff0_2_1 : ℂ) (ff0_3_0 : ℂ) (ff0_3_1 : ℂ) (ff0_4_0 : ℂ) (ff0_4_1 : ℂ)
local notation "H11" => relFormHat24_11 s m_1 m_2 m_3 m_4 Gamma_1_0 Gamma_1_1 Gamma_2_0 Gamma_2_1 Gamma_3_0 Gamma_3_1 Gamma_4_0 Gamma_4_1 gamma_1_0 gamma_1_1 gamma_2_0 gamma_2_1 gamma_3_0 gamma_3_1 gamma_4_0 gamma_4_1 (rho0 : ℂ) (rho1 : ℂ) (rhoR_1_0 : ℂ) (rhoR_1_1 : ℂ) (rhoR_2_0 : ℂ) (rhoR_2_1 : ℂ) (rhoR_3_0 : ℂ) (rhoR_3_1 : ℂ) (rhoR_4_0 : ℂ) (rhoR_4_1 : ℂ) (ff_0 : ℂ) (ff_1 : ℂ) (ff0_1_0 : ℂ) (ff0_1_1 : ℂ) (ff0_2_0 : ℂ) (ff0_2_1 : ℂ) (ff0_3_0 : ℂ) (ff0_3_1 : ℂ) (ff0_4_0 : ℂ) (ff0_4_1 : ℂ)

/-- `relK24`: the regenerated parametrisation is symmetric in the channel indices. -/
theorem relK24_symm : K01 = K10 := by
  simp only [relK24_01, relK24_10]; try ring

/-- `relK24`: every entry is real for non-negative widths and (the guard) positive phase-space factors at `s` and at the pole masses. -/
theorem relK24_real (hGamma_1_0 : 0 ≤ Gamma_1_0) (hGamma_1_1 : 0 ≤ Gamma_1_1) (hGamma_2_0 : 0 ≤ Gamma_2_0) (hGamma_2_1 : 0 ≤ Gamma_2_1) (hGamma_3_0 : 0 ≤ Gamma_3_0) (hGamma_3_1 : 0 ≤ Gamma_3_1) (hGamma_4_0 : 0 ≤ Gamma_4_0) (hGamma_4_1 : 0 ≤ Gamma_4_1) (hrho0 : 0 < rho0) (hrho1 : 0 < rho1) (hrhoR_1_0 : 0 < rhoR_1_0) (hrhoR_1_1 : 0 < rhoR_1_1) (hrhoR_2_0 : 0 < rhoR_2_0) (hrhoR_2_1 : 0 < rhoR_2_1) (hrhoR_3_0 : 0 < rhoR_3_0) (hrhoR_3_1 : 0 < rhoR_3_1) (hrhoR_4_0 : 0 < rhoR_4_0) (hrhoR_4_1 : 0 < rhoR_4_1) :
    IsRe K00 ∧ IsRe K01 ∧ IsRe K10 ∧ IsRe K11 := by
  refine ⟨?_, ?_, ?_, ?_⟩ <;> simp only [relK24_00, relK24_01, relK24_10, relK24_11] <;> real_closure

/-- `formulate(2, 4)` is the symbolic matrix expression with the parametrisation substituted. -/
theorem relForm24_eq :
    F00 = relT2_00 (rho0 : ℂ) (rho1 : ℂ) K00 K01 K10 K11 ∧ F01 = relT2_01 (rho0 : ℂ) (rho1 : ℂ) K00 K01 K10 K11 ∧ F10 = relT2_10 (rho0 : ℂ) (rho1 : ℂ) K00 K01 K10 K11 ∧ F11 = relT2_11 (rho0 : ℂ) (rho1 : ℂ) K00 K01 K10 K11 := by
  have hs := relK24_symm s m_1 m_2 m_3 m_4 Gamma_1_0 Gamma_1_1 Gamma_2_0 Gamma_2_1 Gamma_3_0 Gamma_3_1 Gamma_4_0 Gamma_4_1 gamma_1_0 gamma_1_1 gamma_2_0 gamma_2_1 gamma_3_0 gamma_3_1 gamma_4_0 gamma_4_1 rho0 rho1 rhoR_1_0 rhoR_1_1 rhoR_2_0 rhoR_2_1 rhoR_3_0 rhoR_3_1 rhoR_4_0 rhoR_4_1 ff_0 ff_1 ff0_1_0 ff0_1_1 ff0_2_0 ff0_2_1 ff0_3_0 ff0_3_1 ff0_4_0 ff0_4_1
  refine ⟨?_, ?_, ?_, ?_⟩ <;>
  · simp only [relForm24_00, relForm24_01, relForm24_10, relForm24_11, relT2_00, relT2_01, relT2_10, relT2_11, relT2_den1]
    rw [hs]
    try ring

/-- `formulate(2, 4, return_t_hat=True)` is the symbolic matrix expression with the parametrisation substituted. -/
theorem relFormHat24_eq :
    H00 = relTh2_00 (rho0 : ℂ) (rho1 : ℂ) K00 K01 K10 K11 ∧ H01 = relTh2_01 (rho0 : ℂ) (rho1 : ℂ) K00 K01 K10 K11 ∧ H10 = relTh2_10 (rho0 : ℂ) (rho1 : ℂ) K00 K01 K10 K11 ∧ H11 = relTh2_11 (rho0 : ℂ) (rho1 : ℂ) K00 K01 K10 K11 := by
  have hs := relK24_symm s m_1 m_2 m_3 m_4 Gamma_1_0 Gamma_1_1 Gamma_2_0 Gamma_2_1 Gamma_3_0 Gamma_3_1 Gamma_4_0 Gamma_4_1 gamma_1_0 gamma_1_1 gamma_2_0 gamma_2_1 gamma_3_0 gamma_3_1 gamma_4_0 gamma_4_1 rho0 rho1 rhoR_1_0 rhoR_1_1 rhoR_2_0 rhoR_2_1 rhoR_3_0 rhoR_3_1 rhoR_4_0 rhoR_4_1 ff_0 ff_1 ff0_1_0 ff0_1_1 ff0_2_0 ff0_2_1 ff0_3_0 ff0_3_1 ff0_4_0 ff0_4_1
  refine ⟨?_, ?_, ?_, ?_⟩ <;>
  · simp only [relFormHat24_00, relFormHat24_01, relFormHat24_10, relFormHat24_11, relTh2_00, relTh2_01, relTh2_10, relTh2_11, relT2_den1]
    rw [hs]
    try ring

/-- **`formulate(2, 4)`, relativistic: unitary and symmetric** for real parameters, under the guard that all phase-space factors (at `s` and at every pole mass) are real and positive. -/
theorem relForm24_unitary_symmetric (hGamma_1_0 : 0 ≤ Gamma_1_0) (hGamma_1_1 : 0 ≤ Gamma_1_1) (hGamma_2_0 : 0 ≤ Gamma_2_0) (hGamma_2_1 : 0 ≤ Gamma_2_1) (hGamma_3_0 : 0 ≤ Gamma_3_0) (hGamma_3_1 : 0 ≤ Gamma_3_1) (hGamma_4_0 : 0 ≤ Gamma_4_0) (hGamma_4_1 : 0 ≤ Gamma_4_1) (hrho0 : 0 < rho0) (hrho1 : 0 < rho1) (hrhoR_1_0 : 0 < rhoR_1_0) (hrhoR_1_1 : 0 < rhoR_1_1) (hrhoR_2_0 : 0 < rhoR_2_0) (hrhoR_2_1 : 0 < rhoR_2_1) (hrhoR_3_0 : 0 < rhoR_3_0) (hrhoR_3_1 : 0 < rhoR_3_1) (hrhoR_4_0 : 0 < rhoR_4_0) (hrhoR_4_1 : 0 < rhoR_4_1) :
    (1 + (2 * Complex.I) • (!![F00, F01; F10, F11] : Matrix (Fin 2) (Fin 2) ℂ))ᴴ * (1 + (2 * Complex.I) • (!![F00, F01; F10, F11] : Matrix (Fin 2) (Fin 2) ℂ)) = 1
      ∧ (!![F00, F01; F10, F11] : Matrix (Fin 2) (Fin 2) ℂ)ᵀ = (!![F00, F01; F10, F11] : Matrix (Fin 2) (Fin 2) ℂ) := by
  obtain ⟨r00, r01, r10, r11⟩ := relK24_real s m_1 m_2 m_3 m_4 Gamma_1_0 Gamma_1_1 Gamma_2_0 Gamma_2_1 Gamma_3_0 Gamma_3_1 Gamma_4_0 Gamma_4_1 gamma_1_0 gamma_1_1 gamma_2_0 gamma_2_1 gamma_3_0 gamma_3_1 gamma_4_0 gamma_4_1 rho0 rho1 rhoR_1_0 rhoR_1_1 rhoR_2_0 rhoR_2_1 rhoR_3_0 rhoR_3_1 rhoR_4_0 rhoR_4_1 ff_0 ff_1 ff0_1_0 ff0_1_1 ff0_2_0 ff0_2_1 ff0_3_0 ff0_3_1 ff0_4_0 ff0_4_1 hGamma_1_0 hGamma_1_1 hGamma_2_0 hGamma_2_1 hGamma_3_0 hGamma_3_1 hGamma_4_0 hGamma_4_1 hrho0 hrho1 hrhoR_1_0 hrhoR_1_1 hrhoR_2_0 hrhoR_2_1 hrhoR_3_0 hrhoR_3_1 hrhoR_4_0 hrhoR_4_1
  have hs := relK24_symm s m_1 m_2 m_3 m_4 Gamma_1_0 Gamma_1_1 Gamma_2_0 Gamma_2_1 Gamma_3_0 Gamma_3_1 Gamma_4_0 Gamma_4_1 gamma_1_0 gamma_1_1 gamma_2_0 gamma_2_1 gamma_3_0 gamma_3_1 gamma_4_0 gamma_4_1 rho0 rho1 rhoR_1_0 rhoR_1_1 rhoR_2_0 rhoR_2_1 rhoR_3_0 rhoR_3_1 rhoR_4_0 rhoR_4_1 ff_0 ff_1 ff0_1_0 ff0_1_1 ff0_2_0 ff0_2_1 ff0_3_0 ff0_3_1 ff0_4_0 ff0_4_1
  obtain ⟨hH, hT⟩ := herm2 r00 r01 r11 hs
  obtain ⟨e00, e01, e10, e11⟩ := relForm24_eq s m_1 m_2 m_3 m_4 Gamma_1_0 Gamma_1_1 Gamma_2_0 Gamma_2_1 Gamma_3_0 Gamma_3_1 Gamma_4_0 Gamma_4_1 gamma_1_0 gamma_1_1 gamma_2_0 gamma_2_1 gamma_3_0 gamma_3_1 gamma_4_0 gamma_4_1 rho0 rho1 rhoR_1_0 rhoR_1_1 rhoR_2_0 rhoR_2_1 rhoR_3_0 rhoR_3_1 rhoR_4_0 rhoR_4_1 ff_0 ff_1 ff0_1_0 ff0_1_1 ff0_2_0 ff0_2_1 ff0_3_0 ff0_3_1 ff0_4_0 ff0_4_1
  have hM : (!![F00, F01; F10, F11] : Matrix (Fin 2) (Fin 2) ℂ) = relT2M (fun i => (((![rho0, rho1] : Fin 2 → ℝ) i : ℝ) : ℂ)) !![K00, K01; K10, K11] := by
    rw [e00, e01, e10, e11]
    ext i j; fin_cases i <;> fin_cases j <;> simp [relT2M]
  rw [hM]
  exact relT2M_unitary_symmetric _ (by intro i; fin_cases i <;> simpa) _ hH hT

end REL24

end Ampverif.Props.C09P34
