/-
C03 — the object of the all-spin Clebsch–Gordan mirror theorem (`Lemmas.C03CG.racah`, Racah's closed
formula) IS the coefficient SymPy computes, exactly, on the whole regenerated table.

Without this tie `C03_cg_parity_all_spins` would be a theorem about a formula whose relation to the
library's `CG(...)` values is only a numeric 1e-12 comparison of a Python transcription. Here the Lean
definition itself is evaluated in the kernel (exact rationals: `racah = sign·√(A·B·S²)`,
`racah_eq_exact`, ALL arguments) and compared with the table regenerated from the installed SymPy on
every admissible key with `2j₁, 2j₂ ≤ 6` — 49 blocks, every `(m₁, m₂, J)`, absent keys read as 0.
-/
import Ampverif.Lemmas.C03RacahBlocks

namespace Ampverif.Props.C03Racah
open Ampverif.Model.C03CG Ampverif.Lemmas.C03CG Ampverif.Gen.C03CG

/-- **Racah's formula, exactly** (all arguments): `racah = sign · √sq` with the executable rational
`racahSign`, `racahSq`. -/
theorem C03_racah_exact (j1 : Nat) (m1 : Int) (j2 : Nat) (m2 : Int) (J : Nat) (M : Int) :
    racah j1 m1 j2 m2 J M
      = ((racahSign j1 m1 j2 m2 J M : Int) : ℝ) * Real.sqrt ((racahSq j1 m1 j2 m2 J M : ℚ) : ℝ) :=
  racah_eq_exact j1 m1 j2 m2 J M

/-- **Racah's formula = SymPy's Clebsch–Gordan table** on every admissible key within the table's spin
bound (`2j₁, 2j₂ ≤ maxSpin2`): `m₁ = 2a − j₁ (a ≤ j₁)`, `m₂ = 2b − j₂ (b ≤ j₂)`,
`J = |j₁−j₂| + 2c (c ≤ min j₁ j₂)`, `M = m₁ + m₂` (everything doubled). Table-bounded (`_partial` in
the spin bound only). -/
theorem C03_racah_is_sympy_cg_partial (j1 j2 a b c : Nat) (h1 : j1 ≤ maxSpin2) (h2 : j2 ≤ maxSpin2)
    (ha : a ≤ j1) (hb : b ≤ j2) (hc : c ≤ min j1 j2) :
    racah j1 (2 * (a : Int) - j1) j2 (2 * (b : Int) - j2) ((max j1 j2 - min j1 j2) + 2 * c)
        ((2 * (a : Int) - j1) + (2 * (b : Int) - j2))
      = cg table j1 (2 * (a : Int) - j1) j2 (2 * (b : Int) - j2) ((max j1 j2 - min j1 j2) + 2 * c)
          ((2 * (a : Int) - j1) + (2 * (b : Int) - j2)) :=
  Ampverif.Lemmas.C03RacahBlocks.racah_eq_table j1 j2 a b c h1 h2 ha hb hc

/-- Non-vacuity: `⟨1 0; 1 0 | 2 0⟩ = √(2/3)` (doubled arguments `2,0,2,0,4,0`) read from the table and
reproduced by the formula's exact twin. -/
example :
    table.get ⟨2, 0, 2, 0, 4, 0⟩ = ⟨1, 2, 3⟩
    ∧ racahSign 2 0 2 0 4 0 = 1 ∧ racahSq 2 0 2 0 4 0 = 2 / 3 := by
  decide +kernel

end Ampverif.Props.C03Racah
