/-
C10 — call HISTORIES: `formulate` stays the pure function of its arguments that the property
quantifies over, whatever was formulated before in the same process.

Model: `Model/C10History.lean` (a call consults a process-global expression cache keyed on
`(L, d, κ factor)`; the stored energy-dependent widths carry the factor OBJECT of the call that
stored them). Tie: `tools/corr/C10_history.py` drives the real classes and the model's driver through
the same seeded histories on every run and compares the skeletons call by call.

* `history_pure` — for EVERY key function `κ` that is injective on factor objects and every history,
  starting from any cache that `κ` itself filled: call `k` returns what a fresh process returns for
  the arguments of call `k` (the cache is transparent).
* `history_honours` — … hence every energy-dependent width / form factor / phase-space node of every
  call of the history carries exactly the factor object, `L` and radius passed to THAT call.
* `qualname_key_witness` — the key "qualified name" is not injective (two closures of one factory):
  kernel-checked two-call history whose second result differs from the fresh one and contains a
  width carrying a factor that was not passed (`qualname_key_dishonours`).
-/
import Ampverif.Lemmas.C10History

namespace Ampverif.Props.C10History
open Ampverif.C10History Ampverif.Lemmas.C10History

/-- **Purity over histories.** With a key that is injective on factor objects, every call of every
history in one process returns exactly what a fresh process returns for that call's arguments. -/
theorem history_pure {α : Type} [DecidableEq α] (κ : Factor → α) (hκ : ∀ f g, κ f = κ g → f = g)
    (hist : List Args) (c : List (Entry α)) (hc : CacheOk κ c) :
    (run κ c hist).1 = fresh hist := by
  induction hist generalizing c with
  | nil => rfl
  | cons a rest ih =>
    have h := call_pure κ hκ c hc a
    simp only [run, fresh, List.map_cons]
    rw [h.1]
    have := ih (call κ c a).2 h.2
    simp only [fresh] at this
    rw [this]

/-- The clean tree's key (the factor object itself), from the empty cache of a new process. -/
theorem history_pure_identity (hist : List Args) : (run id [] hist).1 = fresh hist :=
  history_pure id (fun _ _ h => h) hist [] (cacheOk_nil id)

/-- …so the result of call `k` depends only on the arguments of call `k`. -/
theorem history_call_k (hist : List Args) (k : Nat) (hk : k < hist.length) :
    (run id [] hist).1[k]? = some (freshOut hist[k]) := by
  rw [history_pure_identity]
  simp [fresh, hk]

/-- The fresh result honours its arguments: every width carries the factor OBJECT, angular momentum
and radius of the call; every form factor its `L` and radius; every phase-space node is the node
of the passed factor. -/
theorem fresh_honours (a : Args) : ∀ it ∈ (freshOut a).items, it.honours a = true := by
  intro it hit
  unfold freshOut out at hit
  simp only at hit
  split at hit
  · rcases List.mem_append.mp hit with h | h
    · rcases List.mem_append.mp h with h | h
      · unfold widthItems at h
        rcases List.mem_flatMap.mp h with ⟨r, _, h2⟩
        rcases List.mem_map.mp h2 with ⟨i, _, rfl⟩
        simp [Item.honours]
      · unfold rhoItems at h
        split at h
        · cases h
        · rename_i n hn
          rcases List.mem_map.mp h with ⟨i, _, rfl⟩
          simp [Item.honours, hn]
    · unfold ffItems at h
      split at h
      · rcases List.mem_map.mp h with ⟨i, _, rfl⟩
        simp [Item.honours]
      · cases h
  · cases hit

/-- **Honouring over histories**: in every call of every history, only the factor object / `L` /
radius passed to THAT call occurs. -/
theorem history_honours (hist : List Args) (k : Nat) (hk : k < hist.length) :
    ∃ o, (run id [] hist).1[k]? = some o ∧ ∀ it ∈ o.items, it.honours hist[k] = true :=
  ⟨freshOut hist[k], history_call_k hist k hk, fresh_honours hist[k]⟩

/-- Coverage of the fresh result: a parametrised relativistic result has a width for every
pole × channel (so "only the passed factor occurs" is not vacuous). -/
theorem fresh_covers (a : Args) (hr : a.cls.relativistic = true) (hp : a.parametrize = true)
    (r i : Nat) (hrp : r < a.nPoles) (hi : i < a.nChannels) :
    Item.width (r + 1) i a.phsp a.angMom a.radius ∈ (freshOut a).items := by
  unfold freshOut out
  simp only [hr, hp, Bool.and_self, if_true]
  apply List.mem_append_left
  apply List.mem_append_left
  unfold widthItems
  exact List.mem_flatMap.mpr ⟨r, List.mem_range.mpr hrp, List.mem_map.mpr ⟨i, List.mem_range.mpr hi, rfl⟩⟩

/-! ### The defect class: a key that does not determine the object -/

/-- Two closures returned by one factory: different objects, one qualified name. -/
def closure1 : Factor := ⟨1, 7, none⟩
def closure2 : Factor := ⟨2, 7, none⟩

def witnessHistory : List Args :=
  [⟨Cls.relP, 2, 2, true, false, closure1, 0, 1⟩, ⟨Cls.relP, 2, 2, true, false, closure2, 0, 1⟩]

/-- With the qualified name as key, the second call of the history does not return what a fresh
process returns (replayable on the real code: the history oracle of `tools/corr/C10_history.py`). -/
theorem qualname_key_witness : (run Factor.qual [] witnessHistory).1 ≠ fresh witnessHistory := by
  decide

/-- …its widths carry the factor of the FIRST call — a factor the caller did not pass. -/
theorem qualname_key_dishonours :
    ∃ o, (run Factor.qual [] witnessHistory).1[1]? = some o ∧
      o.items.any (fun it => !it.honours ⟨Cls.relP, 2, 2, true, false, closure2, 0, 1⟩) = true := by
  refine ⟨_, rfl, ?_⟩
  decide

/-- Different angular momentum or radius: the same two closures do not meet in the cache. -/
theorem qualname_key_needs_same_L_d :
    (run Factor.qual [] [⟨Cls.relP, 2, 2, true, false, closure1, 0, 1⟩,
        ⟨Cls.relP, 2, 2, true, false, closure2, 1, 1⟩]).1
      = fresh [⟨Cls.relP, 2, 2, true, false, closure1, 0, 1⟩, ⟨Cls.relP, 2, 2, true, false, closure2, 1, 1⟩] := by
  decide

example : (run id [] witnessHistory).1 = fresh witnessHistory := by decide

example : ((run id [] witnessHistory).1.map (·.items.length)) = [6, 6] := by decide

end Ampverif.Props.C10History
