/-
C07 — kinematic variables mean what their names say, in every topology.

The theorems are about the topology model M2 (`Ampverif/Model/Topology.lean`, a line-by-line mirror
of decay.py / naming.py / lorentz.py / angles.py / kinematics/__init__.py that every run compares
with the real code on all isobar topologies and all permutations) and about `Ampverif.Gen.C07.*`,
which is REGENERATED from the source on every run. Only property theorems and non-vacuity
examples live here; helper lemmas are in `Ampverif/Lemmas/C07*.lean`.

A DESCRIPTOR says what a symbol is computed from: a mass is `InvariantMass(Σ_{i∈ids} p_i)`; an
angle pair is `Phi/Theta` of `Σ_{i∈target} p_i` after boosting successively into the subsystems of
`chain` (each boost being `Bz(β)·Ry(−θ)·Rz(−φ)` of the subsystem's momentum in the previous
frame). Hypotheses that are forced:
* `WF top`            — edge ids pairwise distinct (they are dict keys in qrules);
* `DigitIds top.leaves` — final-state ids are single decimal digits: the names concatenate decimal
  digits, so with an id ≥ 10 the name `m_112` is ambiguous. Only the theorems that read a name
  back need it.
-/
import Ampverif.Lemmas.C07Angles
import Ampverif.Gen.C07
import Mathlib.Analysis.Real.Sqrt
import Mathlib.Tactic.Ring
import Mathlib.Tactic.Linarith
import Mathlib.Tactic.Positivity
import Mathlib.Tactic.FieldSimp
import Mathlib.Analysis.SpecialFunctions.Complex.Arg
import Mathlib.Analysis.SpecialFunctions.Trigonometric.Inverse

set_option linter.unusedSimpArgs false
set_option linter.unusedVariables false

namespace Ampverif.Props.C07
open Ampverif.Model.Topology Ampverif.Lemmas.C07

/-! ## Masses -/

/-- For EVERY decay tree and every edge `s` of it: the id-addressed functions of the model
(`determine_attached_final_state`, `get_invariant_mass_symbol`) return the final states below the
edge — a sorted permutation of the leaves of the subtree — and the name `m_<digits>` built from
them; reading the digits of the name back gives exactly that set. So `m_S` denotes
`InvariantMass(Σ_{i∈S} p_i)` with `S` the attached final states. -/
theorem C07_mass (top : Tree) (hw : WF top) (hd : DigitIds top.leaves) :
    ∀ s ∈ top.subtrees,
      determineAttached top s.id = .ok s.attached ∧
      massName top s.id = .ok (massNameOf s.attached) ∧
      parseMassName (massNameOf s.attached) = s.attached ∧
      s.attached.Perm s.leaves ∧ s.attached.Pairwise (· ≤ ·) := by
  intro s hs
  obtain ⟨anc, hat⟩ := exists_at_of_mem_subtrees hs
  have h1 := determineAttached_at hw hat
  have hds : DigitIds s.attached :=
    digitIds_attached (fun x hx => hd x (subtree_leaves_subset hs x hx))
  refine ⟨h1, ?_, ?_, attached_perm s, attached_sorted s⟩
  · simp [massName, h1, massNameOf]
  · have := parse_massName (ids := s.attached) (by rw [sortInts_attached]; exact hds)
    rw [sortInts_attached] at this
    exact this

/-- every entry of the dictionary returned by `compute_invariant_masses` (any iteration order of
`topology.edges`) is `m_S ↦ InvariantMass(Σ_{i∈S} p_i)` for the final states `S` below an edge -/
theorem C07_mass_dict (top : Tree) (order : List Int) :
    ∀ kv ∈ invariantMasses top order,
      ∃ s ∈ top.subtrees, kv = (massNameOf s.attached, Def.mass s.attached) := by
  intro kv hkv
  rcases mem_dictUpdate _ _ kv hkv with h | h
  · cases h
  · simp only [massWrites, List.mem_filterMap] at h
    obtain ⟨e, _, he⟩ := h
    unfold determineAttached massName determineAttached at he
    cases hf : find? top e with
    | none => simp [hf] at he
    | some s =>
      simp [hf] at he
      exact ⟨s, find_mem_subtrees hf, by rw [← he]; simp [massNameOf]⟩

/-! ## Angles -/

/-- Helicity angles, for EVERY decay tree (hence every labelling of its edges).

(a) With the angles sourced from the helicity state the assignments of the recursion are EXACTLY
the documented ones: one pair per decay node, named `_{H}^{…}` after the helicity child `H` (the
child with the smaller sorted id tuple) and the subsystems above it from the nearest to the
farthest (initial state left out), computed in the helicity frame reached by boosting successively
through those subsystems from the outermost inwards, and measuring the momentum of `H`.

(b) The pinned source gives every decay node its symbols with the documented name and the
documented chain of frames; the measured momentum is that of `H`, or — only in the
opposite-helicity branch — that of the DECAYING opposite-helicity child.  -/
theorem C07_angles (top : Tree) (hw : WF top) :
    (∀ v : Variant, v.angleSource = .helicityState →
        ∀ w, w ∈ angleWrites v top ↔ w ∈ docAngles [] top) ∧
    (∀ w ∈ angleWrites Variant.pinned top, ∃ n ∈ nodesOf [] top, WriteOf Variant.pinned n w) ∧
    (∀ n ∈ nodesOf [] top, ∃ w ∈ angleWrites Variant.pinned top, WriteOf Variant.pinned n w) := by
  have hdk := distinctKids_of_wf hw
  refine ⟨?_, ?_, ?_⟩
  · intro v hv w
    rw [angleWrites_eq_spec v hw]
    constructor
    · intro h
      obtain ⟨n, hn, hwn⟩ := spec_sound v top [] hdk w h
      rw [writeOf_documented hv hwn]
      exact List.mem_map.2 ⟨n, hn, rfl⟩
    · intro h
      obtain ⟨n, hn, rfl⟩ := List.mem_map.1 h
      obtain ⟨w', hw', _, hdoc⟩ := spec_complete v top [] hdk n hn
      rw [← hdoc hv]; exact hw'
  · intro w h
    rw [angleWrites_eq_spec _ hw] at h
    exact spec_sound _ top [] hdk w h
  · intro n hn
    obtain ⟨w, hw', hwo, _⟩ := spec_complete Variant.pinned top [] hdk n hn
    exact ⟨w, by rw [angleWrites_eq_spec _ hw]; exact hw', hwo⟩

/-! ## One name, one meaning -/

/-- a name determines its descriptor across any two topologies with the same final states -/
def NameDeterminesDescriptor (v : Variant) : Prop :=
  ∀ t1 t2 : Tree, WF t1 → WF t2 → DigitIds t1.leaves → DigitIds t2.leaves →
    t1.attached = t2.attached →
    ∀ w1 ∈ angleWrites v t1, ∀ w2 ∈ angleWrites v t2, w1.suffix = w2.suffix → w1.desc = w2.desc

/-- With the angles sourced from the helicity state a name determines its descriptor, across any
set of topologies (ids < 10). -/
theorem C07_injective (v : Variant) (hv : v.angleSource = .helicityState) :
    NameDeterminesDescriptor v := by
  intro t1 t2 h1 h2 d1 d2 _ w1 m1 w2 m2 e
  obtain ⟨n1, _, n2, _, o1, o2, k1, k2⟩ := same_name_nodes h1 h2 d1 d2 m1 m2 e
  rw [writeOf_documented hv o1, writeOf_documented hv o2]
  simp [docWrite, k2]
  exact k1

/-- … and therefore `HelicityAdapter.create_expressions()` does not depend on the iteration order
of its topology set: the merged dictionary gives every name (angles and masses) the definition
that EVERY registered topology gives it. -/
theorem C07_merge_consistent (v : Variant) (hv : v.angleSource = .helicityState)
    (tops : List (Tree × List Int))
    (hw : ∀ t ∈ tops, WF t.1 ∧ DigitIds t.1.leaves) (hfs : ∀ t ∈ tops, ∀ t' ∈ tops, t.1.attached = t'.1.attached) :
    ∀ kv ∈ createExpressions v tops, ∀ t ∈ tops, ∀ kv' ∈ topologyWrites v t.1 t.2,
      kv'.1 = kv.1 → kv'.2 = kv.2 := by
  -- any two entries of (possibly different) topologies with the same key have the same value
  have key : ∀ t ∈ tops, ∀ t' ∈ tops, ∀ kv ∈ topologyWrites v t.1 t.2,
      ∀ kv' ∈ topologyWrites v t'.1 t'.2, kv'.1 = kv.1 → kv'.2 = kv.2 := by
    intro t ht t' ht' kv hkv kv' hkv' e
    obtain ⟨w1, dd1⟩ := hw t ht
    obtain ⟨w2, dd2⟩ := hw t' ht'
    have classify : ∀ (tr : Tree) (o : List Int) (x : List Char × Def), x ∈ topologyWrites v tr o →
        (∃ w ∈ angleWrites v tr, x = (['p', 'h', 'i'] ++ w.suffix, Def.phi w.desc) ∨
                                 x = (['t', 'h', 'e', 't', 'a'] ++ w.suffix, Def.theta w.desc)) ∨
        (∃ s ∈ tr.subtrees, x = (massNameOf s.attached, Def.mass s.attached)) := by
      intro tr o x hx
      simp only [topologyWrites, List.mem_append] at hx
      rcases hx with hx | hx
      · left
        rcases mem_dictUpdate _ _ x hx with h | h
        · cases h
        · simp only [helicityAngles, List.mem_flatMap, Write.entries] at h
          obtain ⟨w, hwm, hx⟩ := h
          simp at hx
          exact ⟨w, hwm, hx⟩
      · right; exact C07_mass_dict tr o x hx
    rcases classify _ _ kv hkv with ⟨wa, hwa, hk⟩ | ⟨sa, hsa, hk⟩ <;>
      rcases classify _ _ kv' hkv' with ⟨wb, hwb, hk'⟩ | ⟨sb, hsb, hk'⟩
    · have inj := C07_injective v hv t.1 t'.1 w1 w2 dd1 dd2 (hfs t ht t' ht') wa hwa wb hwb
      rcases hk with rfl | rfl <;> rcases hk' with rfl | rfl
      · simp at e; simp [inj e.symm]
      · simp at e
      · simp at e
      · simp at e; simp [inj e.symm]
    · rcases hk with rfl | rfl <;> (subst hk'; simp [massNameOf] at e)
    · rcases hk' with rfl | rfl <;> (subst hk; simp [massNameOf] at e)
    · subst hk; subst hk'
      simp only [massNameOf, List.append_cancel_left_eq] at e
      have da : DigitIds sa.attached :=
        digitIds_attached (fun x hx => dd1 x (subtree_leaves_subset hsa x hx))
      have db : DigitIds sb.attached :=
        digitIds_attached (fun x hx => dd2 x (subtree_leaves_subset hsb x hx))
      rw [sortInts_attached, sortInts_attached] at e
      have := concatDigits_inj db da e
      simp [this]
  intro kv hkv t ht kv' hkv' e
  rcases mem_createExpressions v tops [] kv hkv with h | ⟨t0, ht0, h⟩
  · cases h
  · exact key t0 ht0 t ht kv h kv' hkv' e

/-! ## The pinned source: witness and what still holds -/

/-- two isomorphic two-resonance four-body topologies of the permuted set, as qrules has them;
they differ only in which intermediate edge carries id 4 and which id 5 -/
def witnessA : Topo := ⟨[⟨-1, none, some 0⟩, ⟨0, some 1, none⟩, ⟨1, some 2, none⟩, ⟨2, some 2, none⟩,
  ⟨3, some 1, none⟩, ⟨4, some 0, some 1⟩, ⟨5, some 0, some 2⟩]⟩
def witnessB : Topo := ⟨[⟨-1, none, some 0⟩, ⟨0, some 2, none⟩, ⟨1, some 1, none⟩, ⟨2, some 1, none⟩,
  ⟨3, some 2, none⟩, ⟨4, some 0, some 1⟩, ⟨5, some 0, some 2⟩]⟩
def treeA : Tree := .node (-1) (.node 4 (.leaf 0) (.leaf 3)) (.node 5 (.leaf 1) (.leaf 2))
def treeB : Tree := .node (-1) (.node 4 (.leaf 1) (.leaf 2)) (.node 5 (.leaf 0) (.leaf 3))

/-- The pinned source (`angleSource = decaying`): `phi_03` is `Φ(p1+p2)` in one topology and
`Φ(p0+p3)` in an isomorphic one with the same final states; a name does NOT determine its
descriptor. (Replayable: these are two of the 18 permuted four-body topologies.) -/
theorem C07_witness_collision :
    witnessA.toTree = .ok treeA ∧ witnessB.toTree = .ok treeB ∧
    dictGet? (helicityAngles Variant.pinned treeA) ['p', 'h', 'i', '_', '0', '3']
      = some (.phi ⟨[], [1, 2]⟩) ∧
    dictGet? (helicityAngles Variant.pinned treeB) ['p', 'h', 'i', '_', '0', '3']
      = some (.phi ⟨[], [0, 3]⟩) ∧
    ¬ NameDeterminesDescriptor Variant.pinned := by
  refine ⟨by decide, by decide, by decide, by decide, ?_⟩
  intro h
  have := h treeA treeB (by decide) (by decide) (by decide) (by decide) (by decide)
    ⟨['_', '0', '3'], ⟨[], [1, 2]⟩⟩ (by decide) ⟨['_', '0', '3'], ⟨[], [0, 3]⟩⟩ (by decide) rfl
  exact absurd this (by decide)

/-- the same two topologies with the angles sourced from the helicity state: both `Φ(p0+p3)` -/
theorem C07_witness_repaired :
    dictGet? (helicityAngles Variant.documented treeA) ['p', 'h', 'i', '_', '0', '3']
      = some (.phi ⟨[], [0, 3]⟩) ∧
    dictGet? (helicityAngles Variant.documented treeB) ['p', 'h', 'i', '_', '0', '3']
      = some (.phi ⟨[], [0, 3]⟩) := by
  refine ⟨by decide, by decide⟩

/-- the unrestricted statement for the pinned source — NOT a theorem: `C07_witness_collision`
refutes it; kept visible, the proved part is `C07_partial` -/
def C07_full_statement : Prop := NameDeterminesDescriptor Variant.pinned

/-- The full statement for the pinned source is false (`C07_witness_collision`); what holds:
among topologies WITHOUT a decay node whose two children both decay, a name determines its
descriptor also with the pinned source. (Cascades of any length qualify; the two-resonance
four-body trees do not.) -/
theorem C07_partial (t1 t2 : Tree) (h1 : WF t1) (h2 : WF t2) (d1 : DigitIds t1.leaves)
    (d2 : DigitIds t2.leaves) (hfs : t1.attached = t2.attached)
    (nd1 : NoDoubleDecay t1) (nd2 : NoDoubleDecay t2) :
    ∀ w1 ∈ angleWrites Variant.pinned t1, ∀ w2 ∈ angleWrites Variant.pinned t2,
      w1.suffix = w2.suffix → w1.desc = w2.desc := by
  intro w1 m1 w2 m2 e
  obtain ⟨n1, hn1, n2, hn2, o1, o2, k1, k2⟩ := same_name_nodes h1 h2 d1 d2 m1 m2 e
  -- the decaying subsystem is the same, hence so is the opposite-helicity child
  obtain ⟨r1, f1, g1⟩ := nodesOf_frame t1 [] n1 hn1
  obtain ⟨r2, f2, g2⟩ := nodesOf_frame t2 [] n2 hn2
  simp only [List.nil_append] at f1 f2
  have hr : r1 = r2 := by rw [← f1, ← f2, k2]
  have hframe : sortInts (n1.2.1.leaves ++ n1.2.2.leaves) = sortInts (n2.2.1.leaves ++ n2.2.2.leaves) := by
    rw [g1, g2, hr, hfs]
  have p1 := hel_opp_perm n1
  have p2 := hel_opp_perm n2
  rw [hframe, k1] at p1
  have po : (NodeCtx.opp n1).attached.Perm (NodeCtx.opp n2).attached :=
    (List.perm_append_left_iff _).1 (p1.trans p2.symm)
  have sorted_opp : ∀ n : NodeCtx, n.opp.attached.Pairwise (· ≤ ·) := fun n => attached_sorted _
  have ko : (NodeCtx.opp n1).attached = (NodeCtx.opp n2).attached := sorted_perm_eq (sorted_opp n1) (sorted_opp n2) po
  -- leaf-ness of the opposite child is visible in its set of final states
  have leaf_iff : (NodeCtx.opp n1).isLeaf = (NodeCtx.opp n2).isLeaf := by
    cases hl1 : (NodeCtx.opp n1).isLeaf <;> cases hl2 : (NodeCtx.opp n2).isLeaf <;> try rfl
    · have a := attached_length_node hl1
      have b := attached_length_leaf hl2
      rw [ko] at a; omega
    · have a := attached_length_leaf hl1
      have b := attached_length_node hl2
      rw [ko] at a; omega
  have x1 := hel_opp_leaf_cases n1 (nodesOf_noDouble t1 [] nd1 n1 hn1)
  have x2 := hel_opp_leaf_cases n2 (nodesOf_noDouble t2 [] nd2 n2 hn2)
  obtain ⟨_, c1, s1⟩ := o1
  obtain ⟨_, c2, s2⟩ := o2
  have hchain : w1.desc.chain = w2.desc.chain := by rw [c1, c2, k2]
  have htarget : w1.desc.target = w2.desc.target := by
    rcases s1 with ⟨ta, ca⟩ | ⟨_, ta, ca⟩ <;> rcases s2 with ⟨tb, cb⟩ | ⟨_, tb, cb⟩
    · rw [ta, tb, k1]
    · -- w1 measures H (so O1 is a leaf), w2 measures the decaying O2: impossible
      exfalso
      have hO1 : (NodeCtx.opp n1).isLeaf = true := by
        rcases ca with ca | ca | ca
        · cases ca
        · exact ca
        · rcases x1 with x | x
          · rw [x] at ca; cases ca
          · exact x
      rw [leaf_iff, cb] at hO1; cases hO1
    · exfalso
      have hO2 : (NodeCtx.opp n2).isLeaf = true := by
        rcases cb with cb | cb | cb
        · cases cb
        · exact cb
        · rcases x2 with x | x
          · rw [x] at cb; cases cb
          · exact x
      rw [← leaf_iff, ca] at hO2; cases hO2
    · rw [ta, tb, ko]
  cases hw1 : w1.desc with | mk ch1 tg1 =>
  cases hw2 : w2.desc with | mk ch2 tg2 =>
  rw [hw1, hw2] at hchain htarget
  simp only at hchain htarget
  rw [hchain, htarget]

/-! ## `InvariantMass` (regenerated) is the Minkowski norm -/

open Ampverif.Gen.C07 in
/-- The unfolding of `InvariantMass(p0 + p1)` — through `Energy`, `ThreeMomentum`, `EuclideanNorm`
and `ComplexSqrt` — is `√(E² − |p⃗|²)` of the summed momentum for time-like (or light-like) sums:
real part the root, imaginary part 0; and it is built from the regenerated `Energy` and
`EuclideanNorm(ThreeMomentum(·))`. -/
theorem C07_norm (E0 x0 y0 z0 E1 x1 y1 z1 : ℝ)
    (h : (x0 + x1) ^ 2 + (y0 + y1) ^ 2 + (z0 + z1) ^ 2 ≤ (E0 + E1) ^ 2) :
    invMassRe E0 x0 y0 z0 E1 x1 y1 z1
        = Real.sqrt ((E0 + E1) ^ 2 - ((x0 + x1) ^ 2 + (y0 + y1) ^ 2 + (z0 + z1) ^ 2)) ∧
    invMassIm E0 x0 y0 z0 E1 x1 y1 z1 = 0 ∧
    invMassRe E0 x0 y0 z0 E1 x1 y1 z1
        = Real.sqrt (energy E0 x0 y0 z0 E1 x1 y1 z1 ^ 2 - normP E0 x0 y0 z0 E1 x1 y1 z1 ^ 2) := by
  have hc : ¬ ((-1 : ℝ) * (E0 + E1) ^ 2 + ((x0 + x1) ^ 2 + (y0 + y1) ^ 2 + (z0 + z1) ^ 2) > 0) := by
    intro hh; linarith
  have hn : (0 : ℝ) ≤ (x0 + x1) ^ 2 + (y0 + y1) ^ 2 + (z0 + z1) ^ 2 := by positivity
  refine ⟨?_, ?_, ?_⟩
  · unfold invMassRe
    rw [if_neg hc]
    congr 1; ring
  · unfold invMassIm
    rw [if_neg hc]
  · unfold invMassRe energy normP
    rw [if_neg hc, Real.sq_sqrt hn]
    congr 1; ring

open Ampverif.Gen.C07 in
/-- space-like sums: purely imaginary, `i·√(|p⃗|² − E²)` (the `ComplexSqrt` branch) -/
theorem C07_norm_spacelike (E0 x0 y0 z0 E1 x1 y1 z1 : ℝ)
    (h : (E0 + E1) ^ 2 < (x0 + x1) ^ 2 + (y0 + y1) ^ 2 + (z0 + z1) ^ 2) :
    invMassRe E0 x0 y0 z0 E1 x1 y1 z1 = 0 ∧
    invMassIm E0 x0 y0 z0 E1 x1 y1 z1
        = Real.sqrt (((x0 + x1) ^ 2 + (y0 + y1) ^ 2 + (z0 + z1) ^ 2) - (E0 + E1) ^ 2) := by
  have hc : (-1 : ℝ) * (E0 + E1) ^ 2 + ((x0 + x1) ^ 2 + (y0 + y1) ^ 2 + (z0 + z1) ^ 2) > 0 := by
    linarith
  refine ⟨?_, ?_⟩
  · unfold invMassRe; rw [if_pos hc]
  · unfold invMassIm; rw [if_pos hc]; congr 1; ring

/-! ## `Theta` and `Phi` (regenerated) are the polar and the azimuthal angle -/

open Ampverif.Gen.C07 in
/-- The unfolding of `Theta(p0 + p1)` is `arccos(p_z/|p⃗|)`: it lies in `[0, π]`, and for `p⃗ ≠ 0`
`|p⃗| cos θ = p_z`, `|p⃗| sin θ = p_T` (the transverse momentum `√(p_x²+p_y²)`). -/
theorem C07_theta_polar (E0 x0 y0 z0 E1 x1 y1 z1 : ℝ)
    (hp : 0 < (x0 + x1) ^ 2 + (y0 + y1) ^ 2 + (z0 + z1) ^ 2) :
    theta E0 x0 y0 z0 E1 x1 y1 z1
        = Real.arccos ((z0 + z1) / Real.sqrt ((x0 + x1) ^ 2 + (y0 + y1) ^ 2 + (z0 + z1) ^ 2)) ∧
    0 ≤ theta E0 x0 y0 z0 E1 x1 y1 z1 ∧ theta E0 x0 y0 z0 E1 x1 y1 z1 ≤ Real.pi ∧
    Real.sqrt ((x0 + x1) ^ 2 + (y0 + y1) ^ 2 + (z0 + z1) ^ 2) * Real.cos (theta E0 x0 y0 z0 E1 x1 y1 z1)
        = z0 + z1 ∧
    Real.sqrt ((x0 + x1) ^ 2 + (y0 + y1) ^ 2 + (z0 + z1) ^ 2) * Real.sin (theta E0 x0 y0 z0 E1 x1 y1 z1)
        = Real.sqrt ((x0 + x1) ^ 2 + (y0 + y1) ^ 2) := by
  set X := x0 + x1
  set Y := y0 + y1
  set Z := z0 + z1
  set n := Real.sqrt (X ^ 2 + Y ^ 2 + Z ^ 2) with hn
  have n0 : 0 < n := Real.sqrt_pos.2 hp
  have nsq : n ^ 2 = X ^ 2 + Y ^ 2 + Z ^ 2 := Real.sq_sqrt hp.le
  have hdef : theta E0 x0 y0 z0 E1 x1 y1 z1 = Real.arccos (Z / n) := by
    unfold theta; congr 1; rw [div_eq_inv_mul]
  have hz2 : Z ^ 2 ≤ n ^ 2 := by rw [nsq]; nlinarith [sq_nonneg X, sq_nonneg Y]
  have habs : |Z| ≤ n := abs_le_of_sq_le_sq' hz2 n0.le |>.2 |> fun h => by
    rcases abs_le.2 ⟨(abs_le_of_sq_le_sq' hz2 n0.le).1, h⟩ with h'; exact h'
  have hlo : -1 ≤ Z / n := by
    rw [le_div_iff₀ n0]; have := (abs_le.1 habs).1; linarith
  have hhi : Z / n ≤ 1 := by
    rw [div_le_iff₀ n0]; have := (abs_le.1 habs).2; linarith
  refine ⟨hdef, ?_, ?_, ?_, ?_⟩
  · rw [hdef]; exact Real.arccos_nonneg _
  · rw [hdef]; exact Real.arccos_le_pi _
  · rw [hdef, Real.cos_arccos hlo hhi]; field_simp
  · rw [hdef, Real.sin_arccos]
    have e : 1 - (Z / n) ^ 2 = (Real.sqrt (X ^ 2 + Y ^ 2) / n) ^ 2 := by
      rw [div_pow, div_pow, nsq, Real.sq_sqrt (show (0 : ℝ) ≤ X ^ 2 + Y ^ 2 by positivity)]; field_simp; ring
    rw [e, Real.sqrt_sq (div_nonneg (Real.sqrt_nonneg _) n0.le)]; field_simp

open Ampverif.Gen.C07 in
/-- The unfolding of `Phi(p0 + p1)` is `atan2(p_y, p_x)`, the argument of `p_x + i·p_y`: it lies in
`(−π, π]`, and for `p_T ≠ 0`: `p_T cos φ = p_x`, `p_T sin φ = p_y`. Together with
`C07_theta_polar`: `p⃗ = |p⃗| (sin θ cos φ, sin θ sin φ, cos θ)`. -/
theorem C07_phi_azimuth (E0 x0 y0 z0 E1 x1 y1 z1 : ℝ)
    (hpt : 0 < (x0 + x1) ^ 2 + (y0 + y1) ^ 2) :
    phi E0 x0 y0 z0 E1 x1 y1 z1 = Complex.arg ⟨x0 + x1, y0 + y1⟩ ∧
    -Real.pi < phi E0 x0 y0 z0 E1 x1 y1 z1 ∧ phi E0 x0 y0 z0 E1 x1 y1 z1 ≤ Real.pi ∧
    Real.sqrt ((x0 + x1) ^ 2 + (y0 + y1) ^ 2) * Real.cos (phi E0 x0 y0 z0 E1 x1 y1 z1) = x0 + x1 ∧
    Real.sqrt ((x0 + x1) ^ 2 + (y0 + y1) ^ 2) * Real.sin (phi E0 x0 y0 z0 E1 x1 y1 z1) = y0 + y1 := by
  set X := x0 + x1
  set Y := y0 + y1
  have pt0 : 0 < Real.sqrt (X ^ 2 + Y ^ 2) := Real.sqrt_pos.2 hpt
  have hnorm : ‖(⟨X, Y⟩ : ℂ)‖ = Real.sqrt (X ^ 2 + Y ^ 2) := Complex.norm_eq_sqrt_sq_add_sq _
  have hne : (⟨X, Y⟩ : ℂ) ≠ 0 := by
    intro h; rw [← norm_eq_zero, hnorm] at h; exact pt0.ne' h
  refine ⟨rfl, ?_, ?_, ?_, ?_⟩
  · exact Complex.neg_pi_lt_arg _
  · exact Complex.arg_le_pi _
  · unfold phi; rw [Complex.cos_arg hne, hnorm]; field_simp; try rfl
  · unfold phi; rw [Complex.sin_arg, hnorm]; field_simp; try rfl

open Ampverif.Gen.C07 in
/-- spherical decomposition of the summed three-momentum by the regenerated `Theta` and `Phi` -/
theorem C07_theta_phi_spherical (E0 x0 y0 z0 E1 x1 y1 z1 : ℝ)
    (hpt : 0 < (x0 + x1) ^ 2 + (y0 + y1) ^ 2) :
    let n := Real.sqrt ((x0 + x1) ^ 2 + (y0 + y1) ^ 2 + (z0 + z1) ^ 2)
    let θ := theta E0 x0 y0 z0 E1 x1 y1 z1
    let φ := phi E0 x0 y0 z0 E1 x1 y1 z1
    x0 + x1 = n * Real.sin θ * Real.cos φ ∧ y0 + y1 = n * Real.sin θ * Real.sin φ ∧
    z0 + z1 = n * Real.cos θ := by
  intro n θ φ
  have hp : 0 < (x0 + x1) ^ 2 + (y0 + y1) ^ 2 + (z0 + z1) ^ 2 := by positivity
  obtain ⟨_, _, _, hc, hs⟩ := C07_theta_polar E0 x0 y0 z0 E1 x1 y1 z1 hp
  obtain ⟨_, _, _, hcφ, hsφ⟩ := C07_phi_azimuth E0 x0 y0 z0 E1 x1 y1 z1 hpt
  refine ⟨?_, ?_, hc.symm⟩
  · show x0 + x1 = n * Real.sin θ * Real.cos φ
    rw [hs, hcφ]
  · show y0 + y1 = n * Real.sin θ * Real.sin φ
    rw [hs, hsφ]

/-! ## Non-vacuity -/

/-- a five-body tree with a two-resonance node below a cascade step -/
def exampleTree : Tree :=
  .node (-1) (.leaf 0) (.node 7 (.node 5 (.leaf 1) (.leaf 4)) (.node 6 (.leaf 3) (.leaf 2)))

example : WF exampleTree ∧ DigitIds exampleTree.leaves := by decide

/-- the documented angles of the example -/
example : (docAngles [] exampleTree).map (fun w => (String.ofList w.suffix, w.desc.chain, w.desc.target))
    = [("_0", [], [0]), ("_14^1234", [[1, 2, 3, 4]], [1, 4]),
       ("_1^14,1234", [[1, 2, 3, 4], [1, 4]], [1]), ("_2^23,1234", [[1, 2, 3, 4], [2, 3]], [2])] := by
  decide

/-- … and the pinned source on the same tree: `_0 ↦ Φ(p1+p2+p3+p4)` (decaying opposite-helicity
child, as in the docstring of `compute_helicity_angles`) and `_14^1234 ↦ Φ(p2+p3)` (the last
write of the both-decay node) -/
example : (helicityAngles Variant.pinned exampleTree).map (fun kv => (String.ofList kv.1, kv.2))
    = [("phi_0", .phi ⟨[], [1, 2, 3, 4]⟩), ("theta_0", .theta ⟨[], [1, 2, 3, 4]⟩),
       ("phi_14^1234", .phi ⟨[[1, 2, 3, 4]], [2, 3]⟩), ("theta_14^1234", .theta ⟨[[1, 2, 3, 4]], [2, 3]⟩),
       ("phi_1^14,1234", .phi ⟨[[1, 2, 3, 4], [1, 4]], [1]⟩),
       ("theta_1^14,1234", .theta ⟨[[1, 2, 3, 4], [1, 4]], [1]⟩),
       ("phi_2^23,1234", .phi ⟨[[1, 2, 3, 4], [2, 3]], [2]⟩),
       ("theta_2^23,1234", .theta ⟨[[1, 2, 3, 4], [2, 3]], [2]⟩)] := by
  decide

example : massName exampleTree 7 = .ok ['m', '_', '1', '2', '3', '4'] := by decide

/-- `C07_partial` is not vacuous: a four-body cascade has no both-decay node -/
example : NoDoubleDecay (.node (-1) (.leaf 0) (.node 4 (.leaf 1) (.node 5 (.leaf 2) (.leaf 3)))) := by
  decide

/-! ### registration histories (exception safety of `HelicityAdapter.register_topology`) -/

open Ampverif.Model.Topology in
/-- A REJECTED `register_topology` call (any error) leaves the registered set exactly as it was —
for every history before it. (The code checks before it adds; the correspondence drives the real
adapter through such histories and compares what stays registered and what `create_expressions()`
then returns.) -/
theorem C07_rejected_registration_is_noop (ts : List Topo) (t : Topo) (e : Err)
    (h : registerTopology (registerHistory ts).1 t = .error e) :
    registerHistory (ts ++ [t]) = ((registerHistory ts).1, (registerHistory ts).2 + 1) := by
  unfold registerHistory at *
  rw [List.foldl_append]
  simp only [List.foldl_cons, List.foldl_nil]
  rw [h]

open Ampverif.Model.Topology in
/-- an ACCEPTED call registers exactly what `register_topology` returns and counts no rejection -/
theorem C07_accepted_registration (ts : List Topo) (t : Topo) (reg : List Topo)
    (h : registerTopology (registerHistory ts).1 t = .ok reg) :
    registerHistory (ts ++ [t]) = (reg, (registerHistory ts).2) := by
  unfold registerHistory at *
  rw [List.foldl_append]
  simp only [List.foldl_cons, List.foldl_nil]
  rw [h]

end Ampverif.Props.C07
