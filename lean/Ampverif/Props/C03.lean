/-
C03 — parity partners carry exactly the parity sign of the flipped nodes.

* `Model/C03Parity.lean` is a line-by-line executable model of ampform's suffix generation, of the
  parity-partner registration loop and of `__generate_amplitude_prefactor`; it is compared with
  the working tree on every run (T2, `tools/props/C03.py`).
* `Gen/C03CG.lean` is the exact Clebsch–Gordan table of the installed SymPy for spins ≤ 3,
  regenerated on every run (T3).

Only property theorems (and non-vacuity examples) live here.
-/
import Ampverif.Lemmas.C03Parity
import Ampverif.Lemmas.C03ParityRule
import Ampverif.Lemmas.C03CG
import Ampverif.Lemmas.C03CGBlocks
import Mathlib.Tactic.FieldSimp

namespace Ampverif.Props.C03
open Ampverif.Model.C03 Ampverif.Lemmas.C03Parity

/-! ### the prefactor rule -/

/-- Under the sound rule the factor of EVERY chain (any number of nodes, any mapping, any flags)
is the product of `η` over exactly its mapped (helicity-flipped) nodes. -/
theorem C03_prefactor_is_flipped_product (v : Variant) (hs : v.sound) (f : Flags) (m : Mapping)
    (c : Chain) : prefactorVal v f m c = flippedProduct f m c :=
  prefactorVal_sound v hs f m c

/-- The registration loop of ANY reaction whose printed names are consistent (decidable
`partnerInjective`, evaluated by the harness on every case) produces a mapping in which a suffix
has at most one non-trivially mapped partner. -/
theorem C03_register_unique_partner (f : Flags) (ts : List Chain)
    (hwf : partnerInjective f ts.flatten = true) : UniquePartner (registerAll f ts) :=
  unique_of_inv f ts.flatten (wf_of_check f _ hwf) _ (inv_registerAll f ts (wf_of_check f _ hwf))

/-- **C03 (ratio).** For every reaction `ts` (any number of transitions and nodes, any spins, any
registration order), all naming flags, and any two chains `c₁ c₂` that get the same coefficient
symbol and have the same `η = ±1` node by node: the ratio of their prefactors is the product of
`η` over exactly the nodes at which the two chains differ. -/
theorem C03_ratio (v : Variant) (hs : v.sound) (f : Flags) (ts : List Chain)
    (hwf : partnerInjective f ts.flatten = true) (c₁ c₂ : Chain)
    (hc : compatible c₁ c₂ = true) (hsame : sameCoefficient f (registerAll f ts) c₁ c₂ = true) :
    (prefactorVal v f (registerAll f ts) c₁ : ℚ) / (prefactorVal v f (registerAll f ts) c₂ : ℚ)
      = (differingProduct f c₁ c₂ : ℚ) := by
  have hu := C03_register_unique_partner f ts hwf
  have h := ratio_of_unique v hs f _ hu c₁ c₂ hc hsame
  have hb := flippedProduct_sq_right f (registerAll f ts) c₁ c₂ hc
  rw [← prefactorVal_sound v hs] at hb
  generalize prefactorVal v f (registerAll f ts) c₁ = a at h
  generalize prefactorVal v f (registerAll f ts) c₂ = b at h hb
  generalize differingProduct f c₁ c₂ = d at h
  have hbq : (b : ℚ) * (b : ℚ) = 1 := by exact_mod_cast hb
  have hb0 : (b : ℚ) ≠ 0 := by
    intro h0; rw [h0] at hbq; simp at hbq
  rw [h]
  push_cast
  field_simp

/-- multiplicative form over `ℤ` (no division). -/
theorem C03_ratio_int (v : Variant) (hs : v.sound) (f : Flags) (ts : List Chain)
    (hwf : partnerInjective f ts.flatten = true) (c₁ c₂ : Chain)
    (hc : compatible c₁ c₂ = true) (hsame : sameCoefficient f (registerAll f ts) c₁ c₂ = true) :
    prefactorVal v f (registerAll f ts) c₁
      = prefactorVal v f (registerAll f ts) c₂ * differingProduct f c₁ c₂ :=
  ratio_of_unique v hs f _ (C03_register_unique_partner f ts hwf) c₁ c₂ hc hsame

/-! ### the product runs over the NODES of the chain (multiplicities count) -/

/-- **C03 (ratio), three-switch rule.** As `C03_ratio_int`, for the rule the harness drives
(`Model/C03ParityRule.lean`): `sound` now also demands one factor per flipped NODE. -/
theorem C03_ratio_rule (r : Rule) (hs : r.sound) (f : Flags) (ts : List Chain)
    (hwf : partnerInjective f ts.flatten = true) (c₁ c₂ : Chain)
    (hc : compatible c₁ c₂ = true) (hsame : sameCoefficient f (registerAll f ts) c₁ c₂ = true) :
    prefactorValR r f (registerAll f ts) c₁
      = prefactorValR r f (registerAll f ts) c₂ * differingProduct f c₁ c₂ := by
  rw [prefactorValR_sound r hs, prefactorValR_sound r hs,
    ← prefactorVal_sound r.v hs.1, ← prefactorVal_sound r.v hs.1]
  exact C03_ratio_int r.v hs.1 f ts hwf c₁ c₂ hc hsame

/-- Under the sound rule the factor of a chain is multiplicative over its list of nodes: any chain
`c₁ ++ c₂` (any lengths) gets the product of the factors of its two parts. -/
theorem C03_prefactor_append (r : Rule) (hs : r.sound) (f : Flags) (m : Mapping) (c₁ c₂ : Chain) :
    prefactorValR r f m (c₁ ++ c₂) = prefactorValR r f m c₁ * prefactorValR r f m c₂ := by
  simp only [prefactorValR_sound r hs]
  exact flippedProduct_append f m c₁ c₂

/-- **Multiplicity.** Under the sound rule a two-body decay `n` that occurs at `k` nodes of one chain
contributes its factor `k` times (`η^k` if it is a mapped partner): equal decays are NOT merged. -/
theorem C03_prefactor_multiplicity (r : Rule) (hs : r.sound) (f : Flags) (m : Mapping) (n : Node)
    (k : Nat) (c : Chain) :
    prefactorValR r f m (List.replicate k n ++ c)
      = (if isFlipped f m n then etaVal n else 1) ^ k * prefactorValR r f m c := by
  rw [C03_prefactor_append r hs, prefactorValR_sound r hs f m (List.replicate k n),
    flippedProduct_replicate]
  rfl

/-! ### witnesses for the unsound rules (replayable on the real code) -/

namespace Witness

def flags : Flags := ⟨false, true, false⟩

def jpsi : St := ⟨"J/psi(1S)", "J/\\psi(1S)", 2⟩
def sigmaBar (h : Int) : St := ⟨"Sigma(1750)~-", "\\overline{\\Sigma}(1750)^{-}", h⟩
def sigmaP (h : Int) : St := ⟨"Sigma+", "\\Sigma^{+}", h⟩
def k0 : St := ⟨"K0", "K^{0}", 0⟩
def pbar (h : Int) : St := ⟨"p~", "\\overline{p}", h⟩

/-- J/ψ → Σ̄(1750)⁻ Σ⁺, Σ̄ → K⁰ p̄ with helicities `(a, b; c)`; `η₀ = −1`, `η₁ = +1`. -/
def sigmaChain (a b c : Int) : Chain :=
  [⟨jpsi, sigmaP b, sigmaBar a, some (-1), none⟩, ⟨sigmaBar a, k0, pbar c, some 1, none⟩]

def chic1 : St := ⟨"chi(c1)(1P)", "\\chi_{c1}(1P)", 2⟩
def nBar (h : Int) : St := ⟨"N(1440)~-", "\\overline{N}(1440)^{-}", h⟩
def prot (h : Int) : St := ⟨"p", "p", h⟩
def pi0 : St := ⟨"pi0", "\\pi^{0}", 0⟩

/-- χc1 → N̄(1440)⁻ p, N̄ → π⁰ p̄ with helicities `(a, b; c)`; `η₀ = η₁ = −1`. -/
def nChain (a b c : Int) : Chain :=
  [⟨chic1, prot b, nBar a, some (-1), none⟩, ⟨nBar a, pbar c, pi0, some (-1), none⟩]

def chic0 : St := ⟨"chi(c0)(1P)", "\\chi_{c0}(1P)", 0⟩
def omega (h : Int) : St := ⟨"omega(782)", "\\omega(782)", h⟩
def gamma (h : Int) : St := ⟨"gamma", "\\gamma", h⟩

/-- χc0 → ω ω, ω → γ π⁰ (twice) with helicities `(h, h; g₀, g₁)`; `η₀ = +1`, `η₁ = η₂ = −1`
(corpus reaction `chic0_vv.hel.json`). -/
def vvChain (h g0 g1 : Int) : Chain :=
  [⟨chic0, omega h, omega h, some 1, none⟩, ⟨omega h, gamma g0, pi0, some (-1), none⟩,
   ⟨omega h, gamma g1, pi0, some (-1), none⟩]

end Witness

open Witness in
/-- The rule of the tree before ef9564d (product over ALL nodes): chain `(+½,+½;−½)` differs from
`(+½,+½;+½)` at node 1 only (`η₁ = +1`) but gets `−1`. -/
theorem C03_witness_all_nodes :
    let ts := [sigmaChain 1 1 1, sigmaChain 1 1 (-1)]
    let m := registerAll flags ts
    sameCoefficient flags m (sigmaChain 1 1 (-1)) (sigmaChain 1 1 1) = true
    ∧ compatible (sigmaChain 1 1 (-1)) (sigmaChain 1 1 1) = true
    ∧ differingProduct flags (sigmaChain 1 1 (-1)) (sigmaChain 1 1 1) = 1
    ∧ prefactorVal ⟨false, false⟩ flags m (sigmaChain 1 1 1) = 1
    ∧ prefactorVal ⟨false, false⟩ flags m (sigmaChain 1 1 (-1)) = -1 := by
  decide

open Witness in
/-- The guard of ef9564d (`get_prefactor(transition) != 1.0`): with `η₀ = η₁ = −1` the chain
`(+½,+½;−½)` differs from `(+½,+½;+½)` at node 1 only (`η₁ = −1`) but gets `+1`. -/
theorem C03_witness_guard :
    let ts := [nChain 1 1 1, nChain 1 1 (-1)]
    let m := registerAll flags ts
    sameCoefficient flags m (nChain 1 1 (-1)) (nChain 1 1 1) = true
    ∧ compatible (nChain 1 1 (-1)) (nChain 1 1 1) = true
    ∧ differingProduct flags (nChain 1 1 (-1)) (nChain 1 1 1) = -1
    ∧ prefactorVal ⟨true, false⟩ flags m (nChain 1 1 1) = 1
    ∧ prefactorVal ⟨true, false⟩ flags m (nChain 1 1 (-1)) = 1 := by
  decide

open Witness in
/-- A rule that collects the factors of the flipped nodes under their coefficient suffix (a dict) and
multiplies the dict values: the chain `(+1,+1;−1,−1)` differs from `(+1,+1;+1,+1)` at nodes 1 and 2, which
are the same two-body decay `ω → γ₋₁ π⁰` (`η = −1` each, product `+1`), but it gets `−1`. The sound
rule gives `+1` on the same input. -/
theorem C03_witness_suffix_keyed :
    let ts := [vvChain 2 2 2, vvChain 2 (-2) (-2)]
    let m := registerAll flags ts
    partnerInjective flags ts.flatten = true
    ∧ sameCoefficient flags m (vvChain 2 (-2) (-2)) (vvChain 2 2 2) = true
    ∧ compatible (vvChain 2 (-2) (-2)) (vvChain 2 2 2) = true
    ∧ differingProduct flags (vvChain 2 (-2) (-2)) (vvChain 2 2 2) = 1
    ∧ repeatedFlipped flags m (vvChain 2 (-2) (-2)) [] = 1
    ∧ prefactorValR ⟨⟨true, true⟩, false⟩ flags m (vvChain 2 2 2) = 1
    ∧ prefactorValR ⟨⟨true, true⟩, false⟩ flags m (vvChain 2 (-2) (-2)) = -1
    ∧ prefactorValR ⟨⟨true, true⟩, true⟩ flags m (vvChain 2 (-2) (-2)) = 1 := by
  decide

open Witness in
/-- Non-vacuity: the hypotheses of `C03_ratio` hold on the two-node J/ψ reaction (all 8 chains
of one initial helicity), and its conclusion is the non-trivial value `−1` for the chains
`(−½,−½;−½)` / `(+½,+½;−½)`… under the sound rule. -/
example :
    let ts := [sigmaChain (-1) (-1) (-1), sigmaChain 1 (-1) (-1), sigmaChain (-1) (-1) 1,
               sigmaChain 1 (-1) 1, sigmaChain (-1) 1 (-1), sigmaChain 1 1 (-1),
               sigmaChain (-1) 1 1, sigmaChain 1 1 1]
    partnerInjective flags ts.flatten = true
    ∧ sameCoefficient flags (registerAll flags ts) (sigmaChain (-1) (-1) (-1)) (sigmaChain 1 1 1) = true
    ∧ compatible (sigmaChain (-1) (-1) (-1)) (sigmaChain 1 1 1) = true
    ∧ differingProduct flags (sigmaChain (-1) (-1) (-1)) (sigmaChain 1 1 1) = -1
    ∧ prefactorVal ⟨true, true⟩ flags (registerAll flags ts) (sigmaChain (-1) (-1) (-1)) = -1
    ∧ prefactorVal ⟨true, true⟩ flags (registerAll flags ts) (sigmaChain 1 1 (-1)) = 1 := by
  decide

/-! ### Clebsch–Gordan parity symmetry (table-bounded: spins ≤ 3) -/

open Ampverif.Model.C03CG Ampverif.Lemmas.C03CG in
/-- The regenerated SymPy table passes the mirror check (kernel-evaluated, per block). -/
theorem C03_cg_table_symmetric_partial : Ampverif.Gen.C03CG.table.symmetric = true :=
  Ampverif.Lemmas.C03CGBlocks.table_symmetric

open Ampverif.Model.C03CG Ampverif.Lemmas.C03CG in
/-- `⟨j₁ −m₁; j₂ −m₂ | J −M⟩ = (−1)^(j₁+j₂−J) ⟨j₁ m₁; j₂ m₂ | J M⟩` for every entry of SymPy's
table with `j₁, j₂ ≤ 3` (arguments doubled; `cg` reads 0 outside the table, so the statement is
only informative within the bound — hence `_partial`). -/
theorem C03_cg_parity_partial (j1 : Nat) (m1 : Int) (j2 : Nat) (m2 : Int) (J : Nat) (M : Int)
    (_hb : j1 ≤ Ampverif.Gen.C03CG.maxSpin2 ∧ j2 ≤ Ampverif.Gen.C03CG.maxSpin2) :
    cg Ampverif.Gen.C03CG.table j1 (-m1) j2 (-m2) J (-M)
      = (phase ((j1 : Int) + (j2 : Int) - (J : Int)) : ℝ) * cg Ampverif.Gen.C03CG.table j1 m1 j2 m2 J M :=
  cg_flip _ C03_cg_table_symmetric_partial j1 m1 j2 m2 J M

open Ampverif.Model.C03CG Ampverif.Lemmas.C03CG in
/-- **The "equivalently" clause.** Helicity couplings obtained from ANY LS coefficients by the
expansion ampform's canonical builder writes,
`F_{λ₁λ₂} = Σ_{LS} a_{LS} ⟨L 0; S δ | J δ⟩ ⟨s₁ λ₁; s₂ −λ₂ | S δ⟩`, with all `L` of the parity
`(−1)^L = P·P₁·P₂ =: PP`, satisfy `F_{−λ₁,−λ₂} = η · F_{λ₁λ₂}` with `η = PP·(−1)^(s₁+s₂−J)`
(`= P P₁ P₂ (−1)^(J−s₁−s₂)`), for SymPy's CG values; `_partial`: `L, S, s₁ ≤ 3` (table bound). -/
theorem C03_helicity_coupling_parity_partial (J s1 s2 : Nat) (PP : Int) (terms : List LSTerm)
    (_hb : s1 ≤ Ampverif.Gen.C03CG.maxSpin2 ∧ s2 ≤ Ampverif.Gen.C03CG.maxSpin2
      ∧ ∀ x ∈ terms, x.L ≤ Ampverif.Gen.C03CG.maxSpin2 ∧ x.S ≤ Ampverif.Gen.C03CG.maxSpin2)
    (hL : ∀ x ∈ terms, phase (x.L : Int) = PP ∧ (x.L : Int) % 2 = 0
      ∧ ((x.L : Int) + (x.S : Int) - (J : Int)) % 2 = 0
      ∧ ((s1 : Int) + (s2 : Int) - (x.S : Int)) % 2 = 0)
    (l1 l2 : Int) :
    coupling Ampverif.Gen.C03CG.table J s1 s2 terms (-l1) (-l2)
      = ((PP * phase ((s1 : Int) + (s2 : Int) - (J : Int)) : Int) : ℂ)
          * coupling Ampverif.Gen.C03CG.table J s1 s2 terms l1 l2 :=
  coupling_flip _ C03_cg_table_symmetric_partial J s1 s2 PP terms hL l1 l2

/-- The full-strength statement of the CG symmetry: ALL spins, CG given by Racah's closed formula
`Lemmas.C03CG.racah` (the formula SymPy's `clebsch_gordan` implements; the harness checks on every
run that a transcription of this formula reproduces the regenerated table to 1e-12). -/
def C03_cg_parity_full_statement : Prop :=
  ∀ (j1 : Nat) (m1 : Int) (j2 : Nat) (m2 : Int) (J : Nat) (M : Int),
    Ampverif.Lemmas.C03CG.racah j1 (-m1) j2 (-m2) J (-M)
      = (Ampverif.Model.C03CG.phase ((j1 : Int) + (j2 : Int) - (J : Int)) : ℝ)
          * Ampverif.Lemmas.C03CG.racah j1 m1 j2 m2 J M

/-- **The mirror symmetry for ALL spins** (Racah's formula; reflection `k ↦ j₁+j₂−J−k` of the sum). -/
theorem C03_cg_parity_all_spins : C03_cg_parity_full_statement :=
  Ampverif.Lemmas.C03CG.racah_flip

open Ampverif.Model.C03CG Ampverif.Lemmas.C03CG in
/-- **The "equivalently" clause for ALL spins**, with the CG values of Racah's formula: helicity
couplings expanded from ANY LS coefficients with `(−1)^L = P·P₁·P₂` satisfy
`F_{−λ₁,−λ₂} = η F_{λ₁λ₂}`, `η = P P₁ P₂ (−1)^(s₁+s₂−J)`. -/
theorem C03_helicity_coupling_parity_all_spins (J s1 s2 : Nat) (PP : Int) (terms : List LSTerm)
    (hL : ∀ x ∈ terms, phase (x.L : Int) = PP ∧ (x.L : Int) % 2 = 0
      ∧ ((x.L : Int) + (x.S : Int) - (J : Int)) % 2 = 0
      ∧ ((s1 : Int) + (s2 : Int) - (x.S : Int)) % 2 = 0)
    (l1 l2 : Int) :
    couplingF racah J s1 s2 terms (-l1) (-l2)
      = ((PP * phase ((s1 : Int) + (s2 : Int) - (J : Int)) : Int) : ℂ)
          * couplingF racah J s1 s2 terms l1 l2 :=
  couplingF_flip racah racah_flip J s1 s2 PP terms hL l1 l2

/-- Non-vacuity of the table: `⟨½ ½; ½ −½ | 0 0⟩ = +√(1/2)` and its mirror `−√(1/2)`. -/
example :
    Ampverif.Gen.C03CG.table.get ⟨1, 1, 1, -1, 0, 0⟩ = ⟨1, 1, 2⟩
    ∧ Ampverif.Gen.C03CG.table.get ⟨1, -1, 1, 1, 0, 0⟩ = ⟨-1, 1, 2⟩
    ∧ Ampverif.Gen.C03CG.table.size = 2408 := by
  decide +kernel

end Ampverif.Props.C03
