/-
C14 — unevaluated expressions obey substitution, equality and folding laws.

Generic theorems about the decorator model (`Ampverif.Model`: `__new__`, `_get_arguments`,
`_hashable_content`, `_xreplace_method`, `_eval_subs_method`, `evaluate` through class templates)
for EVERY well-formed class table, plus the proof that the table REGENERATED from the working
tree (`Ampverif.Gen.C14.classTable`, every class produced by `@unevaluated` in the package) is
well-formed. `v.sound` = `_get_arguments` is shallow (1c47dce) and PoolSum protects bound indices.
Only property theorems and non-vacuity examples live here.
-/
import Ampverif.Lemmas.C14Keys
import Ampverif.Gen.C14Table

namespace Ampverif.Props.C14
open Ampverif.Model Ampverif.Lemmas.C14 Ampverif.Lemmas.C18

/-! ### 0. the regenerated class table is well-formed -/

/-- Every class found in the package today: placeholders match the SymPy fields, templates are
closed over placeholders and private dummies, contain no pool sum, defaults have the kind of their
field, class names are unique. Re-checked by the kernel against the regenerated table on every run. -/
theorem classTable_wf : wfTable Ampverif.Gen.C14.classTable = true := by decide +kernel

/-! ### 1. substitution commutes with unfolding -/

/-- `expr.xreplace(σ)` then `evaluate()` equals `evaluate()` then `xreplace(σ)`: for every
well-formed table, every class in it (or not in it), arbitrary arguments — nested unevaluated
instances and non-SymPy attributes included —, every replacement map that does not touch the
private dummies of `evaluate`. -/
theorem unfold_xreplace_commute (tbl : ClassTable) (hw : wfTable tbl = true) (v : Variant)
    (hv : v.sound) (c : String) (es : List Expr) (t : List Attr) (σ : List (Sym × Expr))
    (harity : ∀ ci, tbl.find c = some ci → es.length = ci.nSympy)
    (hlocals : ∀ ci, tbl.find c = some ci → ∀ s ∈ ci.locals, lookup σ s = none) :
    unfold v tbl (xreplace v (.node c es t) σ) = xreplace v (unfold v tbl (.node c es t)) σ := by
  have hr : v.getArgsRecursive = false := hv.1
  have hx : xreplace v (.node c es t) σ = .node c (xreplaceList v es σ) t := by
    simp [xreplace, hr]
  rw [hx]
  cases hf : tbl.find c with
  | none => simp [unfold, hf, xreplace, hr]
  | some ci =>
    by_cases hd : ci.implementDoit = true
    · cases hT : templateFor ci t with
      | none => simp [unfold, hf, hd, hT, xreplace, hr]
      | some T =>
        simp only [unfold, hf, hd, hT, if_true, instTemplate]
        have hwc := wfClass_of_find tbl hw c ci hf
        have hmem := templateFor_mem ci t T hT
        simp only [wfClass, Bool.and_eq_true, List.all_eq_true, beq_iff_eq] at hwc
        have hT' := hwc.2 (t, T) hmem
        simp only [Bool.and_eq_true, List.all_eq_true, Bool.or_eq_true, beq_iff_eq] at hT'
        have hlen : ci.placeholders.length = ci.nSympy := hwc.1.1.1.1
        rw [xreplace_comp v hv _ σ T hT'.1.2, zip_map_snd ci.placeholders (fun e => xreplace v e σ) es, xreplaceList_eq_map]
        intro s hs hnone
        rcases hT'.2 s hs with hp | hl
        · exfalso
          have hp' : s ∈ ci.placeholders := by simpa using hp
          obtain ⟨a, ha⟩ := lookup_zip_some ci.placeholders es s hp' (by rw [hlen, harity ci hf])
          rw [ha] at hnone; cases hnone
        · exact hlocals ci hf s (by simpa using hl)
    · simp [unfold, hf, hd, xreplace, hr]

/-- the same for `subs(x, a)`. -/
theorem unfold_subs_commute (tbl : ClassTable) (hw : wfTable tbl = true) (v : Variant)
    (hv : v.sound) (c : String) (es : List Expr) (t : List Attr) (x : Sym) (a : Expr)
    (harity : ∀ ci, tbl.find c = some ci → es.length = ci.nSympy)
    (hlocals : ∀ ci, tbl.find c = some ci → x ∉ ci.locals) :
    unfold v tbl (subst1 v x a (.node c es t)) = subst1 v x a (unfold v tbl (.node c es t)) := by
  rw [subst1_eq_xreplace v hv, subst1_eq_xreplace v hv]
  apply unfold_xreplace_commute tbl hw v hv c es t [(x, a)] harity
  intro ci hf s hs
  have : s ≠ x := fun h => hlocals ci hf (h ▸ hs)
  simp [lookup, this]

/-- instance on the regenerated table: it applies to every class of the package. -/
theorem unfold_xreplace_commute_package (v : Variant) (hv : v.sound) (c : String) (es : List Expr)
    (t : List Attr) (σ : List (Sym × Expr))
    (harity : ∀ ci, Ampverif.Gen.C14.classTable.find c = some ci → es.length = ci.nSympy)
    (hlocals : ∀ ci, Ampverif.Gen.C14.classTable.find c = some ci → ∀ s ∈ ci.locals, lookup σ s = none) :
    unfold v Ampverif.Gen.C14.classTable (xreplace v (.node c es t) σ)
      = xreplace v (unfold v Ampverif.Gen.C14.classTable (.node c es t)) σ :=
  unfold_xreplace_commute _ classTable_wf v hv c es t σ harity hlocals

/-! ### 1b. substitution KEYS that are terms (array symbols, applied functions, indexed symbols, folded instances)

`substT`/`xreplaceT` model `Basic._subs`/`_xreplace` for an arbitrary key: `_aresame`/`in rule` at
every node, `PoolSum._eval_subs`/`_xreplace` (bound index symbols only), `_eval_subs_method`, else
the arguments — pool values included. -/

/-- with a symbol as key they are the symbol-keyed `subs`… -/
theorem subs_term_key_symbol (v : Variant) (hv : v.sound) (x : Sym) (a e : Expr) :
    substT v (.sym x) a e = subst1 v x a e :=
  substT_sym v hv x a e

/-- …and `xreplace` (so every theorem about those applies to them). -/
theorem xreplace_term_keys_symbols (v : Variant) (hv : v.sound) (e : Expr) (σ : List (Sym × Expr)) :
    xreplaceT v e (symKeys σ) = xreplace v e σ :=
  xreplaceT_symKeys v hv e σ

/-- `expr.subs(old, new)` then `evaluate()` equals `evaluate()` then `subs(old, new)` for a key
`old` that is an uninterpreted node (an `ArraySymbol` four-momentum, an applied function, an indexed
symbol, a folded instance of another class) whose head does not occur in the class template, and
that is not the instance itself: for every well-formed table, arbitrary arguments and attributes,
arbitrary replacement `new`. -/
theorem unfold_subs_term_key_commute (tbl : ClassTable) (hw : wfTable tbl = true) (v : Variant)
    (hv : v.sound) (c : String) (es : List Expr) (t : List Attr) (old new : Expr) (h : String)
    (ho : headOf old = some h) (hne : Expr.eqv (.node c es t) old = false)
    (hfresh : ∀ ci T, tbl.find c = some ci → templateFor ci t = some T → h ∉ heads T) :
    unfold v tbl (substT v old new (.node c es t)) = substT v old new (unfold v tbl (.node c es t)) := by
  have hr : v.getArgsRecursive = false := hv.1
  have hx : substT v old new (.node c es t) = .node c (substTList v old new es) t := by
    simp [substT, hne, hr]
  rw [hx]
  cases hf : tbl.find c with
  | none => simp [unfold, hf, hx]
  | some ci =>
    by_cases hd : ci.implementDoit = true
    · cases hT : templateFor ci t with
      | none => simp [unfold, hf, hd, hT, hx]
      | some T =>
        simp only [unfold, hf, hd, hT, if_true, instTemplate]
        have hwc := wfClass_of_find tbl hw c ci hf
        have hmem := templateFor_mem ci t T hT
        simp only [wfClass, Bool.and_eq_true, List.all_eq_true, beq_iff_eq] at hwc
        have hT' := hwc.2 (t, T) hmem
        simp only [Bool.and_eq_true, List.all_eq_true, Bool.or_eq_true, beq_iff_eq] at hT'
        rw [substT_xreplace_template v hv old new h ho _ T hT'.1.2 (hfresh ci T hf hT),
          zip_map_snd ci.placeholders (fun e => substT v old new e) es, substTList_eq_map]
    · simp [unfold, hf, hd, hx]

/-- the head `h` occurs in no template of the regenerated table. -/
def headFresh (h : String) : Bool :=
  Ampverif.Gen.C14.classTable.all (fun ci => ci.templates.all (fun p => !(heads p.2).contains h))

/-- instance on the regenerated table: every class of the package, every key whose head is fresh. -/
theorem unfold_subs_term_key_commute_package (v : Variant) (hv : v.sound) (c : String) (es : List Expr)
    (t : List Attr) (old new : Expr) (h : String) (ho : headOf old = some h) (hh : headFresh h = true)
    (hne : Expr.eqv (.node c es t) old = false) :
    unfold v Ampverif.Gen.C14.classTable (substT v old new (.node c es t))
      = substT v old new (unfold v Ampverif.Gen.C14.classTable (.node c es t)) := by
  apply unfold_subs_term_key_commute _ classTable_wf v hv c es t old new h ho hne
  intro ci T hf hT
  have hm := (find_mem _ c ci hf).1
  have hmem := templateFor_mem ci t T hT
  simp only [headFresh, List.all_eq_true] at hh
  have := hh ci hm (t, T) hmem
  simpa using this

def arraySymbolHead : String := "app:h:sympy.tensor.array.expressions.array_expressions.ArraySymbol"

/-- no template mentions an `ArraySymbol`, the applied function `H` or the indexed base `B` (the key
kinds the correspondence and the oracle run): re-checked on the regenerated table on every run. -/
theorem term_key_heads_fresh :
    headFresh arraySymbolHead = true ∧ headFresh "app:f:H" = true ∧ headFresh "idx:B" = true := by
  decide +kernel

/-! ### 2. equality and hash -/

/-- `a == b` holds exactly when `hash` sees the same content (`_hashable_content`, recursively). -/
theorem eq_iff_same_hash_content (a b : Expr) : Expr.eqv a b = true ↔ hashKey a = hashKey b := by
  unfold Expr.eqv hashKey
  rw [eqvWith_mapAttrs]
  exact beq_iff _ _

/-- Two instances are equal exactly when class, arguments and non-SymPy attributes are equal —
provided `_get_hashable_object` is injective on the attributes that occur (the proof forces this
hypothesis; `hash_corner_witness` shows it cannot be dropped). -/
theorem eq_iff_fields_equal (P : Attr → Prop)
    (hinj : ∀ x y, P x → P y → hashable x = hashable y → x = y) (a b : Expr)
    (ha : ∀ x ∈ attrsOf a, P x) (hb : ∀ y ∈ attrsOf b, P y) :
    Expr.eqv a b = true ↔ a = b := by
  constructor
  · exact eqvWith_eq hashable hinj a b ha hb
  · intro h; subst h; exact eqvWith_refl hashable a

/-- `_get_hashable_object` is injective on `None`, classes and every string that is not the
qualified name of a class that occurs nor `"builtins.NoneType"`: e.g. on this standard set. -/
theorem hashable_injective_standard (x y : Attr)
    (hx : x = .none ∨ (∃ s, x = .str s ∧ s ≠ "builtins.NoneType") ∨ ∃ r, x = .obj r)
    (hy : y = .none ∨ (∃ s, y = .str s ∧ s ≠ "builtins.NoneType") ∨ ∃ r, y = .obj r)
    (h : hashable x = hashable y) : x = y := by
  rcases hx with rfl | ⟨s, rfl, hs⟩ | ⟨r, rfl⟩ <;> rcases hy with rfl | ⟨s', rfl, hs'⟩ | ⟨r', rfl⟩ <;>
    simp_all [hashable]

def ws : Sym := ⟨"s", []⟩
def wm1 : Sym := ⟨"m1", []⟩
def wm2 : Sym := ⟨"m2", []⟩
def wx : Sym := ⟨"x", []⟩
def cBMS : String := "ampform.dynamics.phasespace.BreakupMomentumSquared"
def cPSF : String := "ampform.dynamics.phasespace.PhaseSpaceFactor"

/-- the excluded point: `name=None` and `name="builtins.NoneType"` compare (and hash) equal. -/
theorem hash_corner_witness :
    Expr.eqv (.node cBMS [.sym ws, .sym wm1, .sym wm2] [.none])
             (.node cBMS [.sym ws, .sym wm1, .sym wm2] [.str "builtins.NoneType"]) = true ∧
    Expr.beq (.node cBMS [.sym ws, .sym wm1, .sym wm2] [.none])
             (.node cBMS [.sym ws, .sym wm1, .sym wm2] [.str "builtins.NoneType"]) = false := by
  decide +kernel

/-- function-valued attributes are opaque tokens with the identity of the Python object: two closures
of one factory (same qualified name, `#0`/`#1`) are different attributes, hence different instances;
the same function twice gives equal instances. (A `_get_hashable_object` that maps functions to their
qualified name would identify the first pair: the correspondence and the oracle run such pairs.) -/
example :
    Expr.eqv (.node cBMS [.sym ws] [.obj "fn:tools.corr.C14.make_phsp_factor.<locals>.phsp_factor#0"])
             (.node cBMS [.sym ws] [.obj "fn:tools.corr.C14.make_phsp_factor.<locals>.phsp_factor#1"]) = false ∧
    Expr.eqv (.node cBMS [.sym ws] [.obj "fn:tools.corr.C14.make_phsp_factor.<locals>.phsp_factor#0"])
             (.node cBMS [.sym ws] [.obj "fn:tools.corr.C14.make_phsp_factor.<locals>.phsp_factor#0"]) = true := by
  decide +kernel

/-! ### 3. rebuilding from own arguments -/

/-- `expr.func(*expr.args)` reproduces an instance of a class whose fields are all SymPy arguments. -/
theorem rebuild_all_sympy (tbl : ClassTable) (c : String) (ci : ClassInfo) (hf : tbl.find c = some ci)
    (hall : ∀ f ∈ ci.fields, f.sympify = true) (es : List Expr) (he : es.length = ci.fields.length) :
    rebuild tbl (.node c es []) = some (.node c es []) := by
  have hn := nS_all_sympy ci.fields hall
  have h1 : es.length = ci.nSympy := by rw [he]; exact hn.1.symm
  have h2 : ([] : List Attr).length = ci.nAttr := hn.2.symm
  have := new_interleave tbl c ci hf es [] h1 h2
  rw [interleave_all_sympy ci.fields es hall he] at this
  simpa [rebuild] using this

/-- …while a class with a non-SymPy field is rebuilt with the DEFAULT attribute (the clause is
restricted to all-SymPy-field classes for that reason): on the regenerated table. -/
example :
    rebuild Ampverif.Gen.C14.classTable (.node cBMS [.sym ws, .sym wm1, .sym wm2] [.str "q"])
      = some (.node cBMS [.sym ws, .sym wm1, .sym wm2] [.none]) := by decide +kernel

/-! ### 4. witness for the unsound variant (`dataclasses.astuple`) -/

def vAstuple : Variant := ⟨true, true⟩
/-- `PhaseSpaceFactor(BreakupMomentumSquared(s, m1, m2), m1, m2)` -/
def wNested : Expr :=
  .node cPSF [.node cBMS [.sym ws, .sym wm1, .sym wm2] [.none], .sym wm1, .sym wm2] [.none]
def wNestedReplaced : Expr :=
  .node cPSF [.node cBMS [.sym ws, .sym wx, .sym wm2] [.none], .sym wx, .sym wm2] [.none]

/-- recursive `_get_arguments`: `.xreplace({m1: x})` does not produce the replaced instance
(the nested argument becomes a Tuple and is not rewritten); the shallow variant does. -/
theorem witness_astuple :
    Expr.beq (xreplace vAstuple wNested [(wm1, .sym wx)]) wNestedReplaced = false ∧
    Expr.beq (xreplace Variant.current wNested [(wm1, .sym wx)]) wNestedReplaced = true := by
  decide +kernel

/-! ### term keys: a four-momentum `ArraySymbol` replaced inside a pool sum and inside an instance -/

def cEnergy : String := "ampform.kinematics.lorentz.Energy"
def wp : Expr := .app "h:sympy.tensor.array.expressions.array_expressions.ArraySymbol" [.sym ⟨"p0", []⟩, .app "a:Tuple()" []]
def wq : Expr := .app "h:sympy.tensor.array.expressions.array_expressions.ArraySymbol" [.sym ⟨"q1", []⟩, .app "a:Tuple()" []]
def wlam : Sym := ⟨"lambda", ["integer"]⟩
/-- `PoolSum((lambda + 2) * x * Energy(p0), (lambda, (-1, 0, 1)))` -/
def wPoolEnergy : Expr :=
  .psum (.mul [.add [.sym wlam, .rat 2], .sym wx, .node cEnergy [wp] []]) [(wlam, [.rat (-1), .rat 0, .rat 1])]

/-- `.subs(p0, q1)` reaches the summand of the pool sum although `p0` is not one of its
`free_symbols` (those hold the inner name symbol only)… -/
example :
    Expr.beq (substT Variant.current wp wq wPoolEnergy)
      (.psum (.mul [.add [.sym wlam, .rat 2], .sym wx, .node cEnergy [wq] []])
        [(wlam, [.rat (-1), .rat 0, .rat 1])]) = true := by decide +kernel
/-- …and commutes with unfolding `Energy` on the regenerated table. -/
example :
    unfold Variant.current Ampverif.Gen.C14.classTable (substT Variant.current wp wq (.node cEnergy [wp] []))
      = substT Variant.current wp wq (unfold Variant.current Ampverif.Gen.C14.classTable (.node cEnergy [wp] [])) :=
  unfold_subs_term_key_commute_package _ (by decide) cEnergy _ _ wp wq arraySymbolHead (by decide +kernel)
    term_key_heads_fresh.1 (by decide +kernel)

/-! ### non-vacuity on the regenerated table -/

example : wfTerm Ampverif.Gen.C14.classTable wNested = true := by decide +kernel
/-- unfolding really happens for this class (the template is not the identity). -/
example : Expr.beq (unfold Variant.current Ampverif.Gen.C14.classTable wNested) wNested = false := by
  decide +kernel
example :
    unfold Variant.current Ampverif.Gen.C14.classTable (xreplace Variant.current wNested [(wm1, .sym wx)])
      = xreplace Variant.current (unfold Variant.current Ampverif.Gen.C14.classTable wNested) [(wm1, .sym wx)] :=
  unfold_xreplace_commute_package _ (by decide) cPSF _ _ _
    (by intro ci h; revert ci; decide +kernel) (by intro ci h; revert ci; decide +kernel)

/-! ### substitutions that identify arguments / pool entries (multiplicity) -/

/-- non-vacuity for substitutions that IDENTIFY two arguments of an instance / two entries of a pool
(`{m1: x, m2: x}`): the commutation law holds on the regenerated table, and the pool sum keeps both
entries (multiplicity; `PoolSum.__new__` storing its values unchanged is `C18.new_stores_given_values`). -/
example :
    Expr.beq (unfold Variant.current Ampverif.Gen.C14.classTable
        (xreplace Variant.current (.node cBMS [.sym ws, .sym wm1, .sym wm2] [.none]) [(wm1, .sym wx), (wm2, .sym wx)]))
      (xreplace Variant.current (unfold Variant.current Ampverif.Gen.C14.classTable
        (.node cBMS [.sym ws, .sym wm1, .sym wm2] [.none])) [(wm1, .sym wx), (wm2, .sym wx)]) = true := by
  decide +kernel

example :
    Expr.beq (xreplace Variant.current
        (.psum (.node cBMS [.sym ws, .sym ⟨"i", []⟩, .sym wm2] [.none]) [(⟨"i", []⟩, [.sym wm1, .sym wm2])])
        [(wm1, .sym wx), (wm2, .sym wx)])
      (.psum (.node cBMS [.sym ws, .sym ⟨"i", []⟩, .sym wx] [.none]) [(⟨"i", []⟩, [.sym wx, .sym wx])]) = true := by
  decide +kernel

end Ampverif.Props.C14
