/-
C17 — `HelicityModel.rename_symbols` is a consistent renaming of the whole model.

All theorems are about the executable model `Ampverif.Model.C17Rename` (`rename`, modelled line by
line on `/repo/src/ampform/helicity/__init__.py`; tied to the source on every run by the
correspondence harness `tools/corr/C17_corr.py`). A symbol is (name, COMPLETE assumption declaration = ternary
numeral of `assumptions0`, all True- and False-valued facts). `v : Variant` carries the two switches of fix
137fbcb and the switch of fix c9b6eb9; theorems that need a fix assume `v.sound` (or the one switch
they need), and for each unsound switch there is a kernel-checked witness whose input is replayed
on the real code.
Only property theorems and non-vacuity examples live here (lemmas: `Ampverif/Lemmas/C17*.lean`).

Notation: `σ = sigma v m ρ` is the ONE symbol map (`symbol_mapping`, totalised by the identity)
that `rename v m ρ` applies; `renameOf ρ n` is `dict(renames).get(n)`; `nameMap ρ n` the final
name of a symbol called `n`.
-/
import Ampverif.Lemmas.C17Rename

namespace Ampverif.Props.C17
open Ampverif.Model.C17

/-! ### 1. every attribute is the original with the same map applied -/

/-- `if not renames: return self` -/
theorem rename_empty (v : Variant) (m : Model) : rename v m [] = m := by
  simp [rename]

/-- Every attribute of `rename v m ρ` is the original with the one map `σ` applied: expressions by
`xreplace σ`, dictionary keys by `σ` (then Python's dict semantics and the attrs converters). -/
theorem rename_attributes (v : Variant) (m : Model) (ρ : List (Name × Name)) (hρ : ρ ≠ []) :
    (rename v m ρ).expr = m.expr.xreplace (sigma v m ρ) ∧
    (rename v m ρ).intensity = m.intensity.xreplace (sigma v m ρ) ∧
    (rename v m ρ).amplitudes =
      orderAmplitudes (m.amplitudes.map (fun a => { a with defn := a.defn.xreplace (sigma v m ρ) })) ∧
    (rename v m ρ).params = dictOfList (m.params.map (fun kv => (sigma v m ρ kv.1, kv.2))) ∧
    (rename v m ρ).components =
      orderComponentMapping (m.components.map (fun c => (c.1, c.2.xreplace (sigma v m ρ)))) ∧
    (rename v m ρ).kinvars =
      orderSymbolMapping (dictOfList (m.kinvars.map (fun kv => (sigma v m ρ kv.1, kv.2.xreplace (sigma v m ρ))))) := by
  have h : ρ.isEmpty = false := by cases ρ <;> simp_all
  simp only [rename, h, sigma]
  exact ⟨rfl, rfl, rfl, rfl, rfl, rfl⟩

/-- No amplitude is lost, duplicated or left unrenamed: the amplitudes of the result are a
permutation (the converter's sort) of the originals with `σ` applied to the definitions. -/
theorem amplitudes_perm (v : Variant) (m : Model) (ρ : List (Name × Name)) (hρ : ρ ≠ []) :
    (rename v m ρ).amplitudes.Perm
      (m.amplitudes.map (fun a => { a with defn := a.defn.xreplace (sigma v m ρ) })) := by
  rw [(rename_attributes v m ρ hρ).2.2.1]
  exact isort_perm _ _

theorem components_perm (v : Variant) (m : Model) (ρ : List (Name × Name)) (hρ : ρ ≠ []) :
    (rename v m ρ).components.Perm
      (m.components.map (fun c => (c.1, c.2.xreplace (sigma v m ρ)))) := by
  rw [(rename_attributes v m ρ hρ).2.2.2.2.1]
  exact isort_perm _ _

/-- The parameter keys of the result are exactly the images of the original keys. -/
theorem param_keys_image (v : Variant) (m : Model) (ρ : List (Name × Name)) (hρ : ρ ≠ []) (k : Sym) :
    k ∈ (rename v m ρ).paramKeys ↔ ∃ k₀, k₀ ∈ m.paramKeys ∧ k = sigma v m ρ k₀ := by
  unfold Model.paramKeys
  rw [(rename_attributes v m ρ hρ).2.2.2.1]
  have := mem_keys_dictOfList (m.params.map (fun kv => (sigma v m ρ kv.1, kv.2))) k
  unfold keys at this
  rw [this]
  simp only [List.map_map, List.mem_map, Function.comp]
  constructor
  · rintro ⟨kv, hkv, rfl⟩; exact ⟨kv.1, ⟨kv, hkv, rfl⟩, rfl⟩
  · rintro ⟨k₀, ⟨kv, hkv, rfl⟩, rfl⟩; exact ⟨kv, hkv, rfl⟩

/-- Every value in the result's `parameter_defaults` is the value of an original key with that image. -/
theorem param_values_carried (v : Variant) (m : Model) (ρ : List (Name × Name)) (hρ : ρ ≠ [])
    (k : Sym) (val : Nat) (h : (k, val) ∈ (rename v m ρ).params) :
    ∃ k₀, (k₀, val) ∈ m.params ∧ k = sigma v m ρ k₀ := by
  rw [(rename_attributes v m ρ hρ).2.2.2.1] at h
  have := mem_dictOfList h
  simp only [List.mem_map] at this
  obtain ⟨kv, hkv, e⟩ := this
  cases e
  exact ⟨kv.1, hkv, rfl⟩

/-- Without a key collision `parameter_defaults` keeps its order and all its values. -/
theorem params_no_collision (v : Variant) (m : Model) (ρ : List (Name × Name)) (hρ : ρ ≠ [])
    (hnd : m.paramKeys.Nodup) (hinj : InjOn (sigma v m ρ) m.paramKeys) :
    (rename v m ρ).params = m.params.map (fun kv => (sigma v m ρ kv.1, kv.2)) := by
  rw [(rename_attributes v m ρ hρ).2.2.2.1]
  apply dictOfList_of_nodup
  unfold keys
  rw [List.map_map]
  have : (m.params.map ((fun kv : Sym × Nat => kv.1) ∘ fun kv => (sigma v m ρ kv.1, kv.2)))
      = m.paramKeys.map (sigma v m ρ) := by
    simp [Model.paramKeys, List.map_map, Function.comp_def]
  rw [this]
  exact nodup_map_of_injOn (fun s hs t ht e => hinj s hs t ht e) hnd

/-- The kinematic-variable keys of the result are exactly the images of the original keys. -/
theorem kin_keys_image (v : Variant) (m : Model) (ρ : List (Name × Name)) (hρ : ρ ≠ []) (k : Sym) :
    k ∈ (rename v m ρ).kinKeys ↔ ∃ k₀, k₀ ∈ m.kinKeys ∧ k = sigma v m ρ k₀ := by
  unfold Model.kinKeys
  rw [(rename_attributes v m ρ hρ).2.2.2.2.2]
  unfold orderSymbolMapping
  have hp := (isort_perm (fun a b : Sym × Expr => nameLtTie a.1.name b.1.name)
    (dictOfList (m.kinvars.map (fun kv => (sigma v m ρ kv.1, kv.2.xreplace (sigma v m ρ)))))).map (·.1)
  rw [hp.mem_iff]
  have := mem_keys_dictOfList (m.kinvars.map (fun kv => (sigma v m ρ kv.1, kv.2.xreplace (sigma v m ρ)))) k
  unfold keys at this
  rw [this]
  simp only [List.map_map, List.mem_map, Function.comp]
  constructor
  · rintro ⟨kv, hkv, rfl⟩; exact ⟨kv.1, ⟨kv, hkv, rfl⟩, rfl⟩
  · rintro ⟨k₀, ⟨kv, hkv, rfl⟩, rfl⟩; exact ⟨kv, hkv, rfl⟩

/-- Every definition in the result's `kinematic_variables` is an original definition with `σ`
applied to key and expression. -/
theorem kin_defs_carried (v : Variant) (m : Model) (ρ : List (Name × Name)) (hρ : ρ ≠ [])
    (k : Sym) (e : Expr) (h : (k, e) ∈ (rename v m ρ).kinvars) :
    ∃ k₀ e₀, (k₀, e₀) ∈ m.kinvars ∧ k = sigma v m ρ k₀ ∧ e = e₀.xreplace (sigma v m ρ) := by
  rw [(rename_attributes v m ρ hρ).2.2.2.2.2] at h
  unfold orderSymbolMapping at h
  rw [mem_isort] at h
  have := mem_dictOfList h
  simp only [List.mem_map] at this
  obtain ⟨kv, hkv, e'⟩ := this
  cases e'
  exact ⟨kv.1, kv.2, hkv, rfl, rfl⟩

/-- Precondition (iii) of the design: when `σ` is injective on the kinematic-variable keys (a
dictionary cannot hold two definitions for one name), no definition is dropped — the result's
`kinematic_variables` are a permutation of all the original definitions with `σ` applied. -/
theorem kin_no_definition_lost (v : Variant) (m : Model) (ρ : List (Name × Name)) (hρ : ρ ≠ [])
    (hnd : m.kinKeys.Nodup) (hinj : InjOn (sigma v m ρ) m.kinKeys) :
    (rename v m ρ).kinvars.Perm
      (m.kinvars.map (fun kv => (sigma v m ρ kv.1, kv.2.xreplace (sigma v m ρ)))) := by
  rw [(rename_attributes v m ρ hρ).2.2.2.2.2]
  unfold orderSymbolMapping
  refine (isort_perm _ _).trans ?_
  rw [dictOfList_of_nodup]
  unfold keys
  rw [List.map_map]
  have : (m.kinvars.map ((fun kv : Sym × Expr => kv.1) ∘ fun kv => (sigma v m ρ kv.1, kv.2.xreplace (sigma v m ρ))))
      = m.kinKeys.map (sigma v m ρ) := by
    simp [Model.kinKeys, List.map_map, Function.comp_def]
  rw [this]
  exact nodup_map_of_injOn (fun s hs t ht e => hinj s hs t ht e) hnd

/-! ### 2. what the one map is -/

/-- `σ` renames exactly the collected symbols whose name is in the map, to the requested name;
everything else is untouched (unrelated symbols, unknown names). -/
theorem sigma_spec (v : Variant) (m : Model) (ρ : List (Name × Name)) (s : Sym) :
    (s ∉ collect v m → sigma v m ρ s = s) ∧
    (renameOf ρ s.name = none → sigma v m ρ s = s) ∧
    (s ∈ collect v m → ∀ n', renameOf ρ s.name = some n' → (sigma v m ρ s).name = n') := by
  refine ⟨sigma_of_not_mem v m ρ s, ?_, ?_⟩
  · intro h
    by_cases hs : s ∈ collect v m
    · rw [sigma_of_mem v m ρ s hs, target_of_none h]
    · exact sigma_of_not_mem v m ρ s hs
  · intro hs n' h
    rw [sigma_of_mem v m ρ s hs]; exact target_name h

/-- Hypothesis (i) of the design, proved for the sound variant: every symbol that any attribute
mentions (expression, kinematic-variable keys and definitions, AND `parameter_defaults` keys) and
whose name is in the map ends up with the requested name. -/
theorem every_mention_renamed (v : Variant) (hv : v.sound) (m : Model) (ρ : List (Name × Name))
    (s : Sym) (hs : m.mentions s) (n' : Name) (h : renameOf ρ s.name = some n') :
    (sigma v m ρ s).name = n' :=
  (sigma_spec v m ρ s).2.2 ((mem_collect_of_collectsParams v hv.1 m s).mpr hs) n' h

/-- … so no parameter key keeps a name it was asked to give up: every key of the result carries the
final name of an original key. -/
theorem no_stale_parameter_name (v : Variant) (hv : v.sound) (m : Model) (ρ : List (Name × Name))
    (hρ : ρ ≠ []) (k : Sym) (hk : k ∈ (rename v m ρ).paramKeys) :
    ∃ k₀, k₀ ∈ m.paramKeys ∧ k.name = nameMap ρ k₀.name := by
  obtain ⟨k₀, hk₀, rfl⟩ := (param_keys_image v m ρ hρ k).mp hk
  refine ⟨k₀, hk₀, ?_⟩
  have hc : k₀ ∈ collect v m :=
    (mem_collect_of_collectsParams v hv.1 m k₀).mpr (Or.inr (Or.inr (Or.inl hk₀)))
  rw [sigma_of_mem v m ρ k₀ hc, target_nameMap]

/-- Witness for the unsound switch `collectsParams = false` (the tree before 137fbcb): the
parameter `m_0`, which occurs only in `parameter_defaults`, keeps its name although the map says
`m_0 ↦ mgamma`. Replayed on the real code by `tools/props/C17.py: witness_models()`. -/
theorem witness_params_not_collected :
    (rename Witness.unsoundNoParams Witness.witnessModel [(Witness.nM0, Witness.nMgamma)]).paramKeys
      = [Witness.a, Witness.d, Witness.m0] := by decide

/-! ### 3. assumptions are preserved -/

/-- A symbol renamed to a name that no unrenamed collected symbol carries becomes the symbol of the
new name with the SAME assumptions — provided every symbol sent to that name has those assumptions
(always true when only one symbol is sent there). -/
theorem assumptions_preserved (v : Variant) (m : Model) (ρ : List (Name × Name)) (s : Sym)
    (hs : s ∈ collect v m) (n' : Name) (h : renameOf ρ s.name = some n')
    (hfresh : ∀ t, t ∈ collect v m → renameOf ρ t.name = none → t.name ≠ n')
    (hsame : ∀ t, t ∈ collect v m → renameOf ρ t.name = some n' → t.asm = s.asm) :
    sigma v m ρ s = ⟨n', s.asm⟩ := by
  rw [sigma_of_mem v m ρ s hs,
    target_fresh h (fun t ht => hfresh t ((mem_ordered v m t).mp ht))]
  obtain ⟨a₀, ha₀, hr, he, _, _⟩ :=
    freshTarget_spec (v := v) (ρ := ρ) ((mem_ordered v m s).mpr hs) h
  rw [he, hsame a₀ ((mem_ordered v m a₀).mp ha₀) hr]

/-- The same in terms of the facts: `Sym.asm` is the complete declaration `assumptions0`, so the symbol
made for a single source under a fresh name carries EXACTLY the facts of its source — every fact that is
declared or derived True, every fact that is declared or derived False (`zero=False`, `real=False`,
`integer=False`, `positive=False`, `commutative=False`, …), and no other: fact by fact (`factDigit`:
False / True / absent) and as the list `sorted(assumptions0.items())` (`declFacts`). -/
theorem renamed_symbol_has_source_declaration (v : Variant) (m : Model) (ρ : List (Name × Name)) (s : Sym)
    (hs : s ∈ collect v m) (n' : Name) (h : renameOf ρ s.name = some n')
    (hfresh : ∀ t, t ∈ collect v m → renameOf ρ t.name = none → t.name ≠ n')
    (honly : ∀ t, t ∈ collect v m → renameOf ρ t.name = some n' → t = s) :
    (sigma v m ρ s).name = n' ∧ (sigma v m ρ s).asm = s.asm ∧
      (∀ i, factDigit i (sigma v m ρ s).asm = factDigit i s.asm) ∧
      declFacts (sigma v m ρ s).asm = declFacts s.asm ∧
      (∀ i, (i, false) ∈ declFacts s.asm → (i, false) ∈ declFacts (sigma v m ρ s).asm) := by
  have e := assumptions_preserved v m ρ s hs n' h hfresh (fun t ht hr => by rw [honly t ht hr])
  rw [e]
  exact ⟨rfl, rfl, fun _ => rfl, rfl, fun _ hi => hi⟩

/-- Rename, then rename back: when `s ↦ n'` made the symbol `⟨n', s.asm⟩` (theorem above), renaming the
name `n'` of the new model `m'` back to `s.name` (again fresh, again the only source) gives the original
symbol `s` — name and complete declaration. -/
theorem rename_back_restores_symbol (v : Variant) (m' : Model) (s : Sym) (n' : Name)
    (hs : (⟨n', s.asm⟩ : Sym) ∈ collect v m')
    (hfresh : ∀ t, t ∈ collect v m' → renameOf [(n', s.name)] t.name = none → t.name ≠ s.name)
    (honly : ∀ t, t ∈ collect v m' → renameOf [(n', s.name)] t.name = some s.name → t = ⟨n', s.asm⟩) :
    sigma v m' [(n', s.name)] ⟨n', s.asm⟩ = s := by
  have h : renameOf [(n', s.name)] (⟨n', s.asm⟩ : Sym).name = some s.name := by
    simp [renameOf, alookup]
  exact assumptions_preserved v m' [(n', s.name)] ⟨n', s.asm⟩ hs s.name h hfresh
    (fun t ht hr => by rw [honly t ht hr])

/-- Witness that the COMPLETE declaration is needed (seeded change C17_5): a rebuild of the new symbol from
only the facts that hold, `Symbol(new, **{k: v for k, v in assumptions0.items() if v})`, is a different
symbol for the complex non-zero coupling `g = Symbol("g", zero=False)`: the model (and the unchanged source)
gives `k` with `g`'s declaration `{commutative: True, zero: False}`, the truthy-only rebuild gives
`{commutative: True}` — the fact `zero=False` (fact 30) is gone, so "assumptions are preserved" fails and no
attribute is "the original with the same map applied". Replayed on the real code by
`tools/props/C17.py: witness_models()` (probe `keepsEveryFact`). -/
theorem witness_truthy_only_rebuild_loses_facts :
    sigma Variant.fixed Witness.nonzeroModel [([103], Witness.nK)] Witness.gNonzero
        = ⟨Witness.nK, Witness.gNonzero.asm⟩ ∧
      declFacts Witness.gNonzero.asm = [(2, true), (30, false)] ∧
      (⟨Witness.nK, truthyOnly Witness.gNonzero.asm⟩ : Sym)
        ≠ sigma Variant.fixed Witness.nonzeroModel [([103], Witness.nK)] Witness.gNonzero ∧
      declFacts (truthyOnly Witness.gNonzero.asm) = [(2, true)] ∧
      -- a library-style symbol hides the difference only because SymPy re-derives its False facts from the
      -- True ones; the keyword arguments themselves differ there too
      truthyOnly Witness.d.asm ≠ Witness.d.asm := by
  decide

/-- In general the image carries the requested name and the assumptions of SOME symbol that was sent
to that name, or it is an existing unrenamed symbol of the requested name. -/
theorem image_fresh_or_existing (v : Variant) (m : Model) (ρ : List (Name × Name)) (s : Sym)
    (hs : s ∈ collect v m) (n' : Name) (h : renameOf ρ s.name = some n') :
    (∃ a₀, a₀ ∈ collect v m ∧ renameOf ρ a₀.name = some n' ∧ sigma v m ρ s = ⟨n', a₀.asm⟩) ∨
      (sigma v m ρ s ∈ collect v m ∧ renameOf ρ (sigma v m ρ s).name = none ∧ (sigma v m ρ s).name = n') := by
  rw [sigma_of_mem v m ρ s hs]
  have hfr : ∃ a₀, a₀ ∈ collect v m ∧ renameOf ρ a₀.name = some n' ∧
      freshTarget v ρ (ordered v m) s n' = ⟨n', a₀.asm⟩ := by
    obtain ⟨a₀, ha₀, hr, he, _, _⟩ :=
      freshTarget_spec (v := v) (ρ := ρ) ((mem_ordered v m s).mpr hs) h
    exact ⟨a₀, (mem_ordered v m a₀).mp ha₀, hr, he⟩
  unfold target
  rw [h]
  cases hv : v.reusesExisting
  · exact Or.inl (by simpa using hfr)
  · simp only [if_true]
    cases he : existingNamed ρ (ordered v m) n' with
    | none => exact Or.inl hfr
    | some t =>
      obtain ⟨h1, h2, h3⟩ := existingNamed_some he
      exact Or.inr ⟨(mem_ordered v m t).mp h1, h2, h3⟩

/-! ### 4. merging couples exactly the merged symbols -/

/-- Hypothesis (ii) of the design, proved for `reusesExisting`: renaming `a` onto the name of an
existing (unrenamed, unique) symbol `b` identifies the two — whatever their assumptions. -/
theorem merge_onto_existing_couples (v : Variant) (hv : v.reusesExisting = true) (m : Model)
    (ρ : List (Name × Name)) (a b : Sym) (ha : a ∈ collect v m) (hb : b ∈ collect v m)
    (hab : renameOf ρ a.name = some b.name) (hbb : renameOf ρ b.name = none)
    (huniq : ∀ t, t ∈ collect v m → t.name = b.name → t = b) :
    sigma v m ρ a = b ∧ sigma v m ρ b = b := by
  constructor
  · rw [sigma_of_mem v m ρ a ha]
    unfold target
    rw [hab]
    simp only [hv, if_true]
    rw [existingNamed_unique ((mem_ordered v m b).mpr hb) hbb rfl
      (fun t ht => huniq t ((mem_ordered v m t).mp ht))]
  · rw [sigma_of_mem v m ρ b hb, target_of_none hbb]

/-- "Mapping two parameters to one name couples them", without any precondition on assumptions or on
the name (fix c9b6eb9): two collected symbols sent to the same name become the same symbol. -/
theorem merge_couples (v : Variant) (hv : v.oneSymbolPerNewName = true) (m : Model)
    (ρ : List (Name × Name)) (a b : Sym) (ha : a ∈ collect v m) (hb : b ∈ collect v m) (n : Name)
    (hna : renameOf ρ a.name = some n) (hnb : renameOf ρ b.name = some n) :
    sigma v m ρ a = sigma v m ρ b := by
  rw [sigma_of_mem v m ρ a ha, sigma_of_mem v m ρ b hb]
  exact target_depends_on_new_name hv ((mem_ordered v m a).mpr ha) hna hnb

/-- What happens to the assumptions in such a merge onto a fresh name: ALL sources take the
assumptions of the FIRST source in the order of the sort key `(name, assumptions)` — the later
sources lose theirs. -/
theorem merge_onto_fresh_takes_first_assumptions (v : Variant) (hv : v.oneSymbolPerNewName = true)
    (m : Model) (ρ : List (Name × Name)) (a : Sym) (ha : a ∈ collect v m) (n : Name)
    (hna : renameOf ρ a.name = some n)
    (hfresh : ∀ t, t ∈ collect v m → renameOf ρ t.name = none → t.name ≠ n) :
    ∃ a₀, a₀ ∈ collect v m ∧ renameOf ρ a₀.name = some n ∧
      (∀ t, t ∈ collect v m → renameOf ρ t.name = some n → symCmp a₀ t ≠ .gt) ∧
      (∀ b, b ∈ collect v m → renameOf ρ b.name = some n → sigma v m ρ b = ⟨n, a₀.asm⟩) := by
  obtain ⟨a₀, ha₀, hr, he, _, hfirst⟩ :=
    freshTarget_spec (v := v) (ρ := ρ) ((mem_ordered v m a).mpr ha) hna
  have hfs := hfirst hv
  have hord : ordered v m = isort symLt (collect v m) := by simp [ordered, lookupOrder, hv]
  refine ⟨a₀, (mem_ordered v m a₀).mp ha₀, hr, ?_, ?_⟩
  · intro t ht hrt
    unfold firstSource at hfs
    rw [hord] at hfs
    obtain ⟨_, _, hmin⟩ := find?_least (isort_symLt_pairwise (collect v m)) _ hfs
    exact hmin t ((mem_isort symLt _ t).mpr ht) (by simp [hrt])
  · intro b hb hrb
    rw [merge_couples v hv m ρ b a hb ha n hrb hna, sigma_of_mem v m ρ a ha,
      target_fresh hna (fun t ht => hfresh t ((mem_ordered v m t).mp ht)), he]

/-- … and nothing else: symbols with different final names stay different symbols. -/
theorem couples_nothing_else (v : Variant) (m : Model) (ρ : List (Name × Name)) (c d : Sym)
    (hc : c ∈ collect v m) (hd : d ∈ collect v m) (h : sigma v m ρ c = sigma v m ρ d) :
    nameMap ρ c.name = nameMap ρ d.name := by
  rw [sigma_of_mem v m ρ c hc, sigma_of_mem v m ρ d hd] at h
  have := congrArg Sym.name h
  rwa [target_nameMap, target_nameMap] at this

/-- The one-pair merge `{a ↦ b}` in a model with one symbol per name identifies exactly `a` and `b`. -/
theorem single_merge_couples_exactly (v : Variant) (m : Model) (a b : Sym)
    (hone : ∀ s, s ∈ collect v m → ∀ t, t ∈ collect v m → s.name = t.name → s = t)
    (c d : Sym) (hc : c ∈ collect v m) (hd : d ∈ collect v m)
    (h : sigma v m [(a.name, b.name)] c = sigma v m [(a.name, b.name)] d) :
    c = d ∨ (c.name = a.name ∧ d.name = b.name) ∨ (c.name = b.name ∧ d.name = a.name) := by
  have hn := couples_nothing_else v m _ c d hc hd h
  have key : ∀ n : Name, nameMap [(a.name, b.name)] n = if a.name = n then b.name else n := by
    intro n
    by_cases e : a.name = n <;> simp [nameMap, renameOf, alookup, e]
  rw [key, key] at hn
  by_cases e1 : a.name = c.name <;> by_cases e2 : a.name = d.name
  · exact Or.inl (hone c hc d hd (e1.symm.trans e2))
  · rw [if_pos e1, if_neg e2] at hn
    exact Or.inr (Or.inl ⟨e1.symm, hn.symm⟩)
  · rw [if_neg e1, if_pos e2] at hn
    exact Or.inr (Or.inr ⟨hn, e2.symm⟩)
  · rw [if_neg e1, if_neg e2] at hn
    exact Or.inl (hone c hc d hd hn)

/-- Witness for the unsound switch `reusesExisting = false` (the tree before 137fbcb): renaming the
coefficient `a` onto the positive radius `d` leaves two different symbols called `d` — nothing is
coupled. Replayed on the real code by `tools/props/C17.py: witness_models()`. -/
theorem witness_no_reuse :
    sigma Witness.unsoundNoReuse Witness.witnessModel [(Witness.nA, Witness.nD)] Witness.a
      ≠ sigma Witness.unsoundNoReuse Witness.witnessModel [(Witness.nA, Witness.nD)] Witness.d := by
  decide

/-- Witness for the unsound switch `oneSymbolPerNewName = false` (the tree before c9b6eb9): the
coefficient `a` (no assumptions) and the width `g` (non-negative) sent to the fresh name `k` stay two
different symbols called `k` — nothing is coupled. Replayed on the real code. -/
theorem witness_many_symbols_per_new_name :
    sigma Witness.unsoundManySymbols Witness.mergeModel [(Witness.nA, Witness.nK), ([103], Witness.nK)] Witness.a
      ≠ sigma Witness.unsoundManySymbols Witness.mergeModel [(Witness.nA, Witness.nK), ([103], Witness.nK)] Witness.g := by
  decide

/-- The same for every model and map of that unsound variant (this was finding F1). -/
theorem unsound_fresh_merge_does_not_couple (v : Variant) (hv : v.oneSymbolPerNewName = false)
    (m : Model) (ρ : List (Name × Name)) (a b : Sym) (ha : a ∈ collect v m) (hb : b ∈ collect v m)
    (n : Name) (hna : renameOf ρ a.name = some n) (hnb : renameOf ρ b.name = some n)
    (hasm : a.asm ≠ b.asm)
    (hfresh : ∀ t, t ∈ collect v m → renameOf ρ t.name = none → t.name ≠ n) :
    sigma v m ρ a ≠ sigma v m ρ b := by
  rw [sigma_of_mem v m ρ a ha, sigma_of_mem v m ρ b hb,
    target_fresh hna (fun t ht => hfresh t ((mem_ordered v m t).mp ht)),
    target_fresh hnb (fun t ht => hfresh t ((mem_ordered v m t).mp ht))]
  simp only [freshTarget, hv, Bool.false_eq_true, if_false]
  intro e
  exact hasm (Sym.mk.inj e).2

/-- Hash-seed independence (this was finding F2): since c9b6eb9 the image of a symbol depends only
on the SET of collected symbols, not on the order in which a Python `set` happens to yield them —
any two enumerations with the same members give the same image. -/
theorem target_independent_of_set_order (v : Variant) (hv : v.oneSymbolPerNewName = true)
    (ρ : List (Name × Name)) (l₁ l₂ : List Sym) (hm : ∀ s, s ∈ l₁ ↔ s ∈ l₂) (s : Sym) :
    target v ρ (lookupOrder v l₁) s = target v ρ (lookupOrder v l₂) s := by
  unfold target
  cases h : renameOf ρ s.name with
  | none => rfl
  | some n' =>
    simp only
    unfold freshTarget existingNamed firstSource lookupOrder
    simp only [hv, if_true]
    rw [find?_isort_set_invariant l₁ l₂ hm (fun s => (renameOf ρ s.name).isNone && s.name == n'),
      find?_isort_set_invariant l₁ l₂ hm (fun s => renameOf ρ s.name == some n')]

/-! ### 5. injective maps: substitution = precomposition of the environment -/

/-- A rename map that is injective on the names of the collected symbols of a model with one symbol
per name (every model the builders make) gives an injective `σ`. -/
theorem sigma_injOn (v : Variant) (m : Model) (ρ : List (Name × Name))
    (hone : ∀ s, s ∈ collect v m → ∀ t, t ∈ collect v m → s.name = t.name → s = t)
    (hinj : InjOnNames ρ (collect v m)) : InjOn (sigma v m ρ) (collect v m) := by
  intro s hs t ht h
  exact hone s hs t ht (hinj s hs t ht (couples_nothing_else v m ρ s t hs ht h))

/-- The values of the renamed model's expression on any environment are the values of the original
on the precomposed environment (for EVERY map, merging ones included). -/
theorem eval_expr_rename {α : Type} (I : Interp α) (v : Variant) (m : Model) (ρ : List (Name × Name))
    (hρ : ρ ≠ []) (env : Sym → α) :
    (rename v m ρ).expr.eval I env = m.expr.eval I (fun s => env (sigma v m ρ s)) := by
  rw [(rename_attributes v m ρ hρ).1, eval_xreplace]

/-- Main semantic theorem. For the sound collection (`collectsParams`), a well-formed model and a
`σ` that is injective on the collected symbols (e.g. by `sigma_injOn`), the intensity of the renamed
model — parameters from its own `parameter_defaults`, kinematic variables from its own definitions,
data `data'` — equals the intensity of the original on every data that `data'` carries over
(`data' (σ s) = data s`, i.e. `data' = data ∘ σ⁻¹`). The carrier `α` and the interpretation of
constants, values and operators are arbitrary. -/
theorem value_rename {α : Type} (I : Interp α) (v : Variant) (hv : v.collectsParams = true)
    (m : Model) (ρ : List (Name × Name)) (hρ : ρ ≠ []) (hwf : m.WF)
    (hinj : InjOn (sigma v m ρ) (collect v m)) (data data' : Sym → α)
    (hdata : ∀ s, s ∈ collect v m → data' (sigma v m ρ s) = data s) :
    (rename v m ρ).value I data' = m.value I data := by
  have hmem := mem_collect_of_collectsParams v hv m
  have hpk : ∀ k, k ∈ m.paramKeys → k ∈ collect v m := fun k hk =>
    (hmem k).mpr (Or.inr (Or.inr (Or.inl hk)))
  have hkk : ∀ k, k ∈ m.kinKeys → k ∈ collect v m := fun k hk => (hmem k).mpr (Or.inr (Or.inl hk))
  -- parameters
  have hparams := params_no_collision v m ρ hρ hwf.1 (fun s hs t ht e => hinj s (hpk s hs) t (hpk t ht) e)
  have hA : ∀ s, s ∈ collect v m →
      paramEnv I (rename v m ρ) data' (sigma v m ρ s) = paramEnv I m data s := by
    intro s hs
    unfold paramEnv
    rw [hparams]
    have := alookup_map_inj (sigma v m ρ) (fun x : Nat => x) m.params s
      (fun k hk e => hinj k (hpk k (by simpa [keys, Model.paramKeys] using hk)) s hs e)
    simp only [Option.map_id'] at this
    rw [this]
    cases alookup s m.params with
    | none => exact hdata s hs
    | some val => rfl
  -- kinematic variables
  have hperm := kin_no_definition_lost v m ρ hρ hwf.2 (fun s hs t ht e => hinj s (hkk s hs) t (hkk t ht) e)
  have hnd : (keys ((rename v m ρ).kinvars)).Nodup := by
    have h1 : (keys ((rename v m ρ).kinvars)).Perm
        (keys (m.kinvars.map (fun kv => (sigma v m ρ kv.1, kv.2.xreplace (sigma v m ρ))))) := hperm.map _
    rw [h1.nodup_iff]
    have : keys (m.kinvars.map (fun kv => (sigma v m ρ kv.1, kv.2.xreplace (sigma v m ρ))))
        = m.kinKeys.map (sigma v m ρ) := by
      simp [keys, Model.kinKeys, List.map_map, Function.comp_def]
    rw [this]
    exact nodup_map_of_injOn (fun s hs t ht e => hinj s (hkk s hs) t (hkk t ht) e) hwf.2
  have hB : ∀ s, s ∈ collect v m →
      fullEnv I (rename v m ρ) data' (sigma v m ρ s) = fullEnv I m data s := by
    intro s hs
    unfold fullEnv
    rw [alookup_perm hperm hnd]
    rw [alookup_map_inj (sigma v m ρ) (fun e : Expr => e.xreplace (sigma v m ρ)) m.kinvars s
      (fun k hk e => hinj k (hkk k (by simpa [keys, Model.kinKeys] using hk)) s hs e)]
    cases hl : alookup s m.kinvars with
    | none => simpa using hA s hs
    | some e =>
      simp only [Option.map_some]
      rw [eval_xreplace]
      apply eval_congr
      intro t ht
      exact hA t ((hmem t).mpr (Or.inr (Or.inr (Or.inr ⟨(s, e), alookup_mem hl, ht⟩))))
  unfold Model.value
  rw [(rename_attributes v m ρ hρ).1, eval_xreplace]
  apply eval_congr
  intro s hs
  exact hB s ((hmem s).mpr (Or.inl hs))

/-- The statement of the property for injective rename maps, in one piece: a map that is injective
on the names a (sound) model with one symbol per name mentions never changes the intensity. -/
theorem value_rename_of_injective_names {α : Type} (I : Interp α) (v : Variant) (hv : v.sound)
    (m : Model) (ρ : List (Name × Name)) (hρ : ρ ≠ []) (hwf : m.WF)
    (hone : ∀ s, s ∈ collect v m → ∀ t, t ∈ collect v m → s.name = t.name → s = t)
    (hinj : InjOnNames ρ (collect v m)) (data data' : Sym → α)
    (hdata : ∀ s, s ∈ collect v m → data' (sigma v m ρ s) = data s) :
    (rename v m ρ).value I data' = m.value I data :=
  value_rename I v hv.1 m ρ hρ hwf (sigma_injOn v m ρ hone hinj) data data' hdata

/-! ### 6. C01 closure is preserved -/

/-- If every symbol of `expression` is a parameter or a kinematic variable and never both, the same
holds after renaming — provided the map does not identify a parameter with a kinematic variable
(with an injective `σ` that is automatic, see `closed_preserved_of_injOn`). The inclusion half needs
no hypothesis at all: key sets are mapped by the same `σ` as the expression. -/
theorem closed_preserved (v : Variant) (m : Model) (ρ : List (Name × Name)) (hc : m.closed)
    (hsep : ∀ p, p ∈ m.paramKeys → ∀ k, k ∈ m.kinKeys → sigma v m ρ p ≠ sigma v m ρ k) :
    (rename v m ρ).closed := by
  by_cases hρ : ρ = []
  · subst hρ; rw [rename_empty]; exact hc
  constructor
  · intro s hs
    rw [(rename_attributes v m ρ hρ).1, syms_xreplace, List.mem_map] at hs
    obtain ⟨s₀, hs₀, rfl⟩ := hs
    rcases hc.1 s₀ hs₀ with h | h
    · exact Or.inl ((param_keys_image v m ρ hρ _).mpr ⟨s₀, h, rfl⟩)
    · exact Or.inr ((kin_keys_image v m ρ hρ _).mpr ⟨s₀, h, rfl⟩)
  · intro s hp hk
    obtain ⟨p, hp', rfl⟩ := (param_keys_image v m ρ hρ s).mp hp
    obtain ⟨k, hk', e⟩ := (kin_keys_image v m ρ hρ _).mp hk
    exact hsep p hp' k hk' e

theorem closed_preserved_of_injOn (v : Variant) (hv : v.collectsParams = true) (m : Model)
    (ρ : List (Name × Name)) (hc : m.closed) (hinj : InjOn (sigma v m ρ) (collect v m)) :
    (rename v m ρ).closed := by
  apply closed_preserved v m ρ hc
  intro p hp k hk e
  have hmem := mem_collect_of_collectsParams v hv m
  have := hinj p ((hmem p).mpr (Or.inr (Or.inr (Or.inl hp)))) k ((hmem k).mpr (Or.inr (Or.inl hk))) e
  exact hc.2 p hp (this ▸ hk)

/-! ### 7. unknown names are ignored -/

/-- A map none of whose names is the name of a collected symbol changes no expression and no key. -/
theorem unknown_names_sigma_id (v : Variant) (m : Model) (ρ : List (Name × Name))
    (h : ∀ s, s ∈ collect v m → renameOf ρ s.name = none) (s : Sym) : sigma v m ρ s = s := by
  by_cases hs : s ∈ collect v m
  · exact (sigma_spec v m ρ s).2.1 (h s hs)
  · exact sigma_of_not_mem v m ρ s hs

/-- … and the model as a whole comes back unchanged when it is in the form the constructor
produces (distinct dictionary keys, converters' order). -/
theorem unknown_names_ignored (v : Variant) (m : Model) (ρ : List (Name × Name))
    (h : ∀ s, s ∈ collect v m → renameOf ρ s.name = none) (hwf : m.WF) (hord : m.Ordered) :
    rename v m ρ = m := by
  by_cases hρ : ρ = []
  · subst hρ; exact rename_empty v m
  have hid : sigma v m ρ = fun s => s := funext (unknown_names_sigma_id v m ρ h)
  obtain ⟨h1, h2, h3, h4, h5, h6⟩ := rename_attributes v m ρ hρ
  rw [hid] at h1 h2 h3 h4 h5 h6
  have e3 : (m.amplitudes.map (fun a => { a with defn := a.defn.xreplace (fun s => s) })) = m.amplitudes := by
    conv => rhs; rw [← List.map_id m.amplitudes]
    apply List.map_congr_left
    intro a _
    simp [xreplace_id]
  have e4 : (m.params.map (fun kv => (kv.1, kv.2))) = m.params := by simp
  have e5 : (m.components.map (fun c => (c.1, c.2.xreplace (fun s => s)))) = m.components := by
    conv => rhs; rw [← List.map_id m.components]
    apply List.map_congr_left
    intro c _
    simp [xreplace_id]
  have e6 : (m.kinvars.map (fun kv => (kv.1, kv.2.xreplace (fun s => s)))) = m.kinvars := by
    conv => rhs; rw [← List.map_id m.kinvars]
    apply List.map_congr_left
    intro c _
    simp [xreplace_id]
  rw [xreplace_id] at h1 h2
  rw [e3] at h3
  rw [e4, dictOfList_of_nodup _ (by simpa [keys, Model.paramKeys] using hwf.1)] at h4
  rw [e5] at h5
  rw [e6, dictOfList_of_nodup _ (by simpa [keys, Model.kinKeys] using hwf.2)] at h6
  unfold orderAmplitudes at h3
  unfold orderComponentMapping at h5
  unfold orderSymbolMapping at h6
  rw [isort_of_sorted _ _ hord.1] at h3
  rw [isort_of_sorted _ _ hord.2.2] at h5
  rw [isort_of_sorted _ _ hord.2.1] at h6
  cases hm : rename v m ρ
  cases m
  simp_all

/-! ### non-vacuity -/

open Witness in
/-- The fixed variant on the witness model: `m_0 ↦ mgamma` renames the unused parameter … -/
example : (rename Variant.fixed witnessModel [(nM0, nMgamma)]).paramKeys = [a, d, ⟨nMgamma, declNonnegative⟩] := by
  decide

open Witness in
/-- … `a ↦ d` couples `a` with the existing positive `d` (one symbol, `d`'s assumptions) … -/
example : sigma Variant.fixed witnessModel [(nA, nD)] a = d ∧
    (rename Variant.fixed witnessModel [(nA, nD)]).paramKeys = [d, m0] ∧
    (rename Variant.fixed witnessModel [(nA, nD)]).expr.syms = [d, x, d, x] := by
  decide

open Witness in
/-- … the hypotheses of `value_rename` are satisfiable by a non-trivial map (three symbols renamed,
one of them a kinematic variable, one a four-momentum) … -/
example : witnessModel.WF ∧ witnessModel.closed ∧
    InjOnNames [(nA, nK), (nX, nTheta), (nP0, [113])] (collect Variant.fixed witnessModel) ∧
    (∀ s, s ∈ collect Variant.fixed witnessModel → ∀ t, t ∈ collect Variant.fixed witnessModel →
      s.name = t.name → s = t) := by
  refine ⟨⟨by decide, by decide⟩, ⟨by decide, by decide⟩, by unfold InjOnNames; decide, by decide⟩

open Witness in
/-- … the fixed variant couples `a` (no assumptions) and `g` (non-negative) under the fresh name `k`:
one symbol, with the assumptions of the first source `a` … -/
example : sigma Variant.fixed mergeModel [(nA, nK), ([103], nK)] a = ⟨nK, declNone⟩ ∧
    sigma Variant.fixed mergeModel [(nA, nK), ([103], nK)] g = ⟨nK, declNone⟩ ∧
    (rename Variant.fixed mergeModel [(nA, nK), ([103], nK)]).paramKeys = [⟨nK, declNone⟩] := by decide

open Witness in
/-- … the hypotheses of `renamed_symbol_has_source_declaration` and `rename_back_restores_symbol` hold for the
non-zero coupling: `g ↦ k ↦ g` gives the parameter keys and the symbols of the expression back … -/
example : (∀ t, t ∈ collect Variant.fixed nonzeroModel → renameOf [([103], nK)] t.name = some nK → t = gNonzero) ∧
    (rename Variant.fixed nonzeroModel [([103], nK)]).paramKeys = [a, ⟨nK, declNonzero⟩] ∧
    (rename Variant.fixed (rename Variant.fixed nonzeroModel [([103], nK)]) [(nK, [103])]).paramKeys
      = nonzeroModel.paramKeys ∧
    (rename Variant.fixed (rename Variant.fixed nonzeroModel [([103], nK)]) [(nK, [103])]).expr.syms
      = nonzeroModel.expr.syms := by decide

open Witness in
/-- … the declarations of the witness symbols decode to the `assumptions0` of `Symbol("x", real=True)` etc. … -/
example : declFacts declNone = [(2, true)] ∧
    declFacts declReal = [(2, true), (3, true), (11, true), (12, true), (13, true), (14, false), (15, false), (28, true)] ∧
    declFacts noFacts = [] ∧ mkDecl (declFacts declPositive) = declPositive := by decide

open Witness in
/-- … and merging two kinematic variables (precondition (iii) violated) really drops a definition. -/
example : (rename Variant.fixed twoKinModel [(nTheta, nX)]).kinvars.length = 1 ∧
    twoKinModel.kinvars.length = 2 := by decide

end Ampverif.Props.C17
