/-
C16 — cached unfolding equals doit() whatever the cache has seen.

Property theorems about the executable model `Ampverif.Model.C16` of
`ampform.sympy.perform_cached_doit` (the model is tied to /repo on every run by the T2
correspondence in tools/props/C16.py: same scripted directory histories on the real function and
on this model, the variant being inferred from the real code first).

`Safe w v s ops` : every call of the history `ops` (calls, steps and crashes of any number of
processes in any interleaving, started from directory state `s`) that returned, returned
`value (doit expr)` — it neither returned anything else nor raised.
Only property theorems and non-vacuity examples live here; lemmas are in Lemmas/C16Inv.lean.
-/
import Ampverif.Lemmas.C16Inv

namespace Ampverif.Props.C16
open Ampverif.Model.C16

/-! ### the property, for all histories -/

/-- **C16.** For the fixed variant, for EVERY world (any `doit`, any file-name function — in
particular `sha256 ∘ str` with a non-injective `str`, and any seeded hash), every admissible
initial directory (any honest files under any names), and every history — any number of calls by
any number of processes, crashes at any step (after any prefix of the bytes written), any
interleaving at step granularity — every call that returns, returns `doit expr`, and no call
raises.  Unbounded in the length of the history and the number of processes.

The comparison `cached_key == expr` is the world's `keyEq` (the code's own `==`, decided by the
decorator's `_hashable_content`), NOT identity of expressions; the theorem needs, and states, the
premise `w.KeyOk`: `keyEq a b → doit a = doit b`.  Nothing else is asked of `keyEq` (it may be
non-reflexive: then the cache never hits; or non-injective: `C16_safe_noninjective`).  The
premise is an obligation the correspondence checks on every pair of corpus expressions with the
real `==`; without it the statement is false (`C16_witness_key_equality`). -/
theorem C16_safe (w : World) (hk : w.KeyOk) (v : Variant) (hv : v.sound) (s₀ : State)
    (h₀ : Initial w s₀) (ops : List Op) : Safe w v s₀ ops := by
  cases hv
  exact run_events hk ops h₀.inv

/-- identity of expressions (the default `keyEq`) satisfies the premise, whatever `key`/`doit` -/
theorem C16_keyOk_identity (key : Mode → Expr → Nat) (doit : Expr → Val) :
    ({ key := key, doit := doit } : World).KeyOk := by
  intro a b h
  have : a = b := by simpa using h
  rw [this]

/-- no call raises because of the directory contents (corollary, stated separately) -/
theorem C16_never_raises (w : World) (hk : w.KeyOk) (v : Variant) (hv : v.sound) (s₀ : State)
    (h₀ : Initial w s₀) (ops : List Op) :
    ∀ ev ∈ events w v s₀ ops, ev.out ≠ .raised ∧ ev.out ≠ .tuple := by
  intro ev hev
  rw [C16_safe w hk v hv s₀ h₀ ops ev hev]
  exact ⟨(by intro h; cases h), (by intro h; cases h)⟩

/-- The directory invariant after any history: every file, under a final or a temp name, that
loads as a record `(e', x)` has `x = doit e'`; names never share a file. -/
theorem C16_directory_invariant (w : World) (v : Variant) (hv : v.sound) (s₀ : State)
    (h₀ : Initial w s₀) (ops : List Op) (n : Name) (i : Nat)
    (_hn : (run w v s₀ ops).1.fs.dir n = some i) (e' : Expr) (x : Val)
    (hl : load ((run w v s₀ ops).1.fs.ino i) = .pair e' x) : x = w.doit e' := by
  cases hv
  exact (run_inv ops h₀.inv).honest i e' x hl

/-- Calls do return (the statement above is not about an empty set): whatever the variant and
the directory, a call that is not crashed ends within 10 of its own steps with a reported
outcome; steps of other processes do not undo its progress (`step_decreases`). -/
theorem C16_calls_return (w : World) (v : Variant) (s : State) (p : Nat) (m : Mode) (e : Expr)
    (hp : s.pc p = .idle) :
    ∃ ev ∈ events w v s (.call p m e :: steps p 10), ev.p = p := by
  have h1 : (applyOp w v s (.call p m e)).1 = setPc s p (.started m e) := by
    simp [applyOp, hp]
  have h2 : (applyOp w v s (.call p m e)).2 = none := by simp [applyOp, hp]
  obtain ⟨ev, hev, hpp⟩ := call_returns w v p 10 (setPc s p (.started m e))
    (by simp [setPc]) (by simp [setPc, remaining])
  refine ⟨ev, ?_, hpp⟩
  simp only [events, run, h1, h2, Option.toList, List.nil_append]
  exact hev

/-! ### every switch is necessary: kernel-checked counterexamples, replayable on the real code -/

/-- exprs `2k` and `2k+1` print identically (`str`), `doit` tells them apart -/
def w₀ : World := World.ofHashes (fun e => e / 2) id (fun s e => 100 * s + e) (fun e => 10 + e)

def empty₀ : State := initState []

/-- a whole call of process `p` run alone -/
def solo (p : Nat) (m : Mode) (e : Expr) : List Op := .call p m e :: steps p 10

/-- A key equality that is NOT injective and violates the premise: `keyEq` looks at `e / 2` only
(two bound methods represented by one "module.qualname"), while `doit` tells `2k` and `2k+1`
apart.  Every switch is as in the fixed variant, and still the second expression is served the
first one's unfolding, in the same history or from a directory left by an earlier one. -/
def wq : World := { w₀ with keyEq := fun a b => a / 2 == b / 2 }

theorem C16_witness_key_equality :
    ¬ wq.KeyOk ∧ ¬ Safe wq Variant.fixed empty₀ (solo 0 .sha 0 ++ solo 0 .sha 1) ∧
    ¬ Safe wq Variant.fixed (initState [(.final .sha 0, serNew 1 11)]) (solo 0 .sha 0) := by
  refine ⟨?_, by decide, by decide⟩
  intro h
  exact absurd (h 0 1 (by decide)) (by decide)

/-- A non-injective key equality that DOES satisfy the premise (expressions `2k`, `2k+1` are
identified and unfold alike: two classes of one qualified name with the same body) is safe: an
instance of `C16_safe`, with the hit across the two expressions visible in the events. -/
def wn : World :=
  { key := fun _ e => e / 2, doit := fun e => 10 + e / 2, keyEq := fun a b => a / 2 == b / 2 }

theorem wn_keyOk : wn.KeyOk := by
  intro a b h
  have h' : a / 2 = b / 2 := by simpa [wn] using h
  simp [wn, h']

theorem C16_safe_noninjective (s₀ : State) (h₀ : Initial wn s₀) (ops : List Op) :
    Safe wn .fixed s₀ ops := C16_safe wn wn_keyOk .fixed rfl s₀ h₀ ops

example : events wn .fixed empty₀ (solo 0 .sha 0 ++ solo 1 .sha 1) =
    [⟨0, 0, .value 10⟩, ⟨1, 1, .value 10⟩] := by decide

/-- A key equality that is not even reflexive (a bound method unpickled from the record is never
`==` to the one of the request): the premise holds vacuously, every call recomputes. -/
def wirr : World := { w₀ with keyEq := fun _ _ => false }

example : wirr.KeyOk := by intro a b h; simp [wirr] at h

example : events wirr .fixed empty₀ (solo 0 .sha 0 ++ solo 1 .sha 0) =
    [⟨0, 0, .value 10⟩, ⟨1, 0, .value 10⟩] := by decide

/-- `checksKey = false` (cached value returned without comparing the stored expression): the
second of two expressions that print identically gets the first one's unfolding. -/
theorem C16_witness_collision :
    ¬ Safe w₀ { Variant.fixed with checksKey := false } empty₀ (solo 0 .sha 0 ++ solo 0 .sha 1) := by
  decide

/-- `storesKey = false` (bare result pickled): same collision. -/
theorem C16_witness_no_stored_key :
    ¬ Safe w₀ { Variant.fixed with storesKey := false } empty₀ (solo 0 .sha 0 ++ solo 0 .sha 1) := by
  decide

/-- `tolerant = false`: a truncated record under the final name makes the call raise. -/
theorem C16_witness_truncated :
    ¬ Safe w₀ { Variant.fixed with tolerant := false }
      (initState [(.final .sha 0, (serNew 0 10).take 2)]) (solo 0 .sha 0) := by
  decide

/-- `tolerant = false`: so does a file in the format written before 6f553a3. -/
theorem C16_witness_old_format :
    ¬ Safe w₀ { Variant.fixed with tolerant := false }
      (initState [(.final .sha 0, serOld 10)]) (solo 0 .sha 0) := by
  decide

/-- `atomic = false` (record written straight to the final name), everything else fixed, no
crash: two writers of string-equal expressions interleave their writes into the same inode; the
file ends up as (expr 0, doit expr 1), which a later call for expr 0 accepts. -/
def raceOps : List Op :=
  [.call 1 .sha 0, .call 2 .sha 1, .step 1, .step 2, .step 1, .step 2,
   .step 2, .step 2,            -- 2 writes hdr, key 1
   .step 1, .step 1, .step 1,   -- 1 writes hdr, key 0, val 10
   .step 2,                     -- 2 writes val 11
   .step 1, .step 2,            -- both write stop
   .step 1, .step 2]            -- both close and return (correctly)
  ++ solo 3 .sha 0              -- served (0, 11)

theorem C16_witness_race :
    ¬ Safe w₀ { Variant.fixed with atomic := false } empty₀ raceOps := by
  decide

/-- the code before 6f553a3: a reader that meets a writer between `open(…, "wb")` and the end of
`pickle.dump` raises -/
theorem C16_witness_race_legacy :
    ¬ Safe w₀ Variant.legacy empty₀
      [.call 1 .sha 0, .step 1, .step 1,           -- writer has truncated/created the file
       .call 2 .sha 0, .step 2, .step 2, .step 2]  -- reader: exists, open, load → raises
    := by
  decide

/-- the code before 6f553a3: a writer killed after two tokens leaves a file that makes every
later call raise -/
theorem C16_witness_crash_legacy :
    ¬ Safe w₀ Variant.legacy empty₀
      ([.call 1 .sha 0, .step 1, .step 1, .step 1, .step 1, .crash 1] ++ solo 2 .sha 0) := by
  decide

/-- `tempPerCaller = false` (two callers that share `os.getpid()`: threads of one process, or
processes in different pid namespaces): the second `os.replace` finds its temp file gone. -/
theorem C16_witness_shared_temp :
    ¬ Safe w₀ { Variant.fixed with tempPerCaller := false } empty₀
      ([.call 1 .sha 0, .call 2 .sha 0] ++ steps 1 7 ++ steps 2 7 ++ [.step 1, .step 2]) := by
  decide

/-! ### non-vacuity -/

example : Variant.fixed.sound := rfl
example : ¬ Variant.legacy.sound := by decide

/-- a directory that has seen a lot: a truncated record, an old-format file, garbage, an empty
file, the complete record of the *other* expression under the shared name, a stale temp file -/
def seen₀ : List (Name × Bytes) :=
  [(.final .sha 0, serNew 1 11),            -- record of expr 1; expr 0 has the same file name
   (.final .sha 1, (serNew 2 12).take 3),   -- truncated
   (.final .sha 2, serOld 14),              -- old format
   (.final (.seeded 7) 704, [.junk 3, .junk 1]),
   (.final (.seeded 7) 705, []),
   (.temp .sha 0 1, (serNew 0 10).take 1)]  -- left by a crashed process 1

example : Initial w₀ (initState seen₀) := by
  apply initState_initial
  intro nb hnb
  simp [seen₀] at hnb
  rcases hnb with h | h | h | h | h | h <;> subst h <;> intro e x hl <;>
    simp [serNew, serOld, load, w₀, World.ofHashes] at hl ⊢
  obtain ⟨rfl, rfl⟩ := hl
  rfl

/-- an interleaved history with a collision, crashes and a cache hit; the events are exactly the
correct values -/
def hist₀ : List Op :=
  [.call 1 .sha 0, .call 2 .sha 1, .step 1, .step 2, .step 1, .step 1,   -- 1: record of expr 1 ≠ expr 0 → miss
   .step 2, .step 2,                                                     -- 2: hit (11)
   .step 1, .step 1, .step 1, .crash 1,                                   -- 1 killed after 2 tokens
   .call 1 (.seeded 7) 4, .call 3 .sha 2] ++ steps 1 10 ++ steps 3 11 ++ solo 2 .sha 2

example : events w₀ .fixed (initState seen₀) hist₀ =
    [⟨2, 1, .value 11⟩, ⟨1, 4, .value 14⟩, ⟨3, 2, .value 12⟩, ⟨2, 2, .value 12⟩] := by
  decide

example : Safe w₀ .fixed (initState seen₀) hist₀ := by decide

/-- the same history is unsafe for the code before 6f553a3 -/
example : ¬ Safe w₀ .legacy (initState seen₀) hist₀ := by decide

end Ampverif.Props.C16
