/-
C05 — spin alignment never changes a single-topology intensity.

Only property theorems and non-vacuity examples live here. The models are
`Model/C05Spin.lean` (`create_spin_range`) and `Model/C05Align.lean` (skeletons of the aligned
amplitude); `Gen/C05Wigner.lean` is regenerated from the installed SymPy.
-/
import Ampverif.Lemmas.C05Range
import Ampverif.Lemmas.C05Wiring
import Ampverif.Lemmas.C05Unitary
import Ampverif.Lemmas.C05Tensor
import Ampverif.Lemmas.C05Model
import Ampverif.Lemmas.C05Wigner
import Ampverif.Lemmas.C05Pools

namespace Ampverif.Props.C05
open Ampverif.Model.C05Spin Ampverif.Model.C05Align
open Ampverif.Lemmas.C05Wiring Ampverif.Lemmas.C05Unitary Ampverif.Lemmas.C05Model
open Ampverif.Lemmas.C05Range Ampverif.Lemmas.C05Wigner Ampverif.Lemmas.C05Tensor
open Ampverif.Gen.C05Wigner

/-! ### `create_spin_range`: total, and exactly `-s, -s+1, …, s` (minus 0 iff asked for and present) -/

/-- For the repaired guard (6cd7ef9) and EVERY spin `s = s2/2`, every flag: the call returns
(no exception, the `while` loop ends by its own condition) the list `-s, …, s` in unit steps,
without `0` iff `no_zero_spin` and `s` is a positive integer. -/
theorem C05_range (v : Variant) (hv : v.sound) (s2 : ℕ) (flag : Bool) :
    spinRange v (s2 : ℤ) flag = .ok (specRange s2 flag) :=
  spinRange_sound v hv s2 flag

/-- … in particular the pool is the complete range unless the particle is a massless boson. -/
theorem C05_range_complete (v : Variant) (hv : v.sound) (s2 : ℕ) (flag : Bool)
    (h : ¬ (flag = true ∧ s2 % 2 = 0 ∧ 0 < s2)) :
    spinRange v (s2 : ℤ) flag = .ok (fullRange s2) := by
  rw [spinRange_sound v hv, specRange_full s2 flag h]

/-- The pinned guard (`len > 1` only) raises `ValueError` for spin 1/2 with `no_zero_spin`:
the massless spin-1/2 final state of the property statement. Replayable on the real function. -/
theorem C05_witness_range_pinned : spinRange pinned 1 true = .valueError := by decide

/-- … and for every half-integer spin. -/
theorem C05_witness_range_pinned_all (k : ℕ) : spinRange pinned ((2 * k + 1 : ℕ) : ℤ) true = .valueError := by
  unfold spinRange
  rw [loop_full]
  have hmem : (0 : ℤ) ∉ fullRange (2 * k + 1) := fun h => by
    have := (zero_mem_fullRange (2 * k + 1)).mp h; omega
  have hrem : ∀ l : List ℤ, (0 : ℤ) ∉ l → pyRemove 0 l = none := by
    intro l
    induction l with
    | nil => intro _; rfl
    | cons y ys ih =>
      intro h
      have hy : y ≠ 0 := fun e => h (by simp [e])
      have hys : (0 : ℤ) ∉ ys := fun e => h (by simp [e])
      simp [pyRemove, hy, ih hys]
  simp [pinned, length_fullRange, hrem _ hmem]

example : spinRange fixed 2 true = .ok [-2, 2] := by decide
example : spinRange fixed 1 true = .ok [-1, 1] := by decide
example : spinRange fixed 5 false = .ok [-5, -3, -1, 1, 3, 5] := by decide
example : spinRange fixed 0 true = .ok [0] := by decide

/-! ### unitary product: `Σ_m |Σ_λ Πᵢ Uᵢ(mᵢ,λᵢ) A_λ|² = Σ_λ |A_λ|²` -/

/-- Mathlib form: any finite family of states `ι`, any finite index types `d i`, unitary `U i`. -/
theorem C05_unitary_product {ι : Type*} [Fintype ι] [DecidableEq ι] {d : ι → Type*}
    [∀ i, Fintype (d i)] [∀ i, DecidableEq (d i)]
    (U : ∀ i, Matrix (d i) (d i) ℂ) (hU : ∀ i, U i ∈ Matrix.unitaryGroup (d i) ℂ)
    (A : (∀ i, d i) → ℂ) :
    ∑ m : (∀ i, d i), Complex.normSq (∑ l : (∀ i, d i), (∏ i, U i (m i) (l i)) * A l)
      = ∑ l : (∀ i, d i), Complex.normSq (A l) :=
  unitary_product U hU A

/-- List form used for the skeletons: one chain matrix per state, applied state by state, pools
as lists of doubled projections. Any number of states, any pools without duplicates. -/
theorem C05_unitary_product_lists (D : ℕ → Angle → ℤ → ℤ → ℂ) (specs : List Spec)
    (hnd : (specs.map Spec.state).Nodup) (hiso : ∀ s ∈ specs, SpecIso D s)
    (A : List ℤ → ℂ) (env : Env) :
    psum (flatten specs).outer (fun e => Complex.normSq (alignedS D specs A e)) env
      = totalNorm (specs.map specPool) A :=
  alignedS_norm D specs hnd hiso A env

/-! ### wiring: the flat skeleton IS the product of per-state chain matrices -/

/-- For every list of per-state descriptions (any number of states, any chain lengths), every
interpretation `D` of the Wigner factors, every amplitude tensor and every commutative semiring:
the inner `PoolSum` over the named indices of the flat skeleton equals the state-by-state
contraction of `A` with the chain matrices; a negated amplitude index is the index permutation
`λ ↦ -λ`. -/
theorem C05_wiring {R : Type*} [CommSemiring R] (D : ℕ → Angle → ℤ → ℤ → R) (specs : List Spec)
    (hnd : (specs.map Spec.state).Nodup) (A : List ℤ → R) (env : Env) :
    amplitude D A (flatten specs) env = alignedS D specs A env :=
  wiring D specs hnd A env

/-! ### Wigner small-d from the installed SymPy: `d dᵀ = 1` and `dᵀ d = 1` for j ≤ 5/2 -/

theorem C05_d_unitary (j2 : ℕ) (hj : j2 ≤ 5) (β : ℝ) (a b : ℕ) (ha : a ≤ j2) (hb : b ≤ j2) :
    (∑ k ∈ Finset.range (j2 + 1),
        dtab j2 (Real.cos (β / 2)) (Real.sin (β / 2)) (Real.sqrt 2) (Real.sqrt 3) (Real.sqrt 5) a k
        * dtab j2 (Real.cos (β / 2)) (Real.sin (β / 2)) (Real.sqrt 2) (Real.sqrt 3) (Real.sqrt 5) b k
      = if a = b then 1 else 0)
    ∧ (∑ k ∈ Finset.range (j2 + 1),
        dtab j2 (Real.cos (β / 2)) (Real.sin (β / 2)) (Real.sqrt 2) (Real.sqrt 3) (Real.sqrt 5) k a
        * dtab j2 (Real.cos (β / 2)) (Real.sin (β / 2)) (Real.sqrt 2) (Real.sqrt 3) (Real.sqrt 5) k b
      = if a = b then 1 else 0) :=
  ⟨dAt_row j2 hj β a b (by omega) (by omega), dAt_col j2 hj β a b (by omega) (by omega)⟩

/-- `D^j(α,β,γ) = e^{-imα} d^j(β) e^{-im'γ}` is unitary on the complete range, j ≤ 5/2, all real angles. -/
theorem C05_D_unitary (j2 : ℕ) (hj : j2 ≤ 5) (α β γ : ℝ) :
    PoolIso (fullRange j2) (Dmat j2 α β γ) ∧ PoolIso (fullRange j2) (fun m m' => Dmat j2 α β γ m' m) :=
  ⟨Dmat_iso j2 hj α β γ, Dmat_iso_transpose j2 hj α β γ⟩

example : dtab 1 1 0 0 0 0 0 0 = 1 := by simp [dtab, d1]

/-! ### the three alignments have the same intensity (skeleton level) -/

/-- **Axis-angle.** For every topology, every list of outer states with distinct edge ids and
complete helicity sets, none of them a massless boson, every interpretation of the Wigner factors
that is unitary on complete ranges, every amplitude tensor: the axis-angle skeleton and the
unaligned skeleton have the same intensity. -/
theorem C05_axis_invariant (D : ℕ → Angle → ℤ → ℤ → ℂ) {ok : ℕ → Prop} (hD : DUnitary ok D)
    (v : Variant) (hv : v.sound) (t : Tree) (states : List StateInfo) (specs : List Spec)
    (hids : (states.map StateInfo.e).Nodup)
    (hst : ∀ s ∈ states, ok s.s2 ∧ Complete s ∧ ¬ MasslessBoson s)
    (h : axisSpecs v t states = some specs) (A : List ℤ → ℂ) (env : Env) :
    intensity D A (flatten specs) env = intensity D A (flatten (noneSpecs states)) env := by
  obtain ⟨h1, h2, h3⟩ := axisSpecs_iso D hD v hv t states specs hst h
  rw [← h2]
  exact aligned_eq_unaligned D specs (h1 ▸ hids) h3 A env

/-- **Dalitz-plot decomposition**, any reference subsystem: same statement (massless particles
are not special here; the hypothesis is completeness of the helicity sets). -/
theorem C05_dpd_invariant (D : ℕ → Angle → ℤ → ℤ → ℂ) {ok : ℕ → Prop} (hD : DUnitary ok D)
    (ref : ℤ) (t : Tree) (states : List StateInfo) (specs : List Spec)
    (hids : (states.map StateInfo.e).Nodup) (hst : ∀ s ∈ states, ok s.s2 ∧ Complete s)
    (h : dpdSpecs ref t states = some specs) (A : List ℤ → ℂ) (env : Env) :
    intensity D A (flatten specs) env = intensity D A (flatten (noneSpecs states)) env := by
  obtain ⟨h1, h2, h3⟩ := dpdSpecs_iso D hD ref t states specs hst h
  rw [← h2]
  exact aligned_eq_unaligned D specs (h1 ▸ hids) h3 A env

/-- the Wigner functions built from the regenerated tables, for any assignment of real Euler
angles to the rotations of the skeleton -/
noncomputable def wignerD (ang : Angle → ℝ × ℝ × ℝ) (j2 : ℕ) (a : Angle) : ℤ → ℤ → ℂ :=
  Dmat j2 (ang a).1 (ang a).2.1 (ang a).2.2

theorem wignerD_unitary (ang : Angle → ℝ × ℝ × ℝ) : DUnitary (· ≤ 5) (wignerD ang) :=
  fun j2 _ hj => C05_D_unitary j2 hj _ _ _

/-- **Axis-angle with the actual Wigner-D functions, spins ≤ 5/2, all angles.** No hypothesis on
`D` is left: the only input from outside Lean is that the skeleton is the one the code builds
(correspondence run) and that `Dmat` is what SymPy's `Rotation.D` evaluates to. -/
theorem C05_axis_invariant_wigner (ang : Angle → ℝ × ℝ × ℝ)
    (v : Variant) (hv : v.sound) (t : Tree) (states : List StateInfo) (specs : List Spec)
    (hids : (states.map StateInfo.e).Nodup)
    (hst : ∀ s ∈ states, s.s2 ≤ 5 ∧ Complete s ∧ ¬ MasslessBoson s)
    (h : axisSpecs v t states = some specs) (A : List ℤ → ℂ) (env : Env) :
    intensity (wignerD ang) A (flatten specs) env
      = intensity (wignerD ang) A (flatten (noneSpecs states)) env :=
  C05_axis_invariant (wignerD ang) (wignerD_unitary ang) v hv t states specs hids hst h A env

theorem C05_dpd_invariant_wigner (ang : Angle → ℝ × ℝ × ℝ)
    (ref : ℤ) (t : Tree) (states : List StateInfo) (specs : List Spec)
    (hids : (states.map StateInfo.e).Nodup) (hst : ∀ s ∈ states, s.s2 ≤ 5 ∧ Complete s)
    (h : dpdSpecs ref t states = some specs) (A : List ℤ → ℂ) (env : Env) :
    intensity (wignerD ang) A (flatten specs) env
      = intensity (wignerD ang) A (flatten (noneSpecs states)) env :=
  C05_dpd_invariant (wignerD ang) (wignerD_unitary ang) ref t states specs hids hst h A env

/-! ### the pools of the DPD-aligned amplitude are the reaction's helicity sets -/

/-- For every topology, reference subsystem and list of outer states: the inner sums of the
DPD skeleton run, state by state, over the helicities that occur in the reaction, and so does the
outer incoherent sum. The aligned amplitude therefore depends on the helicity sets, not only on
topology, particles and reference subsystem (the correspondence run drives the real
`_formulate_aligned_amplitude` through histories of reactions that differ in nothing else). -/
theorem C05_dpd_pools (ref : ℤ) (t : Tree) (states : List StateInfo) (specs : List Spec)
    (h : dpdSpecs ref t states = some specs) :
    (flatten specs).sums = states.map (fun s => (Var.inner 0 s.e, s.observed)) ∧
    (flatten specs).outer = states.map (fun s => (Var.outer s.e, s.observed)) :=
  ⟨Ampverif.Lemmas.C05Pools.dpd_sums ref t states specs h,
   Ampverif.Lemmas.C05Pools.dpd_outer ref t states specs h⟩

/-- Two reactions whose DPD skeletons have the same summed pools — whatever their topologies,
spins and reference subsystems — have the same helicity sets, state by state. Contrapositive: an
aligned amplitude formulated for one helicity set is never the aligned amplitude of another. -/
theorem C05_dpd_helicity_sets_injective (ref ref' : ℤ) (t t' : Tree)
    (states states' : List StateInfo) (specs specs' : List Spec)
    (h : dpdSpecs ref t states = some specs) (h' : dpdSpecs ref' t' states' = some specs')
    (heq : (flatten specs).sums = (flatten specs').sums) :
    states.map (fun s => (s.e, s.observed)) = states'.map (fun s => (s.e, s.observed)) :=
  Ampverif.Lemmas.C05Pools.dpd_skeleton_determines_helicity_sets ref ref' t t' states states' specs specs' h h' heq

/-- non-vacuity: J/psi (spin 1) → three pseudoscalars, J/psi from e⁺e⁻ (helicities −1, +1) vs.
unpolarised (−1, 0, +1): same topology, same particles, same reference — different sums -/
example :
    (dpdSpecs 1 (.node 0 (.node 4 (.leaf 1) (.leaf 2)) (.leaf 3))
        [⟨0, 2, false, [-2, 2]⟩, ⟨1, 0, false, [0]⟩, ⟨2, 0, false, [0]⟩, ⟨3, 0, false, [0]⟩]).map
        (fun s => (flatten s).sums)
      ≠ (dpdSpecs 1 (.node 0 (.node 4 (.leaf 1) (.leaf 2)) (.leaf 3))
        [⟨0, 2, false, [-2, 0, 2]⟩, ⟨1, 0, false, [0]⟩, ⟨2, 0, false, [0]⟩, ⟨3, 0, false, [0]⟩]).map
        (fun s => (flatten s).sums) := by decide

/-! ### formulating succeeds -/

/-- With the repaired `create_spin_range`, the rotation chain of EVERY final state below the
initial edge is formulated (no exception), whatever its spin and mass. -/
theorem C05_axis_formulates (v : Variant) (hv : v.sound) (t : Tree) (s : StateInfo)
    (path : List Tree) (hp : pathTo t s.e = some path) (hlen : 2 ≤ path.length) :
    (axisChain v t s).isSome = true := by
  unfold axisChain
  rw [hp, spinRange_sound v hv]
  simp only
  match path, hlen with
  | p :: q :: rest, _ =>
    have : rotationsAlong (p :: q :: rest) ≠ [] := by simp [rotationsAlong]
    split
    · rename_i h; exact absurd h this
    · rfl

/-- J/ψ → ν K π-like skeleton with a massless spin-1/2 final state: the pinned guard makes the
axis-angle formulation fail, the repaired one formulates it. -/
def witnessTree : Tree := .node (-1) (.leaf 0) (.node 3 (.leaf 1) (.leaf 2))

def masslessFermionStates : List StateInfo :=
  [⟨-1, 1, false, [-1, 1]⟩, ⟨0, 1, true, [-1, 1]⟩, ⟨1, 0, false, [0]⟩, ⟨2, 0, false, [0]⟩]

theorem C05_witness_formulate_pinned : axisSpecs pinned witnessTree masslessFermionStates = none := by
  decide

example : (axisSpecs fixed witnessTree masslessFermionStates).isSome = true := by decide

/-! ### the excluded point: a massless boson under axis-angle (known finding) -/

/-- J/ψ[-1,0,1] → γ π⁰ π⁰: the photon pool is `{-1,+1}` (doubled `[-2, 2]`). -/
def photonStates : List StateInfo :=
  [⟨-1, 2, false, [-2, 0, 2]⟩, ⟨0, 2, true, [-2, 2]⟩, ⟨1, 0, false, [0]⟩, ⟨2, 0, false, [0]⟩]

/-- an integer rotation by 90° in the (0, +1) plane of spin 1 (orthogonal), identity for spin 0 -/
def rotZ : ℕ → Angle → ℤ → ℤ → ℤ
  | 2, _, m, m' =>
    if m = -2 ∧ m' = -2 then 1 else if m = 0 ∧ m' = 2 then -1 else if m = 2 ∧ m' = 0 then 1 else 0
  | _, _, m, m' => if m = m' then 1 else 0

/-- amplitude tensor with the single entry `A[0, +1, 0, 0] = 1` -/
def deltaAmp : List ℤ → ℤ
  | [0, 2, 0, 0] => 1
  | _ => 0

/-- intensity over ℤ (squares instead of squared moduli; `rotZ` and `deltaAmp` are real) -/
def intensityZ (D : ℕ → Angle → ℤ → ℤ → ℤ) (A : List ℤ → ℤ) (sk : Skeleton) (env : Env) : ℤ :=
  psum sk.outer (fun e => (amplitude D A sk e) ^ 2) env

/-- `rotZ 2` is orthogonal on the COMPLETE range … -/
theorem rotZ_orthogonal : ∀ l ∈ fullRange 2, ∀ l' ∈ fullRange 2,
    ((fullRange 2).map fun m => rotZ 2 (.hel 0) m l * rotZ 2 (.hel 0) m l').sum = if l = l' then 1 else 0 := by
  decide

/-- … but on the photon pool `{-1,+1}` the aligned intensity is 0 while the unaligned one is 1:
with an incomplete pool a rotation that mixes in the projection 0 does not preserve the
intensity. (Real code: 49 % at J/ψ → γ π⁰ π⁰ under `AxisAngleAlignment`.) -/
theorem C05_witness_massless :
    ∃ specs, axisSpecs fixed witnessTree photonStates = some specs ∧
      intensityZ rotZ deltaAmp (flatten specs) (fun _ => 0) = 0 ∧
      intensityZ rotZ deltaAmp (flatten (noneSpecs photonStates)) (fun _ => 0) = 1 := by
  refine ⟨_, rfl, ?_, ?_⟩ <;> decide

end Ampverif.Props.C05
