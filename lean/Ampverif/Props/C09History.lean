/-
C09 — call HISTORIES of `NonRelativisticKMatrix.formulate` / `RelativisticKMatrix.formulate`.

The unitarity theorems of `Props/C09.lean` (Part D) carry hypotheses about LEAVES: `0 < ρ_i(s)`,
`0 < ρ_i(m_R²)`, real form factors — for "the phase-space factor in use". The property lets the caller
choose that factor per call (`phsp_factor=`), so the hypotheses are evaluated for the factor passed to
THAT call. This is only the right reading if the energy-dependent widths inside the result of a call
carry the factor OBJECT of that call — which, in the real code, goes through process-global caches
(SymPy's cached constructors keyed on the hashable content of an `EnergyDependentWidth`, i.e. on
`_get_hashable_object(phsp_factor)`; `functools.cache` on `_create_matrices`).

Model: `Model/C10History.lean` (shared with C10: one state machine for the four classes; the K-matrix
classes are `Cls.nrK`, `Cls.relK`), instantiated here for C09. `formulate` of the K-matrix classes is a
pure function of its arguments given an injective cache key:

* `kmatrix_history_guard` — for EVERY history of calls in one process (any classes, any factors before
  and after) and every predicate `good` on factor objects (read: "ρ of this object is real and positive
  at s and at every pole mass"): if the factor passed to call `k` is `good`, every energy-dependent
  width of the result of call `k` carries a `good` factor — the one that was passed — with the `L` and
  radius of call `k`, and every phase-space node `ρ_i` is the node of the passed factor. So the
  hypotheses of Part D, evaluated for the arguments of call `k`, ARE hypotheses about the leaves of
  result `k`.
* `kmatrix_history_guard_injective_key` — the same for every key function that is injective on factor
  objects, from every cache such a key filled.
* `kmatrix_history_shape` — result `k` is `n × n` with the symbol families of its own arguments.
* `qualname_key_breaks_guard` — kernel-checked witness of the defect class: with the qualified name as
  key, [complex closure, real closure of the same factory] (same `L`, radius) gives a second result
  whose widths carry the FIRST (complex, not `good`) factor although the passed factor is `good`;
  `qualname_key_reverse_order` the reverse order; `qualname_key_hat` with `return_t_hat`.
  (On the real code: `K` not real, `|S†S − 1| ≈ 0.1`; replayed by `tools/corr/C09_history.py`.)

Tie: `tools/corr/C09_history.py` drives the real classes and `Drivers/C09History.lean` through the same
seeded histories on every run, compares the skeletons call by call, and evaluates unitarity / symmetry
of every call whose passed factor satisfies the hypotheses.
-/
import Ampverif.Props.C10History
import Ampverif.Lemmas.C09History

namespace Ampverif.Props.C09History
open Ampverif.C10History Ampverif.Lemmas.C10History Ampverif.Props.C10History Ampverif.Lemmas.C09History

/-- **The guard of the unitarity theorems is a statement about the arguments of the call**, whatever
was formulated before in the process (key: the factor object itself — the clean tree). -/
theorem kmatrix_history_guard (good : Factor → Prop) (hist : List Args) (k : Nat) (hk : k < hist.length)
    (hg : good hist[k].phsp) :
    ∃ o, (run id [] hist).1[k]? = some o ∧ ∀ it ∈ o.items, Item.guarded good hist[k] it := by
  obtain ⟨o, ho, hh⟩ := history_honours hist k hk
  exact ⟨o, ho, fun it hit => guarded_of_honours good hist[k] hg it (hh it hit)⟩

/-- …and for every key function that is injective on factor objects, from any cache it filled. -/
theorem kmatrix_history_guard_injective_key {α : Type} [DecidableEq α] (κ : Factor → α)
    (hκ : ∀ f g, κ f = κ g → f = g) (c : List (Entry α)) (hc : CacheOk κ c)
    (good : Factor → Prop) (hist : List Args) (k : Nat) (hk : k < hist.length) (hg : good hist[k].phsp) :
    ∃ o, (run κ c hist).1[k]? = some o ∧ ∀ it ∈ o.items, Item.guarded good hist[k] it := by
  refine ⟨freshOut hist[k], ?_, fun it hit => guarded_of_honours good hist[k] hg it (fresh_honours hist[k] it hit)⟩
  rw [history_pure κ hκ hist c hc]
  simp [fresh, hk]

/-- Result `k` of a history of K-matrix calls is square of the size of call `k`, with the symbol
families of call `k` (nothing of an earlier call's shape survives, e.g. through `_create_matrices`). -/
theorem kmatrix_history_shape (hist : List Args) (k : Nat) (hk : k < hist.length)
    (hK : isKMatrix hist[k] = true) :
    ∃ o, (run id [] hist).1[k]? = some o ∧ o.rows = hist[k].nChannels ∧ o.cols = hist[k].nChannels
      ∧ o.syms = symsOf hist[k] := by
  refine ⟨freshOut hist[k], history_call_k hist k hk, rfl, ?_, rfl⟩
  unfold isKMatrix at hK
  simp only [Bool.or_eq_true, beq_iff_eq] at hK
  unfold freshOut out
  rcases hK with h | h <;> simp [h, Cls.vector]

/-- A non-relativistic K-matrix carries no width / phase-space item at all: its result cannot depend on
the factor, and cannot be affected by the cache. -/
theorem nonrelativistic_no_items {α : Type} [DecidableEq α] (κ : Factor → α) (c : List (Entry α)) (a : Args)
    (h : a.cls = Cls.nrK) : (call κ c a).1.items = [] ∧ (call κ c a).2 = c := by
  unfold call
  simp [h, Cls.relativistic, out]

/-! ### The defect class on the K-matrix classes: a key that does not determine the object -/

/-- Two closures of one factory (one qualified name): a complex, Chew-Mandelstam-like factor and a
real one. -/
def complexClosure : Factor := ⟨1, 7, some 3⟩
def realClosure : Factor := ⟨2, 7, some 0⟩

/-- "ρ of this object is real and positive above threshold". -/
def good (f : Factor) : Prop := f = realClosure

instance : DecidablePred good := fun f => inferInstanceAs (Decidable (f = realClosure))

def relK22 (f : Factor) (hat : Bool) : Args := ⟨Cls.relK, 2, 2, true, hat, f, 0, 1⟩

/-- Complex first, real second (the history of `seeded/C09_6`): with the qualified name as key the
second result has a width that carries a factor which is not `good` — although the passed one is. -/
theorem qualname_key_breaks_guard :
    good (relK22 realClosure false).phsp ∧
    ∃ o, (run Factor.qual [] [relK22 complexClosure false, relK22 realClosure false]).1[1]? = some o ∧
      ∃ it ∈ o.items, ∃ r i l d, it = Item.width r i complexClosure l d ∧ ¬ good complexClosure := by
  refine ⟨rfl, _, rfl, Item.width 1 0 complexClosure 0 1, by decide, 1, 0, 0, 1, rfl, by decide⟩

/-- The reverse order: the complex model formulated second carries the REAL widths (it is unitary by
accident and is not the model the caller asked for). -/
theorem qualname_key_reverse_order :
    (run Factor.qual [] [relK22 realClosure false, relK22 complexClosure false]).1
      ≠ fresh [relK22 realClosure false, relK22 complexClosure false] := by
  decide

/-- `return_t_hat` does not matter: T̂ first, T second. -/
theorem qualname_key_hat :
    (run Factor.qual [] [relK22 complexClosure true, relK22 realClosure false]).1
      ≠ fresh [relK22 complexClosure true, relK22 realClosure false] := by
  decide

/-- With the object itself as key the same histories are pure (non-vacuity of the hypotheses above). -/
example : (run id [] [relK22 complexClosure false, relK22 realClosure false]).1
    = fresh [relK22 complexClosure false, relK22 realClosure false] := by decide

example : ((run id [] [relK22 complexClosure false, relK22 realClosure false]).1.map (·.items.length)) = [6, 6] := by
  decide

end Ampverif.Props.C09History
