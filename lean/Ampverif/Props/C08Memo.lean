/-
C08 — call HISTORIES of the matrix expression classes: `evaluate()` (hence `doit()`, the generated
code, the LaTeX form) stays a function of the expression it is called on, whatever was unfolded
before in the same process.

Model: `Model/C08Memo.lean` (a call consults a process-global memo keyed by `key expr`; a hit returns
the stored implementation object, which carries the arguments of the expression that stored it).
Tie: `tools/corr/C08_history.py` drives the real classes (fresh processes, forked histories in both
orders, and the check's own process) and this model through the same histories on every run.

* `memo_pure` — for EVERY key function that separates the expressions in use and every history over
  them, from any memo that such calls filled: call `k` returns what a fresh process returns.
* `memo_pure_identity`, `memo_call_k` — the clean tree (key = the expression itself / no memo).
* `memo_impure_of_collision` — conversely two different expressions with one key give a two-call
  history whose second result is the FIRST expression's implementation, i.e. not the fresh one.
* `memo_pure_iff_injective` — both directions: the memo is transparent on all histories over a set of
  expressions IFF the key is injective on that set.
* `pyHash_collision`, `hash_key_witness`, `hash_key_only_collision` — the integer-hash key: `-1` and
  `-2` collide (kernel-checked history `R(-φ); R(-2φ)`), and that is the ONLY collision of the model
  key; `arg_key_witness`, `noEvents_key_witness` — the neighbouring keys.
-/
import Ampverif.Lemmas.C08Memo

namespace Ampverif.Props.C08Memo
open Ampverif.C08Memo Ampverif.Lemmas.C08Memo

/-- **Purity over histories.** With a key that separates the expressions of `S`, every call of every
history over `S` returns exactly what a fresh process returns for that call's expression. -/
theorem memo_pure {κ : Type} [DecidableEq κ] (key : MExpr → κ) (S : MExpr → Prop)
    (hinj : InjOn key S) (hist : List MExpr) (hS : ∀ e ∈ hist, S e)
    (m : List (κ × Impl)) (hm : MemoOk key S m) :
    (run key m hist).1 = fresh hist := by
  induction hist generalizing m with
  | nil => rfl
  | cons e rest ih =>
    have h := call_pure key S hinj m hm e (hS e (List.mem_cons_self ..))
    have h2 := ih (fun e' he' => hS e' (List.mem_cons_of_mem _ he')) (call key m e).2 h.2
    simp only [run, fresh, List.map_cons]
    rw [h.1]
    simp only [fresh] at h2
    rw [h2]

/-- The clean tree: the expression itself is the key (equivalently: no memo). -/
theorem memo_pure_identity (hist : List MExpr) : (run id [] hist).1 = fresh hist :=
  memo_pure id (fun _ => True) (fun _ _ _ _ h => h) hist (fun _ _ => trivial) [] (memoOk_nil id _)

/-- …so the result of call `k` depends only on the expression of call `k`. -/
theorem memo_call_k (hist : List MExpr) (k : Nat) (hk : k < hist.length) :
    (run id [] hist).1[k]? = some (build hist[k]) := by
  rw [memo_pure_identity]
  simp [fresh, hk]

/-- **Converse.** Two different expressions with the same key: in the history `a; b` the second call
returns `a`'s implementation, which is not what a fresh process returns for `b`. -/
theorem memo_impure_of_collision {κ : Type} [DecidableEq κ] (key : MExpr → κ) (a b : MExpr)
    (hk : key a = key b) (hab : a ≠ b) :
    (run key [] [a, b]).1 = [build a, build a] ∧ (run key [] [a, b]).1 ≠ fresh [a, b] := by
  have h := run_collision key a b hk
  refine ⟨h, ?_⟩
  rw [h]
  intro hc
  simp only [fresh, List.map_cons, List.map_nil, List.cons.injEq, and_true, true_and] at hc
  exact hab (build_injective a b hc)

/-- **Transparent iff injective**, on any set of expressions. -/
theorem memo_pure_iff_injective {κ : Type} [DecidableEq κ] (key : MExpr → κ) (S : MExpr → Prop) :
    (∀ hist : List MExpr, (∀ e ∈ hist, S e) → (run key [] hist).1 = fresh hist) ↔ InjOn key S := by
  constructor
  · intro h a b ha hb hk
    by_cases hab : a = b
    · exact hab
    · have h1 := h [a, b] (by
        intro e he
        simp only [List.mem_cons, List.not_mem_nil, or_false] at he
        rcases he with rfl | rfl
        · exact ha
        · exact hb)
      exact absurd h1 (memo_impure_of_collision key a b hk hab).2
  · intro hinj hist hS
    exact memo_pure key S hinj hist hS [] (memoOk_nil key S)

/-- CPython: `hash(-1) == hash(-2)`. -/
theorem pyHash_collision : pyHash (-1) = pyHash (-2) := by decide

/-- …and nothing else collides in the model of the integer hash. -/
theorem pyHash_only_collision (n k : Int) (h : pyHash n = pyHash k) (hne : n ≠ k) :
    (n = -1 ∧ k = -2) ∨ (n = -2 ∧ k = -1) := by
  unfold pyHash at h
  by_cases h1 : n = -1 <;> by_cases h2 : k = -1
  · exact absurd (h1.trans h2.symm) hne
  · rw [if_pos h1, if_neg h2] at h
    exact Or.inl ⟨h1, h.symm⟩
  · rw [if_neg h1, if_pos h2] at h
    exact Or.inr ⟨h, h2⟩
  · rw [if_neg h1, if_neg h2] at h
    exact absurd h hne

/-- The hash key: `R_z(-φ)` then `R_z(-2φ)` in one process — the second call returns the
implementation of the first (kernel-checked history). -/
theorem hash_key_witness :
    (run hashKey [] [⟨.rotZ, 0, -1, 0⟩, ⟨.rotZ, 0, -2, 0⟩]).1
      = [⟨.rotZ, 0, -1, 0⟩, ⟨.rotZ, 0, -1, 0⟩]
    ∧ fresh [⟨.rotZ, 0, -1, 0⟩, ⟨.rotZ, 0, -2, 0⟩] = [⟨.rotZ, 0, -1, 0⟩, ⟨.rotZ, 0, -2, 0⟩] := by
  decide

/-- …in the opposite order the OTHER expression is the wrong one. -/
theorem hash_key_witness_reversed :
    (run hashKey [] [⟨.boostZ, 0, -2, 0⟩, ⟨.boostZ, 0, -1, 0⟩]).1
      = [⟨.boostZ, 0, -2, 0⟩, ⟨.boostZ, 0, -2, 0⟩] := by
  decide

/-- The hash key confuses two expressions only if they differ exactly in the integers `-1`/`-2`. -/
theorem hash_key_only_collision (a b : MExpr) (h : hashKey a = hashKey b) (hab : a ≠ b) :
    a.cls = b.cls ∧ a.shape = b.shape ∧ a.nEvents = b.nEvents
      ∧ ((a.coeff = -1 ∧ b.coeff = -2) ∨ (a.coeff = -2 ∧ b.coeff = -1)) := by
  cases a with
  | mk c1 s1 k1 n1 =>
    cases b with
    | mk c2 s2 k2 n2 =>
      simp only [hashKey, HKey.mk.injEq] at h
      rcases h with ⟨hc, hs, hk, hn⟩
      refine ⟨hc, hs, hn, ?_⟩
      apply pyHash_only_collision k1 k2 hk
      intro hkk
      apply hab
      subst hc hs hn hkk
      rfl

/-- One table for the four classes keyed by the arguments: `R_y(a)` then `R_z(a)`. -/
theorem arg_key_witness :
    (run argKey [] [⟨.rotY, 0, 1, 0⟩, ⟨.rotZ, 0, 1, 0⟩]).1 = [⟨.rotY, 0, 1, 0⟩, ⟨.rotY, 0, 1, 0⟩] := by
  decide

/-- A key without `n_events`: same angle, different event-count argument. -/
theorem noEvents_key_witness :
    (run noEventsKey [] [⟨.rotZ, 0, 1, 0⟩, ⟨.rotZ, 0, 1, 1⟩]).1 = [⟨.rotZ, 0, 1, 0⟩, ⟨.rotZ, 0, 1, 0⟩] := by
  decide

/-- Non-vacuity: a three-call history through the identity key, computed. -/
example : (run id [] [⟨.rotZ, 0, -1, 0⟩, ⟨.rotZ, 0, -2, 0⟩, ⟨.rotZ, 0, -1, 0⟩]).1
    = [⟨.rotZ, 0, -1, 0⟩, ⟨.rotZ, 0, -2, 0⟩, ⟨.rotZ, 0, -1, 0⟩] := by decide

end Ampverif.Props.C08Memo
