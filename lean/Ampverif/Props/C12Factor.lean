/-
C12 — call HISTORIES with the phase-space FACTOR OBJECT as part of the call: the builder, the function
API and `EnergyDependentWidth` stay the pure function of (resonance, variables, L, factor object)
that the property quantifies over, whatever was built before in the same process.

Model: `Model/C12Factor.lean` (a call consults a process-global constructor cache keyed on
`(resonance, pool, L, κ factor)`; the stored width carries the factor OBJECT of the call that stored
it). Tie: `tools/corr/C12_factor.py` drives the real constructors and the model's driver through the
same seeded histories on every run and compares the skeletons call by call.

* `factor_history_pure` — for EVERY key function `κ` that is injective on factor objects and every
  history, from any cache that `κ` itself filled: call `k` returns what a fresh process returns.
* `factor_history_honours` — … hence the width of every call carries exactly the factor object
  passed to THAT call.
* `qualname_key_witness` / `qualname_key_dishonours` — the key "qualified name" is not injective (two
  closures of one factory): kernel-checked two-call history whose second result carries the factor
  of the first call.
-/
import Ampverif.Model.C12Factor

namespace Ampverif.Props.C12Factor
open Ampverif.C12Factor

/-- Every entry of the cache was stored under the key of the factor it carries. -/
def CacheOk {α : Type} (κ : Factor → α) (c : List (Entry α)) : Prop :=
  ∀ e ∈ c, e.key = κ e.stored

theorem cacheOk_nil {α : Type} (κ : Factor → α) : CacheOk κ ([] : List (Entry α)) := by
  intro e he
  cases he

theorem lookup_key {α : Type} [DecidableEq α] (κ : Factor → α) (c : List (Entry α)) (hc : CacheOk κ c)
    (r p l : Nat) (k : α) (g : Factor) (h : lookup c r p l k = some g) : κ g = k := by
  induction c with
  | nil => simp [lookup] at h
  | cons e rest ih =>
    unfold lookup at h
    by_cases hk : e.res = r ∧ e.pool = p ∧ e.angMom = l ∧ e.key = k
    · rw [if_pos hk] at h
      have hg : e.stored = g := Option.some.inj h
      have he := hc e (List.mem_cons_self ..)
      rw [← hg, ← he]
      exact hk.2.2.2
    · rw [if_neg hk] at h
      exact ih (fun e' he' => hc e' (List.mem_cons_of_mem _ he')) h

/-- One call with an injective key: the fresh result, and the cache stays consistent. -/
theorem call_pure {α : Type} [DecidableEq α] (κ : Factor → α) (hκ : ∀ f g, κ f = κ g → f = g)
    (c : List (Entry α)) (hc : CacheOk κ c) (a : Args) :
    (call κ c a).1 = freshOut a ∧ CacheOk κ (call κ c a).2 := by
  unfold call
  by_cases hr : a.api.cached = true
  · rw [if_pos hr]
    cases hl : lookup c a.res a.pool a.angMom (κ a.phsp) with
    | none =>
      refine ⟨rfl, ?_⟩
      intro e he
      cases he with
      | head => rfl
      | tail _ h => exact hc e h
    | some g =>
      have hg : g = a.phsp := hκ _ _ (lookup_key κ c hc _ _ _ _ g hl)
      refine ⟨?_, hc⟩
      show out a g = freshOut a
      rw [hg]
      rfl
  · rw [if_neg hr]
    exact ⟨rfl, hc⟩

/-- **Purity over histories, factor object included.** With a key that is injective on factor
objects, every call of every history in one process — builder objects of all four flag combinations,
the function API, `EnergyDependentWidth` — returns exactly what a fresh process returns for that
call's (resonance, variables, L, factor object). -/
theorem factor_history_pure {α : Type} [DecidableEq α] (κ : Factor → α) (hκ : ∀ f g, κ f = κ g → f = g)
    (hist : List Args) (c : List (Entry α)) (hc : CacheOk κ c) :
    (run κ c hist).1 = fresh hist := by
  induction hist generalizing c with
  | nil => rfl
  | cons a rest ih =>
    have h := call_pure κ hκ c hc a
    simp only [run, fresh, List.map_cons]
    rw [h.1]
    have := ih (call κ c a).2 h.2
    simp only [fresh] at this
    rw [this]

/-- The clean tree's key for functions (the object itself), from the empty cache of a new process. -/
theorem factor_history_pure_identity (hist : List Args) : (run id [] hist).1 = fresh hist :=
  factor_history_pure id (fun _ _ h => h) hist [] (cacheOk_nil id)

/-- …so the result of call `k` depends only on the arguments of call `k`. -/
theorem factor_call_k (hist : List Args) (k : Nat) (hk : k < hist.length) :
    (run id [] hist).1[k]? = some (freshOut hist[k]) := by
  rw [factor_history_pure_identity]
  simp [fresh, hk]

/-- The fresh result carries the factor OBJECT of the call (when it has a width at all). -/
theorem fresh_honours (a : Args) : (freshOut a).honours a = true := by
  simp [freshOut, out, Out.honours]

/-- **Honouring over histories**: in every call of every history the width carries the factor object
passed to THAT call. -/
theorem factor_history_honours (hist : List Args) (k : Nat) (hk : k < hist.length) :
    ∃ o, (run id [] hist).1[k]? = some o ∧ o.honours hist[k] = true :=
  ⟨freshOut hist[k], factor_call_k hist k hk, fresh_honours hist[k]⟩

/-- Not vacuous: every API with an energy-dependent width has a carried factor, the passed one. -/
theorem fresh_carries (a : Args) (h : a.api.hasWidth = true) : (freshOut a).carried = some a.phsp := by
  simp [freshOut, out, h]

/-! ### The defect class: a key that does not determine the object -/

/-- Two closures returned by one factory (or two lambdas of one scope): different objects, one
qualified name. -/
def closure1 : Factor := ⟨1, 7⟩
def closure2 : Factor := ⟨2, 7⟩

def witnessHistory : List Args :=
  [⟨.builder true true, closure1, 0, 0, 1⟩, ⟨.builder true true, closure2, 0, 0, 1⟩]

/-- With the qualified name as key the second builder does not return what a fresh process returns
(replayable on the real code: the factor-history oracle of `tools/corr/C12_factor.py`). -/
theorem qualname_key_witness : (run Factor.qual [] witnessHistory).1 ≠ fresh witnessHistory := by
  decide

/-- …its width carries the factor of the FIRST call — a factor the caller did not pass. -/
theorem qualname_key_dishonours :
    ∃ o, (run Factor.qual [] witnessHistory).1[1]? = some o ∧
      o.honours ⟨.builder true true, closure2, 0, 0, 1⟩ = false := by
  refine ⟨_, rfl, ?_⟩
  decide

/-- The confusion crosses the APIs: the function API after a builder of the other closure. -/
theorem qualname_key_crosses_apis :
    (run Factor.qual [] [⟨.builder false true, closure1, 2, 1, 0⟩, ⟨.function, closure2, 2, 1, 0⟩]).1
      ≠ fresh [⟨.builder false true, closure1, 2, 1, 0⟩, ⟨.function, closure2, 2, 1, 0⟩] := by
  decide

/-- Another resonance, pool or angular momentum: the two closures do not meet in the cache. -/
theorem qualname_key_needs_same_call :
    (run Factor.qual [] [⟨.builder true true, closure1, 0, 0, 1⟩, ⟨.builder true true, closure2, 1, 0, 1⟩,
        ⟨.builder true true, closure2, 0, 1, 1⟩, ⟨.builder true true, closure2, 0, 0, 2⟩]).1
      = fresh [⟨.builder true true, closure1, 0, 0, 1⟩, ⟨.builder true true, closure2, 1, 0, 1⟩,
        ⟨.builder true true, closure2, 0, 1, 1⟩, ⟨.builder true true, closure2, 0, 0, 2⟩] := by
  decide

example : (run id [] witnessHistory).1 = fresh witnessHistory := by decide

end Ampverif.Props.C12Factor
