/-
C08 — boost and rotation expressions are proper Lorentz transformations.

All theorems are about `Ampverif.Gen.C08.*`, which is REGENERATED on every run from
`/repo/src/ampform/kinematics/lorentz.py` and `/repo/src/ampform/sympy/_array_expressions.py`:

* `<name>Ex`     — the matrix returned by the library's `as_explicit()`, read per event;
* `<name>Code0`  — the numpy code `sympy.lambdify(.., cse=False)` generates from the library's
                   `_numpycode` printers, parsed and interpreted per event;
* `<name>Code1`  — the same with `cse=True`;
* `<name>_rad`   — the radicand of the square root occurring in a family of entries;
* `<name>_s<i>`, `<name>_v<k>_<i>` — (families with wrapped momenta only) repeated subterms and the
                   components of intermediate matrix-times-vector results, NAMED by the translator so that
                   nested arguments do not blow up the file; unfolding them gives back the code's terms.

Only property theorems live here; helper lemmas are in `Lemmas/C08Boost.lean`, the einsum model in
`Model/C08Einsum.lean` (+ `Lemmas/C08Einsum.lean`).

Guards forced by the source: `BoostMatrix` divides by `β²`, so `p⃗ ≠ 0` is a hypothesis; `E > 0`;
`|p⃗| < E` (time-like). `BoostZMatrix.as_explicit` uses `ComplexSqrt`, translated on its real branch:
`boostZ_radicand_pos` shows that `β² < 1` puts us on that branch.
-/
import Ampverif.Gen.C08
import Ampverif.Lemmas.C08Boost
import Ampverif.Lemmas.C08Einsum
import Mathlib.Analysis.SpecialFunctions.Trigonometric.Basic
import Mathlib.Tactic.Positivity
import Mathlib.Tactic.Linarith
import Mathlib.Tactic.IntervalCases

set_option linter.unusedVariables false
set_option linter.unusedSimpArgs false
set_option linter.unusedTactic false
set_option linter.unreachableTactic false
set_option linter.unnecessarySeqFocus false

namespace Ampverif.Props.C08
open Ampverif.Gen.C08 Ampverif.Lemmas.C08 Matrix

/-- Invariant mass `√(E² − |p⃗|²)` of the four-momentum `(E, px, py, pz)`. -/
noncomputable def mass (E px py pz : ℝ) : ℝ := Real.sqrt (E ^ 2 - (px ^ 2 + py ^ 2 + pz ^ 2))

/-! ## Minkowski metric -/

/-- `MinkowskiMetric(p).as_explicit()` is `diag(1,−1,−1,−1)`. -/
theorem metric_eq : metricEx = eta := by
  c08_mat_ext <;> simp [eta]

/-! ## General boost `BoostMatrix(p)` -/

theorem boostEx_sqrt (E px py pz : ℝ) (hE : 0 < E) :
    Real.sqrt (boostEx_rad E px py pz) = mass E px py pz / E := by
  apply sqrt_radicand E _ _ hE
  unfold boostEx_rad
  field_simp
  ring

/-- The explicit boost matrix is the textbook boost with `γ = E/m`, `β⃗ = p⃗/E`. -/
theorem boostEx_abs (E px py pz : ℝ) (hE : 0 < E) (hp : 0 < px ^ 2 + py ^ 2 + pz ^ 2)
    (hm : px ^ 2 + py ^ 2 + pz ^ 2 < E ^ 2) :
    boostEx E px py pz
      = absBoost (E / mass E px py pz) (px / E) (py / E) (pz / E)
          ((E / mass E px py pz - 1) * E ^ 2 / (px ^ 2 + py ^ 2 + pz ^ 2)) := by
  have hs := boostEx_sqrt E px py pz hE
  have hm0 : 0 < mass E px py pz := Real.sqrt_pos.mpr (by linarith)
  generalize mass E px py pz = m at *
  ext i j
  fin_cases i <;> fin_cases j <;> simp [c08_entries, absBoost, hs] <;> field_simp <;> ring

/-- The three relations between `γ = E/m`, `β⃗ = p⃗/E` and `u = (γ−1)/β²`. -/
theorem boost_relations (E px py pz : ℝ) (hE : 0 < E) (hp : 0 < px ^ 2 + py ^ 2 + pz ^ 2)
    (hm : px ^ 2 + py ^ 2 + pz ^ 2 < E ^ 2) :
    let g := E / mass E px py pz
    let u := (g - 1) * E ^ 2 / (px ^ 2 + py ^ 2 + pz ^ 2)
    g ^ 2 * (1 - ((px / E) ^ 2 + (py / E) ^ 2 + (pz / E) ^ 2)) = 1
      ∧ u * ((px / E) ^ 2 + (py / E) ^ 2 + (pz / E) ^ 2) = g - 1
      ∧ u * (g + 1) = g ^ 2 := by
  have hm0 : 0 < mass E px py pz := Real.sqrt_pos.mpr (by linarith)
  have hm2 : mass E px py pz ^ 2 = E ^ 2 - (px ^ 2 + py ^ 2 + pz ^ 2) :=
    Real.sq_sqrt (by linarith)
  generalize mass E px py pz = m at *
  intro g u
  have hE0 : E ≠ 0 := hE.ne'
  have hm0' : m ≠ 0 := hm0.ne'
  have hp0 : px ^ 2 + py ^ 2 + pz ^ 2 ≠ 0 := hp.ne'
  refine ⟨?_, ?_, ?_⟩
  · simp only [g]; field_simp; grind
  · simp only [g, u]; field_simp
  · simp only [g, u]; field_simp; grind

/-- **Lorentz condition** `Bᵀ η B = η` for the explicit matrix of `BoostMatrix(p)`,
for every time-like `p` with `E > 0` and `p⃗ ≠ 0`. -/
theorem boost_lorentz (E px py pz : ℝ) (hE : 0 < E) (hp : 0 < px ^ 2 + py ^ 2 + pz ^ 2)
    (hm : px ^ 2 + py ^ 2 + pz ^ 2 < E ^ 2) :
    (boostEx E px py pz)ᵀ * metricEx * boostEx E px py pz = metricEx := by
  obtain ⟨h1, h2, h3⟩ := boost_relations E px py pz hE hp hm
  rw [boostEx_abs E px py pz hE hp hm, metric_eq]
  exact absBoost_lorentz _ _ _ _ _ h1 h2 h3

/-- **Proper**: `det B = +1`. -/
theorem boost_det (E px py pz : ℝ) (hE : 0 < E) (hp : 0 < px ^ 2 + py ^ 2 + pz ^ 2)
    (hm : px ^ 2 + py ^ 2 + pz ^ 2 < E ^ 2) :
    (boostEx E px py pz).det = 1 := by
  obtain ⟨h1, h2, h3⟩ := boost_relations E px py pz hE hp hm
  rw [boostEx_abs E px py pz hE hp hm]
  exact absBoost_det _ _ _ _ _ h1 h2

/-- **Orthochronous**: `B₀₀ = γ ≥ 1`. -/
theorem boost_00_ge_one (E px py pz : ℝ) (hE : 0 < E) (hp : 0 < px ^ 2 + py ^ 2 + pz ^ 2)
    (hm : px ^ 2 + py ^ 2 + pz ^ 2 < E ^ 2) :
    1 ≤ boostEx E px py pz 0 0 := by
  have hm0 : 0 < mass E px py pz := Real.sqrt_pos.mpr (by linarith)
  have hm2 : mass E px py pz ^ 2 = E ^ 2 - (px ^ 2 + py ^ 2 + pz ^ 2) :=
    Real.sq_sqrt (by linarith)
  rw [boostEx_abs E px py pz hE hp hm]
  simp only [absBoost, Matrix.of_apply, Matrix.cons_val_zero]
  rw [le_div_iff₀ hm0]
  nlinarith

/-- **Rest frame**: boosting `p` with its own boost matrix gives `(m, 0, 0, 0)`. -/
theorem boost_self (E px py pz : ℝ) (hE : 0 < E) (hp : 0 < px ^ 2 + py ^ 2 + pz ^ 2)
    (hm : px ^ 2 + py ^ 2 + pz ^ 2 < E ^ 2) :
    (boostEx E px py pz).mulVec ![E, px, py, pz] = ![mass E px py pz, 0, 0, 0] := by
  obtain ⟨h1, h2, h3⟩ := boost_relations E px py pz hE hp hm
  have hE0 : E ≠ 0 := hE.ne'
  have hv : ![E, px, py, pz] = ![E, E * (px / E), E * (py / E), E * (pz / E)] := by
    congr <;> field_simp
  rw [boostEx_abs E px py pz hE hp hm, hv, absBoost_mulVec _ _ _ _ _ _ h2]
  have hm0 : 0 < mass E px py pz := Real.sqrt_pos.mpr (by linarith)
  have hm2 : mass E px py pz ^ 2 = E ^ 2 - (px ^ 2 + py ^ 2 + pz ^ 2) :=
    Real.sq_sqrt (by linarith)
  generalize mass E px py pz = m at *
  have hm0' : m ≠ 0 := hm0.ne'
  congr 1
  field_simp
  linear_combination -hm2

/-- The explicit matrix of `BoostMatrix(NegativeMomentum(p))` is the boost matrix of the
space-inverted momentum `(E, −p⃗)` (all reals). -/
theorem boostNeg_eq (E px py pz : ℝ) :
    boostNegEx E px py pz = boostEx E (-px) (-py) (-pz) := by
  have hrad : boostNegEx_rad E px py pz = boostEx_rad E (-px) (-py) (-pz) := by
    unfold boostNegEx_rad boostEx_rad; ring
  c08_mat_ext <;> (try simp only [hrad]) <;> ring

/-- **Inverse**: the boost of the space-inverted momentum is the inverse matrix. -/
theorem boost_neg_inverse (E px py pz : ℝ) (hE : 0 < E) (hp : 0 < px ^ 2 + py ^ 2 + pz ^ 2)
    (hm : px ^ 2 + py ^ 2 + pz ^ 2 < E ^ 2) :
    boostNegEx E px py pz * boostEx E px py pz = 1 := by
  obtain ⟨h1, h2, h3⟩ := boost_relations E px py pz hE hp hm
  have hp' : 0 < (-px) ^ 2 + (-py) ^ 2 + (-pz) ^ 2 := by simpa using hp
  have hm' : (-px) ^ 2 + (-py) ^ 2 + (-pz) ^ 2 < E ^ 2 := by simpa using hm
  have hmass : mass E (-px) (-py) (-pz) = mass E px py pz := by simp [mass]
  rw [boostNeg_eq, boostEx_abs E px py pz hE hp hm, boostEx_abs E (-px) (-py) (-pz) hE hp' hm', hmass]
  simp only [even_two, Even.neg_pow, neg_div]
  exact absBoost_neg_mul _ _ _ _ _ h1 h2 h3

/-! ## Boost along z, `BoostZMatrix(β)` -/

/-- `β² < 1` puts `ComplexSqrt(1 − β²)` of `BoostZMatrix.as_explicit` on its real branch (the
branch the translator reads) and keeps `γ` finite. -/
theorem boostZ_radicand_pos (β : ℝ) (hβ : β ^ 2 < 1) : 0 < boostZEx_rad β := by
  unfold boostZEx_rad; linarith

/-- `BoostZMatrix(β)` is the textbook boost with velocity `(0,0,β)`, `γ = 1/√(1−β²)`. -/
theorem boostZEx_abs (β : ℝ) (hβ : β ^ 2 < 1) :
    boostZEx β = absBoost (Real.sqrt (1 - β ^ 2))⁻¹ 0 0 β
        ((Real.sqrt (1 - β ^ 2))⁻¹ ^ 2 / ((Real.sqrt (1 - β ^ 2))⁻¹ + 1)) := by
  have hpos : 0 < 1 - β ^ 2 := by linarith
  have hrad : Real.sqrt (boostZEx_rad β) = Real.sqrt (1 - β ^ 2) := by
    unfold boostZEx_rad; ring_nf
  have hs0 : 0 < Real.sqrt (1 - β ^ 2) := Real.sqrt_pos.mpr hpos
  have hs2 : Real.sqrt (1 - β ^ 2) ^ 2 = 1 - β ^ 2 := Real.sq_sqrt hpos.le
  generalize Real.sqrt (1 - β ^ 2) = s at *
  have hs0' : s ≠ 0 := hs0.ne'
  have hs1 : s⁻¹ + 1 ≠ 0 := by positivity
  ext i j
  have h1s : 1 + s ≠ 0 := by positivity
  have hb : β * β = 1 - s ^ 2 := by linarith
  -- only the 33 entry needs the relation s² = 1 − β²
  fin_cases i <;> fin_cases j <;> simp [c08_entries, absBoost, hrad] <;>
    first
      | ring1
      | (rw [mul_assoc, hb]; field_simp; ring1)

theorem boostZ_relations (β : ℝ) (hβ : β ^ 2 < 1) :
    let g := (Real.sqrt (1 - β ^ 2))⁻¹
    g ^ 2 * (1 - (0 ^ 2 + 0 ^ 2 + β ^ 2)) = 1
      ∧ g ^ 2 / (g + 1) * (0 ^ 2 + 0 ^ 2 + β ^ 2) = g - 1
      ∧ g ^ 2 / (g + 1) * (g + 1) = g ^ 2 := by
  have hpos : 0 < 1 - β ^ 2 := by linarith
  have hs0 : 0 < Real.sqrt (1 - β ^ 2) := Real.sqrt_pos.mpr hpos
  have hs2 : Real.sqrt (1 - β ^ 2) ^ 2 = 1 - β ^ 2 := Real.sq_sqrt hpos.le
  intro g
  have hg : 0 < g := inv_pos.mpr hs0
  have h1 : g ^ 2 * (1 - (0 ^ 2 + 0 ^ 2 + β ^ 2)) = 1 := by
    simp only [g]
    generalize Real.sqrt (1 - β ^ 2) = s at *
    have hs0' : s ≠ 0 := hs0.ne'
    field_simp
    linear_combination -hs2
  exact ⟨h1, u_relations g _ hg h1⟩

/-- **Lorentz condition** for `BoostZMatrix(β)`, every `|β| < 1`. -/
theorem boostZ_lorentz (β : ℝ) (hβ : β ^ 2 < 1) :
    (boostZEx β)ᵀ * metricEx * boostZEx β = metricEx := by
  obtain ⟨h1, h2, h3⟩ := boostZ_relations β hβ
  rw [boostZEx_abs β hβ, metric_eq]
  exact absBoost_lorentz _ _ _ _ _ h1 h2 h3

theorem boostZ_det (β : ℝ) (hβ : β ^ 2 < 1) : (boostZEx β).det = 1 := by
  obtain ⟨h1, h2, h3⟩ := boostZ_relations β hβ
  rw [boostZEx_abs β hβ]
  exact absBoost_det _ _ _ _ _ h1 h2

theorem boostZ_00_ge_one (β : ℝ) (hβ : β ^ 2 < 1) : 1 ≤ boostZEx β 0 0 := by
  have hpos : 0 < 1 - β ^ 2 := by linarith
  have hs0 : 0 < Real.sqrt (1 - β ^ 2) := Real.sqrt_pos.mpr hpos
  have hs1 : Real.sqrt (1 - β ^ 2) ≤ 1 := by
    rw [Real.sqrt_le_one]
    nlinarith [sq_nonneg β]
  rw [boostZEx_abs β hβ]
  simp only [absBoost, Matrix.of_apply, Matrix.cons_val_zero]
  exact (one_le_inv₀ hs0).mpr hs1

/-- **z-boost = general boost** for momenta along z (`p⃗ = (0,0,p_z)`, `p_z ≠ 0` because the
general boost divides by `|p⃗|²`). -/
theorem boostZ_eq_boost (E pz : ℝ) (hE : 0 < E) (hz : pz ≠ 0) (hm : pz ^ 2 < E ^ 2) :
    boostZEx (pz / E) = boostEx E 0 0 pz := by
  have hE0 : E ≠ 0 := hE.ne'
  have hrad : boostZEx_rad (pz / E) = boostEx_rad E 0 0 pz := by
    unfold boostZEx_rad boostEx_rad; field_simp; ring
  ext i j
  fin_cases i <;> fin_cases j <;> simp [c08_entries, hrad] <;> field_simp <;> ring

/-! ## Rotations `RotationYMatrix(a)`, `RotationZMatrix(a)` (all angles) -/

theorem rotYEx_abs (a : ℝ) : rotYEx a = absRotY (Real.cos a) (Real.sin a) := by
  ext i j
  fin_cases i <;> fin_cases j <;> simp [c08_entries, absRotY]

theorem rotZEx_abs (a : ℝ) : rotZEx a = absRotZ (Real.cos a) (Real.sin a) := by
  ext i j
  fin_cases i <;> fin_cases j <;> simp [c08_entries, absRotZ]

theorem rotY_lorentz (a : ℝ) : (rotYEx a)ᵀ * metricEx * rotYEx a = metricEx := by
  rw [rotYEx_abs, metric_eq]; exact absRotY_lorentz _ _ (Real.cos_sq_add_sin_sq a)

theorem rotZ_lorentz (a : ℝ) : (rotZEx a)ᵀ * metricEx * rotZEx a = metricEx := by
  rw [rotZEx_abs, metric_eq]; exact absRotZ_lorentz _ _ (Real.cos_sq_add_sin_sq a)

theorem rotY_det (a : ℝ) : (rotYEx a).det = 1 := by
  rw [rotYEx_abs]; exact absRotY_det _ _ (Real.cos_sq_add_sin_sq a)

theorem rotZ_det (a : ℝ) : (rotZEx a).det = 1 := by
  rw [rotZEx_abs]; exact absRotZ_det _ _ (Real.cos_sq_add_sin_sq a)

theorem rot_00 (a : ℝ) : rotYEx a 0 0 = 1 ∧ rotZEx a 0 0 = 1 := by
  constructor <;> simp [c08_entries]

/-- **Rotations compose additively**: `R_y(a) R_y(b) = R_y(a+b)`. -/
theorem rotY_add (a b : ℝ) : rotYEx a * rotYEx b = rotYEx (a + b) := by
  rw [rotYEx_abs, rotYEx_abs, rotYEx_abs, absRotY_mul, Real.cos_add, Real.sin_add]

theorem rotZ_add (a b : ℝ) : rotZEx a * rotZEx b = rotZEx (a + b) := by
  rw [rotZEx_abs, rotZEx_abs, rotZEx_abs, absRotZ_mul, Real.cos_add, Real.sin_add]

/-! ## The generated numpy code agrees with the explicit matrices

`Code0` = `lambdify(.., cse=False)`, `Code1` = `lambdify(.., cse=True)`. Equalities of functions on
all real arguments (Lean's `x/0 = 0` on both sides; on the physical domain nothing is divided by
zero). -/

theorem boostCode0_eq (E px py pz : ℝ) : boostCode0 E px py pz = boostEx E px py pz := by
  have hrad : boostCode0_rad E px py pz = boostEx_rad E px py pz := by
    unfold boostCode0_rad boostEx_rad; ring
  c08_mat_ext <;> (try simp only [hrad]) <;> ring

theorem boostCode1_eq (E px py pz : ℝ) : boostCode1 E px py pz = boostEx E px py pz := by
  have hrad : boostCode1_rad E px py pz = boostEx_rad E px py pz := by
    unfold boostCode1_rad boostEx_rad; ring
  c08_mat_ext <;> (try simp only [hrad]) <;> ring

theorem boostNegCode0_eq (E px py pz : ℝ) : boostNegCode0 E px py pz = boostNegEx E px py pz := by
  have hrad : boostNegCode0_rad E px py pz = boostNegEx_rad E px py pz := by
    unfold boostNegCode0_rad boostNegEx_rad; ring
  c08_mat_ext <;> (try simp only [hrad]) <;> ring

theorem boostNegCode1_eq (E px py pz : ℝ) : boostNegCode1 E px py pz = boostNegEx E px py pz := by
  have hrad : boostNegCode1_rad E px py pz = boostNegEx_rad E px py pz := by
    unfold boostNegCode1_rad boostNegEx_rad; ring
  c08_mat_ext <;> (try simp only [hrad]) <;> ring

theorem boostZCode0_eq (β : ℝ) : boostZCode0 β = boostZEx β := by
  have hrad : boostZCode0_rad β = boostZEx_rad β := by
    unfold boostZCode0_rad boostZEx_rad; ring
  c08_mat_ext <;> (try simp only [hrad]) <;> ring

theorem boostZCode1_eq (β : ℝ) : boostZCode1 β = boostZEx β := by
  have hrad : boostZCode1_rad β = boostZEx_rad β := by
    unfold boostZCode1_rad boostZEx_rad; ring
  c08_mat_ext <;> (try simp only [hrad]) <;> ring

theorem rotYCode0_eq (a : ℝ) : rotYCode0 a = rotYEx a := by c08_mat_ext <;> ring
theorem rotYCode1_eq (a : ℝ) : rotYCode1 a = rotYEx a := by c08_mat_ext <;> ring
theorem rotZCode0_eq (a : ℝ) : rotZCode0 a = rotZEx a := by c08_mat_ext <;> ring
theorem rotZCode1_eq (a : ℝ) : rotZCode1 a = rotZEx a := by c08_mat_ext <;> ring
theorem metricCode0_eq : metricCode0 = metricEx := by c08_mat_ext <;> ring
theorem metricCode1_eq : metricCode1 = metricEx := by c08_mat_ext <;> ring

/-! ### Corollaries: the arrays the generated code produces are proper Lorentz transformations -/

/-- The matrix computed per event by the code generated from `BoostMatrix(p)` (cse off and on)
satisfies `Lᵀ η L = η`, `det L = 1`, `L₀₀ ≥ 1`, with `η` the generated `MinkowskiMetric` code. -/
theorem boostCode_proper (E px py pz : ℝ) (hE : 0 < E) (hp : 0 < px ^ 2 + py ^ 2 + pz ^ 2)
    (hm : px ^ 2 + py ^ 2 + pz ^ 2 < E ^ 2) :
    ((boostCode0 E px py pz)ᵀ * metricCode0 * boostCode0 E px py pz = metricCode0
        ∧ (boostCode0 E px py pz).det = 1 ∧ 1 ≤ boostCode0 E px py pz 0 0)
      ∧ ((boostCode1 E px py pz)ᵀ * metricCode1 * boostCode1 E px py pz = metricCode1
        ∧ (boostCode1 E px py pz).det = 1 ∧ 1 ≤ boostCode1 E px py pz 0 0) := by
  rw [boostCode0_eq, boostCode1_eq, metricCode0_eq, metricCode1_eq]
  exact ⟨⟨boost_lorentz E px py pz hE hp hm, boost_det E px py pz hE hp hm, boost_00_ge_one E px py pz hE hp hm⟩,
    ⟨boost_lorentz E px py pz hE hp hm, boost_det E px py pz hE hp hm, boost_00_ge_one E px py pz hE hp hm⟩⟩

/-- The code generated for `BoostMatrix(NegativeMomentum(p))` yields the inverse of the code
generated for `BoostMatrix(p)` (cse off and on). -/
theorem boostNegCode_inverse (E px py pz : ℝ) (hE : 0 < E) (hp : 0 < px ^ 2 + py ^ 2 + pz ^ 2)
    (hm : px ^ 2 + py ^ 2 + pz ^ 2 < E ^ 2) :
    boostNegCode0 E px py pz * boostCode0 E px py pz = 1
      ∧ boostNegCode1 E px py pz * boostCode1 E px py pz = 1 := by
  rw [boostNegCode0_eq, boostNegCode1_eq, boostCode0_eq, boostCode1_eq]
  exact ⟨boost_neg_inverse E px py pz hE hp hm, boost_neg_inverse E px py pz hE hp hm⟩

theorem boostZCode_proper (β : ℝ) (hβ : β ^ 2 < 1) :
    ((boostZCode0 β)ᵀ * metricCode0 * boostZCode0 β = metricCode0
        ∧ (boostZCode0 β).det = 1 ∧ 1 ≤ boostZCode0 β 0 0)
      ∧ ((boostZCode1 β)ᵀ * metricCode1 * boostZCode1 β = metricCode1
        ∧ (boostZCode1 β).det = 1 ∧ 1 ≤ boostZCode1 β 0 0) := by
  rw [boostZCode0_eq, boostZCode1_eq, metricCode0_eq, metricCode1_eq]
  exact ⟨⟨boostZ_lorentz β hβ, boostZ_det β hβ, boostZ_00_ge_one β hβ⟩,
    ⟨boostZ_lorentz β hβ, boostZ_det β hβ, boostZ_00_ge_one β hβ⟩⟩

theorem rotCode_proper (a : ℝ) :
    ((rotYCode0 a)ᵀ * metricCode0 * rotYCode0 a = metricCode0 ∧ (rotYCode0 a).det = 1)
      ∧ ((rotYCode1 a)ᵀ * metricCode1 * rotYCode1 a = metricCode1 ∧ (rotYCode1 a).det = 1)
      ∧ ((rotZCode0 a)ᵀ * metricCode0 * rotZCode0 a = metricCode0 ∧ (rotZCode0 a).det = 1)
      ∧ ((rotZCode1 a)ᵀ * metricCode1 * rotZCode1 a = metricCode1 ∧ (rotZCode1 a).det = 1) := by
  rw [rotYCode0_eq, rotYCode1_eq, rotZCode0_eq, rotZCode1_eq, metricCode0_eq, metricCode1_eq]
  exact ⟨⟨rotY_lorentz a, rotY_det a⟩, ⟨rotY_lorentz a, rotY_det a⟩,
    ⟨rotZ_lorentz a, rotZ_det a⟩, ⟨rotZ_lorentz a, rotZ_det a⟩⟩

/-! ## Compound arguments: the printed templates keep their argument holes atomic

Every `_numpycode` template of lorentz.py splices the PRINTED text of its arguments into a string.
That is only right if each hole ends up as an atom or parenthesised — otherwise an argument that
prints as a sum loses its parentheses (`-{beta}*{gamma}` with `beta = b1 - b2`). The families
below are regenerated from instances whose argument is a difference (`b1 - b2`), a negated quotient
(`-b1/b2`) and a power (`b1**2`) — one representative per precedence class of printed expressions —
and, for array arguments, a sum of arrays `p + q`. The generated code (cse off / on) equals the
explicit matrix AT the compound argument. -/

theorem boostZAddCode_eq (b1 b2 : ℝ) :
    boostZAddCode0 b1 b2 = boostZEx (b1 - b2) ∧ boostZAddCode1 b1 b2 = boostZEx (b1 - b2) := by
  have h0 : boostZAddCode0_rad b1 b2 = boostZEx_rad (b1 - b2) := by
    unfold boostZAddCode0_rad boostZEx_rad; ring
  have h1 : boostZAddCode1_rad b1 b2 = boostZEx_rad (b1 - b2) := by
    unfold boostZAddCode1_rad boostZEx_rad; ring
  constructor <;> c08_mat_ext <;> (try simp only [h0, h1]) <;> ring

theorem boostZMulCode_eq (b1 b2 : ℝ) :
    boostZMulCode0 b1 b2 = boostZEx (-b1 / b2) ∧ boostZMulCode1 b1 b2 = boostZEx (-b1 / b2) := by
  have h0 : boostZMulCode0_rad b1 b2 = boostZEx_rad (-b1 / b2) := by
    unfold boostZMulCode0_rad boostZEx_rad; ring
  have h1 : boostZMulCode1_rad b1 b2 = boostZEx_rad (-b1 / b2) := by
    unfold boostZMulCode1_rad boostZEx_rad; ring
  constructor <;> c08_mat_ext <;> (try simp only [h0, h1]) <;> ring

theorem boostZPowCode_eq (b1 b2 : ℝ) :
    boostZPowCode0 b1 b2 = boostZEx (b1 ^ 2) ∧ boostZPowCode1 b1 b2 = boostZEx (b1 ^ 2) := by
  have h0 : boostZPowCode0_rad b1 b2 = boostZEx_rad (b1 ^ 2) := by
    unfold boostZPowCode0_rad boostZEx_rad; ring
  have h1 : boostZPowCode1_rad b1 b2 = boostZEx_rad (b1 ^ 2) := by
    unfold boostZPowCode1_rad boostZEx_rad; ring
  constructor <;> c08_mat_ext <;> (try simp only [h0, h1]) <;> ring

theorem rotAddCode_eq (b1 b2 : ℝ) :
    (rotYAddCode0 b1 b2 = rotYEx (b1 - b2) ∧ rotYAddCode1 b1 b2 = rotYEx (b1 - b2))
      ∧ (rotZAddCode0 b1 b2 = rotZEx (b1 - b2) ∧ rotZAddCode1 b1 b2 = rotZEx (b1 - b2)) := by
  have h : b1 + (-1 : ℝ) * b2 = b1 - b2 := by ring
  refine ⟨⟨?_, ?_⟩, ⟨?_, ?_⟩⟩ <;> c08_mat_ext <;> (try simp only [h]) <;> ring

theorem rotMulCode_eq (b1 b2 : ℝ) :
    (rotYMulCode0 b1 b2 = rotYEx (-b1 / b2) ∧ rotYMulCode1 b1 b2 = rotYEx (-b1 / b2))
      ∧ (rotZMulCode0 b1 b2 = rotZEx (-b1 / b2) ∧ rotZMulCode1 b1 b2 = rotZEx (-b1 / b2)) := by
  have h : -b1 / b2 = -(b1 * b2⁻¹) := by ring
  refine ⟨⟨?_, ?_⟩, ⟨?_, ?_⟩⟩ <;> c08_mat_ext <;>
    (try simp only [h, Real.cos_neg, Real.sin_neg]) <;> ring

theorem rotPowCode_eq (b1 b2 : ℝ) :
    (rotYPowCode0 b1 b2 = rotYEx (b1 ^ 2) ∧ rotYPowCode1 b1 b2 = rotYEx (b1 ^ 2))
      ∧ (rotZPowCode0 b1 b2 = rotZEx (b1 ^ 2) ∧ rotZPowCode1 b1 b2 = rotZEx (b1 ^ 2)) := by
  refine ⟨⟨?_, ?_⟩, ⟨?_, ?_⟩⟩ <;> c08_mat_ext <;> ring

/-- `BoostMatrix(ArraySum(p, q))`: the code (`(p + q)[:, k]`, `sum((p + q)[:, 1:]**2, axis=1)`) is the
boost matrix of the summed momentum. -/
theorem boostSumCode_eq (E px py pz Eq qx qy qz : ℝ) :
    boostSumCode0 E px py pz Eq qx qy qz = boostEx (E + Eq) (px + qx) (py + qy) (pz + qz)
      ∧ boostSumCode1 E px py pz Eq qx qy qz = boostEx (E + Eq) (px + qx) (py + qy) (pz + qz) := by
  have h0 : boostSumCode0_rad E px py pz Eq qx qy qz
      = boostEx_rad (E + Eq) (px + qx) (py + qy) (pz + qz) := by
    unfold boostSumCode0_rad boostEx_rad; ring
  have h1 : boostSumCode1_rad E px py pz Eq qx qy qz
      = boostEx_rad (E + Eq) (px + qx) (py + qy) (pz + qz) := by
    unfold boostSumCode1_rad boostEx_rad; ring
  constructor <;> c08_mat_ext <;> (try simp only [h0, h1]) <;>
    (generalize E + Eq = e; generalize px + qx = x; generalize py + qy = y; generalize pz + qz = z) <;>
    ring

theorem negMomSumCode_eq (E px py pz Eq qx qy qz : ℝ) :
    negMomSumCode0 E px py pz Eq qx qy qz = ![E + Eq, -(px + qx), -(py + qy), -(pz + qz)]
      ∧ negMomSumCode1 E px py pz Eq qx qy qz = ![E + Eq, -(px + qx), -(py + qy), -(pz + qz)] := by
  constructor <;> c08_vec_ext <;> ring

theorem metricSumCode_eq : metricSumCode0 = metricEx ∧ metricSumCode1 = metricEx := by
  constructor <;> c08_mat_ext <;> ring

/-! ## Generated einsum code (ArrayMultiplication / MatrixMultiplication), n = 2 and 3 arrays -/

/-- The code generated for `NegativeMomentum(p)` (einsum of the metric with `p`) is `(E, −p⃗)`. -/
theorem negMomCode_eq (E px py pz : ℝ) :
    negMomCode0 E px py pz = ![E, -px, -py, -pz] ∧ negMomCode1 E px py pz = ![E, -px, -py, -pz] := by
  constructor <;> c08_vec_ext <;> ring

/-- The code generated for `ArrayMultiplication(BoostMatrix(p), p)` computes `B(p)·p` … -/
theorem boostSelfCode0_eq (E px py pz : ℝ) :
    boostSelfCode0 E px py pz = (boostEx E px py pz).mulVec ![E, px, py, pz] := by
  have hrad : boostSelfCode0_rad E px py pz = boostEx_rad E px py pz := by
    unfold boostSelfCode0_rad boostEx_rad; ring
  ext i
  fin_cases i <;> simp only [Matrix.mulVec, dotProduct, Fin.sum_univ_four] <;>
    c08_unfold <;> (try simp only [hrad]) <;> ring

theorem boostSelfCode1_eq (E px py pz : ℝ) :
    boostSelfCode1 E px py pz = (boostEx E px py pz).mulVec ![E, px, py, pz] := by
  have hrad : boostSelfCode1_rad E px py pz = boostEx_rad E px py pz := by
    unfold boostSelfCode1_rad boostEx_rad; ring
  ext i
  fin_cases i <;> simp only [Matrix.mulVec, dotProduct, Fin.sum_univ_four] <;>
    c08_unfold <;> (try simp only [hrad]) <;> ring

/-- … hence the generated code sends every time-like `p` to its rest frame `(m,0,0,0)`. -/
theorem boostSelfCode_rest (E px py pz : ℝ) (hE : 0 < E) (hp : 0 < px ^ 2 + py ^ 2 + pz ^ 2)
    (hm : px ^ 2 + py ^ 2 + pz ^ 2 < E ^ 2) :
    boostSelfCode0 E px py pz = ![mass E px py pz, 0, 0, 0]
      ∧ boostSelfCode1 E px py pz = ![mass E px py pz, 0, 0, 0] := by
  rw [boostSelfCode0_eq, boostSelfCode1_eq, boost_self E px py pz hE hp hm]
  exact ⟨rfl, rfl⟩

/-- The code generated for `MatrixMultiplication(R_y(a), R_y(b))` is the matrix product, hence
`R_y(a+b)`; likewise for `R_z`. -/
theorem rotYYCode_eq (a b : ℝ) :
    rotYYCode0 a b = rotYEx (a + b) ∧ rotYYCode1 a b = rotYEx (a + b) := by
  constructor <;> c08_mat_ext <;> (try simp only [Real.cos_add, Real.sin_add]) <;> ring

theorem rotZZCode_eq (a b : ℝ) :
    rotZZCode0 a b = rotZEx (a + b) ∧ rotZZCode1 a b = rotZEx (a + b) := by
  constructor <;> c08_mat_ext <;> (try simp only [Real.cos_add, Real.sin_add]) <;> ring

/-- The code generated for `ArrayMultiplication(R_y(a), R_z(b), p)` (three arrays) computes
`R_y(a)·(R_z(b)·p)`. -/
theorem rotYZpCode_eq (a b E px py pz : ℝ) :
    rotYZpCode0 a b E px py pz = (rotYEx a * rotZEx b).mulVec ![E, px, py, pz]
      ∧ rotYZpCode1 a b E px py pz = (rotYEx a * rotZEx b).mulVec ![E, px, py, pz] := by
  constructor <;> ext i <;> fin_cases i <;>
    simp only [Matrix.mulVec, dotProduct, Fin.sum_univ_four, Matrix.mul_apply] <;> c08_unfold <;> ring

/-! ## Wrapped momenta: nested space inversions, inverted sums, boosted momenta

`BoostMatrix.evaluate()`, `BoostMatrix.as_explicit()`, `NegativeMomentum.evaluate()` and the printers receive
the momentum as an expression TREE. Whatever they do with the shape of that tree (unwrap a
`NegativeMomentum`, distribute over an `ArraySum`, treat an already boosted momentum specially) is invisible
on a bare symbol and on a single inversion. The families below are regenerated from instances whose argument
is such a tree; every theorem says: explicit matrix and generated code (cse off / on) are the boost matrix
`boostEx` AT THE VALUE of the argument — equalities of functions on all reals. In the generated file repeated
subterms are named (`<family>_s<i>`, `<family>_v<k>_<i>`), never rewritten; the proofs unfold them. -/

/-- `BoostMatrix(NegativeMomentum(NegativeMomentum(p)))` — two space inversions cancel: the explicit matrix and
the generated code (cse off / on) are the boost matrix of `p` itself (all reals). -/
theorem boostNeg2_eq (E px py pz : ℝ) :
    boostNeg2Ex E px py pz = boostEx E px py pz
      ∧ boostNeg2Code0 E px py pz = boostEx E px py pz
      ∧ boostNeg2Code1 E px py pz = boostEx E px py pz := by
  have hx : boostNeg2Ex_rad E px py pz
      = boostEx_rad E px py pz := by
    unfold boostNeg2Ex_rad boostEx_rad <;> (try c08_unfold) <;> ring
  have h0 : boostNeg2Code0_rad E px py pz
      = boostEx_rad E px py pz := by
    unfold boostNeg2Code0_rad boostEx_rad <;> (try c08_unfold) <;> ring
  have h1 : boostNeg2Code1_rad E px py pz
      = boostEx_rad E px py pz := by
    unfold boostNeg2Code1_rad boostEx_rad <;> (try c08_unfold) <;> ring
  refine ⟨?_, ?_, ?_⟩ <;> c08_mat_ext <;> (try simp only [hx, h0, h1]) <;> ring

/-- Three space inversions are one (explicit matrix and the code generated with cse; without cse the printer
repeats the nested argument in every `len(..)` — 8 MB of source — so that variant is not regenerated). -/
theorem boostNeg3_eq (E px py pz : ℝ) :
    boostNeg3Ex E px py pz = boostEx E (-px) (-py) (-pz)
      ∧ boostNeg3Code1 E px py pz = boostEx E (-px) (-py) (-pz) := by
  have hx : boostNeg3Ex_rad E px py pz
      = boostEx_rad E (-px) (-py) (-pz) := by
    unfold boostNeg3Ex_rad boostEx_rad <;> (try c08_unfold) <;> ring
  have h0 : boostNeg3Code1_rad E px py pz
      = boostEx_rad E (-px) (-py) (-pz) := by
    unfold boostNeg3Code1_rad boostEx_rad <;> (try c08_unfold) <;> ring
  refine ⟨?_, ?_⟩ <;> c08_mat_ext <;> (try simp only [hx, h0]) <;> ring

/-- `BoostMatrix(NegativeMomentum(ArraySum(p, q)))` is the boost matrix of the inverted sum. -/
theorem boostNegSum_eq (E px py pz Eq qx qy qz : ℝ) :
    boostNegSumEx E px py pz Eq qx qy qz = boostEx (E + Eq) (-(px + qx)) (-(py + qy)) (-(pz + qz))
      ∧ boostNegSumCode0 E px py pz Eq qx qy qz = boostEx (E + Eq) (-(px + qx)) (-(py + qy)) (-(pz + qz))
      ∧ boostNegSumCode1 E px py pz Eq qx qy qz = boostEx (E + Eq) (-(px + qx)) (-(py + qy)) (-(pz + qz)) := by
  -- change of variables: the components of the argument become atoms for `ring`
  obtain ⟨e, rfl⟩ : ∃ e, E = e - Eq := ⟨E + Eq, by ring⟩
  obtain ⟨x, rfl⟩ : ∃ x, px = x - qx := ⟨px + qx, by ring⟩
  obtain ⟨y, rfl⟩ : ∃ y, py = y - qy := ⟨py + qy, by ring⟩
  obtain ⟨z, rfl⟩ : ∃ z, pz = z - qz := ⟨pz + qz, by ring⟩
  have hx : boostNegSumEx_rad (e - Eq) (x - qx) (y - qy) (z - qz) Eq qx qy qz
      = boostEx_rad ((e - Eq) + Eq) (-((x - qx) + qx)) (-((y - qy) + qy)) (-((z - qz) + qz)) := by
    unfold boostNegSumEx_rad boostEx_rad <;> (try c08_unfold) <;> ring
  have h0 : boostNegSumCode0_rad (e - Eq) (x - qx) (y - qy) (z - qz) Eq qx qy qz
      = boostEx_rad ((e - Eq) + Eq) (-((x - qx) + qx)) (-((y - qy) + qy)) (-((z - qz) + qz)) := by
    unfold boostNegSumCode0_rad boostEx_rad <;> (try c08_unfold) <;> ring
  have h1 : boostNegSumCode1_rad (e - Eq) (x - qx) (y - qy) (z - qz) Eq qx qy qz
      = boostEx_rad ((e - Eq) + Eq) (-((x - qx) + qx)) (-((y - qy) + qy)) (-((z - qz) + qz)) := by
    unfold boostNegSumCode1_rad boostEx_rad <;> (try c08_unfold) <;> ring
  refine ⟨?_, ?_, ?_⟩ <;> c08_mat_ext <;> (try simp only [hx, h0, h1]) <;> ring

/-- `BoostMatrix(ArraySum(NegativeMomentum(p), NegativeMomentum(q)))`: the sum of the inverted momenta is the
inverted sum. -/
theorem boostSumNeg_eq (E px py pz Eq qx qy qz : ℝ) :
    boostSumNegEx E px py pz Eq qx qy qz = boostEx (E + Eq) (-(px + qx)) (-(py + qy)) (-(pz + qz))
      ∧ boostSumNegCode0 E px py pz Eq qx qy qz = boostEx (E + Eq) (-(px + qx)) (-(py + qy)) (-(pz + qz))
      ∧ boostSumNegCode1 E px py pz Eq qx qy qz = boostEx (E + Eq) (-(px + qx)) (-(py + qy)) (-(pz + qz)) := by
  -- change of variables: the components of the argument become atoms for `ring`
  obtain ⟨e, rfl⟩ : ∃ e, E = e - Eq := ⟨E + Eq, by ring⟩
  obtain ⟨x, rfl⟩ : ∃ x, px = x - qx := ⟨px + qx, by ring⟩
  obtain ⟨y, rfl⟩ : ∃ y, py = y - qy := ⟨py + qy, by ring⟩
  obtain ⟨z, rfl⟩ : ∃ z, pz = z - qz := ⟨pz + qz, by ring⟩
  have hx : boostSumNegEx_rad (e - Eq) (x - qx) (y - qy) (z - qz) Eq qx qy qz
      = boostEx_rad ((e - Eq) + Eq) (-((x - qx) + qx)) (-((y - qy) + qy)) (-((z - qz) + qz)) := by
    unfold boostSumNegEx_rad boostEx_rad <;> (try c08_unfold) <;> ring
  have h0 : boostSumNegCode0_rad (e - Eq) (x - qx) (y - qy) (z - qz) Eq qx qy qz
      = boostEx_rad ((e - Eq) + Eq) (-((x - qx) + qx)) (-((y - qy) + qy)) (-((z - qz) + qz)) := by
    unfold boostSumNegCode0_rad boostEx_rad <;> (try c08_unfold) <;> ring
  have h1 : boostSumNegCode1_rad (e - Eq) (x - qx) (y - qy) (z - qz) Eq qx qy qz
      = boostEx_rad ((e - Eq) + Eq) (-((x - qx) + qx)) (-((y - qy) + qy)) (-((z - qz) + qz)) := by
    unfold boostSumNegCode1_rad boostEx_rad <;> (try c08_unfold) <;> ring
  refine ⟨?_, ?_, ?_⟩ <;> c08_mat_ext <;> (try simp only [hx, h0, h1]) <;> ring

/-- `BoostMatrix(ArraySum(p, NegativeMomentum(q)))`: only the second term is inverted. -/
theorem boostSumMix_eq (E px py pz Eq qx qy qz : ℝ) :
    boostSumMixEx E px py pz Eq qx qy qz = boostEx (E + Eq) (px - qx) (py - qy) (pz - qz)
      ∧ boostSumMixCode0 E px py pz Eq qx qy qz = boostEx (E + Eq) (px - qx) (py - qy) (pz - qz)
      ∧ boostSumMixCode1 E px py pz Eq qx qy qz = boostEx (E + Eq) (px - qx) (py - qy) (pz - qz) := by
  -- change of variables: the components of the argument become atoms for `ring`
  obtain ⟨e, rfl⟩ : ∃ e, E = e - Eq := ⟨E + Eq, by ring⟩
  obtain ⟨x, rfl⟩ : ∃ x, px = x + qx := ⟨px - qx, by ring⟩
  obtain ⟨y, rfl⟩ : ∃ y, py = y + qy := ⟨py - qy, by ring⟩
  obtain ⟨z, rfl⟩ : ∃ z, pz = z + qz := ⟨pz - qz, by ring⟩
  have hx : boostSumMixEx_rad (e - Eq) (x + qx) (y + qy) (z + qz) Eq qx qy qz
      = boostEx_rad ((e - Eq) + Eq) ((x + qx) - qx) ((y + qy) - qy) ((z + qz) - qz) := by
    unfold boostSumMixEx_rad boostEx_rad <;> (try c08_unfold) <;> ring
  have h0 : boostSumMixCode0_rad (e - Eq) (x + qx) (y + qy) (z + qz) Eq qx qy qz
      = boostEx_rad ((e - Eq) + Eq) ((x + qx) - qx) ((y + qy) - qy) ((z + qz) - qz) := by
    unfold boostSumMixCode0_rad boostEx_rad <;> (try c08_unfold) <;> ring
  have h1 : boostSumMixCode1_rad (e - Eq) (x + qx) (y + qy) (z + qz) Eq qx qy qz
      = boostEx_rad ((e - Eq) + Eq) ((x + qx) - qx) ((y + qy) - qy) ((z + qz) - qz) := by
    unfold boostSumMixCode1_rad boostEx_rad <;> (try c08_unfold) <;> ring
  refine ⟨?_, ?_, ?_⟩ <;> c08_mat_ext <;> (try simp only [hx, h0, h1]) <;> ring

/-- `BoostMatrix(NegativeMomentum(ArraySum(NegativeMomentum(p), q)))`: an inversion of a sum that contains an
inversion — `(E_p + E_q, p⃗ − q⃗)`. -/
theorem boostNegMix_eq (E px py pz Eq qx qy qz : ℝ) :
    boostNegMixEx E px py pz Eq qx qy qz = boostEx (E + Eq) (px - qx) (py - qy) (pz - qz)
      ∧ boostNegMixCode0 E px py pz Eq qx qy qz = boostEx (E + Eq) (px - qx) (py - qy) (pz - qz)
      ∧ boostNegMixCode1 E px py pz Eq qx qy qz = boostEx (E + Eq) (px - qx) (py - qy) (pz - qz) := by
  -- change of variables: the components of the argument become atoms for `ring`
  obtain ⟨e, rfl⟩ : ∃ e, E = e - Eq := ⟨E + Eq, by ring⟩
  obtain ⟨x, rfl⟩ : ∃ x, px = x + qx := ⟨px - qx, by ring⟩
  obtain ⟨y, rfl⟩ : ∃ y, py = y + qy := ⟨py - qy, by ring⟩
  obtain ⟨z, rfl⟩ : ∃ z, pz = z + qz := ⟨pz - qz, by ring⟩
  have hx : boostNegMixEx_rad (e - Eq) (x + qx) (y + qy) (z + qz) Eq qx qy qz
      = boostEx_rad ((e - Eq) + Eq) ((x + qx) - qx) ((y + qy) - qy) ((z + qz) - qz) := by
    unfold boostNegMixEx_rad boostEx_rad <;> (try c08_unfold) <;> ring
  have h0 : boostNegMixCode0_rad (e - Eq) (x + qx) (y + qy) (z + qz) Eq qx qy qz
      = boostEx_rad ((e - Eq) + Eq) ((x + qx) - qx) ((y + qy) - qy) ((z + qz) - qz) := by
    unfold boostNegMixCode0_rad boostEx_rad <;> (try c08_unfold) <;> ring
  have h1 : boostNegMixCode1_rad (e - Eq) (x + qx) (y + qy) (z + qz) Eq qx qy qz
      = boostEx_rad ((e - Eq) + Eq) ((x + qx) - qx) ((y + qy) - qy) ((z + qz) - qz) := by
    unfold boostNegMixCode1_rad boostEx_rad <;> (try c08_unfold) <;> ring
  refine ⟨?_, ?_, ?_⟩ <;> c08_mat_ext <;> (try simp only [hx, h0, h1]) <;> ring

/-- The generated code of the nested / summed space inversions themselves: `N(N(p)) = p`,
`N(N(N(p))) = (E, −p⃗)`. -/
theorem negMomNestedCode_eq (E px py pz : ℝ) :
    negMom2Code0 E px py pz = ![E, px, py, pz] ∧ negMom2Code1 E px py pz = ![E, px, py, pz]
      ∧ negMom3Code1 E px py pz = ![E, -px, -py, -pz] := by
  refine ⟨?_, ?_, ?_⟩ <;> c08_vec_ext <;> ring

theorem sumNegCode_eq (E px py pz Eq qx qy qz : ℝ) :
    sumNegCode0 E px py pz Eq qx qy qz = ![E + Eq, -(px + qx), -(py + qy), -(pz + qz)]
      ∧ sumNegCode1 E px py pz Eq qx qy qz = ![E + Eq, -(px + qx), -(py + qy), -(pz + qz)] := by
  constructor <;> c08_vec_ext <;> ring

/-- **Inversion commutes with the sum**: the code generated for `NegativeMomentum(ArraySum(p, q))` and for
`ArraySum(NegativeMomentum(p), NegativeMomentum(q))` compute the same vector. -/
theorem negMomSum_eq_sumNeg (E px py pz Eq qx qy qz : ℝ) :
    negMomSumCode0 E px py pz Eq qx qy qz = sumNegCode0 E px py pz Eq qx qy qz
      ∧ negMomSumCode1 E px py pz Eq qx qy qz = sumNegCode1 E px py pz Eq qx qy qz := by
  rw [(negMomSumCode_eq E px py pz Eq qx qy qz).1, (negMomSumCode_eq E px py pz Eq qx qy qz).2,
    (sumNegCode_eq E px py pz Eq qx qy qz).1, (sumNegCode_eq E px py pz Eq qx qy qz).2]
  exact ⟨rfl, rfl⟩

theorem negMixCode_eq (E px py pz Eq qx qy qz : ℝ) :
    negMixCode0 E px py pz Eq qx qy qz = ![E + Eq, px - qx, py - qy, pz - qz]
      ∧ negMixCode1 E px py pz Eq qx qy qz = ![E + Eq, px - qx, py - qy, pz - qz] := by
  constructor <;> c08_vec_ext <;> ring

/-! ### The inverse boost of an already inverted momentum -/

/-- `B(p) · B(η p) = 1`: the boost of `p` is the inverse of the boost of the inverted momentum as well. -/
theorem boost_inverted_inverse (E px py pz : ℝ) (hE : 0 < E) (hp : 0 < px ^ 2 + py ^ 2 + pz ^ 2)
    (hm : px ^ 2 + py ^ 2 + pz ^ 2 < E ^ 2) :
    boostEx E px py pz * boostEx E (-px) (-py) (-pz) = 1 := by
  have hp' : 0 < (-px) ^ 2 + (-py) ^ 2 + (-pz) ^ 2 := by simpa using hp
  have hm' : (-px) ^ 2 + (-py) ^ 2 + (-pz) ^ 2 < E ^ 2 := by simpa using hm
  have h := boost_neg_inverse E (-px) (-py) (-pz) hE hp' hm'
  rw [boostNeg_eq] at h
  simpa only [neg_neg] using h

/-- **The inverse-boost statement for `q = NegativeMomentum(p)`**: the code generated for
`BoostMatrix(NegativeMomentum(q))` (two inversions) yields the inverse of the code generated for
`BoostMatrix(q)` (one inversion), cse off and on. -/
theorem boostNeg2Code_inverse (E px py pz : ℝ) (hE : 0 < E) (hp : 0 < px ^ 2 + py ^ 2 + pz ^ 2)
    (hm : px ^ 2 + py ^ 2 + pz ^ 2 < E ^ 2) :
    boostNeg2Code0 E px py pz * boostNegCode0 E px py pz = 1
      ∧ boostNeg2Code1 E px py pz * boostNegCode1 E px py pz = 1 := by
  rw [(boostNeg2_eq E px py pz).2.1, (boostNeg2_eq E px py pz).2.2, boostNegCode0_eq, boostNegCode1_eq,
    boostNeg_eq]
  exact ⟨boost_inverted_inverse E px py pz hE hp hm, boost_inverted_inverse E px py pz hE hp hm⟩

/-- The code generated for `BoostMatrix(NegativeMomentum(NegativeMomentum(p)))` sends `p` to its rest frame and
is a proper orthochronous Lorentz matrix. -/
theorem boostNeg2Code_proper (E px py pz : ℝ) (hE : 0 < E) (hp : 0 < px ^ 2 + py ^ 2 + pz ^ 2)
    (hm : px ^ 2 + py ^ 2 + pz ^ 2 < E ^ 2) :
    ((boostNeg2Code0 E px py pz).mulVec ![E, px, py, pz] = ![mass E px py pz, 0, 0, 0]
        ∧ (boostNeg2Code0 E px py pz)ᵀ * metricEx * boostNeg2Code0 E px py pz = metricEx
        ∧ (boostNeg2Code0 E px py pz).det = 1 ∧ 1 ≤ boostNeg2Code0 E px py pz 0 0)
      ∧ ((boostNeg2Code1 E px py pz).mulVec ![E, px, py, pz] = ![mass E px py pz, 0, 0, 0]
        ∧ (boostNeg2Code1 E px py pz)ᵀ * metricEx * boostNeg2Code1 E px py pz = metricEx
        ∧ (boostNeg2Code1 E px py pz).det = 1 ∧ 1 ≤ boostNeg2Code1 E px py pz 0 0) := by
  rw [(boostNeg2_eq E px py pz).2.1, (boostNeg2_eq E px py pz).2.2]
  exact ⟨⟨boost_self E px py pz hE hp hm, boost_lorentz E px py pz hE hp hm, boost_det E px py pz hE hp hm,
      boost_00_ge_one E px py pz hE hp hm⟩,
    ⟨boost_self E px py pz hE hp hm, boost_lorentz E px py pz hE hp hm, boost_det E px py pz hE hp hm,
      boost_00_ge_one E px py pz hE hp hm⟩⟩

/-- The ONE function generated for `MatrixMultiplication(BoostMatrix(NegativeMomentum(p)), BoostMatrix(p))`
is the product of the two explicit boost matrices (all reals) … -/
theorem invPairCode_eq (E px py pz : ℝ) :
    invPairCode0 E px py pz = boostEx E (-px) (-py) (-pz) * boostEx E px py pz
      ∧ invPairCode1 E px py pz = boostEx E (-px) (-py) (-pz) * boostEx E px py pz := by
  have r00 : invPairCode0_rad0 E px py pz = boostEx_rad E px py pz := by
    unfold invPairCode0_rad0 boostEx_rad <;> (try c08_unfold) <;> ring
  have r01 : invPairCode0_rad1 E px py pz = boostEx_rad E px py pz := by
    unfold invPairCode0_rad1 boostEx_rad <;> (try c08_unfold) <;> ring
  have r10 : invPairCode1_rad0 E px py pz = boostEx_rad E px py pz := by
    unfold invPairCode1_rad0 boostEx_rad <;> (try c08_unfold) <;> ring
  have r11 : invPairCode1_rad1 E px py pz = boostEx_rad E px py pz := by
    unfold invPairCode1_rad1 boostEx_rad <;> (try c08_unfold) <;> ring
  have rn : boostEx_rad E (-px) (-py) (-pz) = boostEx_rad E px py pz := by
    unfold boostEx_rad; ring
  constructor <;> ext i j <;> fin_cases i <;> fin_cases j <;>
    simp only [Matrix.mul_apply, Fin.sum_univ_four] <;> c08_unfold <;>
    (try simp only [r00, r01, r10, r11, rn]) <;> ring

/-- … and the same for the already inverted momentum `q = NegativeMomentum(p)`:
`MatrixMultiplication(BoostMatrix(NegativeMomentum(q)), BoostMatrix(q))`. -/
theorem invPairNegCode_eq (E px py pz : ℝ) :
    invPairNegCode0 E px py pz = boostEx E px py pz * boostEx E (-px) (-py) (-pz)
      ∧ invPairNegCode1 E px py pz = boostEx E px py pz * boostEx E (-px) (-py) (-pz) := by
  have r00 : invPairNegCode0_rad0 E px py pz = boostEx_rad E px py pz := by
    unfold invPairNegCode0_rad0 boostEx_rad <;> (try c08_unfold) <;> ring
  have r01 : invPairNegCode0_rad1 E px py pz = boostEx_rad E px py pz := by
    unfold invPairNegCode0_rad1 boostEx_rad <;> (try c08_unfold) <;> ring
  have r10 : invPairNegCode1_rad0 E px py pz = boostEx_rad E px py pz := by
    unfold invPairNegCode1_rad0 boostEx_rad <;> (try c08_unfold) <;> ring
  have r11 : invPairNegCode1_rad1 E px py pz = boostEx_rad E px py pz := by
    unfold invPairNegCode1_rad1 boostEx_rad <;> (try c08_unfold) <;> ring
  have rn : boostEx_rad E (-px) (-py) (-pz) = boostEx_rad E px py pz := by
    unfold boostEx_rad; ring
  constructor <;> ext i j <;> fin_cases i <;> fin_cases j <;>
    simp only [Matrix.mul_apply, Fin.sum_univ_four] <;> c08_unfold <;>
    (try simp only [r00, r01, r10, r11, rn]) <;> ring

/-- Hence both generated products are the unit matrix for every time-like `p` with `E > 0`, `p⃗ ≠ 0`. -/
theorem invPairCode_one (E px py pz : ℝ) (hE : 0 < E) (hp : 0 < px ^ 2 + py ^ 2 + pz ^ 2)
    (hm : px ^ 2 + py ^ 2 + pz ^ 2 < E ^ 2) :
    (invPairCode0 E px py pz = 1 ∧ invPairCode1 E px py pz = 1)
      ∧ (invPairNegCode0 E px py pz = 1 ∧ invPairNegCode1 E px py pz = 1) := by
  have h := boost_neg_inverse E px py pz hE hp hm
  rw [boostNeg_eq] at h
  rw [(invPairCode_eq E px py pz).1, (invPairCode_eq E px py pz).2, (invPairNegCode_eq E px py pz).1,
    (invPairNegCode_eq E px py pz).2]
  exact ⟨⟨h, h⟩, boost_inverted_inverse E px py pz hE hp hm, boost_inverted_inverse E px py pz hE hp hm⟩

/-! ### A momentum boosted by another boost (what `compute_boost_chain` builds) -/

/-- component `i` of `B(q)·p`: the momentum `p` boosted with the explicit boost matrix of `q` -/
noncomputable def boostedBy (Eq qx qy qz E px py pz : ℝ) (i : Fin 4) : ℝ :=
  (boostEx Eq qx qy qz).mulVec ![E, px, py, pz] i

/-! `BoostMatrix(ArrayMultiplication(BoostMatrix(q), p))`: explicit matrix and generated code (cse off / on)
are the boost matrix of the boosted momentum `B(q)·p` (all reals). The named vector `…_v0_i` of each family
is the matrix-times-vector result inside the generated code resp. the explicit matrix. -/

theorem boostChainEx_eq (E px py pz Eq qx qy qz : ℝ) :
    boostChainEx E px py pz Eq qx qy qz
      = boostEx (boostedBy Eq qx qy qz E px py pz 0) (boostedBy Eq qx qy qz E px py pz 1)
          (boostedBy Eq qx qy qz E px py pz 2) (boostedBy Eq qx qy qz E px py pz 3) := by
  have r0 : boostChainEx_rad0 E px py pz Eq qx qy qz = boostEx_rad Eq qx qy qz := by
    unfold boostChainEx_rad0 boostEx_rad <;> (try c08_unfold) <;> ring
  have v0 : boostChainEx_v0_0 E px py pz Eq qx qy qz = boostedBy Eq qx qy qz E px py pz 0 := by
    simp only [boostedBy, Matrix.mulVec, dotProduct, Fin.sum_univ_four] <;> c08_unfold <;>
      (try simp only [r0]) <;> ring
  have v1 : boostChainEx_v0_1 E px py pz Eq qx qy qz = boostedBy Eq qx qy qz E px py pz 1 := by
    simp only [boostedBy, Matrix.mulVec, dotProduct, Fin.sum_univ_four] <;> c08_unfold <;>
      (try simp only [r0]) <;> ring
  have v2 : boostChainEx_v0_2 E px py pz Eq qx qy qz = boostedBy Eq qx qy qz E px py pz 2 := by
    simp only [boostedBy, Matrix.mulVec, dotProduct, Fin.sum_univ_four] <;> c08_unfold <;>
      (try simp only [r0]) <;> ring
  have v3 : boostChainEx_v0_3 E px py pz Eq qx qy qz = boostedBy Eq qx qy qz E px py pz 3 := by
    simp only [boostedBy, Matrix.mulVec, dotProduct, Fin.sum_univ_four] <;> c08_unfold <;>
      (try simp only [r0]) <;> ring
  generalize boostedBy Eq qx qy qz E px py pz 0 = w0 at *
  generalize boostedBy Eq qx qy qz E px py pz 1 = w1 at *
  generalize boostedBy Eq qx qy qz E px py pz 2 = w2 at *
  generalize boostedBy Eq qx qy qz E px py pz 3 = w3 at *
  have r1 : boostChainEx_rad1 E px py pz Eq qx qy qz = boostEx_rad w0 w1 w2 w3 := by
    unfold boostChainEx_rad1 boostEx_rad <;> (try c08_unfold_entries) <;> (try simp only [v0, v1, v2, v3]) <;> ring
  ext i j
  fin_cases i <;> fin_cases j <;> c08_unfold_entries <;> (try simp only [v0, v1, v2, v3, r1]) <;> ring

theorem boostChainCode0_eq (E px py pz Eq qx qy qz : ℝ) :
    boostChainCode0 E px py pz Eq qx qy qz
      = boostEx (boostedBy Eq qx qy qz E px py pz 0) (boostedBy Eq qx qy qz E px py pz 1)
          (boostedBy Eq qx qy qz E px py pz 2) (boostedBy Eq qx qy qz E px py pz 3) := by
  have r0 : boostChainCode0_rad0 E px py pz Eq qx qy qz = boostEx_rad Eq qx qy qz := by
    unfold boostChainCode0_rad0 boostEx_rad <;> (try c08_unfold) <;> ring
  have v0 : boostChainCode0_v0_0 E px py pz Eq qx qy qz = boostedBy Eq qx qy qz E px py pz 0 := by
    simp only [boostedBy, Matrix.mulVec, dotProduct, Fin.sum_univ_four] <;> c08_unfold <;>
      (try simp only [r0]) <;> ring
  have v1 : boostChainCode0_v0_1 E px py pz Eq qx qy qz = boostedBy Eq qx qy qz E px py pz 1 := by
    simp only [boostedBy, Matrix.mulVec, dotProduct, Fin.sum_univ_four] <;> c08_unfold <;>
      (try simp only [r0]) <;> ring
  have v2 : boostChainCode0_v0_2 E px py pz Eq qx qy qz = boostedBy Eq qx qy qz E px py pz 2 := by
    simp only [boostedBy, Matrix.mulVec, dotProduct, Fin.sum_univ_four] <;> c08_unfold <;>
      (try simp only [r0]) <;> ring
  have v3 : boostChainCode0_v0_3 E px py pz Eq qx qy qz = boostedBy Eq qx qy qz E px py pz 3 := by
    simp only [boostedBy, Matrix.mulVec, dotProduct, Fin.sum_univ_four] <;> c08_unfold <;>
      (try simp only [r0]) <;> ring
  generalize boostedBy Eq qx qy qz E px py pz 0 = w0 at *
  generalize boostedBy Eq qx qy qz E px py pz 1 = w1 at *
  generalize boostedBy Eq qx qy qz E px py pz 2 = w2 at *
  generalize boostedBy Eq qx qy qz E px py pz 3 = w3 at *
  have r1 : boostChainCode0_rad1 E px py pz Eq qx qy qz = boostEx_rad w0 w1 w2 w3 := by
    unfold boostChainCode0_rad1 boostEx_rad <;> (try c08_unfold_entries) <;> (try simp only [v0, v1, v2, v3]) <;> ring
  ext i j
  fin_cases i <;> fin_cases j <;> c08_unfold_entries <;> (try simp only [v0, v1, v2, v3, r1]) <;> ring

theorem boostChainCode1_eq (E px py pz Eq qx qy qz : ℝ) :
    boostChainCode1 E px py pz Eq qx qy qz
      = boostEx (boostedBy Eq qx qy qz E px py pz 0) (boostedBy Eq qx qy qz E px py pz 1)
          (boostedBy Eq qx qy qz E px py pz 2) (boostedBy Eq qx qy qz E px py pz 3) := by
  have r0 : boostChainCode1_rad0 E px py pz Eq qx qy qz = boostEx_rad Eq qx qy qz := by
    unfold boostChainCode1_rad0 boostEx_rad <;> (try c08_unfold) <;> ring
  have v0 : boostChainCode1_v0_0 E px py pz Eq qx qy qz = boostedBy Eq qx qy qz E px py pz 0 := by
    simp only [boostedBy, Matrix.mulVec, dotProduct, Fin.sum_univ_four] <;> c08_unfold <;>
      (try simp only [r0]) <;> ring
  have v1 : boostChainCode1_v0_1 E px py pz Eq qx qy qz = boostedBy Eq qx qy qz E px py pz 1 := by
    simp only [boostedBy, Matrix.mulVec, dotProduct, Fin.sum_univ_four] <;> c08_unfold <;>
      (try simp only [r0]) <;> ring
  have v2 : boostChainCode1_v0_2 E px py pz Eq qx qy qz = boostedBy Eq qx qy qz E px py pz 2 := by
    simp only [boostedBy, Matrix.mulVec, dotProduct, Fin.sum_univ_four] <;> c08_unfold <;>
      (try simp only [r0]) <;> ring
  have v3 : boostChainCode1_v0_3 E px py pz Eq qx qy qz = boostedBy Eq qx qy qz E px py pz 3 := by
    simp only [boostedBy, Matrix.mulVec, dotProduct, Fin.sum_univ_four] <;> c08_unfold <;>
      (try simp only [r0]) <;> ring
  generalize boostedBy Eq qx qy qz E px py pz 0 = w0 at *
  generalize boostedBy Eq qx qy qz E px py pz 1 = w1 at *
  generalize boostedBy Eq qx qy qz E px py pz 2 = w2 at *
  generalize boostedBy Eq qx qy qz E px py pz 3 = w3 at *
  have r1 : boostChainCode1_rad1 E px py pz Eq qx qy qz = boostEx_rad w0 w1 w2 w3 := by
    unfold boostChainCode1_rad1 boostEx_rad <;> (try c08_unfold_entries) <;> (try simp only [v0, v1, v2, v3]) <;> ring
  ext i j
  fin_cases i <;> fin_cases j <;> c08_unfold_entries <;> (try simp only [v0, v1, v2, v3, r1]) <;> ring

/-! ## The einsum subscripts generated for ANY number of arrays

`Model/C08Einsum.lean` models `_create_einsum_subscripts` of both classes line by line (tied to the
source by exact string comparison for n = 0 … 24 on every run) and gives numpy's explicit-mode
einsum semantics for one event. The alphabet of the source ends at `z`: `n ≤ 18` arrays for
`ArrayMultiplication`, `n ≤ 17` for `MatrixMultiplication`; beyond that the generated string has
fewer operand groups than arrays (numpy raises) — see the two `_limit` theorems. -/

section Einsum
open Ampverif.Model.C08Einsum

/-- **ArrayMultiplication, all n**: for `n` arrays (`n−1` matrices and a vector), any dimension
`d` and any commutative semiring, the generated subscripts denote `M₁·(M₂·(…(M_{n−1}·v)))`. -/
theorem einsum_arrayMultiplication {α : Type} [CommSemiring α] (d n : Nat) (h1 : 1 ≤ n)
    (h18 : n ≤ 18) (Ms : List (List Nat → α)) (v : List Nat → α) (hlen : Ms.length + 1 = n)
    (a : Nat) :
    einsum d (subsA n) (Ms ++ [v]) [a] = chainVec d Ms v a :=
  Ampverif.Lemmas.C08Einsum.einsum_subsA d n h1 h18 Ms v hlen a

/-- **MatrixMultiplication, all n**: the generated subscripts denote the matrix product
`M₁·M₂·…·M_n`. -/
theorem einsum_matrixMultiplication {α : Type} [CommSemiring α] (d n : Nat) (h1 : 1 ≤ n)
    (h17 : n ≤ 17) (Ms : List (List Nat → α)) (hlen : Ms.length = n) (a b : Nat) :
    einsum d (subsM n) Ms [a, b] = chainMat d Ms a b :=
  Ampverif.Lemmas.C08Einsum.einsum_subsM d n h1 h17 Ms hlen a b

/-- One index group per array up to the alphabet limit … -/
theorem einsum_group_count (n : Nat) :
    (n ≤ 18 → (subsA n).operands.length = n) ∧ (n ≤ 17 → (subsM n).operands.length = n) := by
  constructor
  · intro h; interval_cases n <;> decide
  · intro h; interval_cases n <;> decide

/-- … and too few beyond it (19 arrays get 18 groups: numpy rejects the call). -/
theorem einsum_arrayMultiplication_limit : (subsA 19).operands.length = 18 := by decide

theorem einsum_matrixMultiplication_limit : (subsM 18).operands.length = 17 := by decide

/-- The strings for the array counts that occur in ampform's own expressions. -/
theorem einsum_strings :
    createA 2 = "...ij,...j->...i" ∧ createA 3 = "...ij,...jk,...k->...i"
      ∧ createA 4 = "...ij,...jk,...kl,...l->...i" ∧ createM 2 = "...ij,...jk->...ik" := by
  decide

/-- `chainVec` with one matrix is Mathlib's `Matrix.mulVec` (d = 4). -/
theorem chainVec_eq_mulVec (M : Matrix (Fin 4) (Fin 4) ℝ) (v : Fin 4 → ℝ) (a : Fin 4) :
    chainVec 4 [fun idx => M (Fin.ofNat 4 (idx.getD 0 0)) (Fin.ofNat 4 (idx.getD 1 0))]
        (fun idx => v (Fin.ofNat 4 (idx.getD 0 0))) a.val
      = (M.mulVec v) a := by
  fin_cases a <;>
    simp [chainVec, sumRange, List.range, List.range.loop, Matrix.mulVec, dotProduct,
      Fin.sum_univ_four, Fin.ofNat] <;> ring

end Einsum

/-! ## Non-vacuity: the hypotheses are satisfiable, on non-trivial momenta -/

example : (0 : ℝ) < 5 ∧ (0 : ℝ) < 1 ^ 2 + 2 ^ 2 + (-3) ^ 2 ∧ (1 : ℝ) ^ 2 + 2 ^ 2 + (-3) ^ 2 < 5 ^ 2 := by
  norm_num

example : (boostEx 5 1 2 (-3)).det = 1 := boost_det 5 1 2 (-3) (by norm_num) (by norm_num) (by norm_num)

/-- the inverse-boost statement for an already inverted momentum, at a concrete non-trivial momentum -/
example : boostNeg2Code0 5 1 2 (-3) * boostNegCode0 5 1 2 (-3) = 1 :=
  (boostNeg2Code_inverse 5 1 2 (-3) (by norm_num) (by norm_num) (by norm_num)).1

example : ((3 : ℝ) / 5) ^ 2 < 1 := by norm_num

example : (boostZEx (3 / 5)).det = 1 := boostZ_det (3 / 5) (by norm_num)

/-- a concrete instance of the general-n einsum theorem: four arrays over ℤ, dimension 3 -/
example (M1 M2 M3 v : List Nat → ℤ) (a : Nat) :
    Ampverif.Model.C08Einsum.einsum 3 (Ampverif.Model.C08Einsum.subsA 4) ([M1, M2, M3] ++ [v]) [a]
      = Ampverif.Model.C08Einsum.chainVec 3 [M1, M2, M3] v a :=
  einsum_arrayMultiplication 3 4 (by norm_num) (by norm_num) [M1, M2, M3] v rfl a

end Ampverif.Props.C08
