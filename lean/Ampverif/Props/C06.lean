/-
C06 — formulate() is a pure function of (reaction, configuration).

Theorems about the state-machine model `Ampverif.Model.C06Purity` (process-global heap of memoised
results held by reference, per-builder ingredients / configuration / adapter topology set,
`formulate` with its in-place updates).  `tools/props/C06.py` runs the same histories through this
model and through the real builders on every run.  Only property theorems and non-vacuity
examples live here; helper lemmas are in `Ampverif/Lemmas/C06*.lean`.
-/
import Ampverif.Lemmas.C06Witness

namespace Ampverif.Props.C06
open Ampverif.C06 Ampverif.C06.Witness

/-! ### purity over all histories -/

/-- **C06_pure.**  In the sound variant (`define_symbols` returns a copy, `formulate` resets the
ingredients, configurations are per builder, sort ties are broken by the name), for EVERY world
whose topology maps are pairwise consistent and whose symbols have distinct names, and for EVERY
history — any number of builders on any reactions, any interleaving of `configure`,
`register_topology`, `formulate`, rejected assignments and cache evictions, any iteration order of
the adapter's topology set after each change (= any hash seed, any registration order) —
every `formulate` returns `F (its reaction) (what the user configured on that builder)`, where
`F` mentions neither heap nor history. -/
theorem C06_pure (v : Variant) (hv : v.sound) (w : World) (hw : WorldOK w) (ops : List Op) :
    OutputsPure v w State.init ops :=
  outputsPure_of_inv hv hw ops State.init (SInv.init w)

/-- Two `formulate` calls with the same reaction and the same user configuration return the same
model, in whatever states (histories, processes: any two invariant-satisfying states), on
whatever builders, with whatever set iteration orders they are made. -/
theorem C06_same_configuration_same_model (v : Variant) (hv : v.sound) (w : World) (hw : WorldOK w)
    (s₁ s₂ : State) (h₁ : SInv w s₁) (h₂ : SInv w s₂) (i₁ i₂ : Nat) (o₁ o₂ : List Nat)
    (a₁ a₂ : List (List Nat))
    (b₁ b₂ : Builder) (hb₁ : s₁.builders[i₁]? = some b₁) (hb₂ : s₂.builders[i₂]? = some b₂)
    (hr : b₁.reaction = b₂.reaction) (hc : b₁.user = b₂.user) :
    (step v w s₁ (.formulate i₁ o₁ a₁)).2 = (step v w s₂ (.formulate i₂ o₂ a₂)).2 := by
  rw [step_output hv hw h₁ i₁ o₁ a₁ b₁ hb₁, step_output hv hw h₂ i₂ o₂ a₂ b₂ hb₂, hr, hc]

/-- The invariant behind `C06_pure`: after any history every cache entry still refers to the
pure value of its key (in particular the memoised DPD symbol dict is never modified). -/
theorem C06_cache_entries_stay_pure (v : Variant) (hv : v.sound) (w : World) (hw : WorldOK w) :
    ∀ (ops : List Op) (s : State), SInv w s →
      HeapInv w (ops.foldl (fun st op => (step v w st op).1) s).heap := by
  intro ops
  induction ops with
  | nil => intro s hs; exact hs.heap
  | cons op rest ih => intro s hs; exact ih _ (step_inv hv hw hs op)

/-! ### hash-seed independence: merge order + sorting converter -/

/-- **C06_order** (general form).  `out = {}; for m in maps: out.update(m)` followed by a stable
sort on a linear order of the keys does not depend on the order of the maps, provided any two maps
agree on common keys (C07's no-collision premise). -/
theorem C06_order_linear {κ β : Type} [DecidableEq κ] (keyLe : κ → κ → Bool)
    (total : ∀ a b, keyLe a b = true ∨ keyLe b a = true)
    (anti : ∀ a b, keyLe a b = true → keyLe b a = true → a = b)
    (trans : ∀ a b c, keyLe a b = true → keyLe b c = true → keyLe a c = true)
    (maps maps' : List (List (κ × β))) (hc : Consistent maps) (hp : maps.Perm maps') :
    isort (fun a b => keyLe a.1 b.1) (dmerge maps) = isort (fun a b => keyLe a.1 b.1) (dmerge maps') :=
  isort_eq_of_dequiv total anti trans (NodupKeys.dmerge _) (NodupKeys.dmerge _)
    (dmerge_dequiv_of_perm hc hp)

/-- **C06_order** for the modelled converter of `kinematic_variables`
(`sorted(mapping, key=lambda s: (natural_sorting(s.name), s.name))`, names as code points):
unconditional in the names — the key is a linear order on names (`nameLe_total/anti/trans`),
so no "no ties" premise is left. -/
theorem C06_order {β : Type} (maps maps' : List (List (List Nat × β))) (hc : Consistent maps)
    (hp : maps.Perm maps') :
    isort (fun a b => nameLe a.1 b.1) (dmerge maps) = isort (fun a b => nameLe a.1 b.1) (dmerge maps') :=
  C06_order_linear nameLe nameLe_total nameLe_anti nameLe_trans maps maps' hc hp

/-- Without the tie-break the statement is false: `m_1` and `m_01` have the same natural-sort key
(`['m_', 1.0, '']`) and the stable sort keeps the merge order. -/
theorem C06_order_needs_tie_break :
    let m1 : List (List Nat × Nat) := [([109, 95, 49], 0)]        -- {"m_1": 0}
    let m01 : List (List Nat × Nat) := [([109, 95, 48, 49], 1)]   -- {"m_01": 1}
    Consistent [m1, m01] ∧ [m1, m01].Perm [m01, m1] ∧
      isort (fun a b => natKeyLe (natKey a.1) (natKey b.1)) (dmerge [m1, m01]) ≠
        isort (fun a b => natKeyLe (natKey a.1) (natKey b.1)) (dmerge [m01, m1]) := by
  refine ⟨?_, List.Perm.swap _ _ _, by decide⟩
  intro a ha b hb k v₁ v₂ h₁ h₂
  simp only [List.mem_cons, List.mem_nil_iff, or_false] at ha hb
  rcases ha with ha | ha <;> rcases hb with hb | hb <;> subst ha <;> subst hb <;>
    simp only [List.mem_cons, List.mem_nil_iff, or_false, Prod.mk.injEq] at h₁ h₂
  · rw [h₁.2, h₂.2]
  · have := h₁.1.symm.trans h₂.1; simp at this
  · have := h₁.1.symm.trans h₂.1; simp at this
  · rw [h₁.2, h₂.2]

/-! ### every unsound switch has a replayable witness -/

/-- **C06_witness_alias.**  `define_symbols` returns the memoised dict (tree before b218b43):
[stable ids; formulate; default; formulate; stable ids again; formulate] — the first and the third
model belong to the same configuration and differ (the ζ definitions lost `m_0`, `m_1`, … after the
default model replaced them in place).  Under the sound variant they are equal. -/
theorem C06_witness_alias :
    (run aliasedVariant w0 State.init aliasHistory)[3]? ≠ (run aliasedVariant w0 State.init aliasHistory)[7]? ∧
    (run soundVariant w0 State.init aliasHistory)[3]? = (run soundVariant w0 State.init aliasHistory)[7]? := by
  decide +kernel

/-- the witness is a violation of the property statement itself -/
theorem C06_witness_alias_not_pure : ¬ OutputsPure aliasedVariant w0 State.init aliasHistory := by
  rw [← outputsPureB_iff]
  decide +kernel

/-- **C06_witness_noreset.**  Without `ingredients.reset()` the parameters of an earlier
configuration survive: a builder that had helicity couplings switched on and off again returns a
model different from a fresh builder's. -/
theorem C06_witness_noreset :
    (run noResetVariant w0 State.init noResetHistory)[4]? ≠ (run noResetVariant w0 State.init noResetHistory)[6]? ∧
    (run soundVariant w0 State.init noResetHistory)[4]? = (run soundVariant w0 State.init noResetHistory)[6]? := by
  decide +kernel

/-- **C06_witness_shared.**  With one module-level configuration object, configuring builder 0
changes what builder 1 formulates. -/
theorem C06_witness_shared :
    (run sharedVariant w0 State.init sharedHistory)[2]? ≠ (run sharedVariant w0 State.init sharedHistory)[5]? ∧
    (run soundVariant w0 State.init sharedHistory)[2]? = (run soundVariant w0 State.init sharedHistory)[5]? := by
  decide +kernel

/-- **C06_witness_ties.**  Sorting by `natural_sorting(name)` alone (tree before 043d8fb): two
builders of the un-relabelled reaction whose topology sets iterate in opposite orders (two hash
seeds) return `kinematic_variables` in different key orders (`m_01, m_1` vs `m_1, m_01`). -/
theorem C06_witness_ties :
    (run tiesVariant w0 State.init tiesHistory)[2]? ≠ (run tiesVariant w0 State.init tiesHistory)[3]? ∧
    (run soundVariant w0 State.init tiesHistory)[2]? = (run soundVariant w0 State.init tiesHistory)[3]? := by
  decide +kernel

/-- **C06_missing_order.**  `__define_missing_amplitudes` followed by the amplitudes converter:
when the atoms are visited in `sorted(..., key=str)` order (any linear order `strLe` on the keys),
the final key order of `model.amplitudes` does not depend on the iteration order of the atoms
set — for ANY converter order `convLe`, ties included. -/
theorem C06_missing_order {κ β : Type} [DecidableEq κ] (strLe : κ → κ → Bool)
    (total : ∀ a b, strLe a b = true ∨ strLe b a = true)
    (anti : ∀ a b, strLe a b = true → strLe b a = true → a = b)
    (trans : ∀ a b c, strLe a b = true → strLe b c = true → strLe a c = true)
    (convLe : κ × β → κ × β → Bool) (registered : List (κ × β)) (zero : β)
    (iter iter' : List κ) (hp : iter.Perm iter') :
    isort convLe (ddefaults registered zero (isort strLe iter)) =
      isort convLe (ddefaults registered zero (isort strLe iter')) := by
  rw [isort_eq_of_perm total trans (fun a b _ _ => anti a b) hp]

/-- Without the inner sort the statement is false as soon as two keys tie under the converter's
key: `A[0, -1]` and `A[0, 1]` have the same natural-sort key (the sign is dropped), so the stable
sort keeps the set-iteration order.  With the inner sort (code-point order of `str`) both orders
give the same result. -/
theorem C06_missing_order_needs_inner_sort :
    let a : List Nat := "A[0, -1]".toList.map Char.toNat
    let b : List Nat := "A[0, 1]".toList.map Char.toNat
    let conv : List Nat × Nat → List Nat × Nat → Bool := fun x y => natKeyLe (natKey x.1) (natKey y.1)
    natKey a = natKey b ∧
    isort conv (ddefaults [] 0 [a, b]) ≠ isort conv (ddefaults [] 0 [b, a]) ∧
    isort conv (ddefaults [] 0 (isort (lexLe natLe) [a, b])) =
      isort conv (ddefaults [] 0 (isort (lexLe natLe) [b, a])) := by
  decide +kernel

/-- The key order of `model.amplitudes` for names as code points, with the modelled converter
(stable sort on `natural_sorting(str(a))`, ties!) and the inner `sorted(atoms, key=str)`: it is a
function of the REGISTRATION order of the amplitudes with transitions (which follows
`reaction.transitions` and the configuration) and of the atoms as a SET — nothing else. -/
theorem C06_amplitudes_order_only_registration {β : Type} (registered : List (List Nat × β)) (zero : β)
    (iter iter' : List (List Nat)) (hp : iter.Perm iter') :
    isort (fun x y => natKeyLe (natKey x.1) (natKey y.1)) (ddefaults registered zero (isort (lexLe natLe) iter)) =
      isort (fun x y => natKeyLe (natKey x.1) (natKey y.1)) (ddefaults registered zero (isort (lexLe natLe) iter')) :=
  C06_missing_order (lexLe natLe) natLex_total natLex_anti natLex_trans _ registered zero iter iter' hp

/-- … and it does depend on the registration order (observation, outside C06's statement): the
same two amplitudes registered in the two orders come out in the two orders, because
`A[0, -1, -1]` and `A[0, 1, 1]` tie under the converter's key. -/
theorem C06_amplitudes_depend_on_registration_order :
    let a : List Nat := "A[0, -1, -1]".toList.map Char.toNat
    let b : List Nat := "A[0, 1, 1]".toList.map Char.toNat
    let conv : List Nat × Nat → List Nat × Nat → Bool := fun x y => natKeyLe (natKey x.1) (natKey y.1)
    isort conv (ddefaults [(a, 1), (b, 1)] 0 (isort (lexLe natLe) [a, b])) ≠
      isort conv (ddefaults [(b, 1), (a, 1)] 0 (isort (lexLe natLe) [a, b])) := by
  decide +kernel

/-- **C06_witness_missing.**  Zero definitions inserted in set-iteration order (seeded change
C06_3 / before the `sorted` of e6c0bd9): two builders of one reaction with the same configuration
whose atom sets iterate differently (two hash seeds) return `amplitudes` in different key orders. -/
theorem C06_witness_missing :
    (run missingUnsortedVariant w0 State.init missingHistory)[2]? ≠
      (run missingUnsortedVariant w0 State.init missingHistory)[3]? ∧
    (run soundVariant w0 State.init missingHistory)[2]? = (run soundVariant w0 State.init missingHistory)[3]? := by
  decide +kernel

/-! ### non-vacuity -/

/-- the premises of `C06_pure` hold for a non-trivial world (two reactions, two topologies each,
DPD symbol dict with mass symbols, names that tie under the plain natural sort) -/
example : WorldOK w0 := w0_ok

/-- … so the theorem applies to an interleaved history of two builders sharing a reaction, with
an eviction, a registration, an alignment error and opposite set iteration orders … -/
example : OutputsPure soundVariant w0 State.init interleavedHistory :=
  C06_pure soundVariant (by decide) w0 w0_ok interleavedHistory

/-- … whose formulate outputs are real models (10, 13, 11, 10 kinematic variables), one error, and
coincide exactly where the configurations coincide (operations 5, 10 and 16). -/
example :
    ((run soundVariant w0 State.init interleavedHistory).map fun o => match o with
      | some (.ok m) => m.kin.length
      | some (.error e) => 1000 + e
      | none => 0) = [0, 0, 0, 0, 0, 10, 13, 0, 11, 0, 10, 0, 0, 1001, 0, 0, 10] ∧
    (run soundVariant w0 State.init interleavedHistory)[5]? = (run soundVariant w0 State.init interleavedHistory)[10]? ∧
    (run soundVariant w0 State.init interleavedHistory)[5]? = (run soundVariant w0 State.init interleavedHistory)[16]? ∧
    (run soundVariant w0 State.init interleavedHistory)[5]? ≠ (run soundVariant w0 State.init interleavedHistory)[6]? := by
  decide +kernel

/-- the modelled natural sort on real names: `z2 < z11`, `A_{-1/2}` and `A_{+1/2}` tie (the sign is
not part of the key), `m_1` and `m_01` tie but are ordered by the tie-break -/
example :
    naturalSort ["z11".toList.map Char.toNat, "z2".toList.map Char.toNat]
      = ["z2".toList.map Char.toNat, "z11".toList.map Char.toNat] ∧
    natKey ("A_{-1/2}".toList.map Char.toNat) = natKey ("A_{+1/2}".toList.map Char.toNat) ∧
    natKey ("m_1".toList.map Char.toNat) = natKey ("m_01".toList.map Char.toNat) ∧
    nameLe ("m_01".toList.map Char.toNat) ("m_1".toList.map Char.toNat) = true ∧
    nameLe ("m_1".toList.map Char.toNat) ("m_01".toList.map Char.toNat) = false := by
  decide +kernel

end Ampverif.Props.C06
