/-
C09, three channels (thorough tier) — the entries of `formulate(3, ·, parametrize=False)` of both
K-matrix classes (`Ampverif.Gen.C09N3.*`, regenerated in a time-capped subprocess) solve
`E (1 − iK) = K` resp. `Ê (1 − iρK̂) = K̂`, are therefore the abstract formula wherever the
determinant does not vanish, and are unitary and symmetric for real symmetric K (positive ρ).
-/
import Ampverif.Gen.C09N3
import Ampverif.Lemmas.C09Cayley
import Ampverif.Lemmas.C09Real
import Ampverif.Lemmas.C09Entries

set_option linter.unusedVariables false
set_option linter.unusedTactic false
set_option linter.unreachableTactic false
set_option maxRecDepth 100000
set_option linter.unusedSimpArgs false

namespace Ampverif.Props.C09N3
open Ampverif.Gen.C09N3 Ampverif.Lemmas.C09 Matrix

/-- n = 3, non-relativistic, row 0 of `E (1 − iK) = K` for the regenerated entries. -/
theorem nrT3_solves_row0 (a b c d e f g h k : ℂ)
    (h1 : nrT3_den1 a b c d e f g h k ≠ 0) (h2 : nrT3_den2 a b c d e f g h k ≠ 0) :
    (nrT3_00 a b c d e f g h k * (1 - Complex.I * a) + nrT3_01 a b c d e f g h k * (-(Complex.I * d)) + nrT3_02 a b c d e f g h k * (-(Complex.I * g)) = a) ∧
    (nrT3_00 a b c d e f g h k * (-(Complex.I * b)) + nrT3_01 a b c d e f g h k * (1 - Complex.I * e) + nrT3_02 a b c d e f g h k * (-(Complex.I * h)) = b) ∧
    (nrT3_00 a b c d e f g h k * (-(Complex.I * c)) + nrT3_01 a b c d e f g h k * (-(Complex.I * f)) + nrT3_02 a b c d e f g h k * (1 - Complex.I * k) = c) := by
  refine ⟨?_, ?_, ?_⟩ <;>
  · simp only [nrT3_00, nrT3_01, nrT3_02, nrT3_10, nrT3_11, nrT3_12, nrT3_20, nrT3_21, nrT3_22]
    field_simp
    simp only [nrT3_den1, nrT3_den2]
    ipow

/-- n = 3, non-relativistic, row 1 of `E (1 − iK) = K` for the regenerated entries. -/
theorem nrT3_solves_row1 (a b c d e f g h k : ℂ)
    (h1 : nrT3_den1 a b c d e f g h k ≠ 0) (h2 : nrT3_den2 a b c d e f g h k ≠ 0) :
    (nrT3_10 a b c d e f g h k * (1 - Complex.I * a) + nrT3_11 a b c d e f g h k * (-(Complex.I * d)) + nrT3_12 a b c d e f g h k * (-(Complex.I * g)) = d) ∧
    (nrT3_10 a b c d e f g h k * (-(Complex.I * b)) + nrT3_11 a b c d e f g h k * (1 - Complex.I * e) + nrT3_12 a b c d e f g h k * (-(Complex.I * h)) = e) ∧
    (nrT3_10 a b c d e f g h k * (-(Complex.I * c)) + nrT3_11 a b c d e f g h k * (-(Complex.I * f)) + nrT3_12 a b c d e f g h k * (1 - Complex.I * k) = f) := by
  refine ⟨?_, ?_, ?_⟩ <;>
  · simp only [nrT3_00, nrT3_01, nrT3_02, nrT3_10, nrT3_11, nrT3_12, nrT3_20, nrT3_21, nrT3_22]
    field_simp
    simp only [nrT3_den1, nrT3_den2]
    ipow

/-- n = 3, non-relativistic, row 2 of `E (1 − iK) = K` for the regenerated entries. -/
theorem nrT3_solves_row2 (a b c d e f g h k : ℂ)
    (h1 : nrT3_den1 a b c d e f g h k ≠ 0) (h2 : nrT3_den2 a b c d e f g h k ≠ 0) :
    (nrT3_20 a b c d e f g h k * (1 - Complex.I * a) + nrT3_21 a b c d e f g h k * (-(Complex.I * d)) + nrT3_22 a b c d e f g h k * (-(Complex.I * g)) = g) ∧
    (nrT3_20 a b c d e f g h k * (-(Complex.I * b)) + nrT3_21 a b c d e f g h k * (1 - Complex.I * e) + nrT3_22 a b c d e f g h k * (-(Complex.I * h)) = h) ∧
    (nrT3_20 a b c d e f g h k * (-(Complex.I * c)) + nrT3_21 a b c d e f g h k * (-(Complex.I * f)) + nrT3_22 a b c d e f g h k * (1 - Complex.I * k) = k) := by
  refine ⟨?_, ?_, ?_⟩ <;>
  · simp only [nrT3_00, nrT3_01, nrT3_02, nrT3_10, nrT3_11, nrT3_12, nrT3_20, nrT3_21, nrT3_22]
    field_simp
    simp only [nrT3_den1, nrT3_den2]
    ipow

/-- n = 3, relativistic, row 0 of `T̂ (1 − iρK̂) = K̂` for the regenerated entries. -/
theorem relTh3_solves_row0 (ρ0 ρ1 ρ2 a b c d e f g h k : ℂ)
    (h1 : relT3_den1 ρ0 ρ1 ρ2 a b c d e f g h k ≠ 0) :
    (relTh3_00 ρ0 ρ1 ρ2 a b c d e f g h k * (1 - Complex.I * ρ0 * a) + relTh3_01 ρ0 ρ1 ρ2 a b c d e f g h k * (-(Complex.I * ρ1 * d)) + relTh3_02 ρ0 ρ1 ρ2 a b c d e f g h k * (-(Complex.I * ρ2 * g)) = a) ∧
    (relTh3_00 ρ0 ρ1 ρ2 a b c d e f g h k * (-(Complex.I * ρ0 * b)) + relTh3_01 ρ0 ρ1 ρ2 a b c d e f g h k * (1 - Complex.I * ρ1 * e) + relTh3_02 ρ0 ρ1 ρ2 a b c d e f g h k * (-(Complex.I * ρ2 * h)) = b) ∧
    (relTh3_00 ρ0 ρ1 ρ2 a b c d e f g h k * (-(Complex.I * ρ0 * c)) + relTh3_01 ρ0 ρ1 ρ2 a b c d e f g h k * (-(Complex.I * ρ1 * f)) + relTh3_02 ρ0 ρ1 ρ2 a b c d e f g h k * (1 - Complex.I * ρ2 * k) = c) := by
  refine ⟨?_, ?_, ?_⟩ <;>
  · simp only [relTh3_00, relTh3_01, relTh3_02, relTh3_10, relTh3_11, relTh3_12, relTh3_20, relTh3_21, relTh3_22]
    field_simp
    simp only [relT3_den1]
    ipow

/-- n = 3, relativistic, row 1 of `T̂ (1 − iρK̂) = K̂` for the regenerated entries. -/
theorem relTh3_solves_row1 (ρ0 ρ1 ρ2 a b c d e f g h k : ℂ)
    (h1 : relT3_den1 ρ0 ρ1 ρ2 a b c d e f g h k ≠ 0) :
    (relTh3_10 ρ0 ρ1 ρ2 a b c d e f g h k * (1 - Complex.I * ρ0 * a) + relTh3_11 ρ0 ρ1 ρ2 a b c d e f g h k * (-(Complex.I * ρ1 * d)) + relTh3_12 ρ0 ρ1 ρ2 a b c d e f g h k * (-(Complex.I * ρ2 * g)) = d) ∧
    (relTh3_10 ρ0 ρ1 ρ2 a b c d e f g h k * (-(Complex.I * ρ0 * b)) + relTh3_11 ρ0 ρ1 ρ2 a b c d e f g h k * (1 - Complex.I * ρ1 * e) + relTh3_12 ρ0 ρ1 ρ2 a b c d e f g h k * (-(Complex.I * ρ2 * h)) = e) ∧
    (relTh3_10 ρ0 ρ1 ρ2 a b c d e f g h k * (-(Complex.I * ρ0 * c)) + relTh3_11 ρ0 ρ1 ρ2 a b c d e f g h k * (-(Complex.I * ρ1 * f)) + relTh3_12 ρ0 ρ1 ρ2 a b c d e f g h k * (1 - Complex.I * ρ2 * k) = f) := by
  refine ⟨?_, ?_, ?_⟩ <;>
  · simp only [relTh3_00, relTh3_01, relTh3_02, relTh3_10, relTh3_11, relTh3_12, relTh3_20, relTh3_21, relTh3_22]
    field_simp
    simp only [relT3_den1]
    ipow

/-- n = 3, relativistic, row 2 of `T̂ (1 − iρK̂) = K̂` for the regenerated entries. -/
theorem relTh3_solves_row2 (ρ0 ρ1 ρ2 a b c d e f g h k : ℂ)
    (h1 : relT3_den1 ρ0 ρ1 ρ2 a b c d e f g h k ≠ 0) :
    (relTh3_20 ρ0 ρ1 ρ2 a b c d e f g h k * (1 - Complex.I * ρ0 * a) + relTh3_21 ρ0 ρ1 ρ2 a b c d e f g h k * (-(Complex.I * ρ1 * d)) + relTh3_22 ρ0 ρ1 ρ2 a b c d e f g h k * (-(Complex.I * ρ2 * g)) = g) ∧
    (relTh3_20 ρ0 ρ1 ρ2 a b c d e f g h k * (-(Complex.I * ρ0 * b)) + relTh3_21 ρ0 ρ1 ρ2 a b c d e f g h k * (1 - Complex.I * ρ1 * e) + relTh3_22 ρ0 ρ1 ρ2 a b c d e f g h k * (-(Complex.I * ρ2 * h)) = h) ∧
    (relTh3_20 ρ0 ρ1 ρ2 a b c d e f g h k * (-(Complex.I * ρ0 * c)) + relTh3_21 ρ0 ρ1 ρ2 a b c d e f g h k * (-(Complex.I * ρ1 * f)) + relTh3_22 ρ0 ρ1 ρ2 a b c d e f g h k * (1 - Complex.I * ρ2 * k) = k) := by
  refine ⟨?_, ?_, ?_⟩ <;>
  · simp only [relTh3_00, relTh3_01, relTh3_02, relTh3_10, relTh3_11, relTh3_12, relTh3_20, relTh3_21, relTh3_22]
    field_simp
    simp only [relT3_den1]
    ipow

/-- `T = (√ρ)* T̂ √ρ` entry by entry. -/
theorem relT3_eq (ρ0 ρ1 ρ2 a b c d e f g h k : ℂ) :
    relT3_00 ρ0 ρ1 ρ2 a b c d e f g h k = (starRingEnd ℂ) (ρ0 ^ ((1 : ℂ) / 2)) * relTh3_00 ρ0 ρ1 ρ2 a b c d e f g h k * ρ0 ^ ((1 : ℂ) / 2) ∧
    relT3_01 ρ0 ρ1 ρ2 a b c d e f g h k = (starRingEnd ℂ) (ρ0 ^ ((1 : ℂ) / 2)) * relTh3_01 ρ0 ρ1 ρ2 a b c d e f g h k * ρ1 ^ ((1 : ℂ) / 2) ∧
    relT3_02 ρ0 ρ1 ρ2 a b c d e f g h k = (starRingEnd ℂ) (ρ0 ^ ((1 : ℂ) / 2)) * relTh3_02 ρ0 ρ1 ρ2 a b c d e f g h k * ρ2 ^ ((1 : ℂ) / 2) ∧
    relT3_10 ρ0 ρ1 ρ2 a b c d e f g h k = (starRingEnd ℂ) (ρ1 ^ ((1 : ℂ) / 2)) * relTh3_10 ρ0 ρ1 ρ2 a b c d e f g h k * ρ0 ^ ((1 : ℂ) / 2) ∧
    relT3_11 ρ0 ρ1 ρ2 a b c d e f g h k = (starRingEnd ℂ) (ρ1 ^ ((1 : ℂ) / 2)) * relTh3_11 ρ0 ρ1 ρ2 a b c d e f g h k * ρ1 ^ ((1 : ℂ) / 2) ∧
    relT3_12 ρ0 ρ1 ρ2 a b c d e f g h k = (starRingEnd ℂ) (ρ1 ^ ((1 : ℂ) / 2)) * relTh3_12 ρ0 ρ1 ρ2 a b c d e f g h k * ρ2 ^ ((1 : ℂ) / 2) ∧
    relT3_20 ρ0 ρ1 ρ2 a b c d e f g h k = (starRingEnd ℂ) (ρ2 ^ ((1 : ℂ) / 2)) * relTh3_20 ρ0 ρ1 ρ2 a b c d e f g h k * ρ0 ^ ((1 : ℂ) / 2) ∧
    relT3_21 ρ0 ρ1 ρ2 a b c d e f g h k = (starRingEnd ℂ) (ρ2 ^ ((1 : ℂ) / 2)) * relTh3_21 ρ0 ρ1 ρ2 a b c d e f g h k * ρ1 ^ ((1 : ℂ) / 2) ∧
    relT3_22 ρ0 ρ1 ρ2 a b c d e f g h k = (starRingEnd ℂ) (ρ2 ^ ((1 : ℂ) / 2)) * relTh3_22 ρ0 ρ1 ρ2 a b c d e f g h k * ρ2 ^ ((1 : ℂ) / 2) := by
  refine ⟨?_, ?_, ?_, ?_, ?_, ?_, ?_, ?_, ?_⟩ <;>
  · simp only [relT3_00, relT3_01, relT3_02, relT3_10, relT3_11, relT3_12, relT3_20, relT3_21, relT3_22, relTh3_00, relTh3_01, relTh3_02, relTh3_10, relTh3_11, relTh3_12, relTh3_20, relTh3_21, relTh3_22]
    ring

noncomputable def nrT3M (K : Matrix (Fin 3) (Fin 3) ℂ) : Matrix (Fin 3) (Fin 3) ℂ :=
  !![nrT3_00 (K 0 0) (K 0 1) (K 0 2) (K 1 0) (K 1 1) (K 1 2) (K 2 0) (K 2 1) (K 2 2), nrT3_01 (K 0 0) (K 0 1) (K 0 2) (K 1 0) (K 1 1) (K 1 2) (K 2 0) (K 2 1) (K 2 2), nrT3_02 (K 0 0) (K 0 1) (K 0 2) (K 1 0) (K 1 1) (K 1 2) (K 2 0) (K 2 1) (K 2 2);
     nrT3_10 (K 0 0) (K 0 1) (K 0 2) (K 1 0) (K 1 1) (K 1 2) (K 2 0) (K 2 1) (K 2 2), nrT3_11 (K 0 0) (K 0 1) (K 0 2) (K 1 0) (K 1 1) (K 1 2) (K 2 0) (K 2 1) (K 2 2), nrT3_12 (K 0 0) (K 0 1) (K 0 2) (K 1 0) (K 1 1) (K 1 2) (K 2 0) (K 2 1) (K 2 2);
     nrT3_20 (K 0 0) (K 0 1) (K 0 2) (K 1 0) (K 1 1) (K 1 2) (K 2 0) (K 2 1) (K 2 2), nrT3_21 (K 0 0) (K 0 1) (K 0 2) (K 1 0) (K 1 1) (K 1 2) (K 2 0) (K 2 1) (K 2 2), nrT3_22 (K 0 0) (K 0 1) (K 0 2) (K 1 0) (K 1 1) (K 1 2) (K 2 0) (K 2 1) (K 2 2)]

noncomputable def relTh3M (ρ : Fin 3 → ℂ) (K : Matrix (Fin 3) (Fin 3) ℂ) : Matrix (Fin 3) (Fin 3) ℂ :=
  !![relTh3_00 (ρ 0) (ρ 1) (ρ 2) (K 0 0) (K 0 1) (K 0 2) (K 1 0) (K 1 1) (K 1 2) (K 2 0) (K 2 1) (K 2 2), relTh3_01 (ρ 0) (ρ 1) (ρ 2) (K 0 0) (K 0 1) (K 0 2) (K 1 0) (K 1 1) (K 1 2) (K 2 0) (K 2 1) (K 2 2), relTh3_02 (ρ 0) (ρ 1) (ρ 2) (K 0 0) (K 0 1) (K 0 2) (K 1 0) (K 1 1) (K 1 2) (K 2 0) (K 2 1) (K 2 2);
     relTh3_10 (ρ 0) (ρ 1) (ρ 2) (K 0 0) (K 0 1) (K 0 2) (K 1 0) (K 1 1) (K 1 2) (K 2 0) (K 2 1) (K 2 2), relTh3_11 (ρ 0) (ρ 1) (ρ 2) (K 0 0) (K 0 1) (K 0 2) (K 1 0) (K 1 1) (K 1 2) (K 2 0) (K 2 1) (K 2 2), relTh3_12 (ρ 0) (ρ 1) (ρ 2) (K 0 0) (K 0 1) (K 0 2) (K 1 0) (K 1 1) (K 1 2) (K 2 0) (K 2 1) (K 2 2);
     relTh3_20 (ρ 0) (ρ 1) (ρ 2) (K 0 0) (K 0 1) (K 0 2) (K 1 0) (K 1 1) (K 1 2) (K 2 0) (K 2 1) (K 2 2), relTh3_21 (ρ 0) (ρ 1) (ρ 2) (K 0 0) (K 0 1) (K 0 2) (K 1 0) (K 1 1) (K 1 2) (K 2 0) (K 2 1) (K 2 2), relTh3_22 (ρ 0) (ρ 1) (ρ 2) (K 0 0) (K 0 1) (K 0 2) (K 1 0) (K 1 1) (K 1 2) (K 2 0) (K 2 1) (K 2 2)]

noncomputable def relT3M (ρ : Fin 3 → ℂ) (K : Matrix (Fin 3) (Fin 3) ℂ) : Matrix (Fin 3) (Fin 3) ℂ :=
  !![relT3_00 (ρ 0) (ρ 1) (ρ 2) (K 0 0) (K 0 1) (K 0 2) (K 1 0) (K 1 1) (K 1 2) (K 2 0) (K 2 1) (K 2 2), relT3_01 (ρ 0) (ρ 1) (ρ 2) (K 0 0) (K 0 1) (K 0 2) (K 1 0) (K 1 1) (K 1 2) (K 2 0) (K 2 1) (K 2 2), relT3_02 (ρ 0) (ρ 1) (ρ 2) (K 0 0) (K 0 1) (K 0 2) (K 1 0) (K 1 1) (K 1 2) (K 2 0) (K 2 1) (K 2 2);
     relT3_10 (ρ 0) (ρ 1) (ρ 2) (K 0 0) (K 0 1) (K 0 2) (K 1 0) (K 1 1) (K 1 2) (K 2 0) (K 2 1) (K 2 2), relT3_11 (ρ 0) (ρ 1) (ρ 2) (K 0 0) (K 0 1) (K 0 2) (K 1 0) (K 1 1) (K 1 2) (K 2 0) (K 2 1) (K 2 2), relT3_12 (ρ 0) (ρ 1) (ρ 2) (K 0 0) (K 0 1) (K 0 2) (K 1 0) (K 1 1) (K 1 2) (K 2 0) (K 2 1) (K 2 2);
     relT3_20 (ρ 0) (ρ 1) (ρ 2) (K 0 0) (K 0 1) (K 0 2) (K 1 0) (K 1 1) (K 1 2) (K 2 0) (K 2 1) (K 2 2), relT3_21 (ρ 0) (ρ 1) (ρ 2) (K 0 0) (K 0 1) (K 0 2) (K 1 0) (K 1 1) (K 1 2) (K 2 0) (K 2 1) (K 2 2), relT3_22 (ρ 0) (ρ 1) (ρ 2) (K 0 0) (K 0 1) (K 0 2) (K 1 0) (K 1 1) (K 1 2) (K 2 0) (K 2 1) (K 2 2)]

/-- The denominators of the regenerated entries are `± i · det(1 − iK)`. -/
theorem nrT3_dens_ne (K : Matrix (Fin 3) (Fin 3) ℂ) (h : (D K).det ≠ 0) :
    nrT3_den1 (K 0 0) (K 0 1) (K 0 2) (K 1 0) (K 1 1) (K 1 2) (K 2 0) (K 2 1) (K 2 2) ≠ 0 ∧ nrT3_den2 (K 0 0) (K 0 1) (K 0 2) (K 1 0) (K 1 1) (K 1 2) (K 2 0) (K 2 1) (K 2 2) ≠ 0 := by
  have e1 : nrT3_den1 (K 0 0) (K 0 1) (K 0 2) (K 1 0) (K 1 1) (K 1 2) (K 2 0) (K 2 1) (K 2 2) = Complex.I * (D K).det := by
    rw [Matrix.det_fin_three]
    simp [D, nrT3_den1, Matrix.sub_apply, Matrix.smul_apply]
    ipow
  have e2 : nrT3_den2 (K 0 0) (K 0 1) (K 0 2) (K 1 0) (K 1 1) (K 1 2) (K 2 0) (K 2 1) (K 2 2) = -(Complex.I * (D K).det) := by
    rw [Matrix.det_fin_three]
    simp [D, nrT3_den2, Matrix.sub_apply, Matrix.smul_apply]
    ipow
  rw [e1, e2]
  exact ⟨mul_ne_zero Complex.I_ne_zero h, neg_ne_zero.2 (mul_ne_zero Complex.I_ne_zero h)⟩

theorem relT3_den_ne (ρ : Fin 3 → ℂ) (K : Matrix (Fin 3) (Fin 3) ℂ)
    (h : (1 - Complex.I • (Matrix.diagonal ρ * K)).det ≠ 0) :
    relT3_den1 (ρ 0) (ρ 1) (ρ 2) (K 0 0) (K 0 1) (K 0 2) (K 1 0) (K 1 1) (K 1 2) (K 2 0) (K 2 1) (K 2 2) ≠ 0 := by
  have e1 : relT3_den1 (ρ 0) (ρ 1) (ρ 2) (K 0 0) (K 0 1) (K 0 2) (K 1 0) (K 1 1) (K 1 2) (K 2 0) (K 2 1) (K 2 2)
      = -(Complex.I * (1 - Complex.I • (Matrix.diagonal ρ * K)).det) := by
    rw [Matrix.det_fin_three]
    simp [relT3_den1, Matrix.sub_apply, Matrix.smul_apply, Matrix.diagonal_mul]
    ipow
  rw [e1]
  exact neg_ne_zero.2 (mul_ne_zero Complex.I_ne_zero h)

/-- The source's n = 3 entries ARE the abstract `K(1−iK)⁻¹` wherever `det(1−iK) ≠ 0`. -/
theorem nrT3M_eq_T (K : Matrix (Fin 3) (Fin 3) ℂ) (h : (D K).det ≠ 0) : nrT3M K = T K := by
  apply eq_T_of_mul_D (isUnit_iff_ne_zero.2 h)
  obtain ⟨h1, h2⟩ := nrT3_dens_ne K h
  obtain ⟨e00, e01, e02⟩ := nrT3_solves_row0 _ _ _ _ _ _ _ _ _ h1 h2
  obtain ⟨e10, e11, e12⟩ := nrT3_solves_row1 _ _ _ _ _ _ _ _ _ h1 h2
  obtain ⟨e20, e21, e22⟩ := nrT3_solves_row2 _ _ _ _ _ _ _ _ _ h1 h2
  ext i j
  fin_cases i <;> fin_cases j <;> simp [nrT3M, D, Matrix.mul_apply, Fin.sum_univ_three]
  · linear_combination e00
  · linear_combination e01
  · linear_combination e02
  · linear_combination e10
  · linear_combination e11
  · linear_combination e12
  · linear_combination e20
  · linear_combination e21
  · linear_combination e22

theorem relTh3M_eq_That (ρ : Fin 3 → ℂ) (K : Matrix (Fin 3) (Fin 3) ℂ)
    (h : (1 - Complex.I • (Matrix.diagonal ρ * K)).det ≠ 0) :
    relTh3M ρ K = That (Matrix.diagonal ρ) K := by
  apply eq_That_of_mul (isUnit_iff_ne_zero.2 h)
  have h1 := relT3_den_ne ρ K h
  obtain ⟨e00, e01, e02⟩ := relTh3_solves_row0 _ _ _ _ _ _ _ _ _ _ _ _ h1
  obtain ⟨e10, e11, e12⟩ := relTh3_solves_row1 _ _ _ _ _ _ _ _ _ _ _ _ h1
  obtain ⟨e20, e21, e22⟩ := relTh3_solves_row2 _ _ _ _ _ _ _ _ _ _ _ _ h1
  ext i j
  fin_cases i <;> fin_cases j <;> simp [relTh3M, Matrix.mul_apply, Fin.sum_univ_three]
  · linear_combination e00
  · linear_combination e01
  · linear_combination e02
  · linear_combination e10
  · linear_combination e11
  · linear_combination e12
  · linear_combination e20
  · linear_combination e21
  · linear_combination e22

theorem relT3M_eq_Trel (r : Fin 3 → ℝ) (hr : ∀ i, 0 < r i) (K : Matrix (Fin 3) (Fin 3) ℂ)
    (hK : K.IsHermitian) : relT3M (fun i => ((r i : ℝ) : ℂ)) K = Trel r K := by
  have hd := isUnit_det_rel r hr hK
  unfold Trel
  rw [← relTh3M_eq_That _ K (isUnit_iff_ne_zero.1 hd)]
  have s0 : ((r 0 : ℝ) : ℂ) ^ ((1 : ℂ) / 2) = ((Real.sqrt (r 0) : ℝ) : ℂ) := csqrt_ofReal (hr 0).le
  have s1 : ((r 1 : ℝ) : ℂ) ^ ((1 : ℂ) / 2) = ((Real.sqrt (r 1) : ℝ) : ℂ) := csqrt_ofReal (hr 1).le
  have s2 : ((r 2 : ℝ) : ℂ) ^ ((1 : ℂ) / 2) = ((Real.sqrt (r 2) : ℝ) : ℂ) := csqrt_ofReal (hr 2).le
  obtain ⟨e00, e01, e02, e10, e11, e12, e20, e21, e22⟩ :=
    relT3_eq ((r 0 : ℝ) : ℂ) ((r 1 : ℝ) : ℂ) ((r 2 : ℝ) : ℂ) (K 0 0) (K 0 1) (K 0 2) (K 1 0) (K 1 1) (K 1 2) (K 2 0) (K 2 1) (K 2 2)
  simp only [s0, s1, s2, Complex.conj_ofReal] at e00 e01 e02 e10 e11 e12 e20 e21 e22
  ext i j
  fin_cases i <;> fin_cases j <;>
    simp [relT3M, relTh3M, sqrtDiag, Matrix.mul_apply, Fin.sum_univ_three,
      e00, e01, e02, e10, e11, e12, e20, e21, e22] <;>
    try ring

/-- **n = 3: the regenerated T-matrices are unitary and symmetric** for real symmetric K (and positive ρ). -/
theorem nrT3M_unitary_symmetric (K : Matrix (Fin 3) (Fin 3) ℂ) (hK : K.IsHermitian) (hs : Kᵀ = K) :
    (1 + (2 * Complex.I) • nrT3M K)ᴴ * (1 + (2 * Complex.I) • nrT3M K) = 1
      ∧ (nrT3M K)ᵀ = nrT3M K := by
  have hd := isUnit_det_D hK
  rw [nrT3M_eq_T K (isUnit_iff_ne_zero.1 hd)]
  exact ⟨S_unitary hK, T_symm_of_isUnit hs hd⟩

theorem relT3M_unitary_symmetric (r : Fin 3 → ℝ) (hr : ∀ i, 0 < r i)
    (K : Matrix (Fin 3) (Fin 3) ℂ) (hK : K.IsHermitian) (hs : Kᵀ = K) :
    (1 + (2 * Complex.I) • relT3M (fun i => ((r i : ℝ) : ℂ)) K)ᴴ
        * (1 + (2 * Complex.I) • relT3M (fun i => ((r i : ℝ) : ℂ)) K) = 1
      ∧ (relT3M (fun i => ((r i : ℝ) : ℂ)) K)ᵀ = relT3M (fun i => ((r i : ℝ) : ℂ)) K := by
  rw [relT3M_eq_Trel r hr K hK]
  exact ⟨Srel_unitary r hr hK, Trel_symm r hr hK hs⟩

end Ampverif.Props.C09N3
