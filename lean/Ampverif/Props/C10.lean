/-
C10 — production vectors solve the K-matrix equation and honour their arguments.

Part A: all matrix sizes (abstract): F = (1 − iK)⁻¹ P solves (1 − iK) F = P; relativistic analogue.
Part B: the entries `dynamics/kmatrix.py` really computes for n = 1, 2 (`Ampverif.Gen.C10.*`,
        REGENERATED from the working tree on every run) solve the equation.
Part C/D: `formulate(n, n_R)` = vector expression ∘ (library's K and P parametrisations), hence
        the equation holds for the formulated F-vectors with the library's own K, P and ρ.
Part E: n = n_R = 1 reduces to the library's Breit-Wigner functions as documented.
Part F: a phase-space factor / angular momentum / meson radius passed by the caller is the only
        one that occurs in the result (regenerated occurrence table, `decide`).

`formulate` is translated with a MARKER phase-space class, marker `L` and marker radius; the leaves
`rho{i}`, `rhoR_{R}_{i}`, `ff_{i}`, `ff0_{R}_{i}` of the model are the marker phase-space factor and
the form factors at `s` resp. `m_R²`.
-/
import Ampverif.Gen.C10
import Ampverif.Lemmas.C09Cayley
import Ampverif.Lemmas.C09Real
import Ampverif.Lemmas.C09Entries
import Ampverif.Lemmas.C10Helpers

set_option linter.unusedVariables false
set_option linter.unusedSectionVars false
set_option linter.unusedTactic false
set_option linter.unreachableTactic false

namespace Ampverif.Props.C10
open Ampverif.Gen.C10 Ampverif.Lemmas.C09 Ampverif.Lemmas.C10 Matrix

/-! ## Part A — every number of channels -/

section AllN
variable {n : Type*} [Fintype n] [DecidableEq n]

/-- **All n.** For Hermitian (e.g. real symmetric) `K`, `F = (1 − iK)⁻¹ P` solves `(1 − iK) F = P`
(the inverse exists). -/
theorem pvector_solves_all_n (K : Matrix n n ℂ) (hK : K.IsHermitian) (P : n → ℂ) :
    (D K) *ᵥ ((D K)⁻¹ *ᵥ P) = P := by
  rw [Matrix.mulVec_mulVec, mul_nonsing_inv _ (isUnit_det_D hK), Matrix.one_mulVec]

/-- **All n, relativistic.** `ρ` positive diagonal, `K̂` Hermitian: `F̂ = (1 − iK̂ρ)⁻¹ P` solves
`(1 − iK̂ρ) F̂ = P`. -/
theorem rel_pvector_solves_all_n (r : n → ℝ) (hr : ∀ i, 0 < r i) (Kh : Matrix n n ℂ)
    (hK : Kh.IsHermitian) (P : n → ℂ) :
    (1 - Complex.I • (Kh * Matrix.diagonal fun i => ((r i : ℝ) : ℂ)))
      *ᵥ ((1 - Complex.I • (Kh * Matrix.diagonal fun i => ((r i : ℝ) : ℂ)))⁻¹ *ᵥ P) = P := by
  rw [Matrix.mulVec_mulVec, mul_nonsing_inv _ (isUnit_det_rel' r hr hK), Matrix.one_mulVec]

end AllN

/-! ## Part B — the regenerated F-vector entries for n = 1, 2 -/

/-- n = 1: `(1 − iK) F = P`. -/
theorem nrF1_solves (a p : ℂ) (h : nrF1_den1 a p ≠ 0) :
    (1 - Complex.I * a) * nrF1_0 a p = p := by
  simp only [nrF1_0]
  field_simp
  simp only [nrF1_den1]
  ipow

/-- n = 2: `(1 − iK) F = P` for the regenerated entries, wherever the denominators of the symbolic
inverse do not vanish. -/
theorem nrF2_solves (a b c d p0 p1 : ℂ) (h1 : nrF2_den1 a b c d p0 p1 ≠ 0) (h2 : nrF2_den2 a b c d p0 p1 ≠ 0) :
    ((1 - Complex.I * a) * nrF2_0 a b c d p0 p1 + (-(Complex.I * b)) * nrF2_1 a b c d p0 p1 = p0) ∧
    ((-(Complex.I * c)) * nrF2_0 a b c d p0 p1 + (1 - Complex.I * d) * nrF2_1 a b c d p0 p1 = p1) := by
  refine ⟨?_, ?_⟩ <;>
  · simp only [nrF2_0, nrF2_1]
    field_simp
    simp only [nrF2_den1, nrF2_den2]
    ipow

theorem relFh1_solves (ρ a p : ℂ) (hρ : ρ ≠ 0) (hd : relF1_den1 ρ a p ≠ 0) :
    (1 - Complex.I * (a / ((starRingEnd ℂ) (ρ ^ ((1 : ℂ) / 2)) * ρ ^ ((1 : ℂ) / 2))) * ρ)
      * relFh1_0 ρ a p = p := by
  have hr := csqrt_ne_zero hρ
  have hc : (starRingEnd ℂ) (ρ ^ ((1 : ℂ) / 2)) ≠ 0 := by simpa using hr
  have e := csqrt_sq ρ
  simp only [relFh1_0]
  have hD := relF1_den1.eq_1 ρ a p
  generalize relF1_den1 ρ a p = D at *
  generalize ρ ^ ((1 : ℂ) / 2) = r at *
  generalize (starRingEnd ℂ) r = rc at *
  subst e
  field_simp
  subst hD
  ipow

theorem relFh2_solves (ρ0 ρ1 a b c d p0 p1 : ℂ) (hρ0 : ρ0 ≠ 0) (hρ1 : ρ1 ≠ 0)
    (hd1 : relF2_den1 ρ0 ρ1 a b c d p0 p1 ≠ 0) (hd2 : relF2_den2 ρ0 ρ1 a b c d p0 p1 ≠ 0) :
    ((1 - Complex.I * (a / ((starRingEnd ℂ) (ρ0 ^ ((1 : ℂ) / 2)) * ρ0 ^ ((1 : ℂ) / 2))) * ρ0)
        * relFh2_0 ρ0 ρ1 a b c d p0 p1
      + (-(Complex.I * (b / ((starRingEnd ℂ) (ρ0 ^ ((1 : ℂ) / 2)) * ρ1 ^ ((1 : ℂ) / 2))) * ρ1))
        * relFh2_1 ρ0 ρ1 a b c d p0 p1 = p0) ∧
    ((-(Complex.I * (c / ((starRingEnd ℂ) (ρ1 ^ ((1 : ℂ) / 2)) * ρ0 ^ ((1 : ℂ) / 2))) * ρ0))
        * relFh2_0 ρ0 ρ1 a b c d p0 p1
      + (1 - Complex.I * (d / ((starRingEnd ℂ) (ρ1 ^ ((1 : ℂ) / 2)) * ρ1 ^ ((1 : ℂ) / 2))) * ρ1)
        * relFh2_1 ρ0 ρ1 a b c d p0 p1 = p1) := by
  have hr0 := csqrt_ne_zero hρ0
  have hr1 := csqrt_ne_zero hρ1
  have hc0 : (starRingEnd ℂ) (ρ0 ^ ((1 : ℂ) / 2)) ≠ 0 := by simpa using hr0
  have hc1 : (starRingEnd ℂ) (ρ1 ^ ((1 : ℂ) / 2)) ≠ 0 := by simpa using hr1
  have e0 := csqrt_sq ρ0
  have e1 := csqrt_sq ρ1
  simp only [relFh2_0, relFh2_1]
  have hD1 := relF2_den1.eq_1 ρ0 ρ1 a b c d p0 p1
  have hD2 := relF2_den2.eq_1 ρ0 ρ1 a b c d p0 p1
  generalize relF2_den1 ρ0 ρ1 a b c d p0 p1 = D1 at *
  generalize relF2_den2 ρ0 ρ1 a b c d p0 p1 = D2 at *
  generalize ρ0 ^ ((1 : ℂ) / 2) = r0 at *
  generalize ρ1 ^ ((1 : ℂ) / 2) = r1 at *
  generalize (starRingEnd ℂ) r0 = rc0 at *
  generalize (starRingEnd ℂ) r1 = rc1 at *
  subst e0 e1
  refine ⟨?_, ?_⟩ <;>
  · field_simp
    subst hD1 hD2
    ipow

/-- `F = √ρ F̂` entry by entry. -/
theorem relF1_eq (ρ a p : ℂ) : relF1_0 ρ a p = ρ ^ ((1 : ℂ) / 2) * relFh1_0 ρ a p := by
  simp only [relF1_0, relFh1_0]; ring

theorem relF2_eq (ρ0 ρ1 a b c d p0 p1 : ℂ) :
    relF2_0 ρ0 ρ1 a b c d p0 p1 = ρ0 ^ ((1 : ℂ) / 2) * relFh2_0 ρ0 ρ1 a b c d p0 p1 ∧
    relF2_1 ρ0 ρ1 a b c d p0 p1 = ρ1 ^ ((1 : ℂ) / 2) * relFh2_1 ρ0 ρ1 a b c d p0 p1 := by
  constructor <;> simp only [relF2_0, relF2_1, relFh2_0, relFh2_1]

/-! ### the denominators do not vanish for real symmetric K and positive ρ -/

theorem nrF1_den_ne_of_real {a : ℂ} (ha : IsRe a) (p : ℂ) : nrF1_den1 a p ≠ 0 := by
  have h := one_sub_I_mul_isRe_ne ha
  intro e; apply h; simp only [nrF1_den1] at e
  have h2 : Complex.I * (1 - Complex.I * a) = Complex.I + a := by ipow
  have : Complex.I * (1 - Complex.I * a) = 0 := by rw [h2]; exact e
  exact (mul_eq_zero.1 this).resolve_left Complex.I_ne_zero

theorem nrF2_dens_ne_of_real {a b c d : ℂ} (ha : IsRe a) (hb : IsRe b) (hd : IsRe d) (hbc : b = c)
    (p0 p1 : ℂ) : nrF2_den1 a b c d p0 p1 ≠ 0 ∧ nrF2_den2 a b c d p0 p1 ≠ 0 := by
  have h := det2_ne_of_real ha hb hd hbc
  constructor <;> intro e <;> apply h <;> simp only [nrF2_den1, nrF2_den2] at e <;>
    first | linear_combination e | linear_combination -e

theorem relF1_den_ne_of_real {r : ℝ} (hr : 0 < r) {a : ℂ} (ha : IsRe a) (p : ℂ) :
    relF1_den1 (r : ℂ) a p ≠ 0 := by
  have h := one_sub_I_mul_isRe_ne ha
  have ht : ((Real.sqrt r : ℝ) : ℂ) ≠ 0 := by exact_mod_cast (Real.sqrt_pos.2 hr).ne'
  simp only [relF1_den1, csqrt_ofReal hr.le, Complex.conj_ofReal]
  have e : (-1 : ℂ) * Complex.I * ((Real.sqrt r : ℝ) : ℂ) * a + ((Real.sqrt r : ℝ) : ℂ)
      = ((Real.sqrt r : ℝ) : ℂ) * (1 - Complex.I * a) := by ring
  rw [e]; exact mul_ne_zero ht h

theorem relF2_dens_ne_of_real {r0 r1 : ℝ} (h0 : 0 < r0) (h1 : 0 < r1) {a b c d : ℂ}
    (ha : IsRe a) (hb : IsRe b) (hd : IsRe d) (hbc : b = c) (p0 p1 : ℂ) :
    relF2_den1 (r0 : ℂ) (r1 : ℂ) a b c d p0 p1 ≠ 0 ∧ relF2_den2 (r0 : ℂ) (r1 : ℂ) a b c d p0 p1 ≠ 0 := by
  have hdet := det2_ne_of_real ha hb hd hbc
  have hA := one_sub_I_mul_isRe_ne ha
  have ht0 : ((Real.sqrt r0 : ℝ) : ℂ) ≠ 0 := by exact_mod_cast (Real.sqrt_pos.2 h0).ne'
  have ht1 : ((Real.sqrt r1 : ℝ) : ℂ) ≠ 0 := by exact_mod_cast (Real.sqrt_pos.2 h1).ne'
  have q0 : ((r0 : ℝ) : ℂ) = ((Real.sqrt r0 : ℝ) : ℂ) ^ 2 := by
    rw [← Complex.ofReal_pow, Real.sq_sqrt h0.le]
  have q1 : ((r1 : ℝ) : ℂ) = ((Real.sqrt r1 : ℝ) : ℂ) ^ 2 := by
    rw [← Complex.ofReal_pow, Real.sq_sqrt h1.le]
  simp only [relF2_den1, relF2_den2, csqrt_ofReal h0.le, csqrt_ofReal h1.le, Complex.conj_ofReal]
  rw [q0]
  generalize ((Real.sqrt r0 : ℝ) : ℂ) = t0 at *
  generalize ((Real.sqrt r1 : ℝ) : ℂ) = t1 at *
  constructor
  · have e : ∀ x : ℂ, x = t0 ^ 2 * t1 * ((1 - Complex.I * a) * (1 - Complex.I * a - Complex.I * d - a * d + b * c)) → x ≠ 0 :=
      fun x hx => hx ▸ mul_ne_zero (mul_ne_zero (pow_ne_zero 2 ht0) ht1) (mul_ne_zero hA hdet)
    apply e; ipow
  · have e : ∀ x : ℂ, x = t0 * t1 * (1 - Complex.I * a - Complex.I * d - a * d + b * c) → x ≠ 0 :=
      fun x hx => hx ▸ mul_ne_zero (mul_ne_zero ht0 ht1) hdet
    apply e; ipow

/-! ## Parts C and D — parametrisations and `formulate(n_channels, n_poles)` -/

section PNR11
variable (s m_1 Gamma_1_0 gamma_1_0 beta_1 : ℝ)

local notation "K00" => nrK11_00 s m_1 Gamma_1_0 gamma_1_0 beta_1
local notation "P0" => nrP11_0 s m_1 Gamma_1_0 gamma_1_0 beta_1
local notation "F0" => nrFForm11_0 s m_1 Gamma_1_0 gamma_1_0 beta_1

theorem nrK11_real (hGamma_1_0 : 0 ≤ Gamma_1_0) :
    IsRe K00 := by
  simp only [nrK11_00]; real_closure

/-- `formulate(1, 1)` of the P-vector class is the symbolic vector with the library's K and P parametrisations substituted. -/
theorem nrFForm11_eq :
    F0 = nrF1_0 K00 P0 := by
  simp only [nrFForm11_0, nrF1_0, nrF1_den1]; try ring

/-- **(1 − iK) F = P for `NonRelativisticPVector.formulate(1, 1)`** with the library's own K and P, for all real parameters (non-negative widths). -/
theorem nrFForm11_solves (hGamma_1_0 : 0 ≤ Gamma_1_0) :
    (1 - Complex.I * K00) * F0 = P0 := by
  have r00 := nrK11_real s m_1 Gamma_1_0 gamma_1_0 beta_1 hGamma_1_0
  rw [nrFForm11_eq s m_1 Gamma_1_0 gamma_1_0 beta_1]
  exact nrF1_solves _ _ (nrF1_den_ne_of_real r00 _)

end PNR11

section PNR12
variable (s m_1 m_2 Gamma_1_0 Gamma_2_0 gamma_1_0 gamma_2_0 beta_1 beta_2 : ℝ)

local notation "K00" => nrK12_00 s m_1 m_2 Gamma_1_0 Gamma_2_0 gamma_1_0 gamma_2_0 beta_1 beta_2
local notation "P0" => nrP12_0 s m_1 m_2 Gamma_1_0 Gamma_2_0 gamma_1_0 gamma_2_0 beta_1 beta_2
local notation "F0" => nrFForm12_0 s m_1 m_2 Gamma_1_0 Gamma_2_0 gamma_1_0 gamma_2_0 beta_1 beta_2

theorem nrK12_real (hGamma_1_0 : 0 ≤ Gamma_1_0) (hGamma_2_0 : 0 ≤ Gamma_2_0) :
    IsRe K00 := by
  simp only [nrK12_00]; real_closure

/-- `formulate(1, 2)` of the P-vector class is the symbolic vector with the library's K and P parametrisations substituted. -/
theorem nrFForm12_eq :
    F0 = nrF1_0 K00 P0 := by
  simp only [nrFForm12_0, nrF1_0, nrF1_den1]; try ring

/-- **(1 − iK) F = P for `NonRelativisticPVector.formulate(1, 2)`** with the library's own K and P, for all real parameters (non-negative widths). -/
theorem nrFForm12_solves (hGamma_1_0 : 0 ≤ Gamma_1_0) (hGamma_2_0 : 0 ≤ Gamma_2_0) :
    (1 - Complex.I * K00) * F0 = P0 := by
  have r00 := nrK12_real s m_1 m_2 Gamma_1_0 Gamma_2_0 gamma_1_0 gamma_2_0 beta_1 beta_2 hGamma_1_0 hGamma_2_0
  rw [nrFForm12_eq s m_1 m_2 Gamma_1_0 Gamma_2_0 gamma_1_0 gamma_2_0 beta_1 beta_2]
  exact nrF1_solves _ _ (nrF1_den_ne_of_real r00 _)

end PNR12

section PNR21
variable (s m_1 Gamma_1_0 Gamma_1_1 gamma_1_0 gamma_1_1 beta_1 : ℝ)

local notation "K00" => nrK21_00 s m_1 Gamma_1_0 Gamma_1_1 gamma_1_0 gamma_1_1 beta_1
local notation "K01" => nrK21_01 s m_1 Gamma_1_0 Gamma_1_1 gamma_1_0 gamma_1_1 beta_1
local notation "K10" => nrK21_10 s m_1 Gamma_1_0 Gamma_1_1 gamma_1_0 gamma_1_1 beta_1
local notation "K11" => nrK21_11 s m_1 Gamma_1_0 Gamma_1_1 gamma_1_0 gamma_1_1 beta_1
local notation "P0" => nrP21_0 s m_1 Gamma_1_0 Gamma_1_1 gamma_1_0 gamma_1_1 beta_1
local notation "P1" => nrP21_1 s m_1 Gamma_1_0 Gamma_1_1 gamma_1_0 gamma_1_1 beta_1
local notation "F0" => nrFForm21_0 s m_1 Gamma_1_0 Gamma_1_1 gamma_1_0 gamma_1_1 beta_1
local notation "F1" => nrFForm21_1 s m_1 Gamma_1_0 Gamma_1_1 gamma_1_0 gamma_1_1 beta_1

theorem nrK21_symm : K01 = K10 := by
  simp only [nrK21_01, nrK21_10]; try ring

theorem nrK21_real (hGamma_1_0 : 0 ≤ Gamma_1_0) (hGamma_1_1 : 0 ≤ Gamma_1_1) :
    IsRe K00 ∧ IsRe K01 ∧ IsRe K10 ∧ IsRe K11 := by
  refine ⟨?_, ?_, ?_, ?_⟩ <;> simp only [nrK21_00, nrK21_01, nrK21_10, nrK21_11] <;> real_closure

/-- `formulate(2, 1)` of the P-vector class is the symbolic vector with the library's K and P parametrisations substituted. -/
theorem nrFForm21_eq :
    F0 = nrF2_0 K00 K01 K10 K11 P0 P1 ∧ F1 = nrF2_1 K00 K01 K10 K11 P0 P1 := by
  have hs := nrK21_symm s m_1 Gamma_1_0 Gamma_1_1 gamma_1_0 gamma_1_1 beta_1
  refine ⟨?_, ?_⟩ <;>
  · simp only [nrFForm21_0, nrFForm21_1, nrF2_0, nrF2_1, nrF2_den1, nrF2_den2]
    rw [hs]
    try ring

/-- **(1 − iK) F = P for `NonRelativisticPVector.formulate(2, 1)`** with the library's own K and P, for all real parameters (non-negative widths). -/
theorem nrFForm21_solves (hGamma_1_0 : 0 ≤ Gamma_1_0) (hGamma_1_1 : 0 ≤ Gamma_1_1) :
    ((1 - Complex.I * K00) * F0 + (-(Complex.I * K01)) * F1 = P0) ∧
    ((-(Complex.I * K10)) * F0 + (1 - Complex.I * K11) * F1 = P1) := by
  obtain ⟨r00, r01, r10, r11⟩ := nrK21_real s m_1 Gamma_1_0 Gamma_1_1 gamma_1_0 gamma_1_1 beta_1 hGamma_1_0 hGamma_1_1
  have hs := nrK21_symm s m_1 Gamma_1_0 Gamma_1_1 gamma_1_0 gamma_1_1 beta_1
  obtain ⟨e0, e1⟩ := nrFForm21_eq s m_1 Gamma_1_0 Gamma_1_1 gamma_1_0 gamma_1_1 beta_1
  obtain ⟨d1, d2⟩ := nrF2_dens_ne_of_real r00 r01 r11 hs P0 P1
  rw [e0, e1]
  exact nrF2_solves _ _ _ _ _ _ d1 d2

end PNR21

section PNR22
variable (s m_1 m_2 Gamma_1_0 Gamma_1_1 Gamma_2_0 Gamma_2_1 gamma_1_0 gamma_1_1 gamma_2_0 gamma_2_1 beta_1 beta_2 : ℝ)

local notation "K00" => nrK22_00 s m_1 m_2 Gamma_1_0 Gamma_1_1 Gamma_2_0 Gamma_2_1 gamma_1_0 gamma_1_1 gamma_2_0 gamma_2_1 beta_1 beta_2
local notation "K01" => nrK22_01 s m_1 m_2 Gamma_1_0 Gamma_1_1 Gamma_2_0 Gamma_2_1 gamma_1_0 gamma_1_1 gamma_2_0 gamma_2_1 beta_1 beta_2
local notation "K10" => nrK22_10 s m_1 m_2 Gamma_1_0 Gamma_1_1 Gamma_2_0 Gamma_2_1 gamma_1_0 gamma_1_1 gamma_2_0 gamma_2_1 beta_1 beta_2
local notation "K11" => nrK22_11 s m_1 m_2 Gamma_1_0 Gamma_1_1 Gamma_2_0 Gamma_2_1 gamma_1_0 gamma_1_1 gamma_2_0 gamma_2_1 beta_1 beta_2
local notation "P0" => nrP22_0 s m_1 m_2 Gamma_1_0 Gamma_1_1 Gamma_2_0 Gamma_2_1 gamma_1_0 gamma_1_1 gamma_2_0 gamma_2_1 beta_1 beta_2
local notation "P1" => nrP22_1 s m_1 m_2 Gamma_1_0 Gamma_1_1 Gamma_2_0 Gamma_2_1 gamma_1_0 gamma_1_1 gamma_2_0 gamma_2_1 beta_1 beta_2
local notation "F0" => nrFForm22_0 s m_1 m_2 Gamma_1_0 Gamma_1_1 Gamma_2_0 Gamma_2_1 gamma_1_0 gamma_1_1 gamma_2_0 gamma_2_1 beta_1 beta_2
local notation "F1" => nrFForm22_1 s m_1 m_2 Gamma_1_0 Gamma_1_1 Gamma_2_0 Gamma_2_1 gamma_1_0 gamma_1_1 gamma_2_0 gamma_2_1 beta_1 beta_2

theorem nrK22_symm : K01 = K10 := by
  simp only [nrK22_01, nrK22_10]; try ring

theorem nrK22_real (hGamma_1_0 : 0 ≤ Gamma_1_0) (hGamma_1_1 : 0 ≤ Gamma_1_1) (hGamma_2_0 : 0 ≤ Gamma_2_0) (hGamma_2_1 : 0 ≤ Gamma_2_1) :
    IsRe K00 ∧ IsRe K01 ∧ IsRe K10 ∧ IsRe K11 := by
  refine ⟨?_, ?_, ?_, ?_⟩ <;> simp only [nrK22_00, nrK22_01, nrK22_10, nrK22_11] <;> real_closure

/-- `formulate(2, 2)` of the P-vector class is the symbolic vector with the library's K and P parametrisations substituted. -/
theorem nrFForm22_eq :
    F0 = nrF2_0 K00 K01 K10 K11 P0 P1 ∧ F1 = nrF2_1 K00 K01 K10 K11 P0 P1 := by
  have hs := nrK22_symm s m_1 m_2 Gamma_1_0 Gamma_1_1 Gamma_2_0 Gamma_2_1 gamma_1_0 gamma_1_1 gamma_2_0 gamma_2_1 beta_1 beta_2
  refine ⟨?_, ?_⟩ <;>
  · simp only [nrFForm22_0, nrFForm22_1, nrF2_0, nrF2_1, nrF2_den1, nrF2_den2]
    rw [hs]
    try ring

/-- **(1 − iK) F = P for `NonRelativisticPVector.formulate(2, 2)`** with the library's own K and P, for all real parameters (non-negative widths). -/
theorem nrFForm22_solves (hGamma_1_0 : 0 ≤ Gamma_1_0) (hGamma_1_1 : 0 ≤ Gamma_1_1) (hGamma_2_0 : 0 ≤ Gamma_2_0) (hGamma_2_1 : 0 ≤ Gamma_2_1) :
    ((1 - Complex.I * K00) * F0 + (-(Complex.I * K01)) * F1 = P0) ∧
    ((-(Complex.I * K10)) * F0 + (1 - Complex.I * K11) * F1 = P1) := by
  obtain ⟨r00, r01, r10, r11⟩ := nrK22_real s m_1 m_2 Gamma_1_0 Gamma_1_1 Gamma_2_0 Gamma_2_1 gamma_1_0 gamma_1_1 gamma_2_0 gamma_2_1 beta_1 beta_2 hGamma_1_0 hGamma_1_1 hGamma_2_0 hGamma_2_1
  have hs := nrK22_symm s m_1 m_2 Gamma_1_0 Gamma_1_1 Gamma_2_0 Gamma_2_1 gamma_1_0 gamma_1_1 gamma_2_0 gamma_2_1 beta_1 beta_2
  obtain ⟨e0, e1⟩ := nrFForm22_eq s m_1 m_2 Gamma_1_0 Gamma_1_1 Gamma_2_0 Gamma_2_1 gamma_1_0 gamma_1_1 gamma_2_0 gamma_2_1 beta_1 beta_2
  obtain ⟨d1, d2⟩ := nrF2_dens_ne_of_real r00 r01 r11 hs P0 P1
  rw [e0, e1]
  exact nrF2_solves _ _ _ _ _ _ d1 d2

end PNR22

section PREL11
variable (s m_1 Gamma_1_0 gamma_1_0 beta_1 rho0 rhoR_1_0 ff_0 ff0_1_0 : ℝ)

local notation "K00" => relK11_00 s m_1 Gamma_1_0 gamma_1_0 beta_1 (rho0 : ℂ) (rhoR_1_0 : ℂ) (ff_0 : ℂ) (ff0_1_0 : ℂ)
local notation "P0" => relP11_0 s m_1 Gamma_1_0 gamma_1_0 beta_1 (rho0 : ℂ) (rhoR_1_0 : ℂ) (ff_0 : ℂ) (ff0_1_0 : ℂ)
local notation "F0" => relFForm11_0 s m_1 Gamma_1_0 gamma_1_0 beta_1 (rho0 : ℂ) (rhoR_1_0 : ℂ) (ff_0 : ℂ) (ff0_1_0 : ℂ)
local notation "H0" => relFhForm11_0 s m_1 Gamma_1_0 gamma_1_0 beta_1 (rho0 : ℂ) (rhoR_1_0 : ℂ) (ff_0 : ℂ) (ff0_1_0 : ℂ)
local notation "R0" => (rho0 : ℂ)

theorem relK11_real (hGamma_1_0 : 0 ≤ Gamma_1_0) (hrho0 : 0 < rho0) (hrhoR_1_0 : 0 < rhoR_1_0) :
    IsRe K00 := by
  simp only [relK11_00]; real_closure

/-- `formulate(1, 1, return_f_hat=True)` of the P-vector class is the symbolic vector with the library's K and P parametrisations substituted. -/
theorem relFhForm11_eq :
    H0 = relFh1_0 R0 K00 P0 := by
  simp only [relFhForm11_0, relFh1_0, relF1_den1]; try ring

/-- `formulate(1, 1)` of the P-vector class is the symbolic vector with the library's K and P parametrisations substituted. -/
theorem relFForm11_eq :
    F0 = relF1_0 R0 K00 P0 := by
  simp only [relFForm11_0, relF1_0, relF1_den1]; try ring

/-- **(1 − iK̂ρ) F̂ = P and F = √ρ F̂ for `RelativisticPVector.formulate(1, 1)`** with the library's own K, P and the same ρ (`K̂ = (√ρ*)⁻¹ K (√ρ)⁻¹` as in the source), for real parameters with positive phase-space factors at `s` and at the pole masses. -/
theorem relFForm11_solves (hGamma_1_0 : 0 ≤ Gamma_1_0) (hrho0 : 0 < rho0) (hrhoR_1_0 : 0 < rhoR_1_0) :
    ((1 - Complex.I * (K00 / ((starRingEnd ℂ) (R0 ^ ((1 : ℂ) / 2)) * R0 ^ ((1 : ℂ) / 2))) * R0) * H0 = P0) ∧ F0 = R0 ^ ((1 : ℂ) / 2) * H0 := by
  have r00 := relK11_real s m_1 Gamma_1_0 gamma_1_0 beta_1 rho0 rhoR_1_0 ff_0 ff0_1_0 hGamma_1_0 hrho0 hrhoR_1_0
  have eH := relFhForm11_eq s m_1 Gamma_1_0 gamma_1_0 beta_1 rho0 rhoR_1_0 ff_0 ff0_1_0
  have eF := relFForm11_eq s m_1 Gamma_1_0 gamma_1_0 beta_1 rho0 rhoR_1_0 ff_0 ff0_1_0
  have hρ : R0 ≠ 0 := by exact_mod_cast hrho0.ne'
  refine ⟨?_, ?_⟩
  · rw [eH]; exact relFh1_solves _ _ _ hρ (relF1_den_ne_of_real hrho0 r00 _)
  · rw [eH, eF]; exact relF1_eq _ _ _

end PREL11

section PREL12
variable (s m_1 m_2 Gamma_1_0 Gamma_2_0 gamma_1_0 gamma_2_0 beta_1 beta_2 rho0 rhoR_1_0 rhoR_2_0 ff_0 ff0_1_0 ff0_2_0 : ℝ)

local notation "K00" => relK12_00 s m_1 m_2 Gamma_1_0 Gamma_2_0 gamma_1_0 gamma_2_0 beta_1 beta_2 (rho0 : ℂ) (rhoR_1_0 : ℂ) (rhoR_2_0 : ℂ) (ff_0 : ℂ) (ff0_1_0 : ℂ) (ff0_2_0 : ℂ)
local notation "P0" => relP12_0 s m_1 m_2 Gamma_1_0 Gamma_2_0 gamma_1_0 gamma_2_0 beta_1 beta_2 (rho0 : ℂ) (rhoR_1_0 : ℂ) (rhoR_2_0 : ℂ) (ff_0 : ℂ) (ff0_1_0 : ℂ) (ff0_2_0 : ℂ)
local notation "F0" => relFForm12_0 s m_1 m_2 Gamma_1_0 Gamma_2_0 gamma_1_0 gamma_2_0 beta_1 beta_2 (rho0 : ℂ) (rhoR_1_0 : ℂ) (rhoR_2_0 : ℂ) (ff_0 : ℂ) (ff0_1_0 : ℂ) (ff0_2_0 : ℂ)
local notation "H0" => relFhForm12_0 s m_1 m_2 Gamma_1_0 Gamma_2_0 gamma_1_0 gamma_2_0 beta_1 beta_2 (rho0 : ℂ) (rhoR_1_0 : ℂ) (rhoR_2_0 : ℂ) (ff_0 : ℂ) (ff0_1_0 : ℂ) (ff0_2_0 : ℂ)
local notation "R0" => (rho0 : ℂ)

theorem relK12_real (hGamma_1_0 : 0 ≤ Gamma_1_0) (hGamma_2_0 : 0 ≤ Gamma_2_0) (hrho0 : 0 < rho0) (hrhoR_1_0 : 0 < rhoR_1_0) (hrhoR_2_0 : 0 < rhoR_2_0) :
    IsRe K00 := by
  simp only [relK12_00]; real_closure

/-- `formulate(1, 2, return_f_hat=True)` of the P-vector class is the symbolic vector with the library's K and P parametrisations substituted. -/
theorem relFhForm12_eq :
    H0 = relFh1_0 R0 K00 P0 := by
  simp only [relFhForm12_0, relFh1_0, relF1_den1]; try ring

/-- `formulate(1, 2)` of the P-vector class is the symbolic vector with the library's K and P parametrisations substituted. -/
theorem relFForm12_eq :
    F0 = relF1_0 R0 K00 P0 := by
  simp only [relFForm12_0, relF1_0, relF1_den1]; try ring

/-- **(1 − iK̂ρ) F̂ = P and F = √ρ F̂ for `RelativisticPVector.formulate(1, 2)`** with the library's own K, P and the same ρ (`K̂ = (√ρ*)⁻¹ K (√ρ)⁻¹` as in the source), for real parameters with positive phase-space factors at `s` and at the pole masses. -/
theorem relFForm12_solves (hGamma_1_0 : 0 ≤ Gamma_1_0) (hGamma_2_0 : 0 ≤ Gamma_2_0) (hrho0 : 0 < rho0) (hrhoR_1_0 : 0 < rhoR_1_0) (hrhoR_2_0 : 0 < rhoR_2_0) :
    ((1 - Complex.I * (K00 / ((starRingEnd ℂ) (R0 ^ ((1 : ℂ) / 2)) * R0 ^ ((1 : ℂ) / 2))) * R0) * H0 = P0) ∧ F0 = R0 ^ ((1 : ℂ) / 2) * H0 := by
  have r00 := relK12_real s m_1 m_2 Gamma_1_0 Gamma_2_0 gamma_1_0 gamma_2_0 beta_1 beta_2 rho0 rhoR_1_0 rhoR_2_0 ff_0 ff0_1_0 ff0_2_0 hGamma_1_0 hGamma_2_0 hrho0 hrhoR_1_0 hrhoR_2_0
  have eH := relFhForm12_eq s m_1 m_2 Gamma_1_0 Gamma_2_0 gamma_1_0 gamma_2_0 beta_1 beta_2 rho0 rhoR_1_0 rhoR_2_0 ff_0 ff0_1_0 ff0_2_0
  have eF := relFForm12_eq s m_1 m_2 Gamma_1_0 Gamma_2_0 gamma_1_0 gamma_2_0 beta_1 beta_2 rho0 rhoR_1_0 rhoR_2_0 ff_0 ff0_1_0 ff0_2_0
  have hρ : R0 ≠ 0 := by exact_mod_cast hrho0.ne'
  refine ⟨?_, ?_⟩
  · rw [eH]; exact relFh1_solves _ _ _ hρ (relF1_den_ne_of_real hrho0 r00 _)
  · rw [eH, eF]; exact relF1_eq _ _ _

end PREL12

section PREL21
variable (s m_1 Gamma_1_0 Gamma_1_1 gamma_1_0 gamma_1_1 beta_1 rho0 rho1 rhoR_1_0 rhoR_1_1 ff_0 ff_1 ff0_1_0 ff0_1_1 : ℝ)

local notation "K00" => relK21_00 s m_1 Gamma_1_0 Gamma_1_1 gamma_1_0 gamma_1_1 beta_1 (rho0 : ℂ) (rho1 : ℂ) (rhoR_1_0 : ℂ) (rhoR_1_1 : ℂ) (ff_0 : ℂ) (ff_1 : ℂ) (ff0_1_0 : ℂ) (ff0_1_1 : ℂ)
local notation "K01" => relK21_01 s m_1 Gamma_1_0 Gamma_1_1 gamma_1_0 gamma_1_1 beta_1 (rho0 : ℂ) (rho1 : ℂ) (rhoR_1_0 : ℂ) (rhoR_1_1 : ℂ) (ff_0 : ℂ) (ff_1 : ℂ) (ff0_1_0 : ℂ) (ff0_1_1 : ℂ)
local notation "K10" => relK21_10 s m_1 Gamma_1_0 Gamma_1_1 gamma_1_0 gamma_1_1 beta_1 (rho0 : ℂ) (rho1 : ℂ) (rhoR_1_0 : ℂ) (rhoR_1_1 : ℂ) (ff_0 : ℂ) (ff_1 : ℂ) (ff0_1_0 : ℂ) (ff0_1_1 : ℂ)
local notation "K11" => relK21_11 s m_1 Gamma_1_0 Gamma_1_1 gamma_1_0 gamma_1_1 beta_1 (rho0 : ℂ) (rho1 : ℂ) (rhoR_1_0 : ℂ) (rhoR_1_1 : ℂ) (ff_0 : ℂ) (ff_1 : ℂ) (ff0_1_0 : ℂ) (ff0_1_1 : ℂ)
local notation "P0" => relP21_0 s m_1 Gamma_1_0 Gamma_1_1 gamma_1_0 gamma_1_1 beta_1 (rho0 : ℂ) (rho1 : ℂ) (rhoR_1_0 : ℂ) (rhoR_1_1 : ℂ) (ff_0 : ℂ) (ff_1 : ℂ) (ff0_1_0 : ℂ) (ff0_1_1 : ℂ)
local notation "P1" => relP21_1 s m_1 Gamma_1_0 Gamma_1_1 gamma_1_0 gamma_1_1 beta_1 (rho0 : ℂ) (rho1 : ℂ) (rhoR_1_0 : ℂ) (rhoR_1_1 : ℂ) (ff_0 : ℂ) (ff_1 : ℂ) (ff0_1_0 : ℂ) (ff0_1_1 : ℂ)
local notation "F0" => relFForm21_0 s m_1 Gamma_1_0 Gamma_1_1 gamma_1_0 gamma_1_1 beta_1 (rho0 : ℂ) (rho1 : ℂ) (rhoR_1_0 : ℂ) (rhoR_1_1 : ℂ) (ff_0 : ℂ) (ff_1 : ℂ) (ff0_1_0 : ℂ) (ff0_1_1 : ℂ)
local notation "F1" => relFForm21_1 s m_1 Gamma_1_0 Gamma_1_1 gamma_1_0 gamma_1_1 beta_1 (rho0 : ℂ) (rho1 : ℂ) (rhoR_1_0 : ℂ) (rhoR_1_1 : ℂ) (ff_0 : ℂ) (ff_1 : ℂ) (ff0_1_0 : ℂ) (ff0_1_1 : ℂ)
local notation "H0" => relFhForm21_0 s m_1 Gamma_1_0 Gamma_1_1 gamma_1_0 gamma_1_1 beta_1 (rho0 : ℂ) (rho1 : ℂ) (rhoR_1_0 : ℂ) (rhoR_1_1 : ℂ) (ff_0 : ℂ) (ff_1 : ℂ) (ff0_1_0 : ℂ) (ff0_1_1 : ℂ)
local notation "H1" => relFhForm21_1 s m_1 Gamma_1_0 Gamma_1_1 gamma_1_0 gamma_1_1 beta_1 (rho0 : ℂ) (rho1 : ℂ) (rhoR_1_0 : ℂ) (rhoR_1_1 : ℂ) (ff_0 : ℂ) (ff_1 : ℂ) (ff0_1_0 : ℂ) (ff0_1_1 : ℂ)
local notation "R0" => (rho0 : ℂ)
local notation "R1" => (rho1 : ℂ)

theorem relK21_symm : K01 = K10 := by
  simp only [relK21_01, relK21_10]; try ring

theorem relK21_real (hGamma_1_0 : 0 ≤ Gamma_1_0) (hGamma_1_1 : 0 ≤ Gamma_1_1) (hrho0 : 0 < rho0) (hrho1 : 0 < rho1) (hrhoR_1_0 : 0 < rhoR_1_0) (hrhoR_1_1 : 0 < rhoR_1_1) :
    IsRe K00 ∧ IsRe K01 ∧ IsRe K10 ∧ IsRe K11 := by
  refine ⟨?_, ?_, ?_, ?_⟩ <;> simp only [relK21_00, relK21_01, relK21_10, relK21_11] <;> real_closure

/-- `formulate(2, 1, return_f_hat=True)` of the P-vector class is the symbolic vector with the library's K and P parametrisations substituted. -/
theorem relFhForm21_eq :
    H0 = relFh2_0 R0 R1 K00 K01 K10 K11 P0 P1 ∧ H1 = relFh2_1 R0 R1 K00 K01 K10 K11 P0 P1 := by
  have hs := relK21_symm s m_1 Gamma_1_0 Gamma_1_1 gamma_1_0 gamma_1_1 beta_1 rho0 rho1 rhoR_1_0 rhoR_1_1 ff_0 ff_1 ff0_1_0 ff0_1_1
  refine ⟨?_, ?_⟩ <;>
  · simp only [relFhForm21_0, relFhForm21_1, relFh2_0, relFh2_1, relF2_den1, relF2_den2]
    rw [hs]
    try ring

/-- `formulate(2, 1)` of the P-vector class is the symbolic vector with the library's K and P parametrisations substituted. -/
theorem relFForm21_eq :
    F0 = relF2_0 R0 R1 K00 K01 K10 K11 P0 P1 ∧ F1 = relF2_1 R0 R1 K00 K01 K10 K11 P0 P1 := by
  have hs := relK21_symm s m_1 Gamma_1_0 Gamma_1_1 gamma_1_0 gamma_1_1 beta_1 rho0 rho1 rhoR_1_0 rhoR_1_1 ff_0 ff_1 ff0_1_0 ff0_1_1
  refine ⟨?_, ?_⟩ <;>
  · simp only [relFForm21_0, relFForm21_1, relF2_0, relF2_1, relF2_den1, relF2_den2]
    rw [hs]
    try ring

/-- **(1 − iK̂ρ) F̂ = P and F = √ρ F̂ for `RelativisticPVector.formulate(2, 1)`** with the library's own K, P and the same ρ (`K̂ = (√ρ*)⁻¹ K (√ρ)⁻¹` as in the source), for real parameters with positive phase-space factors at `s` and at the pole masses. -/
theorem relFForm21_solves (hGamma_1_0 : 0 ≤ Gamma_1_0) (hGamma_1_1 : 0 ≤ Gamma_1_1) (hrho0 : 0 < rho0) (hrho1 : 0 < rho1) (hrhoR_1_0 : 0 < rhoR_1_0) (hrhoR_1_1 : 0 < rhoR_1_1) :
    ((1 - Complex.I * (K00 / ((starRingEnd ℂ) (R0 ^ ((1 : ℂ) / 2)) * R0 ^ ((1 : ℂ) / 2))) * R0) * H0
        + (-(Complex.I * (K01 / ((starRingEnd ℂ) (R0 ^ ((1 : ℂ) / 2)) * R1 ^ ((1 : ℂ) / 2))) * R1)) * H1 = P0) ∧
    ((-(Complex.I * (K10 / ((starRingEnd ℂ) (R1 ^ ((1 : ℂ) / 2)) * R0 ^ ((1 : ℂ) / 2))) * R0)) * H0
        + (1 - Complex.I * (K11 / ((starRingEnd ℂ) (R1 ^ ((1 : ℂ) / 2)) * R1 ^ ((1 : ℂ) / 2))) * R1) * H1 = P1) ∧
    F0 = R0 ^ ((1 : ℂ) / 2) * H0 ∧ F1 = R1 ^ ((1 : ℂ) / 2) * H1 := by
  obtain ⟨r00, r01, r10, r11⟩ := relK21_real s m_1 Gamma_1_0 Gamma_1_1 gamma_1_0 gamma_1_1 beta_1 rho0 rho1 rhoR_1_0 rhoR_1_1 ff_0 ff_1 ff0_1_0 ff0_1_1 hGamma_1_0 hGamma_1_1 hrho0 hrho1 hrhoR_1_0 hrhoR_1_1
  have hs := relK21_symm s m_1 Gamma_1_0 Gamma_1_1 gamma_1_0 gamma_1_1 beta_1 rho0 rho1 rhoR_1_0 rhoR_1_1 ff_0 ff_1 ff0_1_0 ff0_1_1
  obtain ⟨eH0, eH1⟩ := relFhForm21_eq s m_1 Gamma_1_0 Gamma_1_1 gamma_1_0 gamma_1_1 beta_1 rho0 rho1 rhoR_1_0 rhoR_1_1 ff_0 ff_1 ff0_1_0 ff0_1_1
  obtain ⟨eF0, eF1⟩ := relFForm21_eq s m_1 Gamma_1_0 Gamma_1_1 gamma_1_0 gamma_1_1 beta_1 rho0 rho1 rhoR_1_0 rhoR_1_1 ff_0 ff_1 ff0_1_0 ff0_1_1
  have hρ0 : R0 ≠ 0 := by exact_mod_cast hrho0.ne'
  have hρ1 : R1 ≠ 0 := by exact_mod_cast hrho1.ne'
  obtain ⟨d1, d2⟩ := relF2_dens_ne_of_real hrho0 hrho1 r00 r01 r11 hs P0 P1
  obtain ⟨s0, s1⟩ := relFh2_solves _ _ _ _ _ _ _ _ hρ0 hρ1 d1 d2
  obtain ⟨q0, q1⟩ := relF2_eq R0 R1 K00 K01 K10 K11 P0 P1
  refine ⟨?_, ?_, ?_, ?_⟩
  · rw [eH0, eH1]; exact s0
  · rw [eH0, eH1]; exact s1
  · rw [eH0, eF0]; exact q0
  · rw [eH1, eF1]; exact q1

end PREL21

section PREL22
variable (s m_1 m_2 Gamma_1_0 Gamma_1_1 Gamma_2_0 Gamma_2_1 gamma_1_0 gamma_1_1 gamma_2_0 gamma_2_1 beta_1 beta_2 rho0 rho1 rhoR_1_0 rhoR_1_1 rhoR_2_0 rhoR_2_1 ff_0 ff_1 ff0_1_0 ff0_1_1 ff0_2_0 ff0_2_1 : ℝ)

local notation "K00" => relK22_00 s m_1 m_2 Gamma_1_0 Gamma_1_1 Gamma_2_0 Gamma_2_1 gamma_1_0 gamma_1_1 gamma_2_0 gamma_2_1 beta_1 beta_2 (rho0 : ℂ) (rho1 : ℂ) (rhoR_1_0 : ℂ) (rhoR_1_1 : ℂ) (rhoR_2_0 : ℂ) (rhoR_2_1 : ℂ) (ff_0 : ℂ) (ff_1 : ℂ) (ff0_1_0 : ℂ) (ff0_1_1 : ℂ) (ff0_2_0 : ℂ) (ff0_2_1 : ℂ)
local notation "K01" => relK22_01 s m_1 m_2 Gamma_1_0 Gamma_1_1 Gamma_2_0 Gamma_2_1 gamma_1_0 gamma_1_1 gamma_2_0 gamma_2_1 beta_1 beta_2 (rho0 : ℂ) (rho1 : ℂ) (rhoR_1_0 : ℂ) (rhoR_1_1 : ℂ) (rhoR_2_0 : ℂ) (rhoR_2_1 : ℂ) (ff_0 : ℂ) (ff_1 : ℂ) (ff0_1_0 : ℂ) (ff0_1_1 : ℂ) (ff0_2_0 : ℂ) (ff0_2_1 : ℂ)
local notation "K10" => relK22_10 s m_1 m_2 Gamma_1_0 Gamma_1_1 Gamma_2_0 Gamma_2_1 gamma_1_0 gamma_1_1 gamma_2_0 gamma_2_1 beta_1 beta_2 (rho0 : ℂ) (rho1 : ℂ) (rhoR_1_0 : ℂ) (rhoR_1_1 : ℂ) (rhoR_2_0 : ℂ) (rhoR_2_1 : ℂ) (ff_0 : ℂ) (ff_1 : ℂ) (ff0_1_0 : ℂ) (ff0_1_1 : ℂ) (ff0_2_0 : ℂ) (ff0_2_1 : ℂ)
local notation "K11" => relK22_11 s m_1 m_2 Gamma_1_0 Gamma_1_1 Gamma_2_0 Gamma_2_1 gamma_1_0 gamma_1_1 gamma_2_0 gamma_2_1 beta_1 beta_2 (rho0 : ℂ) (rho1 : ℂ) (rhoR_1_0 : ℂ) (rhoR_1_1 : ℂ) (rhoR_2_0 : ℂ) (rhoR_2_1 : ℂ) (ff_0 : ℂ) (ff_1 : ℂ) (ff0_1_0 : ℂ) (ff0_1_1 : ℂ) (ff0_2_0 : ℂ) (ff0_2_1 : ℂ)
local notation "P0" => relP22_0 s m_1 m_2 Gamma_1_0 Gamma_1_1 Gamma_2_0 Gamma_2_1 gamma_1_0 gamma_1_1 gamma_2_0 gamma_2_1 beta_1 beta_2 (rho0 : ℂ) (rho1 : ℂ) (rhoR_1_0 : ℂ) (rhoR_1_1 : ℂ) (rhoR_2_0 : ℂ) (rhoR_2_1 : ℂ) (ff_0 : ℂ) (ff_1 : ℂ) (ff0_1_0 : ℂ) (ff0_1_1 : ℂ) (ff0_2_0 : ℂ) (ff0_2_1 : ℂ)
local notation "P1" => relP22_1 s m_1 m_2 Gamma_1_0 Gamma_1_1 Gamma_2_0 Gamma_2_1 gamma_1_0 gamma_1_1 gamma_2_0 gamma_2_1 beta_1 beta_2 (rho0 : ℂ) (rho1 : ℂ) (rhoR_1_0 : ℂ) (rhoR_1_1 : ℂ) (rhoR_2_0 : ℂ) (rhoR_2_1 : ℂ) (ff_0 : ℂ) (ff_1 : ℂ) (ff0_1_0 : ℂ) (ff0_1_1 : ℂ) (ff0_2_0 : ℂ) (ff0_2_1 : ℂ)
local notation "F0" => relFForm22_0 s m_1 m_2 Gamma_1_0 Gamma_1_1 Gamma_2_0 Gamma_2_1 gamma_1_0 gamma_1_1 gamma_2_0 gamma_2_1 beta_1 beta_2 (rho0 : ℂ) (rho1 : ℂ) (rhoR_1_0 : ℂ) (rhoR_1_1 : ℂ) (rhoR_2_0 : ℂ) (rhoR_2_1 : ℂ) (ff_0 : ℂ) (ff_1 : ℂ) (ff0_1_0 : ℂ) (ff0_1_1 : ℂ) (ff0_2_0 : ℂ) (ff0_2_1 : ℂ)
local notation "F1" => relFForm22_1 s m_1 m_2 Gamma_1_0 Gamma_1_1 Gamma_2_0 Gamma_2_1 gamma_1_0 gamma_1_1 gamma_2_0 gamma_2_1 beta_1 beta_2 (rho0 : ℂ) (rho1 : ℂ) (rhoR_1_0 : ℂ) (rhoR_1_1 : ℂ) (rhoR_2_0 : ℂ) (rhoR_2_1 : ℂ) (ff_0 : ℂ) (ff_1 : ℂ) (ff0_1_0 : ℂ) (ff0_1_1 : ℂ) (ff0_2_0 : ℂ) (ff0_2_1 : ℂ)
local notation "H0" => relFhForm22_0 s m_1 m_2 Gamma_1_0 Gamma_1_1 Gamma_2_0 Gamma_2_1 gamma_1_0 gamma_1_1 gamma_2_0 gamma_2_1 beta_1 beta_2 (rho0 : ℂ) (rho1 : ℂ) (rhoR_1_0 : ℂ) (rhoR_1_1 : ℂ) (rhoR_2_0 : ℂ) (rhoR_2_1 : ℂ) (ff_0 : ℂ) (ff_1 : ℂ) (ff0_1_0 : ℂ) (ff0_1_1 : ℂ) (ff0_2_0 : ℂ) (ff0_2_1 : ℂ)
local notation "H1" => relFhForm22_1 s m_1 m_2 Gamma_1_0 Gamma_1_1 Gamma_2_0 Gamma_2_1 gamma_1_0 gamma_1_1 gamma_2_0 gamma_2_1 beta_1 beta_2 (rho0 : ℂ) (rho1 : ℂ) (rhoR_1_0 : ℂ) (rhoR_1_1 : ℂ) (rhoR_2_0 : ℂ) (rhoR_2_1 : ℂ) (ff_0 : ℂ) (ff_1 : ℂ) (ff0_1_0 : ℂ) (ff0_1_1 : ℂ) (ff0_2_0 : ℂ) (ff0_2_1 : ℂ)
local notation "R0" => (rho0 : ℂ)
local notation "R1" => (rho1 : ℂ)

theorem relK22_symm : K01 = K10 := by
  simp only [relK22_01, relK22_10]; try ring

theorem relK22_real (hGamma_1_0 : 0 ≤ Gamma_1_0) (hGamma_1_1 : 0 ≤ Gamma_1_1) (hGamma_2_0 : 0 ≤ Gamma_2_0) (hGamma_2_1 : 0 ≤ Gamma_2_1) (hrho0 : 0 < rho0) (hrho1 : 0 < rho1) (hrhoR_1_0 : 0 < rhoR_1_0) (hrhoR_1_1 : 0 < rhoR_1_1) (hrhoR_2_0 : 0 < rhoR_2_0) (hrhoR_2_1 : 0 < rhoR_2_1) :
    IsRe K00 ∧ IsRe K01 ∧ IsRe K10 ∧ IsRe K11 := by
  refine ⟨?_, ?_, ?_, ?_⟩ <;> simp only [relK22_00, relK22_01, relK22_10, relK22_11] <;> real_closure

/-- `formulate(2, 2, return_f_hat=True)` of the P-vector class is the symbolic vector with the library's K and P parametrisations substituted. -/
theorem relFhForm22_eq :
    H0 = relFh2_0 R0 R1 K00 K01 K10 K11 P0 P1 ∧ H1 = relFh2_1 R0 R1 K00 K01 K10 K11 P0 P1 := by
  have hs := relK22_symm s m_1 m_2 Gamma_1_0 Gamma_1_1 Gamma_2_0 Gamma_2_1 gamma_1_0 gamma_1_1 gamma_2_0 gamma_2_1 beta_1 beta_2 rho0 rho1 rhoR_1_0 rhoR_1_1 rhoR_2_0 rhoR_2_1 ff_0 ff_1 ff0_1_0 ff0_1_1 ff0_2_0 ff0_2_1
  refine ⟨?_, ?_⟩ <;>
  · simp only [relFhForm22_0, relFhForm22_1, relFh2_0, relFh2_1, relF2_den1, relF2_den2]
    rw [hs]
    try ring

/-- `formulate(2, 2)` of the P-vector class is the symbolic vector with the library's K and P parametrisations substituted. -/
theorem relFForm22_eq :
    F0 = relF2_0 R0 R1 K00 K01 K10 K11 P0 P1 ∧ F1 = relF2_1 R0 R1 K00 K01 K10 K11 P0 P1 := by
  have hs := relK22_symm s m_1 m_2 Gamma_1_0 Gamma_1_1 Gamma_2_0 Gamma_2_1 gamma_1_0 gamma_1_1 gamma_2_0 gamma_2_1 beta_1 beta_2 rho0 rho1 rhoR_1_0 rhoR_1_1 rhoR_2_0 rhoR_2_1 ff_0 ff_1 ff0_1_0 ff0_1_1 ff0_2_0 ff0_2_1
  refine ⟨?_, ?_⟩ <;>
  · simp only [relFForm22_0, relFForm22_1, relF2_0, relF2_1, relF2_den1, relF2_den2]
    rw [hs]
    try ring

/-- **(1 − iK̂ρ) F̂ = P and F = √ρ F̂ for `RelativisticPVector.formulate(2, 2)`** with the library's own K, P and the same ρ (`K̂ = (√ρ*)⁻¹ K (√ρ)⁻¹` as in the source), for real parameters with positive phase-space factors at `s` and at the pole masses. -/
theorem relFForm22_solves (hGamma_1_0 : 0 ≤ Gamma_1_0) (hGamma_1_1 : 0 ≤ Gamma_1_1) (hGamma_2_0 : 0 ≤ Gamma_2_0) (hGamma_2_1 : 0 ≤ Gamma_2_1) (hrho0 : 0 < rho0) (hrho1 : 0 < rho1) (hrhoR_1_0 : 0 < rhoR_1_0) (hrhoR_1_1 : 0 < rhoR_1_1) (hrhoR_2_0 : 0 < rhoR_2_0) (hrhoR_2_1 : 0 < rhoR_2_1) :
    ((1 - Complex.I * (K00 / ((starRingEnd ℂ) (R0 ^ ((1 : ℂ) / 2)) * R0 ^ ((1 : ℂ) / 2))) * R0) * H0
        + (-(Complex.I * (K01 / ((starRingEnd ℂ) (R0 ^ ((1 : ℂ) / 2)) * R1 ^ ((1 : ℂ) / 2))) * R1)) * H1 = P0) ∧
    ((-(Complex.I * (K10 / ((starRingEnd ℂ) (R1 ^ ((1 : ℂ) / 2)) * R0 ^ ((1 : ℂ) / 2))) * R0)) * H0
        + (1 - Complex.I * (K11 / ((starRingEnd ℂ) (R1 ^ ((1 : ℂ) / 2)) * R1 ^ ((1 : ℂ) / 2))) * R1) * H1 = P1) ∧
    F0 = R0 ^ ((1 : ℂ) / 2) * H0 ∧ F1 = R1 ^ ((1 : ℂ) / 2) * H1 := by
  obtain ⟨r00, r01, r10, r11⟩ := relK22_real s m_1 m_2 Gamma_1_0 Gamma_1_1 Gamma_2_0 Gamma_2_1 gamma_1_0 gamma_1_1 gamma_2_0 gamma_2_1 beta_1 beta_2 rho0 rho1 rhoR_1_0 rhoR_1_1 rhoR_2_0 rhoR_2_1 ff_0 ff_1 ff0_1_0 ff0_1_1 ff0_2_0 ff0_2_1 hGamma_1_0 hGamma_1_1 hGamma_2_0 hGamma_2_1 hrho0 hrho1 hrhoR_1_0 hrhoR_1_1 hrhoR_2_0 hrhoR_2_1
  have hs := relK22_symm s m_1 m_2 Gamma_1_0 Gamma_1_1 Gamma_2_0 Gamma_2_1 gamma_1_0 gamma_1_1 gamma_2_0 gamma_2_1 beta_1 beta_2 rho0 rho1 rhoR_1_0 rhoR_1_1 rhoR_2_0 rhoR_2_1 ff_0 ff_1 ff0_1_0 ff0_1_1 ff0_2_0 ff0_2_1
  obtain ⟨eH0, eH1⟩ := relFhForm22_eq s m_1 m_2 Gamma_1_0 Gamma_1_1 Gamma_2_0 Gamma_2_1 gamma_1_0 gamma_1_1 gamma_2_0 gamma_2_1 beta_1 beta_2 rho0 rho1 rhoR_1_0 rhoR_1_1 rhoR_2_0 rhoR_2_1 ff_0 ff_1 ff0_1_0 ff0_1_1 ff0_2_0 ff0_2_1
  obtain ⟨eF0, eF1⟩ := relFForm22_eq s m_1 m_2 Gamma_1_0 Gamma_1_1 Gamma_2_0 Gamma_2_1 gamma_1_0 gamma_1_1 gamma_2_0 gamma_2_1 beta_1 beta_2 rho0 rho1 rhoR_1_0 rhoR_1_1 rhoR_2_0 rhoR_2_1 ff_0 ff_1 ff0_1_0 ff0_1_1 ff0_2_0 ff0_2_1
  have hρ0 : R0 ≠ 0 := by exact_mod_cast hrho0.ne'
  have hρ1 : R1 ≠ 0 := by exact_mod_cast hrho1.ne'
  obtain ⟨d1, d2⟩ := relF2_dens_ne_of_real hrho0 hrho1 r00 r01 r11 hs P0 P1
  obtain ⟨s0, s1⟩ := relFh2_solves _ _ _ _ _ _ _ _ hρ0 hρ1 d1 d2
  obtain ⟨q0, q1⟩ := relF2_eq R0 R1 K00 K01 K10 K11 P0 P1
  refine ⟨?_, ?_, ?_, ?_⟩
  · rw [eH0, eH1]; exact s0
  · rw [eH0, eH1]; exact s1
  · rw [eH0, eF0]; exact q0
  · rw [eH1, eF1]; exact q1

end PREL22

/-! ### the P-vector parametrisation is the documented one -/

section PDoc
variable (s m_1 m_2 Gamma_1_0 Gamma_1_1 Gamma_2_0 Gamma_2_1 gamma_1_0 gamma_1_1 gamma_2_0 gamma_2_1 beta_1 beta_2 : ℝ)

/-- residue functions `g_R,i = γ_R,i √(m_R Γ_R,i)` (documentation, Eq. "residue-function") -/
noncomputable def nrG : Fin 2 → Fin 2 → ℝ :=
  ![![gamma_1_0 * Real.sqrt (m_1 * Gamma_1_0), gamma_1_1 * Real.sqrt (m_1 * Gamma_1_1)],
    ![gamma_2_0 * Real.sqrt (m_2 * Gamma_2_0), gamma_2_1 * Real.sqrt (m_2 * Gamma_2_1)]]

/-- production couplings `β⁰_R = β_R √(m_R Γ_R)` (documentation, Eq. "beta functions"), with the width
read as the partial width of the channel, as the code does (for one channel the two coincide) -/
noncomputable def nrBeta0 : Fin 2 → Fin 2 → ℝ :=
  ![![beta_1 * Real.sqrt (m_1 * Gamma_1_0), beta_1 * Real.sqrt (m_1 * Gamma_1_1)],
    ![beta_2 * Real.sqrt (m_2 * Gamma_2_0), beta_2 * Real.sqrt (m_2 * Gamma_2_1)]]

/-- **Non-relativistic P-vector parametrisation = the documented formula**
`P_i = Σ_R β⁰_R,i g_R,i / (m_R² − s)` (Eq. "P-vector parametrization") with the residue functions `g_R,i`
of the K-matrix and `β⁰ = β √(m Γ)` (Eq. "beta functions"). -/
theorem nrP22_eq_documented (hm1 : 0 ≤ m_1) (hm2 : 0 ≤ m_2)
    (h10 : 0 ≤ Gamma_1_0) (h11 : 0 ≤ Gamma_1_1) (h20 : 0 ≤ Gamma_2_0) (h21 : 0 ≤ Gamma_2_1) :
    ∀ i : Fin 2,
      ![nrP22_0 s m_1 m_2 Gamma_1_0 Gamma_1_1 Gamma_2_0 Gamma_2_1 gamma_1_0 gamma_1_1 gamma_2_0 gamma_2_1 beta_1 beta_2,
        nrP22_1 s m_1 m_2 Gamma_1_0 Gamma_1_1 Gamma_2_0 Gamma_2_1 gamma_1_0 gamma_1_1 gamma_2_0 gamma_2_1 beta_1 beta_2] i
      = ((∑ R : Fin 2,
            nrBeta0 m_1 m_2 Gamma_1_0 Gamma_1_1 Gamma_2_0 Gamma_2_1 beta_1 beta_2 R i
              * nrG m_1 m_2 Gamma_1_0 Gamma_1_1 Gamma_2_0 Gamma_2_1 gamma_1_0 gamma_1_1 gamma_2_0 gamma_2_1 R i
              / ((![m_1, m_2] : Fin 2 → ℝ) R ^ 2 - s) : ℝ) : ℂ) := by
  have e10 := Real.mul_self_sqrt (mul_nonneg hm1 h10)
  have e11 := Real.mul_self_sqrt (mul_nonneg hm1 h11)
  have e20 := Real.mul_self_sqrt (mul_nonneg hm2 h20)
  have e21 := Real.mul_self_sqrt (mul_nonneg hm2 h21)
  intro i
  fin_cases i <;>
    simp only [nrP22_0, nrP22_1, nrBeta0, nrG, Fin.sum_univ_two] <;>
    simp <;>
    generalize Real.sqrt (m_1 * Gamma_1_0) = a10 at * <;>
    generalize Real.sqrt (m_1 * Gamma_1_1) = a11 at * <;>
    generalize Real.sqrt (m_2 * Gamma_2_0) = a20 at * <;>
    generalize Real.sqrt (m_2 * Gamma_2_1) = a21 at * <;>
    (have c10 := congrArg (fun x : ℝ => (x : ℂ)) e10
     have c11 := congrArg (fun x : ℝ => (x : ℂ)) e11
     have c20 := congrArg (fun x : ℝ => (x : ℂ)) e20
     have c21 := congrArg (fun x : ℝ => (x : ℂ)) e21
     push_cast at c10 c11 c20 c21 ⊢
     first
       | linear_combination (exp := 1) (-(((m_1 : ℂ) ^ 2 - (s : ℂ))⁻¹ * (beta_1 : ℂ) * (gamma_1_0 : ℂ))) * c10
           + (-(((m_2 : ℂ) ^ 2 - (s : ℂ))⁻¹ * (beta_2 : ℂ) * (gamma_2_0 : ℂ))) * c20
       | linear_combination (exp := 1) (-(((m_1 : ℂ) ^ 2 - (s : ℂ))⁻¹ * (beta_1 : ℂ) * (gamma_1_1 : ℂ))) * c11
           + (-(((m_2 : ℂ) ^ 2 - (s : ℂ))⁻¹ * (beta_2 : ℂ) * (gamma_2_1 : ℂ))) * c21)

/-- The K-matrix parametrisation uses the SAME residue functions `g_R,i` (all-poles formula). -/
theorem nrK22_eq_poleK (hm1 : 0 ≤ m_1) (hm2 : 0 ≤ m_2)
    (h10 : 0 ≤ Gamma_1_0) (h11 : 0 ≤ Gamma_1_1) (h20 : 0 ≤ Gamma_2_0) (h21 : 0 ≤ Gamma_2_1) :
    !![nrK22_00 s m_1 m_2 Gamma_1_0 Gamma_1_1 Gamma_2_0 Gamma_2_1 gamma_1_0 gamma_1_1 gamma_2_0 gamma_2_1 beta_1 beta_2,
       nrK22_01 s m_1 m_2 Gamma_1_0 Gamma_1_1 Gamma_2_0 Gamma_2_1 gamma_1_0 gamma_1_1 gamma_2_0 gamma_2_1 beta_1 beta_2;
       nrK22_10 s m_1 m_2 Gamma_1_0 Gamma_1_1 Gamma_2_0 Gamma_2_1 gamma_1_0 gamma_1_1 gamma_2_0 gamma_2_1 beta_1 beta_2,
       nrK22_11 s m_1 m_2 Gamma_1_0 Gamma_1_1 Gamma_2_0 Gamma_2_1 gamma_1_0 gamma_1_1 gamma_2_0 gamma_2_1 beta_1 beta_2]
      = poleKMatrix (Finset.univ : Finset (Fin 2))
          (nrG m_1 m_2 Gamma_1_0 Gamma_1_1 Gamma_2_0 Gamma_2_1 gamma_1_0 gamma_1_1 gamma_2_0 gamma_2_1)
          ![m_1, m_2] s := by
  have q10 := Real.sq_sqrt h10
  have q11 := Real.sq_sqrt h11
  have q20 := Real.sq_sqrt h20
  have q21 := Real.sq_sqrt h21
  have p1 := Real.sq_sqrt hm1
  have p2 := Real.sq_sqrt hm2
  ext i j
  fin_cases i <;> fin_cases j <;>
    simp only [poleKMatrix, poleK, nrG, nrK22_00, nrK22_01, nrK22_10, nrK22_11, Fin.sum_univ_two,
      csqrt_ofReal h10, csqrt_ofReal h11, csqrt_ofReal h20, csqrt_ofReal h21,
      Real.sqrt_mul hm1, Real.sqrt_mul hm2] <;>
    simp <;> push_cast <;>
    generalize Real.sqrt Gamma_1_0 = a10 at * <;> generalize Real.sqrt Gamma_1_1 = a11 at * <;>
    generalize Real.sqrt Gamma_2_0 = a20 at * <;> generalize Real.sqrt Gamma_2_1 = a21 at * <;>
    generalize Real.sqrt m_1 = b1 at * <;> generalize Real.sqrt m_2 = b2 at * <;>
    subst q10 q11 q20 q21 p1 p2 <;> push_cast <;> ring
end PDoc

/-- **Relativistic P-vector parametrisation = the documented formula** (last line of Eq.
"P-vector parametrization" with the production coupling `β_R` and the partial width `Γ_R,i`, the
reading under which the documented reduction to `relativistic_breit_wigner_with_ff` holds):
`P̂_i = Σ_R β_R γ_R,i m_R Γ_R,i B_i(s) / (m_R² − s)` with `B_i = FormFactor` of channel `i`. -/
theorem relP22_eq_documented (s m_1 m_2 Gamma_1_0 Gamma_1_1 Gamma_2_0 Gamma_2_1 gamma_1_0 gamma_1_1
    gamma_2_0 gamma_2_1 beta_1 beta_2 : ℝ)
    (rho0 rho1 rhoR_1_0 rhoR_1_1 rhoR_2_0 rhoR_2_1 ff_0 ff_1 ff0_1_0 ff0_1_1 ff0_2_0 ff0_2_1 : ℂ) :
    relP22_0 s m_1 m_2 Gamma_1_0 Gamma_1_1 Gamma_2_0 Gamma_2_1 gamma_1_0 gamma_1_1 gamma_2_0 gamma_2_1 beta_1 beta_2 rho0 rho1 rhoR_1_0 rhoR_1_1 rhoR_2_0 rhoR_2_1 ff_0 ff_1 ff0_1_0 ff0_1_1 ff0_2_0 ff0_2_1
      = (beta_1 : ℂ) * gamma_1_0 * m_1 * Gamma_1_0 * ff_0 / ((m_1 : ℂ) ^ 2 - s)
        + (beta_2 : ℂ) * gamma_2_0 * m_2 * Gamma_2_0 * ff_0 / ((m_2 : ℂ) ^ 2 - s) ∧
    relP22_1 s m_1 m_2 Gamma_1_0 Gamma_1_1 Gamma_2_0 Gamma_2_1 gamma_1_0 gamma_1_1 gamma_2_0 gamma_2_1 beta_1 beta_2 rho0 rho1 rhoR_1_0 rhoR_1_1 rhoR_2_0 rhoR_2_1 ff_0 ff_1 ff0_1_0 ff0_1_1 ff0_2_0 ff0_2_1
      = (beta_1 : ℂ) * gamma_1_1 * m_1 * Gamma_1_1 * ff_1 / ((m_1 : ℂ) ^ 2 - s)
        + (beta_2 : ℂ) * gamma_2_1 * m_2 * Gamma_2_1 * ff_1 / ((m_2 : ℂ) ^ 2 - s) := by
  constructor <;> simp only [relP22_0, relP22_1] <;> ring

/-! ## Part E — one channel, one pole: Breit-Wigner functions -/

/-- Non-relativistic K-matrix, n = n_R = 1: `T = relativistic_breit_wigner(s, m, γ²Γ)` (algebraic
identity, wherever the three denominators do not vanish). -/
theorem kmNR11_eq_bw (s m Γ γ : ℝ)
    (h1 : kmNR11_den1 s m Γ γ ≠ 0) (h2 : kmNR11_den2 s m Γ γ ≠ 0) (h3 : bw_den1 s m (γ ^ 2 * Γ) ≠ 0) :
    kmNR11 s m Γ γ = bw s m (γ ^ 2 * Γ) := by
  simp only [kmNR11, bw]
  have e2 := kmNR11_den2.eq_1 s m Γ γ
  generalize kmNR11_den2 s m Γ γ = D2 at *
  field_simp
  subst e2
  field_simp
  simp only [kmNR11_den1, bw_den1]
  push_cast
  ipow

/-- **Documentation claim, NR K-matrix** (real parameters, `s ≠ m²`, γ = 1): the K-matrix reduces to
`relativistic_breit_wigner`. -/
theorem kmNR11_eq_bw_real (s m Γ : ℝ) (h : m ^ 2 ≠ s) : kmNR11 s m Γ 1 = bw s m Γ := by
  have hx : m ^ 2 - s ≠ 0 := sub_ne_zero.2 h
  have := kmNR11_eq_bw s m Γ 1
    (by
      have e : kmNR11_den1 s m Γ 1 = ((m ^ 2 - s : ℝ) : ℂ) := by
        simp only [kmNR11_den1]; push_cast; ring
      rw [e]; exact_mod_cast hx)
    (by
      simp only [kmNR11_den2, kmNR11_den1]
      apply I_add_isRe_ne
      real_closure)
    (by
      have e : bw_den1 s m (1 ^ 2 * Γ) = ((m ^ 2 - s : ℝ) : ℂ) + Complex.I * ((-(m * Γ) : ℝ) : ℂ) := by
        simp only [bw_den1]; push_cast; ring
      rw [e]; exact ofReal_add_I_mul_ne _ hx)
  simpa using this

/-- Non-relativistic P-vector, n = n_R = 1: `γ F = β · relativistic_breit_wigner(s, m, γ²Γ)`. -/
theorem nrFForm11_bw (s m Γ γ β : ℝ)
    (hx : (m : ℂ) ^ 2 + (-1 : ℂ) * (s : ℂ) ≠ 0)
    (h1 : Complex.I + nrK11_00 s m Γ γ β ≠ 0)
    (h3 : bw_den1 s m (γ ^ 2 * Γ) ≠ 0) :
    (γ : ℂ) * nrFForm11_0 s m Γ γ β = (β : ℂ) * bw s m (γ ^ 2 * Γ) := by
  simp only [nrFForm11_0, bw]
  have eK := nrK11_00.eq_1 s m Γ γ β
  generalize nrK11_00 s m Γ γ β = K at *
  generalize hD : Complex.I + K = D at *
  simp only [nrP11_0]
  generalize hxe : (m : ℂ) ^ 2 + (-1 : ℂ) * (s : ℂ) = x at *
  field_simp
  subst hD eK
  field_simp
  simp only [bw_den1]
  subst hxe
  push_cast
  ipow

/-- Relativistic P-vector, n = n_R = 1, γ = 1, with the `√ρ` factors of the matrix expression set
to 1 (what the documentation calls neglecting the phase-space factors; the ρ inside the
energy-dependent width stays): `F = β · relativistic_breit_wigner_with_ff`. -/
theorem relF1_bwff (s m Γ β : ℝ) (ρ ρR ff ff0 : ℂ)
    (hx : (m : ℂ) ^ 2 + (-1 : ℂ) * (s : ℂ) ≠ 0) (hff0 : ff0 ≠ 0) (hρR : ρR ≠ 0)
    (h1 : relF1_den1 1 (relK11_00 s m Γ 1 β ρ ρR ff ff0) (relP11_0 s m Γ 1 β ρ ρR ff ff0) ≠ 0)
    (h3 : bwff_den1 s m Γ ρ ρR ff ff0 ≠ 0) :
    relF1_0 1 (relK11_00 s m Γ 1 β ρ ρR ff ff0) (relP11_0 s m Γ 1 β ρ ρR ff ff0)
      = (β : ℂ) * bwff s m Γ ρ ρR ff ff0 := by
  simp only [relF1_0, bwff]
  have eD := relF1_den1.eq_1 1 (relK11_00 s m Γ 1 β ρ ρR ff ff0) (relP11_0 s m Γ 1 β ρ ρR ff ff0)
  generalize relF1_den1 1 (relK11_00 s m Γ 1 β ρ ρR ff ff0) (relP11_0 s m Γ 1 β ρ ρR ff ff0) = D at *
  have eB := bwff_den1.eq_1 s m Γ ρ ρR ff ff0
  generalize bwff_den1 s m Γ ρ ρR ff ff0 = B at *
  simp only [relK11_00, relP11_0, Complex.one_cpow, map_one] at *
  generalize hxe : (m : ℂ) ^ 2 + (-1 : ℂ) * (s : ℂ) = x at *
  field_simp
  subst eD eB
  field_simp
  subst hxe
  push_cast
  ipow

/-- **Documentation claim, NR P-vector** (real parameters, `s ≠ m²`, γ = 1): `F = β · relativistic_breit_wigner`. -/
theorem nrFForm11_bw_real (s m Γ β : ℝ) (h : m ^ 2 ≠ s) :
    nrFForm11_0 s m Γ 1 β = (β : ℂ) * bw s m Γ := by
  have hx : m ^ 2 - s ≠ 0 := sub_ne_zero.2 h
  have hxc : (m : ℂ) ^ 2 + (-1 : ℂ) * (s : ℂ) ≠ 0 := by
    have e : (m : ℂ) ^ 2 + (-1 : ℂ) * (s : ℂ) = ((m ^ 2 - s : ℝ) : ℂ) := by push_cast; ring
    rw [e]; exact_mod_cast hx
  have := nrFForm11_bw s m Γ 1 β hxc
    (by apply I_add_isRe_ne; simp only [nrK11_00]; real_closure)
    (by
      have e : bw_den1 s m (1 ^ 2 * Γ) = ((m ^ 2 - s : ℝ) : ℂ) + Complex.I * ((-(m * Γ) : ℝ) : ℂ) := by
        simp only [bw_den1]; push_cast; ring
      rw [e]; exact ofReal_add_I_mul_ne _ hx)
  simpa using this

/-- **Documentation claim, relativistic P-vector** (real parameters and leaves, `s ≠ m²`, γ = 1, the
`√ρ` factors of the matrix expression replaced by 1): `F = β · relativistic_breit_wigner_with_ff`. -/
theorem relF1_bwff_real (s m Γ β ρ ρR ff ff0 : ℝ) (h : m ^ 2 ≠ s) (hff0 : ff0 ≠ 0) (hρR : ρR ≠ 0) :
    relF1_0 1 (relK11_00 s m Γ 1 β ρ ρR ff ff0) (relP11_0 s m Γ 1 β ρ ρR ff ff0)
      = (β : ℂ) * bwff s m Γ ρ ρR ff ff0 := by
  have hx : m ^ 2 - s ≠ 0 := sub_ne_zero.2 h
  have hxc : (m : ℂ) ^ 2 + (-1 : ℂ) * (s : ℂ) ≠ 0 := by
    have e : (m : ℂ) ^ 2 + (-1 : ℂ) * (s : ℂ) = ((m ^ 2 - s : ℝ) : ℂ) := by push_cast; ring
    rw [e]; exact_mod_cast hx
  have hK : IsRe (relK11_00 s m Γ 1 β ρ ρR ff ff0) := by simp only [relK11_00]; real_closure
  apply relF1_bwff s m Γ β ρ ρR ff ff0 hxc (by exact_mod_cast hff0) (by exact_mod_cast hρR)
  · have h1 := one_sub_I_mul_isRe_ne hK
    simp only [relF1_den1, Complex.one_cpow, map_one]
    intro e; apply h1; linear_combination e
  · have e : bwff_den1 s m Γ ρ ρR ff ff0
        = ((m ^ 2 - s : ℝ) : ℂ) + Complex.I * ((-(ff ^ 2 * (ff0 ^ 2)⁻¹ * ρR⁻¹ * Γ * ρ * m) : ℝ) : ℂ) := by
      simp only [bwff_den1]; push_cast; ring
    rw [e]; exact ofReal_add_I_mul_ne _ hx

/-- Relativistic K-matrix, n = n_R = 1: "something of a Breit-Wigner" with the energy-dependent
width `Γ(s) = Γ₀ (ff/ff₀)² ρ(s)/ρ(m²)` and an additional phase-space factor in the denominator:
`T̂ · (m² − s − i ρ γ² m Γ(s)) = γ² m Γ(s)`; and `T = (√ρ)* T̂ √ρ`. -/
theorem kmRelHat11_bw_like (s m Γ γ : ℝ) (ρ ρR ff ff0 : ℂ)
    (h1 : kmRel11_den1 s m Γ γ ρ ρR ff ff0 ≠ 0) (h2 : kmRel11_den2 s m Γ γ ρ ρR ff ff0 ≠ 0)
    (hff0 : ff0 ≠ 0) (hρR : ρR ≠ 0) :
    kmRelHat11 s m Γ γ ρ ρR ff ff0
        * ((m : ℂ) ^ 2 - s - Complex.I * ρ * ((γ : ℂ) ^ 2 * m * (Γ * (ff / ff0) ^ 2 * (ρ / ρR))))
      = (γ : ℂ) ^ 2 * m * (Γ * (ff / ff0) ^ 2 * (ρ / ρR)) := by
  simp only [kmRelHat11]
  have e2 := kmRel11_den2.eq_1 s m Γ γ ρ ρR ff ff0
  generalize kmRel11_den2 s m Γ γ ρ ρR ff ff0 = D2 at *
  field_simp
  subst e2
  field_simp
  simp only [kmRel11_den1]
  ipow

theorem kmRel11_eq (s m Γ γ : ℝ) (ρ ρR ff ff0 : ℂ) :
    kmRel11 s m Γ γ ρ ρR ff ff0
      = (starRingEnd ℂ) (ρ ^ ((1 : ℂ) / 2)) * kmRelHat11 s m Γ γ ρ ρR ff ff0 * ρ ^ ((1 : ℂ) / 2) := by
  simp only [kmRel11, kmRelHat11]; ring

/-! ## Part F — arguments are honoured -/

/-- An itemised occurrence carries the marker arguments: every energy-dependent width the marker
phase-space implementation, angular momentum and radius; every form factor the marker angular momentum
and radius; every phase-space node the marker class; pole and channel were identified. -/
def itemOk (it : OccItem) : Bool :=
  it.pole != 99 && it.channel != 99 &&
  (if it.kind == "W" then
      it.phsp == "MarkerPhsp" && it.angMom == "L_marker" && it.radius == "d_marker"
   else if it.kind == "F" then it.angMom == "L_marker" && it.radius == "d_marker"
   else it.kind == "R" && it.phsp == "MarkerPhsp")

def hasItem (o : Occ) (k : String) (R i : Nat) : Bool :=
  o.items.any fun it => it.kind == k && it.pole == R && it.channel == i

/-- Every channel has its phase-space node at `s`, every pole × channel its energy-dependent width,
and (P-vector) every channel its production form factor. -/
def covers (o : Occ) : Bool :=
  (List.range o.nChannels).all fun i =>
    hasItem o "R" 0 i && ((List.range o.nPoles).all fun r => hasItem o "W" (r + 1) i)
      && (o.cls != "RelativisticPVector" || hasItem o "F" 0 i)

/-- A row of the occurrence table honours the arguments: the relativistic classes contain exactly
the marker phase-space implementation, the marker angular momentum and the marker radius — as sets and
for every pole × channel; the non-relativistic classes (which take none of them) contain none. -/
def honours (o : Occ) : Bool :=
  if o.relativistic then
    (o.phsp == ["MarkerPhsp"] && o.angMom == ["L_marker"] && o.radius == ["d_marker"]
      && o.items.all itemOk && covers o)
  else (o.phsp == [] && o.angMom == [] && o.radius == [] && o.items.isEmpty)

/-- **The phase-space factor, angular momentum and meson radius passed to `formulate` are the only
ones that occur anywhere in the result** — for every translated configuration (4 classes,
n, n_R ∈ {1,2}, hat on/off). The table is regenerated from the real objects on every run. -/
theorem formulate_honours_arguments : occTable.all honours = true := by decide

/-- The table is not empty and covers the four classes, both `return_*_hat` settings. -/
theorem occTable_covers :
    occTable.length = 24 ∧
    (∀ c ∈ ["NonRelativisticKMatrix", "RelativisticKMatrix", "NonRelativisticPVector",
        "RelativisticPVector"], occTable.any (fun o => o.cls == c) = true) ∧
    occTable.any (fun o => o.cls == "RelativisticPVector" && o.hat && o.nChannels == 2) = true := by
  decide

/-! ## Non-vacuity of the hypotheses -/

/-- The denominators of the regenerated F-vector entries are non-zero e.g. at K = 0, ρ = 1 (and, by
`nrF2_dens_ne_of_real` / `relF2_dens_ne_of_real`, for every real symmetric K and positive ρ). -/
example : nrF2_den1 0 0 0 0 1 1 ≠ 0 ∧ nrF2_den2 0 0 0 0 1 1 ≠ 0 := by
  simp [nrF2_den1, nrF2_den2]

example : relF2_den1 1 1 0 0 0 0 1 1 ≠ 0 ∧ relF2_den2 1 1 0 0 0 0 1 1 ≠ 0 := by
  simp [relF2_den1, relF2_den2, Complex.one_cpow]

end Ampverif.Props.C10
