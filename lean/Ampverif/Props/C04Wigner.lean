/-
C04 / C05 — the Wigner rotation of the axis-angle alignment is a rotation, and the angles
`compute_wigner_angles` extracts from it are its ZYZ Euler angles.

Source: `kinematics/angles.py: compute_wigner_rotation_matrix, compute_wigner_angles`,
`kinematics/lorentz.py: compute_boost_chain, BoostMatrix, NegativeMomentum`.

Tie to the source, re-established on every run:
* `Gen.C04.WignerAlpha/WignerBeta/WignerGamma` are REGENERATED from `compute_wigner_angles`
  (the sliced entries of the matrix become the arguments `w<i><j>`; which entries are sliced is a
  checked fact, and that the sliced object is exactly `compute_wigner_rotation_matrix(...)` is
  checked on every topology by the T2 correspondence);
* `Lemmas.C04.wignerMatrix` is the matrix product `B(−p)·B₁⋯B_n` over the REGENERATED explicit
  boost matrices `Gen.C08.boostEx / boostNegEx`, with the chain wiring of `compute_boost_chain`;
  the wiring itself (which momentum sums are boosted by which boosts, in which order, for every
  final state of every topology) is compared with the real expression trees through the line
  protocol (`wchain`, Model/C04Frames.lean).

Only property theorems live here; the proofs are in `Lemmas/C04Euler.lean`, `Lemmas/C04Wigner.lean`.
-/
import Ampverif.Lemmas.C04Wigner

namespace Ampverif.Props.C04Wigner
open Matrix Ampverif.Gen.C04 Ampverif.Lemmas.C04

/-- **A proper Lorentz matrix that fixes the time axis is a spatial rotation** `1 ⊕ R`
(all real 4×4 matrices). -/
theorem C04_lorentz_fixing_time_axis_is_rotation (L : M4) (hL : IsLorentz L) (hdet : L.det = 1)
    (h0 : L *ᵥ e0 = e0) : IsRot (spat L) ∧ L = emb (spat L) :=
  lorentz_fix_e0 L hL hdet h0

/-- **The Wigner rotation matrix is a rotation — for every depth of the decay chain.**
`wignerMatrix p qs = B(−p) · B₁ ⋯ B_n` built from the regenerated explicit boost matrices with
the wiring of `compute_boost_chain` (`B_k` boosts with the k-th chain momentum after it has been
boosted by `B_{k−1} ⋯ B₁`); if `p` and every momentum the chain boosts with is time-like with
non-zero three-momentum (the guards under which the source's boost matrix is finite, C08) and
the chain ends at `p`, then `W = 1 ⊕ Rᵀ` with `R := spat Wᵀ` a PROPER ROTATION. -/
theorem C04_wigner_matrix_is_rotation (p : Fin 4 → ℝ) (qs : List (Fin 4 → ℝ)) (hp : Timelike p)
    (hadm : AdmissibleFrom 1 qs) (hlast : qs.getLast? = some p) :
    IsRot (spat (wignerMatrix p qs)ᵀ)
      ∧ wignerMatrix p qs = emb (spat (wignerMatrix p qs)ᵀ)ᵀ :=
  wigner_is_rotation p qs hp hadm hlast

/-- **ZYZ Euler decomposition with the regenerated angle formulas.** For EVERY 4×4 matrix `W`
whose transposed spatial block is a proper rotation and is off the gimbal-lock set
(`W₃₃² < 1`), the three expressions of `compute_wigner_angles`
(`alpha = atan2(W₃₂, W₃₁)`, `beta = acos(W₃₃)`, `gamma = atan2(W₂₃, −W₁₃)`) are Euler angles of
that rotation: `spat Wᵀ = Rz(alpha) · Ry(beta) · Rz(gamma)`. -/
theorem C04_wigner_angles_are_euler_angles (W : M4) (hR : IsRot (spat Wᵀ))
    (hpole : W 3 3 ^ 2 < 1) :
    spat Wᵀ = euler (WignerAlpha (W 3 1) (W 3 2)) (WignerBeta (W 3 3))
                (WignerGamma (W 1 3) (W 2 3)) := by
  have h := euler_decomposition (spat Wᵀ) hR (by simpa [spat] using hpole)
  have e02 : spat Wᵀ 0 2 = W 3 1 := by simp [spat]
  have e12 : spat Wᵀ 1 2 = W 3 2 := by simp [spat]
  have e22 : spat Wᵀ 2 2 = W 3 3 := by simp [spat]
  have e20 : spat Wᵀ 2 0 = W 1 3 := by simp [spat]
  have e21 : spat Wᵀ 2 1 = W 2 3 := by simp [spat]
  rw [e02, e12, e22, e20, e21] at h
  have hα : WignerAlpha (W 3 1) (W 3 2) = PhiOf (W 3 1) (W 3 2) := rfl
  have hβ : WignerBeta (W 3 3) = Real.arccos (W 3 3) := rfl
  have hγ : WignerGamma (W 1 3) (W 2 3) = PhiOf (-(W 1 3)) (W 2 3) := by
    unfold WignerGamma PhiOf; rw [neg_one_mul]
  rw [hα, hβ, hγ]
  exact h

/-- **The two together: what `compute_wigner_angles` returns.** For an admissible chain ending
at `p`, off the gimbal-lock set, the Wigner rotation matrix of the source is
`1 ⊕ (Rz(alpha) Ry(beta) Rz(gamma))ᵀ` with `alpha, beta, gamma` exactly the regenerated
expressions evaluated on its own entries. -/
theorem C04_wigner_rotation_from_its_angles (p : Fin 4 → ℝ) (qs : List (Fin 4 → ℝ))
    (hp : Timelike p) (hadm : AdmissibleFrom 1 qs) (hlast : qs.getLast? = some p)
    (hpole : wignerMatrix p qs 3 3 ^ 2 < 1) :
    wignerMatrix p qs
      = emb (euler (WignerAlpha (wignerMatrix p qs 3 1) (wignerMatrix p qs 3 2))
                   (WignerBeta (wignerMatrix p qs 3 3))
                   (WignerGamma (wignerMatrix p qs 1 3) (wignerMatrix p qs 2 3)))ᵀ := by
  obtain ⟨hrot, hemb⟩ := wigner_is_rotation p qs hp hadm hlast
  rw [← C04_wigner_angles_are_euler_angles _ hrot hpole]
  exact hemb

/-- a final state attached directly to the initial state: the chain is `[p]` and `W = 1`
(no Wigner rotation) -/
theorem C04_wigner_trivial_chain (p : Fin 4 → ℝ) (hp : Timelike p) : wignerMatrix p [p] = 1 := by
  have h1 : (1 : M4) *ᵥ p = p := Matrix.one_mulVec p
  simp only [wignerMatrix, boostChain, boostChainFrom, List.foldl_cons, List.foldl_nil, h1]
  exact boostNegOf_inverse hp

/-- Non-vacuity: the hypotheses of `C04_wigner_matrix_is_rotation` are satisfiable — a two-step
chain (resonance `q = (5,0,0,3)`, then the particle `p = (2,1,0,1)` inside it) is admissible as
soon as the boosted particle momentum is time-like with non-zero three-momentum. -/
example : Timelike ![5, 0, 0, 3] ∧ Timelike ![2, 1, 0, 1] := by
  constructor <;> refine ⟨?_, ?_, ?_⟩ <;> simp <;> norm_num

/-- Non-vacuity of the Euler theorem: `W = 1 ⊕ Ry(π/2)ᵀ` is off the gimbal-lock set. -/
example : (emb (Ry3 (Real.pi / 2))ᵀ) 3 3 ^ 2 < 1 := by
  simp [emb, Ry3]

end Ampverif.Props.C04Wigner
