/-
C02 — model intensity equals the helicity formula evaluated on the transitions.

`Model/C02Skeleton.lean` contains
* `impl`: a line-by-line executable model of ampform's amplitude builder producing the skeleton of
  `model.amplitudes`, `model.components` and `model.intensity` (compared with the REAL sympy
  objects on every run by `tools/props/C02.py`), and
* `spec`: the helicity formula of the property statement (incoherent over per-state outer
  projections, coherent over all symmetrised graphs with those projections, each node with D, CG and the assigned
  lineshape).

The theorems hold for EVERY interpretation `ι` of the Wigner D-functions, the Clebsch–Gordan
coefficients, the lineshape builders, the parameters and `|·|²` in ANY commutative ring — no special-function theory is
needed, and they hold in particular for the true functions at every numerical point.
Only property theorems (and non-vacuity examples) live here.
-/
import Ampverif.Lemmas.C02Regroup
import Ampverif.Lemmas.C02Sym
import Ampverif.Lemmas.C02Memo

namespace Ampverif.Props.C02
open Ampverif.Model.C03 Ampverif.Model.C02
open Ampverif.Lemmas.C02Denote Ampverif.Lemmas.C02Regroup Ampverif.Lemmas.C02Sym Ampverif.Lemmas.C02Lists

variable {R : Type} [CommRing R]

/-- **C02 (intensity).** For every reaction `ts` (any number of transitions, nodes, spins, any
topologies), every configuration (helicity/canonical, coefficients/couplings, naming flags, any
prefactor rule `v`) and every interpretation `ι`: under the decidable well-formedness condition
(isobar graphs; amplitude bases name topologies injectively; graphs of different spin groups have
different outer projections) the builder's intensity denotes the helicity formula. -/
theorem C02_intensity (ι : Interp R) (v : Variant) (cfg : Config) (ts : List Transition)
    (hwf : wellFormed ts = true) :
    denImpl ι (impl v true cfg ts) = denSpec ι (spec v cfg ts) :=
  impl_eq_spec ι v cfg ts hwf

/-- **C02 (terms).** The term the builder writes for an isobar graph is the term of the formula:
`conj D^J_{m, λ₁−λ₂}(φ, θ of the first child)`, first child = the one whose final-state ids come
first, in the canonical basis `⟨L 0; S δ | J δ⟩ ⟨s₁ λ₁; s₂ −λ₂ | S δ⟩`, times the lineshape assigned to the
decaying particle (whenever the node is a key of the dynamics selector). -/
theorem C02_term (v : Variant) (cfg : Config) (m : Mapping) (sel : List DecayKey) (g : Transition)
    (h : g.isobar = true) (hk : ∀ n ∈ g.nodes, g.decayKey n ∈ sel) :
    g.term v cfg m sel = g.specTerm v cfg m :=
  term_eq_specTerm v cfg m sel g h hk

/-- **C02 (lineshape attachment).** Every node of every symmetrised graph of every transition of the
reaction is a key of the dynamics selector (e918528), so `C02_term` applies to every graph the
builder formulates: its lineshape factor is the builder assigned to the decaying particle, applied
to that particle and to (m_parent, m_child1, m_child2, L, φ, θ) of that node. -/
theorem C02_selector_covers (ts : List Transition) (t : Transition) (ht : t ∈ ts) (g : Transition)
    (hg : g ∈ t.symmetrise) (n : Nat) (hn : n ∈ g.nodes) : g.decayKey n ∈ selectorKeys ts :=
  mem_selectorKeys ts t ht g hg n hn

/-- **C02 (components, amplitudes).** Every `A_{…}` component is the term of one symmetrised graph
of one transition, named after that graph. -/
theorem C02_components_A (v : Variant) (own : Bool) (cfg : Config) (ts : List Transition)
    (hwf : wellFormed ts = true) (n : String) (t : Term) (h : (n, t) ∈ (impl v own cfg ts).compA) :
    ∃ tr ∈ ts, ∃ g ∈ tr.symmetrise,
      n = "A_{" ++ g.amplitudeName cfg ++ "}"
      ∧ t = g.specTerm v cfg (registerAll cfg.flags (ts.map Transition.chain)) := by
  have wf := wf_of_check ts hwf
  unfold impl at h
  simp only [List.mem_flatMap, List.mem_map] at h
  obtain ⟨g, hg, c, hc, tr, htr, gr, hgr, e⟩ := h
  have cf := cell_facts ts g hg c hc
  have htr' : tr ∈ ts := cf.1 tr htr
  refine ⟨tr, htr', gr, hgr, ?_, ?_⟩
  · exact (congrArg Prod.fst e).symm
  · rw [← term_eq_specTerm v cfg _ (selectorKeys ts) gr (wf.isobar tr htr' gr hgr)
      (fun n hn => mem_selectorKeys ts tr htr' gr hgr n hn)]
    exact (congrArg Prod.snd e).symm

/-- **C02 (components, intensities).** The `I_{…}` component of a spin group denotes the partial
sum of the formula over the group's graphs: incoherent over their distinct outer projection
tuples, coherent within each. -/
theorem C02_components_I (ι : Interp R) (v : Variant) (cfg : Config) (m : Mapping) (sel : List DecayKey)
    (gs : List Transition) (hiso : ∀ g ∈ gs, g.isobar = true)
    (hk : ∀ g ∈ gs, ∀ n ∈ g.nodes, g.decayKey n ∈ sel) :
    denIncoherent ι ((byProjection v cfg m sel gs).map (·.2))
      = ((dedupFirst (gs.map Transition.outer)).map fun h =>
          ι.nsq (denTerms ι ((gs.filter fun g => g.outer = h).map (Transition.specTerm v cfg m)))).sum := by
  unfold denIncoherent byProjection
  simp only [List.map_map, Function.comp_def]
  congr 1
  apply List.map_congr_left
  intro h _
  congr 2
  apply List.map_congr_left
  intro g hg
  exact term_eq_specTerm v cfg m sel g (hiso g (List.mem_filter.mp hg).1) (hk g (List.mem_filter.mp hg).1)

/-- the `I_{…}` entry of the skeleton is exactly that list of coherent sums (repaired builder). -/
theorem C02_components_I_entry (v : Variant) (cfg : Config) (ts : List Transition) :
    (impl v true cfg ts).compI = (cellsOf ts).map fun g =>
      ("I_{" ++ ((g.headD []).headD default).label ++ "}",
        (byProjection v cfg (registerAll cfg.flags (ts.map Transition.chain)) (selectorKeys ts)
          (g.flatMap graphsOf)).map (·.2)) :=
  rfl

/-- **C02 (symmetrised).** The graphs summed for a transition are exactly its relabelings by
permutations of identical final-state particles, one per distinct attachment of the ids. -/
theorem C02_symmetrised (t : Transition) :
    (t.symmetrise.map Transition.attachment).Nodup
    ∧ (∀ g ∈ t.symmetrise, ∃ σ ∈ t.relabelings, g = t.relabel σ)
    ∧ (∀ σ ∈ t.relabelings, ∃ g ∈ t.symmetrise, g.attachment = (t.relabel σ).attachment) :=
  ⟨symmetrise_nodup t, symmetrise_sound t, symmetrise_complete t⟩

/-- the terms written for one (spin group, topology) cell add up to the terms of all symmetrised
graphs of the cell's transitions, for every interpretation (nothing dropped, nothing doubled). -/
theorem C02_cell_total (ι : Interp R) (v : Variant) (cfg : Config) (m : Mapping) (sel : List DecayKey)
    (c : List Transition) (h : List Int) :
    ((cellWrites v true cfg m sel c).map fun w => if w.idx = h then denTerms ι w.terms else 0).sum
      = denTerms ι (((graphsOf c).filter fun g => g.outer = h).map (Transition.term v cfg m sel)) := by
  rw [sum_cellWrites, denTerms_graphs_filter]

/-! ### the angles of a node belong to the graph's own boost chain (round 5) -/

/-- **C02 (angles of a node).** For every graph `g` (any topology, any number of final states) and
every node `n`: the D-function the builder writes for the node, and the variable set its lineshape is
built with, carry the helicity angles named after the boost chain of the node's first child IN `g`
(`phi_2^23` below the initial state, `phi_2^23,023` below (023), …) and the invariant masses of `g`'s
own edges — whatever other graph of the reaction contains a node with the same edge ids, particles,
helicities and interaction. -/
theorem C02_node_angles (cfg : Config) (sel : List DecayKey) (g : Transition) (n : Nat) :
    (g.nodeFactor cfg sel n).d.phi = "phi" ++ g.boostSuffix (g.decay n).2.1
    ∧ (g.nodeFactor cfg sel n).d.theta = "theta" ++ g.boostSuffix (g.decay n).2.1
    ∧ ∀ a, (g.nodeFactor cfg sel n).dyn = some a →
        a.phi = "phi" ++ g.boostSuffix (g.decay n).2.1 ∧ a.theta = "theta" ++ g.boostSuffix (g.decay n).2.1
        ∧ a.mParent = g.massName (g.decay n).1 ∧ a.m1 = g.massName (g.decay n).2.1
        ∧ a.m2 = g.massName (g.decay n).2.2 := by
  rcases h : g.decay n with ⟨p, c1, c2⟩
  refine ⟨?_, ?_, ?_⟩
  · simp [Transition.nodeFactor, h]
  · simp [Transition.nodeFactor, h]
  · intro a ha
    simp only [Transition.nodeFactor, h, Transition.dynFactor] at ha
    split at ha
    · obtain ⟨b, _, hb⟩ := Option.map_eq_some_iff.mp ha
      subst hb
      simp [Transition.dynArgs, h]
    · cases ha

/-- **C02 (when a per-node key is enough).** On any list of graphs on which equal `TwoBodyDecay`s
have equal node factors (`keyDeterminesFactor`, decidable; true e.g. for three-body reactions without
identical particles, where the edge ids of a node fix its boost chain), formulating every node once
per key gives exactly the library's terms — and `C02_witness_shared_subdecay` shows that the
condition fails, and the terms differ, as soon as a sub-decay sits below different ancestors. -/
theorem C02_memo_harmless (v : Variant) (cfg : Config) (m : Mapping) (sel : List DecayKey) (gs : List Transition)
    (h : keyDeterminesFactor cfg sel gs = true) :
    termsMemo v cfg m sel gs [] = termsOwn v cfg m sel gs :=
  Ampverif.Lemmas.C02Memo.terms_memo h gs [] (fun _ hg => hg) (fun _ _ hm => nomatch hm)

namespace Shared

def finals : List (Int × EState) :=
  [(0, ⟨"pi+", "\\pi^{+}", 0, 0⟩), (1, ⟨"pi-", "\\pi^{-}", 0, 0⟩), (2, ⟨"pi0", "\\pi^{0}", 0, 0⟩),
   (3, ⟨"gamma", "\\gamma", 2, 2⟩)]

def omega : EState := ⟨"omega(782)", "\\omega(782)", 2, 2⟩

/-- J/ψ → f₀(980) [π⁺ π⁻] ω [π⁰ γ]: ω is edge 5 → (2, 3) below the initial state. -/
def tA : Transition :=
  { nodes := [0, 1, 2]
    edges := [⟨-1, none, some 0⟩, ⟨4, some 0, some 1⟩, ⟨5, some 0, some 2⟩, ⟨0, some 1, none⟩, ⟨1, some 1, none⟩,
              ⟨2, some 2, none⟩, ⟨3, some 2, none⟩]
    states := (-1, ⟨"J/psi(1S)", "J/\\psi(1S)", 2, 2⟩) :: (4, ⟨"f(0)(980)", "f_{0}(980)", 0, 0⟩) :: (5, omega) :: finals
    inters := [(0, ⟨none, none⟩), (1, ⟨none, none⟩), (2, ⟨none, none⟩)] }

/-- J/ψ → π⁻ b₁(1235)⁺ [π⁺ ω [π⁰ γ]]: the same ω node, edge 5 → (2, 3), below (023). -/
def tB : Transition :=
  { nodes := [0, 1, 2]
    edges := [⟨-1, none, some 0⟩, ⟨1, some 0, none⟩, ⟨4, some 0, some 1⟩, ⟨0, some 1, none⟩, ⟨5, some 1, some 2⟩,
              ⟨2, some 2, none⟩, ⟨3, some 2, none⟩]
    states := (-1, ⟨"J/psi(1S)", "J/\\psi(1S)", 2, 2⟩) :: (4, ⟨"b(1)(1235)+", "b_{1}(1235)^{+}", 2, 2⟩) :: (5, omega) :: finals
    inters := [(0, ⟨none, none⟩), (1, ⟨none, none⟩), (2, ⟨none, none⟩)] }

def cfg : Config := ⟨false, false, ⟨false, true, false⟩, [("omega(782)", "bw")]⟩
def ts : List Transition := [tA, tB]
def v : Variant := ⟨true, true⟩
def m : Mapping := registerAll cfg.flags (ts.map Transition.chain)
def sel : List DecayKey := selectorKeys ts

end Shared

open Shared in
/-- Four final states, two topologies, the same sub-decay below different ancestors: the two ω nodes
are EQUAL as `TwoBodyDecay`s (edge ids, particles, helicities, interaction) but their factors differ
(angles and lineshape variables of the graph's own boost chain), so a per-node key without the
topology does not determine the factor.  The library's skeleton agrees with the formula on this
reaction (both topologies interfere in one outer configuration); a builder memoising node factors by
`TwoBodyDecay` does not: the topology formulated first wins, in either order. -/
theorem C02_witness_shared_subdecay :
    tA.decayKey 2 = tB.decayKey 2
    ∧ (tA.nodeFactor cfg sel 2).d = ⟨2, 2, -2, "phi_2^23", "theta_2^23"⟩
    ∧ (tB.nodeFactor cfg sel 2).d = ⟨2, 2, -2, "phi_2^23,023", "theta_2^23,023"⟩
    ∧ (tA.nodeFactor cfg sel 2).dyn = some ⟨"bw", "omega(782)", "m_23", "m_2", "m_3", some 1, "phi_2^23", "theta_2^23"⟩
    ∧ (tB.nodeFactor cfg sel 2).dyn = some ⟨"bw", "omega(782)", "m_23", "m_2", "m_3", some 1, "phi_2^23,023", "theta_2^23,023"⟩
    ∧ keyDeterminesFactor cfg sel (visitedGraphs ts) = false
    ∧ wellFormed ts = true
    ∧ (impl v true cfg ts).bases = ["A^01,23", "A^023,23"]
    ∧ skeletonsAgree (impl v true cfg ts) (spec v cfg ts) = true
    ∧ decide (termsMemo v cfg m sel (visitedGraphs ts) [] = termsOwn v cfg m sel (visitedGraphs ts)) = false
    ∧ decide (termsMemo v cfg m sel (visitedGraphs ts.reverse) [] = termsOwn v cfg m sel (visitedGraphs ts.reverse)) = false
    ∧ ((termsMemo v cfg m sel (visitedGraphs ts) []).map fun t => t.nodes.map (·.d.phi))
        = [["phi_01", "phi_0^01", "phi_2^23"], ["phi_023", "phi_0^023", "phi_2^23"]] := by
  decide +kernel

open Shared in
/-- Non-vacuity of `C02_memo_harmless`: its hypothesis holds on each topology of the witness reaction
alone (3 nodes each) and fails on the two together. -/
example :
    keyDeterminesFactor cfg sel (visitedGraphs [tA]) = true ∧ keyDeterminesFactor cfg sel (visitedGraphs [tB]) = true
    ∧ (visitedGraphs ts).length = 2 ∧ keyDeterminesFactor cfg sel (visitedGraphs ts) = false := by
  decide +kernel

/-! ### witness for the builder up to 043d8fb (`own = false`) -/

namespace Witness

def photon (h : Int) : EState := ⟨"gamma", "\\gamma", 2, h⟩
def edges : List Edge := [⟨-1, none, some 0⟩, ⟨3, some 0, some 1⟩, ⟨0, some 0, none⟩, ⟨1, some 1, none⟩, ⟨2, some 1, none⟩]

/-- ψ(2S) → γ χc1, χc1 → γ J/ψ shaped: identical photons on ids 0 and 1 (different nodes) with
helicities `(a, b)`. -/
def tr (a b : Int) : Transition :=
  { nodes := [0, 1], edges := edges
    states := [(-1, ⟨"psi(2S)", "\\psi(2S)", 2, 2⟩), (3, ⟨"chi(c1)(1P)", "\\chi_{c1}(1P)", 2, 0⟩),
               (0, photon a), (1, photon b), (2, ⟨"J/psi(1S)", "J/\\psi(1S)", 2, 0⟩)]
    inters := [(0, ⟨none, none⟩), (1, ⟨none, none⟩)] }

def cfg : Config := ⟨false, false, ⟨false, true, false⟩, [("chi(c1)(1P)", "bw")]⟩
def ts : List Transition := [tr (-2) 2, tr 2 (-2)]

end Witness

open Witness in
/-- Two identical final-state particles with UNEQUAL helicities: the old builder puts all four
graphs under one amplitude symbol (`wellGrouped` fails, skeletons differ from the formula), the
repaired builder agrees with the formula. Replayed on ψ(2S) → γ γ J/ψ. -/
theorem C02_witness_unequal_identical :
    wellFormed ts = true ∧ wellGrouped ts = false
    ∧ skeletonsAgree (impl ⟨true, true⟩ false cfg ts) (spec ⟨true, true⟩ cfg ts) = false
    ∧ skeletonsAgree (impl ⟨true, true⟩ true cfg ts) (spec ⟨true, true⟩ cfg ts) = true
    ∧ (lookupLast (impl ⟨true, true⟩ false cfg ts).writes "A^12" [2, -2, 2, 0]).length = 4
    ∧ (lookupLast (impl ⟨true, true⟩ false cfg ts).writes "A^12" [2, 2, -2, 0]).length = 0
    ∧ (lookupLast (impl ⟨true, true⟩ true cfg ts).writes "A^12" [2, -2, 2, 0]).length = 2
    ∧ (lookupLast (impl ⟨true, true⟩ true cfg ts).writes "A^12" [2, 2, -2, 0]).length = 2 := by
  decide +kernel

open Witness in
/-- Non-vacuity of `C02_intensity`: its hypothesis holds on the witness reaction, whose
symmetrisation is non-trivial (two graphs per transition, four terms in two configurations). -/
example :
    wellFormed ts = true ∧ (ts.map fun t => t.symmetrise.length) = [2, 2]
    ∧ (spec ⟨true, true⟩ cfg ts).graphs.length = 4
    ∧ ((spec ⟨true, true⟩ cfg ts).graphs.map (·.1)) = [[2, -2, 2, 0], [2, 2, -2, 0], [2, 2, -2, 0], [2, -2, 2, 0]] := by
  decide +kernel

end Ampverif.Props.C02
