/-
C02 — model intensity equals the helicity formula evaluated on the transitions.

`Model/C02Skeleton.lean` contains
* `impl`: a line-by-line executable model of ampform's amplitude builder producing the skeleton of
  `model.amplitudes`, `model.components` and `model.intensity` (compared with the REAL sympy
  objects on every run by `tools/props/C02.py`), and
* `spec`: the helicity formula of the property statement (incoherent over per-state outer
  projections, coherent over all symmetrised graphs with those projections, each node with D, CG and the assigned
  lineshape).

The theorems hold for EVERY interpretation `ι` of the Wigner D-functions, the Clebsch–Gordan
coefficients, the lineshape builders, the parameters and `|·|²` in ANY commutative ring — no special-function theory is
needed, and they hold in particular for the true functions at every numerical point.
Only property theorems (and non-vacuity examples) live here.
-/
import Ampverif.Lemmas.C02Regroup
import Ampverif.Lemmas.C02Sym

namespace Ampverif.Props.C02
open Ampverif.Model.C03 Ampverif.Model.C02
open Ampverif.Lemmas.C02Denote Ampverif.Lemmas.C02Regroup Ampverif.Lemmas.C02Sym Ampverif.Lemmas.C02Lists

variable {R : Type} [CommRing R]

/-- **C02 (intensity).** For every reaction `ts` (any number of transitions, nodes, spins, any
topologies), every configuration (helicity/canonical, coefficients/couplings, naming flags, any
prefactor rule `v`) and every interpretation `ι`: under the decidable well-formedness condition
(isobar graphs; amplitude bases name topologies injectively; graphs of different spin groups have
different outer projections) the builder's intensity denotes the helicity formula. -/
theorem C02_intensity (ι : Interp R) (v : Variant) (cfg : Config) (ts : List Transition)
    (hwf : wellFormed ts = true) :
    denImpl ι (impl v true cfg ts) = denSpec ι (spec v cfg ts) :=
  impl_eq_spec ι v cfg ts hwf

/-- **C02 (terms).** The term the builder writes for an isobar graph is the term of the formula:
`conj D^J_{m, λ₁−λ₂}(φ, θ of the first child)`, first child = the one whose final-state ids come
first, in the canonical basis `⟨L 0; S δ | J δ⟩ ⟨s₁ λ₁; s₂ −λ₂ | S δ⟩`, times the lineshape assigned to the
decaying particle (whenever the node is a key of the dynamics selector). -/
theorem C02_term (v : Variant) (cfg : Config) (m : Mapping) (sel : List DecayKey) (g : Transition)
    (h : g.isobar = true) (hk : ∀ n ∈ g.nodes, g.decayKey n ∈ sel) :
    g.term v cfg m sel = g.specTerm v cfg m :=
  term_eq_specTerm v cfg m sel g h hk

/-- **C02 (lineshape attachment).** Every node of every symmetrised graph of every transition of the
reaction is a key of the dynamics selector (e918528), so `C02_term` applies to every graph the
builder formulates: its lineshape factor is the builder assigned to the decaying particle, applied
to that particle and to (m_parent, m_child1, m_child2, L, φ, θ) of that node. -/
theorem C02_selector_covers (ts : List Transition) (t : Transition) (ht : t ∈ ts) (g : Transition)
    (hg : g ∈ t.symmetrise) (n : Nat) (hn : n ∈ g.nodes) : g.decayKey n ∈ selectorKeys ts :=
  mem_selectorKeys ts t ht g hg n hn

/-- **C02 (components, amplitudes).** Every `A_{…}` component is the term of one symmetrised graph
of one transition, named after that graph. -/
theorem C02_components_A (v : Variant) (own : Bool) (cfg : Config) (ts : List Transition)
    (hwf : wellFormed ts = true) (n : String) (t : Term) (h : (n, t) ∈ (impl v own cfg ts).compA) :
    ∃ tr ∈ ts, ∃ g ∈ tr.symmetrise,
      n = "A_{" ++ g.amplitudeName cfg ++ "}"
      ∧ t = g.specTerm v cfg (registerAll cfg.flags (ts.map Transition.chain)) := by
  have wf := wf_of_check ts hwf
  unfold impl at h
  simp only [List.mem_flatMap, List.mem_map] at h
  obtain ⟨g, hg, c, hc, tr, htr, gr, hgr, e⟩ := h
  have cf := cell_facts ts g hg c hc
  have htr' : tr ∈ ts := cf.1 tr htr
  refine ⟨tr, htr', gr, hgr, ?_, ?_⟩
  · exact (congrArg Prod.fst e).symm
  · rw [← term_eq_specTerm v cfg _ (selectorKeys ts) gr (wf.isobar tr htr' gr hgr)
      (fun n hn => mem_selectorKeys ts tr htr' gr hgr n hn)]
    exact (congrArg Prod.snd e).symm

/-- **C02 (components, intensities).** The `I_{…}` component of a spin group denotes the partial
sum of the formula over the group's graphs: incoherent over their distinct outer projection
tuples, coherent within each. -/
theorem C02_components_I (ι : Interp R) (v : Variant) (cfg : Config) (m : Mapping) (sel : List DecayKey)
    (gs : List Transition) (hiso : ∀ g ∈ gs, g.isobar = true)
    (hk : ∀ g ∈ gs, ∀ n ∈ g.nodes, g.decayKey n ∈ sel) :
    denIncoherent ι ((byProjection v cfg m sel gs).map (·.2))
      = ((dedupFirst (gs.map Transition.outer)).map fun h =>
          ι.nsq (denTerms ι ((gs.filter fun g => g.outer = h).map (Transition.specTerm v cfg m)))).sum := by
  unfold denIncoherent byProjection
  simp only [List.map_map, Function.comp_def]
  congr 1
  apply List.map_congr_left
  intro h _
  congr 2
  apply List.map_congr_left
  intro g hg
  exact term_eq_specTerm v cfg m sel g (hiso g (List.mem_filter.mp hg).1) (hk g (List.mem_filter.mp hg).1)

/-- the `I_{…}` entry of the skeleton is exactly that list of coherent sums (repaired builder). -/
theorem C02_components_I_entry (v : Variant) (cfg : Config) (ts : List Transition) :
    (impl v true cfg ts).compI = (cellsOf ts).map fun g =>
      ("I_{" ++ ((g.headD []).headD default).label ++ "}",
        (byProjection v cfg (registerAll cfg.flags (ts.map Transition.chain)) (selectorKeys ts)
          (g.flatMap graphsOf)).map (·.2)) :=
  rfl

/-- **C02 (symmetrised).** The graphs summed for a transition are exactly its relabelings by
permutations of identical final-state particles, one per distinct attachment of the ids. -/
theorem C02_symmetrised (t : Transition) :
    (t.symmetrise.map Transition.attachment).Nodup
    ∧ (∀ g ∈ t.symmetrise, ∃ σ ∈ t.relabelings, g = t.relabel σ)
    ∧ (∀ σ ∈ t.relabelings, ∃ g ∈ t.symmetrise, g.attachment = (t.relabel σ).attachment) :=
  ⟨symmetrise_nodup t, symmetrise_sound t, symmetrise_complete t⟩

/-- the terms written for one (spin group, topology) cell add up to the terms of all symmetrised
graphs of the cell's transitions, for every interpretation (nothing dropped, nothing doubled). -/
theorem C02_cell_total (ι : Interp R) (v : Variant) (cfg : Config) (m : Mapping) (sel : List DecayKey)
    (c : List Transition) (h : List Int) :
    ((cellWrites v true cfg m sel c).map fun w => if w.idx = h then denTerms ι w.terms else 0).sum
      = denTerms ι (((graphsOf c).filter fun g => g.outer = h).map (Transition.term v cfg m sel)) := by
  rw [sum_cellWrites, denTerms_graphs_filter]

/-! ### witness for the builder up to 043d8fb (`own = false`) -/

namespace Witness

def photon (h : Int) : EState := ⟨"gamma", "\\gamma", 2, h⟩
def edges : List Edge := [⟨-1, none, some 0⟩, ⟨3, some 0, some 1⟩, ⟨0, some 0, none⟩, ⟨1, some 1, none⟩, ⟨2, some 1, none⟩]

/-- ψ(2S) → γ χc1, χc1 → γ J/ψ shaped: identical photons on ids 0 and 1 (different nodes) with
helicities `(a, b)`. -/
def tr (a b : Int) : Transition :=
  { nodes := [0, 1], edges := edges
    states := [(-1, ⟨"psi(2S)", "\\psi(2S)", 2, 2⟩), (3, ⟨"chi(c1)(1P)", "\\chi_{c1}(1P)", 2, 0⟩),
               (0, photon a), (1, photon b), (2, ⟨"J/psi(1S)", "J/\\psi(1S)", 2, 0⟩)]
    inters := [(0, ⟨none, none⟩), (1, ⟨none, none⟩)] }

def cfg : Config := ⟨false, false, ⟨false, true, false⟩, [("chi(c1)(1P)", "bw")]⟩
def ts : List Transition := [tr (-2) 2, tr 2 (-2)]

end Witness

open Witness in
/-- Two identical final-state particles with UNEQUAL helicities: the old builder puts all four
graphs under one amplitude symbol (`wellGrouped` fails, skeletons differ from the formula), the
repaired builder agrees with the formula. Replayed on ψ(2S) → γ γ J/ψ. -/
theorem C02_witness_unequal_identical :
    wellFormed ts = true ∧ wellGrouped ts = false
    ∧ skeletonsAgree (impl ⟨true, true⟩ false cfg ts) (spec ⟨true, true⟩ cfg ts) = false
    ∧ skeletonsAgree (impl ⟨true, true⟩ true cfg ts) (spec ⟨true, true⟩ cfg ts) = true
    ∧ (lookupLast (impl ⟨true, true⟩ false cfg ts).writes "A^12" [2, -2, 2, 0]).length = 4
    ∧ (lookupLast (impl ⟨true, true⟩ false cfg ts).writes "A^12" [2, 2, -2, 0]).length = 0
    ∧ (lookupLast (impl ⟨true, true⟩ true cfg ts).writes "A^12" [2, -2, 2, 0]).length = 2
    ∧ (lookupLast (impl ⟨true, true⟩ true cfg ts).writes "A^12" [2, 2, -2, 0]).length = 2 := by
  decide +kernel

open Witness in
/-- Non-vacuity of `C02_intensity`: its hypothesis holds on the witness reaction, whose
symmetrisation is non-trivial (two graphs per transition, four terms in two configurations). -/
example :
    wellFormed ts = true ∧ (ts.map fun t => t.symmetrise.length) = [2, 2]
    ∧ (spec ⟨true, true⟩ cfg ts).graphs.length = 4
    ∧ ((spec ⟨true, true⟩ cfg ts).graphs.map (·.1)) = [[2, -2, 2, 0], [2, 2, -2, 0], [2, 2, -2, 0], [2, -2, 2, 0]] := by
  decide +kernel

end Ampverif.Props.C02
