/-
C15 — pickle round trip is the identity.

Model: `serialise` stores a term as pickle does (built-in SymPy nodes as `func(*args)`; an
`@unevaluated` instance as its class and `__getnewargs__() = _get_arguments(instance)`),
`deserialise` calls the generated `__new__` on the stored values. Theorems for EVERY well-formed
class table (instantiated with the table regenerated from the working tree), every well-formed
term and every model record. pickle's byte format and SymPy's `__reduce_ex__` are executed by
the correspondence, not modelled.
-/
import Ampverif.Lemmas.C15Pickle
import Ampverif.Gen.C14Table
import Ampverif.Gen.C15Hooks

namespace Ampverif.Props.C15
open Ampverif.Model Ampverif.Lemmas.C14 Ampverif.Lemmas.C15

mutual
/-- shallow `__getnewargs__` ⇒ loading what was dumped gives the term back: every term whose
nodes are instances of table classes (nested instances, non-SymPy attributes, pool sums,
arbitrary built-in SymPy nodes included). -/
theorem roundtrip (tbl : ClassTable) (v : Variant) (hv : v.sound) :
    ∀ e : Expr, wfTerm tbl e = true → deserialise tbl (serialise v tbl e) = some e
  | .sym s, _ => by simp [serialise, deserialise]
  | .rat q, _ => by simp [serialise, deserialise]
  | .add es, h => by
      simp [serialise, deserialise, roundtripList tbl v hv es (by simpa [wfTerm] using h)]
  | .mul es, h => by
      simp [serialise, deserialise, roundtripList tbl v hv es (by simpa [wfTerm] using h)]
  | .pow b n, h => by
      simp [serialise, deserialise, roundtrip tbl v hv b (by simpa [wfTerm] using h)]
  | .app f es, h => by
      simp [serialise, deserialise, roundtripList tbl v hv es (by simpa [wfTerm] using h)]
  | .node c es t, h => by
      have hr : v.getArgsRecursive = false := hv.1
      simp only [wfTerm, Bool.and_eq_true] at h
      cases hf : tbl.find c with
      | none => simp [hf] at h
      | some ci =>
        simp only [hf, Bool.and_eq_true, beq_iff_eq] at h
        simp only [serialise, hr, hf, Bool.false_eq_true, if_false, deserialise,
          roundtripList tbl v hv es h.2, weave_eq_interleave]
        exact new_interleave tbl c ci hf es t h.1.1 h.1.2
  | .psum b ixs, h => by
      simp [serialise, deserialise, roundtrip tbl v hv b (by simpa [wfTerm] using h)]
  | .idx f es, h => by
      simp [serialise, deserialise, roundtripList tbl v hv es (by simpa [wfTerm] using h)]
theorem roundtripList (tbl : ClassTable) (v : Variant) (hv : v.sound) :
    ∀ es : List Expr, wfTermList tbl es = true → deserialiseList tbl (serialiseList v tbl es) = some es
  | [], _ => by simp [serialiseList, deserialiseList]
  | e :: es, h => by
      have h' : wfTerm tbl e = true ∧ wfTermList tbl es = true := by simpa [wfTermList] using h
      simp [serialiseList, deserialiseList, roundtrip tbl v hv e h'.1, roundtripList tbl v hv es h'.2]
end

/-- the same for a formulated model: intensity, amplitudes, parameter defaults, kinematic variables
and components come back attribute by attribute, in the same order. -/
theorem roundtrip_model (tbl : ClassTable) (v : Variant) (hv : v.sound) (m : ModelRec)
    (hw : ∀ e ∈ m.exprs, wfTerm tbl e = true) :
    deserialiseModel tbl (serialiseModel v tbl m) = some m := by
  have hi : deserialise tbl (serialise v tbl m.intensity) = some m.intensity :=
    roundtrip tbl v hv _ (hw _ (by simp [ModelRec.exprs]))
  have ha := optPairs_map (serialise v tbl) (deserialise tbl) m.amplitudes (fun p hp =>
    ⟨roundtrip tbl v hv _ (hw _ (by
        simp only [ModelRec.exprs, List.mem_cons, List.mem_append, List.mem_flatMap]
        right; left; left; left; exact ⟨p, hp, by simp⟩)),
     roundtrip tbl v hv _ (hw _ (by
        simp only [ModelRec.exprs, List.mem_cons, List.mem_append, List.mem_flatMap]
        right; left; left; left; exact ⟨p, hp, by simp⟩))⟩)
  have hp := optFst_map (serialise v tbl) (deserialise tbl) m.parameterDefaults (fun p hp =>
    roundtrip tbl v hv _ (hw _ (by
        simp only [ModelRec.exprs, List.mem_cons, List.mem_append, List.mem_map]
        right; left; left; right; exact ⟨p, hp, rfl⟩)))
  have hk := optPairs_map (serialise v tbl) (deserialise tbl) m.kinematicVariables (fun p hp =>
    ⟨roundtrip tbl v hv _ (hw _ (by
        simp only [ModelRec.exprs, List.mem_cons, List.mem_append, List.mem_flatMap]
        right; left; right; exact ⟨p, hp, by simp⟩)),
     roundtrip tbl v hv _ (hw _ (by
        simp only [ModelRec.exprs, List.mem_cons, List.mem_append, List.mem_flatMap]
        right; left; right; exact ⟨p, hp, by simp⟩))⟩)
  have hc := optSnd_map (serialise v tbl) (deserialise tbl) m.components (fun p hp =>
    roundtrip tbl v hv _ (hw _ (by
        simp only [ModelRec.exprs, List.mem_cons, List.mem_append, List.mem_map]
        right; right; exact ⟨p, hp, rfl⟩)))
  simp only [deserialiseModel, serialiseModel, hi, ha, hp, hk, hc]

/-- instance on the table regenerated from the working tree. -/
theorem roundtrip_package (v : Variant) (hv : v.sound) (e : Expr)
    (h : wfTerm Ampverif.Gen.C14.classTable e = true) :
    deserialise Ampverif.Gen.C14.classTable (serialise v Ampverif.Gen.C14.classTable e) = some e :=
  roundtrip _ v hv e h

/-! ### pickling hooks: what `serialise` assumes about the classes of the package

`serialise` = class + `__getnewargs__`. The model knows two kinds of classes: table classes (pickled as
the class and `_get_arguments(instance)`, the decorator's hook) and everything else (SymPy's default:
`func(*args)`; the array/sum helper classes of the package are such uninterpreted heads). The list of
classes that define (or inherit, or get patched with) a pickling hook of their own is regenerated from the
package (`Gen/C15Hooks.lean`); a hook the model does not know about breaks `hooks_as_modelled`. -/

/-- a helper class instance is pickled as `func(*args)`: nothing but its `args`. -/
theorem helper_serialised_by_args (v : Variant) (tbl : ClassTable) (h : String) (es : List Expr) :
    serialise v tbl (.app h es) = .op (.app h) (serialiseList v tbl es) := by
  simp [serialise]

/-- hand-written pickling hooks the model knows about: only the deprecated `UnevaluatedExpression`
base class (`__getnewargs_ex__`; no table class and no helper class derives from it — the hook
list is resolved through the MRO). -/
def expectedOtherHooks : List (String × String × String) :=
  [("ampform.sympy.deprecated.UnevaluatedExpression", "__getnewargs_ex__",
    "ampform.sympy.deprecated.UnevaluatedExpression.__getnewargs_ex__")]

/-- the pickling hooks found in the working tree are the modelled ones: (1) no hand-written hook
besides the expected one; (2) every table class pickles through the decorator's `_get_arguments`;
(3) only table classes do; (4) no helper class (uninterpreted head) has a hook of any kind. -/
theorem hooks_as_modelled :
    Ampverif.Gen.C15.otherHooks = expectedOtherHooks ∧
    (Ampverif.Gen.C14.classTable.all fun ci =>
        Ampverif.Gen.C15.decoratorHookClasses.contains ci.name) = true ∧
    (Ampverif.Gen.C15.decoratorHookClasses.all fun c =>
        (Ampverif.Gen.C14.classTable.find c).isSome) = true ∧
    (Ampverif.Gen.C14.helperClasses.all fun h =>
        !Ampverif.Gen.C15.decoratorHookClasses.contains h
        && !(Ampverif.Gen.C15.otherHooks.map (·.1)).contains h
        && !Ampverif.Gen.C15.attrsStateClasses.contains h) = true := by
  decide +kernel

/-! ### witness for the unsound variant -/

def vAstuple : Variant := ⟨true, true⟩
def wp : Sym := ⟨"p", []⟩
/-- `EuclideanNorm(ThreeMomentum(p))` -/
def wNorm : Expr :=
  .node "ampform.kinematics.lorentz.EuclideanNorm"
    [.node "ampform.kinematics.lorentz.ThreeMomentum" [.sym wp] []] []

/-- recursive `__getnewargs__` (`dataclasses.astuple`): the nested instance is pickled as a
tuple of its fields and comes back as `EuclideanNorm(Tuple(p))`. -/
theorem witness_recursive_getnewargs :
    deserialise Ampverif.Gen.C14.classTable (serialise vAstuple Ampverif.Gen.C14.classTable wNorm)
      = some (.node "ampform.kinematics.lorentz.EuclideanNorm" [.app "Tuple" [.sym wp]] []) ∧
    deserialise Ampverif.Gen.C14.classTable (serialise Variant.current Ampverif.Gen.C14.classTable wNorm)
      = some wNorm := by
  decide +kernel

/-! ### non-vacuity -/

example : wfTerm Ampverif.Gen.C14.classTable wNorm = true := by decide +kernel

/-- a small model record with a nested instance carrying a non-SymPy attribute. -/
def wModel : ModelRec :=
  { intensity := .pow (.app "h:Abs" [.sym ⟨"A", []⟩]) 2
    amplitudes := [(.sym ⟨"A", []⟩,
      .mul [.sym ⟨"c", []⟩, .node "ampform.dynamics.phasespace.PhaseSpaceFactor"
        [.node "ampform.dynamics.phasespace.BreakupMomentumSquared" [.sym ⟨"s", []⟩, .sym ⟨"m1", []⟩, .sym ⟨"m2", []⟩] [.str "q"],
         .sym ⟨"m1", []⟩, .sym ⟨"m2", []⟩] [.none]])]
    parameterDefaults := [(.sym ⟨"c", []⟩, "1+0j")]
    kinematicVariables := [(.sym ⟨"s", []⟩, .node "ampform.kinematics.lorentz.InvariantMass" [.sym wp] [])]
    components := [("I", .sym ⟨"A", []⟩)]
    reactionInfo := "reaction" }

example : deserialiseModel Ampverif.Gen.C14.classTable
    (serialiseModel Variant.current Ampverif.Gen.C14.classTable wModel) = some wModel :=
  roundtrip_model _ _ (by decide) wModel (by decide +kernel)

end Ampverif.Props.C15
