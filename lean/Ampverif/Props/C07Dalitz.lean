/-
C07 (Dalitz link) — in a three-body decay given in the rest frame of the decaying particle, the
polar helicity angle the library computes THROUGH ITS OWN CHAIN of matrices equals the closed-form
`formulate_scattering_angle` it provides, for all six ordered pairs.

`Ampverif.Gen.C07.hel*` are REGENERATED on every run from the real kinematic variable
`theta_0^01 = Theta(BoostZMatrix(β)·RotationYMatrix(−Θ)·RotationZMatrix(−Φ)·p0)` (frame `p0 + p1`)
of the three-body topology 2 (01): `rzCos … frGammaBeta` are the non-trivial entries of the
library's explicit matrices, `rz* ry* hel*` the vector after each matrix, `helCosArg` the argument
of `acos` in `Theta`, `helTheta` the angle itself. `Ampverif.Gen.C19.*` (builder C19) are the
regenerated `formulate_scattering_angle` expressions; `Props/C19.lean` shows that their arccos
arguments are the covariant cosines used here (`theta_cos_covariant`, `theta_sum_pi`).

Guards (each is a genuine singularity of the generated code, listed in the evidence):
the isobar is time-like with positive energy, it moves in the decay frame and not along the z axis
(`pt > 0`: the library's own `cos(atan2(y,x)) = x/√(x²+y²)` is 0/0 there), total energy positive.
-/
import Ampverif.Gen.C07
import Ampverif.Lemmas.C07Chain
import Ampverif.Props.C19
import Mathlib.Analysis.SpecialFunctions.Trigonometric.Inverse
import Mathlib.Tactic.IntervalCases

set_option linter.unusedSimpArgs false
set_option linter.unusedVariables false

namespace Ampverif.Props.C07
open Ampverif.Gen.C07 Ampverif.Lemmas.C07 Ampverif.Lemmas.C19

/-! ## The regenerated matrices carry a momentum into the helicity frame -/

/-- The regenerated matrix entries and intermediate vectors satisfy the constraints of
`ChainData`: `RotZ(−Φ)` then `RotY(−Θ)` turn the frame's flight direction onto +z (`cφ·pt = X`, …),
`BoostZ(β)` is the boost with `γ = E/m`, `γβ = |p⃗|/m`. -/
theorem chain_is_helicity_frame (E0 x0 y0 z0 E1 x1 y1 z1 : ℝ)
    (hpt : 0 < (x0 + x1) ^ 2 + (y0 + y1) ^ 2) (hE : 0 < E0 + E1)
    (htl : (x0 + x1) ^ 2 + (y0 + y1) ^ 2 + (z0 + z1) ^ 2 < (E0 + E1) ^ 2) :
    ChainData (E0 + E1) (x0 + x1) (y0 + y1) (z0 + z1) E0 x0 y0 z0
      (rzCos E0 x0 y0 z0 E1 x1 y1 z1) (rzSin E0 x0 y0 z0 E1 x1 y1 z1)
      (ryCos E0 x0 y0 z0 E1 x1 y1 z1) (rySin E0 x0 y0 z0 E1 x1 y1 z1)
      (frGamma E0 x0 y0 z0 E1 x1 y1 z1) (frGammaBeta E0 x0 y0 z0 E1 x1 y1 z1)
      (Real.sqrt ((x0 + x1) ^ 2 + (y0 + y1) ^ 2 + (z0 + z1) ^ 2))
      (Real.sqrt ((x0 + x1) ^ 2 + (y0 + y1) ^ 2))
      (Real.sqrt ((E0 + E1) ^ 2 - ((x0 + x1) ^ 2 + (y0 + y1) ^ 2 + (z0 + z1) ^ 2)))
      (helX E0 x0 y0 z0 E1 x1 y1 z1) (helY E0 x0 y0 z0 E1 x1 y1 z1) (helZ E0 x0 y0 z0 E1 x1 y1 z1)
      (ryZ E0 x0 y0 z0 E1 x1 y1 z1) := by
  set X := x0 + x1 with hX
  set Y := y0 + y1 with hY
  set Z := z0 + z1 with hZ
  set E := E0 + E1 with hEdef
  have hS : 0 < X ^ 2 + Y ^ 2 + Z ^ 2 := by positivity
  have hM : 0 < E ^ 2 - (X ^ 2 + Y ^ 2 + Z ^ 2) := by linarith
  set n := Real.sqrt (X ^ 2 + Y ^ 2 + Z ^ 2) with hn
  set pt := Real.sqrt (X ^ 2 + Y ^ 2) with hptd
  set m := Real.sqrt (E ^ 2 - (X ^ 2 + Y ^ 2 + Z ^ 2)) with hm
  have n0 : 0 < n := Real.sqrt_pos.2 hS
  have pt0 : 0 < pt := Real.sqrt_pos.2 hpt
  have m0 : 0 < m := Real.sqrt_pos.2 hM
  have nsq : n ^ 2 = X ^ 2 + Y ^ 2 + Z ^ 2 := Real.sq_sqrt hS.le
  have ptsq : pt ^ 2 = X ^ 2 + Y ^ 2 := Real.sq_sqrt hpt.le
  have msq : m ^ 2 = E ^ 2 - (X ^ 2 + Y ^ 2 + Z ^ 2) := Real.sq_sqrt hM.le
  have sqrt_of_sq : ∀ {r a : ℝ}, 0 ≤ a → r = a ^ 2 → Real.sqrt r = a := by
    intro r a ha hr; rw [hr, Real.sqrt_sq ha]
  refine
    { hn := nsq, hn0 := n0, hpt := ptsq, hpt0 := pt0, hm := by rw [msq, nsq], hm0 := m0,
      h1 := ?_, h2 := ?_, h3 := ?_, h4 := ?_, hγ := ?_, hgb := ?_,
      hqx := ?_, hqy := ?_, hv2z := ?_, hqz := ?_ }
  · unfold rzCos; rw [← hX, ← hY, ← hptd]; field_simp
  · unfold rzSin; rw [← hX, ← hY, ← hptd]; field_simp
  · unfold ryCos; rw [← hX, ← hY, ← hZ, ← hn]; field_simp
  · unfold rySin; rw [← hX, ← hY, ← hZ]
    generalize hR : Real.sqrt _ = s
    have hs : s = pt / n := by
      rw [← hR]
      exact sqrt_of_sq (div_nonneg pt0.le n0.le) (by rw [div_pow, ptsq, nsq]; field_simp; ring)
    rw [hs]; field_simp
  · unfold frGamma; rw [← hX, ← hY, ← hZ, ← hEdef]
    generalize hR : Real.sqrt _ = s
    have hs : s = m / E := by
      rw [← hR]
      exact sqrt_of_sq (div_nonneg m0.le hE.le) (by rw [div_pow, msq]; field_simp; ring)
    rw [hs]; field_simp
  · unfold frGammaBeta; rw [← hX, ← hY, ← hZ, ← hEdef, ← hn]
    generalize hR : Real.sqrt _ = s
    have hs : s = m / E := by
      rw [← hR]
      exact sqrt_of_sq (div_nonneg m0.le hE.le) (by rw [div_pow, msq]; field_simp; ring)
    rw [hs]; field_simp
  · unfold helX ryX rzX rzZ; ring
  · unfold helY ryY rzY; ring
  · unfold ryZ rzX rzZ; ring
  · unfold helZ ryE rzE; ring

/-- **Library chain ⇒ covariant cosine.** For ANY three four-vectors `pa pb pc` whose sum is at
rest: the regenerated arccos argument of the polar helicity angle of `pa` in the frame of
`pa + pb` is minus the covariant cosine between `pa` and the spectator `pc` seen from `pa + pb`. -/
theorem C07_dalitz_chain (pa pb pc : V4)
    (hx : pa.x + pb.x + pc.x = 0) (hy : pa.y + pb.y + pc.y = 0) (hz : pa.z + pb.z + pc.z = 0)
    (hM : 0 < pa.E + pb.E + pc.E)
    (hpt : 0 < (pa.x + pb.x) ^ 2 + (pa.y + pb.y) ^ 2) (hE : 0 < pa.E + pb.E)
    (htl : (pa.x + pb.x) ^ 2 + (pa.y + pb.y) ^ 2 + (pa.z + pb.z) ^ 2 < (pa.E + pb.E) ^ 2) :
    helCosArg pa.E pa.x pa.y pa.z pb.E pb.x pb.y pb.z = -V4.covCos (pa + pb) pa pc := by
  have d := chain_is_helicity_frame pa.E pa.x pa.y pa.z pb.E pb.x pb.y pb.z hpt hE htl
  have key := d.cos_eq_neg_covCos (Ek := pc.E) (by linarith)
  have e1 : (pa + pb : V4) = ⟨pa.E + pb.E, pa.x + pb.x, pa.y + pb.y, pa.z + pb.z⟩ := rfl
  have e2 : pc = ⟨pc.E, -(pa.x + pb.x), -(pa.y + pb.y), -(pa.z + pb.z)⟩ := by
    cases pc with | mk e x y z =>
    simp only at hx hy hz
    congr 1 <;> linarith
  have e3 : pa = ⟨pa.E, pa.x, pa.y, pa.z⟩ := rfl
  unfold helCosArg
  rw [key, e1]
  conv_rhs => rw [e2]

/-- **The chain lands in the rest frame of the subsystem.** Applied to the subsystem's own
momentum (`p1 = 0`, frame `= p0`) the regenerated chain gives `(m; 0, 0, 0)` with `m` its invariant
mass: the frame reached is the rest frame, and by `chain_is_helicity_frame` its z axis is the
flight direction. -/
theorem C07_chain_rest_frame (E0 x0 y0 z0 : ℝ)
    (hpt : 0 < x0 ^ 2 + y0 ^ 2) (hE : 0 < E0) (htl : x0 ^ 2 + y0 ^ 2 + z0 ^ 2 < E0 ^ 2) :
    helE E0 x0 y0 z0 0 0 0 0 = Real.sqrt (E0 ^ 2 - (x0 ^ 2 + y0 ^ 2 + z0 ^ 2)) ∧
    helX E0 x0 y0 z0 0 0 0 0 = 0 ∧ helY E0 x0 y0 z0 0 0 0 0 = 0 ∧ helZ E0 x0 y0 z0 0 0 0 0 = 0 := by
  have d := chain_is_helicity_frame E0 x0 y0 z0 0 0 0 0 (by simpa using hpt) (by simpa using hE)
    (by simpa using htl)
  simp only [add_zero] at d
  obtain ⟨hx, hy, hz, hv⟩ := d.frame_to_rest
  refine ⟨?_, hx, hy, hz⟩
  have hm0 := d.hm0
  have e : Real.sqrt (E0 ^ 2 - (x0 ^ 2 + y0 ^ 2 + z0 ^ 2)) * helE E0 x0 y0 z0 0 0 0 0
      = Real.sqrt (E0 ^ 2 - (x0 ^ 2 + y0 ^ 2 + z0 ^ 2)) * Real.sqrt (E0 ^ 2 - (x0 ^ 2 + y0 ^ 2 + z0 ^ 2)) := by
    unfold helE ryE rzE
    rw [hv]
    linear_combination E0 * d.hγ - Real.sqrt (x0 ^ 2 + y0 ^ 2 + z0 ^ 2) * d.hgb - d.hm
  exact mul_left_cancel₀ hm0.ne' e

/-- the guards of `C07_dalitz_chain` are satisfiable -/
example : ∃ pa pb pc : V4,
    pa.x + pb.x + pc.x = 0 ∧ pa.y + pb.y + pc.y = 0 ∧ pa.z + pb.z + pc.z = 0 ∧
    0 < pa.E + pb.E + pc.E ∧ 0 < (pa.x + pb.x) ^ 2 + (pa.y + pb.y) ^ 2 ∧ 0 < pa.E + pb.E ∧
    (pa.x + pb.x) ^ 2 + (pa.y + pb.y) ^ 2 + (pa.z + pb.z) ^ 2 < (pa.E + pb.E) ^ 2 :=
  ⟨⟨2, 1, 0, 0⟩, ⟨2, 0, 1, 0⟩, ⟨3, -1, -1, 0⟩, by norm_num⟩

/-! ## Composition with the regenerated closed form (builder C19) -/

open Ampverif.Gen.C19 Ampverif.Props.C19 in
/-- **`C07_dalitz`.** Event `p₁ p₂ p₃` of a three-body decay in the rest frame of the decaying
particle, the library's seven mass symbols being its invariant masses. For every ordered pair
`i ≠ j ∈ {1,2,3}` (all six), under the guards for the isobar `(ij)`:

* the regenerated arccos argument of `formulate_scattering_angle(i, j)` IS the regenerated arccos
  argument of the polar helicity angle of particle `i` obtained through the library's own chain
  `Theta(BoostZ(β)·RotY(−Θ)·RotZ(−Φ)·p_i)` with frame `p_i + p_j`;
* hence `θ_ij` is that helicity angle, and `θ_ji = π − θ_ij`: the angle symbol of a node is named
  after (and measures) the helicity child `i`; for the opposite-helicity child the closed form
  gives π minus the library's helicity angle. -/
theorem C07_dalitz {m_0 m_1 m_2 m_3 m_12 m_13 m_23 : ℝ} {p1 p2 p3 : V4}
    (h : Masses p1 p2 p3 m_0 m_1 m_2 m_3 m_12 m_13 m_23)
    (hx : p1.x + p2.x + p3.x = 0) (hy : p1.y + p2.y + p3.y = 0) (hz : p1.z + p2.z + p3.z = 0)
    (hM : 0 < p1.E + p2.E + p3.E) :
    ∀ i j, 1 ≤ i → i ≤ 3 → 1 ≤ j → j ≤ 3 → i ≠ j →
      0 < ((pick p1 p2 p3 i).x + (pick p1 p2 p3 j).x) ^ 2 + ((pick p1 p2 p3 i).y + (pick p1 p2 p3 j).y) ^ 2 →
      0 < (pick p1 p2 p3 i).E + (pick p1 p2 p3 j).E →
      ((pick p1 p2 p3 i).x + (pick p1 p2 p3 j).x) ^ 2 + ((pick p1 p2 p3 i).y + (pick p1 p2 p3 j).y) ^ 2
        + ((pick p1 p2 p3 i).z + (pick p1 p2 p3 j).z) ^ 2 < ((pick p1 p2 p3 i).E + (pick p1 p2 p3 j).E) ^ 2 →
      let a := pick p1 p2 p3 i
      let b := pick p1 p2 p3 j
      thetaCos i j m_0 m_1 m_2 m_3 m_12 m_13 m_23 = some (helCosArg a.E a.x a.y a.z b.E b.x b.y b.z) ∧
      thetaAngle i j m_0 m_1 m_2 m_3 m_12 m_13 m_23 = .ok (helTheta a.E a.x a.y a.z b.E b.x b.y b.z) ∧
      thetaAngle j i m_0 m_1 m_2 m_3 m_12 m_13 m_23
        = .ok (Real.pi - helTheta a.E a.x a.y a.z b.E b.x b.y b.z) := by
  intro i j hi1 hi3 hj1 hj3 hij hpt hE htl a b
  have hk := theta_kind_consistent m_0 m_1 m_2 m_3 m_12 m_13 m_23 i (by omega) j (by omega)
  have hd := theta_domain i (by omega) j (by omega)
  rw [hd, if_pos ⟨hi1, hj1, hij⟩] at hk
  obtain ⟨x, hxc, hxa⟩ := hk
  have hcov := theta_cos_covariant h i (by omega) j (by omega) x hxc
  -- the spectator and the rest-frame condition for this pair
  have hrest : (pick p1 p2 p3 i).x + (pick p1 p2 p3 j).x + (pick p1 p2 p3 (6 - i - j)).x = 0 ∧
      (pick p1 p2 p3 i).y + (pick p1 p2 p3 j).y + (pick p1 p2 p3 (6 - i - j)).y = 0 ∧
      (pick p1 p2 p3 i).z + (pick p1 p2 p3 j).z + (pick p1 p2 p3 (6 - i - j)).z = 0 ∧
      0 < (pick p1 p2 p3 i).E + (pick p1 p2 p3 j).E + (pick p1 p2 p3 (6 - i - j)).E := by
    interval_cases i <;> interval_cases j <;> first | exact absurd rfl hij | skip
    all_goals (simp only [pick]; refine ⟨?_, ?_, ?_, ?_⟩ <;> linarith)
  obtain ⟨rx, ry, rz, rM⟩ := hrest
  have hchain := C07_dalitz_chain (pick p1 p2 p3 i) (pick p1 p2 p3 j) (pick p1 p2 p3 (6 - i - j))
    rx ry rz rM hpt hE htl
  have hx' : x = helCosArg a.E a.x a.y a.z b.E b.x b.y b.z := by rw [hcov, ← hchain]
  have h1 : thetaAngle i j m_0 m_1 m_2 m_3 m_12 m_13 m_23
      = .ok (helTheta a.E a.x a.y a.z b.E b.x b.y b.z) := by
    rw [hxa, hx']; rfl
  refine ⟨by rw [hxc, hx'], h1, ?_⟩
  obtain ⟨u, v, hu, hv, huv⟩ := theta_sum_pi h.constraint i j hi1 hi3 hj1 hj3 hij
  rw [h1] at hu
  have : u = helTheta a.E a.x a.y a.z b.E b.x b.y b.z := by
    injection hu with hu'; exact hu'.symm
  rw [hv]; congr 1; linarith

end Ampverif.Props.C07
