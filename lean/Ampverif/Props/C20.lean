/-
C20 — phase-space boundary functions classify three-body kinematics correctly.

All theorems are about `Ampverif.Gen.C20.*`, which is REGENERATED from
`/repo/src/ampform/kinematics/phasespace.py` on every run. Only property theorems live here.
-/
import Ampverif.Gen.C20
import Ampverif.Lemmas.C20Frame
import Mathlib.Analysis.Real.Sqrt
import Mathlib.Tactic.Ring
import Mathlib.Tactic.Linarith
import Mathlib.Tactic.FieldSimp
import Mathlib.Tactic.LinearCombination
import Mathlib.Tactic.Positivity

namespace Ampverif.Props.C20
open Ampverif.Gen.C20

/-! ### Källén function: total symmetry and factorisation -/

theorem kallen_symm_xy (x y z : ℝ) : Kallen x y z = Kallen y x z := by
  unfold Kallen; ring

theorem kallen_symm_yz (x y z : ℝ) : Kallen x y z = Kallen x z y := by
  unfold Kallen; ring

theorem kallen_symm_cyc (x y z : ℝ) : Kallen x y z = Kallen y z x := by
  unfold Kallen; ring

/-- `λ(x,y,z) = (x − (√y+√z)²)(x − (√y−√z)²)` for `y, z ≥ 0`. -/
theorem kallen_factor (x y z : ℝ) (hy : 0 ≤ y) (hz : 0 ≤ z) :
    Kallen x y z
      = (x - (Real.sqrt y + Real.sqrt z) ^ 2) * (x - (Real.sqrt y - Real.sqrt z) ^ 2) := by
  have h1 : Real.sqrt y ^ 2 = y := Real.sq_sqrt hy
  have h2 : Real.sqrt z ^ 2 = z := Real.sq_sqrt hz
  unfold Kallen
  generalize Real.sqrt y = a at *
  generalize Real.sqrt z = b at *
  subst h1 h2
  ring

/-! ### Events

A four-momentum is given by its components; `msq` is the Minkowski square. An event is three
final-state momenta; nothing else is assumed for the Mandelstam sum rule. -/

/-- Minkowski square of `(E, x, y, z)`. -/
def msq (E x y z : ℝ) : ℝ := E ^ 2 - x ^ 2 - y ^ 2 - z ^ 2

/-- For EVERY three four-momenta (no frame condition), the third Mandelstam variable computed by
the library from `σ₁ = (p₂+p₃)²`, `σ₂ = (p₁+p₃)²` equals the true `σ₃ = (p₁+p₂)²`. -/
theorem third_mandelstam_event
    (E1 x1 y1 z1 E2 x2 y2 z2 E3 x3 y3 z3 m0 m1 m2 m3 : ℝ)
    (h0 : m0 ^ 2 = msq (E1 + E2 + E3) (x1 + x2 + x3) (y1 + y2 + y3) (z1 + z2 + z3))
    (h1 : m1 ^ 2 = msq E1 x1 y1 z1) (h2 : m2 ^ 2 = msq E2 x2 y2 z2)
    (h3 : m3 ^ 2 = msq E3 x3 y3 z3) :
    thirdMandelstam (msq (E2 + E3) (x2 + x3) (y2 + y3) (z2 + z3))
        (msq (E1 + E3) (x1 + x3) (y1 + y3) (z1 + z3)) m0 m1 m2 m3
      = msq (E1 + E2) (x1 + x2) (y1 + y2) (z1 + z2) := by
  unfold thirdMandelstam
  rw [h0, h1, h2, h3]
  unfold msq
  ring

/-- In the rest frame of the decaying particle (`p⃗₁+p⃗₂+p⃗₃ = 0`, `m₀ = E₁+E₂+E₃`) the Kibble
function is `−64 m₀⁴ |p⃗₂ × p⃗₃|²`. -/
theorem kibble_event_eq
    (E1 E2 x2 y2 z2 E3 x3 y3 z3 m0 m1 m2 m3 : ℝ)
    (h0 : m0 = E1 + E2 + E3)
    (h1 : m1 ^ 2 = msq E1 (-(x2 + x3)) (-(y2 + y3)) (-(z2 + z3)))
    (h2 : m2 ^ 2 = msq E2 x2 y2 z2) (h3 : m3 ^ 2 = msq E3 x3 y3 z3) :
    Kibble (msq (E2 + E3) (x2 + x3) (y2 + y3) (z2 + z3))
        (msq (E1 + E3) (-(x2 + x3) + x3) (-(y2 + y3) + y3) (-(z2 + z3) + z3))
        (msq (E1 + E2) (-(x2 + x3) + x2) (-(y2 + y3) + y2) (-(z2 + z3) + z2))
        m0 m1 m2 m3
      = -64 * m0 ^ 4 * ((y2 * z3 - z2 * y3) ^ 2 + (z2 * x3 - x2 * z3) ^ 2 + (x2 * y3 - y2 * x3) ^ 2) := by
  unfold Kibble Kallen
  rw [h1, h2, h3, h0]
  unfold msq
  ring

/-- `Kibble ≤ 0` on every physical three-body event (rest frame of the parent). -/
theorem kibble_event_nonpos
    (E1 E2 x2 y2 z2 E3 x3 y3 z3 m0 m1 m2 m3 : ℝ)
    (h0 : m0 = E1 + E2 + E3)
    (h1 : m1 ^ 2 = msq E1 (-(x2 + x3)) (-(y2 + y3)) (-(z2 + z3)))
    (h2 : m2 ^ 2 = msq E2 x2 y2 z2) (h3 : m3 ^ 2 = msq E3 x3 y3 z3) :
    Kibble (msq (E2 + E3) (x2 + x3) (y2 + y3) (z2 + z3))
        (msq (E1 + E3) (-(x2 + x3) + x3) (-(y2 + y3) + y3) (-(z2 + z3) + z3))
        (msq (E1 + E2) (-(x2 + x3) + x2) (-(y2 + y3) + y2) (-(z2 + z3) + z2))
        m0 m1 m2 m3 ≤ 0 := by
  rw [kibble_event_eq E1 E2 x2 y2 z2 E3 x3 y3 z3 m0 m1 m2 m3 h0 h1 h2 h3]
  have : 0 ≤ m0 ^ 4 * ((y2 * z3 - z2 * y3) ^ 2 + (z2 * x3 - x2 * z3) ^ 2 + (x2 * y3 - y2 * x3) ^ 2) := by
    positivity
  linarith

/-- The indicator sees the third Mandelstam variable of `thirdMandelstam` (structure of the
generated Piecewise) -/
theorem indicator_def (σ1 σ2 m0 m1 m2 m3 ov : ℝ) :
    isWithinPhasespace σ1 σ2 m0 m1 m2 m3 ov
      = if Kibble σ1 σ2 (thirdMandelstam σ1 σ2 m0 m1 m2 m3) m0 m1 m2 m3 ≤ 0 then 1 else ov := by
  unfold isWithinPhasespace thirdMandelstam
  rfl

/-- The indicator is 1 on every physical three-body event. -/
theorem indicator_event
    (E1 E2 x2 y2 z2 E3 x3 y3 z3 m0 m1 m2 m3 ov : ℝ)
    (h0 : m0 = E1 + E2 + E3)
    (h1 : m1 ^ 2 = msq E1 (-(x2 + x3)) (-(y2 + y3)) (-(z2 + z3)))
    (h2 : m2 ^ 2 = msq E2 x2 y2 z2) (h3 : m3 ^ 2 = msq E3 x3 y3 z3) :
    isWithinPhasespace (msq (E2 + E3) (x2 + x3) (y2 + y3) (z2 + z3))
        (msq (E1 + E3) (-(x2 + x3) + x3) (-(y2 + y3) + y3) (-(z2 + z3) + z3))
        m0 m1 m2 m3 ov = 1 := by
  rw [indicator_def]
  have hm0 : m0 ^ 2 = msq (E1 + E2 + E3) (-(x2 + x3) + x2 + x3) (-(y2 + y3) + y2 + y3)
      (-(z2 + z3) + z2 + z3) := by
    rw [h0]; unfold msq; ring
  rw [third_mandelstam_event E1 (-(x2 + x3)) (-(y2 + y3)) (-(z2 + z3)) E2 x2 y2 z2 E3 x3 y3 z3
    m0 m1 m2 m3 hm0 h1 h2 h3]
  rw [if_pos (kibble_event_nonpos E1 E2 x2 y2 z2 E3 x3 y3 z3 m0 m1 m2 m3 h0 h1 h2 h3)]

/-! ### Frame-independent version

The same facts for an event given in ANY frame: three four-momenta whose sum is time-like. -/

section AnyFrame
open Ampverif.Lemmas.C20Frame

/-- In any frame, `Kibble = 64 (H₂₃² − H₂₂H₃₃)` with `H_ij = ⟨P,p_i⟩⟨P,p_j⟩ − ⟨P,P⟩⟨p_i,p_j⟩`. -/
theorem kibble_any_frame_eq (p1 p2 p3 : V4) (m0 m1 m2 m3 : ℝ)
    (h0 : m0 ^ 2 = V4.sq (p1 + p2 + p3)) (h1 : m1 ^ 2 = V4.sq p1) (h2 : m2 ^ 2 = V4.sq p2)
    (h3 : m3 ^ 2 = V4.sq p3) :
    Kibble (V4.sq (p2 + p3)) (V4.sq (p1 + p3)) (V4.sq (p1 + p2)) m0 m1 m2 m3
      = 64 * (H (p1 + p2 + p3) p2 p3 ^ 2
          - H (p1 + p2 + p3) p2 p2 * H (p1 + p2 + p3) p3 p3) := by
  unfold Kibble Kallen
  rw [h0, h1, h2, h3]
  unfold H V4.sq V4.dot
  simp only [V4.add_t, V4.add_x, V4.add_y, V4.add_z]
  ring

/-- `Kibble ≤ 0` for every three four-momenta with a time-like sum, in any frame. -/
theorem kibble_event_nonpos_any_frame (p1 p2 p3 : V4) (m0 m1 m2 m3 : ℝ)
    (hpos : 0 < V4.sq (p1 + p2 + p3))
    (h0 : m0 ^ 2 = V4.sq (p1 + p2 + p3)) (h1 : m1 ^ 2 = V4.sq p1) (h2 : m2 ^ 2 = V4.sq p2)
    (h3 : m3 ^ 2 = V4.sq p3) :
    Kibble (V4.sq (p2 + p3)) (V4.sq (p1 + p3)) (V4.sq (p1 + p2)) m0 m1 m2 m3 ≤ 0 := by
  rw [kibble_any_frame_eq p1 p2 p3 m0 m1 m2 m3 h0 h1 h2 h3]
  have := H_cauchy_schwarz (p1 + p2 + p3) p2 p3 hpos
  linarith

/-- The third Mandelstam variable and the indicator, in any frame. -/
theorem indicator_event_any_frame (p1 p2 p3 : V4) (m0 m1 m2 m3 ov : ℝ)
    (hpos : 0 < V4.sq (p1 + p2 + p3))
    (h0 : m0 ^ 2 = V4.sq (p1 + p2 + p3)) (h1 : m1 ^ 2 = V4.sq p1) (h2 : m2 ^ 2 = V4.sq p2)
    (h3 : m3 ^ 2 = V4.sq p3) :
    thirdMandelstam (V4.sq (p2 + p3)) (V4.sq (p1 + p3)) m0 m1 m2 m3 = V4.sq (p1 + p2) ∧
    isWithinPhasespace (V4.sq (p2 + p3)) (V4.sq (p1 + p3)) m0 m1 m2 m3 ov = 1 := by
  have ht : thirdMandelstam (V4.sq (p2 + p3)) (V4.sq (p1 + p3)) m0 m1 m2 m3 = V4.sq (p1 + p2) := by
    unfold thirdMandelstam
    rw [h0, h1, h2, h3]
    unfold V4.sq V4.dot
    simp only [V4.add_t, V4.add_x, V4.add_y, V4.add_z]
    ring
  refine ⟨ht, ?_⟩
  rw [indicator_def, ht,
    if_pos (kibble_event_nonpos_any_frame p1 p2 p3 m0 m1 m2 m3 hpos h0 h1 h2 h3)]

example : ∃ p1 p2 p3 : V4, 0 < V4.sq (p1 + p2 + p3) ∧ 0 < V4.sq p1 ∧ p1.z ≠ 0 :=
  ⟨⟨13, -3, -4, 2⟩, ⟨5, 3, 0, 0⟩, ⟨5, 0, 4, 0⟩, by norm_num [V4.sq, V4.dot], by norm_num [V4.sq, V4.dot],
    by norm_num⟩

end AnyFrame

/-! ### Dalitz-plot limits (PDG kinematics review)

For fixed `σ₁ = m₂₃²`, in the (23) rest frame `E₃* = (σ₁ − m₂² + m₃²)/(2√σ₁)`,
`E₁* = (m₀² − σ₁ − m₁²)/(2√σ₁)` and `σ₂ = m₁₃²` ranges over
`(E₁*+E₃*)² − (√(E₁*²−m₁²) ± √(E₃*²−m₃²))²`. -/

noncomputable def E1s (σ1 m0 m1 : ℝ) : ℝ := (m0 ^ 2 - σ1 - m1 ^ 2) / (2 * Real.sqrt σ1)
noncomputable def E3s (σ1 m2 m3 : ℝ) : ℝ := (σ1 - m2 ^ 2 + m3 ^ 2) / (2 * Real.sqrt σ1)
noncomputable def sigma2Min (σ1 m0 m1 m2 m3 : ℝ) : ℝ :=
  (E1s σ1 m0 m1 + E3s σ1 m2 m3) ^ 2
    - (Real.sqrt (E1s σ1 m0 m1 ^ 2 - m1 ^ 2) + Real.sqrt (E3s σ1 m2 m3 ^ 2 - m3 ^ 2)) ^ 2
noncomputable def sigma2Max (σ1 m0 m1 m2 m3 : ℝ) : ℝ :=
  (E1s σ1 m0 m1 + E3s σ1 m2 m3) ^ 2
    - (Real.sqrt (E1s σ1 m0 m1 ^ 2 - m1 ^ 2) - Real.sqrt (E3s σ1 m2 m3 ^ 2 - m3 ^ 2)) ^ 2

/-- With the `σ₃` constraint inserted, Kibble factorises over the PDG limits. -/
theorem kibble_pdg_factor (σ1 σ2 m0 m1 m2 m3 : ℝ) (hσ1 : 0 < σ1)
    (ha : 0 ≤ E1s σ1 m0 m1 ^ 2 - m1 ^ 2) (hb : 0 ≤ E3s σ1 m2 m3 ^ 2 - m3 ^ 2) :
    Kibble σ1 σ2 (thirdMandelstam σ1 σ2 m0 m1 m2 m3) m0 m1 m2 m3
      = 16 * m0 ^ 2 * σ1 * ((σ2 - sigma2Min σ1 m0 m1 m2 m3) * (σ2 - sigma2Max σ1 m0 m1 m2 m3)) := by
  have hs : Real.sqrt σ1 ^ 2 = σ1 := Real.sq_sqrt hσ1.le
  have hspos : 0 < Real.sqrt σ1 := Real.sqrt_pos.mpr hσ1
  have hA := Real.sq_sqrt ha
  have hB := Real.sq_sqrt hb
  unfold sigma2Min sigma2Max
  generalize Real.sqrt (E1s σ1 m0 m1 ^ 2 - m1 ^ 2) = a at *
  generalize Real.sqrt (E3s σ1 m2 m3 ^ 2 - m3 ^ 2) = b at *
  -- (σ2 - A + (a+b)²)(σ2 - A + (a-b)²) = (σ2-A)² + 2(σ2-A)(a²+b²) + (a²-b²)²
  have key : (σ2 - ((E1s σ1 m0 m1 + E3s σ1 m2 m3) ^ 2 - (a + b) ^ 2))
        * (σ2 - ((E1s σ1 m0 m1 + E3s σ1 m2 m3) ^ 2 - (a - b) ^ 2))
      = (σ2 - (E1s σ1 m0 m1 + E3s σ1 m2 m3) ^ 2) ^ 2
        + 2 * (σ2 - (E1s σ1 m0 m1 + E3s σ1 m2 m3) ^ 2)
            * ((E1s σ1 m0 m1 ^ 2 - m1 ^ 2) + (E3s σ1 m2 m3 ^ 2 - m3 ^ 2))
        + ((E1s σ1 m0 m1 ^ 2 - m1 ^ 2) - (E3s σ1 m2 m3 ^ 2 - m3 ^ 2)) ^ 2 := by
    rw [← hA, ← hB]; ring
  rw [key]
  unfold E1s E3s Kibble Kallen thirdMandelstam
  generalize Real.sqrt σ1 = r at *
  subst hs
  field_simp
  ring

/-- Inside the bounding box the starred energies are physical. -/
theorem box_energies (σ1 m0 m1 m2 m3 : ℝ) (hσ1 : 0 < σ1)
    (hm1 : 0 ≤ m1) (hm2 : 0 ≤ m2) (hm3 : 0 ≤ m3)
    (hlo : (m2 + m3) ^ 2 ≤ σ1) (hhi : σ1 ≤ (m0 - m1) ^ 2) (hm0 : m1 ≤ m0) :
    0 ≤ E1s σ1 m0 m1 ^ 2 - m1 ^ 2 ∧ 0 ≤ E3s σ1 m2 m3 ^ 2 - m3 ^ 2 := by
  have hs : Real.sqrt σ1 ^ 2 = σ1 := Real.sq_sqrt hσ1.le
  have hspos : 0 < Real.sqrt σ1 := Real.sqrt_pos.mpr hσ1
  have hr_lo : m2 + m3 ≤ Real.sqrt σ1 := by
    rw [show m2 + m3 = Real.sqrt ((m2 + m3) ^ 2) from (Real.sqrt_sq (by linarith)).symm]
    exact Real.sqrt_le_sqrt hlo
  have hr_hi : Real.sqrt σ1 ≤ m0 - m1 := by
    rw [show m0 - m1 = Real.sqrt ((m0 - m1) ^ 2) from (Real.sqrt_sq (by linarith)).symm]
    exact Real.sqrt_le_sqrt hhi
  unfold E1s E3s
  generalize Real.sqrt σ1 = r at *
  subst hs
  constructor
  · -- (m0²-r²-m1²)²/(4r²) - m1² = λ(m0², r², m1²)/(4r²), λ = (m0²-(r+m1)²)(m0²-(r-m1)²)
    have e : ((m0 ^ 2 - r ^ 2 - m1 ^ 2) / (2 * r)) ^ 2 - m1 ^ 2
        = ((m0 - m1 - r) * (m0 - m1 + r) * (m0 + m1 - r) * (m0 + m1 + r)) / (4 * r ^ 2) := by
      field_simp; ring
    rw [e]
    apply div_nonneg _ (by positivity)
    have h1 : 0 ≤ m0 - m1 - r := by linarith
    have h2 : 0 ≤ m0 - m1 + r := by linarith
    have h3 : 0 ≤ m0 + m1 - r := by linarith
    have h4 : 0 ≤ m0 + m1 + r := by linarith
    positivity
  · have e : ((r ^ 2 - m2 ^ 2 + m3 ^ 2) / (2 * r)) ^ 2 - m3 ^ 2
        = ((r - m2 - m3) * (r - m2 + m3) * (r + m2 - m3) * (r + m2 + m3)) / (4 * r ^ 2) := by
      field_simp; ring
    rw [e]
    apply div_nonneg _ (by positivity)
    have h1 : 0 ≤ r - m2 - m3 := by linarith
    have h2 : 0 ≤ r - m2 + m3 := by linarith
    have h3 : 0 ≤ r + m2 - m3 := by linarith
    have h4 : 0 ≤ r + m2 + m3 := by linarith
    positivity

/-- The lower limit is below the upper one. -/
theorem sigma2Min_le_Max (σ1 m0 m1 m2 m3 : ℝ) :
    sigma2Min σ1 m0 m1 m2 m3 ≤ sigma2Max σ1 m0 m1 m2 m3 := by
  unfold sigma2Min sigma2Max
  have ha := Real.sqrt_nonneg (E1s σ1 m0 m1 ^ 2 - m1 ^ 2)
  have hb := Real.sqrt_nonneg (E3s σ1 m2 m3 ^ 2 - m3 ^ 2)
  nlinarith [mul_nonneg ha hb]

/-- Inside the bounding box, the indicator is 1 exactly between the Dalitz-plot limits and the
caller's outside value elsewhere (the `σ₂` box is not even needed). -/
theorem indicator_iff_pdg (σ1 σ2 m0 m1 m2 m3 ov : ℝ) (hσ1 : 0 < σ1) (h0 : 0 < m0)
    (hm1 : 0 ≤ m1) (hm2 : 0 ≤ m2) (hm3 : 0 ≤ m3)
    (hlo : (m2 + m3) ^ 2 ≤ σ1) (hhi : σ1 ≤ (m0 - m1) ^ 2) (hm0 : m1 ≤ m0) :
    isWithinPhasespace σ1 σ2 m0 m1 m2 m3 ov
      = if sigma2Min σ1 m0 m1 m2 m3 ≤ σ2 ∧ σ2 ≤ sigma2Max σ1 m0 m1 m2 m3 then 1 else ov := by
  obtain ⟨ha, hb⟩ := box_energies σ1 m0 m1 m2 m3 hσ1 hm1 hm2 hm3 hlo hhi hm0
  rw [indicator_def, kibble_pdg_factor σ1 σ2 m0 m1 m2 m3 hσ1 ha hb]
  have hc : 0 < 16 * m0 ^ 2 * σ1 := by positivity
  have hle := sigma2Min_le_Max σ1 m0 m1 m2 m3
  generalize sigma2Min σ1 m0 m1 m2 m3 = lo at *
  generalize sigma2Max σ1 m0 m1 m2 m3 = hi at *
  by_cases h : lo ≤ σ2 ∧ σ2 ≤ hi
  · rw [if_pos h, if_pos]
    have : (σ2 - lo) * (σ2 - hi) ≤ 0 := by
      apply mul_nonpos_of_nonneg_of_nonpos <;> linarith [h.1, h.2]
    nlinarith
  · rw [if_neg h, if_neg]
    intro hk
    apply h
    have hprod : (σ2 - lo) * (σ2 - hi) ≤ 0 := by
      by_contra hpos
      push Not at hpos
      have := mul_pos hc hpos
      linarith
    constructor
    · by_contra hlt
      push Not at hlt
      have : 0 < (σ2 - lo) * (σ2 - hi) := by
        apply mul_pos_of_neg_of_neg <;> linarith
      linarith
    · by_contra hgt
      push Not at hgt
      have : 0 < (σ2 - lo) * (σ2 - hi) := by
        apply mul_pos <;> linarith
      linarith

/-! ### Calling conventions

`Gen.C20` also contains the definitions regenerated from the SAME four public objects reached by
keywords in declaration order (`KwDecl`), reversed (`KwRev`), rotated — e.g. the masses written
before the invariants — (`KwRot`), and with leading positional + trailing out-of-order keyword
arguments (`Mixed`); for the two `@unevaluated` classes additionally the unevaluated node itself
(`Node…`, i.e. its `.args` order). How the caller writes the arguments must not matter: each is
the positional definition, definitionally. (`Kibble.evaluate` unpacks `.args` by position, so a
constructor that orders `.args` by the caller's keywords breaks exactly these.) -/

theorem kallen_kw_decl (x y z : ℝ) :
    KallenKwDecl x y z = Kallen x y z := rfl

theorem kallen_kw_rev (x y z : ℝ) :
    KallenKwRev x y z = Kallen x y z := rfl

theorem kallen_kw_rot (x y z : ℝ) :
    KallenKwRot x y z = Kallen x y z := rfl

theorem kallen_mixed (x y z : ℝ) :
    KallenMixed x y z = Kallen x y z := rfl

theorem kallen_node_kw_rev (x y z : ℝ) :
    KallenNodeKwRev x y z = Kallen x y z := rfl

theorem kallen_node_mixed (x y z : ℝ) :
    KallenNodeMixed x y z = Kallen x y z := rfl

theorem kibble_kw_decl (σ1 σ2 σ3 m0 m1 m2 m3 : ℝ) :
    KibbleKwDecl σ1 σ2 σ3 m0 m1 m2 m3 = Kibble σ1 σ2 σ3 m0 m1 m2 m3 := rfl

theorem kibble_kw_rev (σ1 σ2 σ3 m0 m1 m2 m3 : ℝ) :
    KibbleKwRev σ1 σ2 σ3 m0 m1 m2 m3 = Kibble σ1 σ2 σ3 m0 m1 m2 m3 := rfl

theorem kibble_kw_rot (σ1 σ2 σ3 m0 m1 m2 m3 : ℝ) :
    KibbleKwRot σ1 σ2 σ3 m0 m1 m2 m3 = Kibble σ1 σ2 σ3 m0 m1 m2 m3 := rfl

theorem kibble_mixed (σ1 σ2 σ3 m0 m1 m2 m3 : ℝ) :
    KibbleMixed σ1 σ2 σ3 m0 m1 m2 m3 = Kibble σ1 σ2 σ3 m0 m1 m2 m3 := rfl

theorem kibble_node_kw_rev (σ1 σ2 σ3 m0 m1 m2 m3 : ℝ) :
    KibbleNodeKwRev σ1 σ2 σ3 m0 m1 m2 m3 = Kibble σ1 σ2 σ3 m0 m1 m2 m3 := rfl

theorem kibble_node_mixed (σ1 σ2 σ3 m0 m1 m2 m3 : ℝ) :
    KibbleNodeMixed σ1 σ2 σ3 m0 m1 m2 m3 = Kibble σ1 σ2 σ3 m0 m1 m2 m3 := rfl

theorem third_mandelstam_kw_decl (σ1 σ2 m0 m1 m2 m3 : ℝ) :
    thirdMandelstamKwDecl σ1 σ2 m0 m1 m2 m3 = thirdMandelstam σ1 σ2 m0 m1 m2 m3 := rfl

theorem third_mandelstam_kw_rev (σ1 σ2 m0 m1 m2 m3 : ℝ) :
    thirdMandelstamKwRev σ1 σ2 m0 m1 m2 m3 = thirdMandelstam σ1 σ2 m0 m1 m2 m3 := rfl

theorem third_mandelstam_kw_rot (σ1 σ2 m0 m1 m2 m3 : ℝ) :
    thirdMandelstamKwRot σ1 σ2 m0 m1 m2 m3 = thirdMandelstam σ1 σ2 m0 m1 m2 m3 := rfl

theorem third_mandelstam_mixed (σ1 σ2 m0 m1 m2 m3 : ℝ) :
    thirdMandelstamMixed σ1 σ2 m0 m1 m2 m3 = thirdMandelstam σ1 σ2 m0 m1 m2 m3 := rfl

theorem indicator_kw_decl (σ1 σ2 m0 m1 m2 m3 ov : ℝ) :
    isWithinPhasespaceKwDecl σ1 σ2 m0 m1 m2 m3 ov = isWithinPhasespace σ1 σ2 m0 m1 m2 m3 ov := rfl

theorem indicator_kw_rev (σ1 σ2 m0 m1 m2 m3 ov : ℝ) :
    isWithinPhasespaceKwRev σ1 σ2 m0 m1 m2 m3 ov = isWithinPhasespace σ1 σ2 m0 m1 m2 m3 ov := rfl

theorem indicator_kw_rot (σ1 σ2 m0 m1 m2 m3 ov : ℝ) :
    isWithinPhasespaceKwRot σ1 σ2 m0 m1 m2 m3 ov = isWithinPhasespace σ1 σ2 m0 m1 m2 m3 ov := rfl

theorem indicator_mixed (σ1 σ2 m0 m1 m2 m3 ov : ℝ) :
    isWithinPhasespaceMixed σ1 σ2 m0 m1 m2 m3 ov = isWithinPhasespace σ1 σ2 m0 m1 m2 m3 ov := rfl

/-! ### Non-vacuity: the hypotheses are met by a concrete event / box point -/

example : ∃ E1 E2 x2 y2 z2 E3 x3 y3 z3 m0 m1 m2 m3 : ℝ,
    m0 = E1 + E2 + E3 ∧ m1 ^ 2 = msq E1 (-(x2 + x3)) (-(y2 + y3)) (-(z2 + z3)) ∧
    m2 ^ 2 = msq E2 x2 y2 z2 ∧ m3 ^ 2 = msq E3 x3 y3 z3 ∧ 0 < m1 ∧ x2 * y3 - y2 * x3 ≠ 0 :=
  -- p2 = (5; 3,0,0), m2 = 4; p3 = (5; 0,4,0), m3 = 3; p1 = (13; -3,-4,0), m1 = 12; m0 = 23
  ⟨13, 5, 3, 0, 0, 5, 0, 4, 0, 23, 12, 4, 3, by norm_num, by norm_num [msq], by norm_num [msq],
    by norm_num [msq], by norm_num, by norm_num⟩

example : ∃ σ1 m0 m1 m2 m3 : ℝ, 0 < σ1 ∧ 0 < m0 ∧ 0 ≤ m1 ∧ 0 ≤ m2 ∧ 0 ≤ m3 ∧
    (m2 + m3) ^ 2 ≤ σ1 ∧ σ1 ≤ (m0 - m1) ^ 2 ∧ m1 ≤ m0 :=
  ⟨4, 5, 1, 1, 0, by norm_num, by norm_num, by norm_num, by norm_num, by norm_num, by norm_num,
    by norm_num, by norm_num⟩

end Ampverif.Props.C20
