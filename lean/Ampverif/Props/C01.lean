/-
C01 — every symbol of a model is defined: parameter xor kinematic variable.

Theorems about the executable builder model `Ampverif.Model.C01` (Model/C01Builder.lean), which is
tied to /repo on every run by the T2 correspondence of tools/props/C01.py (same reactions and
configurations through the real `HelicityAmplitudeBuilder` and through this model).
Only property theorems and non-vacuity examples live here; lemmas are in Lemmas/C01*.lean.
-/
import Ampverif.Lemmas.C01Align
import Ampverif.Lemmas.C01Examples

namespace Ampverif.Props.C01
open Ampverif.Model.C01

/-! ## Every amplitude symbol the intensity sums over has a definition -/

/-- With the zero definitions of fix e6c0bd9 (`ZeroMode.refs`): for EVERY reaction, configuration and
alignment, every amplitude symbol of the unfolded intensity is a key of `model.amplitudes`. -/
theorem C01_refs_defined (v : Variant) (hz : v.zeroDefs = .refs) (r : Reaction) (cfg : Config) :
    ∀ k ∈ (result v r cfg).refs, dictHas k (result v r cfg).defs = true := by
  intro k hk
  simp only [result, zeroDefsOf, hz] at hk ⊢
  exact addMissing_has _ _ _ hk

/-- consequently the model never reports an undefined amplitude symbol -/
theorem C01_no_undefined (v : Variant) (hz : v.zeroDefs = .refs) (r : Reaction) (cfg : Config) :
    undefinedRefs v r cfg = [] := by
  have h := C01_refs_defined v hz r cfg
  simp only [undefinedRefs]
  simp only [result] at h ⊢
  rw [List.filter_eq_nil_iff]
  intro k hk
  simp [h k hk]

/-- With only the zero definitions of fix 5659807 (`ZeroMode.product`) the statement holds for
`NoAlignment` and `DalitzPlotDecomposition` (they sum over the observed projections) … -/
theorem C01_refs_defined_product (v : Variant) (hz : v.zeroDefs = .product) (r : Reaction) (cfg : Config)
    (hal : cfg.align ≠ .axis) :
    ∀ k ∈ (result v r cfg).refs, dictHas k (result v r cfg).defs = true := by
  intro k hk
  simp only [result, zeroDefsOf, hz] at hk ⊢
  apply addMissing_has
  cases hc : cfg.align with
  | none => simpa [refs, hc] using hk
  | axis => exact absurd hc hal
  | dpd ref => simpa [refs, hc] using hk

/-! ## Parameter xor kinematic variable -/

/-- the full statement, for all three alignments (proved below as `C01_xor`) -/
def C01_xor_statement : Prop :=
  ∀ (v : Variant), v.sound → ∀ (r : Reaction) (cfg : Config),
    (∀ t ∈ registeredTopos v r cfg, t.wf = true) → errorOf v r cfg = none →
    ∀ s ∈ freeSyms v r cfg,
      (s ∈ params v r cfg ∧ s ∉ kinvars v r cfg) ∨ (s ∉ params v r cfg ∧ s ∈ kinvars v r cfg)

/-- **C01 (NoAlignment).** When the topologies of the combinatorics chains are registered (fix 2671c82)
every free symbol of `model.expression` is in exactly one of `parameter_defaults` /
`kinematic_variables` — for every reaction over well-formed isobar trees, every stable-id set,
scalar-initial-mass flag, coupling / naming flags and every dynamics assignment. The proof goes through
the name classes (`C_{ H_{ m_{ \Gamma_{ d_{ c_{` vs `phi_ theta_ m_<digit>`), which are disjoint for ANY
particle names (the braces make the hypothesis "names are not digit strings" unnecessary). -/
theorem C01_xor_partial (v : Variant) (hreg : v.regCombTopos = true) (r : Reaction) (cfg : Config)
    (hal : cfg.align = .none) (hwf : ∀ t ∈ registeredTopos v r cfg, t.wf = true) :
    ∀ s ∈ freeSyms v r cfg,
      (s ∈ params v r cfg ∧ s ∉ kinvars v r cfg) ∨ (s ∉ params v r cfg ∧ s ∈ kinvars v r cfg) := by
  intro s hs
  have hP := chainParams_class v r cfg
  have hK := adapterKeys_class v r cfg hwf
  -- shape of the three dictionaries without alignment
  have hpar : params v r cfg = (transOuts v r cfg).flatMap TOut.params ++ movedMasses r cfg := by
    simp [params, result, hal, alignParams]
  have hkin : kinvars v r cfg = (adapterKeys v r cfg).filter (fun k => k ∉ movedMasses r cfg) := by
    simp [kinvars, kinvarsDeps, result, hal, List.map_map, Function.comp_def]
  -- where the symbol comes from
  simp only [freeSyms, result, hal, List.append_nil, List.mem_flatMap] at hs
  obtain ⟨k, _, hs⟩ := hs
  split at hs
  case h_2 => cases hs
  rename_i a ha
  have hreg' : dictGet? k (registeredOf v r (transOuts v r cfg)) = some a := by
    unfold zeroDefsOf at ha
    split at ha
    · exact ha
    · rcases addMissing_get _ _ _ _ ha with h | h
      · exact h
      · rw [h] at hs; cases hs
    · rcases addMissing_get _ _ _ _ ha with h | h
      · exact h
      · rw [h] at hs; cases hs
  obtain ⟨o, ho, hso⟩ := registeredOf_freeFrom v r _ k a hreg' s hs
  obtain ⟨t, ht, hot⟩ := transOuts_mem v r cfg o ho
  have ht1 : o.1 = t := by rw [hot]
  rw [hpar, hkin]
  rcases tout_free_class v r cfg o ho s hso with hp | ⟨ch, hch, ni, hni, hk⟩
  · -- a parameter of some chain
    left
    have hsP : s ∈ (transOuts v r cfg).flatMap TOut.params := by
      simp only [List.mem_flatMap]; exact ⟨_, ho, hp⟩
    refine ⟨List.mem_append_left _ hsP, ?_⟩
    intro hc
    have := hK s (List.mem_filter.1 hc).1
    exact classes_disjoint s ⟨hP s hsP, this⟩
  · -- a kinematic symbol of a node of a chain
    have htree : r.tree ch.topo ∈ registeredTopos v r cfg := by
      simp only [registeredTopos, hreg, if_true, mem_dedup, List.mem_append, List.mem_map, List.mem_flatMap]
      right; exact ⟨t, ht, ch, ht1 ▸ hch, rfl⟩
    have hsA : s ∈ adapterKeys v r cfg := by
      simp only [adapterKeys, List.mem_flatMap]
      exact ⟨_, htree, kinSyms_registered _ (hwf _ htree) ni hni s hk⟩
    by_cases hm : s ∈ movedMasses r cfg
    · left
      refine ⟨List.mem_append_right _ hm, ?_⟩
      intro hc
      have := (List.mem_filter.1 hc).2
      simp [hm] at this
    · right
      refine ⟨?_, ?_⟩
      · intro hc
        rcases List.mem_append.1 hc with hc | hc
        · exact classes_disjoint s ⟨hP s hc, hK s hsA⟩
        · exact hm hc
      · exact List.mem_filter.2 ⟨hsA, by simp [hm]⟩

/-- **C01 (all alignments).** For the sound variant, every reaction over well-formed isobar trees and every
configuration on which `formulate()` succeeds (NoAlignment, AxisAngleAlignment, DalitzPlotDecomposition with
any reference subsystem; any stable ids, scalar initial mass, couplings, naming flags, dynamics by name, permuted
topologies): every free symbol of `model.expression` is a key of exactly one of `parameter_defaults` /
`kinematic_variables`. -/
theorem C01_xor : C01_xor_statement := by
  intro v hsound r cfg hwf herr s hs
  have hreg : v.regCombTopos = true := hsound.2
  have hP := chainParams_class v r cfg
  have hA := adapterKeys_class v r cfg hwf
  cases hal : cfg.align with
  | none => exact C01_xor_partial v hreg r cfg hal hwf s hs
  | axis =>
    have hpar : params v r cfg = (transOuts v r cfg).flatMap TOut.params ++ movedMasses r cfg ++ [] := by
      simp [params, result, hal, alignParams]
    have hkin : kinvars v r cfg = (adapterKeys v r cfg).filter (fun k => k ∉ movedMasses r cfg) ++ axisKeys r := by
      simp [kinvars, kinvarsDeps, result, hal, List.map_map, Function.comp_def]
    rw [hpar, hkin]
    apply xor_abstract _ _ _ _ _ s hP hA (axisKeys_isKin r)
    · intro k hk hc
      obtain ⟨rest, h1⟩ := moved_first r cfg k hk
      obtain ⟨c, rest', h2, h3⟩ := axisKeys_first r k hc
      rw [h1] at h2
      have := (List.cons.inj h2).1
      rcases h3 with h3 | h3 | h3 <;> omega
    · intro k hk; cases hk
    · simp only [freeSyms, result, hal, List.mem_append] at hs
      rcases hs with hs | hs
      · rcases free_amps_class v hreg r cfg hwf _ s hs with h | h
        · left; exact h
        · right; left; exact h
      · rcases axisFree_class v r cfg hwf s hs with h | h
        · right; left; exact h
        · right; right; exact h
  | dpd ref =>
    obtain ⟨houter, href, hstable⟩ := dpd_ok_of_noerror v r cfg herr ref hal
    have hshape := dpdZetas_shape r ref href
    -- names of the pieces
    let present := (adapterKeys v r cfg).filter (fun k => k ∉ movedMasses r cfg)
    let zetas := dpdZetas r ref
    let remaining := dpdRemaining present zetas
    have hpar : params v r cfg = (transOuts v r cfg).flatMap TOut.params ++ movedMasses r cfg
        ++ dpdParamMasses cfg remaining := by
      simp [params, result, hal, alignParams, present, zetas, remaining]
    have hkin : kinvars v r cfg = present ++ (dpdReadded cfg remaining ++ zetas.map (·.1)) := by
      simp [kinvars, kinvarsDeps, result, hal, List.map_map, Function.comp_def, present, zetas, remaining,
        List.append_assoc]
    have hrem : ∀ k ∈ remaining, k ∉ present ∧ ∃ z ∈ zetas, k ∈ z.2 := by
      intro k hk
      simp only [remaining, dpdRemaining, mem_dedup, List.mem_filter, List.mem_flatMap] at hk
      obtain ⟨⟨z, hz, hkz⟩, hnp⟩ := hk
      exact ⟨by simpa using hnp, z, hz, hkz⟩
    rw [hpar, hkin]
    apply xor_abstract _ _ _ _ _ s hP hA
    · -- extra keys are in the kinematic-variable name class
      intro k hk
      rcases List.mem_append.1 hk with hk | hk
      · obtain ⟨_, z, hz, hkz⟩ := hrem k (List.mem_filter.1 hk).1
        exact ((hshape z hz).2.2 k hkz).1
      · simp only [List.mem_map] at hk
        obtain ⟨z, hz, rfl⟩ := hk
        exact (hshape z hz).2.1
    · -- moved masses are neither re-added nor zeta names
      intro k hk hc
      rcases List.mem_append.1 hc with hc | hc
      · have hkeep := (List.mem_filter.1 hc).2
        obtain ⟨_, z, hz, hkz⟩ := hrem k (List.mem_filter.1 hc).1
        simp only [movedMasses, List.mem_append] at hk
        rcases hk with hk | hk
        · -- a stable final-state mass m_1, m_2 or m_3
          have hne : k ≠ mN 0 := by
            simp only [stableMasses] at hk
            split at hk
            · cases hk
            · rename_i ids hids
              simp only [List.mem_map] at hk
              obtain ⟨i, hi, rfl⟩ := hk
              exact mN_cases_ne_moved_stable i (hstable ids hids i hi)
          simp [hne, hk] at hkeep
        · -- the scalar initial mass m_123
          have h123 : k = n!"m_123" := by
            simp only [scalarMass] at hk
            split at hk
            · split at hk
              · cases hk
              · rename_i t0 rest htr
                have hfin : finalIds r t0 = [1, 2, 3] := by
                  simp only [outerIds, htr] at houter
                  exact (List.cons.inj houter).2
                simp only [List.mem_singleton, hfin] at hk
                rw [hk]; decide
            · cases hk
          exact ((hshape z hz).2.2 k hkz).2.1 h123
      · simp only [List.mem_map] at hc
        obtain ⟨z, hz, rfl⟩ := hc
        obtain ⟨rest, h1⟩ := moved_first r cfg _ hk
        obtain ⟨rest', h2⟩ := (hshape z hz).1
        rw [h1] at h2
        have := (List.cons.inj h2).1
        omega
    · -- the scalar m_0 (parameter) is neither a registered / re-added variable nor a zeta name
      intro k hk
      simp only [dpdParamMasses, List.mem_filter, Bool.and_eq_true, decide_eq_true_eq] at hk
      obtain ⟨hkr, hk0, hsc⟩ := hk
      refine ⟨(hrem k hkr).1, ?_⟩
      intro hc
      rcases List.mem_append.1 hc with hc | hc
      · have hkeep := (List.mem_filter.1 hc).2
        simp [hk0, hsc] at hkeep
      · simp only [List.mem_map] at hc
        obtain ⟨z, hz, hzk⟩ := hc
        obtain ⟨rest', h2⟩ := (hshape z hz).1
        rw [hzk, hk0] at h2
        simp [mN, natName, natDigitsF] at h2
    · simp only [freeSyms, result, hal, List.mem_append] at hs
      rcases hs with hs | hs
      · rcases free_amps_class v hreg r cfg hwf _ s hs with h | h
        · left; exact h
        · right; left; exact h
      · right; right
        exact List.mem_append_right _ hs

/-! ## Kinematic variables are closed over four-momenta and parameters -/

/-- every non-four-momentum symbol that the definition of a kinematic variable mentions is a parameter
(all three alignments; for DPD these are the stable final-state masses and the scalar initial mass that
survive the back-substitution loop of `formulate`) -/
theorem C01_kin_closed (v : Variant) (r : Reaction) (cfg : Config) :
    ∀ kd ∈ kinvarsDeps v r cfg, ∀ m ∈ kd.2, m ∈ params v r cfg := by
  intro kd hkd m hm
  simp only [kinvarsDeps, params, result] at hkd ⊢
  cases hal : cfg.align with
  | none =>
    simp only [hal, List.mem_map] at hkd
    obtain ⟨_, _, rfl⟩ := hkd
    cases hm
  | axis =>
    simp only [hal, List.mem_append, List.mem_map] at hkd
    rcases hkd with ⟨_, _, rfl⟩ | ⟨_, _, rfl⟩ <;> cases hm
  | dpd ref =>
    simp only [hal, List.mem_append, List.mem_map] at hkd
    rcases hkd with (⟨_, _, rfl⟩ | ⟨_, _, rfl⟩) | ⟨z, hz, rfl⟩
    · cases hm
    · cases hm
    · -- a mass of a zeta expression that is neither registered nor re-added
      simp only [zetaDeps, List.mem_filter, Bool.and_eq_true, Bool.not_eq_true', decide_eq_true_eq] at hm
      obtain ⟨hmz, hnot, hkeep⟩ := hm
      simp only [List.mem_append, alignParams, dpdParamMasses, hal]
      by_cases h0 : m = mN 0
      · right
        simp only [h0, if_true, Bool.not_eq_false'] at hkeep
        simp only [List.mem_filter, dpdRemaining, mem_dedup, List.mem_flatMap]
        refine ⟨⟨⟨z, hz, hmz⟩, ?_⟩, by simp [h0, hkeep]⟩
        simp only [decide_eq_true_eq]
        simpa using hnot
      · left; right
        simp only [h0, if_false, Bool.not_eq_false', decide_eq_true_eq] at hkeep
        simp only [movedMasses, List.mem_append]
        left
        exact hkeep

/-! ## Contract of the dynamics builders -/

/-- every library builder (and the custom builder of the harness) only mentions its own parameters —
which are in the parameter name class — and symbols of the variable set of its own node -/
theorem C01_builder_contract (k : Kind) (p : Particle) (vs : VarSet) :
    (∀ n ∈ k.params p, isParamName n = true) ∧
    (∀ s ∈ k.vars vs, s ∈ [vs.inv, vs.m1, vs.m2, vs.phi, vs.theta]) :=
  ⟨kind_params_class k p, kind_vars_contract k vs⟩

/-- the two name classes are disjoint, whatever the particle names are -/
theorem C01_classes_disjoint (n : Name) : ¬ (isParamName n = true ∧ isKinName n = true) :=
  classes_disjoint n

/-! ## Witnesses for the unsound variants (replayable on the real code) -/

open Examples

/-- before fix 5659807 (no zero definitions): eta_c -> Lambda Lambda~ has amplitude symbols without definition -/
theorem C01_witness_missing :
    ¬ (∀ k ∈ (result ⟨.none, true, true, true⟩ etaC cfgDefault).refs,
        dictHas k (result ⟨.none, true, true, true⟩ etaC cfgDefault).defs = true) := by
  decide

/-- the undefined symbols are exactly A[0,-1/2,+1/2] and A[0,+1/2,-1/2] -/
theorem C01_witness_missing_which :
    undefinedRefs ⟨.none, true, true, true⟩ etaC cfgDefault = [(n!"A^", [0, -1, 1]), (n!"A^", [0, 1, -1])] := by
  decide

/-- before fix e6c0bd9 (zero definitions only for the observed product): AxisAngleAlignment on
J/psi -> gamma pi0 pi0 with the photon helicity restricted to -1 refers to undefined amplitudes -/
theorem C01_witness_axis_partial :
    ¬ (∀ k ∈ (result ⟨.product, true, true, true⟩ jpsiPartial cfgAxis).refs,
        dictHas k (result ⟨.product, true, true, true⟩ jpsiPartial cfgAxis).defs = true) := by
  decide

/-- before fix 2671c82 (combinatorics topologies not registered): J/psi -> pi0 pi0 gamma via omega has free
symbols that are neither parameter nor kinematic variable -/
theorem C01_witness_unregistered :
    ¬ (∀ s ∈ freeSyms ⟨.refs, false, true, true⟩ omega cfgDefault,
        (s ∈ params ⟨.refs, false, true, true⟩ omega cfgDefault ∧ s ∉ kinvars ⟨.refs, false, true, true⟩ omega cfgDefault)
        ∨ (s ∉ params ⟨.refs, false, true, true⟩ omega cfgDefault ∧ s ∈ kinvars ⟨.refs, false, true, true⟩ omega cfgDefault)) := by
  decide

/-! ## Non-vacuity -/

/-- the hypotheses of `C01_xor_partial` hold on the omega reaction (two chains, two topologies, a
Breit-Wigner on the resonance, stable final states, scalar initial mass) and its conclusion is about
a non-empty symbol set -/
example : (∀ t ∈ registeredTopos vSound omega cfgRich, t.wf = true) := by decide
example : (freeSyms vSound omega cfgRich).length ≠ 0 ∧ (params vSound omega cfgRich).length ≠ 0
    ∧ (kinvars vSound omega cfgRich).length ≠ 0 := by decide
example := C01_xor_partial vSound rfl omega cfgRich rfl (by decide)
/-- with the sound variant the eta_c witness has all four amplitude symbols defined, two of them as zero -/
example : ((result vSound etaC cfgDefault).defs.filter (fun kv => kv.2.zero)).length = 2
    ∧ (result vSound etaC cfgDefault).refs.length = 4 := by decide
/-- the axis-angle witness is repaired by the sound variant -/
example : undefinedRefs vSound jpsiPartial cfgAxis = [] := C01_no_undefined vSound rfl _ _
/-- the hypotheses of the full theorem hold on a DPD configuration with stable masses and scalar initial mass -/
example : vSound.sound ∧ (∀ t ∈ registeredTopos vSound dpdR cfgDpd, t.wf = true) ∧ errorOf vSound dpdR cfgDpd = none
    ∧ (freeSyms vSound dpdR cfgDpd).length ≠ 0 := by decide
/-- … and on the axis-angle witness reaction -/
example : (∀ t ∈ registeredTopos vSound jpsiPartial cfgAxis, t.wf = true) ∧ errorOf vSound jpsiPartial cfgAxis = none := by
  decide
/-- DPD: a kinematic variable that depends on parameters exists (so `C01_kin_closed` is not vacuous) -/
example : ∃ kd ∈ kinvarsDeps vSound dpdR cfgDpd, kd.2 ≠ [] := by decide

end Ampverif.Props.C01
