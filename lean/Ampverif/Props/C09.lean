/-
C09 — K-matrix amplitudes are unitary and symmetric for real parameters.

Part A: theorems for EVERY number of channels and poles (abstract matrices, Mathlib).
Part B: the entries that `dynamics/kmatrix.py` really computes for n = 1, 2 channels
        (`Ampverif.Gen.C09.*`, REGENERATED from the working tree on every run) are the abstract
        `K (1 − iK)⁻¹` resp. `√ρ K̂ (1 − iρK̂)⁻¹ √ρ`, hence unitary and symmetric.
        (n = 3: `Ampverif.Props.C09N3`, thorough tier.)
Part C: the regenerated pole parametrisations are symmetric, real under the stated sign
        conditions, and instances of the all-poles formula.
Part D: the regenerated results of `formulate(n_channels, n_poles)` are the composition of B and C
        and therefore unitary and symmetric — for the relativistic K-matrix under the guard that
        the phase-space factors at the pole masses are real and positive (poles above thresholds).
Part E: kernel-checked witness that the guard is needed (known finding).

Lean's `x⁻¹` is total (`0⁻¹ = 0`); at `s = m_R²` the statements are about that convention, the
property itself only speaks about `s` away from the poles.
-/
import Ampverif.Gen.C09
import Ampverif.Lemmas.C09Cayley
import Ampverif.Lemmas.C09Real
import Ampverif.Lemmas.C09Entries
import Mathlib.Tactic.Positivity

set_option linter.unusedVariables false
set_option linter.unusedSectionVars false
set_option linter.unusedTactic false
set_option linter.unreachableTactic false

namespace Ampverif.Props.C09
open Ampverif.Gen.C09 Ampverif.Lemmas.C09 Matrix

/-! ## Part A — every number of channels, every number of poles -/

section AllN
variable {n : Type*} [Fintype n] [DecidableEq n]

/-- **Unitarity, all n.** `K` Hermitian (in particular real symmetric) ⇒ `S = 1 + 2iK(1−iK)⁻¹`
satisfies `S†S = 1`. Invertibility of `1 − iK` is proved, not assumed. -/
theorem unitary_all_n (K : Matrix n n ℂ) (hK : K.IsHermitian) : (S K)ᴴ * S K = 1 :=
  S_unitary hK

/-- **Symmetry, all n.** `K` real symmetric ⇒ `T = K(1−iK)⁻¹` is symmetric. -/
theorem symmetric_all_n (K : Matrix n n ℂ) (hK : K.IsHermitian) (hs : Kᵀ = K) :
    (T K)ᵀ = T K :=
  T_symm_of_isUnit hs (isUnit_det_D hK)

/-- **All n, all pole sets.** With the pole parametrisation `K_ij = Σ_R g_Ri g_Rj/(m_R² − s)`
and real `g, m, s`, the T-matrix is unitary and symmetric. -/
theorem pole_unitary_symmetric_all_n_all_poles {ι : Type*} (poles : Finset ι) (g : ι → n → ℝ)
    (m : ι → ℝ) (s : ℝ) :
    (S (poleKMatrix poles g m s))ᴴ * S (poleKMatrix poles g m s) = 1
      ∧ (T (poleKMatrix poles g m s))ᵀ = T (poleKMatrix poles g m s) := by
  have hH := isHermitian_of_real_symm (poleK poles g m s) (poleK_symm poles g m s)
  have hT := transpose_of_real_symm (poleK poles g m s) (poleK_symm poles g m s)
  exact ⟨S_unitary hH, T_symm_of_isUnit hT (isUnit_det_D hH)⟩

/-- **Relativistic form, all n.** `ρ = diag(r)` with `r_i > 0`, `K̂` Hermitian ⇒
`T = √ρ K̂ (1 − iρK̂)⁻¹ √ρ` gives a unitary `S = 1 + 2iT`; and `T` is symmetric if `K̂` is. -/
theorem rel_unitary_all_n (r : n → ℝ) (hr : ∀ i, 0 < r i) (Kh : Matrix n n ℂ)
    (hK : Kh.IsHermitian) :
    (1 + (2 * Complex.I) • Trel r Kh)ᴴ * (1 + (2 * Complex.I) • Trel r Kh) = 1 :=
  Srel_unitary r hr hK

theorem rel_symmetric_all_n (r : n → ℝ) (hr : ∀ i, 0 < r i) (Kh : Matrix n n ℂ)
    (hK : Kh.IsHermitian) (hs : Khᵀ = Kh) : (Trel r Kh)ᵀ = Trel r Kh :=
  Trel_symm r hr hK hs

/-- The relativistic T-matrix is the non-relativistic one of `K' = √ρ K̂ √ρ`. -/
theorem rel_reduction_all_n (r : n → ℝ) (hr : ∀ i, 0 < r i) (Kh : Matrix n n ℂ)
    (hK : Kh.IsHermitian) : Trel r Kh = T (sqrtDiag r * Kh * sqrtDiag r) :=
  Trel_eq r hr hK

theorem rel_pole_unitary_symmetric_all_n_all_poles {ι : Type*} (poles : Finset ι)
    (g : ι → n → ℝ) (m : ι → ℝ) (s : ℝ) (r : n → ℝ) (hr : ∀ i, 0 < r i) :
    (1 + (2 * Complex.I) • Trel r (poleKMatrix poles g m s))ᴴ
        * (1 + (2 * Complex.I) • Trel r (poleKMatrix poles g m s)) = 1
      ∧ (Trel r (poleKMatrix poles g m s))ᵀ = Trel r (poleKMatrix poles g m s) := by
  have hH := isHermitian_of_real_symm (poleK poles g m s) (poleK_symm poles g m s)
  have hT := transpose_of_real_symm (poleK poles g m s) (poleK_symm poles g m s)
  exact ⟨Srel_unitary r hr hH, Trel_symm r hr hH hT⟩

end AllN

/-! ## Part B — the regenerated matrix entries for n = 1, 2 -/

/-- n = 1, non-relativistic: the regenerated entry solves `E (1 − iK) = K`. -/
theorem nrT1_solves (a : ℂ) (h : nrT1_den1 a ≠ 0) :
    nrT1_00 a * (1 - Complex.I * a) = a := by
  simp only [nrT1_00]
  field_simp
  simp only [nrT1_den1]
  ipow

/-- n = 2, non-relativistic: the regenerated entries solve `E (1 − iK) = K` wherever the
denominators of the symbolic inverse do not vanish (a polynomial identity modulo `i² = −1`). -/
theorem nrT2_solves (a b c d : ℂ) (h1 : nrT2_den1 a b c d ≠ 0) (h2 : nrT2_den2 a b c d ≠ 0) :
    (nrT2_00 a b c d * (1 - Complex.I * a) + nrT2_01 a b c d * (-(Complex.I * c)) = a) ∧
    (nrT2_00 a b c d * (-(Complex.I * b)) + nrT2_01 a b c d * (1 - Complex.I * d) = b) ∧
    (nrT2_10 a b c d * (1 - Complex.I * a) + nrT2_11 a b c d * (-(Complex.I * c)) = c) ∧
    (nrT2_10 a b c d * (-(Complex.I * b)) + nrT2_11 a b c d * (1 - Complex.I * d) = d) := by
  refine ⟨?_, ?_, ?_, ?_⟩ <;>
  · simp only [nrT2_00, nrT2_01, nrT2_10, nrT2_11]
    field_simp
    simp only [nrT2_den1, nrT2_den2]
    ipow

/-- The denominators of the regenerated n = 2 entries are `± det(1 − iK)`. -/
theorem nrT2_dens_ne (K : Matrix (Fin 2) (Fin 2) ℂ) (h : (D K).det ≠ 0) :
    nrT2_den1 (K 0 0) (K 0 1) (K 1 0) (K 1 1) ≠ 0
      ∧ nrT2_den2 (K 0 0) (K 0 1) (K 1 0) (K 1 1) ≠ 0 := by
  rw [det_D2] at h
  constructor <;> intro e <;> apply h <;> simp only [nrT2_den1, nrT2_den2] at e <;>
    first | linear_combination e | linear_combination -e

theorem nrT1_den_ne (K : Matrix (Fin 1) (Fin 1) ℂ) (h : (D K).det ≠ 0) :
    nrT1_den1 (K 0 0) ≠ 0 := by
  rw [det_D1] at h
  intro e; apply h; simp only [nrT1_den1] at e
  have : Complex.I * (1 - Complex.I * K 0 0) = 0 := by
    have h2 : Complex.I * (1 - Complex.I * K 0 0) = Complex.I + K 0 0 := by ipow
    rw [h2]; linear_combination e
  exact (mul_eq_zero.1 this).resolve_left Complex.I_ne_zero

/-- The regenerated n = 1 T-matrix as a matrix-valued function of `K`. -/
noncomputable def nrT1M (K : Matrix (Fin 1) (Fin 1) ℂ) : Matrix (Fin 1) (Fin 1) ℂ :=
  !![nrT1_00 (K 0 0)]

/-- The regenerated n = 2 T-matrix as a matrix-valued function of `K`. -/
noncomputable def nrT2M (K : Matrix (Fin 2) (Fin 2) ℂ) : Matrix (Fin 2) (Fin 2) ℂ :=
  !![nrT2_00 (K 0 0) (K 0 1) (K 1 0) (K 1 1), nrT2_01 (K 0 0) (K 0 1) (K 1 0) (K 1 1);
     nrT2_10 (K 0 0) (K 0 1) (K 1 0) (K 1 1), nrT2_11 (K 0 0) (K 0 1) (K 1 0) (K 1 1)]

/-- The source's n = 1 entry IS the abstract `K(1−iK)⁻¹` wherever `det(1−iK) ≠ 0`. -/
theorem nrT1M_eq_T (K : Matrix (Fin 1) (Fin 1) ℂ) (h : (D K).det ≠ 0) : nrT1M K = T K := by
  apply eq_T_of_mul_D (isUnit_iff_ne_zero.2 h)
  have e := nrT1_solves _ (nrT1_den_ne K h)
  ext i j
  fin_cases i; fin_cases j
  simp [nrT1M, D, Matrix.mul_apply]
  linear_combination e

/-- The source's n = 2 entries ARE the abstract `K(1−iK)⁻¹` wherever `det(1−iK) ≠ 0`. -/
theorem nrT2M_eq_T (K : Matrix (Fin 2) (Fin 2) ℂ) (h : (D K).det ≠ 0) : nrT2M K = T K := by
  apply eq_T_of_mul_D (isUnit_iff_ne_zero.2 h)
  obtain ⟨h1, h2⟩ := nrT2_dens_ne K h
  obtain ⟨e00, e01, e10, e11⟩ := nrT2_solves _ _ _ _ h1 h2
  ext i j
  fin_cases i <;> fin_cases j <;> simp [nrT2M, D, Matrix.mul_apply, Fin.sum_univ_two]
  · linear_combination e00
  · linear_combination e01
  · linear_combination e10
  · linear_combination e11

/-- n = 1, 2: the regenerated non-relativistic T-matrix of a Hermitian `K` is unitary and, for
symmetric `K`, symmetric. -/
theorem nrT1M_unitary_symmetric (K : Matrix (Fin 1) (Fin 1) ℂ) (hK : K.IsHermitian) :
    (1 + (2 * Complex.I) • nrT1M K)ᴴ * (1 + (2 * Complex.I) • nrT1M K) = 1
      ∧ (nrT1M K)ᵀ = nrT1M K := by
  have hd := isUnit_det_D hK
  rw [nrT1M_eq_T K (isUnit_iff_ne_zero.1 hd)]
  refine ⟨S_unitary hK, ?_⟩
  ext i j; fin_cases i; fin_cases j; rfl

theorem nrT2M_unitary_symmetric (K : Matrix (Fin 2) (Fin 2) ℂ) (hK : K.IsHermitian)
    (hs : Kᵀ = K) :
    (1 + (2 * Complex.I) • nrT2M K)ᴴ * (1 + (2 * Complex.I) • nrT2M K) = 1
      ∧ (nrT2M K)ᵀ = nrT2M K := by
  have hd := isUnit_det_D hK
  rw [nrT2M_eq_T K (isUnit_iff_ne_zero.1 hd)]
  exact ⟨S_unitary hK, T_symm_of_isUnit hs hd⟩

/-! ### relativistic entries -/

/-- n = 1: `T̂ (1 − iρK̂) = K̂`. -/
theorem relTh1_solves (ρ a : ℂ) (h : relT1_den1 ρ a ≠ 0) :
    relTh1_00 ρ a * (1 - Complex.I * ρ * a) = a := by
  simp only [relTh1_00]
  field_simp
  simp only [relT1_den1]
  ipow

/-- n = 2: `T̂ (1 − iρK̂) = K̂` for the regenerated entries. -/
theorem relTh2_solves (ρ0 ρ1 a b c d : ℂ) (h1 : relT2_den1 ρ0 ρ1 a b c d ≠ 0) :
    (relTh2_00 ρ0 ρ1 a b c d * (1 - Complex.I * ρ0 * a)
        + relTh2_01 ρ0 ρ1 a b c d * (-(Complex.I * ρ1 * c)) = a) ∧
    (relTh2_00 ρ0 ρ1 a b c d * (-(Complex.I * ρ0 * b))
        + relTh2_01 ρ0 ρ1 a b c d * (1 - Complex.I * ρ1 * d) = b) ∧
    (relTh2_10 ρ0 ρ1 a b c d * (1 - Complex.I * ρ0 * a)
        + relTh2_11 ρ0 ρ1 a b c d * (-(Complex.I * ρ1 * c)) = c) ∧
    (relTh2_10 ρ0 ρ1 a b c d * (-(Complex.I * ρ0 * b))
        + relTh2_11 ρ0 ρ1 a b c d * (1 - Complex.I * ρ1 * d) = d) := by
  refine ⟨?_, ?_, ?_, ?_⟩ <;>
  · simp only [relTh2_00, relTh2_01, relTh2_10, relTh2_11]
    field_simp
    simp only [relT2_den1]
    ipow

/-- `T = (√ρ)* T̂ √ρ` entry by entry (any complex `ρ`). -/
theorem relT1_eq (ρ a : ℂ) :
    relT1_00 ρ a
      = (starRingEnd ℂ) (ρ ^ ((1 : ℂ) / 2)) * relTh1_00 ρ a * ρ ^ ((1 : ℂ) / 2) := by
  simp only [relT1_00, relTh1_00]; ring

theorem relT2_eq (ρ0 ρ1 a b c d : ℂ) :
    relT2_00 ρ0 ρ1 a b c d
        = (starRingEnd ℂ) (ρ0 ^ ((1 : ℂ) / 2)) * relTh2_00 ρ0 ρ1 a b c d * ρ0 ^ ((1 : ℂ) / 2) ∧
    relT2_01 ρ0 ρ1 a b c d
        = (starRingEnd ℂ) (ρ0 ^ ((1 : ℂ) / 2)) * relTh2_01 ρ0 ρ1 a b c d * ρ1 ^ ((1 : ℂ) / 2) ∧
    relT2_10 ρ0 ρ1 a b c d
        = (starRingEnd ℂ) (ρ1 ^ ((1 : ℂ) / 2)) * relTh2_10 ρ0 ρ1 a b c d * ρ0 ^ ((1 : ℂ) / 2) ∧
    relT2_11 ρ0 ρ1 a b c d
        = (starRingEnd ℂ) (ρ1 ^ ((1 : ℂ) / 2)) * relTh2_11 ρ0 ρ1 a b c d * ρ1 ^ ((1 : ℂ) / 2) := by
  refine ⟨?_, ?_, ?_, ?_⟩ <;>
  · simp only [relT2_00, relT2_01, relT2_10, relT2_11, relTh2_00, relTh2_01, relTh2_10, relTh2_11]
    ring

noncomputable def relTh1M (ρ : Fin 1 → ℂ) (K : Matrix (Fin 1) (Fin 1) ℂ) :
    Matrix (Fin 1) (Fin 1) ℂ := !![relTh1_00 (ρ 0) (K 0 0)]

noncomputable def relT1M (ρ : Fin 1 → ℂ) (K : Matrix (Fin 1) (Fin 1) ℂ) :
    Matrix (Fin 1) (Fin 1) ℂ := !![relT1_00 (ρ 0) (K 0 0)]

noncomputable def relTh2M (ρ : Fin 2 → ℂ) (K : Matrix (Fin 2) (Fin 2) ℂ) :
    Matrix (Fin 2) (Fin 2) ℂ :=
  !![relTh2_00 (ρ 0) (ρ 1) (K 0 0) (K 0 1) (K 1 0) (K 1 1),
     relTh2_01 (ρ 0) (ρ 1) (K 0 0) (K 0 1) (K 1 0) (K 1 1);
     relTh2_10 (ρ 0) (ρ 1) (K 0 0) (K 0 1) (K 1 0) (K 1 1),
     relTh2_11 (ρ 0) (ρ 1) (K 0 0) (K 0 1) (K 1 0) (K 1 1)]

noncomputable def relT2M (ρ : Fin 2 → ℂ) (K : Matrix (Fin 2) (Fin 2) ℂ) :
    Matrix (Fin 2) (Fin 2) ℂ :=
  !![relT2_00 (ρ 0) (ρ 1) (K 0 0) (K 0 1) (K 1 0) (K 1 1),
     relT2_01 (ρ 0) (ρ 1) (K 0 0) (K 0 1) (K 1 0) (K 1 1);
     relT2_10 (ρ 0) (ρ 1) (K 0 0) (K 0 1) (K 1 0) (K 1 1),
     relT2_11 (ρ 0) (ρ 1) (K 0 0) (K 0 1) (K 1 0) (K 1 1)]

theorem relT1_den_ne (ρ : Fin 1 → ℂ) (K : Matrix (Fin 1) (Fin 1) ℂ)
    (h : (1 - Complex.I • (Matrix.diagonal ρ * K)).det ≠ 0) : relT1_den1 (ρ 0) (K 0 0) ≠ 0 := by
  rw [det_rel1] at h
  intro e; apply h; simp only [relT1_den1] at e
  have : Complex.I * (1 - Complex.I * ρ 0 * K 0 0) = 0 := by
    have h2 : Complex.I * (1 - Complex.I * ρ 0 * K 0 0) = Complex.I + ρ 0 * K 0 0 := by ipow
    rw [h2]; linear_combination e
  exact (mul_eq_zero.1 this).resolve_left Complex.I_ne_zero

theorem relT2_den_ne (ρ : Fin 2 → ℂ) (K : Matrix (Fin 2) (Fin 2) ℂ)
    (h : (1 - Complex.I • (Matrix.diagonal ρ * K)).det ≠ 0) :
    relT2_den1 (ρ 0) (ρ 1) (K 0 0) (K 0 1) (K 1 0) (K 1 1) ≠ 0 := by
  rw [det_rel2] at h
  intro e; apply h; simp only [relT2_den1] at e
  first | linear_combination e | linear_combination -e

/-- The source's `T̂` entries ARE `K̂(1 − iρK̂)⁻¹` wherever the determinant does not vanish. -/
theorem relTh1M_eq_That (ρ : Fin 1 → ℂ) (K : Matrix (Fin 1) (Fin 1) ℂ)
    (h : (1 - Complex.I • (Matrix.diagonal ρ * K)).det ≠ 0) :
    relTh1M ρ K = That (Matrix.diagonal ρ) K := by
  apply eq_That_of_mul (isUnit_iff_ne_zero.2 h)
  have e := relTh1_solves _ _ (relT1_den_ne ρ K h)
  ext i j
  fin_cases i; fin_cases j
  simp [relTh1M, Matrix.mul_apply]
  linear_combination e

theorem relTh2M_eq_That (ρ : Fin 2 → ℂ) (K : Matrix (Fin 2) (Fin 2) ℂ)
    (h : (1 - Complex.I • (Matrix.diagonal ρ * K)).det ≠ 0) :
    relTh2M ρ K = That (Matrix.diagonal ρ) K := by
  apply eq_That_of_mul (isUnit_iff_ne_zero.2 h)
  obtain ⟨e00, e01, e10, e11⟩ := relTh2_solves _ _ _ _ _ _ (relT2_den_ne ρ K h)
  ext i j
  fin_cases i <;> fin_cases j <;>
    simp [relTh2M, Matrix.mul_apply, Fin.sum_univ_two]
  · linear_combination e00
  · linear_combination e01
  · linear_combination e10
  · linear_combination e11

/-- For positive real phase-space factors and Hermitian `K̂`, the source's relativistic T-matrix
(n = 1, 2) IS the abstract `√ρ K̂ (1 − iρK̂)⁻¹ √ρ`. -/
theorem relT1M_eq_Trel (r : Fin 1 → ℝ) (hr : ∀ i, 0 < r i) (K : Matrix (Fin 1) (Fin 1) ℂ)
    (hK : K.IsHermitian) : relT1M (fun i => ((r i : ℝ) : ℂ)) K = Trel r K := by
  have hd := isUnit_det_rel r hr hK
  unfold Trel
  rw [← relTh1M_eq_That _ K (isUnit_iff_ne_zero.1 hd)]
  have s0 : ((r 0 : ℝ) : ℂ) ^ ((1 : ℂ) / 2) = ((Real.sqrt (r 0) : ℝ) : ℂ) := csqrt_ofReal (hr 0).le
  have e := relT1_eq ((r 0 : ℝ) : ℂ) (K 0 0)
  simp only [s0, Complex.conj_ofReal] at e
  ext i j
  fin_cases i; fin_cases j
  simp [relT1M, relTh1M, sqrtDiag, Matrix.mul_apply, e]
  try ring

theorem relT2M_eq_Trel (r : Fin 2 → ℝ) (hr : ∀ i, 0 < r i) (K : Matrix (Fin 2) (Fin 2) ℂ)
    (hK : K.IsHermitian) : relT2M (fun i => ((r i : ℝ) : ℂ)) K = Trel r K := by
  have hd := isUnit_det_rel r hr hK
  unfold Trel
  rw [← relTh2M_eq_That _ K (isUnit_iff_ne_zero.1 hd)]
  have s0 : ((r 0 : ℝ) : ℂ) ^ ((1 : ℂ) / 2) = ((Real.sqrt (r 0) : ℝ) : ℂ) := csqrt_ofReal (hr 0).le
  have s1 : ((r 1 : ℝ) : ℂ) ^ ((1 : ℂ) / 2) = ((Real.sqrt (r 1) : ℝ) : ℂ) := csqrt_ofReal (hr 1).le
  obtain ⟨e00, e01, e10, e11⟩ :=
    relT2_eq ((r 0 : ℝ) : ℂ) ((r 1 : ℝ) : ℂ) (K 0 0) (K 0 1) (K 1 0) (K 1 1)
  simp only [s0, s1, Complex.conj_ofReal] at e00 e01 e10 e11
  ext i j
  fin_cases i <;> fin_cases j <;>
    simp [relT2M, relTh2M, sqrtDiag, Matrix.mul_apply, Fin.sum_univ_two, e00, e01, e10, e11] <;>
    try ring

theorem relT1M_unitary_symmetric (r : Fin 1 → ℝ) (hr : ∀ i, 0 < r i)
    (K : Matrix (Fin 1) (Fin 1) ℂ) (hK : K.IsHermitian) :
    (1 + (2 * Complex.I) • relT1M (fun i => ((r i : ℝ) : ℂ)) K)ᴴ
        * (1 + (2 * Complex.I) • relT1M (fun i => ((r i : ℝ) : ℂ)) K) = 1
      ∧ (relT1M (fun i => ((r i : ℝ) : ℂ)) K)ᵀ = relT1M (fun i => ((r i : ℝ) : ℂ)) K := by
  rw [relT1M_eq_Trel r hr K hK]
  refine ⟨Srel_unitary r hr hK, ?_⟩
  ext i j; fin_cases i; fin_cases j; rfl

theorem relT2M_unitary_symmetric (r : Fin 2 → ℝ) (hr : ∀ i, 0 < r i)
    (K : Matrix (Fin 2) (Fin 2) ℂ) (hK : K.IsHermitian) (hs : Kᵀ = K) :
    (1 + (2 * Complex.I) • relT2M (fun i => ((r i : ℝ) : ℂ)) K)ᴴ
        * (1 + (2 * Complex.I) • relT2M (fun i => ((r i : ℝ) : ℂ)) K) = 1
      ∧ (relT2M (fun i => ((r i : ℝ) : ℂ)) K)ᵀ = relT2M (fun i => ((r i : ℝ) : ℂ)) K := by
  rw [relT2M_eq_Trel r hr K hK]
  exact ⟨Srel_unitary r hr hK, Trel_symm r hr hK hs⟩

/-! ## Parts C and D — parametrisations and `formulate(n_channels, n_poles)`

One section per (n_channels, n_poles) ∈ {1,2}², non-relativistic (`nr…`) and relativistic (`rel…`).
`K..` are the regenerated parametrisation entries, `F..` the regenerated entries of `formulate`,
`H..` those of `formulate(return_t_hat=True)`. In the relativistic sections the phase-space and
form factors are the leaves of the model: `rho{i}` = ρ_i(s), `rhoR_{R}_{i}` = ρ_i(m_R²),
`ff_{i}`, `ff0_{R}_{i}` the form factors at `s` and `m_R²`. -/

section NR11
variable (s m_1 Gamma_1_0 gamma_1_0 : ℝ)

local notation "K00" => nrK11_00 s m_1 Gamma_1_0 gamma_1_0
local notation "F00" => nrForm11_00 s m_1 Gamma_1_0 gamma_1_0

/-- `nrK11`: every entry is real for non-negative widths. -/
theorem nrK11_real (hGamma_1_0 : 0 ≤ Gamma_1_0) :
    IsRe K00 := by
  simp only [nrK11_00]; real_closure

/-- `formulate(1, 1)` is the symbolic matrix expression with the parametrisation substituted. -/
theorem nrForm11_eq :
    F00 = nrT1_00 K00 := by
  simp only [nrForm11_00, nrT1_00, nrT1_den1]; try ring

/-- **`formulate(1, 1)`, non-relativistic: unitary and symmetric** for real parameters. -/
theorem nrForm11_unitary_symmetric (hGamma_1_0 : 0 ≤ Gamma_1_0) :
    (1 + (2 * Complex.I) • (!![F00] : Matrix (Fin 1) (Fin 1) ℂ))ᴴ * (1 + (2 * Complex.I) • (!![F00] : Matrix (Fin 1) (Fin 1) ℂ)) = 1
      ∧ (!![F00] : Matrix (Fin 1) (Fin 1) ℂ)ᵀ = (!![F00] : Matrix (Fin 1) (Fin 1) ℂ) := by
  have r00 := nrK11_real s m_1 Gamma_1_0 gamma_1_0 hGamma_1_0
  obtain ⟨hH, hT⟩ := herm1 r00
  have e00 := nrForm11_eq s m_1 Gamma_1_0 gamma_1_0
  have hM : (!![F00] : Matrix (Fin 1) (Fin 1) ℂ) = nrT1M !![K00] := by
    rw [e00]; ext i j; fin_cases i; fin_cases j; simp [nrT1M]
  rw [hM]
  exact nrT1M_unitary_symmetric _ hH

end NR11

section NR12
variable (s m_1 m_2 Gamma_1_0 Gamma_2_0 gamma_1_0 gamma_2_0 : ℝ)

local notation "K00" => nrK12_00 s m_1 m_2 Gamma_1_0 Gamma_2_0 gamma_1_0 gamma_2_0
local notation "F00" => nrForm12_00 s m_1 m_2 Gamma_1_0 Gamma_2_0 gamma_1_0 gamma_2_0

/-- `nrK12`: every entry is real for non-negative widths. -/
theorem nrK12_real (hGamma_1_0 : 0 ≤ Gamma_1_0) (hGamma_2_0 : 0 ≤ Gamma_2_0) :
    IsRe K00 := by
  simp only [nrK12_00]; real_closure

/-- `formulate(1, 2)` is the symbolic matrix expression with the parametrisation substituted. -/
theorem nrForm12_eq :
    F00 = nrT1_00 K00 := by
  simp only [nrForm12_00, nrT1_00, nrT1_den1]; try ring

/-- **`formulate(1, 2)`, non-relativistic: unitary and symmetric** for real parameters. -/
theorem nrForm12_unitary_symmetric (hGamma_1_0 : 0 ≤ Gamma_1_0) (hGamma_2_0 : 0 ≤ Gamma_2_0) :
    (1 + (2 * Complex.I) • (!![F00] : Matrix (Fin 1) (Fin 1) ℂ))ᴴ * (1 + (2 * Complex.I) • (!![F00] : Matrix (Fin 1) (Fin 1) ℂ)) = 1
      ∧ (!![F00] : Matrix (Fin 1) (Fin 1) ℂ)ᵀ = (!![F00] : Matrix (Fin 1) (Fin 1) ℂ) := by
  have r00 := nrK12_real s m_1 m_2 Gamma_1_0 Gamma_2_0 gamma_1_0 gamma_2_0 hGamma_1_0 hGamma_2_0
  obtain ⟨hH, hT⟩ := herm1 r00
  have e00 := nrForm12_eq s m_1 m_2 Gamma_1_0 Gamma_2_0 gamma_1_0 gamma_2_0
  have hM : (!![F00] : Matrix (Fin 1) (Fin 1) ℂ) = nrT1M !![K00] := by
    rw [e00]; ext i j; fin_cases i; fin_cases j; simp [nrT1M]
  rw [hM]
  exact nrT1M_unitary_symmetric _ hH

end NR12

section NR21
variable (s m_1 Gamma_1_0 Gamma_1_1 gamma_1_0 gamma_1_1 : ℝ)

local notation "K00" => nrK21_00 s m_1 Gamma_1_0 Gamma_1_1 gamma_1_0 gamma_1_1
local notation "K01" => nrK21_01 s m_1 Gamma_1_0 Gamma_1_1 gamma_1_0 gamma_1_1
local notation "K10" => nrK21_10 s m_1 Gamma_1_0 Gamma_1_1 gamma_1_0 gamma_1_1
local notation "K11" => nrK21_11 s m_1 Gamma_1_0 Gamma_1_1 gamma_1_0 gamma_1_1
local notation "F00" => nrForm21_00 s m_1 Gamma_1_0 Gamma_1_1 gamma_1_0 gamma_1_1
local notation "F01" => nrForm21_01 s m_1 Gamma_1_0 Gamma_1_1 gamma_1_0 gamma_1_1
local notation "F10" => nrForm21_10 s m_1 Gamma_1_0 Gamma_1_1 gamma_1_0 gamma_1_1
local notation "F11" => nrForm21_11 s m_1 Gamma_1_0 Gamma_1_1 gamma_1_0 gamma_1_1

/-- `nrK21`: the regenerated parametrisation is symmetric in the channel indices. -/
theorem nrK21_symm : K01 = K10 := by
  simp only [nrK21_01, nrK21_10]; try ring

/-- `nrK21`: every entry is real for non-negative widths. -/
theorem nrK21_real (hGamma_1_0 : 0 ≤ Gamma_1_0) (hGamma_1_1 : 0 ≤ Gamma_1_1) :
    IsRe K00 ∧ IsRe K01 ∧ IsRe K10 ∧ IsRe K11 := by
  refine ⟨?_, ?_, ?_, ?_⟩ <;> simp only [nrK21_00, nrK21_01, nrK21_10, nrK21_11] <;> real_closure

/-- `formulate(2, 1)` is the symbolic matrix expression with the parametrisation substituted. -/
theorem nrForm21_eq :
    F00 = nrT2_00 K00 K01 K10 K11 ∧ F01 = nrT2_01 K00 K01 K10 K11 ∧ F10 = nrT2_10 K00 K01 K10 K11 ∧ F11 = nrT2_11 K00 K01 K10 K11 := by
  have hs := nrK21_symm s m_1 Gamma_1_0 Gamma_1_1 gamma_1_0 gamma_1_1
  refine ⟨?_, ?_, ?_, ?_⟩ <;>
  · simp only [nrForm21_00, nrForm21_01, nrForm21_10, nrForm21_11, nrT2_00, nrT2_01, nrT2_10, nrT2_11, nrT2_den1, nrT2_den2]
    rw [hs]
    try ring

/-- **`formulate(2, 1)`, non-relativistic: unitary and symmetric** for real parameters. -/
theorem nrForm21_unitary_symmetric (hGamma_1_0 : 0 ≤ Gamma_1_0) (hGamma_1_1 : 0 ≤ Gamma_1_1) :
    (1 + (2 * Complex.I) • (!![F00, F01; F10, F11] : Matrix (Fin 2) (Fin 2) ℂ))ᴴ * (1 + (2 * Complex.I) • (!![F00, F01; F10, F11] : Matrix (Fin 2) (Fin 2) ℂ)) = 1
      ∧ (!![F00, F01; F10, F11] : Matrix (Fin 2) (Fin 2) ℂ)ᵀ = (!![F00, F01; F10, F11] : Matrix (Fin 2) (Fin 2) ℂ) := by
  obtain ⟨r00, r01, r10, r11⟩ := nrK21_real s m_1 Gamma_1_0 Gamma_1_1 gamma_1_0 gamma_1_1 hGamma_1_0 hGamma_1_1
  have hs := nrK21_symm s m_1 Gamma_1_0 Gamma_1_1 gamma_1_0 gamma_1_1
  obtain ⟨hH, hT⟩ := herm2 r00 r01 r11 hs
  obtain ⟨e00, e01, e10, e11⟩ := nrForm21_eq s m_1 Gamma_1_0 Gamma_1_1 gamma_1_0 gamma_1_1
  have hM : (!![F00, F01; F10, F11] : Matrix (Fin 2) (Fin 2) ℂ) = nrT2M !![K00, K01; K10, K11] := by
    rw [e00, e01, e10, e11]
    ext i j; fin_cases i <;> fin_cases j <;> simp [nrT2M]
  rw [hM]
  exact nrT2M_unitary_symmetric _ hH hT

end NR21

section NR22
variable (s m_1 m_2 Gamma_1_0 Gamma_1_1 Gamma_2_0 Gamma_2_1 gamma_1_0 gamma_1_1 gamma_2_0 gamma_2_1 : ℝ)

local notation "K00" => nrK22_00 s m_1 m_2 Gamma_1_0 Gamma_1_1 Gamma_2_0 Gamma_2_1 gamma_1_0 gamma_1_1 gamma_2_0 gamma_2_1
local notation "K01" => nrK22_01 s m_1 m_2 Gamma_1_0 Gamma_1_1 Gamma_2_0 Gamma_2_1 gamma_1_0 gamma_1_1 gamma_2_0 gamma_2_1
local notation "K10" => nrK22_10 s m_1 m_2 Gamma_1_0 Gamma_1_1 Gamma_2_0 Gamma_2_1 gamma_1_0 gamma_1_1 gamma_2_0 gamma_2_1
local notation "K11" => nrK22_11 s m_1 m_2 Gamma_1_0 Gamma_1_1 Gamma_2_0 Gamma_2_1 gamma_1_0 gamma_1_1 gamma_2_0 gamma_2_1
local notation "F00" => nrForm22_00 s m_1 m_2 Gamma_1_0 Gamma_1_1 Gamma_2_0 Gamma_2_1 gamma_1_0 gamma_1_1 gamma_2_0 gamma_2_1
local notation "F01" => nrForm22_01 s m_1 m_2 Gamma_1_0 Gamma_1_1 Gamma_2_0 Gamma_2_1 gamma_1_0 gamma_1_1 gamma_2_0 gamma_2_1
local notation "F10" => nrForm22_10 s m_1 m_2 Gamma_1_0 Gamma_1_1 Gamma_2_0 Gamma_2_1 gamma_1_0 gamma_1_1 gamma_2_0 gamma_2_1
local notation "F11" => nrForm22_11 s m_1 m_2 Gamma_1_0 Gamma_1_1 Gamma_2_0 Gamma_2_1 gamma_1_0 gamma_1_1 gamma_2_0 gamma_2_1

/-- `nrK22`: the regenerated parametrisation is symmetric in the channel indices. -/
theorem nrK22_symm : K01 = K10 := by
  simp only [nrK22_01, nrK22_10]; try ring

/-- `nrK22`: every entry is real for non-negative widths. -/
theorem nrK22_real (hGamma_1_0 : 0 ≤ Gamma_1_0) (hGamma_1_1 : 0 ≤ Gamma_1_1) (hGamma_2_0 : 0 ≤ Gamma_2_0) (hGamma_2_1 : 0 ≤ Gamma_2_1) :
    IsRe K00 ∧ IsRe K01 ∧ IsRe K10 ∧ IsRe K11 := by
  refine ⟨?_, ?_, ?_, ?_⟩ <;> simp only [nrK22_00, nrK22_01, nrK22_10, nrK22_11] <;> real_closure

/-- `formulate(2, 2)` is the symbolic matrix expression with the parametrisation substituted. -/
theorem nrForm22_eq :
    F00 = nrT2_00 K00 K01 K10 K11 ∧ F01 = nrT2_01 K00 K01 K10 K11 ∧ F10 = nrT2_10 K00 K01 K10 K11 ∧ F11 = nrT2_11 K00 K01 K10 K11 := by
  have hs := nrK22_symm s m_1 m_2 Gamma_1_0 Gamma_1_1 Gamma_2_0 Gamma_2_1 gamma_1_0 gamma_1_1 gamma_2_0 gamma_2_1
  refine ⟨?_, ?_, ?_, ?_⟩ <;>
  · simp only [nrForm22_00, nrForm22_01, nrForm22_10, nrForm22_11, nrT2_00, nrT2_01, nrT2_10, nrT2_11, nrT2_den1, nrT2_den2]
    rw [hs]
    try ring

/-- **`formulate(2, 2)`, non-relativistic: unitary and symmetric** for real parameters. -/
theorem nrForm22_unitary_symmetric (hGamma_1_0 : 0 ≤ Gamma_1_0) (hGamma_1_1 : 0 ≤ Gamma_1_1) (hGamma_2_0 : 0 ≤ Gamma_2_0) (hGamma_2_1 : 0 ≤ Gamma_2_1) :
    (1 + (2 * Complex.I) • (!![F00, F01; F10, F11] : Matrix (Fin 2) (Fin 2) ℂ))ᴴ * (1 + (2 * Complex.I) • (!![F00, F01; F10, F11] : Matrix (Fin 2) (Fin 2) ℂ)) = 1
      ∧ (!![F00, F01; F10, F11] : Matrix (Fin 2) (Fin 2) ℂ)ᵀ = (!![F00, F01; F10, F11] : Matrix (Fin 2) (Fin 2) ℂ) := by
  obtain ⟨r00, r01, r10, r11⟩ := nrK22_real s m_1 m_2 Gamma_1_0 Gamma_1_1 Gamma_2_0 Gamma_2_1 gamma_1_0 gamma_1_1 gamma_2_0 gamma_2_1 hGamma_1_0 hGamma_1_1 hGamma_2_0 hGamma_2_1
  have hs := nrK22_symm s m_1 m_2 Gamma_1_0 Gamma_1_1 Gamma_2_0 Gamma_2_1 gamma_1_0 gamma_1_1 gamma_2_0 gamma_2_1
  obtain ⟨hH, hT⟩ := herm2 r00 r01 r11 hs
  obtain ⟨e00, e01, e10, e11⟩ := nrForm22_eq s m_1 m_2 Gamma_1_0 Gamma_1_1 Gamma_2_0 Gamma_2_1 gamma_1_0 gamma_1_1 gamma_2_0 gamma_2_1
  have hM : (!![F00, F01; F10, F11] : Matrix (Fin 2) (Fin 2) ℂ) = nrT2M !![K00, K01; K10, K11] := by
    rw [e00, e01, e10, e11]
    ext i j; fin_cases i <;> fin_cases j <;> simp [nrT2M]
  rw [hM]
  exact nrT2M_unitary_symmetric _ hH hT

end NR22

section REL11
variable (s m_1 Gamma_1_0 gamma_1_0 rho0 rhoR_1_0 ff_0 ff0_1_0 : ℝ)

local notation "K00" => relK11_00 s m_1 Gamma_1_0 gamma_1_0 (rho0 : ℂ) (rhoR_1_0 : ℂ) (ff_0 : ℂ) (ff0_1_0 : ℂ)
local notation "F00" => relForm11_00 s m_1 Gamma_1_0 gamma_1_0 (rho0 : ℂ) (rhoR_1_0 : ℂ) (ff_0 : ℂ) (ff0_1_0 : ℂ)
local notation "H00" => relFormHat11_00 s m_1 Gamma_1_0 gamma_1_0 (rho0 : ℂ) (rhoR_1_0 : ℂ) (ff_0 : ℂ) (ff0_1_0 : ℂ)

/-- `relK11`: every entry is real for non-negative widths and (the guard) positive phase-space factors at `s` and at the pole masses. -/
theorem relK11_real (hGamma_1_0 : 0 ≤ Gamma_1_0) (hrho0 : 0 < rho0) (hrhoR_1_0 : 0 < rhoR_1_0) :
    IsRe K00 := by
  simp only [relK11_00]; real_closure

/-- `formulate(1, 1)` is the symbolic matrix expression with the parametrisation substituted. -/
theorem relForm11_eq :
    F00 = relT1_00 (rho0 : ℂ) K00 := by
  simp only [relForm11_00, relT1_00, relT1_den1]; try ring

/-- `formulate(1, 1, return_t_hat=True)` is the symbolic matrix expression with the parametrisation substituted. -/
theorem relFormHat11_eq :
    H00 = relTh1_00 (rho0 : ℂ) K00 := by
  simp only [relFormHat11_00, relTh1_00, relT1_den1]; try ring

/-- **`formulate(1, 1)`, relativistic: unitary and symmetric** for real parameters, under the guard that all phase-space factors (at `s` and at every pole mass) are real and positive. -/
theorem relForm11_unitary_symmetric (hGamma_1_0 : 0 ≤ Gamma_1_0) (hrho0 : 0 < rho0) (hrhoR_1_0 : 0 < rhoR_1_0) :
    (1 + (2 * Complex.I) • (!![F00] : Matrix (Fin 1) (Fin 1) ℂ))ᴴ * (1 + (2 * Complex.I) • (!![F00] : Matrix (Fin 1) (Fin 1) ℂ)) = 1
      ∧ (!![F00] : Matrix (Fin 1) (Fin 1) ℂ)ᵀ = (!![F00] : Matrix (Fin 1) (Fin 1) ℂ) := by
  have r00 := relK11_real s m_1 Gamma_1_0 gamma_1_0 rho0 rhoR_1_0 ff_0 ff0_1_0 hGamma_1_0 hrho0 hrhoR_1_0
  obtain ⟨hH, hT⟩ := herm1 r00
  have e00 := relForm11_eq s m_1 Gamma_1_0 gamma_1_0 rho0 rhoR_1_0 ff_0 ff0_1_0
  have hM : (!![F00] : Matrix (Fin 1) (Fin 1) ℂ) = relT1M (fun i => (((![rho0] : Fin 1 → ℝ) i : ℝ) : ℂ)) !![K00] := by
    rw [e00]; ext i j; fin_cases i; fin_cases j; simp [relT1M]
  rw [hM]
  exact relT1M_unitary_symmetric _ (by intro i; fin_cases i; simpa using hrho0) _ hH

end REL11

section REL12
variable (s m_1 m_2 Gamma_1_0 Gamma_2_0 gamma_1_0 gamma_2_0 rho0 rhoR_1_0 rhoR_2_0 ff_0 ff0_1_0 ff0_2_0 : ℝ)

local notation "K00" => relK12_00 s m_1 m_2 Gamma_1_0 Gamma_2_0 gamma_1_0 gamma_2_0 (rho0 : ℂ) (rhoR_1_0 : ℂ) (rhoR_2_0 : ℂ) (ff_0 : ℂ) (ff0_1_0 : ℂ) (ff0_2_0 : ℂ)
local notation "F00" => relForm12_00 s m_1 m_2 Gamma_1_0 Gamma_2_0 gamma_1_0 gamma_2_0 (rho0 : ℂ) (rhoR_1_0 : ℂ) (rhoR_2_0 : ℂ) (ff_0 : ℂ) (ff0_1_0 : ℂ) (ff0_2_0 : ℂ)
local notation "H00" => relFormHat12_00 s m_1 m_2 Gamma_1_0 Gamma_2_0 gamma_1_0 gamma_2_0 (rho0 : ℂ) (rhoR_1_0 : ℂ) (rhoR_2_0 : ℂ) (ff_0 : ℂ) (ff0_1_0 : ℂ) (ff0_2_0 : ℂ)

/-- `relK12`: every entry is real for non-negative widths and (the guard) positive phase-space factors at `s` and at the pole masses. -/
theorem relK12_real (hGamma_1_0 : 0 ≤ Gamma_1_0) (hGamma_2_0 : 0 ≤ Gamma_2_0) (hrho0 : 0 < rho0) (hrhoR_1_0 : 0 < rhoR_1_0) (hrhoR_2_0 : 0 < rhoR_2_0) :
    IsRe K00 := by
  simp only [relK12_00]; real_closure

/-- `formulate(1, 2)` is the symbolic matrix expression with the parametrisation substituted. -/
theorem relForm12_eq :
    F00 = relT1_00 (rho0 : ℂ) K00 := by
  simp only [relForm12_00, relT1_00, relT1_den1]; try ring

/-- `formulate(1, 2, return_t_hat=True)` is the symbolic matrix expression with the parametrisation substituted. -/
theorem relFormHat12_eq :
    H00 = relTh1_00 (rho0 : ℂ) K00 := by
  simp only [relFormHat12_00, relTh1_00, relT1_den1]; try ring

/-- **`formulate(1, 2)`, relativistic: unitary and symmetric** for real parameters, under the guard that all phase-space factors (at `s` and at every pole mass) are real and positive. -/
theorem relForm12_unitary_symmetric (hGamma_1_0 : 0 ≤ Gamma_1_0) (hGamma_2_0 : 0 ≤ Gamma_2_0) (hrho0 : 0 < rho0) (hrhoR_1_0 : 0 < rhoR_1_0) (hrhoR_2_0 : 0 < rhoR_2_0) :
    (1 + (2 * Complex.I) • (!![F00] : Matrix (Fin 1) (Fin 1) ℂ))ᴴ * (1 + (2 * Complex.I) • (!![F00] : Matrix (Fin 1) (Fin 1) ℂ)) = 1
      ∧ (!![F00] : Matrix (Fin 1) (Fin 1) ℂ)ᵀ = (!![F00] : Matrix (Fin 1) (Fin 1) ℂ) := by
  have r00 := relK12_real s m_1 m_2 Gamma_1_0 Gamma_2_0 gamma_1_0 gamma_2_0 rho0 rhoR_1_0 rhoR_2_0 ff_0 ff0_1_0 ff0_2_0 hGamma_1_0 hGamma_2_0 hrho0 hrhoR_1_0 hrhoR_2_0
  obtain ⟨hH, hT⟩ := herm1 r00
  have e00 := relForm12_eq s m_1 m_2 Gamma_1_0 Gamma_2_0 gamma_1_0 gamma_2_0 rho0 rhoR_1_0 rhoR_2_0 ff_0 ff0_1_0 ff0_2_0
  have hM : (!![F00] : Matrix (Fin 1) (Fin 1) ℂ) = relT1M (fun i => (((![rho0] : Fin 1 → ℝ) i : ℝ) : ℂ)) !![K00] := by
    rw [e00]; ext i j; fin_cases i; fin_cases j; simp [relT1M]
  rw [hM]
  exact relT1M_unitary_symmetric _ (by intro i; fin_cases i; simpa using hrho0) _ hH

end REL12

section REL21
variable (s m_1 Gamma_1_0 Gamma_1_1 gamma_1_0 gamma_1_1 rho0 rho1 rhoR_1_0 rhoR_1_1 ff_0 ff_1 ff0_1_0 ff0_1_1 : ℝ)

local notation "K00" => relK21_00 s m_1 Gamma_1_0 Gamma_1_1 gamma_1_0 gamma_1_1 (rho0 : ℂ) (rho1 : ℂ) (rhoR_1_0 : ℂ) (rhoR_1_1 : ℂ) (ff_0 : ℂ) (ff_1 : ℂ) (ff0_1_0 : ℂ) (ff0_1_1 : ℂ)
local notation "K01" => relK21_01 s m_1 Gamma_1_0 Gamma_1_1 gamma_1_0 gamma_1_1 (rho0 : ℂ) (rho1 : ℂ) (rhoR_1_0 : ℂ) (rhoR_1_1 : ℂ) (ff_0 : ℂ) (ff_1 : ℂ) (ff0_1_0 : ℂ) (ff0_1_1 : ℂ)
local notation "K10" => relK21_10 s m_1 Gamma_1_0 Gamma_1_1 gamma_1_0 gamma_1_1 (rho0 : ℂ) (rho1 : ℂ) (rhoR_1_0 : ℂ) (rhoR_1_1 : ℂ) (ff_0 : ℂ) (ff_1 : ℂ) (ff0_1_0 : ℂ) (ff0_1_1 : ℂ)
local notation "K11" => relK21_11 s m_1 Gamma_1_0 Gamma_1_1 gamma_1_0 gamma_1_1 (rho0 : ℂ) (rho1 : ℂ) (rhoR_1_0 : ℂ) (rhoR_1_1 : ℂ) (ff_0 : ℂ) (ff_1 : ℂ) (ff0_1_0 : ℂ) (ff0_1_1 : ℂ)
local notation "F00" => relForm21_00 s m_1 Gamma_1_0 Gamma_1_1 gamma_1_0 gamma_1_1 (rho0 : ℂ) (rho1 : ℂ) (rhoR_1_0 : ℂ) (rhoR_1_1 : ℂ) (ff_0 : ℂ) (ff_1 : ℂ) (ff0_1_0 : ℂ) (ff0_1_1 : ℂ)
local notation "F01" => relForm21_01 s m_1 Gamma_1_0 Gamma_1_1 gamma_1_0 gamma_1_1 (rho0 : ℂ) (rho1 : ℂ) (rhoR_1_0 : ℂ) (rhoR_1_1 : ℂ) (ff_0 : ℂ) (ff_1 : ℂ) (ff0_1_0 : ℂ) (ff0_1_1 : ℂ)
local notation "F10" => relForm21_10 s m_1 Gamma_1_0 Gamma_1_1 gamma_1_0 gamma_1_1 (rho0 : ℂ) (rho1 : ℂ) (rhoR_1_0 : ℂ) (rhoR_1_1 : ℂ) (ff_0 : ℂ) (ff_1 : ℂ) (ff0_1_0 : ℂ) (ff0_1_1 : ℂ)
local notation "F11" => relForm21_11 s m_1 Gamma_1_0 Gamma_1_1 gamma_1_0 gamma_1_1 (rho0 : ℂ) (rho1 : ℂ) (rhoR_1_0 : ℂ) (rhoR_1_1 : ℂ) (ff_0 : ℂ) (ff_1 : ℂ) (ff0_1_0 : ℂ) (ff0_1_1 : ℂ)
local notation "H00" => relFormHat21_00 s m_1 Gamma_1_0 Gamma_1_1 gamma_1_0 gamma_1_1 (rho0 : ℂ) (rho1 : ℂ) (rhoR_1_0 : ℂ) (rhoR_1_1 : ℂ) (ff_0 : ℂ) (ff_1 : ℂ) (ff0_1_0 : ℂ) (ff0_1_1 : ℂ)
local notation "H01" => relFormHat21_01 s m_1 Gamma_1_0 Gamma_1_1 gamma_1_0 gamma_1_1 (rho0 : ℂ) (rho1 : ℂ) (rhoR_1_0 : ℂ) (rhoR_1_1 : ℂ) (ff_0 : ℂ) (ff_1 : ℂ) (ff0_1_0 : ℂ) (ff0_1_1 : ℂ)
local notation "H10" => relFormHat21_10 s m_1 Gamma_1_0 Gamma_1_1 gamma_1_0 gamma_1_1 (rho0 : ℂ) (rho1 : ℂ) (rhoR_1_0 : ℂ) (rhoR_1_1 : ℂ) (ff_0 : ℂ) (ff_1 : ℂ) (ff0_1_0 : ℂ) (ff0_1_1 : ℂ)
local notation "H11" => relFormHat21_11 s m_1 Gamma_1_0 Gamma_1_1 gamma_1_0 gamma_1_1 (rho0 : ℂ) (rho1 : ℂ) (rhoR_1_0 : ℂ) (rhoR_1_1 : ℂ) (ff_0 : ℂ) (ff_1 : ℂ) (ff0_1_0 : ℂ) (ff0_1_1 : ℂ)

/-- `relK21`: the regenerated parametrisation is symmetric in the channel indices. -/
theorem relK21_symm : K01 = K10 := by
  simp only [relK21_01, relK21_10]; try ring

/-- `relK21`: every entry is real for non-negative widths and (the guard) positive phase-space factors at `s` and at the pole masses. -/
theorem relK21_real (hGamma_1_0 : 0 ≤ Gamma_1_0) (hGamma_1_1 : 0 ≤ Gamma_1_1) (hrho0 : 0 < rho0) (hrho1 : 0 < rho1) (hrhoR_1_0 : 0 < rhoR_1_0) (hrhoR_1_1 : 0 < rhoR_1_1) :
    IsRe K00 ∧ IsRe K01 ∧ IsRe K10 ∧ IsRe K11 := by
  refine ⟨?_, ?_, ?_, ?_⟩ <;> simp only [relK21_00, relK21_01, relK21_10, relK21_11] <;> real_closure

/-- `formulate(2, 1)` is the symbolic matrix expression with the parametrisation substituted. -/
theorem relForm21_eq :
    F00 = relT2_00 (rho0 : ℂ) (rho1 : ℂ) K00 K01 K10 K11 ∧ F01 = relT2_01 (rho0 : ℂ) (rho1 : ℂ) K00 K01 K10 K11 ∧ F10 = relT2_10 (rho0 : ℂ) (rho1 : ℂ) K00 K01 K10 K11 ∧ F11 = relT2_11 (rho0 : ℂ) (rho1 : ℂ) K00 K01 K10 K11 := by
  have hs := relK21_symm s m_1 Gamma_1_0 Gamma_1_1 gamma_1_0 gamma_1_1 rho0 rho1 rhoR_1_0 rhoR_1_1 ff_0 ff_1 ff0_1_0 ff0_1_1
  refine ⟨?_, ?_, ?_, ?_⟩ <;>
  · simp only [relForm21_00, relForm21_01, relForm21_10, relForm21_11, relT2_00, relT2_01, relT2_10, relT2_11, relT2_den1]
    rw [hs]
    try ring

/-- `formulate(2, 1, return_t_hat=True)` is the symbolic matrix expression with the parametrisation substituted. -/
theorem relFormHat21_eq :
    H00 = relTh2_00 (rho0 : ℂ) (rho1 : ℂ) K00 K01 K10 K11 ∧ H01 = relTh2_01 (rho0 : ℂ) (rho1 : ℂ) K00 K01 K10 K11 ∧ H10 = relTh2_10 (rho0 : ℂ) (rho1 : ℂ) K00 K01 K10 K11 ∧ H11 = relTh2_11 (rho0 : ℂ) (rho1 : ℂ) K00 K01 K10 K11 := by
  have hs := relK21_symm s m_1 Gamma_1_0 Gamma_1_1 gamma_1_0 gamma_1_1 rho0 rho1 rhoR_1_0 rhoR_1_1 ff_0 ff_1 ff0_1_0 ff0_1_1
  refine ⟨?_, ?_, ?_, ?_⟩ <;>
  · simp only [relFormHat21_00, relFormHat21_01, relFormHat21_10, relFormHat21_11, relTh2_00, relTh2_01, relTh2_10, relTh2_11, relT2_den1]
    rw [hs]
    try ring

/-- **`formulate(2, 1)`, relativistic: unitary and symmetric** for real parameters, under the guard that all phase-space factors (at `s` and at every pole mass) are real and positive. -/
theorem relForm21_unitary_symmetric (hGamma_1_0 : 0 ≤ Gamma_1_0) (hGamma_1_1 : 0 ≤ Gamma_1_1) (hrho0 : 0 < rho0) (hrho1 : 0 < rho1) (hrhoR_1_0 : 0 < rhoR_1_0) (hrhoR_1_1 : 0 < rhoR_1_1) :
    (1 + (2 * Complex.I) • (!![F00, F01; F10, F11] : Matrix (Fin 2) (Fin 2) ℂ))ᴴ * (1 + (2 * Complex.I) • (!![F00, F01; F10, F11] : Matrix (Fin 2) (Fin 2) ℂ)) = 1
      ∧ (!![F00, F01; F10, F11] : Matrix (Fin 2) (Fin 2) ℂ)ᵀ = (!![F00, F01; F10, F11] : Matrix (Fin 2) (Fin 2) ℂ) := by
  obtain ⟨r00, r01, r10, r11⟩ := relK21_real s m_1 Gamma_1_0 Gamma_1_1 gamma_1_0 gamma_1_1 rho0 rho1 rhoR_1_0 rhoR_1_1 ff_0 ff_1 ff0_1_0 ff0_1_1 hGamma_1_0 hGamma_1_1 hrho0 hrho1 hrhoR_1_0 hrhoR_1_1
  have hs := relK21_symm s m_1 Gamma_1_0 Gamma_1_1 gamma_1_0 gamma_1_1 rho0 rho1 rhoR_1_0 rhoR_1_1 ff_0 ff_1 ff0_1_0 ff0_1_1
  obtain ⟨hH, hT⟩ := herm2 r00 r01 r11 hs
  obtain ⟨e00, e01, e10, e11⟩ := relForm21_eq s m_1 Gamma_1_0 Gamma_1_1 gamma_1_0 gamma_1_1 rho0 rho1 rhoR_1_0 rhoR_1_1 ff_0 ff_1 ff0_1_0 ff0_1_1
  have hM : (!![F00, F01; F10, F11] : Matrix (Fin 2) (Fin 2) ℂ) = relT2M (fun i => (((![rho0, rho1] : Fin 2 → ℝ) i : ℝ) : ℂ)) !![K00, K01; K10, K11] := by
    rw [e00, e01, e10, e11]
    ext i j; fin_cases i <;> fin_cases j <;> simp [relT2M]
  rw [hM]
  exact relT2M_unitary_symmetric _ (by intro i; fin_cases i <;> simpa) _ hH hT

end REL21

section REL22
variable (s m_1 m_2 Gamma_1_0 Gamma_1_1 Gamma_2_0 Gamma_2_1 gamma_1_0 gamma_1_1 gamma_2_0 gamma_2_1 rho0 rho1 rhoR_1_0 rhoR_1_1 rhoR_2_0 rhoR_2_1 ff_0 ff_1 ff0_1_0 ff0_1_1 ff0_2_0 ff0_2_1 : ℝ)

local notation "K00" => relK22_00 s m_1 m_2 Gamma_1_0 Gamma_1_1 Gamma_2_0 Gamma_2_1 gamma_1_0 gamma_1_1 gamma_2_0 gamma_2_1 (rho0 : ℂ) (rho1 : ℂ) (rhoR_1_0 : ℂ) (rhoR_1_1 : ℂ) (rhoR_2_0 : ℂ) (rhoR_2_1 : ℂ) (ff_0 : ℂ) (ff_1 : ℂ) (ff0_1_0 : ℂ) (ff0_1_1 : ℂ) (ff0_2_0 : ℂ) (ff0_2_1 : ℂ)
local notation "K01" => relK22_01 s m_1 m_2 Gamma_1_0 Gamma_1_1 Gamma_2_0 Gamma_2_1 gamma_1_0 gamma_1_1 gamma_2_0 gamma_2_1 (rho0 : ℂ) (rho1 : ℂ) (rhoR_1_0 : ℂ) (rhoR_1_1 : ℂ) (rhoR_2_0 : ℂ) (rhoR_2_1 : ℂ) (ff_0 : ℂ) (ff_1 : ℂ) (ff0_1_0 : ℂ) (ff0_1_1 : ℂ) (ff0_2_0 : ℂ) (ff0_2_1 : ℂ)
local notation "K10" => relK22_10 s m_1 m_2 Gamma_1_0 Gamma_1_1 Gamma_2_0 Gamma_2_1 gamma_1_0 gamma_1_1 gamma_2_0 gamma_2_1 (rho0 : ℂ) (rho1 : ℂ) (rhoR_1_0 : ℂ) (rhoR_1_1 : ℂ) (rhoR_2_0 : ℂ) (rhoR_2_1 : ℂ) (ff_0 : ℂ) (ff_1 : ℂ) (ff0_1_0 : ℂ) (ff0_1_1 : ℂ) (ff0_2_0 : ℂ) (ff0_2_1 : ℂ)
local notation "K11" => relK22_11 s m_1 m_2 Gamma_1_0 Gamma_1_1 Gamma_2_0 Gamma_2_1 gamma_1_0 gamma_1_1 gamma_2_0 gamma_2_1 (rho0 : ℂ) (rho1 : ℂ) (rhoR_1_0 : ℂ) (rhoR_1_1 : ℂ) (rhoR_2_0 : ℂ) (rhoR_2_1 : ℂ) (ff_0 : ℂ) (ff_1 : ℂ) (ff0_1_0 : ℂ) (ff0_1_1 : ℂ) (ff0_2_0 : ℂ) (ff0_2_1 : ℂ)
local notation "F00" => relForm22_00 s m_1 m_2 Gamma_1_0 Gamma_1_1 Gamma_2_0 Gamma_2_1 gamma_1_0 gamma_1_1 gamma_2_0 gamma_2_1 (rho0 : ℂ) (rho1 : ℂ) (rhoR_1_0 : ℂ) (rhoR_1_1 : ℂ) (rhoR_2_0 : ℂ) (rhoR_2_1 : ℂ) (ff_0 : ℂ) (ff_1 : ℂ) (ff0_1_0 : ℂ) (ff0_1_1 : ℂ) (ff0_2_0 : ℂ) (ff0_2_1 : ℂ)
local notation "F01" => relForm22_01 s m_1 m_2 Gamma_1_0 Gamma_1_1 Gamma_2_0 Gamma_2_1 gamma_1_0 gamma_1_1 gamma_2_0 gamma_2_1 (rho0 : ℂ) (rho1 : ℂ) (rhoR_1_0 : ℂ) (rhoR_1_1 : ℂ) (rhoR_2_0 : ℂ) (rhoR_2_1 : ℂ) (ff_0 : ℂ) (ff_1 : ℂ) (ff0_1_0 : ℂ) (ff0_1_1 : ℂ) (ff0_2_0 : ℂ) (ff0_2_1 : ℂ)
local notation "F10" => relForm22_10 s m_1 m_2 Gamma_1_0 Gamma_1_1 Gamma_2_0 Gamma_2_1 gamma_1_0 gamma_1_1 gamma_2_0 gamma_2_1 (rho0 : ℂ) (rho1 : ℂ) (rhoR_1_0 : ℂ) (rhoR_1_1 : ℂ) (rhoR_2_0 : ℂ) (rhoR_2_1 : ℂ) (ff_0 : ℂ) (ff_1 : ℂ) (ff0_1_0 : ℂ) (ff0_1_1 : ℂ) (ff0_2_0 : ℂ) (ff0_2_1 : ℂ)
local notation "F11" => relForm22_11 s m_1 m_2 Gamma_1_0 Gamma_1_1 Gamma_2_0 Gamma_2_1 gamma_1_0 gamma_1_1 gamma_2_0 gamma_2_1 (rho0 : ℂ) (rho1 : ℂ) (rhoR_1_0 : ℂ) (rhoR_1_1 : ℂ) (rhoR_2_0 : ℂ) (rhoR_2_1 : ℂ) (ff_0 : ℂ) (ff_1 : ℂ) (ff0_1_0 : ℂ) (ff0_1_1 : ℂ) (ff0_2_0 : ℂ) (ff0_2_1 : ℂ)
local notation "H00" => relFormHat22_00 s m_1 m_2 Gamma_1_0 Gamma_1_1 Gamma_2_0 Gamma_2_1 gamma_1_0 gamma_1_1 gamma_2_0 gamma_2_1 (rho0 : ℂ) (rho1 : ℂ) (rhoR_1_0 : ℂ) (rhoR_1_1 : ℂ) (rhoR_2_0 : ℂ) (rhoR_2_1 : ℂ) (ff_0 : ℂ) (ff_1 : ℂ) (ff0_1_0 : ℂ) (ff0_1_1 : ℂ) (ff0_2_0 : ℂ) (ff0_2_1 : ℂ)
local notation "H01" => relFormHat22_01 s m_1 m_2 Gamma_1_0 Gamma_1_1 Gamma_2_0 Gamma_2_1 gamma_1_0 gamma_1_1 gamma_2_0 gamma_2_1 (rho0 : ℂ) (rho1 : ℂ) (rhoR_1_0 : ℂ) (rhoR_1_1 : ℂ) (rhoR_2_0 : ℂ) (rhoR_2_1 : ℂ) (ff_0 : ℂ) (ff_1 : ℂ) (ff0_1_0 : ℂ) (ff0_1_1 : ℂ) (ff0_2_0 : ℂ) (ff0_2_1 : ℂ)
local notation "H10" => relFormHat22_10 s m_1 m_2 Gamma_1_0 Gamma_1_1 Gamma_2_0 Gamma_2_1 gamma_1_0 gamma_1_1 gamma_2_0 gamma_2_1 (rho0 : ℂ) (rho1 : ℂ) (rhoR_1_0 : ℂ) (rhoR_1_1 : ℂ) (rhoR_2_0 : ℂ) (rhoR_2_1 : ℂ) (ff_0 : ℂ) (ff_1 : ℂ) (ff0_1_0 : ℂ) (ff0_1_1 : ℂ) (ff0_2_0 : ℂ) (ff0_2_1 : ℂ)
local notation "H11" => relFormHat22_11 s m_1 m_2 Gamma_1_0 Gamma_1_1 Gamma_2_0 Gamma_2_1 gamma_1_0 gamma_1_1 gamma_2_0 gamma_2_1 (rho0 : ℂ) (rho1 : ℂ) (rhoR_1_0 : ℂ) (rhoR_1_1 : ℂ) (rhoR_2_0 : ℂ) (rhoR_2_1 : ℂ) (ff_0 : ℂ) (ff_1 : ℂ) (ff0_1_0 : ℂ) (ff0_1_1 : ℂ) (ff0_2_0 : ℂ) (ff0_2_1 : ℂ)

/-- `relK22`: the regenerated parametrisation is symmetric in the channel indices. -/
theorem relK22_symm : K01 = K10 := by
  simp only [relK22_01, relK22_10]; try ring

/-- `relK22`: every entry is real for non-negative widths and (the guard) positive phase-space factors at `s` and at the pole masses. -/
theorem relK22_real (hGamma_1_0 : 0 ≤ Gamma_1_0) (hGamma_1_1 : 0 ≤ Gamma_1_1) (hGamma_2_0 : 0 ≤ Gamma_2_0) (hGamma_2_1 : 0 ≤ Gamma_2_1) (hrho0 : 0 < rho0) (hrho1 : 0 < rho1) (hrhoR_1_0 : 0 < rhoR_1_0) (hrhoR_1_1 : 0 < rhoR_1_1) (hrhoR_2_0 : 0 < rhoR_2_0) (hrhoR_2_1 : 0 < rhoR_2_1) :
    IsRe K00 ∧ IsRe K01 ∧ IsRe K10 ∧ IsRe K11 := by
  refine ⟨?_, ?_, ?_, ?_⟩ <;> simp only [relK22_00, relK22_01, relK22_10, relK22_11] <;> real_closure

/-- `formulate(2, 2)` is the symbolic matrix expression with the parametrisation substituted. -/
theorem relForm22_eq :
    F00 = relT2_00 (rho0 : ℂ) (rho1 : ℂ) K00 K01 K10 K11 ∧ F01 = relT2_01 (rho0 : ℂ) (rho1 : ℂ) K00 K01 K10 K11 ∧ F10 = relT2_10 (rho0 : ℂ) (rho1 : ℂ) K00 K01 K10 K11 ∧ F11 = relT2_11 (rho0 : ℂ) (rho1 : ℂ) K00 K01 K10 K11 := by
  have hs := relK22_symm s m_1 m_2 Gamma_1_0 Gamma_1_1 Gamma_2_0 Gamma_2_1 gamma_1_0 gamma_1_1 gamma_2_0 gamma_2_1 rho0 rho1 rhoR_1_0 rhoR_1_1 rhoR_2_0 rhoR_2_1 ff_0 ff_1 ff0_1_0 ff0_1_1 ff0_2_0 ff0_2_1
  refine ⟨?_, ?_, ?_, ?_⟩ <;>
  · simp only [relForm22_00, relForm22_01, relForm22_10, relForm22_11, relT2_00, relT2_01, relT2_10, relT2_11, relT2_den1]
    rw [hs]
    try ring

/-- `formulate(2, 2, return_t_hat=True)` is the symbolic matrix expression with the parametrisation substituted. -/
theorem relFormHat22_eq :
    H00 = relTh2_00 (rho0 : ℂ) (rho1 : ℂ) K00 K01 K10 K11 ∧ H01 = relTh2_01 (rho0 : ℂ) (rho1 : ℂ) K00 K01 K10 K11 ∧ H10 = relTh2_10 (rho0 : ℂ) (rho1 : ℂ) K00 K01 K10 K11 ∧ H11 = relTh2_11 (rho0 : ℂ) (rho1 : ℂ) K00 K01 K10 K11 := by
  have hs := relK22_symm s m_1 m_2 Gamma_1_0 Gamma_1_1 Gamma_2_0 Gamma_2_1 gamma_1_0 gamma_1_1 gamma_2_0 gamma_2_1 rho0 rho1 rhoR_1_0 rhoR_1_1 rhoR_2_0 rhoR_2_1 ff_0 ff_1 ff0_1_0 ff0_1_1 ff0_2_0 ff0_2_1
  refine ⟨?_, ?_, ?_, ?_⟩ <;>
  · simp only [relFormHat22_00, relFormHat22_01, relFormHat22_10, relFormHat22_11, relTh2_00, relTh2_01, relTh2_10, relTh2_11, relT2_den1]
    rw [hs]
    try ring

/-- **`formulate(2, 2)`, relativistic: unitary and symmetric** for real parameters, under the guard that all phase-space factors (at `s` and at every pole mass) are real and positive. -/
theorem relForm22_unitary_symmetric (hGamma_1_0 : 0 ≤ Gamma_1_0) (hGamma_1_1 : 0 ≤ Gamma_1_1) (hGamma_2_0 : 0 ≤ Gamma_2_0) (hGamma_2_1 : 0 ≤ Gamma_2_1) (hrho0 : 0 < rho0) (hrho1 : 0 < rho1) (hrhoR_1_0 : 0 < rhoR_1_0) (hrhoR_1_1 : 0 < rhoR_1_1) (hrhoR_2_0 : 0 < rhoR_2_0) (hrhoR_2_1 : 0 < rhoR_2_1) :
    (1 + (2 * Complex.I) • (!![F00, F01; F10, F11] : Matrix (Fin 2) (Fin 2) ℂ))ᴴ * (1 + (2 * Complex.I) • (!![F00, F01; F10, F11] : Matrix (Fin 2) (Fin 2) ℂ)) = 1
      ∧ (!![F00, F01; F10, F11] : Matrix (Fin 2) (Fin 2) ℂ)ᵀ = (!![F00, F01; F10, F11] : Matrix (Fin 2) (Fin 2) ℂ) := by
  obtain ⟨r00, r01, r10, r11⟩ := relK22_real s m_1 m_2 Gamma_1_0 Gamma_1_1 Gamma_2_0 Gamma_2_1 gamma_1_0 gamma_1_1 gamma_2_0 gamma_2_1 rho0 rho1 rhoR_1_0 rhoR_1_1 rhoR_2_0 rhoR_2_1 ff_0 ff_1 ff0_1_0 ff0_1_1 ff0_2_0 ff0_2_1 hGamma_1_0 hGamma_1_1 hGamma_2_0 hGamma_2_1 hrho0 hrho1 hrhoR_1_0 hrhoR_1_1 hrhoR_2_0 hrhoR_2_1
  have hs := relK22_symm s m_1 m_2 Gamma_1_0 Gamma_1_1 Gamma_2_0 Gamma_2_1 gamma_1_0 gamma_1_1 gamma_2_0 gamma_2_1 rho0 rho1 rhoR_1_0 rhoR_1_1 rhoR_2_0 rhoR_2_1 ff_0 ff_1 ff0_1_0 ff0_1_1 ff0_2_0 ff0_2_1
  obtain ⟨hH, hT⟩ := herm2 r00 r01 r11 hs
  obtain ⟨e00, e01, e10, e11⟩ := relForm22_eq s m_1 m_2 Gamma_1_0 Gamma_1_1 Gamma_2_0 Gamma_2_1 gamma_1_0 gamma_1_1 gamma_2_0 gamma_2_1 rho0 rho1 rhoR_1_0 rhoR_1_1 rhoR_2_0 rhoR_2_1 ff_0 ff_1 ff0_1_0 ff0_1_1 ff0_2_0 ff0_2_1
  have hM : (!![F00, F01; F10, F11] : Matrix (Fin 2) (Fin 2) ℂ) = relT2M (fun i => (((![rho0, rho1] : Fin 2 → ℝ) i : ℝ) : ℂ)) !![K00, K01; K10, K11] := by
    rw [e00, e01, e10, e11]
    ext i j; fin_cases i <;> fin_cases j <;> simp [relT2M]
  rw [hM]
  exact relT2M_unitary_symmetric _ (by intro i; fin_cases i <;> simpa) _ hH hT

end REL22

/-! ### three and four poles (parametrisation only) -/

section NR23
variable (s m_1 m_2 m_3 Gamma_1_0 Gamma_1_1 Gamma_2_0 Gamma_2_1 Gamma_3_0 Gamma_3_1 gamma_1_0 gamma_1_1 gamma_2_0 gamma_2_1 gamma_3_0 gamma_3_1 : ℝ)

local notation "K00" => nrK23_00 s m_1 m_2 m_3 Gamma_1_0 Gamma_1_1 Gamma_2_0 Gamma_2_1 Gamma_3_0 Gamma_3_1 gamma_1_0 gamma_1_1 gamma_2_0 gamma_2_1 gamma_3_0 gamma_3_1
local notation "K01" => nrK23_01 s m_1 m_2 m_3 Gamma_1_0 Gamma_1_1 Gamma_2_0 Gamma_2_1 Gamma_3_0 Gamma_3_1 gamma_1_0 gamma_1_1 gamma_2_0 gamma_2_1 gamma_3_0 gamma_3_1
local notation "K10" => nrK23_10 s m_1 m_2 m_3 Gamma_1_0 Gamma_1_1 Gamma_2_0 Gamma_2_1 Gamma_3_0 Gamma_3_1 gamma_1_0 gamma_1_1 gamma_2_0 gamma_2_1 gamma_3_0 gamma_3_1
local notation "K11" => nrK23_11 s m_1 m_2 m_3 Gamma_1_0 Gamma_1_1 Gamma_2_0 Gamma_2_1 Gamma_3_0 Gamma_3_1 gamma_1_0 gamma_1_1 gamma_2_0 gamma_2_1 gamma_3_0 gamma_3_1

/-- `nrK23` (3 poles): symmetric in the channel indices. -/
theorem nrK23_symm : K01 = K10 := by
  simp only [nrK23_01, nrK23_10]; try ring

/-- `nrK23` (3 poles): every entry is real for non-negative widths. -/
theorem nrK23_real (hGamma_1_0 : 0 ≤ Gamma_1_0) (hGamma_1_1 : 0 ≤ Gamma_1_1) (hGamma_2_0 : 0 ≤ Gamma_2_0) (hGamma_2_1 : 0 ≤ Gamma_2_1) (hGamma_3_0 : 0 ≤ Gamma_3_0) (hGamma_3_1 : 0 ≤ Gamma_3_1) :
    IsRe K00 ∧ IsRe K01 ∧ IsRe K10 ∧ IsRe K11 := by
  refine ⟨?_, ?_, ?_, ?_⟩ <;> simp only [nrK23_00, nrK23_01, nrK23_10, nrK23_11] <;> real_closure

end NR23

section NR24
variable (s m_1 m_2 m_3 m_4 Gamma_1_0 Gamma_1_1 Gamma_2_0 Gamma_2_1 Gamma_3_0 Gamma_3_1 Gamma_4_0 Gamma_4_1 gamma_1_0 gamma_1_1 gamma_2_0 gamma_2_1 gamma_3_0 gamma_3_1 gamma_4_0 gamma_4_1 : ℝ)

local notation "K00" => nrK24_00 s m_1 m_2 m_3 m_4 Gamma_1_0 Gamma_1_1 Gamma_2_0 Gamma_2_1 Gamma_3_0 Gamma_3_1 Gamma_4_0 Gamma_4_1 gamma_1_0 gamma_1_1 gamma_2_0 gamma_2_1 gamma_3_0 gamma_3_1 gamma_4_0 gamma_4_1
local notation "K01" => nrK24_01 s m_1 m_2 m_3 m_4 Gamma_1_0 Gamma_1_1 Gamma_2_0 Gamma_2_1 Gamma_3_0 Gamma_3_1 Gamma_4_0 Gamma_4_1 gamma_1_0 gamma_1_1 gamma_2_0 gamma_2_1 gamma_3_0 gamma_3_1 gamma_4_0 gamma_4_1
local notation "K10" => nrK24_10 s m_1 m_2 m_3 m_4 Gamma_1_0 Gamma_1_1 Gamma_2_0 Gamma_2_1 Gamma_3_0 Gamma_3_1 Gamma_4_0 Gamma_4_1 gamma_1_0 gamma_1_1 gamma_2_0 gamma_2_1 gamma_3_0 gamma_3_1 gamma_4_0 gamma_4_1
local notation "K11" => nrK24_11 s m_1 m_2 m_3 m_4 Gamma_1_0 Gamma_1_1 Gamma_2_0 Gamma_2_1 Gamma_3_0 Gamma_3_1 Gamma_4_0 Gamma_4_1 gamma_1_0 gamma_1_1 gamma_2_0 gamma_2_1 gamma_3_0 gamma_3_1 gamma_4_0 gamma_4_1

/-- `nrK24` (4 poles): symmetric in the channel indices. -/
theorem nrK24_symm : K01 = K10 := by
  simp only [nrK24_01, nrK24_10]; try ring

/-- `nrK24` (4 poles): every entry is real for non-negative widths. -/
theorem nrK24_real (hGamma_1_0 : 0 ≤ Gamma_1_0) (hGamma_1_1 : 0 ≤ Gamma_1_1) (hGamma_2_0 : 0 ≤ Gamma_2_0) (hGamma_2_1 : 0 ≤ Gamma_2_1) (hGamma_3_0 : 0 ≤ Gamma_3_0) (hGamma_3_1 : 0 ≤ Gamma_3_1) (hGamma_4_0 : 0 ≤ Gamma_4_0) (hGamma_4_1 : 0 ≤ Gamma_4_1) :
    IsRe K00 ∧ IsRe K01 ∧ IsRe K10 ∧ IsRe K11 := by
  refine ⟨?_, ?_, ?_, ?_⟩ <;> simp only [nrK24_00, nrK24_01, nrK24_10, nrK24_11] <;> real_closure

end NR24

section REL23
variable (s m_1 m_2 m_3 Gamma_1_0 Gamma_1_1 Gamma_2_0 Gamma_2_1 Gamma_3_0 Gamma_3_1 gamma_1_0 gamma_1_1 gamma_2_0 gamma_2_1 gamma_3_0 gamma_3_1 rho0 rho1 rhoR_1_0 rhoR_1_1 rhoR_2_0 rhoR_2_1 rhoR_3_0 rhoR_3_1 ff_0 ff_1 ff0_1_0 ff0_1_1 ff0_2_0 ff0_2_1 ff0_3_0 ff0_3_1 : ℝ)

local notation "K00" => relK23_00 s m_1 m_2 m_3 Gamma_1_0 Gamma_1_1 Gamma_2_0 Gamma_2_1 Gamma_3_0 Gamma_3_1 gamma_1_0 gamma_1_1 gamma_2_0 gamma_2_1 gamma_3_0 gamma_3_1 (rho0 : ℂ) (rho1 : ℂ) (rhoR_1_0 : ℂ) (rhoR_1_1 : ℂ) (rhoR_2_0 : ℂ) (rhoR_2_1 : ℂ) (rhoR_3_0 : ℂ) (rhoR_3_1 : ℂ) (ff_0 : ℂ) (ff_1 : ℂ) (ff0_1_0 : ℂ) (ff0_1_1 : ℂ) (ff0_2_0 : ℂ) (ff0_2_1 : ℂ) (ff0_3_0 : ℂ) (ff0_3_1 : ℂ)
local notation "K01" => relK23_01 s m_1 m_2 m_3 Gamma_1_0 Gamma_1_1 Gamma_2_0 Gamma_2_1 Gamma_3_0 Gamma_3_1 gamma_1_0 gamma_1_1 gamma_2_0 gamma_2_1 gamma_3_0 gamma_3_1 (rho0 : ℂ) (rho1 : ℂ) (rhoR_1_0 : ℂ) (rhoR_1_1 : ℂ) (rhoR_2_0 : ℂ) (rhoR_2_1 : ℂ) (rhoR_3_0 : ℂ) (rhoR_3_1 : ℂ) (ff_0 : ℂ) (ff_1 : ℂ) (ff0_1_0 : ℂ) (ff0_1_1 : ℂ) (ff0_2_0 : ℂ) (ff0_2_1 : ℂ) (ff0_3_0 : ℂ) (ff0_3_1 : ℂ)
local notation "K10" => relK23_10 s m_1 m_2 m_3 Gamma_1_0 Gamma_1_1 Gamma_2_0 Gamma_2_1 Gamma_3_0 Gamma_3_1 gamma_1_0 gamma_1_1 gamma_2_0 gamma_2_1 gamma_3_0 gamma_3_1 (rho0 : ℂ) (rho1 : ℂ) (rhoR_1_0 : ℂ) (rhoR_1_1 : ℂ) (rhoR_2_0 : ℂ) (rhoR_2_1 : ℂ) (rhoR_3_0 : ℂ) (rhoR_3_1 : ℂ) (ff_0 : ℂ) (ff_1 : ℂ) (ff0_1_0 : ℂ) (ff0_1_1 : ℂ) (ff0_2_0 : ℂ) (ff0_2_1 : ℂ) (ff0_3_0 : ℂ) (ff0_3_1 : ℂ)
local notation "K11" => relK23_11 s m_1 m_2 m_3 Gamma_1_0 Gamma_1_1 Gamma_2_0 Gamma_2_1 Gamma_3_0 Gamma_3_1 gamma_1_0 gamma_1_1 gamma_2_0 gamma_2_1 gamma_3_0 gamma_3_1 (rho0 : ℂ) (rho1 : ℂ) (rhoR_1_0 : ℂ) (rhoR_1_1 : ℂ) (rhoR_2_0 : ℂ) (rhoR_2_1 : ℂ) (rhoR_3_0 : ℂ) (rhoR_3_1 : ℂ) (ff_0 : ℂ) (ff_1 : ℂ) (ff0_1_0 : ℂ) (ff0_1_1 : ℂ) (ff0_2_0 : ℂ) (ff0_2_1 : ℂ) (ff0_3_0 : ℂ) (ff0_3_1 : ℂ)

/-- `relK23` (3 poles): symmetric in the channel indices. -/
theorem relK23_symm : K01 = K10 := by
  simp only [relK23_01, relK23_10]; try ring

/-- `relK23` (3 poles): every entry is real for non-negative widths and (the guard) positive phase-space factors at `s` and at the pole masses. -/
theorem relK23_real (hGamma_1_0 : 0 ≤ Gamma_1_0) (hGamma_1_1 : 0 ≤ Gamma_1_1) (hGamma_2_0 : 0 ≤ Gamma_2_0) (hGamma_2_1 : 0 ≤ Gamma_2_1) (hGamma_3_0 : 0 ≤ Gamma_3_0) (hGamma_3_1 : 0 ≤ Gamma_3_1) (hrho0 : 0 < rho0) (hrho1 : 0 < rho1) (hrhoR_1_0 : 0 < rhoR_1_0) (hrhoR_1_1 : 0 < rhoR_1_1) (hrhoR_2_0 : 0 < rhoR_2_0) (hrhoR_2_1 : 0 < rhoR_2_1) (hrhoR_3_0 : 0 < rhoR_3_0) (hrhoR_3_1 : 0 < rhoR_3_1) :
    IsRe K00 ∧ IsRe K01 ∧ IsRe K10 ∧ IsRe K11 := by
  refine ⟨?_, ?_, ?_, ?_⟩ <;> simp only [relK23_00, relK23_01, relK23_10, relK23_11] <;> real_closure

end REL23

section REL24
variable (s m_1 m_2 m_3 m_4 Gamma_1_0 Gamma_1_1 Gamma_2_0 Gamma_2_1 Gamma_3_0 Gamma_3_1 Gamma_4_0 Gamma_4_1 gamma_1_0 gamma_1_1 gamma_2_0 gamma_2_1 gamma_3_0 gamma_3_1 gamma_4_0 gamma_4_1 rho0 rho1 rhoR_1_0 rhoR_1_1 rhoR_2_0 rhoR_2_1 rhoR_3_0 rhoR_3_1 rhoR_4_0 rhoR_4_1 ff_0 ff_1 ff0_1_0 ff0_1_1 ff0_2_0 ff0_2_1 ff0_3_0 ff0_3_1 ff0_4_0 ff0_4_1 : ℝ)

local notation "K00" => relK24_00 s m_1 m_2 m_3 m_4 Gamma_1_0 Gamma_1_1 Gamma_2_0 Gamma_2_1 Gamma_3_0 Gamma_3_1 Gamma_4_0 Gamma_4_1 gamma_1_0 gamma_1_1 gamma_2_0 gamma_2_1 gamma_3_0 gamma_3_1 gamma_4_0 gamma_4_1 (rho0 : ℂ) (rho1 : ℂ) (rhoR_1_0 : ℂ) (rhoR_1_1 : ℂ) (rhoR_2_0 : ℂ) (rhoR_2_1 : ℂ) (rhoR_3_0 : ℂ) (rhoR_3_1 : ℂ) (rhoR_4_0 : ℂ) (rhoR_4_1 : ℂ) (ff_0 : ℂ) (ff_1 : ℂ) (ff0_1_0 : ℂ) (ff0_1_1 : ℂ) (ff0_2_0 : ℂ) (ff0_2_1 : ℂ) (ff0_3_0 : ℂ) (ff0_3_1 : ℂ) (ff0_4_0 : ℂ) (ff0_4_1 : ℂ)
local notation "K01" => relK24_01 s m_1 m_2 m_3 m_4 Gamma_1_0 Gamma_1_1 Gamma_2_0 Gamma_2_1 Gamma_3_0 Gamma_3_1 Gamma_4_0 Gamma_4_1 gamma_1_0 gamma_1_1 gamma_2_0 gamma_2_1 gamma_3_0 gamma_3_1 gamma_4_0 gamma_4_1 (rho0 : ℂ) (rho1 : ℂ) (rhoR_1_0 : ℂ) (rhoR_1_1 : ℂ) (rhoR_2_0 : ℂ) (rhoR_2_1 : ℂ) (rhoR_3_0 : ℂ) (rhoR_3_1 : ℂ) (rhoR_4_0 : ℂ) (rhoR_4_1 : ℂ) (ff_0 : ℂ) (ff_1 : ℂ) (ff0_1_0 : ℂ) (ff0_1_1 : ℂ) (ff0_2_0 : ℂ) (ff0_2_1 : ℂ) (ff0_3_0 : ℂ) (ff0_3_1 : ℂ) (ff0_4_0 : ℂ) (ff0_4_1 : ℂ)
local notation "K10" => relK24_10 s m_1 m_2 m_3 m_4 Gamma_1_0 Gamma_1_1 Gamma_2_0 Gamma_2_1 Gamma_3_0 Gamma_3_1 Gamma_4_0 Gamma_4_1 gamma_1_0 gamma_1_1 gamma_2_0 gamma_2_1 gamma_3_0 gamma_3_1 gamma_4_0 gamma_4_1 (rho0 : ℂ) (rho1 : ℂ) (rhoR_1_0 : ℂ) (rhoR_1_1 : ℂ) (rhoR_2_0 : ℂ) (rhoR_2_1 : ℂ) (rhoR_3_0 : ℂ) (rhoR_3_1 : ℂ) (rhoR_4_0 : ℂ) (rhoR_4_1 : ℂ) (ff_0 : ℂ) (ff_1 : ℂ) (ff0_1_0 : ℂ) (ff0_1_1 : ℂ) (ff0_2_0 : ℂ) (ff0_2_1 : ℂ) (ff0_3_0 : ℂ) (ff0_3_1 : ℂ) (ff0_4_0 : ℂ) (ff0_4_1 : ℂ)
local notation "K11" => relK24_11 s m_1 m_2 m_3 m_4 Gamma_1_0 Gamma_1_1 Gamma_2_0 Gamma_2_1 Gamma_3_0 Gamma_3_1 Gamma_4_0 Gamma_4_1 gamma_1_0 gamma_1_1 gamma_2_0 gamma_2_1 gamma_3_0 gamma_3_1 gamma_4_0 gamma_4_1 (rho0 : ℂ) (rho1 : ℂ) (rhoR_1_0 : ℂ) (rhoR_1_1 : ℂ) (rhoR_2_0 : ℂ) (rhoR_2_1 : ℂ) (rhoR_3_0 : ℂ) (rhoR_3_1 : ℂ) (rhoR_4_0 : ℂ) (rhoR_4_1 : ℂ) (ff_0 : ℂ) (ff_1 : ℂ) (ff0_1_0 : ℂ) (ff0_1_1 : ℂ) (ff0_2_0 : ℂ) (ff0_2_1 : ℂ) (ff0_3_0 : ℂ) (ff0_3_1 : ℂ) (ff0_4_0 : ℂ) (ff0_4_1 : ℂ)

/-- `relK24` (4 poles): symmetric in the channel indices. -/
theorem relK24_symm : K01 = K10 := by
  simp only [relK24_01, relK24_10]; try ring

/-- `relK24` (4 poles): every entry is real for non-negative widths and (the guard) positive phase-space factors at `s` and at the pole masses. -/
theorem relK24_real (hGamma_1_0 : 0 ≤ Gamma_1_0) (hGamma_1_1 : 0 ≤ Gamma_1_1) (hGamma_2_0 : 0 ≤ Gamma_2_0) (hGamma_2_1 : 0 ≤ Gamma_2_1) (hGamma_3_0 : 0 ≤ Gamma_3_0) (hGamma_3_1 : 0 ≤ Gamma_3_1) (hGamma_4_0 : 0 ≤ Gamma_4_0) (hGamma_4_1 : 0 ≤ Gamma_4_1) (hrho0 : 0 < rho0) (hrho1 : 0 < rho1) (hrhoR_1_0 : 0 < rhoR_1_0) (hrhoR_1_1 : 0 < rhoR_1_1) (hrhoR_2_0 : 0 < rhoR_2_0) (hrhoR_2_1 : 0 < rhoR_2_1) (hrhoR_3_0 : 0 < rhoR_3_0) (hrhoR_3_1 : 0 < rhoR_3_1) (hrhoR_4_0 : 0 < rhoR_4_0) (hrhoR_4_1 : 0 < rhoR_4_1) :
    IsRe K00 ∧ IsRe K01 ∧ IsRe K10 ∧ IsRe K11 := by
  refine ⟨?_, ?_, ?_, ?_⟩ <;> simp only [relK24_00, relK24_01, relK24_10, relK24_11] <;> real_closure

end REL24

/-! ### the regenerated parametrisation is an instance of the all-poles formula -/

section
variable (s m_1 m_2 Gamma_1_0 Gamma_1_1 Gamma_2_0 Gamma_2_1 gamma_1_0 gamma_1_1 gamma_2_0 gamma_2_1 : ℝ)

/-- residue functions `g_R,i = γ_R,i √(m_R Γ_R,i)` of the non-relativistic parametrisation -/
noncomputable def nrG22 : Fin 2 → Fin 2 → ℝ :=
  ![![gamma_1_0 * Real.sqrt (m_1 * Gamma_1_0), gamma_1_1 * Real.sqrt (m_1 * Gamma_1_1)],
    ![gamma_2_0 * Real.sqrt (m_2 * Gamma_2_0), gamma_2_1 * Real.sqrt (m_2 * Gamma_2_1)]]

theorem nrK22_eq_poleK (hm1 : 0 ≤ m_1) (hm2 : 0 ≤ m_2)
    (h10 : 0 ≤ Gamma_1_0) (h11 : 0 ≤ Gamma_1_1) (h20 : 0 ≤ Gamma_2_0) (h21 : 0 ≤ Gamma_2_1) :
    !![nrK22_00 s m_1 m_2 Gamma_1_0 Gamma_1_1 Gamma_2_0 Gamma_2_1 gamma_1_0 gamma_1_1 gamma_2_0 gamma_2_1,
       nrK22_01 s m_1 m_2 Gamma_1_0 Gamma_1_1 Gamma_2_0 Gamma_2_1 gamma_1_0 gamma_1_1 gamma_2_0 gamma_2_1;
       nrK22_10 s m_1 m_2 Gamma_1_0 Gamma_1_1 Gamma_2_0 Gamma_2_1 gamma_1_0 gamma_1_1 gamma_2_0 gamma_2_1,
       nrK22_11 s m_1 m_2 Gamma_1_0 Gamma_1_1 Gamma_2_0 Gamma_2_1 gamma_1_0 gamma_1_1 gamma_2_0 gamma_2_1]
      = poleKMatrix (Finset.univ : Finset (Fin 2))
          (nrG22 m_1 m_2 Gamma_1_0 Gamma_1_1 Gamma_2_0 Gamma_2_1 gamma_1_0 gamma_1_1 gamma_2_0 gamma_2_1)
          ![m_1, m_2] s := by
  have q10 := Real.sq_sqrt h10
  have q11 := Real.sq_sqrt h11
  have q20 := Real.sq_sqrt h20
  have q21 := Real.sq_sqrt h21
  have p1 := Real.sq_sqrt hm1
  have p2 := Real.sq_sqrt hm2
  ext i j
  fin_cases i <;> fin_cases j <;>
    simp only [poleKMatrix, poleK, nrG22, nrK22_00, nrK22_01, nrK22_10, nrK22_11, Fin.sum_univ_two,
      csqrt_ofReal h10, csqrt_ofReal h11, csqrt_ofReal h20, csqrt_ofReal h21,
      Real.sqrt_mul hm1, Real.sqrt_mul hm2] <;>
    simp <;> push_cast <;>
    generalize Real.sqrt Gamma_1_0 = a10 at * <;> generalize Real.sqrt Gamma_1_1 = a11 at * <;>
    generalize Real.sqrt Gamma_2_0 = a20 at * <;> generalize Real.sqrt Gamma_2_1 = a21 at * <;>
    generalize Real.sqrt m_1 = b1 at * <;> generalize Real.sqrt m_2 = b2 at * <;>
    subst q10 q11 q20 q21 p1 p2 <;> push_cast <;> ring
end

/-! ### the relativistic parametrisation is an instance of the all-poles formula -/

section RelPole
variable (s m_1 m_2 Gamma_1_0 Gamma_1_1 Gamma_2_0 Gamma_2_1 gamma_1_0 gamma_1_1 gamma_2_0 gamma_2_1 rho0 rho1 rhoR_1_0 rhoR_1_1 rhoR_2_0 rhoR_2_1 ff_0 ff_1 ff0_1_0 ff0_1_1 ff0_2_0 ff0_2_1 : ℝ)

/-- The energy-dependent width `Γ(s) = Γ₀ (ff/ff₀)² ρ(s)/ρ(m_R²)` in the shape the source's
`EnergyDependentWidth.evaluate()` produces. -/
noncomputable def edw (Γ ff ff0 ρ ρR : ℝ) : ℝ := ff ^ 2 * (ff0 ^ 2)⁻¹ * ρR⁻¹ * Γ * ρ

/-- residue functions `g_R,i(s) = γ_R,i √(m_R Γ_R,i(s))` of the relativistic parametrisation -/
noncomputable def relG22 : Fin 2 → Fin 2 → ℝ :=
  ![![gamma_1_0 * Real.sqrt (m_1 * edw Gamma_1_0 ff_0 ff0_1_0 rho0 rhoR_1_0),
      gamma_1_1 * Real.sqrt (m_1 * edw Gamma_1_1 ff_1 ff0_1_1 rho1 rhoR_1_1)],
    ![gamma_2_0 * Real.sqrt (m_2 * edw Gamma_2_0 ff_0 ff0_2_0 rho0 rhoR_2_0),
      gamma_2_1 * Real.sqrt (m_2 * edw Gamma_2_1 ff_1 ff0_2_1 rho1 rhoR_2_1)]]

theorem relK22_eq_poleK (hm1 : 0 ≤ m_1) (hm2 : 0 ≤ m_2)
    (h10 : 0 ≤ Gamma_1_0) (h11 : 0 ≤ Gamma_1_1) (h20 : 0 ≤ Gamma_2_0) (h21 : 0 ≤ Gamma_2_1)
    (hr0 : 0 < rho0) (hr1 : 0 < rho1) (hR10 : 0 < rhoR_1_0) (hR11 : 0 < rhoR_1_1)
    (hR20 : 0 < rhoR_2_0) (hR21 : 0 < rhoR_2_1) :
    !![relK22_00 s m_1 m_2 Gamma_1_0 Gamma_1_1 Gamma_2_0 Gamma_2_1 gamma_1_0 gamma_1_1 gamma_2_0 gamma_2_1 rho0 rho1 rhoR_1_0 rhoR_1_1 rhoR_2_0 rhoR_2_1 ff_0 ff_1 ff0_1_0 ff0_1_1 ff0_2_0 ff0_2_1,
       relK22_01 s m_1 m_2 Gamma_1_0 Gamma_1_1 Gamma_2_0 Gamma_2_1 gamma_1_0 gamma_1_1 gamma_2_0 gamma_2_1 rho0 rho1 rhoR_1_0 rhoR_1_1 rhoR_2_0 rhoR_2_1 ff_0 ff_1 ff0_1_0 ff0_1_1 ff0_2_0 ff0_2_1;
       relK22_10 s m_1 m_2 Gamma_1_0 Gamma_1_1 Gamma_2_0 Gamma_2_1 gamma_1_0 gamma_1_1 gamma_2_0 gamma_2_1 rho0 rho1 rhoR_1_0 rhoR_1_1 rhoR_2_0 rhoR_2_1 ff_0 ff_1 ff0_1_0 ff0_1_1 ff0_2_0 ff0_2_1,
       relK22_11 s m_1 m_2 Gamma_1_0 Gamma_1_1 Gamma_2_0 Gamma_2_1 gamma_1_0 gamma_1_1 gamma_2_0 gamma_2_1 rho0 rho1 rhoR_1_0 rhoR_1_1 rhoR_2_0 rhoR_2_1 ff_0 ff_1 ff0_1_0 ff0_1_1 ff0_2_0 ff0_2_1]
      = poleKMatrix (Finset.univ : Finset (Fin 2))
          (relG22 m_1 m_2 Gamma_1_0 Gamma_1_1 Gamma_2_0 Gamma_2_1 gamma_1_0 gamma_1_1 gamma_2_0 gamma_2_1 rho0 rho1 rhoR_1_0 rhoR_1_1 rhoR_2_0 rhoR_2_1 ff_0 ff_1 ff0_1_0 ff0_1_1 ff0_2_0 ff0_2_1)
          ![m_1, m_2] s := by
  have x10 : 0 ≤ edw Gamma_1_0 ff_0 ff0_1_0 rho0 rhoR_1_0 := by unfold edw; positivity
  have x11 : 0 ≤ edw Gamma_1_1 ff_1 ff0_1_1 rho1 rhoR_1_1 := by unfold edw; positivity
  have x20 : 0 ≤ edw Gamma_2_0 ff_0 ff0_2_0 rho0 rhoR_2_0 := by unfold edw; positivity
  have x21 : 0 ≤ edw Gamma_2_1 ff_1 ff0_2_1 rho1 rhoR_2_1 := by unfold edw; positivity
  have q10 := Real.sq_sqrt x10
  have q11 := Real.sq_sqrt x11
  have q20 := Real.sq_sqrt x20
  have q21 := Real.sq_sqrt x21
  have p1 := Real.sq_sqrt hm1
  have p2 := Real.sq_sqrt hm2
  -- the complex square roots of the generated term are the real ones
  have c10 := csqrt_ofReal x10
  have c11 := csqrt_ofReal x11
  have c20 := csqrt_ofReal x20
  have c21 := csqrt_ofReal x21
  conv at c10 => lhs; unfold edw; simp only [Complex.ofReal_mul, Complex.ofReal_pow, Complex.ofReal_inv]
  conv at c11 => lhs; unfold edw; simp only [Complex.ofReal_mul, Complex.ofReal_pow, Complex.ofReal_inv]
  conv at c20 => lhs; unfold edw; simp only [Complex.ofReal_mul, Complex.ofReal_pow, Complex.ofReal_inv]
  conv at c21 => lhs; unfold edw; simp only [Complex.ofReal_mul, Complex.ofReal_pow, Complex.ofReal_inv]
  ext i j
  fin_cases i <;> fin_cases j <;>
    simp only [poleKMatrix, poleK, relG22, relK22_00, relK22_01, relK22_10, relK22_11, Fin.sum_univ_two,
      c10, c11, c20, c21, Real.sqrt_mul hm1, Real.sqrt_mul hm2] <;>
    generalize Real.sqrt (edw Gamma_1_0 ff_0 ff0_1_0 rho0 rhoR_1_0) = a10 at * <;>
    generalize Real.sqrt (edw Gamma_1_1 ff_1 ff0_1_1 rho1 rhoR_1_1) = a11 at * <;>
    generalize Real.sqrt (edw Gamma_2_0 ff_0 ff0_2_0 rho0 rhoR_2_0) = a20 at * <;>
    generalize Real.sqrt (edw Gamma_2_1 ff_1 ff0_2_1 rho1 rhoR_2_1) = a21 at * <;>
    generalize Real.sqrt m_1 = b1 at * <;> generalize Real.sqrt m_2 = b2 at * <;>
    subst p1 p2 <;>
    (unfold edw at q10 q11 q20 q21) <;>
    (have e10 := congrArg (fun x : ℝ => (x : ℂ)) q10
     have e11 := congrArg (fun x : ℝ => (x : ℂ)) q11
     have e20 := congrArg (fun x : ℝ => (x : ℂ)) q20
     have e21 := congrArg (fun x : ℝ => (x : ℂ)) q21
     simp
     push_cast at e10 e11 e20 e21 ⊢
     first
       | ring1
       | linear_combination (exp := 1) (-((((b1 : ℂ) ^ 2) ^ 2 - (s : ℂ))⁻¹ * (gamma_1_0 : ℂ) ^ 2 * (b1 : ℂ) ^ 2)) * e10
           + (-((((b2 : ℂ) ^ 2) ^ 2 - (s : ℂ))⁻¹ * (gamma_2_0 : ℂ) ^ 2 * (b2 : ℂ) ^ 2)) * e20
       | linear_combination (exp := 1) (-((((b1 : ℂ) ^ 2) ^ 2 - (s : ℂ))⁻¹ * (gamma_1_1 : ℂ) ^ 2 * (b1 : ℂ) ^ 2)) * e11
           + (-((((b2 : ℂ) ^ 2) ^ 2 - (s : ℂ))⁻¹ * (gamma_2_1 : ℂ) ^ 2 * (b2 : ℂ) ^ 2)) * e21)

/-- Hence the all-n / all-poles relativistic theorem applies to the source's own parametrisation:
with `K̂` the regenerated `RelativisticKMatrix.parametrization` (2 channels, 2 poles) and any positive
diagonal `ρ`, `√ρ K̂ (1 − iρK̂)⁻¹ √ρ` is unitary and symmetric. -/
theorem relK22_all_poles_unitary_symmetric (hm1 : 0 ≤ m_1) (hm2 : 0 ≤ m_2)
    (h10 : 0 ≤ Gamma_1_0) (h11 : 0 ≤ Gamma_1_1) (h20 : 0 ≤ Gamma_2_0) (h21 : 0 ≤ Gamma_2_1)
    (hr0 : 0 < rho0) (hr1 : 0 < rho1) (hR10 : 0 < rhoR_1_0) (hR11 : 0 < rhoR_1_1)
    (hR20 : 0 < rhoR_2_0) (hR21 : 0 < rhoR_2_1) (r : Fin 2 → ℝ) (hr : ∀ i, 0 < r i) :
    (1 + (2 * Complex.I) • Trel r !![relK22_00 s m_1 m_2 Gamma_1_0 Gamma_1_1 Gamma_2_0 Gamma_2_1 gamma_1_0 gamma_1_1 gamma_2_0 gamma_2_1 rho0 rho1 rhoR_1_0 rhoR_1_1 rhoR_2_0 rhoR_2_1 ff_0 ff_1 ff0_1_0 ff0_1_1 ff0_2_0 ff0_2_1,
        relK22_01 s m_1 m_2 Gamma_1_0 Gamma_1_1 Gamma_2_0 Gamma_2_1 gamma_1_0 gamma_1_1 gamma_2_0 gamma_2_1 rho0 rho1 rhoR_1_0 rhoR_1_1 rhoR_2_0 rhoR_2_1 ff_0 ff_1 ff0_1_0 ff0_1_1 ff0_2_0 ff0_2_1;
        relK22_10 s m_1 m_2 Gamma_1_0 Gamma_1_1 Gamma_2_0 Gamma_2_1 gamma_1_0 gamma_1_1 gamma_2_0 gamma_2_1 rho0 rho1 rhoR_1_0 rhoR_1_1 rhoR_2_0 rhoR_2_1 ff_0 ff_1 ff0_1_0 ff0_1_1 ff0_2_0 ff0_2_1,
        relK22_11 s m_1 m_2 Gamma_1_0 Gamma_1_1 Gamma_2_0 Gamma_2_1 gamma_1_0 gamma_1_1 gamma_2_0 gamma_2_1 rho0 rho1 rhoR_1_0 rhoR_1_1 rhoR_2_0 rhoR_2_1 ff_0 ff_1 ff0_1_0 ff0_1_1 ff0_2_0 ff0_2_1])ᴴ
      * (1 + (2 * Complex.I) • Trel r !![relK22_00 s m_1 m_2 Gamma_1_0 Gamma_1_1 Gamma_2_0 Gamma_2_1 gamma_1_0 gamma_1_1 gamma_2_0 gamma_2_1 rho0 rho1 rhoR_1_0 rhoR_1_1 rhoR_2_0 rhoR_2_1 ff_0 ff_1 ff0_1_0 ff0_1_1 ff0_2_0 ff0_2_1,
        relK22_01 s m_1 m_2 Gamma_1_0 Gamma_1_1 Gamma_2_0 Gamma_2_1 gamma_1_0 gamma_1_1 gamma_2_0 gamma_2_1 rho0 rho1 rhoR_1_0 rhoR_1_1 rhoR_2_0 rhoR_2_1 ff_0 ff_1 ff0_1_0 ff0_1_1 ff0_2_0 ff0_2_1;
        relK22_10 s m_1 m_2 Gamma_1_0 Gamma_1_1 Gamma_2_0 Gamma_2_1 gamma_1_0 gamma_1_1 gamma_2_0 gamma_2_1 rho0 rho1 rhoR_1_0 rhoR_1_1 rhoR_2_0 rhoR_2_1 ff_0 ff_1 ff0_1_0 ff0_1_1 ff0_2_0 ff0_2_1,
        relK22_11 s m_1 m_2 Gamma_1_0 Gamma_1_1 Gamma_2_0 Gamma_2_1 gamma_1_0 gamma_1_1 gamma_2_0 gamma_2_1 rho0 rho1 rhoR_1_0 rhoR_1_1 rhoR_2_0 rhoR_2_1 ff_0 ff_1 ff0_1_0 ff0_1_1 ff0_2_0 ff0_2_1]) = 1
    ∧ (Trel r !![relK22_00 s m_1 m_2 Gamma_1_0 Gamma_1_1 Gamma_2_0 Gamma_2_1 gamma_1_0 gamma_1_1 gamma_2_0 gamma_2_1 rho0 rho1 rhoR_1_0 rhoR_1_1 rhoR_2_0 rhoR_2_1 ff_0 ff_1 ff0_1_0 ff0_1_1 ff0_2_0 ff0_2_1,
        relK22_01 s m_1 m_2 Gamma_1_0 Gamma_1_1 Gamma_2_0 Gamma_2_1 gamma_1_0 gamma_1_1 gamma_2_0 gamma_2_1 rho0 rho1 rhoR_1_0 rhoR_1_1 rhoR_2_0 rhoR_2_1 ff_0 ff_1 ff0_1_0 ff0_1_1 ff0_2_0 ff0_2_1;
        relK22_10 s m_1 m_2 Gamma_1_0 Gamma_1_1 Gamma_2_0 Gamma_2_1 gamma_1_0 gamma_1_1 gamma_2_0 gamma_2_1 rho0 rho1 rhoR_1_0 rhoR_1_1 rhoR_2_0 rhoR_2_1 ff_0 ff_1 ff0_1_0 ff0_1_1 ff0_2_0 ff0_2_1,
        relK22_11 s m_1 m_2 Gamma_1_0 Gamma_1_1 Gamma_2_0 Gamma_2_1 gamma_1_0 gamma_1_1 gamma_2_0 gamma_2_1 rho0 rho1 rhoR_1_0 rhoR_1_1 rhoR_2_0 rhoR_2_1 ff_0 ff_1 ff0_1_0 ff0_1_1 ff0_2_0 ff0_2_1])ᵀ
      = Trel r !![relK22_00 s m_1 m_2 Gamma_1_0 Gamma_1_1 Gamma_2_0 Gamma_2_1 gamma_1_0 gamma_1_1 gamma_2_0 gamma_2_1 rho0 rho1 rhoR_1_0 rhoR_1_1 rhoR_2_0 rhoR_2_1 ff_0 ff_1 ff0_1_0 ff0_1_1 ff0_2_0 ff0_2_1,
        relK22_01 s m_1 m_2 Gamma_1_0 Gamma_1_1 Gamma_2_0 Gamma_2_1 gamma_1_0 gamma_1_1 gamma_2_0 gamma_2_1 rho0 rho1 rhoR_1_0 rhoR_1_1 rhoR_2_0 rhoR_2_1 ff_0 ff_1 ff0_1_0 ff0_1_1 ff0_2_0 ff0_2_1;
        relK22_10 s m_1 m_2 Gamma_1_0 Gamma_1_1 Gamma_2_0 Gamma_2_1 gamma_1_0 gamma_1_1 gamma_2_0 gamma_2_1 rho0 rho1 rhoR_1_0 rhoR_1_1 rhoR_2_0 rhoR_2_1 ff_0 ff_1 ff0_1_0 ff0_1_1 ff0_2_0 ff0_2_1,
        relK22_11 s m_1 m_2 Gamma_1_0 Gamma_1_1 Gamma_2_0 Gamma_2_1 gamma_1_0 gamma_1_1 gamma_2_0 gamma_2_1 rho0 rho1 rhoR_1_0 rhoR_1_1 rhoR_2_0 rhoR_2_1 ff_0 ff_1 ff0_1_0 ff0_1_1 ff0_2_0 ff0_2_1] := by
  rw [relK22_eq_poleK s m_1 m_2 Gamma_1_0 Gamma_1_1 Gamma_2_0 Gamma_2_1 gamma_1_0 gamma_1_1 gamma_2_0
    gamma_2_1 rho0 rho1 rhoR_1_0 rhoR_1_1 rhoR_2_0 rhoR_2_1 ff_0 ff_1 ff0_1_0 ff0_1_1 ff0_2_0 ff0_2_1
    hm1 hm2 h10 h11 h20 h21 hr0 hr1 hR10 hR11 hR20 hR21]
  exact rel_pole_unitary_symmetric_all_n_all_poles _ _ _ _ r hr

end RelPole

/-! ## Part E — the guard is needed -/

/-- **Witness for the known finding** (relativistic K-matrix, pole mass below the channel
threshold): when the phase-space factor at the pole mass `ρ(m_R²)` is imaginary — which is what
`PhaseSpaceFactor` returns for `m_R < m_a + m_b` — the regenerated one-channel, one-pole T-matrix
is NOT unitary although every parameter is real and `s` is above threshold and away from the pole.
Instance: `s = 4, m_R = Γ = γ = 1, ρ(s) = 1, ρ(m_R²) = i`, form factors 1: `S = 1/2`. -/
theorem relForm11_witness_subthreshold :
    ∃ (s m_1 Gamma_1_0 gamma_1_0 rho0 ff_0 ff0_1_0 : ℝ) (rhoR_1_0 : ℂ),
      0 ≤ s ∧ 0 ≤ m_1 ∧ 0 ≤ Gamma_1_0 ∧ 0 ≤ gamma_1_0 ∧ 0 < rho0 ∧ m_1 ^ 2 ≠ s ∧ rhoR_1_0.re = 0 ∧
      (1 + 2 * Complex.I * relForm11_00 s m_1 Gamma_1_0 gamma_1_0 rho0 rhoR_1_0 ff_0 ff0_1_0)
        * (starRingEnd ℂ) (1 + 2 * Complex.I * relForm11_00 s m_1 Gamma_1_0 gamma_1_0 rho0 rhoR_1_0 ff_0 ff0_1_0) ≠ 1 := by
  refine ⟨4, 1, 1, 1, 1, 1, 1, Complex.I, by norm_num, by norm_num, by norm_num, by norm_num, by norm_num, by norm_num, by simp, ?_⟩
  have hK : relK11_00 4 1 1 1 ((1 : ℝ) : ℂ) Complex.I ((1 : ℝ) : ℂ) ((1 : ℝ) : ℂ) = Complex.I / 3 := by
    simp only [relK11_00]
    push_cast
    rw [Complex.inv_I]
    norm_num
    ring
  have hT : relForm11_00 4 1 1 1 ((1 : ℝ) : ℂ) Complex.I ((1 : ℝ) : ℂ) ((1 : ℝ) : ℂ) = Complex.I / 4 := by
    simp only [relForm11_00, hK]
    push_cast
    rw [Complex.one_cpow]
    have h3 : Complex.I + 1 * (Complex.I / 3) = Complex.I * (4 / 3) := by ring
    rw [h3, mul_inv, Complex.inv_I]
    simp
    ipow
  rw [hT]
  have h2 : (1 : ℂ) + 2 * Complex.I * (Complex.I / 4) = ((1 / 2 : ℝ) : ℂ) := by
    push_cast; ring_nf; rw [Complex.I_sq]; norm_num
  rw [h2, Complex.conj_ofReal, ← Complex.ofReal_mul]
  norm_num

/-! ## Part F — the guard is about the CALLER's phase-space factor: `formulate` forwards it

The theorems of Part D are conditional on `0 < ρ_i(s)` and `0 < ρ_i(m_R²)` where `ρ` (`rho{i}`,
`rhoR_{R}_{i}`) is ONE phase-space implementation: the one passed to `formulate`. That the ρ of
`√ρ K̂ (1 − iρK̂)⁻¹ √ρ` and the ρ inside every energy-dependent width are this same implementation
(and every form factor carries the passed angular momentum / radius) is a fact about the source; it is
regenerated as `occTable` (from `formulate(..., phsp_factor=PhaseSpaceFactorC09Marker,
angular_momentum=L, meson_radius=d)`, the same call that the definitions of Part D are translated
from) and decided by the kernel. With a factor that is real and positive below threshold
(`PhaseSpaceFactorAbs`) the guard holds for sub-threshold poles too, so those inputs must be unitary. -/

/-- An itemised occurrence carries the passed arguments; pole and channel were identified. -/
def itemOk (it : OccItem) : Bool :=
  it.pole != 99 && it.channel != 99 &&
  (if it.kind == "W" then
      it.phsp == "PhaseSpaceFactorC09Marker" && it.angMom == "L" && it.radius == "d"
   else if it.kind == "Wf" || it.kind == "F" then it.angMom == "L" && it.radius == "d"
   else (it.kind == "R" || it.kind == "Wr") && it.phsp == "PhaseSpaceFactorC09Marker")

def hasItem (o : Occ) (k : String) (R i : Nat) : Bool :=
  o.items.any fun it => it.kind == k && it.pole == R && it.channel == i

/-- Every channel has its phase-space node at `s` in the matrix expression; every pole × channel has
its energy-dependent width, and inside that width the phase-space nodes and form factors at `s` and
at `m_R²`. -/
def covers (o : Occ) : Bool :=
  (List.range o.nChannels).all fun i =>
    hasItem o "R" 0 i && hasItem o "Wr" 0 i && hasItem o "Wf" 0 i &&
      ((List.range o.nPoles).all fun r =>
        hasItem o "W" (r + 1) i && hasItem o "Wr" (r + 1) i && hasItem o "Wf" (r + 1) i)

/-- A row forwards the arguments: the relativistic class contains exactly the passed phase-space
implementation, angular momentum and radius — as sets and for every pole × channel, inside the
widths too; the non-relativistic class (which takes none of them) contains none. -/
def honours (o : Occ) : Bool :=
  if o.relativistic then
    (o.phsp == ["PhaseSpaceFactorC09Marker"] && o.angMom == ["L"] && o.radius == ["d"]
      && o.items.all itemOk && covers o)
  else (o.phsp == [] && o.angMom == [] && o.radius == [] && o.items.isEmpty)

/-- **The phase-space factor, angular momentum and meson radius passed to `formulate` are the only
ones that occur anywhere in the formulated T-matrix, the energy-dependent widths included** — both
K-matrix classes, n, n_R ∈ {1,2}, `return_t_hat` on/off. -/
theorem formulate_forwards_arguments : occTable.all honours = true := by decide

/-- The table is not empty: both classes, every (n, n_R) ∈ {1,2}², `return_t_hat` on and off. -/
theorem occTable_covers :
    occTable.length = 12 ∧
    (∀ c ∈ ["NonRelativisticKMatrix", "RelativisticKMatrix"], ∀ n ∈ [1, 2], ∀ p ∈ [1, 2],
      occTable.any (fun o => o.cls == c && o.nChannels == n && o.nPoles == p) = true) ∧
    (∀ h ∈ [true, false], occTable.any (fun o => o.relativistic && o.hat == h && o.nChannels == 2
      && o.nPoles == 2) = true) := by
  decide

/-! ## Non-vacuity of the hypotheses -/

/-- The denominators of the regenerated entries are non-zero e.g. at K = 0 (and, by
`nrT2M_unitary_symmetric` / `relT2M_unitary_symmetric`, at every real symmetric K). -/
example : nrT2_den1 0 0 0 0 ≠ 0 ∧ nrT2_den2 0 0 0 0 ≠ 0 := by
  simp [nrT2_den1, nrT2_den2]

example : relT2_den1 1 1 0 0 0 0 ≠ 0 := by simp [relT2_den1]

/-- The hypotheses of the relativistic `formulate` theorem (the guard included) are satisfiable. -/
example : ∃ T : Matrix (Fin 1) (Fin 1) ℂ, (1 + (2 * Complex.I) • T)ᴴ * (1 + (2 * Complex.I) • T) = 1 :=
  ⟨_, (relForm11_unitary_symmetric 4 1 1 1 1 1 1 1 zero_le_one zero_lt_one zero_lt_one).1⟩

end Ampverif.Props.C09
