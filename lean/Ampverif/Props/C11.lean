/-
C11 — all phase-space-factor variants agree where they must.

All theorems are about `Ampverif.Gen.C11.*`, REGENERATED from
`/repo/src/ampform/dynamics/phasespace.py` and `sympy/math.py` on every run (typed translation:
real sub-terms over ℝ, principal complex `sqrt`/`log` where the source applies them to a possibly
negative real). Only property theorems live here; helper lemmas are in `Lemmas/C11*.lean`.
-/
import Ampverif.Gen.C11
import Ampverif.Lemmas.C11Defs
import Ampverif.Lemmas.C11CM
import Ampverif.Lemmas.C11Equal
import Ampverif.Lemmas.C11Cont

namespace Ampverif.Props.C11
open Ampverif.Gen.C11 Ampverif.Lemmas.C11 Filter Topology

/-! ### Break-up momentum squared -/

theorem q2_symm (s m1 m2 : ℝ) : BreakupMomentumSquared s m1 m2 = BreakupMomentumSquared s m2 m1 := by
  unfold BreakupMomentumSquared; ring

theorem q2_zero_at_threshold (m1 m2 : ℝ) : BreakupMomentumSquared ((m1 + m2) ^ 2) m1 m2 = 0 := by
  unfold BreakupMomentumSquared; ring

theorem q2_zero_at_pseudo_threshold (m1 m2 : ℝ) : BreakupMomentumSquared ((m1 - m2) ^ 2) m1 m2 = 0 := by
  unfold BreakupMomentumSquared; ring

/-- …and nowhere else: for `s ≠ 0`, `q² = 0` exactly at `s = (m1 ± m2)²`. -/
theorem q2_eq_zero_iff {s : ℝ} (hs : s ≠ 0) (m1 m2 : ℝ) :
    BreakupMomentumSquared s m1 m2 = 0 ↔ s = (m1 + m2) ^ 2 ∨ s = (m1 - m2) ^ 2 := by
  rw [q2_eq, div_eq_zero_iff, mul_eq_zero, sub_eq_zero, sub_eq_zero]
  constructor
  · rintro (h | h)
    · exact h
    · exact absurd h (by positivity)
  · exact Or.inl

/-! ### Above threshold: `Re ρ_X = 2√q²/√s` for all five variants -/

/-- `PhaseSpaceFactor` is real and equals `2√q²/√s` above threshold. -/
theorem rho_above (s m1 m2 : ℝ) (h1 : 0 ≤ m1) (h2 : 0 ≤ m2) (h : (m1 + m2) ^ 2 < s) :
    PhaseSpaceFactor s m1 m2
      = ((2 * Real.sqrt (BreakupMomentumSquared s m1 m2) / Real.sqrt s : ℝ) : ℂ) := by
  obtain ⟨hs, hq⟩ := above_pos h1 h2 h
  unfold PhaseSpaceFactor
  rw [csqrt_ofReal_of_nonneg hs.le, csqrt_ofReal_of_nonneg hq.le]
  push_cast; ring

theorem rho_above_re (s m1 m2 : ℝ) (h1 : 0 ≤ m1) (h2 : 0 ≤ m2) (h : (m1 + m2) ^ 2 < s) :
    (PhaseSpaceFactor s m1 m2).re
      = 2 * Real.sqrt (BreakupMomentumSquared s m1 m2) / Real.sqrt s := by
  rw [rho_above s m1 m2 h1 h2 h, Complex.ofReal_re]

theorem rho_abs_above (s m1 m2 : ℝ) (h1 : 0 ≤ m1) (h2 : 0 ≤ m2) (h : (m1 + m2) ^ 2 < s) :
    PhaseSpaceFactorAbs s m1 m2
      = 2 * Real.sqrt (BreakupMomentumSquared s m1 m2) / Real.sqrt s := by
  obtain ⟨hs, hq⟩ := above_pos h1 h2 h
  unfold PhaseSpaceFactorAbs
  rw [abs_of_pos hs, abs_of_pos hq]
  ring

theorem rho_complex_above (s m1 m2 : ℝ) (h1 : 0 ≤ m1) (h2 : 0 ≤ m2) (h : (m1 + m2) ^ 2 < s) :
    PhaseSpaceFactorComplex s m1 m2
      = ((2 * Real.sqrt (BreakupMomentumSquared s m1 m2) / Real.sqrt s : ℝ) : ℂ) := by
  obtain ⟨hs, hq⟩ := above_pos h1 h2 h
  unfold PhaseSpaceFactorComplex
  rw [csqrt_ofReal_of_nonneg hs.le, ComplexSqrt_of_nonneg hq.le]
  push_cast; ring

theorem rho_complex_above_re (s m1 m2 : ℝ) (h1 : 0 ≤ m1) (h2 : 0 ≤ m2) (h : (m1 + m2) ^ 2 < s) :
    (PhaseSpaceFactorComplex s m1 m2).re
      = 2 * Real.sqrt (BreakupMomentumSquared s m1 m2) / Real.sqrt s := by
  rw [rho_complex_above s m1 m2 h1 h2 h, Complex.ofReal_re]

/-- `Re ρ_eq = ρ̂ = 2√q²/√s` above threshold (any masses, not only equal ones). -/
theorem rho_eq_above_re (s m1 m2 : ℝ) (h1 : 0 ≤ m1) (h2 : 0 ≤ m2) (h : (m1 + m2) ^ 2 < s) :
    (EqualMassPhaseSpaceFactor s m1 m2).re
      = 2 * Real.sqrt (BreakupMomentumSquared s m1 m2) / Real.sqrt s := by
  obtain ⟨hs, hq⟩ := above_pos h1 h2 h
  rw [← rho_abs_above s m1 m2 h1 h2 h]
  unfold EqualMassPhaseSpaceFactor
  rw [if_neg (not_lt.mpr hs.le), if_pos h]
  simp

/-- The S-wave factor is `-i` times the Chew–Mandelstam function (two regenerated definitions). -/
theorem rho_cm_def (s m1 m2 : ℝ) :
    PhaseSpaceFactorSWave s m1 m2 = -Complex.I * chewMandelstamSWave s m1 m2 :=
  swave_eq_neg_I_mul_cm s m1 m2

/-- `Re ρ_CM = 2√q²/√s` above threshold (positive masses): the argument of the logarithm is a
negative real there and `log w = log(-w) + iπ`. -/
theorem rho_cm_above_re (s m1 m2 : ℝ) (h1 : 0 < m1) (h2 : 0 < m2) (h : (m1 + m2) ^ 2 < s) :
    (PhaseSpaceFactorSWave s m1 m2).re
      = 2 * Real.sqrt (BreakupMomentumSquared s m1 m2) / Real.sqrt s := by
  rw [swave_eq_neg_I_mul_cm, cm_above h1 h2 h]
  have hpi : Real.pi ≠ 0 := Real.pi_ne_zero
  simp
  field_simp

/-! ### Between pseudo-threshold and threshold: `ρ_complex = i·ρ_abs` -/

theorem rho_complex_between (s m1 m2 : ℝ) (hlo : (m1 - m2) ^ 2 < s) (hhi : s < (m1 + m2) ^ 2) :
    PhaseSpaceFactorComplex s m1 m2 = Complex.I * ((PhaseSpaceFactorAbs s m1 m2 : ℝ) : ℂ) := by
  obtain ⟨hs, hq⟩ := between_neg hlo hhi
  unfold PhaseSpaceFactorComplex PhaseSpaceFactorAbs
  rw [csqrt_ofReal_of_nonneg hs.le, ComplexSqrt_of_neg hq, abs_of_pos hs, abs_of_neg hq]
  push_cast; ring

/-- the same for the plain `PhaseSpaceFactor` (principal root of the negative `q²`) -/
theorem rho_between (s m1 m2 : ℝ) (hlo : (m1 - m2) ^ 2 < s) (hhi : s < (m1 + m2) ^ 2) :
    PhaseSpaceFactor s m1 m2 = Complex.I * ((PhaseSpaceFactorAbs s m1 m2 : ℝ) : ℂ) := by
  obtain ⟨hs, hq⟩ := between_neg hlo hhi
  unfold PhaseSpaceFactor PhaseSpaceFactorAbs
  rw [csqrt_ofReal_of_nonneg hs.le, csqrt_ofReal_of_neg hq, abs_of_pos hs, abs_of_neg hq]
  push_cast; ring

/-! ### Equal masses: `ρ_eq = ρ_CM` on the whole real axis

Region by region (`m > 0`): above threshold the Chew–Mandelstam logarithm has a negative real
argument (`log w = log|w| + iπ`), below zero both roots are `i√(-·)` and the argument is a positive
real, in between the argument is the unit complex number `exp(2i·arctan(1/ρ̂))`. -/

/-- `s > 4m²` -/
theorem rho_eq_eq_cm_above (s m : ℝ) (hm : 0 < m) (h : 4 * m ^ 2 < s) :
    EqualMassPhaseSpaceFactor s m m = PhaseSpaceFactorSWave s m m := by
  obtain ⟨hρ0, hρ1, hcm⟩ := cm_equal_above hm h
  have hthr : (m + m) ^ 2 < s := by nlinarith
  have hs : 0 < s := by nlinarith [mul_pos hm hm]
  rw [swave_eq_neg_I_mul_cm, hcm]
  unfold EqualMassPhaseSpaceFactor
  rw [if_neg (not_lt.mpr hs.le), if_pos hthr]
  set ρ := PhaseSpaceFactorAbs s m m
  have habs : |((-1 : ℝ) + ρ)⁻¹ * ((1 : ℝ) + ρ)| = (1 + ρ) / (1 - ρ) := by
    have : ((-1 : ℝ) + ρ)⁻¹ * ((1 : ℝ) + ρ) = -((1 + ρ) / (1 - ρ)) := by
      have h1 : (-1 : ℝ) + ρ ≠ 0 := by linarith
      have h2 : (1 : ℝ) - ρ ≠ 0 := by linarith
      field_simp
      ring
    rw [this, abs_neg, abs_of_pos (by apply div_pos <;> linarith)]
  have hlog : Real.log ((1 - ρ) / (1 + ρ)) = -Real.log ((1 + ρ) / (1 - ρ)) := by
    rw [← Real.log_inv, inv_div]
  rw [habs, hlog]
  have hpi : (Real.pi : ℂ) ≠ 0 := by exact_mod_cast Real.pi_ne_zero
  push_cast
  field_simp
  linear_combination ((ρ : ℂ) * (Real.pi : ℂ)) * Complex.I_sq


/-- `s < 0` — the region in which `PhaseSpaceFactorAbs` must divide by `√|s|`, not `√s`
(fix d4fb37e): with `√s` the left-hand side would be `0`. -/
theorem rho_eq_eq_cm_neg (s m : ℝ) (hm : 0 < m) (hs : s < 0) :
    EqualMassPhaseSpaceFactor s m m = PhaseSpaceFactorSWave s m m := by
  obtain ⟨hρ1, hcm⟩ := cm_equal_neg hm hs
  rw [swave_eq_neg_I_mul_cm, hcm]
  unfold EqualMassPhaseSpaceFactor
  rw [if_pos hs]
  set ρ := PhaseSpaceFactorAbs s m m
  have habs : |((-1 : ℝ) + ρ)⁻¹ * ((1 : ℝ) + ρ)| = (ρ + 1) / (ρ - 1) := by
    have : ((-1 : ℝ) + ρ)⁻¹ * ((1 : ℝ) + ρ) = (ρ + 1) / (ρ - 1) := by
      have h1 : (-1 : ℝ) + ρ ≠ 0 := by linarith
      have h2 : ρ - 1 ≠ 0 := by linarith
      field_simp
      ring
    rw [this, abs_of_pos (by apply div_pos <;> linarith)]
  have hlog : Real.log ((ρ - 1) / (ρ + 1)) = -Real.log ((ρ + 1) / (ρ - 1)) := by
    rw [← Real.log_inv, inv_div]
  rw [habs, hlog]
  push_cast
  ring

/-- `0 < s < 4m²` (uses `arg(exp(2iα)) = 2α` for `α = arctan(1/ρ̂) ∈ (0, π/2)`) -/
theorem rho_eq_eq_cm_sub (s m : ℝ) (hm : 0 < m) (hs : 0 < s) (h : s < 4 * m ^ 2) :
    EqualMassPhaseSpaceFactor s m m = PhaseSpaceFactorSWave s m m := by
  obtain ⟨hρ0, hcm⟩ := cm_equal_sub hm hs h
  have hthr : ¬ (m + m) ^ 2 < s := by rw [not_lt]; nlinarith
  rw [swave_eq_neg_I_mul_cm, hcm]
  unfold EqualMassPhaseSpaceFactor
  rw [if_neg (not_lt.mpr hs.le), if_neg hthr]
  push_cast
  linear_combination (2 * ((Real.pi : ℂ))⁻¹ * ((PhaseSpaceFactorAbs s m m : ℝ) : ℂ)
    * ((Real.arctan (PhaseSpaceFactorAbs s m m)⁻¹ : ℝ) : ℂ) * Complex.I) * Complex.I_sq

/-- at threshold both vanish -/
theorem rho_eq_at_threshold (m : ℝ) : EqualMassPhaseSpaceFactor (4 * m ^ 2) m m = 0 := by
  have h0 : BreakupMomentumSquared (4 * m ^ 2) m m = 0 := by
    have := q2_zero_at_threshold m m
    rwa [show (m + m) ^ 2 = 4 * m ^ 2 by ring] at this
  have hrho : PhaseSpaceFactorAbs (4 * m ^ 2) m m = 0 := by
    unfold PhaseSpaceFactorAbs; rw [h0]; simp
  unfold EqualMassPhaseSpaceFactor
  rw [hrho]
  have h1 : ¬ (4 * m ^ 2 < 0) := by rw [not_lt]; positivity
  have h2 : ¬ ((m + m) ^ 2 < 4 * m ^ 2) := by rw [not_lt]; nlinarith
  rw [if_neg h1, if_neg h2]
  simp

theorem rho_cm_at_threshold (m : ℝ) : PhaseSpaceFactorSWave (4 * m ^ 2) m m = 0 := by
  have h0 : BreakupMomentumSquared (4 * m ^ 2) m m = 0 := by
    have := q2_zero_at_threshold m m
    rwa [show (m + m) ^ 2 = 4 * m ^ 2 by ring] at this
  unfold PhaseSpaceFactorSWave
  rw [h0, ComplexSqrt_of_nonneg le_rfl]
  simp

/-- **Equal masses: the two analytic continuations are the same function on the whole real axis**
(`s = 0` is the pole of `q²` and excluded). -/
theorem rho_eq_eq_cm (s m : ℝ) (hm : 0 < m) (hs : s ≠ 0) :
    EqualMassPhaseSpaceFactor s m m = PhaseSpaceFactorSWave s m m := by
  rcases lt_trichotomy s 0 with h | h | h
  · exact rho_eq_eq_cm_neg s m hm h
  · exact absurd h hs
  · rcases lt_trichotomy s (4 * m ^ 2) with h' | h' | h'
    · exact rho_eq_eq_cm_sub s m hm h h'
    · rw [h', rho_eq_at_threshold, rho_cm_at_threshold]
    · exact rho_eq_eq_cm_above s m hm h'

/-- For `s < 0` the common value is a NON-ZERO imaginary number `i·ρ̂·log((ρ̂+1)/(ρ̂-1))/π` with
`ρ̂ > 1` (before fix d4fb37e the equal-mass factor evaluated to 0 there). -/
theorem rho_eq_neg_ne_zero (s m : ℝ) (hm : 0 < m) (hs : s < 0) :
    EqualMassPhaseSpaceFactor s m m ≠ 0 ∧ (EqualMassPhaseSpaceFactor s m m).re = 0 := by
  obtain ⟨hρ1, -⟩ := cm_equal_neg hm hs
  unfold EqualMassPhaseSpaceFactor
  rw [if_pos hs]
  set ρ := PhaseSpaceFactorAbs s m m
  have hx : |((-1 : ℝ) + ρ)⁻¹ * ((1 : ℝ) + ρ)| = (ρ + 1) / (ρ - 1) := by
    have : ((-1 : ℝ) + ρ)⁻¹ * ((1 : ℝ) + ρ) = (ρ + 1) / (ρ - 1) := by
      have h1 : (-1 : ℝ) + ρ ≠ 0 := by linarith
      have h2 : ρ - 1 ≠ 0 := by linarith
      field_simp
      ring
    rw [this, abs_of_pos (by apply div_pos <;> linarith)]
  have hlog : 0 < Real.log (|((-1 : ℝ) + ρ)⁻¹ * ((1 : ℝ) + ρ)|) := by
    rw [hx]; apply Real.log_pos; rw [lt_div_iff₀ (by linarith)]; linarith
  constructor
  · have hpi : (Real.pi⁻¹ : ℝ) ≠ 0 := inv_ne_zero Real.pi_ne_zero
    have hρ : ρ ≠ 0 := by linarith
    simp only [ne_eq, mul_eq_zero, Complex.I_ne_zero, Complex.ofReal_eq_zero, false_or, not_or]
    exact ⟨⟨hpi, hρ⟩, hlog.ne'⟩
  · simp

/-! ### Continuity at the equal-mass threshold -/

/-- **`ρ_eq` is continuous at the equal-mass threshold `s = 4m²`.** -/
theorem rho_eq_continuousAt_threshold (m : ℝ) (hm : 0 < m) :
    ContinuousAt (fun s => EqualMassPhaseSpaceFactor s m m) (4 * m ^ 2) := by
  have hs0 : (0 : ℝ) < 4 * m ^ 2 := by positivity
  have hc := rhoAbs_continuousAt m (4 * m ^ 2) hs0.ne'
  have hρ0 : PhaseSpaceFactorAbs (4 * m ^ 2) m m = 0 := by
    have h0 : BreakupMomentumSquared (4 * m ^ 2) m m = 0 := by rw [q2_equal hs0.ne']; ring
    unfold PhaseSpaceFactorAbs; rw [h0]; simp
  have hf0 : EqualMassPhaseSpaceFactor (4 * m ^ 2) m m = 0 := by
    unfold EqualMassPhaseSpaceFactor
    rw [hρ0, if_neg (not_lt.mpr hs0.le), if_neg (by rw [not_lt]; nlinarith)]
    simp
  have hc : Tendsto (fun s => PhaseSpaceFactorAbs s m m) (𝓝 (4 * m ^ 2)) (𝓝 0) := by
    have := hc.tendsto
    rwa [hρ0] at this
  show Tendsto (fun s => EqualMassPhaseSpaceFactor s m m) (𝓝 (4 * m ^ 2))
    (𝓝 (EqualMassPhaseSpaceFactor (4 * m ^ 2) m m))
  rw [hf0]
  have hev1 : ∀ᶠ s in 𝓝 (4 * m ^ 2), 0 < s := lt_mem_nhds hs0
  have hev2 : ∀ᶠ s in 𝓝 (4 * m ^ 2), PhaseSpaceFactorAbs s m m < 1 / 2 :=
    hc.eventually (Iio_mem_nhds (by norm_num))
  apply squeeze_zero_norm' (a := fun s => 2 * PhaseSpaceFactorAbs s m m)
  · filter_upwards [hev1, hev2] with s h1 h2
    exact rho_eq_norm_le s m m h1 h2.le
  · have := hc.const_mul 2
    simpa using this

/-- …and so is the S-wave Chew–Mandelstam factor (it is the same function near the threshold). -/
theorem rho_cm_continuousAt_threshold (m : ℝ) (hm : 0 < m) :
    ContinuousAt (fun s => PhaseSpaceFactorSWave s m m) (4 * m ^ 2) := by
  have hs0 : (0 : ℝ) < 4 * m ^ 2 := by positivity
  refine (rho_eq_continuousAt_threshold m hm).congr ?_
  filter_upwards [lt_mem_nhds hs0] with s hs
  exact rho_eq_eq_cm s m hm hs.ne'

/-! ### Non-vacuity: the hypotheses are satisfiable and the regions are inhabited -/

example : BreakupMomentumSquared 2 (1 / 2) (1 / 2) = 1 / 4 := by
  unfold BreakupMomentumSquared; norm_num

example : (PhaseSpaceFactorSWave 2 (1 / 2) (1 / 2)).re
    = 2 * Real.sqrt (BreakupMomentumSquared 2 (1 / 2) (1 / 2)) / Real.sqrt 2 :=
  rho_cm_above_re 2 (1 / 2) (1 / 2) (by norm_num) (by norm_num) (by norm_num)

example : PhaseSpaceFactorComplex (1 / 2) (3 / 10) (7 / 10)
    = Complex.I * ((PhaseSpaceFactorAbs (1 / 2) (3 / 10) (7 / 10) : ℝ) : ℂ) :=
  rho_complex_between _ _ _ (by norm_num) (by norm_num)

example : EqualMassPhaseSpaceFactor (-3) (1 / 2) (1 / 2) = PhaseSpaceFactorSWave (-3) (1 / 2) (1 / 2) :=
  rho_eq_eq_cm _ _ (by norm_num) (by norm_num)

end Ampverif.Props.C11
