/-
C04 — the unpolarised intensity is invariant under a global rotation of the event.

Only property theorems and non-vacuity examples live here; the lemmas are in
`Ampverif/Lemmas/C04*.lean`, the executable frame model in `Ampverif/Model/C04Frames.lean`.
`Ampverif.Gen.C04` (matrices `RotZ/RotY/BoostZ`, `PhiOf/ThetaOf`, SymPy's `D1`) is REGENERATED from
the working tree on every run.

Layers: (K) kinematics over ℝ — unconditional; (A) algebra over ℂ for an abstract `WignerRep`
(a structure of hypotheses); (I) the instances J = 0 and J = 1, J = 1 tied to SymPy's D¹;
(KA) the two layers combined for the two-level chains of three-body decays; (W) what the pinned
source's opposite-helicity convention does. The statement for arbitrary trees is kept as
`C04_full_statement : Prop` (not asserted).
-/
import Ampverif.Lemmas.C04Rest
import Ampverif.Lemmas.C04Opposite
import Ampverif.Lemmas.C04Inst
import Ampverif.Lemmas.C04TreeInst
import Ampverif.Lemmas.C04TreeFull
import Ampverif.Lemmas.C04Event
import Ampverif.Lemmas.C04HalfCover
import Ampverif.Lemmas.C04SpinTables
import Ampverif.Model.C04Frames

namespace Ampverif.Props.C04
open Matrix Ampverif.Gen.C04 Ampverif.Lemmas.C04

/-! ## (K) kinematics on the regenerated matrices -/

/-- `RotationZMatrix(a) · RotationZMatrix(b) = RotationZMatrix(a + b)` -/
theorem C04_K_RotZ_additive (a b : ℝ) : RotZ a * RotZ b = RotZ (a + b) := RotZ_add a b

/-- `RotationYMatrix(a) · RotationYMatrix(b) = RotationYMatrix(a + b)` -/
theorem C04_K_RotY_additive (a b : ℝ) : RotY a * RotY b = RotY (a + b) := RotY_add a b

/-- `BoostZMatrix(β)` commutes with `RotationZMatrix(a)` (every β, also unphysical ones) -/
theorem C04_K_BoostZ_commutes_RotZ (b a : ℝ) : BoostZ b * RotZ a = RotZ a * BoostZ b :=
  BoostZ_comm_RotZ b a

/-- `h(v) = Rz(Phi v) Ry(Theta v)` maps ẑ to `v/|v|`, for every non-zero `v`; `Phi`, `Theta` are the
regenerated `atan2(p_y, p_x)` and `acos(p_z/|p|)`. -/
theorem C04_K_frame_maps_z_to_direction (v : Fin 3 → ℝ) (hv : 0 < nrm v) :
    hframe (phiOf v) (thetaOf v) *ᵥ ez = (nrm v)⁻¹ • v := hframe_angles v hv

/-- The source's chain `BoostZ(|p|/E) · RotY(−Theta P) · RotZ(−Phi P)` takes a time-like subsystem
momentum `P` to `(m, 0, 0, 0)`, `m = √(E² − |p|²)`. -/
theorem C04_K_helicity_frame_is_rest_frame (P : Fin 4 → ℝ) (hP : 0 < nrm (sp P))
    (hE : nrm (sp P) < P 0) :
    helframe P *ᵥ P = ![Real.sqrt (P 0 ^ 2 - nrm (sp P) ^ 2), 0, 0, 0] := helframe_self_mass P hP hE

/-- KEY LEMMA: a proper rotation (orthogonal, det 1) that fixes ẑ is `Rz(δ)`. -/
theorem C04_K_rotation_fixing_z (R : Matrix (Fin 3) (Fin 3) ℝ) (hR : IsRot R) (hz : R *ᵥ ez = ez) :
    ∃ δ : ℝ, R = Rz3 δ := rot_fix_ez_is_Rz3 hR hz

/-- Global rotation `R`: the production frame of a subsystem `P` becomes `R · h(P) · Rz(−δ)` and
every momentum seen from its helicity frame is rotated by `RotZ δ`, with one and the same δ. -/
theorem C04_K_child_frame_momenta (R : Matrix (Fin 3) (Fin 3) ℝ) (hR : IsRot R) (P : Fin 4 → ℝ)
    (hP : 0 < nrm (sp P)) :
    ∃ δ : ℝ,
      hframe (phiOf (sp (emb R *ᵥ P))) (thetaOf (sp (emb R *ᵥ P)))
          = R * hframe (phiOf (sp P)) (thetaOf (sp P)) * Rz3 (-δ) ∧
      ∀ q : Fin 4 → ℝ, helframe (emb R *ᵥ P) *ᵥ (emb R *ᵥ q) = RotZ δ *ᵥ (helframe P *ᵥ q) :=
  frames_covariance hR P hP

/-- first level below: polar angles unchanged -/
theorem C04_K_polar_angle_unchanged (δ : ℝ) (v : Fin 3 → ℝ) : thetaOf (Rz3 δ *ᵥ v) = thetaOf v :=
  thetaOf_Rz3 δ v

/-- first level below: azimuths shift by δ (as rotations, i.e. modulo 2π; `v` off the z axis) -/
theorem C04_K_azimuth_shifts (δ : ℝ) (v : Fin 3 → ℝ) (hxy : 0 < v 0 ^ 2 + v 1 ^ 2) :
    Rz3 (phiOf (Rz3 δ *ᵥ v)) = Rz3 (phiOf v + δ) := Rz3_phiOf_Rz3 δ v hxy

/-- all deeper levels: the next helicity frame absorbs `RotZ δ`, so the momenta of the next level —
hence every deeper momentum and angle, which are functions of them — coincide. -/
theorem C04_K_deeper_frames_coincide (δ : ℝ) (S : Fin 4 → ℝ)
    (hxy : 0 < (sp S) 0 ^ 2 + (sp S) 1 ^ 2) (q : Fin 4 → ℝ) :
    helframe (RotZ δ *ᵥ S) *ᵥ (RotZ δ *ᵥ q) = helframe S *ᵥ q := helframe_Rz δ S hxy q

/-- two-resonance shapes: the children of a node are back to back in its rest frame and the source
takes the frames of a decaying second child from its own direction `−v`; if the first child's
frame turns by `Rz(−δ)`, the second child's turns by `Rz(+δ)`: its subtree sees `Rz(−δ)`. -/
theorem C04_K_second_child_sees_inverse_rotation (R : Matrix (Fin 3) (Fin 3) ℝ) (hR : IsRot R)
    (v : Fin 3 → ℝ) (hxy : 0 < v 0 ^ 2 + v 1 ^ 2) (hxy' : 0 < (R *ᵥ v) 0 ^ 2 + (R *ᵥ v) 1 ^ 2)
    (δ δ₂ : ℝ)
    (h1 : hframe (phiOf (R *ᵥ v)) (thetaOf (R *ᵥ v)) = R * hframe (phiOf v) (thetaOf v) * Rz3 (-δ))
    (h2 : hframe (phiOf (R *ᵥ (-v))) (thetaOf (R *ᵥ (-v)))
        = R * hframe (phiOf (-v)) (thetaOf (-v)) * Rz3 (-δ₂)) :
    Rz3 δ₂ = Rz3 (-δ) := second_child_angle hR v hxy hxy' δ δ₂ h1 h2

/-! ## (A) algebra for an abstract unitary representation -/

/-- `Σ_m |(v V)_m|² = Σ_m |v_m|²` for unitary `V` (any dimension) -/
theorem C04_A_unitary_preserves_norm {n : ℕ} (V : Matrix (Fin n) (Fin n) ℂ) (hV : V * Vᴴ = 1)
    (v : Fin n → ℂ) : nsq (v ᵥ* V) = nsq v := nsq_vecMul_unitary V hV v

/-- The chain amplitude transforms as `A_M ↦ e^{i s δ} Σ_{M'} conj D^J_{M M'}(R) A_{M'}`
(`s` = helicity of the spectator). -/
theorem C04_A_chain_amplitude_transforms {n k : ℕ} (W : WignerRep n) (W' : WignerRep k)
    (ι : Fin k → Fin n) (s : ℝ) (hι : ∀ l, W.wt (ι l) = W'.wt l - s) (H : Fin k → Fin k → ℂ)
    (R h h₁ : Matrix (Fin 3) (Fin 3) ℝ) (hR : IsRot R) (hh : IsRot h) (hh₁ : IsRot h₁) (δ : ℝ)
    (M : Fin n) :
    chain2 W W' ι H (R * h * Rz3 (-δ)) (Rz3 δ * h₁) M
      = WignerRep.ph s δ * ∑ M', star (W.D R M M') * chain2 W W' ι H h h₁ M' :=
  chain2_transform W W' ι s hι H R h h₁ hR hh hh₁ δ M

/-- one topology: `Σ_M |A_M|²` invariant -/
theorem C04_A_single_topology {n k : ℕ} (W : WignerRep n) (W' : WignerRep k) (ι : Fin k → Fin n)
    (s : ℝ) (hι : ∀ l, W.wt (ι l) = W'.wt l - s) (H : Fin k → Fin k → ℂ)
    (R h h₁ : Matrix (Fin 3) (Fin 3) ℝ) (hR : IsRot R) (hh : IsRot h) (hh₁ : IsRot h₁) (δ : ℝ) :
    nsq (chain2 W W' ι H (R * h * Rz3 (-δ)) (Rz3 δ * h₁)) = nsq (chain2 W W' ι H h h₁) :=
  chain2_intensity W W' ι s hι H R h h₁ hR hh hh₁ δ

/-- several topologies, spinless spectators: `Σ_M |Σ_t c_t A^t_M|²` invariant -/
theorem C04_A_multi_topology_spinless {n : ℕ} (W : WignerRep n) {T : Type} [Fintype T]
    (k : T → ℕ) (W' : ∀ t, WignerRep (k t)) (ι : ∀ t, Fin (k t) → Fin n)
    (hι : ∀ t l, W.wt (ι t l) = (W' t).wt l - 0)
    (H : ∀ t, Fin (k t) → Fin (k t) → ℂ) (c : T → ℂ)
    (R : Matrix (Fin 3) (Fin 3) ℝ) (hR : IsRot R)
    (h h₁ : T → Matrix (Fin 3) (Fin 3) ℝ) (hh : ∀ t, IsRot (h t)) (hh₁ : ∀ t, IsRot (h₁ t))
    (δ : T → ℝ) :
    nsq (fun M => ∑ t, c t * chain2 W (W' t) (ι t) (H t) (R * h t * Rz3 (-(δ t))) (Rz3 (δ t) * h₁ t) M)
      = nsq (fun M => ∑ t, c t * chain2 W (W' t) (ι t) (H t) (h t) (h₁ t) M) :=
  multi_topology_intensity W k W' ι hι H c R hR h h₁ hh hh₁ δ

/-! ## (I) instances -/

/-- SymPy's `Rotation.D(1, m, m', α, β, γ).doit()` (regenerated) is the J = 1 representation
`U · Rz(α)Ry(β)Rz(γ) · U†` of the Euler rotation. -/
theorem C04_I_sympy_D1_is_representation (α β γ : ℝ) : D1 α β γ = W1.D (euler α β γ) :=
  sympy_D1_eq α β γ

/-- SymPy's D¹ is unitary for all angles -/
theorem C04_I_sympy_D1_unitary (α β γ : ℝ) : (D1 α β γ)ᴴ * D1 α β γ = 1 := by
  rw [sympy_D1_eq]; exact W1.unitary _ (euler_isRot α β γ)

/-- SymPy's D¹ is `diag(e^{-iα}, 1, e^{iα})` on z-rotations -/
theorem C04_I_sympy_D1_z_diagonal (α : ℝ) :
    D1 α 0 0 = Matrix.diagonal fun m => Complex.exp (-(↑(wt1 m * α) : ℂ) * Complex.I) := by
  rw [sympy_D1_eq, euler, Ry3_zero, Rz3_zero, Matrix.mul_one, Matrix.mul_one]
  exact W1.diag α

/-- homomorphism: the product of two SymPy D¹ matrices is the representation of the product of the
two Euler rotations -/
theorem C04_I_sympy_D1_homomorphism (α β γ α' β' γ' : ℝ) :
    D1 α β γ * D1 α' β' γ' = W1.D (euler α β γ * euler α' β' γ') := by
  rw [sympy_D1_eq, sympy_D1_eq, W1.mul _ _ (euler_isRot _ _ _) (euler_isRot _ _ _)]

/-! ### J = 1/2: SymPy's `Rotation.D(1/2, m, m', α, β, γ).doit()` (regenerated 2×2 matrix `Dh`) -/

/-- unitary for all angles -/
theorem C04_I_sympy_Dhalf_unitary (α β γ : ℝ) : (Dh α β γ)ᴴ * Dh α β γ = 1 := Dh_unitary α β γ

/-- `diag(e^{-iα/2}, e^{iα/2})` on z-rotations -/
theorem C04_I_sympy_Dhalf_z_diagonal (α : ℝ) :
    Dh α 0 0 = !![ce (-α / 2), 0; 0, ce (α / 2)] := Dh_z_diagonal α

/-- its adjoint action on `v·σ` is the Euler rotation: the covering SU(2) → SO(3) -/
theorem C04_I_sympy_Dhalf_covers_rotation (α β γ : ℝ) (v : Fin 3 → ℝ) :
    Dh α β γ * pauli v * (Dh α β γ)ᴴ = pauli (euler α β γ *ᵥ v) := adj_Dh α β γ v

/-- homomorphism UP TO THE SU(2) SIGN: if the Euler rotations compose, the D^{1/2} compose up to ± -/
theorem C04_I_sympy_Dhalf_homomorphism_up_to_sign (α β γ α' β' γ' α'' β'' γ'' : ℝ)
    (h : euler α β γ * euler α' β' γ' = euler α'' β'' γ'') :
    Dh α β γ * Dh α' β' γ' = Dh α'' β'' γ'' ∨ Dh α β γ * Dh α' β' γ' = -Dh α'' β'' γ'' :=
  Dh_mul_sign α β γ α' β' γ' α'' β'' γ'' h

/-- the sign is really there: a full turn is the same rotation but flips D^{1/2} (and not D¹) -/
theorem C04_I_full_turn_flips_spin_half (α β γ : ℝ) :
    euler (α + 2 * Real.pi) β γ = euler α β γ ∧ Dh (α + 2 * Real.pi) β γ = -Dh α β γ ∧
      D1 (α + 2 * Real.pi) β γ = D1 α β γ :=
  ⟨euler_two_pi α β γ, Dh_two_pi α β γ, D1_two_pi α β γ⟩

/-- hence no `WignerRep` (a representation of rotation MATRICES) has weight 1/2: half-integer spins
are outside layer (A) as formulated; they need the double cover -/
theorem C04_I_no_spin_half_representation_of_SO3 (W : WignerRep 2) (h0 : W.wt 0 = 1 / 2) : False :=
  no_half_integer_WignerRep W h0

/-- WHY the known class "axis-angle alignment with half-integer spins" exists. The regenerated
`Phi = atan2(p_y, p_x)` is π on the negative x axis, φ ∈ (π/2, π) just above it and −φ just below it
(branch cut); the continuous continuation across the cut is 2π − φ. For spin 1/2 the value the
library uses differs from the continuation by a SIGN, for spin 1 it does not. -/
theorem C04_W_branch_cut_flips_sign_for_spin_half (y φ β γ : ℝ) (hy : 0 < y) :
    PhiOf (-1) 0 = Real.pi ∧ (Real.pi / 2 < PhiOf (-1) y ∧ PhiOf (-1) y < Real.pi) ∧
      PhiOf (-1) (-y) = -PhiOf (-1) y ∧
      Dh (-φ) β γ = -Dh (2 * Real.pi - φ) β γ ∧ D1 (-φ) β γ = D1 (2 * Real.pi - φ) β γ :=
  ⟨PhiOf_on_cut, PhiOf_above_cut y hy, PhiOf_below_cut y hy, branch_cut_sign_half φ β γ,
    branch_cut_no_sign_one φ β γ⟩

/-! ### J ≤ 5/2: unitarity from the regenerated d-tables (`Gen/C05Wigner.lean`) -/

/-- `D^J(α,β,γ) = e^{-imα} d^J(β) e^{-im'γ}` is unitary for every J = j2/2 ≤ 5/2 and all angles -/
theorem C04_I_unitary_up_to_spin_five_halves (j2 : ℕ) (hj : j2 ≤ 5) (α β γ : ℝ) :
    DJ j2 α β γ * (DJ j2 α β γ)ᴴ = 1 := DJ_unitary j2 hj α β γ

/-- J = 3/2 -/
theorem C04_I_spin_three_halves_unitary (α β γ : ℝ) : DJ 3 α β γ * (DJ 3 α β γ)ᴴ = 1 :=
  DJ_unitary 3 (by norm_num) α β γ

/-- J = 2 -/
theorem C04_I_spin_two_unitary (α β γ : ℝ) : DJ 4 α β γ * (DJ 4 α β γ)ᴴ = 1 :=
  DJ_unitary 4 (by norm_num) α β γ

/-! ## (KA) kinematics and algebra combined: two-level chains (three-body decays) -/

/-- production frame computed from the subsystem momentum as the source does -/
noncomputable def prodFrame (P : Fin 4 → ℝ) : Matrix (Fin 3) (Fin 3) ℝ :=
  hframe (phiOf (sp P)) (thetaOf (sp P))

/-- decay frame of the subsystem: angles of the child momentum `q` seen from `helframe P` -/
noncomputable def decayFrame (P q : Fin 4 → ℝ) : Matrix (Fin 3) (Fin 3) ℝ :=
  hframe (phiOf (sp (helframe P *ᵥ q))) (thetaOf (sp (helframe P *ᵥ q)))

/-- two-level chain amplitude as a function of the event -/
noncomputable def amp2 {n k : ℕ} (W : WignerRep n) (W' : WignerRep k) (ι : Fin k → Fin n)
    (H : Fin k → Fin k → ℂ) (P q : Fin 4 → ℝ) : Fin n → ℂ :=
  chain2 W W' ι H (prodFrame P) (decayFrame P q)

theorem decayFrame_rotated {R : Matrix (Fin 3) (Fin 3) ℝ} (P q : Fin 4 → ℝ) (δ : ℝ)
    (hq : 0 < (sp (helframe P *ᵥ q)) 0 ^ 2 + (sp (helframe P *ᵥ q)) 1 ^ 2)
    (h : helframe (emb R *ᵥ P) *ᵥ (emb R *ᵥ q) = RotZ δ *ᵥ (helframe P *ᵥ q)) :
    decayFrame (emb R *ᵥ P) (emb R *ᵥ q) = Rz3 δ * decayFrame P q := by
  unfold decayFrame
  rw [h, RotZ_eq, sp_emb_mulVec, hframe_Rz3 δ _ hq]

/-- SINGLE TOPOLOGY, events: for every proper rotation `R` applied to the subsystem momentum `P`
and the child momentum `q` (initial-state rest frame), the unpolarised intensity of the two-level
chain is unchanged — whatever sign convention links the D-function index to the child helicity
(this covers the pinned source's opposite-helicity convention, topology 0(12), as well).
Guards: `P` has non-zero three-momentum; the child is not exactly on the z axis of the helicity
frame (where `Phi` is discontinuous). -/
theorem C04_single_topology_events {n k : ℕ} (W : WignerRep n) (W' : WignerRep k)
    (ι : Fin k → Fin n) (hinj : Function.Injective ι) (H : Fin k → Fin k → ℂ)
    (R : Matrix (Fin 3) (Fin 3) ℝ) (hR : IsRot R) (P q : Fin 4 → ℝ) (hP : 0 < nrm (sp P))
    (hq : 0 < (sp (helframe P *ᵥ q)) 0 ^ 2 + (sp (helframe P *ᵥ q)) 1 ^ 2) :
    nsq (amp2 W W' ι H (emb R *ᵥ P) (emb R *ᵥ q)) = nsq (amp2 W W' ι H P q) := by
  obtain ⟨δ, _, hδ⟩ := frames_covariance hR P hP
  unfold amp2
  rw [decayFrame_rotated P q δ hq (hδ q)]
  exact single_topology_any_convention W W' ι hinj H (prodFrame P) (prodFrame (emb R *ᵥ P))
    (decayFrame P q) (hframe_isRot _ _) (hframe_isRot _ _) (hframe_isRot _ _) δ

/-- SEVERAL TOPOLOGIES, events, spinless final state, helicity-state convention (`μ = λ`): the
coherent sum over topologies `t` (each with its own subsystem `P t`, child `q t`, child spin and
couplings) has a rotation-invariant unpolarised intensity. -/
theorem C04_multi_topology_events {n : ℕ} (W : WignerRep n) {T : Type} [Fintype T]
    (k : T → ℕ) (W' : ∀ t, WignerRep (k t)) (ι : ∀ t, Fin (k t) → Fin n)
    (hι : ∀ t l, W.wt (ι t l) = (W' t).wt l - 0)
    (H : ∀ t, Fin (k t) → Fin (k t) → ℂ) (c : T → ℂ)
    (R : Matrix (Fin 3) (Fin 3) ℝ) (hR : IsRot R) (P q : T → Fin 4 → ℝ)
    (hP : ∀ t, 0 < nrm (sp (P t)))
    (hq : ∀ t, 0 < (sp (helframe (P t) *ᵥ q t)) 0 ^ 2 + (sp (helframe (P t) *ᵥ q t)) 1 ^ 2) :
    nsq (fun M => ∑ t, c t * amp2 W (W' t) (ι t) (H t) (emb R *ᵥ P t) (emb R *ᵥ q t) M)
      = nsq (fun M => ∑ t, c t * amp2 W (W' t) (ι t) (H t) (P t) (q t) M) := by
  choose δ hδ using fun t => frames_covariance hR (P t) (hP t)
  have e : ∀ t, amp2 W (W' t) (ι t) (H t) (emb R *ᵥ P t) (emb R *ᵥ q t)
      = chain2 W (W' t) (ι t) (H t) (R * prodFrame (P t) * Rz3 (-(δ t))) (Rz3 (δ t) * decayFrame (P t) (q t)) := by
    intro t
    unfold amp2
    rw [decayFrame_rotated (P t) (q t) (δ t) (hq t) ((hδ t).2 (q t))]
    unfold prodFrame
    rw [(hδ t).1]
  simp_rw [e]
  unfold amp2
  exact multi_topology_intensity W k W' ι hι H c R hR (fun t => prodFrame (P t))
    (fun t => decayFrame (P t) (q t)) (fun t => hframe_isRot _ _) (fun t => hframe_isRot _ _) δ

/-- UNCONDITIONAL instance (no `WignerRep` hypothesis): initial spin 1, two topologies with a
spin-1 resonance each and spinless final-state particles (J/ψ → ρ⁺π⁻ + ρ⁻π⁺ → π⁰π⁺π⁻, topologies
(01)2 and (02)1), every coupling matrix `H`, every coefficient. -/
theorem C04_partial_J1_two_topologies (H : Bool → Fin 3 → Fin 3 → ℂ) (c : Bool → ℂ)
    (R : Matrix (Fin 3) (Fin 3) ℝ) (hR : IsRot R) (P q : Bool → Fin 4 → ℝ)
    (hP : ∀ t, 0 < nrm (sp (P t)))
    (hq : ∀ t, 0 < (sp (helframe (P t) *ᵥ q t)) 0 ^ 2 + (sp (helframe (P t) *ᵥ q t)) 1 ^ 2) :
    nsq (fun M => ∑ t, c t * amp2 W1 W1 id (H t) (emb R *ᵥ P t) (emb R *ᵥ q t) M)
      = nsq (fun M => ∑ t, c t * amp2 W1 W1 id (H t) (P t) (q t) M) :=
  C04_multi_topology_events W1 (fun _ => 3) (fun _ => W1) (fun _ => id) (fun _ _ => by simp) H c R hR
    P q hP hq

/-- UNCONDITIONAL instance: initial spin 1, a spin-0 and a spin-1 resonance in the same
subsystem are covered by `C04_single_topology_events`; here the spin-0 resonance alone
(`μ = 0` is the middle index). -/
theorem C04_partial_J1_scalar_resonance (H : Fin 1 → Fin 1 → ℂ)
    (R : Matrix (Fin 3) (Fin 3) ℝ) (hR : IsRot R) (P q : Fin 4 → ℝ) (hP : 0 < nrm (sp P))
    (hq : 0 < (sp (helframe P *ᵥ q)) 0 ^ 2 + (sp (helframe P *ᵥ q)) 1 ^ 2) :
    nsq (amp2 W1 W0 (fun _ => 1) H (emb R *ᵥ P) (emb R *ᵥ q)) = nsq (amp2 W1 W0 (fun _ => 1) H P q) :=
  C04_single_topology_events W1 W0 (fun _ => 1) (fun a b _ => Subsingleton.elim a b) H R hR P q hP hq

/-! ## (W) the pinned source's convention for a decaying opposite-helicity child -/

/-- With `μ = λ_spectator − λ` and the frames of the decaying child (what
`compute_helicity_angles` + `formulate_isobar_wigner_d` produce for topology 0(12)) the rotated
amplitude is the correctly transformed amplitude of a model with couplings `e^{2iλδ} H_{λν}`:
a helicity-dependent phase that no common factor absorbs. One topology stays invariant
(`C04_single_topology_events`); a coherent sum with another topology does not — the failing
input is found and replayed by the numeric oracle (KNOWN-FINDING). -/
theorem C04_W_opposite_convention_rephases {n k : ℕ} (W : WignerRep n) (W' : WignerRep k)
    (ι : Fin k → Fin n) (s : ℝ) (hι : ∀ l, W.wt (ι l) = s - W'.wt l) (H : Fin k → Fin k → ℂ)
    (R h h₁ : Matrix (Fin 3) (Fin 3) ℝ) (hR : IsRot R) (hh : IsRot h) (hh₁ : IsRot h₁) (δ : ℝ)
    (M : Fin n) :
    chain2 W W' ι H (R * h * Rz3 (-δ)) (Rz3 δ * h₁) M
      = WignerRep.ph s (-δ) * ∑ M', star (W.D R M M')
          * chain2 W W' ι (fun l ν => WignerRep.ph (2 * W'.wt l) δ * H l ν) h h₁ M' :=
  chain2_opposite_transform W W' ι s hι H R h h₁ hR hh hh₁ δ M

/-- the model of the source (`Model/C04Frames.lean`, tied to the real code by the T2
correspondence on every run) classifies the three-body topologies: 0(12) contains a decaying
opposite-helicity child, (01)2 and (02)1 do not. -/
def topo_0_12 : Ampverif.Model.C04Frames.Topo :=
  [⟨-1, none, some 0⟩, ⟨0, some 0, none⟩, ⟨3, some 0, some 1⟩, ⟨1, some 1, none⟩, ⟨2, some 1, none⟩]
def topo_01_2 : Ampverif.Model.C04Frames.Topo :=
  [⟨-1, none, some 0⟩, ⟨2, some 0, none⟩, ⟨3, some 0, some 1⟩, ⟨0, some 1, none⟩, ⟨1, some 1, none⟩]
def topo_02_1 : Ampverif.Model.C04Frames.Topo :=
  [⟨-1, none, some 0⟩, ⟨1, some 0, none⟩, ⟨3, some 0, some 1⟩, ⟨0, some 1, none⟩, ⟨2, some 1, none⟩]

theorem C04_W_topology_0_12_has_decaying_opposite_child :
    Ampverif.Model.C04Frames.hasDecayingOpposite topo_0_12 = true := by decide

theorem C04_W_topologies_01_2_and_02_1_have_none :
    Ampverif.Model.C04Frames.hasDecayingOpposite topo_01_2 = false ∧
    Ampverif.Model.C04Frames.hasDecayingOpposite topo_02_1 = false := by decide

/-! ## arbitrary decay trees (definitions in `Lemmas/C04Tree.lean`)

Spins and projections doubled; `RepFamily` = abstract family of representations of the proper
rotations for the spins it declares `ok` (an SO(3) family can only provide integer spins);
`amp` = the source's helicity amplitude of a tree with fixed final-state helicities;
`Rotated R` = what a global rotation does to the helicity frames — established level by level by
layer (K): `C04_K_child_frame_momenta` (root), `C04_K_azimuth_shifts`/`C04_K_polar_angle_unchanged`
(first level below: `h₁ ↦ Rz(δ) h₁`), `C04_K_deeper_frames_coincide` (all deeper levels) and
`C04_K_second_child_sees_inverse_rotation` (second child). -/

/-- transformation law at every depth: `A'_m = Σ_{m'} conj D^J_{m m'}(R) A_{m'}` -/
theorem C04_A_all_trees_transform (F : RepFamily) (t : Tree) (h1 : t.spinsOk F) (h2 : t.spinlessLeaves)
    (R : Matrix (Fin 3) (Fin 3) ℝ) (f f' : Frames) (hR : IsRot R) (hrot : Rotated R f f') :
    ∀ m ∈ projs t.twoSpin,
      amp F t f' m = ∑ m' ∈ projs t.twoSpin, star (F.D t.twoSpin R m m') * amp F t f m' :=
  amp_rotated F t h1 h2 R f f' hR hrot

/-- PROVED PART of the tree statement (conditional on the abstract `RepFamily`): any finite set
of topologies, arbitrary trees of any depth (cascades and two-resonance shapes), spinless final
states, all couplings, every proper rotation: the unpolarised intensity is invariant. -/
theorem C04_partial_all_trees_spinless (F : RepFamily) (T : Type) [Fintype T] (tree : T → Tree)
    (c : T → ℂ) (fr fr' : T → Frames) (R : Matrix (Fin 3) (Fin 3) ℝ) (twoJ : ℕ) (hJ : F.ok twoJ)
    (hR : IsRot R)
    (ht : ∀ t, (tree t).twoSpin = twoJ ∧ (tree t).spinsOk F ∧ (tree t).spinlessLeaves)
    (hrot : ∀ t, Rotated R (fr t) (fr' t)) :
    ∑ m ∈ projs twoJ, Complex.normSq (∑ t, c t * amp F (tree t) (fr' t) m)
      = ∑ m ∈ projs twoJ, Complex.normSq (∑ t, c t * amp F (tree t) (fr t) m) :=
  intensity_rotated F T tree c fr fr' R twoJ hJ hR ht hrot

/-- UNCONDITIONAL (no representation hypothesis): the same for every set of trees all of whose
spins are 0 or 1 (`F01`: J = 0 trivial, J = 1 = `U R U†` = SymPy's D¹), e.g. J/ψ → (ρπ)-type
cascades of any depth with spinless final states. -/
theorem C04_partial_J01_all_trees (T : Type) [Fintype T] (tree : T → Tree)
    (c : T → ℂ) (fr fr' : T → Frames) (R : Matrix (Fin 3) (Fin 3) ℝ) (twoJ : ℕ)
    (hJ : twoJ = 0 ∨ twoJ = 2) (hR : IsRot R)
    (ht : ∀ t, (tree t).twoSpin = twoJ ∧ (tree t).spinsOk F01 ∧ (tree t).spinlessLeaves)
    (hrot : ∀ t, Rotated R (fr t) (fr' t)) :
    ∑ m ∈ projs twoJ, Complex.normSq (∑ t, c t * amp F01 (tree t) (fr' t) m)
      = ∑ m ∈ projs twoJ, Complex.normSq (∑ t, c t * amp F01 (tree t) (fr t) m) :=
  intensity_rotated F01 T tree c fr fr' R twoJ hJ hR ht hrot

/-- FULL STATEMENT on trees: as `C04_partial_all_trees_spinless`, and in addition a SINGLE topology
may have final states with any (provided) spin. -/
def C04_full_statement : Prop :=
  ∀ (F : RepFamily) (T : Type) [Fintype T] (tree : T → Tree) (c : T → ℂ) (fr fr' : T → Frames)
    (R : Matrix (Fin 3) (Fin 3) ℝ) (twoJ : ℕ), F.ok twoJ → IsRot R →
    (∀ t, (tree t).twoSpin = twoJ ∧ (tree t).spinsOk F) →
    ((∀ t, (tree t).spinlessLeaves) ∨ Subsingleton T) →
    (∀ t, Rotated R (fr t) (fr' t)) →
    ∑ m ∈ projs twoJ, Complex.normSq (∑ t, c t * amp F (tree t) (fr' t) m)
      = ∑ m ∈ projs twoJ, Complex.normSq (∑ t, c t * amp F (tree t) (fr t) m)

/-- the full tree statement is PROVED (conditional on the abstract `RepFamily` only); with final
state spins each helicity configuration picks up a unit phase (`amp_rotated_phase`). -/
theorem C04_full_trees : C04_full_statement :=
  fun F T _ tree c fr fr' R twoJ hJ hR ht hcase hrot =>
    intensity_rotated_full F T tree c fr fr' R twoJ hJ hR ht hcase hrot

/-! ## end to end: from the four-momenta of arbitrary trees to the intensity

`MTree` = isobar tree with the final-state four-momenta at its leaves; `framesOf L t` = the helicity
frames the source's recursion computes for it (sound convention: a node's angles are those of its
first child, the helicity state), `EventOK` = the genericity guards. -/

/-- (K), packaged: ALL helicity frames (hence all helicity angles) of the rotated event are those
of the original event except the root frame (`R·h·Rz(−δ)`) and the first frame below the root in
each child subtree (`Rz(±δ)·h`: polar angle unchanged, azimuth shifted by ±δ); every deeper frame
is identical. Every tree shape, every depth, any frame `L` in which the node is at rest. -/
theorem C04_K_all_helicity_frames {R : Matrix (Fin 3) (Fin 3) ℝ} (hR : IsRot R)
    (L : Matrix (Fin 4) (Fin 4) ℝ) (c₁ c₂ : MTree)
    (hP : 0 < nrm (sp (L *ᵥ c₁.mom)))
    (hrest : sp (L *ᵥ c₂.mom) = -sp (L *ᵥ c₁.mom))
    (hoff : offAxis (sp (L *ᵥ c₁.mom))) (hoff' : offAxis (R *ᵥ sp (L *ᵥ c₁.mom)))
    (h1 : topOffAxis (helframe (L *ᵥ c₁.mom) * L) c₁)
    (h2 : topOffAxis (helframe (L *ᵥ c₂.mom) * L) c₂) :
    ∃ δ : ℝ, framesOf (emb R * L) (.node c₁ c₂)
      = .node (R * hframe (phiOf (sp (L *ᵥ c₁.mom))) (thetaOf (sp (L *ᵥ c₁.mom))) * Rz3 (-δ))
          ((framesOf (helframe (L *ᵥ c₁.mom) * L) c₁).shift δ)
          ((framesOf (helframe (L *ᵥ c₂.mom) * L) c₂).shift (-δ)) :=
  rotated_event_frames hR L c₁ c₂ hP hrest hoff hoff' h1 h2

/-- END TO END (conditional on `RepFamily` only): events of arbitrary isobar trees given by their
final-state four-momenta in the initial-state rest frame, every proper rotation `R` applied to all
momenta (`framesOf (emb R)`), helicity frames computed as the source does from the regenerated
`Phi`, `Theta`, `RotZ`, `RotY`, `BoostZ`: the unpolarised intensity is unchanged — for any finite set
of topologies with spinless final states, and for a single topology with any final-state spins. -/
theorem C04_end_to_end (F : RepFamily) (T : Type) [Fintype T] (tree : T → Tree) (c : T → ℂ)
    (c₁ c₂ : T → MTree) (R : Matrix (Fin 3) (Fin 3) ℝ) (twoJ : ℕ) (hJ : F.ok twoJ) (hR : IsRot R)
    (ht : ∀ t, (tree t).twoSpin = twoJ ∧ (tree t).spinsOk F)
    (hcase : (∀ t, (tree t).spinlessLeaves) ∨ Subsingleton T)
    (hev : ∀ t, EventOK R (c₁ t) (c₂ t)) :
    ∑ m ∈ projs twoJ, Complex.normSq (∑ t, c t * amp F (tree t) (framesOf (emb R) (.node (c₁ t) (c₂ t))) m)
      = ∑ m ∈ projs twoJ, Complex.normSq (∑ t, c t * amp F (tree t) (framesOf 1 (.node (c₁ t) (c₂ t))) m) :=
  intensity_rotated_full F T tree c _ _ R twoJ hJ hR ht hcase
    (fun t => rotated_of_event_at_rest hR (c₁ t) (c₂ t) (hev t))

/-- END TO END, UNCONDITIONAL for spins 0 and 1 (no representation hypothesis at all). -/
theorem C04_end_to_end_J01 (T : Type) [Fintype T] (tree : T → Tree) (c : T → ℂ)
    (c₁ c₂ : T → MTree) (R : Matrix (Fin 3) (Fin 3) ℝ) (twoJ : ℕ) (hJ : twoJ = 0 ∨ twoJ = 2)
    (hR : IsRot R) (ht : ∀ t, (tree t).twoSpin = twoJ ∧ (tree t).spinsOk F01)
    (hcase : (∀ t, (tree t).spinlessLeaves) ∨ Subsingleton T)
    (hev : ∀ t, EventOK R (c₁ t) (c₂ t)) :
    ∑ m ∈ projs twoJ, Complex.normSq (∑ t, c t * amp F01 (tree t) (framesOf (emb R) (.node (c₁ t) (c₂ t))) m)
      = ∑ m ∈ projs twoJ, Complex.normSq (∑ t, c t * amp F01 (tree t) (framesOf 1 (.node (c₁ t) (c₂ t))) m) :=
  C04_end_to_end F01 T tree c c₁ c₂ R twoJ hJ hR ht hcase hev

/-! ## non-vacuity -/

/-- the hypotheses of the (A) layer are satisfiable: J = 0 and J = 1 -/
example : Nonempty (WignerRep 1) ∧ Nonempty (WignerRep 3) := ⟨⟨W0⟩, ⟨W1⟩⟩

/-- proper rotations exist beyond the identity -/
example : IsRot (Rz3 0.7 * Ry3 0.3) := (Rz3_isRot _).mul (Ry3_isRot _)

/-- a concrete event meeting the guards of the event theorems -/
def P₀ : Fin 4 → ℝ := ![2, 0, 0, 1]
def q₀ : Fin 4 → ℝ := ![1, 1, 0, 0]

theorem nrm_P₀ : nrm (sp P₀) = 1 := by
  simp [nrm, sp, P₀]

theorem phi_P₀ : phiOf (sp P₀) = 0 := by
  simp [phiOf, PhiOf, sp, P₀]
  have : (⟨0, 0⟩ : ℂ) = 0 := rfl
  rw [this, Complex.arg_zero]

theorem theta_P₀ : thetaOf (sp P₀) = 0 := by
  simp [thetaOf, ThetaOf, sp, P₀]

example : 0 < nrm (sp P₀) ∧ 0 < (sp (helframe P₀ *ᵥ q₀)) 0 ^ 2 + (sp (helframe P₀ *ᵥ q₀)) 1 ^ 2 := by
  refine ⟨by rw [nrm_P₀]; norm_num, ?_⟩
  have h1 : (sp (helframe P₀ *ᵥ q₀)) 0 = 1 := by
    rw [helframe, phi_P₀, theta_P₀, neg_zero, RotY_eq, RotZ_eq, Ry3_zero, Rz3_zero, emb_one,
      Matrix.mul_one, Matrix.mul_one, BoostZ_eq]
    simp [sp, q₀, Matrix.mulVec, dotProduct, Fin.sum_univ_four]
  rw [h1]
  positivity

/-- a non-trivial tree and frames meeting the hypotheses of the tree theorems: J = 1 → (J = 1 → 0 0) 0,
rotated frames for a rotation about y -/
def tree₀ : Tree := .node 2 (fun _ _ => 1) (.node 2 (fun _ _ => 1) (.leaf 0 0) (.leaf 0 0)) (.leaf 0 0)

example : tree₀.spinsOk F01 ∧ tree₀.spinlessLeaves ∧ tree₀.twoSpin = 2 := by
  simp [tree₀, Tree.spinsOk, Tree.spinlessLeaves, Tree.twoSpin, F01]

example : Rotated (Ry3 0.7) (.node (Rz3 0.2) (.node (Ry3 0.4) .leaf .leaf) .leaf)
    (.node (Ry3 0.7 * Rz3 0.2 * Rz3 (-0.3)) (.node (Rz3 0.3 * Ry3 0.4 * Rz3 (-0)) .leaf .leaf) .leaf) :=
  Rotated.node _ _ _ _ _ _ 0.3 (Rz3_isRot _)
    (Rotated.node _ _ _ _ _ _ 0 (Ry3_isRot _) (Rotated.leaf _) (Rotated.leaf _)) (Rotated.leaf _)

/-- a three-body event meeting `EventOK`: (a b) c with the pair moving along x -/
noncomputable def evA : MTree := .node (.leaf ![1, 1/2, 1, 0]) (.leaf ![2, 1/2, -1, 0])
noncomputable def evC : MTree := .leaf ![2, -1, 0, 0]

theorem evA_mom : evA.mom = ![3, 1, 0, 0] := by
  ext i; fin_cases i <;> simp [evA, MTree.mom] <;> norm_num

theorem phi_x : phiOf ![1, 0, 0] = 0 := by
  simp [phiOf, PhiOf]
  have : (⟨1, 0⟩ : ℂ) = 1 := rfl
  rw [this, Complex.arg_one]

theorem theta_x : thetaOf ![1, 0, 0] = Real.pi / 2 := by
  simp [thetaOf, ThetaOf]

example : EventOK (Rz3 0.3) evA evC := by
  have hsp : sp evA.mom = ![1, 0, 0] := by rw [evA_mom]; ext i; fin_cases i <;> simp [sp]
  refine ⟨?_, ?_, ?_, ?_, ?_, trivial⟩
  · rw [hsp]; simp [nrm]
  · rw [hsp]; ext i; fin_cases i <;> simp [evC, MTree.mom, sp]
  · rw [hsp]; simp [offAxis]
  · rw [hsp, Rz3_mulVec]
    simp only [offAxis, Matrix.cons_val_zero, Matrix.cons_val_one]
    have := Real.sin_sq_add_cos_sq (0.3 : ℝ)
    nlinarith
  · have hh : helframe evA.mom = BoostZ (1 / 3) * RotY (-(Real.pi / 2)) := by
      rw [helframe, hsp, phi_x, theta_x, neg_zero, RotZ_eq, Rz3_zero, emb_one, Matrix.mul_one, evA_mom]
      simp [nrm]
    rw [hh, RotY_eq, BoostZ_eq]
    constructor <;>
      simp [topOffAxis, offAxis, evA, MTree.mom, sp, emb, Ry3, Matrix.mulVec, dotProduct, Fin.sum_univ_four,
        Matrix.mul_apply]

/-- the index hypothesis of the multi-topology theorem holds for ρπ (`ι = id`, spectator spin 0) -/
example : ∀ l, W1.wt (id l) = W1.wt l - 0 := fun _ => by simp

end Ampverif.Props.C04
