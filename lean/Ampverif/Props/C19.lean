/-
C19 — Dalitz-plot-decomposition angles satisfy their geometry and identities.

All theorems are about `Ampverif.Gen.C19.*` (`Gen/C19.lean`, `Gen/C19Table.lean`), which are
REGENERATED from `/repo/src/ampform/kinematics/angles.py` on every run: `theta_i_j`,
`thetaHat_i_j`, `zeta_i_j_k` are the returned expressions, `cos…` their arccos arguments,
`thetaAngle`/`thetaHatAngle`/`zetaAngle` (and `…Cos`, `…Kind`) dispatch on the index tuple
(exceptions as an enum). The library's symbols are the masses `m_0 … m_3` and the pair masses
`m_12 m_13 m_23` (`σ₁ = m_23²`, `σ₂ = m_13²`, `σ₃ = m_12²`).

Contents: case tables (error domain, zero/sign pattern, aliases) · `|cos| ≤ 1` wherever the
library's `Kibble ≤ 0` · every cosine as a covariant Gram ratio and as the cosine between two
three-momenta in the relevant rest frame · `θ_ij + θ_ji = π` · the ζ sum rule (all orderings)
on the interior of the Dalitz region · events give physical points · non-vacuity examples.
Helper lemmas: `Lemmas/C19Basic`, `C19Vec`, `C19SumRule` (generic), `C19Cos`, `C19Sum` (per
regenerated definition).
-/
import Ampverif.Gen.C19Table
import Ampverif.Lemmas.C19Cos
import Ampverif.Lemmas.C19Sum
import Ampverif.Lemmas.C19Event
import Mathlib.Tactic.Ring
import Mathlib.Tactic.IntervalCases

set_option linter.unusedSimpArgs false

namespace Ampverif.Props.C19
open Ampverif.Gen.C19 Ampverif.Lemmas.C19

/-! ### Structure of the case tables (all index tuples over {0,1,2,3}) -/

section structural
variable (m_0 m_1 m_2 m_3 m_12 m_13 m_23 : ℝ)

/-- The scattering angle is formulated exactly for `i ≠ j ∈ {1,2,3}` (the `NotImplementedError`
guard for θ₂₁, θ₃₂, θ₁₃ never fires); everything else is a `ValueError`. -/
theorem theta_domain : ∀ i < 4, ∀ j < 4,
    thetaKind i j = (if 1 ≤ i ∧ 1 ≤ j ∧ i ≠ j then Kind.acos else Kind.err Err.valueError) := by
  decide

/-- θ̂ is formulated exactly for `i, j ∈ {1,2,3}`: `0` on the diagonal, `acos` for
(1,2), (2,3), (3,1), `-acos` for the reversed pairs. -/
theorem thetaHat_domain : ∀ i < 4, ∀ j < 4,
    thetaHatKind i j =
      (if i = 0 ∨ j = 0 then Kind.err Err.valueError
       else if i = j then Kind.zero
       else if j = i % 3 + 1 then Kind.acos else Kind.negAcos) := by
  decide

/-- The sign/zero/error pattern of ζ predicted by the conventions of the DPD paper:
`ζ⁰_{j(k)} = θ̂_{j(k)}`; reference `0` means reference `i`; `0` for `j = k`; with the indices
rotated so that `i ↦ 1`, the pairs (1,3), (2,1), (2,3) are the positive ones. -/
def zetaKindSpec (i j k : Nat) : Kind :=
  if i = 0 then thetaHatKind j k
  else if j = 0 then Kind.err Err.notImplementedError
  else
    let k' := if k = 0 then i else k
    if j = k' then Kind.zero
    else if ((j + 3 - i) % 3 + 1, (k' + 3 - i) % 3 + 1) ∈ [(1, 3), (2, 1), (2, 3)] then Kind.acos
    else Kind.negAcos

/-- The whole 64-entry ζ table follows the convention. -/
theorem zeta_table : ∀ i < 4, ∀ j < 4, ∀ k < 4, zetaKind i j k = zetaKindSpec i j k := by
  decide

/-- ζ is formulated exactly for aligned subsystem `j ∈ {1,2,3}` and (reference `k ∈ {1,2,3}`, or
`k = 0` with `i ≠ 0`). -/
theorem zeta_domain : ∀ i < 4, ∀ j < 4, ∀ k < 4,
    (zetaKind i j k).isErr = true ↔ (j = 0 ∨ (i = 0 ∧ k = 0)) := by
  decide

/-- `θ̂_{i(i)} = 0`. -/
theorem thetaHat_diag : ∀ i, 1 ≤ i → i ≤ 3 →
    thetaHatAngle i i m_0 m_1 m_2 m_3 m_12 m_13 m_23 = .ok 0 := by
  intro i h1 h3
  interval_cases i <;> rfl

/-- `θ̂_{i(j)} = −θ̂_{j(i)}` for all `i, j ∈ {1,2,3}`. -/
theorem thetaHat_antisymm : ∀ i j, 1 ≤ i → i ≤ 3 → 1 ≤ j → j ≤ 3 →
    ∃ a b, thetaHatAngle i j m_0 m_1 m_2 m_3 m_12 m_13 m_23 = .ok a ∧
      thetaHatAngle j i m_0 m_1 m_2 m_3 m_12 m_13 m_23 = .ok b ∧ a = -b := by
  intro i j hi1 hi3 hj1 hj3
  interval_cases i <;> interval_cases j <;>
    exact ⟨_, _, rfl, rfl, by
      simp only [thetaHat_1_1, thetaHat_2_2, thetaHat_3_3, thetaHat_1_2, thetaHat_2_1, thetaHat_1_3,
        thetaHat_3_1, thetaHat_2_3, thetaHat_3_2, cosThetaHat_1_2, cosThetaHat_2_1, cosThetaHat_1_3,
        cosThetaHat_3_1, cosThetaHat_2_3, cosThetaHat_3_2]
      ring⟩

/-- `ζ⁰_{j(k)}` is `θ̂_{j(k)}` (all index pairs, errors included). -/
theorem zeta_rotated0 : ∀ j < 4, ∀ k < 4,
    zetaAngle 0 j k m_0 m_1 m_2 m_3 m_12 m_13 m_23
      = thetaHatAngle j k m_0 m_1 m_2 m_3 m_12 m_13 m_23 := by
  intro j hj k hk
  interval_cases j <;> interval_cases k <;> rfl

/-- `ζⁱ_{k(0)} = ζⁱ_{k(i)}` for all `i, k ∈ {1,2,3}`. -/
theorem zeta_reference0 : ∀ i k, 1 ≤ i → i ≤ 3 → 1 ≤ k → k ≤ 3 →
    zetaAngle i k 0 m_0 m_1 m_2 m_3 m_12 m_13 m_23 = zetaAngle i k i m_0 m_1 m_2 m_3 m_12 m_13 m_23 := by
  intro i k hi1 hi3 hk1 hk3
  interval_cases i <;> interval_cases k <;> rfl

/-- `ζⁱ_{k(k)} = 0` for all `i ∈ {0,1,2,3}`, `k ∈ {1,2,3}`. -/
theorem zeta_diag : ∀ i k, i ≤ 3 → 1 ≤ k → k ≤ 3 →
    zetaAngle i k k m_0 m_1 m_2 m_3 m_12 m_13 m_23 = .ok 0 := by
  intro i k hi3 hk1 hk3
  interval_cases i <;> interval_cases k <;> rfl

/-- `ζⁱ_{j(k)} = −ζⁱ_{k(j)}` for all `i ∈ {0,1,2,3}`, `j, k ∈ {1,2,3}`. -/
theorem zeta_antisymm : ∀ i j k, i ≤ 3 → 1 ≤ j → j ≤ 3 → 1 ≤ k → k ≤ 3 →
    ∃ a b, zetaAngle i j k m_0 m_1 m_2 m_3 m_12 m_13 m_23 = .ok a ∧
      zetaAngle i k j m_0 m_1 m_2 m_3 m_12 m_13 m_23 = .ok b ∧ a = -b := by
  intro i j k hi3 hj1 hj3 hk1 hk3
  interval_cases i <;> interval_cases j <;> interval_cases k <;>
    exact ⟨_, _, rfl, rfl, by
      simp only [
        zeta_0_1_1, zeta_0_1_2, cosZeta_0_1_2, zeta_0_1_3, cosZeta_0_1_3, zeta_0_2_1,
        cosZeta_0_2_1, zeta_0_2_2, zeta_0_2_3, cosZeta_0_2_3, zeta_0_3_1, cosZeta_0_3_1,
        zeta_0_3_2, cosZeta_0_3_2, zeta_0_3_3, zeta_1_1_0, zeta_1_1_1, zeta_1_1_2, cosZeta_1_1_2,
        zeta_1_1_3, cosZeta_1_1_3, zeta_1_2_0, cosZeta_1_2_0, zeta_1_2_1, cosZeta_1_2_1,
        zeta_1_2_2, zeta_1_2_3, cosZeta_1_2_3, zeta_1_3_0, cosZeta_1_3_0, zeta_1_3_1,
        cosZeta_1_3_1, zeta_1_3_2, cosZeta_1_3_2, zeta_1_3_3, zeta_2_1_0, cosZeta_2_1_0,
        zeta_2_1_1, zeta_2_1_2, cosZeta_2_1_2, zeta_2_1_3, cosZeta_2_1_3, zeta_2_2_0, zeta_2_2_1,
        cosZeta_2_2_1, zeta_2_2_2, zeta_2_2_3, cosZeta_2_2_3, zeta_2_3_0, cosZeta_2_3_0,
        zeta_2_3_1, cosZeta_2_3_1, zeta_2_3_2, cosZeta_2_3_2, zeta_2_3_3, zeta_3_1_0,
        cosZeta_3_1_0, zeta_3_1_1, zeta_3_1_2, cosZeta_3_1_2, zeta_3_1_3, cosZeta_3_1_3,
        zeta_3_2_0, cosZeta_3_2_0, zeta_3_2_1, cosZeta_3_2_1, zeta_3_2_2, zeta_3_2_3,
        cosZeta_3_2_3, zeta_3_3_0, zeta_3_3_1, cosZeta_3_3_1, zeta_3_3_2, cosZeta_3_3_2,
        zeta_3_3_3]
      ring⟩

end structural


/-! ### The three views of the table agree

`…Kind` (shape), `…Angle` (the returned expression) and `…Cos` (its arccos argument) are generated
separately; this ties them together for every index tuple. -/

/-- what a table entry of a given shape means for the returned angle and its arccos argument -/
def KindSpec (k : Kind) (angle : Except Err ℝ) (c : Option ℝ) : Prop :=
  match k with
  | .err e => angle = .error e ∧ c = none
  | .zero => angle = .ok 0 ∧ c = none
  | .acos => ∃ x, c = some x ∧ angle = .ok (Real.arccos x)
  | .negAcos => ∃ x, c = some x ∧ angle = .ok (-Real.arccos x)
  | .other => True

section consistency
variable (m_0 m_1 m_2 m_3 m_12 m_13 m_23 : ℝ)

theorem theta_kind_consistent : ∀ i < 4, ∀ j < 4,
    KindSpec (thetaKind i j) (thetaAngle i j m_0 m_1 m_2 m_3 m_12 m_13 m_23)
      (thetaCos i j m_0 m_1 m_2 m_3 m_12 m_13 m_23) := by
  intro i hi j hj
  interval_cases i <;> interval_cases j <;>
    first
    | exact ⟨rfl, rfl⟩
    | exact ⟨_, rfl, rfl⟩

theorem thetaHat_kind_consistent : ∀ i < 4, ∀ j < 4,
    KindSpec (thetaHatKind i j) (thetaHatAngle i j m_0 m_1 m_2 m_3 m_12 m_13 m_23)
      (thetaHatCos i j m_0 m_1 m_2 m_3 m_12 m_13 m_23) := by
  intro i hi j hj
  interval_cases i <;> interval_cases j <;>
    first
    | exact ⟨rfl, rfl⟩
    | exact ⟨_, rfl, rfl⟩
    | exact ⟨_, rfl, congrArg Except.ok (neg_one_mul _)⟩

theorem zeta_kind_consistent : ∀ i < 4, ∀ j < 4, ∀ k < 4,
    KindSpec (zetaKind i j k) (zetaAngle i j k m_0 m_1 m_2 m_3 m_12 m_13 m_23)
      (zetaCos i j k m_0 m_1 m_2 m_3 m_12 m_13 m_23) := by
  intro i hi j hj k hk
  interval_cases i <;> interval_cases j <;> interval_cases k <;>
    first
    | exact ⟨rfl, rfl⟩
    | exact ⟨_, rfl, rfl⟩
    | exact ⟨_, rfl, congrArg Except.ok (neg_one_mul _)⟩

end consistency

/-! ### The tuples `helicity/align/dpd.py` really requests

`dpdRequests` is regenerated by driving the alignment generator of `dpd.py` with a recorder in
place of `formulate_zeta_angle`. -/

/-- Every request is `(rotated state, aligned subsystem, reference subsystem)` with the reference
passed last, all indices in range, and hits a table entry for which an angle is formulated. -/
theorem dpd_requests_defined : ∀ r ∈ dpdRequests,
    r.2.1 < 4 ∧ r.2.2.1 < 4 ∧ r.2.2.2 < 4 ∧ r.2.2.2 = r.1 ∧
      (zetaKind r.2.1 r.2.2.1 r.2.2.2 = Kind.zero ∨ zetaKind r.2.1 r.2.2.1 r.2.2.2 = Kind.acos ∨
        zetaKind r.2.1 r.2.2.1 r.2.2.2 = Kind.negAcos) := by
  decide

/-- For every reference subsystem, every rotated state 0..3 and every aligned subsystem 1..3 is
requested (nothing is silently left unaligned). -/
theorem dpd_requests_complete : ∀ ref ∈ [1, 2, 3], ∀ i < 4, ∀ j ∈ [1, 2, 3],
    (ref, i, j, ref) ∈ dpdRequests := by
  decide

/-- Hence every angle the alignment asks for is returned (no exception). -/
theorem dpd_requests_formulated (m_0 m_1 m_2 m_3 m_12 m_13 m_23 : ℝ) : ∀ r ∈ dpdRequests,
    ∃ a, zetaAngle r.2.1 r.2.2.1 r.2.2.2 m_0 m_1 m_2 m_3 m_12 m_13 m_23 = .ok a := by
  intro r hr
  obtain ⟨h1, h2, h3, _, hk⟩ := dpd_requests_defined r hr
  have hc := zeta_kind_consistent m_0 m_1 m_2 m_3 m_12 m_13 m_23 _ h1 _ h2 _ h3
  rcases hk with hk | hk | hk <;> rw [hk] at hc
  · exact ⟨_, hc.1⟩
  · obtain ⟨x, _, ha⟩ := hc; exact ⟨_, ha⟩
  · obtain ⟨x, _, ha⟩ := hc; exact ⟨_, ha⟩

/-! ### Arguments of all arccosines lie in [−1, 1] on the physical region

The physical region is described in the library's own variables: `σ₁+σ₂+σ₃ = Σ m²` and
`Kibble ≤ 0` (the library's `Kibble`, regenerated). Each bound comes from the identity
`4 m₀² (λ_a λ_b − N²) = −c · Kibble` with `c ∈ {σ_k, m₀², m_i²}` (lemmas `…_range`). Where a Källén
factor is `≤ 0` (outside the region, or on its edge where the real code divides by zero)
`Real.sqrt` is `0` and the quotient is `0` by Lean's conventions, so the statement needs no
further guard; the evidence file lists what the real code does there. -/

section range
variable {m_0 m_1 m_2 m_3 m_12 m_13 m_23 : ℝ}

/-- every arccos argument of the scattering angles lies in `[-1, 1]` -/
theorem theta_cos_range (hm : m_0 ≠ 0)
    (hc : m_12 ^ 2 + m_13 ^ 2 + m_23 ^ 2 = m_0 ^ 2 + m_1 ^ 2 + m_2 ^ 2 + m_3 ^ 2)
    (hK : Kibble (m_23 ^ 2) (m_13 ^ 2) (m_12 ^ 2) m_0 m_1 m_2 m_3 ≤ 0) :
    ∀ i < 4, ∀ j < 4, ∀ x, thetaCos i j m_0 m_1 m_2 m_3 m_12 m_13 m_23 = some x → |x| ≤ 1 := by
  intro i hi j hj x h
  interval_cases i <;> interval_cases j
  · simp [thetaCos] at h
  · simp [thetaCos] at h
  · simp [thetaCos] at h
  · simp [thetaCos] at h
  · simp [thetaCos] at h
  · simp [thetaCos] at h
  · obtain rfl := Option.some.inj h; exact cosTheta_1_2_range hm hc hK
  · obtain rfl := Option.some.inj h; exact cosTheta_1_3_range hm hc hK
  · simp [thetaCos] at h
  · obtain rfl := Option.some.inj h; exact cosTheta_2_1_range hm hc hK
  · simp [thetaCos] at h
  · obtain rfl := Option.some.inj h; exact cosTheta_2_3_range hm hc hK
  · simp [thetaCos] at h
  · obtain rfl := Option.some.inj h; exact cosTheta_3_1_range hm hc hK
  · obtain rfl := Option.some.inj h; exact cosTheta_3_2_range hm hc hK
  · simp [thetaCos] at h

/-- every arccos argument of the θ̂ angles lies in `[-1, 1]` -/
theorem thetaHat_cos_range (hm : m_0 ≠ 0)
    (hc : m_12 ^ 2 + m_13 ^ 2 + m_23 ^ 2 = m_0 ^ 2 + m_1 ^ 2 + m_2 ^ 2 + m_3 ^ 2)
    (hK : Kibble (m_23 ^ 2) (m_13 ^ 2) (m_12 ^ 2) m_0 m_1 m_2 m_3 ≤ 0) :
    ∀ i < 4, ∀ j < 4, ∀ x, thetaHatCos i j m_0 m_1 m_2 m_3 m_12 m_13 m_23 = some x → |x| ≤ 1 := by
  intro i hi j hj x h
  interval_cases i <;> interval_cases j
  · simp [thetaHatCos] at h
  · simp [thetaHatCos] at h
  · simp [thetaHatCos] at h
  · simp [thetaHatCos] at h
  · simp [thetaHatCos] at h
  · simp [thetaHatCos] at h
  · obtain rfl := Option.some.inj h; exact cosThetaHat_1_2_range hm hc hK
  · obtain rfl := Option.some.inj h; exact cosThetaHat_1_3_range hm hc hK
  · simp [thetaHatCos] at h
  · obtain rfl := Option.some.inj h; exact cosThetaHat_2_1_range hm hc hK
  · simp [thetaHatCos] at h
  · obtain rfl := Option.some.inj h; exact cosThetaHat_2_3_range hm hc hK
  · simp [thetaHatCos] at h
  · obtain rfl := Option.some.inj h; exact cosThetaHat_3_1_range hm hc hK
  · obtain rfl := Option.some.inj h; exact cosThetaHat_3_2_range hm hc hK
  · simp [thetaHatCos] at h

/-- every arccos argument of the ζ angles lies in `[-1, 1]` -/
theorem zeta_cos_range (hm : m_0 ≠ 0)
    (hc : m_12 ^ 2 + m_13 ^ 2 + m_23 ^ 2 = m_0 ^ 2 + m_1 ^ 2 + m_2 ^ 2 + m_3 ^ 2)
    (hK : Kibble (m_23 ^ 2) (m_13 ^ 2) (m_12 ^ 2) m_0 m_1 m_2 m_3 ≤ 0) :
    ∀ i < 4, ∀ j < 4, ∀ k < 4, ∀ x, zetaCos i j k m_0 m_1 m_2 m_3 m_12 m_13 m_23 = some x → |x| ≤ 1 := by
  intro i hi j hj k hk x h
  interval_cases i <;> interval_cases j <;> interval_cases k
  · simp [zetaCos] at h
  · simp [zetaCos] at h
  · simp [zetaCos] at h
  · simp [zetaCos] at h
  · simp [zetaCos] at h
  · simp [zetaCos] at h
  · obtain rfl := Option.some.inj h; exact cosZeta_0_1_2_range hm hc hK
  · obtain rfl := Option.some.inj h; exact cosZeta_0_1_3_range hm hc hK
  · simp [zetaCos] at h
  · obtain rfl := Option.some.inj h; exact cosZeta_0_2_1_range hm hc hK
  · simp [zetaCos] at h
  · obtain rfl := Option.some.inj h; exact cosZeta_0_2_3_range hm hc hK
  · simp [zetaCos] at h
  · obtain rfl := Option.some.inj h; exact cosZeta_0_3_1_range hm hc hK
  · obtain rfl := Option.some.inj h; exact cosZeta_0_3_2_range hm hc hK
  · simp [zetaCos] at h
  · simp [zetaCos] at h
  · simp [zetaCos] at h
  · simp [zetaCos] at h
  · simp [zetaCos] at h
  · simp [zetaCos] at h
  · simp [zetaCos] at h
  · obtain rfl := Option.some.inj h; exact cosZeta_1_1_2_range hm hc hK
  · obtain rfl := Option.some.inj h; exact cosZeta_1_1_3_range hm hc hK
  · obtain rfl := Option.some.inj h; exact cosZeta_1_2_0_range hm hc hK
  · obtain rfl := Option.some.inj h; exact cosZeta_1_2_1_range hm hc hK
  · simp [zetaCos] at h
  · obtain rfl := Option.some.inj h; exact cosZeta_1_2_3_range hm hc hK
  · obtain rfl := Option.some.inj h; exact cosZeta_1_3_0_range hm hc hK
  · obtain rfl := Option.some.inj h; exact cosZeta_1_3_1_range hm hc hK
  · obtain rfl := Option.some.inj h; exact cosZeta_1_3_2_range hm hc hK
  · simp [zetaCos] at h
  · simp [zetaCos] at h
  · simp [zetaCos] at h
  · simp [zetaCos] at h
  · simp [zetaCos] at h
  · obtain rfl := Option.some.inj h; exact cosZeta_2_1_0_range hm hc hK
  · simp [zetaCos] at h
  · obtain rfl := Option.some.inj h; exact cosZeta_2_1_2_range hm hc hK
  · obtain rfl := Option.some.inj h; exact cosZeta_2_1_3_range hm hc hK
  · simp [zetaCos] at h
  · obtain rfl := Option.some.inj h; exact cosZeta_2_2_1_range hm hc hK
  · simp [zetaCos] at h
  · obtain rfl := Option.some.inj h; exact cosZeta_2_2_3_range hm hc hK
  · obtain rfl := Option.some.inj h; exact cosZeta_2_3_0_range hm hc hK
  · obtain rfl := Option.some.inj h; exact cosZeta_2_3_1_range hm hc hK
  · obtain rfl := Option.some.inj h; exact cosZeta_2_3_2_range hm hc hK
  · simp [zetaCos] at h
  · simp [zetaCos] at h
  · simp [zetaCos] at h
  · simp [zetaCos] at h
  · simp [zetaCos] at h
  · obtain rfl := Option.some.inj h; exact cosZeta_3_1_0_range hm hc hK
  · simp [zetaCos] at h
  · obtain rfl := Option.some.inj h; exact cosZeta_3_1_2_range hm hc hK
  · obtain rfl := Option.some.inj h; exact cosZeta_3_1_3_range hm hc hK
  · obtain rfl := Option.some.inj h; exact cosZeta_3_2_0_range hm hc hK
  · obtain rfl := Option.some.inj h; exact cosZeta_3_2_1_range hm hc hK
  · simp [zetaCos] at h
  · obtain rfl := Option.some.inj h; exact cosZeta_3_2_3_range hm hc hK
  · simp [zetaCos] at h
  · obtain rfl := Option.some.inj h; exact cosZeta_3_3_1_range hm hc hK
  · obtain rfl := Option.some.inj h; exact cosZeta_3_3_2_range hm hc hK
  · simp [zetaCos] at h

end range

/-! ### Geometry: every cosine is the cosine of an angle between two momenta in a rest frame

`pick` selects a momentum by index (1, 2, 3: final-state particles; anything else: the parent
`p₁+p₂+p₃`). The `…_cos_covariant` theorems hold for arbitrary four-vectors; `covCos_rest` turns the
covariant form into `â·b̂` in the rest frame of the first argument. -/

/-- momentum by index -/
def pick (p1 p2 p3 : V4) : Nat → V4
  | 1 => p1
  | 2 => p2
  | 3 => p3
  | _ => p1 + p2 + p3

/-- index of the momentum whose direction (seen from particle `i`) is attached to decay chain `j`:
the parent for `j = i`, else the third particle `6 − i − j` (the sibling of `i` in isobar `j`);
for `i = 0` (seen from the parent) simply particle `j`. -/
def zetaDir (i j : Nat) : Nat := if i = 0 then j else if j = i then 0 else 6 - i - j

section geometry
variable {m_0 m_1 m_2 m_3 m_12 m_13 m_23 : ℝ} {p1 p2 p3 : V4}

/-- `cos θ_ij = −covCos (p_i+p_j) p_i p_k`: minus the cosine between `i` and the spectator `k` in the `(ij)` frame — for all index tuples and ANY three four-vectors (no frame condition). -/
theorem theta_cos_covariant (h : Masses p1 p2 p3 m_0 m_1 m_2 m_3 m_12 m_13 m_23) :
    ∀ i < 4, ∀ j < 4, ∀ x, thetaCos i j m_0 m_1 m_2 m_3 m_12 m_13 m_23 = some x →
      x = -V4.covCos (pick p1 p2 p3 i + pick p1 p2 p3 j) (pick p1 p2 p3 i) (pick p1 p2 p3 (6 - i - j)) := by
  intro i hi j hj x h'
  interval_cases i <;> interval_cases j
  · simp [thetaCos] at h'
  · simp [thetaCos] at h'
  · simp [thetaCos] at h'
  · simp [thetaCos] at h'
  · simp [thetaCos] at h'
  · simp [thetaCos] at h'
  · obtain rfl := Option.some.inj h'; exact cosTheta_1_2_cov h
  · obtain rfl := Option.some.inj h'; exact cosTheta_1_3_cov h
  · simp [thetaCos] at h'
  · obtain rfl := Option.some.inj h'; exact cosTheta_2_1_cov h
  · simp [thetaCos] at h'
  · obtain rfl := Option.some.inj h'; exact cosTheta_2_3_cov h
  · simp [thetaCos] at h'
  · obtain rfl := Option.some.inj h'; exact cosTheta_3_1_cov h
  · obtain rfl := Option.some.inj h'; exact cosTheta_3_2_cov h
  · simp [thetaCos] at h'

/-- `cos θ̂_{i(j)} = covCos p₀ p_i p_j`: the cosine between `i` and `j` seen from the parent — for all index tuples and ANY three four-vectors (no frame condition). -/
theorem thetaHat_cos_covariant (h : Masses p1 p2 p3 m_0 m_1 m_2 m_3 m_12 m_13 m_23) :
    ∀ i < 4, ∀ j < 4, ∀ x, thetaHatCos i j m_0 m_1 m_2 m_3 m_12 m_13 m_23 = some x →
      x = V4.covCos (p1 + p2 + p3) (pick p1 p2 p3 i) (pick p1 p2 p3 j) := by
  intro i hi j hj x h'
  interval_cases i <;> interval_cases j
  · simp [thetaHatCos] at h'
  · simp [thetaHatCos] at h'
  · simp [thetaHatCos] at h'
  · simp [thetaHatCos] at h'
  · simp [thetaHatCos] at h'
  · simp [thetaHatCos] at h'
  · obtain rfl := Option.some.inj h'; exact cosThetaHat_1_2_cov h
  · obtain rfl := Option.some.inj h'; exact cosThetaHat_1_3_cov h
  · simp [thetaHatCos] at h'
  · obtain rfl := Option.some.inj h'; exact cosThetaHat_2_1_cov h
  · simp [thetaHatCos] at h'
  · obtain rfl := Option.some.inj h'; exact cosThetaHat_2_3_cov h
  · simp [thetaHatCos] at h'
  · obtain rfl := Option.some.inj h'; exact cosThetaHat_3_1_cov h
  · obtain rfl := Option.some.inj h'; exact cosThetaHat_3_2_cov h
  · simp [thetaHatCos] at h'

/-- `cos ζⁱ_{j(k)} = covCos p_i d_j d_k`: the cosine, seen from particle `i` (from the parent for `i = 0`), between the directions attached to chains `j` and `k` — for all index tuples and ANY three four-vectors (no frame condition). -/
theorem zeta_cos_covariant (h : Masses p1 p2 p3 m_0 m_1 m_2 m_3 m_12 m_13 m_23) :
    ∀ i < 4, ∀ j < 4, ∀ k < 4, ∀ x, zetaCos i j k m_0 m_1 m_2 m_3 m_12 m_13 m_23 = some x →
      x = V4.covCos (pick p1 p2 p3 i) (pick p1 p2 p3 (zetaDir i j)) (pick p1 p2 p3 (zetaDir i (if k = 0 then i else k))) := by
  intro i hi j hj k hk x h'
  interval_cases i <;> interval_cases j <;> interval_cases k
  · simp [zetaCos] at h'
  · simp [zetaCos] at h'
  · simp [zetaCos] at h'
  · simp [zetaCos] at h'
  · simp [zetaCos] at h'
  · simp [zetaCos] at h'
  · obtain rfl := Option.some.inj h'; exact cosZeta_0_1_2_cov h
  · obtain rfl := Option.some.inj h'; exact cosZeta_0_1_3_cov h
  · simp [zetaCos] at h'
  · obtain rfl := Option.some.inj h'; exact cosZeta_0_2_1_cov h
  · simp [zetaCos] at h'
  · obtain rfl := Option.some.inj h'; exact cosZeta_0_2_3_cov h
  · simp [zetaCos] at h'
  · obtain rfl := Option.some.inj h'; exact cosZeta_0_3_1_cov h
  · obtain rfl := Option.some.inj h'; exact cosZeta_0_3_2_cov h
  · simp [zetaCos] at h'
  · simp [zetaCos] at h'
  · simp [zetaCos] at h'
  · simp [zetaCos] at h'
  · simp [zetaCos] at h'
  · simp [zetaCos] at h'
  · simp [zetaCos] at h'
  · obtain rfl := Option.some.inj h'; exact cosZeta_1_1_2_cov h
  · obtain rfl := Option.some.inj h'; exact cosZeta_1_1_3_cov h
  · obtain rfl := Option.some.inj h'; exact cosZeta_1_2_0_cov h
  · obtain rfl := Option.some.inj h'; exact cosZeta_1_2_1_cov h
  · simp [zetaCos] at h'
  · obtain rfl := Option.some.inj h'; exact cosZeta_1_2_3_cov h
  · obtain rfl := Option.some.inj h'; exact cosZeta_1_3_0_cov h
  · obtain rfl := Option.some.inj h'; exact cosZeta_1_3_1_cov h
  · obtain rfl := Option.some.inj h'; exact cosZeta_1_3_2_cov h
  · simp [zetaCos] at h'
  · simp [zetaCos] at h'
  · simp [zetaCos] at h'
  · simp [zetaCos] at h'
  · simp [zetaCos] at h'
  · obtain rfl := Option.some.inj h'; exact cosZeta_2_1_0_cov h
  · simp [zetaCos] at h'
  · obtain rfl := Option.some.inj h'; exact cosZeta_2_1_2_cov h
  · obtain rfl := Option.some.inj h'; exact cosZeta_2_1_3_cov h
  · simp [zetaCos] at h'
  · obtain rfl := Option.some.inj h'; exact cosZeta_2_2_1_cov h
  · simp [zetaCos] at h'
  · obtain rfl := Option.some.inj h'; exact cosZeta_2_2_3_cov h
  · obtain rfl := Option.some.inj h'; exact cosZeta_2_3_0_cov h
  · obtain rfl := Option.some.inj h'; exact cosZeta_2_3_1_cov h
  · obtain rfl := Option.some.inj h'; exact cosZeta_2_3_2_cov h
  · simp [zetaCos] at h'
  · simp [zetaCos] at h'
  · simp [zetaCos] at h'
  · simp [zetaCos] at h'
  · simp [zetaCos] at h'
  · obtain rfl := Option.some.inj h'; exact cosZeta_3_1_0_cov h
  · simp [zetaCos] at h'
  · obtain rfl := Option.some.inj h'; exact cosZeta_3_1_2_cov h
  · obtain rfl := Option.some.inj h'; exact cosZeta_3_1_3_cov h
  · obtain rfl := Option.some.inj h'; exact cosZeta_3_2_0_cov h
  · obtain rfl := Option.some.inj h'; exact cosZeta_3_2_1_cov h
  · simp [zetaCos] at h'
  · obtain rfl := Option.some.inj h'; exact cosZeta_3_2_3_cov h
  · simp [zetaCos] at h'
  · obtain rfl := Option.some.inj h'; exact cosZeta_3_3_1_cov h
  · obtain rfl := Option.some.inj h'; exact cosZeta_3_3_2_cov h
  · simp [zetaCos] at h'

/-- `θ̂_{i(j)}`: in the parent rest frame the arccos argument is the cosine of the angle between
the momenta of particles `i` and `j`. -/
theorem thetaHat_cos_rest_frame (h : Masses p1 p2 p3 m_0 m_1 m_2 m_3 m_12 m_13 m_23)
    (hx : (p1 + p2 + p3).x = 0) (hy : (p1 + p2 + p3).y = 0) (hz : (p1 + p2 + p3).z = 0)
    (hE : (p1 + p2 + p3).E ≠ 0) :
    ∀ i < 4, ∀ j < 4, ∀ x, thetaHatCos i j m_0 m_1 m_2 m_3 m_12 m_13 m_23 = some x →
      x = V4.dot3 (pick p1 p2 p3 i) (pick p1 p2 p3 j)
          / (Real.sqrt (V4.dot3 (pick p1 p2 p3 i) (pick p1 p2 p3 i))
              * Real.sqrt (V4.dot3 (pick p1 p2 p3 j) (pick p1 p2 p3 j))) := by
  intro i hi j hj x h'
  rw [thetaHat_cos_covariant h i hi j hj x h', V4.covCos_rest _ _ _ hx hy hz hE]

/-- `θ_{ij}`: in the `(ij)` rest frame the arccos argument is the cosine of the angle between
particle `i` and the direction opposite to the spectator `k` (the helicity angle of `i`). -/
theorem theta_cos_rest_frame (h : Masses p1 p2 p3 m_0 m_1 m_2 m_3 m_12 m_13 m_23) :
    ∀ i < 4, ∀ j < 4, ∀ x, thetaCos i j m_0 m_1 m_2 m_3 m_12 m_13 m_23 = some x →
      (pick p1 p2 p3 i + pick p1 p2 p3 j).x = 0 → (pick p1 p2 p3 i + pick p1 p2 p3 j).y = 0 →
      (pick p1 p2 p3 i + pick p1 p2 p3 j).z = 0 → (pick p1 p2 p3 i + pick p1 p2 p3 j).E ≠ 0 →
      x = -(V4.dot3 (pick p1 p2 p3 i) (pick p1 p2 p3 (6 - i - j))
          / (Real.sqrt (V4.dot3 (pick p1 p2 p3 i) (pick p1 p2 p3 i))
              * Real.sqrt (V4.dot3 (pick p1 p2 p3 (6 - i - j)) (pick p1 p2 p3 (6 - i - j))))) := by
  intro i hi j hj x h' hx hy hz hE
  rw [theta_cos_covariant h i hi j hj x h', V4.covCos_rest _ _ _ hx hy hz hE]

/-- `ζⁱ_{j(k)}`: in the rest frame of particle `i` (of the parent for `i = 0`) the arccos argument
is the cosine of the angle between the directions attached to chains `j` and `k`. -/
theorem zeta_cos_rest_frame (h : Masses p1 p2 p3 m_0 m_1 m_2 m_3 m_12 m_13 m_23) :
    ∀ i < 4, ∀ j < 4, ∀ k < 4, ∀ x, zetaCos i j k m_0 m_1 m_2 m_3 m_12 m_13 m_23 = some x →
      (pick p1 p2 p3 i).x = 0 → (pick p1 p2 p3 i).y = 0 → (pick p1 p2 p3 i).z = 0 →
      (pick p1 p2 p3 i).E ≠ 0 →
      x = V4.dot3 (pick p1 p2 p3 (zetaDir i j)) (pick p1 p2 p3 (zetaDir i (if k = 0 then i else k)))
          / (Real.sqrt (V4.dot3 (pick p1 p2 p3 (zetaDir i j)) (pick p1 p2 p3 (zetaDir i j)))
              * Real.sqrt (V4.dot3 (pick p1 p2 p3 (zetaDir i (if k = 0 then i else k)))
                  (pick p1 p2 p3 (zetaDir i (if k = 0 then i else k))))) := by
  intro i hi j hj k hk x h' hx hy hz hE
  rw [zeta_cos_covariant h i hi j hj k hk x h', V4.covCos_rest _ _ _ hx hy hz hE]

/-- The returned θ̂ itself: `± arccos (p̂_i · p̂_j)` in the parent rest frame, `+` for
(1,2), (2,3), (3,1), `−` for the reversed pairs. -/
theorem thetaHat_angle_rest_frame (h : Masses p1 p2 p3 m_0 m_1 m_2 m_3 m_12 m_13 m_23)
    (hx : (p1 + p2 + p3).x = 0) (hy : (p1 + p2 + p3).y = 0) (hz : (p1 + p2 + p3).z = 0)
    (hE : (p1 + p2 + p3).E ≠ 0) :
    ∀ i j, 1 ≤ i → i ≤ 3 → 1 ≤ j → j ≤ 3 → i ≠ j →
      thetaHatAngle i j m_0 m_1 m_2 m_3 m_12 m_13 m_23
        = .ok ((if j = i % 3 + 1 then 1 else -1) *
            Real.arccos (V4.dot3 (pick p1 p2 p3 i) (pick p1 p2 p3 j)
              / (Real.sqrt (V4.dot3 (pick p1 p2 p3 i) (pick p1 p2 p3 i))
                  * Real.sqrt (V4.dot3 (pick p1 p2 p3 j) (pick p1 p2 p3 j))))) := by
  intro i j hi1 hi3 hj1 hj3 hij
  have hk := thetaHat_kind_consistent m_0 m_1 m_2 m_3 m_12 m_13 m_23 i (by omega) j (by omega)
  have hd := thetaHat_domain i (by omega) j (by omega)
  have hr := thetaHat_cos_rest_frame h hx hy hz hE i (by omega) j (by omega)
  rw [hd] at hk
  have h1 : ¬(i = 0 ∨ j = 0) := by omega
  rw [if_neg h1, if_neg hij] at hk
  by_cases hc : j = i % 3 + 1
  · rw [if_pos hc] at hk
    obtain ⟨x, hx', ha⟩ := hk
    rw [ha, ← hr x hx', if_pos hc, one_mul]
  · rw [if_neg hc] at hk
    obtain ⟨x, hx', ha⟩ := hk
    rw [ha, ← hr x hx', if_neg hc, neg_one_mul]

/-- The returned scattering angle itself: the helicity angle of `i` in the `(ij)` rest frame. -/
theorem theta_angle_rest_frame (h : Masses p1 p2 p3 m_0 m_1 m_2 m_3 m_12 m_13 m_23) :
    ∀ i j, 1 ≤ i → i ≤ 3 → 1 ≤ j → j ≤ 3 → i ≠ j →
      (pick p1 p2 p3 i + pick p1 p2 p3 j).x = 0 → (pick p1 p2 p3 i + pick p1 p2 p3 j).y = 0 →
      (pick p1 p2 p3 i + pick p1 p2 p3 j).z = 0 → (pick p1 p2 p3 i + pick p1 p2 p3 j).E ≠ 0 →
      thetaAngle i j m_0 m_1 m_2 m_3 m_12 m_13 m_23
        = .ok (Real.arccos (-(V4.dot3 (pick p1 p2 p3 i) (pick p1 p2 p3 (6 - i - j))
          / (Real.sqrt (V4.dot3 (pick p1 p2 p3 i) (pick p1 p2 p3 i))
              * Real.sqrt (V4.dot3 (pick p1 p2 p3 (6 - i - j)) (pick p1 p2 p3 (6 - i - j))))))) := by
  intro i j hi1 hi3 hj1 hj3 hij hx hy hz hE
  have hk := theta_kind_consistent m_0 m_1 m_2 m_3 m_12 m_13 m_23 i (by omega) j (by omega)
  have hd := theta_domain i (by omega) j (by omega)
  rw [hd, if_pos ⟨hi1, hj1, hij⟩] at hk
  obtain ⟨x, hx', ha⟩ := hk
  rw [ha, ← theta_cos_rest_frame h i (by omega) j (by omega) x hx' hx hy hz hE]

end geometry

/-! ### θ_ij + θ_ji = π -/

section thetasum
variable {m_0 m_1 m_2 m_3 m_12 m_13 m_23 : ℝ}

/-- For all `i ≠ j ∈ {1,2,3}` both scattering angles are formulated and add up to `π`
(only `σ₁+σ₂+σ₃ = Σ m²` is needed). -/
theorem theta_sum_pi
    (hc : m_12 ^ 2 + m_13 ^ 2 + m_23 ^ 2 = m_0 ^ 2 + m_1 ^ 2 + m_2 ^ 2 + m_3 ^ 2) :
    ∀ i j, 1 ≤ i → i ≤ 3 → 1 ≤ j → j ≤ 3 → i ≠ j →
      ∃ a b, thetaAngle i j m_0 m_1 m_2 m_3 m_12 m_13 m_23 = .ok a ∧
        thetaAngle j i m_0 m_1 m_2 m_3 m_12 m_13 m_23 = .ok b ∧ a + b = Real.pi := by
  intro i j hi1 hi3 hj1 hj3 hij
  interval_cases i <;> interval_cases j <;> first | exact absurd rfl hij | skip
  · exact ⟨_, _, rfl, rfl, theta_1_2_add_theta_2_1 hc⟩
  · exact ⟨_, _, rfl, rfl, theta_1_3_add_theta_3_1 hc⟩
  · exact ⟨_, _, rfl, rfl, by rw [add_comm]; exact theta_1_2_add_theta_2_1 hc⟩
  · exact ⟨_, _, rfl, rfl, theta_2_3_add_theta_3_2 hc⟩
  · exact ⟨_, _, rfl, rfl, by rw [add_comm]; exact theta_1_3_add_theta_3_1 hc⟩
  · exact ⟨_, _, rfl, rfl, by rw [add_comm]; exact theta_2_3_add_theta_3_2 hc⟩

end thetasum

/-! ### The ζ sum rule

`ζⁱ_{j(k)} = ζⁱ_{j(l)} + ζⁱ_{l(k)}` for every particle `i ∈ {1,2,3}` and every ordering `(j,k,l)` of
`{1,2,3}` — in particular `ζ¹_{2(3)} = ζ¹_{2(1)} + ζ¹_{1(3)}` and its cyclic permutations — on
the part of the physical region where no Källén factor vanishes (no particle at rest in the
parent frame, no pair at threshold). -/

/-- Interior of the Dalitz region in the library's variables. -/
structure Interior (m_0 m_1 m_2 m_3 m_12 m_13 m_23 : ℝ) : Prop where
  m0 : m_0 ≠ 0
  constraint : m_12 ^ 2 + m_13 ^ 2 + m_23 ^ 2 = m_0 ^ 2 + m_1 ^ 2 + m_2 ^ 2 + m_3 ^ 2
  kibble : Kibble (m_23 ^ 2) (m_13 ^ 2) (m_12 ^ 2) m_0 m_1 m_2 m_3 ≤ 0
  parent1 : 0 < Kallen (m_0 ^ 2) (m_1 ^ 2) (m_23 ^ 2)
  parent2 : 0 < Kallen (m_0 ^ 2) (m_2 ^ 2) (m_13 ^ 2)
  parent3 : 0 < Kallen (m_0 ^ 2) (m_3 ^ 2) (m_12 ^ 2)
  pair12 : 0 < Kallen (m_12 ^ 2) (m_1 ^ 2) (m_2 ^ 2)
  pair13 : 0 < Kallen (m_13 ^ 2) (m_1 ^ 2) (m_3 ^ 2)
  pair23 : 0 < Kallen (m_23 ^ 2) (m_2 ^ 2) (m_3 ^ 2)

section sumrule
variable {m_0 m_1 m_2 m_3 m_12 m_13 m_23 : ℝ}

/-- `λ(x², y², z²) = (x−y−z)(x−y+z)(x+y−z)(x+y+z)` -/
theorem kallen_sq_factor (x y z : ℝ) :
    Kallen (x ^ 2) (y ^ 2) (z ^ 2) = (x - y - z) * (x - y + z) * (x + y - z) * (x + y + z) := by
  unfold Kallen; ring

/-- The usual description of the Dalitz region — non-negative masses, every pair mass strictly
between its thresholds `m_j + m_k < m_jk < m_0 − m_i`, the Mandelstam constraint and
`Kibble ≤ 0` — gives an interior point. -/
theorem interior_of_thresholds (hm1 : 0 ≤ m_1) (hm2 : 0 ≤ m_2) (hm3 : 0 ≤ m_3)
    (t23 : m_2 + m_3 < m_23) (u23 : m_23 < m_0 - m_1)
    (t13 : m_1 + m_3 < m_13) (u13 : m_13 < m_0 - m_2)
    (t12 : m_1 + m_2 < m_12) (u12 : m_12 < m_0 - m_3)
    (hc : m_12 ^ 2 + m_13 ^ 2 + m_23 ^ 2 = m_0 ^ 2 + m_1 ^ 2 + m_2 ^ 2 + m_3 ^ 2)
    (hK : Kibble (m_23 ^ 2) (m_13 ^ 2) (m_12 ^ 2) m_0 m_1 m_2 m_3 ≤ 0) :
    Interior m_0 m_1 m_2 m_3 m_12 m_13 m_23 := by
  have pos4 : ∀ a b c d : ℝ, 0 < a → 0 < b → 0 < c → 0 < d → 0 < a * b * c * d := by
    intro a b c d ha hb hc hd; positivity
  refine ⟨by linarith, hc, hK, ?_, ?_, ?_, ?_, ?_, ?_⟩ <;> rw [kallen_sq_factor] <;>
    apply pos4 <;> linarith

/-- `ζ¹_{2(3)} = ζ¹_{2(1)} + ζ¹_{1(3)}`, `ζ²_{3(1)} = ζ²_{3(2)} + ζ²_{2(1)}`,
`ζ³_{1(2)} = ζ³_{1(3)} + ζ³_{3(2)}` as identities between the returned arccos expressions. -/
theorem zeta_sum_rule_cyclic (h : Interior m_0 m_1 m_2 m_3 m_12 m_13 m_23) :
    zeta_1_2_3 m_0 m_1 m_2 m_3 m_12 m_13 m_23
        = zeta_1_2_1 m_0 m_1 m_2 m_3 m_12 m_13 m_23 + zeta_1_1_3 m_0 m_1 m_2 m_3 m_12 m_13 m_23 ∧
      zeta_2_3_1 m_0 m_1 m_2 m_3 m_12 m_13 m_23
        = zeta_2_3_2 m_0 m_1 m_2 m_3 m_12 m_13 m_23 + zeta_2_2_1 m_0 m_1 m_2 m_3 m_12 m_13 m_23 ∧
      zeta_3_1_2 m_0 m_1 m_2 m_3 m_12 m_13 m_23
        = zeta_3_1_3 m_0 m_1 m_2 m_3 m_12 m_13 m_23 + zeta_3_3_2 m_0 m_1 m_2 m_3 m_12 m_13 m_23 := by
  refine ⟨zeta_sum_rule_1 h.m0 h.constraint h.kibble h.parent1 h.pair12 h.pair13,
    zeta_sum_rule_2 h.m0 h.constraint h.kibble h.parent2 h.pair23 ?_,
    zeta_sum_rule_3 h.m0 h.constraint h.kibble h.parent3 ?_ ?_⟩
  · rw [kallen_symm_yz]; exact h.pair12
  · rw [kallen_symm_yz]; exact h.pair13
  · rw [kallen_symm_yz]; exact h.pair23

/-- The sum rule for every particle `i` and every ordering `(j, k, l)` of `{1,2,3}`:
`ζⁱ_{j(k)} = ζⁱ_{j(l)} + ζⁱ_{l(k)}`. -/
theorem zeta_sum_rule_all (h : Interior m_0 m_1 m_2 m_3 m_12 m_13 m_23) :
    ∀ i j k l, 1 ≤ i → i ≤ 3 → 1 ≤ j → j ≤ 3 → 1 ≤ k → k ≤ 3 → 1 ≤ l → l ≤ 3 →
      j ≠ k → j ≠ l → k ≠ l →
      ∃ a b c, zetaAngle i j k m_0 m_1 m_2 m_3 m_12 m_13 m_23 = .ok a ∧
        zetaAngle i j l m_0 m_1 m_2 m_3 m_12 m_13 m_23 = .ok b ∧
        zetaAngle i l k m_0 m_1 m_2 m_3 m_12 m_13 m_23 = .ok c ∧ a = b + c := by
  intro i j k l hi1 hi3 hj1 hj3 hk1 hk3 hl1 hl3 hjk hjl hkl
  obtain ⟨s1, s2, s3⟩ := zeta_sum_rule_cyclic h
  simp only [
      zeta_1_1_2, cosZeta_1_1_2, zeta_1_1_3, cosZeta_1_1_3, zeta_1_2_1, cosZeta_1_2_1, zeta_1_2_3,
      cosZeta_1_2_3, zeta_1_3_1, cosZeta_1_3_1, zeta_1_3_2, cosZeta_1_3_2, zeta_2_1_2,
      cosZeta_2_1_2, zeta_2_1_3, cosZeta_2_1_3, zeta_2_2_1, cosZeta_2_2_1, zeta_2_2_3,
      cosZeta_2_2_3, zeta_2_3_1, cosZeta_2_3_1, zeta_2_3_2, cosZeta_2_3_2, zeta_3_1_2,
      cosZeta_3_1_2, zeta_3_1_3, cosZeta_3_1_3, zeta_3_2_1, cosZeta_3_2_1, zeta_3_2_3,
      cosZeta_3_2_3, zeta_3_3_1, cosZeta_3_3_1, zeta_3_3_2, cosZeta_3_3_2] at s1 s2 s3
  interval_cases i <;> interval_cases j <;> interval_cases k <;> interval_cases l <;>
    first
    | exact absurd rfl hjk
    | exact absurd rfl hjl
    | exact absurd rfl hkl
    | exact ⟨_, _, _, rfl, rfl, rfl, by
        simp only [
          zeta_1_1_2, cosZeta_1_1_2, zeta_1_1_3, cosZeta_1_1_3, zeta_1_2_1, cosZeta_1_2_1,
          zeta_1_2_3, cosZeta_1_2_3, zeta_1_3_1, cosZeta_1_3_1, zeta_1_3_2, cosZeta_1_3_2,
          zeta_2_1_2, cosZeta_2_1_2, zeta_2_1_3, cosZeta_2_1_3, zeta_2_2_1, cosZeta_2_2_1,
          zeta_2_2_3, cosZeta_2_2_3, zeta_2_3_1, cosZeta_2_3_1, zeta_2_3_2, cosZeta_2_3_2,
          zeta_3_1_2, cosZeta_3_1_2, zeta_3_1_3, cosZeta_3_1_3, zeta_3_2_1, cosZeta_3_2_1,
          zeta_3_2_3, cosZeta_3_2_3, zeta_3_3_1, cosZeta_3_3_1, zeta_3_3_2, cosZeta_3_3_2]
        linarith⟩

end sumrule

/-! ### Events give physical points

Every three-body event written in the rest frame of the parent satisfies the hypotheses used
above (`σ₁+σ₂+σ₃ = Σ m²` holds in any frame, see `Masses.constraint`). -/

section events
variable {m_0 m_1 m_2 m_3 m_12 m_13 m_23 : ℝ} {p1 p2 p3 : V4}

/-- `Kibble = −64 m₀⁴ |p⃗₂ × p⃗₃|² ≤ 0` on every event given in the parent rest frame. -/
theorem kibble_nonpos_of_event (h : Masses p1 p2 p3 m_0 m_1 m_2 m_3 m_12 m_13 m_23)
    (hx : (p1 + p2 + p3).x = 0) (hy : (p1 + p2 + p3).y = 0) (hz : (p1 + p2 + p3).z = 0) :
    Kibble (m_23 ^ 2) (m_13 ^ 2) (m_12 ^ 2) m_0 m_1 m_2 m_3 ≤ 0 := by
  obtain ⟨E1, x1, y1, z1⟩ := p1
  obtain ⟨E2, x2, y2, z2⟩ := p2
  obtain ⟨E3, x3, y3, z3⟩ := p3
  simp only [V4.add_x, V4.add_y, V4.add_z] at hx hy hz
  have ex : x1 = -(x2 + x3) := by linarith
  have ey : y1 = -(y2 + y3) := by linarith
  have ez : z1 = -(z2 + z3) := by linarith
  subst ex ey ez
  have key : Kibble (m_23 ^ 2) (m_13 ^ 2) (m_12 ^ 2) m_0 m_1 m_2 m_3
      = -(64 * ((E1 + E2 + E3) ^ 2) ^ 2
          * ((y2 * z3 - z2 * y3) ^ 2 + (z2 * x3 - x2 * z3) ^ 2 + (x2 * y3 - y2 * x3) ^ 2)) := by
    unfold Kibble Kallen
    rw [h.h0, h.h1, h.h2, h.h3, h.h12, h.h13, h.h23]
    simp only [V4.dot, V4.add_E, V4.add_x, V4.add_y, V4.add_z]
    ring
  rw [key]
  have : 0 ≤ 64 * ((E1 + E2 + E3) ^ 2) ^ 2
      * ((y2 * z3 - z2 * y3) ^ 2 + (z2 * x3 - x2 * z3) ^ 2 + (x2 * y3 - y2 * x3) ^ 2) := by
    positivity
  linarith

/-- Hence all arccos arguments of all three families lie in `[-1, 1]` on every event (parent rest
frame, `m₀ ≠ 0`). -/
theorem cos_range_of_event (h : Masses p1 p2 p3 m_0 m_1 m_2 m_3 m_12 m_13 m_23)
    (hx : (p1 + p2 + p3).x = 0) (hy : (p1 + p2 + p3).y = 0) (hz : (p1 + p2 + p3).z = 0)
    (hm : m_0 ≠ 0) :
    (∀ i < 4, ∀ j < 4, ∀ x, thetaCos i j m_0 m_1 m_2 m_3 m_12 m_13 m_23 = some x → |x| ≤ 1) ∧
    (∀ i < 4, ∀ j < 4, ∀ x, thetaHatCos i j m_0 m_1 m_2 m_3 m_12 m_13 m_23 = some x → |x| ≤ 1) ∧
    (∀ i < 4, ∀ j < 4, ∀ k < 4, ∀ x,
      zetaCos i j k m_0 m_1 m_2 m_3 m_12 m_13 m_23 = some x → |x| ≤ 1) :=
  ⟨theta_cos_range hm h.constraint (kibble_nonpos_of_event h hx hy hz),
    thetaHat_cos_range hm h.constraint (kibble_nonpos_of_event h hx hy hz),
    zeta_cos_range hm h.constraint (kibble_nonpos_of_event h hx hy hz)⟩

/-- In the parent rest frame `λ(m₀², m₁², σ₁) = 4 m₀² |p⃗₁|²` (and likewise for 2, 3): the `parent`
conditions of `Interior` say that no particle is at rest. -/
theorem kallen_parent_of_event (h : Masses p1 p2 p3 m_0 m_1 m_2 m_3 m_12 m_13 m_23)
    (hx : (p1 + p2 + p3).x = 0) (hy : (p1 + p2 + p3).y = 0) (hz : (p1 + p2 + p3).z = 0) :
    Kallen (m_0 ^ 2) (m_1 ^ 2) (m_23 ^ 2) = 4 * m_0 ^ 2 * V4.dot3 p1 p1 ∧
    Kallen (m_0 ^ 2) (m_2 ^ 2) (m_13 ^ 2) = 4 * m_0 ^ 2 * V4.dot3 p2 p2 ∧
    Kallen (m_0 ^ 2) (m_3 ^ 2) (m_12 ^ 2) = 4 * m_0 ^ 2 * V4.dot3 p3 p3 := by
  obtain ⟨E1, x1, y1, z1⟩ := p1
  obtain ⟨E2, x2, y2, z2⟩ := p2
  obtain ⟨E3, x3, y3, z3⟩ := p3
  simp only [V4.add_x, V4.add_y, V4.add_z] at hx hy hz
  have ex : x1 = -(x2 + x3) := by linarith
  have ey : y1 = -(y2 + y3) := by linarith
  have ez : z1 = -(z2 + z3) := by linarith
  subst ex ey ez
  refine ⟨?_, ?_, ?_⟩ <;>
  · simp only [Kallen, h.h0, h.h1, h.h2, h.h3, h.h12, h.h13, h.h23, V4.dot, V4.dot3, V4.add_E,
      V4.add_x, V4.add_y, V4.add_z]
    ring

/-- Conversely, every point of the region described in the library's variables — `m₀ > 0`, the
Mandelstam constraint, `Kibble ≤ 0`, particle 1 not at rest (`λ(m₀², m₁², σ₁) > 0`) — is the set of
invariant masses of an event in the parent rest frame, with the energies
`E_i = (m₀² + m_i² − σ_i)/(2 m₀)`. -/
theorem event_of_dalitz_point (hm0 : 0 < m_0)
    (hc : m_12 ^ 2 + m_13 ^ 2 + m_23 ^ 2 = m_0 ^ 2 + m_1 ^ 2 + m_2 ^ 2 + m_3 ^ 2)
    (hK : Kibble (m_23 ^ 2) (m_13 ^ 2) (m_12 ^ 2) m_0 m_1 m_2 m_3 ≤ 0)
    (h1 : 0 < Kallen (m_0 ^ 2) (m_1 ^ 2) (m_23 ^ 2)) :
    ∃ q1 q2 q3 : V4, Masses q1 q2 q3 m_0 m_1 m_2 m_3 m_12 m_13 m_23 ∧
      (q1 + q2 + q3).x = 0 ∧ (q1 + q2 + q3).y = 0 ∧ (q1 + q2 + q3).z = 0 ∧
      (q1 + q2 + q3).E = m_0 ∧ q1.E = (m_0 ^ 2 + m_1 ^ 2 - m_23 ^ 2) / (2 * m_0) ∧
      q2.E = (m_0 ^ 2 + m_2 ^ 2 - m_13 ^ 2) / (2 * m_0) ∧
      q3.E = (m_0 ^ 2 + m_3 ^ 2 - m_12 ^ 2) / (2 * m_0) := by
  have e : m_12 ^ 2 = m_0 ^ 2 + m_1 ^ 2 + m_2 ^ 2 + m_3 ^ 2 - m_13 ^ 2 - m_23 ^ 2 := by linarith
  have hm : m_0 ≠ 0 := hm0.ne'
  set E1 := (m_0 ^ 2 + m_1 ^ 2 - m_23 ^ 2) / (2 * m_0) with hE1d
  set E2 := (m_0 ^ 2 + m_2 ^ 2 - m_13 ^ 2) / (2 * m_0) with hE2d
  set q := Real.sqrt (Kallen (m_0 ^ 2) (m_1 ^ 2) (m_23 ^ 2)) / (2 * m_0) with hqd
  have hqpos : 0 < q := div_pos (Real.sqrt_pos.mpr h1) (by positivity)
  have hE1 : 2 * m_0 * E1 = m_0 ^ 2 + m_1 ^ 2 - m_23 ^ 2 := by rw [hE1d]; field_simp
  have hE2 : 2 * m_0 * E2 = m_0 ^ 2 + m_2 ^ 2 - m_13 ^ 2 := by rw [hE2d]; field_simp
  have hq : q ^ 2 = E1 ^ 2 - m_1 ^ 2 := by
    rw [hqd, div_pow, Real.sq_sqrt h1.le, hE1d]
    unfold Kallen
    field_simp
    ring
  set d := E1 * E2 - (m_12 ^ 2 - m_1 ^ 2 - m_2 ^ 2) / 2 with hdd
  set x := d / q with hxd
  have hd : q * x = d := by rw [hxd]; field_simp
  -- |p⃗₁|²|p⃗₂|² − (p⃗₁·p⃗₂)² = −Kibble / (64 m₀⁴) ≥ 0
  have hgram : (E1 ^ 2 - m_1 ^ 2) * (E2 ^ 2 - m_2 ^ 2) - d ^ 2
      = -Kibble (m_23 ^ 2) (m_13 ^ 2) (m_12 ^ 2) m_0 m_1 m_2 m_3 / (64 * m_0 ^ 4) := by
    rw [hdd, hE1d, hE2d]
    unfold Kibble Kallen
    rw [e]
    field_simp
    ring
  have hw : 0 ≤ E2 ^ 2 - m_2 ^ 2 - x ^ 2 := by
    have h64 : 0 ≤ -Kibble (m_23 ^ 2) (m_13 ^ 2) (m_12 ^ 2) m_0 m_1 m_2 m_3 / (64 * m_0 ^ 4) :=
      div_nonneg (by linarith) (by positivity)
    have : E2 ^ 2 - m_2 ^ 2 - x ^ 2 = ((E1 ^ 2 - m_1 ^ 2) * (E2 ^ 2 - m_2 ^ 2) - d ^ 2) / q ^ 2 := by
      rw [hxd, ← hq]; field_simp
    rw [this, hgram]
    exact div_nonneg h64 (by positivity)
  set y := Real.sqrt (E2 ^ 2 - m_2 ^ 2 - x ^ 2) with hyd
  have hxy : x ^ 2 + y ^ 2 = E2 ^ 2 - m_2 ^ 2 := by rw [hyd, Real.sq_sqrt hw]; ring
  refine ⟨⟨E1, q, 0, 0⟩, ⟨E2, x, y, 0⟩, ⟨m_0 - E1 - E2, -q - x, -y, 0⟩,
    masses_of_components E1 E2 q x y hc hE1 hE2 hq hxy (by rw [hd]), ?_, ?_, ?_, ?_, rfl, rfl, ?_⟩
  · simp only [V4.add_x]; ring
  · simp only [V4.add_y]; ring
  · simp only [V4.add_z]; ring
  · simp only [V4.add_E]; ring
  · show m_0 - E1 - E2 = (m_0 ^ 2 + m_3 ^ 2 - m_12 ^ 2) / (2 * m_0)
    rw [hE1d, hE2d, e]; field_simp; ring

/-- Inside the mass thresholds these energies are non-negative (so the event is physical). -/
theorem energy_nonneg_of_threshold (m0 mi mjk : ℝ) (hm0 : 0 < m0) (hmi : 0 ≤ mi) (hmjk : 0 ≤ mjk)
    (hthr : mjk ≤ m0 - mi) : 0 ≤ (m0 ^ 2 + mi ^ 2 - mjk ^ 2) / (2 * m0) := by
  apply div_nonneg _ (by positivity)
  nlinarith [mul_nonneg hmi hm0.le, mul_nonneg hmjk hmjk, mul_self_le_mul_self hmjk hthr]

end events

/-! ### Non-vacuity -/

/-- a concrete event in the parent rest frame: p₁ = (13; −3,−4,0), p₂ = (5; 3,0,0),
p₃ = (5; 0,4,0); m₀ = 23, m₁ = 12, m₂ = 4, m₃ = 3 -/
example : ∃ (p1 p2 p3 : V4) (m_0 m_1 m_2 m_3 m_12 m_13 m_23 : ℝ),
    Masses p1 p2 p3 m_0 m_1 m_2 m_3 m_12 m_13 m_23 ∧ (p1 + p2 + p3).x = 0 ∧
      (p1 + p2 + p3).y = 0 ∧ (p1 + p2 + p3).z = 0 ∧ m_0 ≠ 0 ∧ V4.dot3 p2 p3 ≠ V4.dot3 p1 p2 := by
  refine ⟨⟨13, -3, -4, 0⟩, ⟨5, 3, 0, 0⟩, ⟨5, 0, 4, 0⟩, 23, 12, 4, 3, Real.sqrt 308, Real.sqrt 315,
    Real.sqrt 75, ⟨?_, ?_, ?_, ?_, ?_, ?_, ?_⟩, ?_, ?_, ?_, ?_, ?_⟩
  all_goals first
    | (rw [Real.sq_sqrt (by norm_num)]; norm_num [V4.dot, V4.add_E, V4.add_x, V4.add_y, V4.add_z])
    | norm_num [V4.dot, V4.dot3, V4.add_E, V4.add_x, V4.add_y, V4.add_z]

/-- the same point is an interior point: the sum rule is not vacuous -/
example : Interior 23 12 4 3 (Real.sqrt 308) (Real.sqrt 315) (Real.sqrt 75) := by
  have e1 : Real.sqrt 308 ^ 2 = 308 := Real.sq_sqrt (by norm_num)
  have e2 : Real.sqrt 315 ^ 2 = 315 := Real.sq_sqrt (by norm_num)
  have e3 : Real.sqrt 75 ^ 2 = 75 := Real.sq_sqrt (by norm_num)
  constructor <;> (try simp only [Kibble, Kallen, e1, e2, e3]) <;> norm_num

end Ampverif.Props.C19
