/-
C13 — dynamics attach to the right decay with the right variables and defaults.

Theorems about the executable selector / formulation model `Ampverif.Model.C13`
(Model/C13Selector.lean, sharing the reaction layer of Model/C01Builder.lean), tied to /repo on
every run by the T2 correspondence of tools/props/C13.py (assignment histories through the real
`DynamicsSelector`, formulated models with recording builders).
-/
import Ampverif.Lemmas.C13Selector
import Ampverif.Lemmas.C13Examples

namespace Ampverif.Props.C13
open Ampverif.Model.C01 Ampverif.Model.C13

/-! ## The selector refines the one-line specification -/

/-- After ANY history of assignments (by name, particle, decay, node, unsupported selections, in any
order, with re-assignments) the builder of a decay of the reaction is the builder of the LAST
operation whose selection denotes that decay, else `create_non_dynamic`. -/
theorem C13_selector (ctx : Ctx) (ds : List Decay) (ops : List Op) (d : Decay) (hd : d ∈ ds) :
    choice (run ctx ds ops) d = some (spec ctx ops d) := by
  unfold run spec
  exact choice_fold_present ctx ops d (init ds) nonDynamic (by simp [choice_init, hd])

/-- A decay that is not a key of the selector and is never selected directly (by decay / by node)
stays outside, whatever is assigned by name: `__formulate_dynamics` gives it the factor 1. -/
theorem C13_selector_absent (ctx : Ctx) (ds : List Decay) (ops : List Op) (d : Decay) (hd : d ∉ ds)
    (hdirect : ∀ op ∈ ops, ∀ d', (op.sel = .byDecay d' ∨ ∃ t n, op.sel = .byNode t n ∧ ctx.decayAt t n = some d') → d' ≠ d) :
    choice (run ctx ds ops) d = none := by
  unfold run
  have h0 : choice (init ds) d = none := by simp [choice_init, hd]
  generalize init ds = m at h0
  induction ops generalizing m with
  | nil => simpa using h0
  | cons op rest ih =>
    simp only [List.foldl_cons]
    apply ih
    · intro op' hop'; exact hdirect op' (List.mem_cons_of_mem _ hop')
    · exact choice_assign_absent ctx m op d h0 (hdirect op (by simp))

/-! ## Formulation: the right builder on the node's own variables -/

/-- **C13_exact.** With the selector covering the combinatorics chains (fix e918528): for every history
of assignments, every transition, every chain of it and every node, the dynamics factor is the call
of the builder chosen by the LAST operation denoting this node's decay (the non-dynamic default, i.e.
the factor 1, when no operation denotes it) on the decaying particle and on THIS node's variable set.
So a history changes exactly the chains that contain a denoted node. -/
theorem C13_exact (r : Reaction) (ops : List Op) (t : Transition) (ht : t ∈ r.transitions)
    (ch : Chain) (hch : ch ∈ t.chains) (ni : NodeInfo) (hni : ni ∈ (r.tree ch.topo).infos) :
    nodeDyn (run (ctxOf r) (initialDecays true r) ops) r ch.states t.inters ni
      = some ⟨spec (ctxOf r) ops (dkey ch.states t.inters ni),
              (stateAt ch.states ni.self.edge).pidx, varSet r ch.states t.inters ni⟩ := by
  unfold nodeDyn
  rw [C13_selector _ _ _ _ (chain_decay_mem r t ht ch hch ni hni)]

/-- **C13_exact on the chain AMPLITUDE, for every builder configuration.** Whatever `use_helicity_couplings`
(amplitude coefficient `C` per chain vs helicity coupling `H` per node), the naming flags, the alignment,
`stable_final_state_ids` and `scalar_initial_state_mass` are: the dynamics factors multiplied into the amplitude
of a chain are, node by node (ascending node ids), exactly the calls of `C13_exact` — the builder of the LAST
operation denoting that node's decay on the decaying particle and the node's own variable set. -/
theorem C13_exact_amplitude (cfg : Config) (r : Reaction) (ops : List Op) (pm : List (Name × Name))
    (t : Transition) (ht : t ∈ r.transitions) (ch : Chain) (hch : ch ∈ t.chains) :
    (chainSkel cfg (run (ctxOf r) (initialDecays true r) ops) r pm t ch).nodes.map (·.dyn)
      = (r.tree ch.topo).infosSorted.map (fun ni =>
          some ⟨spec (ctxOf r) ops (dkey ch.states t.inters ni),
                (stateAt ch.states ni.self.edge).pidx, varSet r ch.states t.inters ni⟩) := by
  simp only [chainSkel, List.map_map]
  apply List.map_congr_left
  intro ni hni
  have hmem : ni ∈ (r.tree ch.topo).infos := by
    unfold Tree.infosSorted at hni
    exact (mem_sortBy _ _ _).1 hni
  simp only [Function.comp, nodeSkel]
  exact C13_exact r ops t ht ch hch ni hmem

/-- … hence every node of every chain contributes a factor (none is dropped), in either mode -/
theorem C13_amplitude_factors (cfg : Config) (r : Reaction) (ops : List Op) (pm : List (Name × Name))
    (t : Transition) (ht : t ∈ r.transitions) (ch : Chain) (hch : ch ∈ t.chains) :
    (chainSkel cfg (run (ctxOf r) (initialDecays true r) ops) r pm t ch).dynFactors
      = (r.tree ch.topo).infosSorted.map (fun ni =>
          ⟨spec (ctxOf r) ops (dkey ch.states t.inters ni),
           (stateAt ch.states ni.self.edge).pidx, varSet r ch.states t.inters ni⟩) := by
  have h := C13_exact_amplitude cfg r ops pm t ht ch hch
  unfold ChainSkel.dynFactors
  have h2 : ∀ (xs : List NodeSkel), xs.filterMap (·.dyn) = (xs.map (·.dyn)).filterMap id := by
    intro xs; simp [List.filterMap_map]
  rw [h2, h]
  simp [List.filterMap_map]

/-- the two coefficient modes differ in the coefficient / coupling symbols ONLY: same Wigner-D angles, same
dynamics factors -/
theorem C13_mode_independent (cfg cfg' : Config) (m : Choices) (r : Reaction) (pm pm' : List (Name × Name))
    (t : Transition) (ch : Chain) :
    (chainSkel cfg m r pm t ch).nodes.map (fun ns => (ns.phi, ns.theta, ns.dyn))
      = (chainSkel cfg' m r pm' t ch).nodes.map (fun ns => (ns.phi, ns.theta, ns.dyn)) := by
  simp [chainSkel, nodeSkel, List.map_map, Function.comp]

/-- helicity-coupling mode: no chain coefficient, one coupling per node; amplitude-coefficient mode: one chain
coefficient, no couplings -/
theorem C13_mode_shape (cfg : Config) (m : Choices) (r : Reaction) (pm : List (Name × Name)) (t : Transition) (ch : Chain) :
    (cfg.helicityCouplings = true →
        (chainSkel cfg m r pm t ch).coef = none ∧ ∀ ns ∈ (chainSkel cfg m r pm t ch).nodes, ns.coupling.isSome = true)
    ∧ (cfg.helicityCouplings = false →
        (chainSkel cfg m r pm t ch).coef.isSome = true ∧ ∀ ns ∈ (chainSkel cfg m r pm t ch).nodes, ns.coupling = none) := by
  constructor <;> intro h <;> simp [chainSkel, nodeSkel, h]

/-- no operation denotes the node's decay ⇒ the non-dynamic builder (factor 1) -/
theorem C13_unselected (r : Reaction) (ops : List Op) (d : Decay)
    (h : ∀ op ∈ ops, denotes (ctxOf r) op.sel d = false) : spec (ctxOf r) ops d = nonDynamic := by
  unfold spec
  suffices hl : lastDenoting (ctxOf r) ops d = none by simp [hl]
  induction ops with
  | nil => rfl
  | cons op rest ih =>
    simp only [lastDenoting]
    rw [ih (fun op' hop' => h op' (List.mem_cons_of_mem _ hop'))]
    simp [h op (by simp)]

/-- **C13_L and the mass symbols.** The variable set handed to the builder consists of the invariant-mass
symbol of the decaying edge (`m_` + the sorted final-state ids below it), the mass symbols of the two
children in the order helicity child / opposite-helicity child, the helicity angles of the helicity
child, and `L = l_magnitude` whenever the interaction has one; only without it the integer spin of the
parent is used, and a half-integer spin gives no L. -/
theorem C13_L (r : Reaction) (ss : List State) (is : List Inter) (ni : NodeInfo) :
    let vs := varSet r ss is ni
    vs.inv = massSym ni.self ∧ vs.m1 = massSym ni.c1 ∧ vs.m2 = massSym ni.c2
    ∧ vs.phi = phiSym ni.c1 ni.anc ∧ vs.theta = thetaSym ni.c1 ni.anc
    ∧ (∀ l, (interAt is ni.nid).l = some l → vs.l = some l)
    ∧ ((interAt is ni.nid).l = none →
        vs.l = (let p := r.particle (stateAt ss ni.self.edge).pidx
                if p.spin2 % 2 = 0 then some (p.spin2 / 2) else none)) := by
  refine ⟨rfl, rfl, rfl, rfl, rfl, ?_, ?_⟩
  · intro l hl; simp [varSet, hl]
  · intro hl; simp [varSet, hl]

/-! ## Parameter defaults -/

/-- **C13_defaults.** Under the explicit hypothesis that `latex or name` identifies a particle's table
values, the collected defaults (last writer wins) give every mass / width / radius / custom parameter
the value that ANY call wrote for it: equal names ⇒ equal defaults, and `m_{X}`, `\Gamma_{X}` carry
the mass and width tokens of the particle table. -/
theorem C13_defaults (one : Val) (r : Reaction) (pinfo : Nat → PInfo) (calls : List DynCall)
    (hid : ∀ c ∈ calls, ∀ c' ∈ calls, (r.particle c.parent).ident = (r.particle c'.parent).ident →
      (pinfo c.parent).mass = (pinfo c'.parent).mass ∧ (pinfo c.parent).width = (pinfo c'.parent).width) :
    ∀ c ∈ calls, ∀ kv ∈ builderDefaults one (kindOfId c.builder) (r.particle c.parent) (pinfo c.parent),
      dictGet? kv.1 (collect (callWrites one r pinfo calls)) = some kv.2 := by
  intro c hc kv hkv
  apply collect_consistent
  · intro a ha b hb hab
    simp only [callWrites, List.mem_flatMap] at ha hb
    obtain ⟨ca, hca, ha⟩ := ha
    obtain ⟨cb, hcb, hb⟩ := hb
    have hI := hid ca hca cb hcb
    -- every write is (resMass, mass) | (resWidth, width) | (resRadius, one) | (customPar, one)
    have ha' := builderDefaults_shape _ _ _ _ _ ha
    have hb' := builderDefaults_shape _ _ _ _ _ hb
    rcases ha' with rfl | rfl | rfl | rfl <;> rcases hb' with rfl | rfl | rfl | rfl <;>
      simp only [] at hab ⊢ <;>
      first
        | rfl
        | exact (hI ((resName_inj _ _).1 hab)).1
        | exact (hI ((resName_inj _ _).2 hab)).2
        | (exfalso; simp [resMass, resWidth, resRadius, customPar] at hab)
  · simp only [callWrites, List.mem_flatMap]
    exact ⟨c, hc, hkv⟩

/-! ## Witness for the unrepaired selector (before fix e918528) and non-vacuity -/

open Examples

/-- before fix e918528 the omega node of the swapped chain is not a key: assigning by name gives the
own chain builder 1 and leaves the swapped chain WITHOUT dynamics (factor 1) -/
theorem C13_witness_swapped_chain :
    let ctx := ctxOf omegaR
    let m := run ctx (initialDecays false omegaR) [⟨.byName n!"omega(782)", 1⟩]
    choice m omegaDecayOwn = some 1 ∧ choice m omegaDecaySwapped = none := by
  decide

/-- with the fix both chains get the builder -/
example :
    let m := run (ctxOf omegaR) (initialDecays true omegaR) [⟨.byName n!"omega(782)", 1⟩]
    choice m omegaDecayOwn = some 1 ∧ choice m omegaDecaySwapped = some 1 := by
  decide

/-- an interleaved history (name, decay, particle, node, unknown name, unsupported, name again, node):
the specification gives builder 3 for the own omega decay of transition 0 (last denoting op is the
second by-name assignment), 4 for the top node of transition 2, and the hypotheses of `C13_selector` hold -/
example : omegaDecayOwn ∈ initialDecays true omegaR ∧ spec (ctxOf omegaR) history omegaDecayOwn = 3
    ∧ choice (run (ctxOf omegaR) (initialDecays true omegaR) history) omegaDecayOwn = some 3
    ∧ (initialDecays true omegaR).length = 12 := by
  decide

/-- `C13_exact` instantiated: six builder calls for the omega nodes (3 transitions x 2 chains) -/
example : ((allCalls (run (ctxOf omegaR) (initialDecays true omegaR) [⟨.byName n!"omega(782)", 1⟩]) omegaR).filter
    (fun c => c.builder = 1)).length = 6 := by decide

end Ampverif.Props.C13
