/-
Line-protocol driver for the M1 model (C18): one S-expression request per line, one reply per line.
Run with `lake env lean --run Ampverif/Drivers/C18.lean` (stdin → stdout).
-/
import Ampverif.Drivers.M1Sexp
open Ampverif.Model Ampverif.Drivers

partial def loop (h : IO.FS.Stream) (out : IO.FS.Stream) (v : Variant) : IO Unit := do
  let line ← h.getLine
  if line.isEmpty then return
  if (tokenize line).isEmpty then
    loop h out v
  else
    match parseSexp line with
    | none => out.putStrLn "err parse"; loop h out v
    | some sx =>
      match parseVariant sx with
      | some v' => out.putStrLn "ok"; loop h out v'
      | none =>
        match m1Command v sx with
        | some r => out.putStrLn r; loop h out v
        | none => out.putStrLn "err command"; loop h out v

def main : IO Unit := do
  let stdin ← IO.getStdin
  let stdout ← IO.getStdout
  loop stdin stdout Variant.current
